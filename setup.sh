#!/bin/sh
# Offline build of the Lean development (model, proofs, correspondence driver). No network needed.
cd "$(dirname "$0")/lean" || exit 2
lake build
