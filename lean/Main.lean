/-
Correspondence driver: one request line in, one response line out, flushing after every line.
The first token of each line selects the sub-protocol.
-/
import Dos.StoreDriver
import Dos.StreamDriver
import Dos.MergeDriver
import Dos.MultiDriver
import Dos.ConcDriver
import Dos.BackupDriver
import Dos.Sample
import Dos.BackupFolders

open Dos

structure All where
  store : StoreDriver.DState := {}
  stream : StreamDriver.DState := {}
  multi : MultiDriver.DState := {}
  conc : ConcDriver.DState := {}
  bk : BackupDriver.DState := {}

def stepAll (a : All) (line : String) : All × String :=
  let l := line.trimAscii.toString
  if l.startsWith "store acts " || l.startsWith "store image " || l.startsWith "store safety " then
    let (d, out) := StoreDriver.levelC a.store (((l.drop 6).toString.splitOn " ").filter (· != ""))
    ({ a with store := d }, out)
  else if l.startsWith "store " then
    let (d, out) := StoreDriver.stepLine a.store (l.drop 6).toString
    ({ a with store := d }, out)
  else if l.startsWith "stream " then
    let (d, out) := StreamDriver.stepLine a.stream (l.drop 7).toString
    ({ a with stream := d }, out)
  else if l.startsWith "merge " then (a, MergeDriver.stepLine (l.drop 6).toString)
  else if l.startsWith "multi " then
    let (d, out) := MultiDriver.stepLine a.multi (l.drop 6).toString
    ({ a with multi := d }, out)
  else if l.startsWith "conc " then
    let (d, out) := ConcDriver.stepLine a.conc (l.drop 5).toString
    ({ a with conc := d }, out)
  else if l.startsWith "bk " then
    let (d, out) := BackupDriver.stepLine a.bk (l.drop 3).toString
    ({ a with bk := d }, out)
  else if l.startsWith "sample " then
    -- the reads of the AUTO heuristic on a stream of the given size: offset.length,…
    match (l.drop 7).toString.trimAscii.toString.toNat? with
    | some size =>
      let rs := Sample.sampleReads size
      (a, if rs.isEmpty then "-" else String.intercalate "," (rs.map (fun r => s!"{r.1}.{r.2}")))
    | none => (a, "bad-op")
  else if l.startsWith "bkf " then
    -- backup folder management: `bkf <keep> <attempts>`, attempts = names (numbers) or `x` for a failed one, comma separated;
    -- answer: the folder list and what last-backup points to after every attempt
    match ((l.drop 4).toString.splitOn " ").filter (· != "") with
    | [keep, atts] =>
      match keep.toNat? with
      | some k =>
        let toks := if atts == "-" then [] else atts.splitOn ","
        let steps := toks.foldl (fun (acc : BackupFolders.FSt × List String) tok =>
          let s' := match tok.toNat? with
            | some n => BackupFolders.takeBackup k acc.1 n
            | none => BackupFolders.failBackup acc.1
          (s', acc.2 ++ [Wire.showNats s'.backups ++ "@" ++ (match s'.last with | some x => toString x | none => "-")])) ({ backups := [], last := none }, [])
        (a, if steps.2.isEmpty then "-" else String.intercalate ";" steps.2)
      | none => (a, "bad-op")
    | _ => (a, "bad-op")
  else if l == "reset" then ({}, "ok")
  else (a, "bad-op unknown-protocol")

partial def loop (hin hout : IO.FS.Stream) (a : All) : IO Unit := do
  let line ← hin.getLine
  if line.isEmpty then return ()
  let (a', out) := stepAll a line
  hout.putStrLn out
  hout.flush
  loop hin hout a'

def main : IO Unit := do
  loop (← IO.getStdin) (← IO.getStdout) {}
