/-
Correspondence driver: one request line in, one response line out, flushing after every line.
The first token of each line selects the sub-protocol.
-/
import Dos.StoreDriver

open Dos

structure All where
  store : StoreDriver.DState := {}

def stepAll (a : All) (line : String) : All × String :=
  let l := line.trimAscii.toString
  if l.startsWith "store " then
    let (d, out) := StoreDriver.stepLine a.store (l.drop 6).toString
    ({ a with store := d }, out)
  else if l == "reset" then ({}, "ok")
  else (a, "bad-op unknown-protocol")

partial def loop (hin hout : IO.FS.Stream) (a : All) : IO Unit := do
  let line ← hin.getLine
  if line.isEmpty then return ()
  let (a', out) := stepAll a line
  hout.putStrLn out
  hout.flush
  loop hin hout a'

def main : IO Unit := do
  loop (← IO.getStdin) (← IO.getStdout) {}
