import Dos.Conc
import Dos.Wire
import Dos.StoreDriver

namespace Dos.ConcDriver
open Dos Dos.IO Dos.Conc Dos.Wire

structure DState where
  sizes : Array Nat := #[]
  zlens : Array Nat := #[]
  s : St := St.empty 1
  acts : Array Act := #[]

def DState.tab (d : DState) : Tab := { size := fun i => d.sizes.getD i 0, zlen := fun i => d.zlens.getD i 0 }

def parseRows (s : String) : Option (List Row) :=
  if s == "-" then some [] else
  (splitOn1 s ';').mapM (fun e =>
    match (splitOn1 e '.').mapM (·.toNat?) with
    | some [i, k, p, o, l, z, sz] => some { id := i, key := k, pack := p, off := o, len := l, z := z != 0, size := sz }
    | _ => none)

def parsePacks (s : String) : Option Packs :=
  if s == "-" then some [] else
  (splitOn1 s '|').mapM (fun e =>
    match splitOn1 e ':' with
    | [p, segs] => do
      let p ← p.toNat?
      let gs ← if segs == "-" then some [] else (splitOn1 segs ',').mapM (fun g =>
        match splitOn1 g '.' with
        | [c, z] => do pure ({ cid := (← c.toNat?), z := z == "1" } : Seg)
        | _ => none)
      pure (p, gs)
    | _ => none)

/-- replay a schedule: `p<i>` = the i-th packer action, `w<k>` = a writer publishes content k (no-op if the file is there) -/
def replay (t : Tab) (acts : Array Act) : XSt → List String → Nat → Option Nat → XSt × Option Nat
  | x, [], _, bad => (x, bad)
  | x, tok :: rest, i, bad =>
    if tok.startsWith "p" then
      match (tok.drop 1).toString.toNat? with
      | some n =>
        match acts[n]? with
        | some a =>
          let ok := pkAllowed t x a
          replay t acts (exec x a) rest (i + 1) (if ok then bad else (bad.orElse (fun _ => some i)))
        | none => replay t acts x rest (i + 1) bad
      | none => replay t acts x rest (i + 1) bad
    else if tok.startsWith "w" then
      match (tok.drop 1).toString.toNat? with
      | some k =>
        let x' := if hasLooseX x k then x
                  else { x with loose := x.loose ++ [(k, { cid := k, dur := .synced })] }
        replay t acts x' rest (i + 1) bad
      | none => replay t acts x rest (i + 1) bad
    else replay t acts x rest (i + 1) bad

def stepLine (d : DState) (line : String) : DState × String :=
  match (line.trimAscii.toString.splitOn " ").filter (· != "") with
  | ["new", target] =>
    match target.toNat? with
    | some tg => ({ d with s := St.empty tg, acts := #[] }, "ok")
    | none => (d, "bad-op")
  | "tab" :: entries =>
    match entries.mapM (fun e => match splitOn1 e ',' with
        | [a, b] => do pure ((← a.toNat?), (← b.toNat?))
        | _ => none) with
    | some l => ({ d with sizes := d.sizes ++ (l.map (·.1)).toArray, zlens := d.zlens ++ (l.map (·.2)).toArray }, "ok")
    | none => (d, "bad-op")
  | ["init", loose, packs, rows] =>
    match natList loose, parsePacks packs, parseRows rows with
    | some l, some p, some r => ({ d with s := { d.s with loose := l.map (fun k => (k, k)), packs := p, rows := r } }, "ok")
    | _, _, _ => (d, "bad-op")
  | ["acts", mode, cl, order, zs, unlinked] =>
    match StoreDriver.parseMode mode, natList order, boolList zs, natList unlinked with
    | some _, some order, some zs, some un =>
      let acts := actsPackAll d.tab d.s order zs (cl == "1") ++ actsClean d.s un
      ({ d with acts := acts.toArray },
        (if acts.isEmpty then "-" else " ".intercalate (acts.map StoreDriver.showAct)) ++ " | " ++ StoreDriver.lengthsOf d.tab acts)
    | _, _, _, _ => (d, "bad-op")
  | ["run", sched] =>
    let toks := if sched == "-" then [] else splitOn1 sched ','
    let (x, bad) := replay d.tab d.acts (ofSt d.s) toks 0 none
    (d, (match bad with | none => "disciplined=1" | some i => s!"disciplined=0@{i}") ++ " " ++ StoreDriver.showState (toSt x))
  | _ => (d, "bad-op")

end Dos.ConcDriver
