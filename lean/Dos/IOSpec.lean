/-
Specification-side definitions for Level C (crash / power loss / single fault): what it means for an operation's
action list to be safe at every cut point.
-/
import Dos.IO
import Dos.Inv

namespace Dos.IO
open Dos

/-- every key in use is an ordinary content id (the two reserved ids stand for garbage and the repack pack) -/
def Bounded (s : St) : Prop := ∀ k, has s k = true → k < garbage

def keysOf (s : St) : List Nat := rowKeys s ++ looseKeys s

/-- same files and index (the cached pack id of the handle is not part of the disk) -/
def SameDisk (a b : St) : Prop :=
  a.packs = b.packs ∧ a.rows = b.rows ∧ (∀ e, e ∈ a.loose ↔ e ∈ b.loose) ∧ a.target = b.target

/-- The action list `acts`, started in the quiescent state `s`, is safe at every cut point:
    * killed after any number `k` of actions, whatever part `cut` of the user-space buffers had reached the OS,
      every key of `keep` reads back as itself (or fails loudly) and no key reads as anything but itself   (C05);
    * the same after a power loss at that point, where only fsynced file data survives                      (C06);
    * the same when action `k` fails and the `finally` handlers run, and the store is then structurally
      intact (`Inv`), so that the operation can be run again                                                (C17). -/
def AllSafe (t : Tab) (s : St) (acts : List Act) (keep : List Nat) : Prop :=
  ∀ k : Nat,
    (∀ cut : Nat → Nat, SafeImg t (crashImg (execAll (ofSt s) (acts.take k)) cut) keep) ∧
    SafeImg t (powerImg (execAll (ofSt s) (acts.take k))) keep ∧
    SafeImg t (toSt (runFault (ofSt s) acts k)) keep ∧
    Inv t (toSt (runFault (ofSt s) acts k))

end Dos.IO
