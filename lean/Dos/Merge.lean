/-
Level A: the sorted-merge helpers behind the large-request path of every bulk operation (property C16):
`detect_where_sorted`, `merge_sorted`, `chunk_iterator`, and the two lookup strategies built on them.
No imports: compiled into the driver.
-/
namespace Dos.Merge

inductive Loc | left | both | right
  deriving DecidableEq, Repr

inductive MErr | leftUnsorted | rightUnsorted
  deriving DecidableEq, Repr

/-- the local variables of the generator `detect_where_sorted` -/
structure MS where
  lastL : Nat
  lastR : Nat
  restL : List Nat
  restR : List Nat
  lEx : Bool
  rEx : Bool
  nowLeft : Bool
  deriving Repr

/-- one pass of the `while not (left_exhausted and right_exhausted)` body:
    the element yielded, the next state, or the `ValueError` raised after the yield -/
def bodyStep (s : MS) : (Nat × Loc) × (Except MErr MS) :=
  -- which element is yielded, whether both sides advance, the (possibly switched) `now_left`
  let (item, advBoth, nowLeft) : (Nat × Loc) × Bool × Bool :=
    if s.nowLeft then
      if s.rEx then ((s.lastL, .left), false, true)
      else if s.lastL = s.lastR then ((s.lastL, .both), true, true)
      else if s.lastL < s.lastR then ((s.lastL, .left), false, true)
      else ((s.lastR, .right), false, false)
    else if s.lEx then ((s.lastR, .right), false, false)
    else if s.lastL = s.lastR then ((s.lastL, .both), true, false)
    else if s.lastL > s.lastR then ((s.lastR, .right), false, false)
    else ((s.lastL, .left), false, true)
  -- advance the left iterator
  let afterL : Except MErr (MS × Bool) :=
    if nowLeft || advBoth then
      match s.restL with
      | x :: xs => if x ≤ s.lastL then .error .leftUnsorted else .ok ({ s with lastL := x, restL := xs }, nowLeft)
      | [] => .ok ({ s with lEx := true }, false)
    else .ok (s, nowLeft)
  match afterL with
  | .error e => (item, .error e)
  | .ok (s1, newNow) =>
    -- advance the right iterator (the test uses `now_left`, not the cached `new_now_left`)
    if !nowLeft || advBoth then
      match s1.restR with
      | y :: ys => if y ≤ s1.lastR then (item, .error .rightUnsorted)
                   else (item, .ok { s1 with lastR := y, restR := ys, nowLeft := newNow })
      | [] => (item, .ok { s1 with rEx := true, nowLeft := true })
    else (item, .ok { s1 with nowLeft := newNow })

def loop : Nat → MS → List (Nat × Loc) → List (Nat × Loc) × Option MErr
  | 0, _, acc => (acc.reverse, none)
  | f + 1, s, acc =>
    if s.lEx && s.rEx then (acc.reverse, none)
    else
      match bodyStep s with
      | (item, .error e) => ((item :: acc).reverse, some e)
      | (item, .ok s') => loop f s' (item :: acc)

/-- `detect_where_sorted(left, right)` with `left_key = identity`: everything it yields, and the error it ends with -/
def detect (l r : List Nat) : List (Nat × Loc) × Option MErr :=
  match l, r with
  | [], [] => ([], none)
  | l, r =>
    let lEx := l.isEmpty
    let rEx := r.isEmpty
    let lastL := l.headD 0
    let lastR := r.headD 0
    let nowLeft := !(lEx || (!rEx && lastL > lastR))
    loop (l.length + r.length + 1)
      { lastL := lastL, lastR := lastR, restL := l.tail, restR := r.tail, lEx := lEx, rEx := rEx, nowLeft := nowLeft } []

/-- `merge_sorted` -/
def mergeSorted (l r : List Nat) : List Nat × Option MErr :=
  let (items, e) := detect l r
  (items.map (·.1), e)

/-- the specification: the textbook two-pointer classification -/
def classify : List Nat → List Nat → List (Nat × Loc)
  | [], r => r.map (fun y => (y, .right))
  | l, [] => l.map (fun x => (x, .left))
  | x :: xs, y :: ys =>
    if x = y then (x, .both) :: classify xs ys
    else if x < y then (x, .left) :: classify xs (y :: ys)
    else (y, .right) :: classify (x :: xs) ys
termination_by l r => l.length + r.length

def strictSorted : List Nat → Bool
  | [] => true
  | [_] => true
  | a :: b :: rest => decide (a < b) && strictSorted (b :: rest)

/-- `chunk_iterator(iterator, size)` -/
def chunks (n : Nat) : Nat → List Nat → List (List Nat)
  | 0, _ => []
  | _, [] => []
  | f + 1, l => l.take n :: chunks n f (l.drop n)

def chunkIter (n : Nat) (l : List Nat) : List (List Nat) := if n = 0 then [] else chunks n l.length l

def insSorted (x : Nat) : List Nat → List Nat
  | [] => [x]
  | y :: ys => if x ≤ y then x :: y :: ys else y :: insSorted x ys

def sortNats (l : List Nat) : List Nat := l.foldr insSorted []

/-- The index lookup of every bulk operation: which of the requested keys are indexed.
    `idx` = the indexed keys (duplicate-free), `req` = the requested keys as a set (duplicate-free),
    `inMax` = `_IN_SQL_MAX_LENGTH`, `scanMax` = `_MAX_CHUNK_ITERATE_LENGTH`. -/
def bulkFind (idx req : List Nat) (inMax scanMax : Nat) : List Nat :=
  if req.length ≤ scanMax then
    -- chunked `WHERE hashkey IN (...)` queries
    (chunkIter inMax req).flatMap (fun ch => idx.filter (fun k => ch.contains k))
  else
    -- one ordered scan of the whole index merged with the sorted request
    ((detect (sortNats idx) (sortNats req)).1.filter (fun it => it.2 == .both)).map (·.1)

end Dos.Merge
