/-
Line protocol for the stream models (C07).
-/
import Dos.Stream
import Dos.Wire

namespace Dos.StreamDriver
open Dos.Stream Dos.Wire

inductive Cur
  | none
  | ref (r : Ref)
  | packed (p : Packed)
  | comp (d : Decomp ToyState)

structure DState where
  cur : Cur := .none

def showErr : Err → String
  | .value => "ValueError" | .notImplemented => "NotImplementedError" | .assertion => "AssertionError" | .os => "OSError"

def showOut : Out → String
  | .data b => "data:" ++ hexOfBytes b
  | .pos n => s!"pos:{n}"
  | .err e => "err:" ++ showErr e

def parseCmd : List String → Option Cmd
  | ["read", n] => n.toInt?.map .read
  | ["seek", t, w] => do pure (.seek (← t.toInt?) (← w.toNat?))
  | ["tell"] => some .tell
  | _ => none

def stepLine (d : DState) (line : String) : DState × String :=
  match (line.trimAscii.toString.splitOn " ").filter (· != "") with
  | ["open", "ref", obj] =>
    match bytesOfHex obj with
    | some b => ({ cur := .ref { data := b, pos := 0 } }, "ok")
    | none => (d, "bad-op")
  | ["open", "packed", pre, obj, post] =>
    match bytesOfHex pre, bytesOfHex obj, bytesOfHex post with
    | some a, some b, some c => ({ cur := .packed (Packed.init (a ++ b ++ c) a.length b.length) }, "ok")
    | _, _, _ => (d, "bad-op")
  | ["open", "comp", pre, plain, post, lz, chunk] =>
    match bytesOfHex pre, bytesOfHex plain, bytesOfHex post, chunk.toNat? with
    | some a, some b, some c, some ch =>
      let e := toyEnc b
      let dcm : Decomp ToyState :=
        { cs := Packed.init (a ++ e ++ c) a.length e.length, d := toyDecoder.init, buf := [], pos := 0,
          lazy := if lz == "1" then some b else none, loose := none, chunk := ch, fuel := e.length + b.length + 8 }
      ({ cur := .comp dcm }, "ok " ++ hexOfBytes e)
    | _, _, _, _ => (d, "bad-op")
  | "cmd" :: rest =>
    match parseCmd rest with
    | none => (d, "bad-op")
    | some c =>
      match d.cur with
      | .none => (d, "bad-op no-stream")
      | .ref r => let (r', o) := r.step c; ({ cur := .ref r' }, showOut o)
      | .packed p => let (p', o) := p.step c; ({ cur := .packed p' }, showOut o)
      | .comp s => let (s', o) := s.step toyDecoder c; ({ cur := .comp s' }, showOut o)
  | ["enc", plain] =>
    match bytesOfHex plain with
    | some b => (d, hexOfBytes (toyEnc b))
    | none => (d, "bad-op")
  | _ => (d, "bad-op")

end Dos.StreamDriver
