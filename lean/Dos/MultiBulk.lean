/-
The bulk read path (`_get_objects_stream_meta_generator`) as it is written: three stages over *sets* of keys, each stage
batched (`IN`-lists of `inMax` keys, or one ordered scan of the whole index when more than `scanMax` keys are asked for).

  1. the requested keys (duplicates removed) are looked up in the handle's pinned index snapshot;
  2. the keys not found there are tried as loose files;
  3. if some are still missing, the session is closed, a fresh snapshot is pinned and those keys are looked up again,
     pack by pack; what is still not found is reported missing (unless `skip_if_missing`).

`Dos.Multi.lookup` is the one-key semantics (what properties C08 and C16 say a bulk request must equal, key by key).
No imports beyond Level B and the merge helpers: compiled into the driver.
-/
import Dos.Multi
import Dos.Merge

namespace Dos.Multi
open Dos Dos.Merge

/-- the rows of `rows` whose key is among `ks`, found with the batched index lookup -/
def findRows (rows : List Row) (ks : List Nat) (inMax scanMax : Nat) : List Row :=
  (bulkFind (rows.map (·.key)) ks inMax scanMax).filterMap (fun k => findRow rows k)

/-- the bulk lookup of handle `h` for the request `req`: what is reported for which key, and the state afterwards -/
def bulkLookup (m : MSt) (h : Nat) (req : List Nat) (inMax scanMax : Nat) (skipMissing : Bool) :
    List (Nat × Found) × MSt :=
  let ks := req.eraseDups
  let (rows, m1) := pin m h
  -- stage 1: the pinned snapshot
  let hit1 := findRows rows ks inMax scanMax
  let out1 := hit1.map (fun r => (r.key, Found.packed r))
  let rest1 := ks.filter (fun k => !(hit1.map (·.key)).contains k)
  -- stage 2: loose files, as they are now
  let out2 := rest1.filterMap (fun k => (findLoose m.disk.loose k).map (fun c => (k, Found.loose c)))
  let rest2 := rest1.filter (fun k => (findLoose m.disk.loose k).isNone)
  match rest2 with
  | [] => (out1 ++ out2, m1)
  | _ =>
    -- stage 3: the session is closed and reopened; the same batched lookup on the current index
    let m2 := setSnap m1 h (some m.disk.rows)
    let hit3 := findRows m.disk.rows rest2 inMax scanMax
    let out3 := hit3.map (fun r => (r.key, Found.packed r))
    let rest3 := rest2.filter (fun k => !(hit3.map (·.key)).contains k)
    (out1 ++ out2 ++ out3 ++ (if skipMissing then [] else rest3.map (fun k => (k, Found.missing))), m2)

end Dos.Multi
