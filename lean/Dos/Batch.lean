/-
The batched index queries of the maintenance operations, as they are written: `pack_all_loose` and `clean_storage` ask
the index which of the loose keys it holds (IN-batches, or one ordered scan above the threshold); `delete_objects` deletes
the requested keys chunk by chunk.  The theorems in `Proofs/BatchProofs.lean` say that what they compute is exactly what the
Level-B operations `toPack`, `clean`, `delete` are defined by, for every batch size and threshold.
-/
import Dos.Store
import Dos.Merge

namespace Dos.Batch
open Dos Dos.Merge

/-- `existing_packed_hashkeys` of `clean_storage` / `pack_all_loose` -/
def packedAmong (s : St) (inMax scanMax : Nat) : List Nat := bulkFind (rowKeys s) (looseKeys s) inMax scanMax

/-- the loose keys `pack_all_loose` goes on to pack -/
def packTargets (s : St) (inMax scanMax : Nat) : List Nat :=
  (looseKeys s).filter (fun k => !(packedAmong s inMax scanMax).contains k)

/-- the loose files `clean_storage` removes -/
def cleanBatched (s : St) (inMax scanMax : Nat) : St :=
  { s with loose := s.loose.filter (fun e => !(packedAmong s inMax scanMax).contains e.1) }

/-- the index keys `delete_objects` finds (and deletes), chunk by chunk of the request as given (repetitions included) -/
def deletedPacked (s : St) (ks : List Nat) (inMax : Nat) : List Nat :=
  (chunkIter inMax ks).flatMap (fun ch => (rowKeys s).filter (fun k => ch.contains k))

def deleteBatched (s : St) (ks : List Nat) (inMax : Nat) : St × List Nat :=
  let goneLoose := ks.filter (fun k => hasLoose s k)
  let gonePacked := deletedPacked s ks inMax
  ({ s with loose := s.loose.filter (fun e => !ks.contains e.1),
            rows := s.rows.filter (fun r => !gonePacked.contains r.key) },
   (goneLoose ++ gonePacked).eraseDups)

end Dos.Batch
