/-
Interleavings of loose writers, readers and one packer (property C04), at the granularity of individual file-system
calls and SQL statements.

Shared state: the Level-C disk `XSt` (loose files, pack files with their flushed prefix, the committed index, the packer's
open transaction).  Actors:
  * the packer executes I/O actions (`Dos.IO.Act`, interpreted by `Dos.IO.exec`);
  * a writer has finished its private sandbox file and then: checks whether the destination exists, renames the file into
    `loose/` if not, returns the key (acknowledgement);
  * a reader pins an index snapshot (possibly long before the query: a long-open handle), looks its key up in the
    snapshot, reads the pack if found, otherwise tries the loose file, and if that is gone closes its session, pins a
    fresh snapshot and looks again.
A schedule is a list of events; every interleaving is a schedule.  No imports beyond Level C: compiled into the driver.
-/
import Dos.IO

namespace Dos.Conc
open Dos Dos.IO

structure Wr where
  key : Nat
  /-- 0: about to check the destination; 1: about to rename; 2: about to return the key; 3: returned -/
  pc : Nat
  deriving Repr, DecidableEq

structure Rd where
  key : Nat
  snap : Option (List Row)
  /-- 0 no snapshot; 1 pinned; 2 row found (pack to read); 3 not in snapshot (loose to open); 4 loose missing (session
      to refresh); 5 re-pinned; 6 row found on the second lookup; 9 finished -/
  pc : Nat
  row : Option Row
  res : Option ReadRes
  /-- ghost: the keys acknowledged when the query started (the lookup in the snapshot) -/
  ackedAtStart : List Nat
  deriving Repr

structure CSt where
  x : XSt
  writers : List Wr
  readers : List Rd
  /-- ghost: keys whose addition has returned, or that existed beforehand -/
  acked : List Nat
  deriving Repr

inductive Ev
  | pk (a : Act)
  | wcheck (w : Nat) | wpublish (w : Nat) | wack (w : Nat)
  | pin (r : Nat) | look (r : Nat) | readPack (r : Nat) | openLoose (r : Nat) | repin (r : Nat) | look2 (r : Nat)
  deriving Repr

/-- what a reader gets when it opens the pack of row `r` now and reads the row's range: only flushed bytes are there -/
def readFlushed (t : Tab) (x : XSt) (r : Row) : ReadRes :=
  match getX x.packs r.pack with
  | none => .wrong
  | some pk =>
    match findSeg t (pk.segs.take pk.flushed) r.off r.len r.z with
    | some c => .ok c
    | none => .wrong

def updW (l : List Wr) (i : Nat) (f : Wr → Wr) : List Wr := l.mapIdx (fun j w => if j = i then f w else w)
def updR (l : List Rd) (i : Nat) (f : Rd → Rd) : List Rd := l.mapIdx (fun j r => if j = i then f r else r)

def hasLooseX (x : XSt) (k : Nat) : Bool := x.loose.any (fun e => e.1 == k)

/-- one event; an event that is not enabled for its actor leaves the state unchanged -/
def cstep (t : Tab) (g : CSt) : Ev → CSt
  | .pk a => { g with x := exec g.x a }
  | .wcheck i =>
    match g.writers[i]? with
    | some w => if w.pc = 0 then { g with writers := updW g.writers i (fun w => { w with pc := if hasLooseX g.x w.key then 2 else 1 }) } else g
    | none => g
  | .wpublish i =>
    match g.writers[i]? with
    | some w =>
      if w.pc = 1 then
        { g with x := { g.x with loose := g.x.loose.filter (fun e => e.1 != w.key) ++ [(w.key, { cid := w.key, dur := .synced })] },
                 writers := updW g.writers i (fun w => { w with pc := 2 }) }
      else g
    | none => g
  | .wack i =>
    match g.writers[i]? with
    | some w => if w.pc = 2 then { g with acked := w.key :: g.acked, writers := updW g.writers i (fun w => { w with pc := 3 }) } else g
    | none => g
  | .pin i =>
    match g.readers[i]? with
    | some r => if r.pc = 0 then { g with readers := updR g.readers i (fun r => { r with snap := some g.x.rows, pc := 1 }) } else g
    | none => g
  | .look i =>
    match g.readers[i]? with
    | some r =>
      if r.pc = 1 then
        { g with readers := updR g.readers i (fun r =>
            match findRow (r.snap.getD []) r.key with
            | some row => { r with row := some row, pc := 2, ackedAtStart := g.acked }
            | none => { r with pc := 3, ackedAtStart := g.acked }) }
      else g
    | none => g
  | .readPack i =>
    match g.readers[i]? with
    | some r =>
      if r.pc = 2 ∨ r.pc = 6 then
        { g with readers := updR g.readers i (fun r => { r with res := r.row.map (readFlushed t g.x), pc := 9 }) }
      else g
    | none => g
  | .openLoose i =>
    match g.readers[i]? with
    | some r =>
      if r.pc = 3 then
        { g with readers := updR g.readers i (fun r =>
            match g.x.loose.find? (fun e => e.1 == r.key) with
            | some e => { r with res := some (if e.2.dur = .buffered then .wrong else .ok e.2.cid), pc := 9 }
            | none => { r with pc := 4 }) }
      else g
    | none => g
  | .repin i =>
    match g.readers[i]? with
    | some r => if r.pc = 4 then { g with readers := updR g.readers i (fun r => { r with snap := some g.x.rows, pc := 5 }) } else g
    | none => g
  | .look2 i =>
    match g.readers[i]? with
    | some r =>
      if r.pc = 5 then
        { g with readers := updR g.readers i (fun r =>
            match findRow (r.snap.getD []) r.key with
            | some row => { r with row := some row, pc := 6 }
            | none => { r with res := some .missing, pc := 9 }) }
      else g
    | none => g

def crun (t : Tab) : CSt → List Ev → CSt
  | g, [] => g
  | g, e :: es => crun t (cstep t g e) es

/-- The discipline a packer action must respect in the state in which it executes (decidable; the correspondence
    harness evaluates it on the real interleaved traces):
    a loose file is unlinked only if its key is in the committed index; a commit publishes only rows whose segments lie in
    the flushed prefix of their pack, keeps every committed row and keeps keys unique; a pack is only truncated by nothing
    (`n = 0`); packs are never unlinked or relinked and rows never deleted or moved (no repack / delete in C04). -/
def segOKb (t : Tab) (segs : List Seg) (r : Row) : Bool :=
  match findSeg t segs r.off r.len r.z with
  | some c => c == r.key && t.size r.key == r.size
  | none => false

def pkAllowed (t : Tab) (x : XSt) : Act → Bool
  | .looseUnlink k => x.rows.any (fun r => r.key == k)
  | .sqlCommit =>
    (workOf x).all (fun r => match getX x.packs r.pack with
                             | some pk => segOKb t (pk.segs.take pk.flushed) r
                             | none => false) &&
    x.rows.all (fun r => (workOf x).contains r) && nodupB ((workOf x).map (·.key))
  | .pkTruncate _ n => n == 0
  | .pkUnlink _ | .pkLink _ _ | .sqlDelete _ | .sqlMove _ | .sqlRepoint _ _ => false
  | .renameLoose _ | .sbCreate | .sbWrite _ | .sbFlush | .sbFsync | .sbClose | .sbRemove => false
  | _ => true

/-- every packer event of the schedule is allowed in the state in which it executes -/
def disciplined (t : Tab) : CSt → List Ev → Bool
  | _, [] => true
  | g, e :: es =>
    (match e with
     | .pk a => pkAllowed t g.x a
     | _ => true) && disciplined t (cstep t g e) es

def CSt.init (s : St) (wkeys rkeys : List Nat) : CSt :=
  { x := ofSt s, writers := wkeys.map (fun k => { key := k, pc := 0 }),
    readers := rkeys.map (fun k => { key := k, snap := none, pc := 0, row := none, res := none, ackedAtStart := [] }),
    acked := keysOf' s }
where keysOf' (s : St) : List Nat := rowKeys s ++ looseKeys s

end Dos.Conc
