/-
Descriptor and chunk accounting over the Level-C action lists (property C18).

`held acts` = the file descriptors inside the container folder that are open after the actions `acts` have run:
the sandbox file (`sbCreate` … `sbClose`), a pack opened for appending (`pkOpen` … `pkClose`) and its lock file
(`lock` … `unlock`; the lock file is closed when the `with` block is left, immediately before it is removed).
Directory syncs and reads of loose files open and close their descriptor within the action.
-/
import Dos.IO

namespace Dos.Fd
open Dos Dos.IO

def delta : Act → Int
  | .sbCreate => 1 | .sbClose => -1
  | .pkOpen _ => 1 | .pkClose _ => -1
  | .lock _ => 1 | .unlock _ => -1
  | _ => 0

def held : List Act → Int
  | [] => 0
  | a :: as => delta a + held as

/-- descriptors held by the state itself: an open sandbox file, and a pack + lock file per held lock -/
def heldBy (x : XSt) : Int := (if x.sandbox.isSome then 1 else 0) + 2 * (x.locks.length : Int)

/-- the largest piece of data a single read or write call of the streaming loops moves, for an object of `size` bytes
    processed with chunk size `chunk` (`while chunk := read(n)`): never more than the chunk size -/
def pieces (chunk : Nat) : Nat → Nat → List Nat
  | 0, _ => []
  | _, 0 => []
  | f + 1, size => min chunk size :: pieces chunk f (size - min chunk size)

def chunkSizes (chunk size : Nat) : List Nat := if chunk = 0 then [] else pieces chunk size size

end Dos.Fd
