/-
Level C, continued: `pack_all_loose(..., do_fsync=…)`.  Without `do_fsync` the pack is flushed only by the `close()` at the
end of its `with lock_pack(...)` block; the index rows are still committed after that block, and the loose files are unlinked
(per pack, if asked) only after the commit.
-/
import Dos.IOImport

namespace Dos.IO
open Dos

/-- session end of `pack_all_loose` with options -/
def sessionEndCleanO (p : Nat) (rows : List Row) (clean doFsync : Bool) : List Act :=
  sessionEndO p rows false doFsync true ++ (if clean then rows.map (fun r => Act.looseUnlink r.key) else [])

def wOpenPAO (t : Tab) (clean doFsync : Bool) (w : WSt) : WSt :=
  let s1 := openCur t w.s
  let p := s1.cur
  match w.openP with
  | some q =>
    if q = p then { w with s := s1 }
    else { s := s1, openP := some p, rows := [],
           acts := w.acts ++ sessionEndCleanO q w.rows clean doFsync ++ [.lock p, .pkOpen p] }
  | none => { s := s1, openP := some p, rows := [], acts := w.acts ++ [.lock p, .pkOpen p] }

def wPackLooseCO (t : Tab) (clean doFsync : Bool) (w : WSt) (cz : Nat × Bool) : WSt :=
  let w1 := wOpenPAO t clean doFsync w
  let p := w1.s.cur
  let r := rowFor t w1.s p cz.1 cz.2
  { w1 with s := writeObj t w1.s cz.1 cz.2, rows := w1.rows ++ [r],
            acts := w1.acts ++ [.readLoose cz.1, .pkWrite p ⟨cz.1, cz.2⟩] }

def actsPackAllO (t : Tab) (s : St) (order : List Nat) (zs : List Bool) (clean doFsync : Bool) : List Act :=
  match order with
  | [] => []
  | _ =>
    let w := (order.zip zs).foldl (wPackLooseCO t clean doFsync) { s := s, openP := none, rows := [], acts := [] }
    match w.openP with
    | some q => w.acts ++ sessionEndCleanO q w.rows clean doFsync
    | none => w.acts

end Dos.IO
