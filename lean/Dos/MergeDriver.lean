import Dos.Merge
import Dos.Wire

namespace Dos.MergeDriver
open Dos.Merge Dos.Wire

def showLoc : Loc → String
  | .left => "L" | .both => "B" | .right => "R"

def showErr : Option MErr → String
  | none => "none" | some .leftUnsorted => "left" | some .rightUnsorted => "right"

def showItems (l : List (Nat × Loc)) : String :=
  if l.isEmpty then "-" else ",".intercalate (l.map (fun it => s!"{it.1}{showLoc it.2}"))

def stepLine (line : String) : String :=
  match (line.trimAscii.toString.splitOn " ").filter (· != "") with
  | ["detect", l, r] =>
    match natList l, natList r with
    | some l, some r => let (items, e) := detect l r; s!"items={showItems items} err={showErr e}"
    | _, _ => "bad-op"
  | ["chunks", n, l] =>
    match n.toNat?, natList l with
    | some n, some l => "|".intercalate ((chunkIter n l).map showNats)
    | _, _ => "bad-op"
  | ["bulk", inMax, scanMax, idx, req] =>
    match inMax.toNat?, scanMax.toNat?, natList idx, natList req with
    | some a, some b, some idx, some req => showNats (Merge.sortNats (bulkFind idx req a b))
    | _, _, _, _ => "bad-op"
  | _ => "bad-op"

end Dos.MergeDriver
