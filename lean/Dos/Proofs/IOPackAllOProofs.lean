/-
Level C for `pack_all_loose` with `do_fsync` as an option: with the default it is the action list already analysed
(`safe_packAll` applies); without it, kill and fault safety still hold for every state, order, verdict list and cut point.
-/
import Dos.IOPackAllO
import Dos.Proofs.IOImportProofs
import Dos.Proofs.IOPackAllOAux

namespace Dos.IO
open Dos

theorem sessionEndCleanO_true (p : Nat) (rows : List Row) (cl : Bool) :
    sessionEndCleanO p rows cl true = sessionEndClean p rows cl := by
  simp only [sessionEndCleanO, sessionEndClean, sessionEndO_true]

theorem wOpenPAO_true (t : Tab) (cl : Bool) (w : WSt) : wOpenPAO t cl true w = wOpenPA t cl w := by
  unfold wOpenPAO wOpenPA
  simp only [sessionEndCleanO_true]
  cases w.openP <;> rfl

theorem wPackLooseCO_true (t : Tab) (cl : Bool) : wPackLooseCO t cl true = wPackLooseC t cl := by
  funext w cz
  unfold wPackLooseCO wPackLooseC
  simp only [wOpenPAO_true]

/-- with the default `do_fsync=True` the optioned compiler is the one already analysed -/
theorem actsPackAllO_fsync (t : Tab) (s : St) (order : List Nat) (zs : List Bool) (cl : Bool) :
    actsPackAllO t s order zs cl true = actsPackAll t s order zs cl := by
  cases order with
  | nil => rfl
  | cons c cs =>
    simp only [actsPackAllO, actsPackAll, wPackLooseCO_true, sessionEndCleanO_true]
    cases (List.foldl (wPackLooseC t cl) { s := s, openP := none, rows := [], acts := [] } ((c :: cs).zip zs)).openP <;> rfl

/-- `pack_all_loose` is safe against kills and single faults whatever `do_fsync` is -/
theorem crashfault_packAllO {t : Tab} (wf : t.WF) {s : St} (inv : Inv t s) (hb : Bounded s)
    (order : List Nat) (zs : List Bool) (cl : Bool)
    (ho : ∀ k ∈ order, hasLoose s k = true ∧ hasRow s k = false) (hn : order.Nodup) (hl : zs.length = order.length)
    (doFsync : Bool) :
    CrashFaultSafe t s (actsPackAllO t s order zs cl doFsync) (keysOf s) := by
  have _ := hb
  have _ := ho
  have _ := hn
  have _ := hl
  apply crashFaultSafe_of_allP wf
  exact Imp.packAllO_allP (Imp.idle_ofSt inv) order zs cl doFsync (by intro h; cases h)

end Dos.IO
