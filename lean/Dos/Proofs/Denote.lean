/-
Denotation of the abstract state as bytes, and property C03 at the byte level.
-/
import Dos.Proofs.Basic

namespace Dos

abbrev Bytes := List UInt8

/-- contents and the compression codec, as parameters with the one law that matters -/
structure Codec where
  bytes : Nat → Bytes
  enc : Bytes → Bytes
  dec : Bytes → Option Bytes
  dec_enc : ∀ b, dec (enc b) = some b

/-- the content table agrees with the actual bytes -/
structure Codec.Agrees (cd : Codec) (t : Tab) : Prop where
  size_eq : ∀ c, t.size c = (cd.bytes c).length
  zlen_eq : ∀ c, t.zlen c = (cd.enc (cd.bytes c)).length

def denSeg (cd : Codec) (g : Seg) : Bytes := if g.z then cd.enc (cd.bytes g.cid) else cd.bytes g.cid

/-- the bytes of a pack file -/
def denPack (cd : Codec) (segs : List Seg) : Bytes := segs.flatMap (denSeg cd)

/-- the documented manual recovery: slice the pack at the row's offset/length, inflate if flagged -/
def recover (cd : Codec) (pack : Bytes) (r : Row) : Option Bytes :=
  let raw := (pack.drop r.off).take r.len
  if r.z then cd.dec raw else some raw

theorem denSeg_length {cd : Codec} {t : Tab} (ag : cd.Agrees t) (g : Seg) :
    (denSeg cd g).length = g.len t := by
  unfold denSeg Seg.len
  cases g.z
  · simp [ag.size_eq]
  · simp [ag.zlen_eq]

theorem denPack_length {cd : Codec} {t : Tab} (ag : cd.Agrees t) (segs : List Seg) :
    (denPack cd segs).length = segsLen t segs := by
  induction segs with
  | nil => simp [denPack]
  | cons g gs ih =>
    have : denPack cd (g :: gs) = denSeg cd g ++ denPack cd gs := by
      simp [denPack, List.flatMap_cons]
    rw [this, List.length_append, ih, denSeg_length ag, segsLen_cons]

theorem denPack_decomp (cd : Codec) (pre : List Seg) (g : Seg) (post : List Seg) :
    denPack cd (pre ++ g :: post) = denPack cd pre ++ (denSeg cd g ++ denPack cd post) := by
  simp [denPack, List.flatMap_append, List.flatMap_cons]

theorem slice_mid {α} (a b c : List α) (n m : Nat) (hn : n = a.length) (hm : m = b.length) :
    ((a ++ (b ++ c)).drop n).take m = b := by
  subst hn hm
  simp

theorem eq_of_map_nodup {α β} {f : α → β} {l : List α} (h : (l.map f).Nodup) {a b : α}
    (ha : a ∈ l) (hb : b ∈ l) (hf : f a = f b) : a = b := by
  induction l with
  | nil => simp at ha
  | cons x xs ih =>
    rw [List.map_cons, List.nodup_cons] at h
    rcases List.mem_cons.mp ha with ea | ma <;> rcases List.mem_cons.mp hb with eb | mb
    · rw [ea, eb]
    · subst ea
      exact absurd (hf ▸ List.mem_map_of_mem mb) h.1
    · subst eb
      exact absurd (hf ▸ List.mem_map_of_mem ma) h.1
    · exact ih h.2 ma mb

/-- C03: every index entry designates a range inside its pack which (inflated when flagged) is exactly the
    content named by the key; the recorded size is the content length, and equals the stored length when
    not compressed. -/
theorem row_bytes {cd : Codec} {t : Tab} (ag : cd.Agrees t) {s : St} (inv : Inv t s) {r : Row} (hr : r ∈ s.rows) :
    ∃ segs, getPack s.packs r.pack = some segs ∧
      r.off + r.len ≤ (denPack cd segs).length ∧
      recover cd (denPack cd segs) r = some (cd.bytes r.key) ∧
      r.size = (cd.bytes r.key).length ∧
      (r.z = false → r.len = r.size) := by
  obtain ⟨segs, pre, post, hg, hs, hoff, hlen, hsize⟩ := inv.rows_ok r hr
  have hoff' : r.off = (denPack cd pre).length := by rw [denPack_length ag]; exact hoff
  have hlen' : r.len = (denSeg cd ⟨r.key, r.z⟩).length := by rw [denSeg_length ag]; exact hlen
  have hd : denPack cd segs = denPack cd pre ++ (denSeg cd ⟨r.key, r.z⟩ ++ denPack cd post) := by
    rw [hs]; exact denPack_decomp cd pre _ post
  refine ⟨segs, hg, ?_, ?_, ?_, ?_⟩
  · rw [hd, hoff', hlen']; simp only [List.length_append]; omega
  · unfold recover
    simp only
    rw [hd, slice_mid _ _ _ _ _ hoff' hlen']
    unfold denSeg
    cases hz : r.z
    · simp
    · simp [cd.dec_enc]
  · rw [hsize, ag.size_eq]
  · intro hz
    rw [hlen, hsize]
    simp [Seg.len, hz]

/-- C03: two entries of one pack never overlap -/
theorem rows_disjoint {t : Tab} {s : St} (inv : Inv t s) {r1 r2 : Row} (h1 : r1 ∈ s.rows) (h2 : r2 ∈ s.rows)
    (hne : r1 ≠ r2) (hp : r1.pack = r2.pack) : r1.off + r1.len ≤ r2.off ∨ r2.off + r2.len ≤ r1.off := by
  have hid : r1.id ≠ r2.id := fun h => hne (eq_of_map_nodup inv.ids_nodup h1 h2 h)
  rcases Nat.lt_or_gt_of_ne hid with h | h
  · exact Or.inl (inv.ids_pos r1 h1 r2 h2 hp h)
  · exact Or.inr (inv.ids_pos r2 h2 r1 h1 hp.symm h)

/-- C03: no key is indexed twice -/
theorem key_indexed_once {t : Tab} {s : St} (inv : Inv t s) {r1 r2 : Row} (h1 : r1 ∈ s.rows) (h2 : r2 ∈ s.rows)
    (hk : r1.key = r2.key) : r1 = r2 :=
  eq_of_map_nodup inv.keys_nodup h1 h2 hk

end Dos
