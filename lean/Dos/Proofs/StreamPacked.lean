/-
C07 for `PackedObjectReader`: for EVERY program (in-range or not) the reader answers like an in-memory file over the
object that rejects out-of-range seeks; in particular it never returns a byte from outside the object.
-/
import Dos.StreamSpec

namespace Dos.Stream

/-! ### slicing -/

theorem slice_window (pre obj post : Bytes) (p k : Nat) (h : p + k ≤ obj.length) :
    slice (pre ++ obj ++ post) (pre.length + p) k = slice obj p k := by
  unfold slice
  have h1 : List.drop (pre.length + p) (pre ++ obj ++ post) = List.drop p obj ++ post := by
    rw [List.append_assoc, List.drop_append, List.drop_append]
    have e1 : List.drop (pre.length + p) pre = [] := List.drop_eq_nil_of_le (by omega)
    have e2 : pre.length + p - pre.length = p := by omega
    have e3 : p - obj.length = 0 := by omega
    rw [e1, e2, e3]; rfl
  rw [h1, List.take_append]
  have e4 : k - (List.drop p obj).length = 0 := by rw [List.length_drop]; omega
  rw [e4, List.take_zero, List.append_nil]

theorem slice_length (d : Bytes) (p k : Nat) : (slice d p k).length = min k (d.length - p) := by
  unfold slice; rw [List.length_take, List.length_drop]

theorem slice_min (obj : Bytes) (p n : Nat) :
    slice obj p (min (obj.length - p) n) = slice obj p n := by
  unfold slice
  have h : List.take (obj.length - p) (List.drop p obj) = List.drop p obj :=
    List.take_of_length_le (by rw [List.length_drop]; omega)
  conv => rhs; rw [← h, List.take_take]
  rw [Nat.min_comm]

/-! ### canonical form of a well-formed reader -/

/-- the reader over `pre ++ obj ++ post` showing `obj`, at position `pos` -/
def Packed.canon (pre obj post : Bytes) (pos : Nat) : Packed :=
  ⟨⟨pre ++ obj ++ post, pre.length + pos⟩, pre.length, obj.length, pos⟩

theorem wf_canon {p : Packed} {obj : Bytes} (wf : p.WF obj) :
    ∃ pre post, p = Packed.canon pre obj post p.pos ∧ p.pos ≤ obj.length := by
  obtain ⟨⟨pre, post, hd, ho⟩, hl, hf, hp⟩ := wf
  refine ⟨pre, post, ?_, by omega⟩
  obtain ⟨⟨data, fpos⟩, off, len, pos⟩ := p
  simp only at hd ho hl hf hp ⊢
  subst hd ho hl hf
  rfl

theorem canon_wf (pre obj post : Bytes) (pos : Nat) (h : pos ≤ obj.length) :
    (Packed.canon pre obj post pos).WF obj :=
  ⟨⟨pre, post, rfl, rfl⟩, rfl, rfl, h⟩

theorem canon_pos (pre obj post : Bytes) (pos : Nat) : (Packed.canon pre obj post pos).pos = pos := rfl

theorem canon_tell (pre obj post : Bytes) (pos : Nat) : (Packed.canon pre obj post pos).tell = (pos : Int) := by
  unfold Packed.tell Packed.canon
  simp only [Int.ofNat_eq_natCast]
  omega

/-! ### read -/

theorem read_canon (pre obj post : Bytes) (pos : Nat) (h : pos ≤ obj.length) (n : Int) (k : Nat)
    (hk : k = if n < 0 then obj.length - pos else min (obj.length - pos) n.toNat) :
    (Packed.canon pre obj post pos).read n = (Packed.canon pre obj post (pos + k), .data (slice obj pos k)) := by
  have hk' : pos + k ≤ obj.length := by split at hk <;> omega
  unfold Packed.read File.read Packed.canon
  simp only [← hk]
  rw [slice_window _ _ _ _ _ hk', slice_length]
  have e : min k (obj.length - pos) = k := by omega
  rw [e]
  unfold Packed.updatePos
  simp only []
  rw [if_neg (by omega), if_neg (by omega)]
  simp only [Packed.mk.injEq, File.mk.injEq, Prod.mk.injEq, true_and, and_true]
  omega

theorem ref_read (obj : Bytes) (pos : Nat) (h : pos ≤ obj.length) (n : Int) (k : Nat)
    (hk : k = if n < 0 then obj.length - pos else min (obj.length - pos) n.toNat) :
    Ref.step ⟨obj, pos⟩ (.read n) = (⟨obj, pos + k⟩, .data (slice obj pos k)) := by
  have hk' : pos + k ≤ obj.length := by split at hk <;> omega
  unfold Ref.step
  simp only []
  have e : slice obj pos (if n < 0 then obj.length - pos else n.toNat) = slice obj pos k := by
    rw [hk]
    split
    · rfl
    · rw [slice_min]
  rw [e, slice_length]
  have e2 : min k (obj.length - pos) = k := by omega
  rw [e2]

/-! ### seek -/

theorem inRange_seek_iff (len pos : Nat) (t : Int) (w : Nat) :
    (Cmd.seek t w).inRange len pos = true ↔
      w ≤ 2 ∧ 0 ≤ seekTarget len pos t w ∧ seekTarget len pos t w ≤ (len : Int) := by
  simp only [Cmd.inRange, Bool.and_eq_true, decide_eq_true_eq, and_assoc, Int.ofNat_eq_natCast]

theorem seek_canon_eq (pre obj post : Bytes) (pos : Nat) (t : Int) (w : Nat) :
    (Packed.canon pre obj post pos).seek t w =
      if w > 2 then (Packed.canon pre obj post pos, .err .value)
      else if seekTarget obj.length pos t w < 0 then (Packed.canon pre obj post pos, .err .value)
      else if seekTarget obj.length pos t w > (obj.length : Int) then (Packed.canon pre obj post pos, .err .value)
      else (Packed.canon pre obj post (seekTarget obj.length pos t w).toNat, .pos (seekTarget obj.length pos t w)) := by
  have ht : (if w = 1 then (Packed.canon pre obj post pos).tell + t
      else if w = 2 then Int.ofNat (Packed.canon pre obj post pos).len + t else t) = seekTarget obj.length pos t w := by
    rw [canon_tell]; rfl
  unfold Packed.seek
  simp only [ht]
  generalize seekTarget obj.length pos t w = T
  by_cases hw : w > 2
  · rw [if_pos hw, if_pos hw]
  · rw [if_neg hw, if_neg hw]
    by_cases h0 : T < 0
    · rw [if_pos h0, if_pos h0]
    · rw [if_neg h0, if_neg h0]
      have hlen : (Packed.canon pre obj post pos).len = obj.length := rfl
      rw [hlen]
      simp only [Int.ofNat_eq_natCast]
      by_cases h1 : T > (obj.length : Int)
      · rw [if_pos h1, if_pos h1]
      · rw [if_neg h1, if_neg h1]
        unfold Packed.updatePos Packed.canon
        simp only []
        rw [if_neg (by omega), if_neg (by omega)]
        simp only [Packed.mk.injEq, Prod.mk.injEq, true_and, and_true]
        omega

theorem seek_canon_oob (pre obj post : Bytes) (pos : Nat) (t : Int) (w : Nat)
    (hr : (Cmd.seek t w).inRange obj.length pos = false) :
    (Packed.canon pre obj post pos).seek t w = (Packed.canon pre obj post pos, .err .value) := by
  have hr' : ¬ (w ≤ 2 ∧ 0 ≤ seekTarget obj.length pos t w ∧ seekTarget obj.length pos t w ≤ (obj.length : Int)) := by
    intro hh
    rw [(inRange_seek_iff obj.length pos t w).2 hh] at hr
    exact Bool.noConfusion hr
  rw [seek_canon_eq]
  generalize seekTarget obj.length pos t w = T at hr' ⊢
  split
  · rfl
  · split
    · rfl
    · split
      · rfl
      · exfalso; apply hr'; omega

theorem seek_canon_in (pre obj post : Bytes) (pos : Nat) (t : Int) (w : Nat)
    (hr : (Cmd.seek t w).inRange obj.length pos = true) :
    (Packed.canon pre obj post pos).seek t w =
      (Packed.canon pre obj post (seekTarget obj.length pos t w).toNat, .pos (seekTarget obj.length pos t w)) := by
  obtain ⟨hw, h0, h1⟩ := (inRange_seek_iff obj.length pos t w).1 hr
  rw [seek_canon_eq, if_neg (by omega), if_neg (by omega), if_neg (by omega)]

theorem ref_seek_in (obj : Bytes) (pos : Nat) (t : Int) (w : Nat)
    (hr : (Cmd.seek t w).inRange obj.length pos = true) :
    Ref.step ⟨obj, pos⟩ (.seek t w) =
      (⟨obj, (seekTarget obj.length pos t w).toNat⟩, .pos (seekTarget obj.length pos t w)) := by
  obtain ⟨hw, h0, h1⟩ := (inRange_seek_iff obj.length pos t w).1 hr
  have hcast : ((seekTarget obj.length pos t w).toNat : Int) = seekTarget obj.length pos t w :=
    Int.toNat_of_nonneg h0
  have hw3 : w = 0 ∨ w = 1 ∨ w = 2 := by omega
  rcases hw3 with rfl | rfl | rfl
  · have e : seekTarget obj.length pos t 0 = t := rfl
    rw [e] at h0 ⊢
    unfold Ref.step
    simp only [↓reduceIte]
    rw [if_neg (by omega)]
  · have e : seekTarget obj.length pos t 1 = Int.ofNat pos + t := rfl
    rw [e] at hcast ⊢
    unfold Ref.step
    simp only [↓reduceIte]
    rw [hcast, if_neg (by decide)]
  · have e : seekTarget obj.length pos t 2 = Int.ofNat obj.length + t := rfl
    rw [e] at hcast ⊢
    unfold Ref.step
    simp only [↓reduceIte]
    rw [hcast, if_neg (by decide), if_neg (by decide)]

/-! ### the theorems -/

theorem packed_init_wf (pre obj post : Bytes) : (Packed.init (pre ++ obj ++ post) pre.length obj.length).WF obj :=
  canon_wf pre obj post 0 (Nat.zero_le _)

/-- one command, canonical form -/
theorem canon_step (pre obj post : Bytes) (pos : Nat) (h : pos ≤ obj.length) (c : Cmd) :
    ∃ pos', pos' ≤ obj.length ∧
      (Packed.canon pre obj post pos).step c = (Packed.canon pre obj post pos', (Ref.stepGuarded ⟨obj, pos⟩ c).2) ∧
      (Ref.stepGuarded ⟨obj, pos⟩ c).1 = ⟨obj, pos'⟩ := by
  cases c with
  | read n =>
    have hg : Ref.stepGuarded ⟨obj, pos⟩ (.read n) = Ref.step ⟨obj, pos⟩ (.read n) := rfl
    refine ⟨pos + (if n < 0 then obj.length - pos else min (obj.length - pos) n.toNat), ?_, ?_, ?_⟩
    · split <;> omega
    · rw [hg, ref_read obj pos h n _ rfl]
      exact read_canon pre obj post pos h n _ rfl
    · rw [hg, ref_read obj pos h n _ rfl]
  | seek t w =>
    cases hr : (Cmd.seek t w).inRange obj.length pos with
    | false =>
      have hg : Ref.stepGuarded ⟨obj, pos⟩ (.seek t w) = (⟨obj, pos⟩, .err .value) := by
        unfold Ref.stepGuarded; simp only [hr]; rfl
      refine ⟨pos, h, ?_, ?_⟩
      · rw [hg]; exact seek_canon_oob pre obj post pos t w hr
      · rw [hg]
    | true =>
      have hg : Ref.stepGuarded ⟨obj, pos⟩ (.seek t w) = Ref.step ⟨obj, pos⟩ (.seek t w) := by
        unfold Ref.stepGuarded; simp only [hr]; rfl
      obtain ⟨hw, h0, h1⟩ := (inRange_seek_iff obj.length pos t w).1 hr
      refine ⟨(seekTarget obj.length pos t w).toNat, by omega, ?_, ?_⟩
      · rw [hg, ref_seek_in obj pos t w hr]; exact seek_canon_in pre obj post pos t w hr
      · rw [hg, ref_seek_in obj pos t w hr]
  | tell =>
    refine ⟨pos, h, ?_, rfl⟩
    show (Packed.canon pre obj post pos, Out.pos (Packed.canon pre obj post pos).tell) = _
    rw [canon_tell]; rfl

/-- one command: same output as the guarded reference, window still well-formed, same position -/
theorem packed_step {p : Packed} {obj : Bytes} (wf : p.WF obj) (c : Cmd) :
    (p.step c).2 = (Ref.stepGuarded ⟨obj, p.pos⟩ c).2 ∧ (p.step c).1.WF obj ∧
    (p.step c).1.pos = (Ref.stepGuarded ⟨obj, p.pos⟩ c).1.pos := by
  obtain ⟨pre, post, hp, hle⟩ := wf_canon wf
  obtain ⟨pos', hle', hs, hr⟩ := canon_step pre obj post p.pos hle c
  rw [← hp] at hs
  rw [hs, hr]
  exact ⟨rfl, canon_wf pre obj post pos' hle', rfl⟩

/-- all programs -/
theorem packed_refines_ref {p : Packed} {obj : Bytes} (wf : p.WF obj) (prog : List Cmd) :
    runPacked p prog = runRefGuarded ⟨obj, p.pos⟩ prog := by
  induction prog generalizing p with
  | nil => rfl
  | cons c cs ih =>
    obtain ⟨pre, post, hp, hle⟩ := wf_canon wf
    obtain ⟨pos', hle', hs, hr⟩ := canon_step pre obj post p.pos hle c
    rw [← hp] at hs
    show (p.step c).2 :: runPacked (p.step c).1 cs =
      (Ref.stepGuarded ⟨obj, p.pos⟩ c).2 :: runRefGuarded (Ref.stepGuarded ⟨obj, p.pos⟩ c).1 cs
    rw [hs, hr]
    simp only []
    rw [ih (canon_wf pre obj post pos' hle'), canon_pos]

theorem runRefGuarded_inRange (r : Ref) (prog : List Cmd) (h : inRangeProg r prog = true) :
    runRefGuarded r prog = runRef r prog := by
  induction prog generalizing r with
  | nil => rfl
  | cons c cs ih =>
    unfold inRangeProg at h
    rw [Bool.and_eq_true] at h
    have hg : r.stepGuarded c = r.step c := by
      unfold Ref.stepGuarded; rw [if_pos h.1]
    show (r.stepGuarded c).2 :: runRefGuarded (r.stepGuarded c).1 cs = (r.step c).2 :: runRef (r.step c).1 cs
    rw [hg, ih _ h.2]

/-- in-range programs behave exactly like `io.BytesIO` -/
theorem packed_refines_bytesio {p : Packed} {obj : Bytes} (wf : p.WF obj) (prog : List Cmd)
    (h : inRangeProg ⟨obj, p.pos⟩ prog = true) : runPacked p prog = runRef ⟨obj, p.pos⟩ prog := by
  rw [packed_refines_ref wf, runRefGuarded_inRange _ _ h]

/-- an out-of-range seek is rejected and leaves the reader exactly as it was -/
theorem packed_oob_rejected {p : Packed} {obj : Bytes} (wf : p.WF obj) (t : Int) (w : Nat)
    (h : (Cmd.seek t w).inRange obj.length p.pos = false) : p.step (.seek t w) = (p, .err .value) := by
  obtain ⟨pre, post, hp, _⟩ := wf_canon wf
  have := seek_canon_oob pre obj post p.pos t w h
  rw [← hp] at this
  exact this

/-- no read ever returns bytes from outside the object: whatever was done before -/
theorem packed_read_within {p : Packed} {obj : Bytes} (wf : p.WF obj) (prog : List Cmd) :
    ∀ o ∈ runPacked p prog, ∀ out, o = .data out → ∃ q k, out = slice obj q k := by
  induction prog generalizing p with
  | nil => intro o ho; cases ho
  | cons c cs ih =>
    obtain ⟨pre, post, hp, hle⟩ := wf_canon wf
    obtain ⟨h1, h2, _⟩ := packed_step wf c
    intro o ho out heq
    have ho' : o = (p.step c).2 ∨ o ∈ runPacked (p.step c).1 cs := List.mem_cons.1 ho
    rcases ho' with ho' | ho'
    · subst heq
      rw [h1] at ho'
      cases c with
      | read n =>
        have hg : Ref.stepGuarded ⟨obj, p.pos⟩ (.read n) = Ref.step ⟨obj, p.pos⟩ (.read n) := rfl
        rw [hg, ref_read obj p.pos hle n _ rfl] at ho'
        exact ⟨_, _, Out.data.inj ho'⟩
      | seek t w =>
        exfalso
        unfold Ref.stepGuarded Ref.step at ho'
        simp only [] at ho'
        repeat' split at ho'
        all_goals cases ho'
      | tell => cases ho'
    · exact ih h2 o ho' out heq
end Dos.Stream
