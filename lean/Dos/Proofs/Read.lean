/-
Reading through the index: the segment found at a row's offset is the row's own content.
-/
import Dos.Proofs.Basic

namespace Dos

theorem findSeg_decomp {t : Tab} (wf : t.WF) (pre : List Seg) (g : Seg) (post : List Seg) :
    findSeg t (pre ++ g :: post) (segsLen t pre) (g.len t) g.z = some g.cid := by
  induction pre with
  | nil => simp [findSeg]
  | cons x xs ih =>
    simp only [List.cons_append, segsLen_cons, findSeg]
    by_cases h : x.len t + segsLen t xs = 0 ∧ x.len t = g.len t ∧ x.z = g.z
    · -- a zero-length segment in front of `g` at the same offset: it is the (unique) empty content
      rw [if_pos h]
      obtain ⟨h0, hl, hz⟩ := h
      have hx0 : x.len t = 0 := by omega
      have hg0 : g.len t = 0 := by omega
      have hxz : x.z = false := by
        cases hxz : x.z with
        | false => rfl
        | true =>
          simp [Seg.len, hxz] at hx0
          have := wf.zpos x.cid; omega
      have hgz : g.z = false := by rw [← hz]; exact hxz
      simp [Seg.len, hxz] at hx0
      simp [Seg.len, hgz] at hg0
      simp [wf.empty_unique _ _ hx0 hg0]
    · rw [if_neg h]
      have : x.len t ≤ x.len t + segsLen t xs := Nat.le_add_right _ _
      rw [if_pos this]
      simpa using ih

theorem readRow_of_rowOK {t : Tab} (wf : t.WF) {s : St} {r : Row} (h : RowOK t s.packs r) :
    readRow t s r = some r.key := by
  obtain ⟨segs, pre, post, hg, hs, ho, hl, _⟩ := h
  simp only [readRow, hg]
  subst hs
  rw [ho, hl]
  exact findSeg_decomp wf pre ⟨r.key, r.z⟩ post

theorem findRow_some {rows : List Row} {k : Nat} {r : Row} (h : findRow rows k = some r) : r ∈ rows ∧ r.key = k := by
  unfold findRow at h
  have h1 := List.mem_of_find?_eq_some h
  have h2 := List.find?_some h
  simp at h2
  exact ⟨h1, h2⟩

theorem findRow_none_iff {rows : List Row} {k : Nat} : findRow rows k = none ↔ k ∉ rows.map (·.key) := by
  unfold findRow
  simp [List.find?_eq_none]

theorem findLoose_none_iff {l : List (Nat × Nat)} {k : Nat} : findLoose l k = none ↔ k ∉ l.map (·.1) := by
  unfold findLoose
  simp [List.find?_eq_none]
  constructor
  · intro h x hx; exact h k x hx rfl
  · intro h a b hab hak; subst hak; exact h b hab

theorem findLoose_some {l : List (Nat × Nat)} {k c : Nat} (h : findLoose l k = some c) : (k, c) ∈ l := by
  unfold findLoose at h
  simp at h
  obtain ⟨a, ha⟩ := h
  have h1 := List.mem_of_find?_eq_some ha
  have h2 := List.find?_some ha
  simp at h2
  subst h2
  exact h1

theorem hasRow_iff {s : St} {k : Nat} : hasRow s k = true ↔ k ∈ s.rows.map (·.key) := by
  simp [hasRow, rowKeys]

theorem hasLoose_iff {s : St} {k : Nat} : hasLoose s k = true ↔ k ∈ s.loose.map (·.1) := by
  simp [hasLoose, looseKeys]

/-- C02/C01 read-back: every key the container has reads back as its own content. -/
theorem getc_of_has {t : Tab} (wf : t.WF) {s : St} (inv : Inv t s) {k : Nat} (h : has s k = true) :
    getc t s k = some k := by
  unfold getc
  cases hr : findRow s.rows k with
  | some r =>
    obtain ⟨hmem, hk⟩ := findRow_some hr
    simp only
    rw [readRow_of_rowOK wf (inv.rows_ok r hmem), hk]
  | none =>
    simp only
    have hnr : hasRow s k = false := by
      cases hh : hasRow s k with
      | false => rfl
      | true => exact absurd (hasRow_iff.mp hh) (findRow_none_iff.mp hr)
    simp [has, hnr] at h
    cases hl : findLoose s.loose k with
    | none => exact absurd (hasLoose_iff.mp h) (findLoose_none_iff.mp hl)
    | some c =>
      have := inv.loose_ok _ (findLoose_some hl)
      simp at this
      simp [this]

theorem getc_none_of_not_has {t : Tab} {s : St} {k : Nat} (h : has s k = false) : getc t s k = none := by
  simp [has] at h
  obtain ⟨h1, h2⟩ := h
  have hr : findRow s.rows k = none := findRow_none_iff.mpr (fun hm => by simp [hasRow_iff.mpr hm] at h1)
  have hl : findLoose s.loose k = none := findLoose_none_iff.mpr (fun hm => by simp [hasLoose_iff.mpr hm] at h2)
  simp [getc, hr, hl]

/-- metadata reports the content length as the size, whatever the storage form -/
theorem getMeta_size {t : Tab} {s : St} (inv : Inv t s) {k : Nat} (h : has s k = true) :
    (∃ p o l z, getMeta t s k = some (.packed (t.size k) p o l z)) ∨ getMeta t s k = some (.loose (t.size k)) := by
  unfold getMeta
  cases hr : findRow s.rows k with
  | some r =>
    obtain ⟨hmem, hk⟩ := findRow_some hr
    obtain ⟨_, _, _, _, _, _, _, hsz⟩ := inv.rows_ok r hmem
    left
    exact ⟨r.pack, r.off, r.len, r.z, by simp [hsz, hk]⟩
  | none =>
    right
    have hnr : hasRow s k = false := by
      cases hh : hasRow s k with
      | false => rfl
      | true => exact absurd (hasRow_iff.mp hh) (findRow_none_iff.mp hr)
    simp [has, hnr] at h
    cases hl : findLoose s.loose k with
    | none => exact absurd (hasLoose_iff.mp h) (findLoose_none_iff.mp hl)
    | some c =>
      have := inv.loose_ok _ (findLoose_some hl)
      simp at this
      simp [this]

theorem getMeta_none_of_not_has {t : Tab} {s : St} {k : Nat} (h : has s k = false) : getMeta t s k = none := by
  simp [has] at h
  obtain ⟨h1, h2⟩ := h
  have hr : findRow s.rows k = none := findRow_none_iff.mpr (fun hm => by simp [hasRow_iff.mpr hm] at h1)
  have hl : findLoose s.loose k = none := findLoose_none_iff.mpr (fun hm => by simp [hasLoose_iff.mpr hm] at h2)
  simp [getMeta, hr, hl]

end Dos
