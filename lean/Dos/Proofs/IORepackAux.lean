/-
Helper lemmas for Level C of `repack_pack`: association lists of `XPack`s, prefixes of action lists,
the generic per-state invariant `Good` and what it implies for the three images.
-/
import Dos.IOSpec
import Dos.Proofs.Step

namespace Dos.IO.Repack
open Dos Dos.IO

/-! ### association lists of `XPack` -/

/-- a pack file that is completely flushed and synced -/
def full (segs : List Seg) : XPack := ⟨segs, segs.length, segs.length⟩

theorem getX_setX_eq (ps : List (Nat × XPack)) (p : Nat) (v : XPack) : getX (setX ps p v) p = some v := by
  induction ps with
  | nil => simp [setX, getX]
  | cons e rest ih =>
    obtain ⟨q, o⟩ := e
    by_cases h : q = p
    · simp [setX, getX, h]
    · simp [setX, getX, h, ih]

theorem getX_setX_ne (ps : List (Nat × XPack)) (p q : Nat) (v : XPack) (h : q ≠ p) :
    getX (setX ps p v) q = getX ps q := by
  induction ps with
  | nil =>
    have : ¬ p = q := fun h' => h h'.symm
    simp [setX, getX, this]
  | cons e rest ih =>
    obtain ⟨r, o⟩ := e
    by_cases h1 : r = p
    · subst h1
      have : ¬ r = q := fun h' => h h'.symm
      simp [setX, getX, this]
    · by_cases h2 : r = q
      · subst h2; simp [setX, getX, h1]
      · simp [setX, getX, h1, h2, ih]

theorem getX_eraseX_eq (ps : List (Nat × XPack)) (p : Nat) : getX (eraseX ps p) p = none := by
  induction ps with
  | nil => simp [eraseX, getX]
  | cons e rest ih =>
    obtain ⟨q, o⟩ := e
    by_cases h : q = p
    · simp [eraseX, h, ih]
    · simp [eraseX, getX, h, ih]

theorem getX_eraseX_ne (ps : List (Nat × XPack)) (p q : Nat) (h : q ≠ p) :
    getX (eraseX ps p) q = getX ps q := by
  induction ps with
  | nil => simp [eraseX, getX]
  | cons e rest ih =>
    obtain ⟨r, o⟩ := e
    by_cases h1 : r = p
    · subst h1
      have : ¬ r = q := fun h' => h h'.symm
      simp [eraseX, getX, this, ih]
    · by_cases h2 : r = q
      · subst h2; simp [eraseX, getX, h1]
      · simp [eraseX, getX, h1, h2, ih]

theorem getX_none_of_not_mem {ps : List (Nat × XPack)} {p : Nat} (h : p ∉ ps.map (·.1)) : getX ps p = none := by
  induction ps with
  | nil => rfl
  | cons e rest ih =>
    obtain ⟨q, o⟩ := e
    simp at h
    have h1 : ¬ q = p := fun h' => h.1 h'.symm
    simp [getX, h1]
    exact ih (by simpa using h.2)

theorem mem_keys_of_getX {ps : List (Nat × XPack)} {p : Nat} {v : XPack} (h : getX ps p = some v) :
    p ∈ ps.map (·.1) := by
  induction ps with
  | nil => simp [getX] at h
  | cons e rest ih =>
    obtain ⟨q, o⟩ := e
    by_cases h1 : q = p
    · simp [h1]
    · simp [getX, h1] at h
      simp [ih h]

theorem setX_of_not_mem {ps : List (Nat × XPack)} {p : Nat} (v : XPack) (h : p ∉ ps.map (·.1)) :
    setX ps p v = ps ++ [(p, v)] := by
  induction ps with
  | nil => rfl
  | cons e rest ih =>
    obtain ⟨q, o⟩ := e
    simp at h
    have h1 : ¬ q = p := fun h' => h.1 h'.symm
    simp [setX, h1]
    exact ih (by simpa using h.2)

theorem eraseX_of_not_mem {ps : List (Nat × XPack)} {p : Nat} (h : p ∉ ps.map (·.1)) : eraseX ps p = ps := by
  induction ps with
  | nil => rfl
  | cons e rest ih =>
    obtain ⟨q, o⟩ := e
    simp at h
    have h1 : ¬ q = p := fun h' => h.1 h'.symm
    simp [eraseX, h1]
    exact ih (by simpa using h.2)

theorem eraseX_append (a b : List (Nat × XPack)) (p : Nat) : eraseX (a ++ b) p = eraseX a p ++ eraseX b p := by
  induction a with
  | nil => rfl
  | cons e rest ih =>
    obtain ⟨q, o⟩ := e
    by_cases h : q = p
    · simp [eraseX, h, ih]
    · simp [eraseX, h, ih]

theorem getX_append_last {a : List (Nat × XPack)} {p : Nat} (v : XPack) (h : p ∉ a.map (·.1)) :
    getX (a ++ [(p, v)]) p = some v := by
  rw [← setX_of_not_mem v h]
  exact getX_setX_eq a p v

theorem setX_append_last {a : List (Nat × XPack)} {p : Nat} (v w : XPack) (h : p ∉ a.map (·.1)) :
    setX (a ++ [(p, v)]) p w = a ++ [(p, w)] := by
  induction a with
  | nil => simp [setX]
  | cons e rest ih =>
    obtain ⟨q, o⟩ := e
    simp at h
    have h1 : ¬ q = p := fun h' => h.1 h'.symm
    simp [setX, h1]
    exact ih (by simpa using h.2)

theorem updX_append_last {a : List (Nat × XPack)} {p : Nat} (v : XPack) (f : XPack → XPack)
    (h : p ∉ a.map (·.1)) : updX (a ++ [(p, v)]) p f = a ++ [(p, f v)] := by
  simp only [updX, getX_append_last v h]
  exact setX_append_last v (f v) h

theorem keys_setX (ps : List (Nat × XPack)) (p : Nat) (v : XPack) :
    (setX ps p v).map (·.1) = if p ∈ ps.map (·.1) then ps.map (·.1) else ps.map (·.1) ++ [p] := by
  induction ps with
  | nil => simp [setX]
  | cons e rest ih =>
    obtain ⟨q, o⟩ := e
    by_cases h1 : q = p
    · simp [setX, h1]
    · have h1' : ¬ p = q := fun h' => h1 h'.symm
      by_cases hm : p ∈ rest.map (·.1)
      · simp [setX, h1, h1', ih, hm]
      · simp [setX, h1, h1', ih, hm]

theorem nodup_keys_setX {ps : List (Nat × XPack)} (p : Nat) (v : XPack) (h : (ps.map (·.1)).Nodup) :
    ((setX ps p v).map (·.1)).Nodup := by
  rw [keys_setX]
  split
  · exact h
  · rename_i hp
    rw [List.nodup_append]
    refine ⟨h, by simp, ?_⟩
    intro a ha b hb
    simp at hb
    subst hb
    intro hab
    exact hp (hab ▸ ha)

theorem keys_eraseX_sublist (ps : List (Nat × XPack)) (p : Nat) :
    ((eraseX ps p).map (·.1)).Sublist (ps.map (·.1)) := by
  induction ps with
  | nil => simp [eraseX]
  | cons e rest ih =>
    obtain ⟨q, o⟩ := e
    simp only [eraseX]
    split
    · exact List.Sublist.cons _ ih
    · simp only [List.map_cons]
      exact List.Sublist.cons_cons _ ih

theorem nodup_keys_eraseX {ps : List (Nat × XPack)} (p : Nat) (h : (ps.map (·.1)).Nodup) :
    ((eraseX ps p).map (·.1)).Nodup := h.sublist (keys_eraseX_sublist ps p)

theorem keys_updX (ps : List (Nat × XPack)) (p : Nat) (f : XPack → XPack) :
    (updX ps p f).map (·.1) = ps.map (·.1) := by
  unfold updX
  cases h : getX ps p with
  | none => rfl
  | some v =>
    simp only
    rw [keys_setX, if_pos (mem_keys_of_getX h)]

theorem getX_updX (ps : List (Nat × XPack)) (p q : Nat) (f : XPack → XPack) :
    getX (updX ps p f) q = if q = p then (getX ps p).map f else getX ps q := by
  unfold updX
  cases h : getX ps p with
  | none =>
    simp only
    split
    · rename_i hq; subst hq; simp [h]
    · rfl
  | some v =>
    simp only
    split
    · rename_i hq; subst hq; simp [getX_setX_eq]
    · rename_i hq; exact getX_setX_ne ps p q _ hq

theorem getX_ofSt (s : St) (q : Nat) : getX (ofSt s).packs q = (getPack s.packs q).map full := by
  simp only [ofSt]
  induction s.packs with
  | nil => rfl
  | cons e rest ih =>
    obtain ⟨r, o⟩ := e
    by_cases h : r = q
    · simp [getX, getPack, h, full]
    · simp [getX, getPack, h, ih]

theorem keys_ofSt (s : St) : (ofSt s).packs.map (·.1) = s.packs.map (·.1) := by
  simp [ofSt, List.map_map]

theorem getPack_mapX (ps : List (Nat × XPack)) (h : Nat → XPack → List Seg) (q : Nat) :
    getPack (ps.map (fun e => (e.1, h e.1 e.2))) q = (getX ps q).map (h q) := by
  induction ps with
  | nil => rfl
  | cons e rest ih =>
    obtain ⟨r, o⟩ := e
    by_cases hq : r = q
    · simp [getX, getPack, hq]
    · simp [getX, getPack, hq, ih]

/-! ### prefixes of action lists -/

theorem execAll_append (x : XSt) (as bs : List Act) : execAll x (as ++ bs) = execAll (execAll x as) bs := by
  induction as generalizing x with
  | nil => rfl
  | cons a as ih => simp [execAll, ih]

/-- `P` holds after every prefix of `acts` -/
def AllPre (P : XSt → Prop) (x : XSt) (acts : List Act) : Prop := ∀ k, P (execAll x (acts.take k))

theorem allPre_nil {P : XSt → Prop} {x : XSt} (h : P x) : AllPre P x [] := by
  intro k; simpa [execAll] using h

theorem allPre_cons {P : XSt → Prop} {x : XSt} {a : Act} {as : List Act} (h0 : P x)
    (h : AllPre P (exec x a) as) : AllPre P x (a :: as) := by
  intro k
  cases k with
  | zero => simpa [execAll] using h0
  | succ k => simpa [execAll] using h k

theorem allPre_append {P : XSt → Prop} {x : XSt} {as bs : List Act} (h1 : AllPre P x as)
    (h2 : AllPre P (execAll x as) bs) : AllPre P x (as ++ bs) := by
  intro k
  rw [List.take_append, execAll_append]
  by_cases hk : k ≤ as.length
  · have : k - as.length = 0 := by omega
    rw [this]
    simpa [execAll] using h1 k
  · have : as.take k = as := List.take_of_length_le (by omega)
    rw [this]
    exact h2 _

/-- an invariant of all actions of the list holds after every prefix (and at the end) -/
theorem allPre_of_step {P : XSt → Prop} {Q : Act → Prop} (hstep : ∀ x a, Q a → P x → P (exec x a))
    {as : List Act} (hq : ∀ a ∈ as, Q a) {x : XSt} (h0 : P x) : AllPre P x as ∧ P (execAll x as) := by
  induction as generalizing x with
  | nil => exact ⟨allPre_nil h0, h0⟩
  | cons a as ih =>
    have h1 := hstep x a (hq a (by simp)) h0
    obtain ⟨h2, h3⟩ := ih (fun b hb => hq b (List.mem_cons_of_mem _ hb)) h1
    exact ⟨allPre_cons h0 h2, h3⟩

theorem allPre_mono {P P' : XSt → Prop} (h : ∀ x, P x → P' x) {x : XSt} {as : List Act} (hp : AllPre P x as) :
    AllPre P' x as := fun k => h _ (hp k)

/-! ### the per-state invariant -/

/-- row `r` designates a whole segment of the segment list `segs` -/
def RowIn (t : Tab) (segs : List Seg) (r : Row) : Prop :=
  ∃ pre post, segs = pre ++ (⟨r.key, r.z⟩ : Seg) :: post ∧
    r.off = segsLen t pre ∧ r.len = Seg.len t ⟨r.key, r.z⟩ ∧ r.size = t.size r.key

theorem rowOK_iff {t : Tab} {packs : Packs} {r : Row} :
    RowOK t packs r ↔ ∃ segs, getPack packs r.pack = some segs ∧ RowIn t segs r := by
  constructor
  · rintro ⟨segs, pre, post, h1, h2⟩
    exact ⟨segs, h1, pre, post, h2⟩
  · rintro ⟨segs, h1, pre, post, h2⟩
    exact ⟨segs, pre, post, h1, h2⟩

/-- What every intermediate state of the repack satisfies: loose files untouched, the committed index has the
    keys and ids of the start, and every committed row designates a segment of a pack file that is completely
    flushed and synced. -/
structure Good (t : Tab) (s : St) (x : XSt) : Prop where
  loose : x.loose = (ofSt s).loose
  target : x.target = s.target
  keys : x.rows.map (·.key) = s.rows.map (·.key)
  ids : x.rows.map (·.id) = s.rows.map (·.id)
  ids_pos : ∀ r1 ∈ x.rows, ∀ r2 ∈ x.rows, r1.pack = r2.pack → r1.id < r2.id → r1.off + r1.len ≤ r2.off
  rows_ok : ∀ r ∈ x.rows, ∃ segs, getX x.packs r.pack = some (full segs) ∧ RowIn t segs r
  packs_nodup : (x.packs.map (·.1)).Nodup

/-- the actions a `finally` handler can consist of -/
def Hnd (a : Act) : Prop := a = .sbClose ∨ a = .sbRemove ∨ (∃ q, a = .pkClose q) ∨ (∃ q, a = .unlock q)

theorem good_hnd {t : Tab} {s : St} (x : XSt) (a : Act) (ha : Hnd a) (g : Good t s x) : Good t s (exec x a) := by
  rcases ha with rfl | rfl | ⟨q, rfl⟩ | ⟨q, rfl⟩
  · exact ⟨g.loose, g.target, g.keys, g.ids, g.ids_pos, g.rows_ok, g.packs_nodup⟩
  · exact ⟨g.loose, g.target, g.keys, g.ids, g.ids_pos, g.rows_ok, g.packs_nodup⟩
  · refine ⟨g.loose, g.target, g.keys, g.ids, g.ids_pos, ?_, ?_⟩
    · intro r hr
      obtain ⟨segs, h1, h2⟩ := g.rows_ok r hr
      refine ⟨segs, ?_, h2⟩
      show getX (updX x.packs q _) r.pack = _
      rw [getX_updX]
      split
      · rename_i hq
        rw [← hq, h1]
        simp [full]
      · exact h1
    · show ((updX x.packs q _).map (·.1)).Nodup
      rw [keys_updX]; exact g.packs_nodup
  · exact ⟨g.loose, g.target, g.keys, g.ids, g.ids_pos, g.rows_ok, g.packs_nodup⟩

theorem hnd_handlers (x : XSt) : ∀ a ∈ handlers x, Hnd a := by
  intro a ha
  simp only [handlers, List.mem_append, List.mem_flatMap] at ha
  rcases ha with ha | ⟨q, _, ha⟩
  · split at ha
    · simp at ha
      rcases ha with rfl | rfl
      · exact Or.inl rfl
      · exact Or.inr (Or.inl rfl)
    · simp at ha
  · simp at ha
    rcases ha with rfl | rfl
    · exact Or.inr (Or.inr (Or.inl ⟨q, rfl⟩))
    · exact Or.inr (Or.inr (Or.inr ⟨q, rfl⟩))

theorem good_fault {t : Tab} {s : St} {x : XSt} (g : Good t s x) :
    Good t s { execAll x (handlers x) with work := none } := by
  have h := (allPre_of_step (P := Good t s) (Q := Hnd) good_hnd (hnd_handlers x) g).2
  exact ⟨h.loose, h.target, h.keys, h.ids, h.ids_pos, h.rows_ok, h.packs_nodup⟩

/-! ### the images of a good state -/

theorem loose_ofSt_map (s : St) (f : XFile → Nat) (hf : ∀ c, f ⟨c, .synced⟩ = c) :
    (ofSt s).loose.map (fun e => (e.1, f e.2)) = s.loose := by
  simp only [ofSt, List.map_map]
  conv => rhs; rw [← List.map_id s.loose]
  apply List.map_congr_left
  intro e _
  simp [hf]

theorem inv_img {t : Tab} {s : St} (inv : Inv t s) {x : XSt} (g : Good t s x) (img : St)
    (h : Nat → XPack → List Seg) (hh : ∀ q segs, h q (full segs) = segs)
    (hp : img.packs = x.packs.map (fun e => (e.1, h e.1 e.2))) (hr : img.rows = x.rows)
    (hl : img.loose = s.loose) (ht : img.target = s.target) : Inv t img := by
  refine ⟨?_, ?_, ?_, ?_, ?_, ?_, ?_, ?_⟩
  · intro r hr'
    rw [hr] at hr'
    obtain ⟨segs, h1, h2⟩ := g.rows_ok r hr'
    rw [rowOK_iff]
    refine ⟨segs, ?_, h2⟩
    rw [hp, getPack_mapX, h1]
    simp [hh]
  · rw [hr, g.keys]; exact inv.keys_nodup
  · rw [hr, g.ids]; exact inv.ids_nodup
  · rw [hr]; exact g.ids_pos
  · rw [hp, List.map_map]
    exact g.packs_nodup
  · rw [hl]; exact inv.loose_nodup
  · rw [hl]; exact inv.loose_ok
  · rw [ht]; exact inv.target_pos

theorem safe_of_inv {t : Tab} (wf : t.WF) {s img : St} (inv : Inv t img)
    (hk : img.rows.map (·.key) = s.rows.map (·.key)) (hl : img.loose = s.loose) :
    SafeImg t img (keysOf s) := by
  have key : ∀ k, readFresh t img k = .ok k ∨ readFresh t img k = .loud ∨
      (readFresh t img k = .missing ∧ k ∉ keysOf s) := by
    intro k
    unfold readFresh
    cases hr : findRow img.rows k with
    | some r =>
      obtain ⟨hmem, hkey⟩ := findRow_some hr
      simp only
      split
      · exact Or.inr (Or.inl rfl)
      · rw [readRow_of_rowOK wf (inv.rows_ok r hmem), hkey]
        exact Or.inl rfl
    | none =>
      simp only
      cases hf : findLoose img.loose k with
      | some c =>
        have := inv.loose_ok _ (findLoose_some hf)
        simp at this
        simp [this]
      | none =>
        refine Or.inr (Or.inr ⟨rfl, ?_⟩)
        have h1 := findRow_none_iff.mp hr
        have h2 := findLoose_none_iff.mp hf
        rw [hk] at h1
        rw [hl] at h2
        simp only [keysOf, rowKeys, looseKeys, List.mem_append]
        rintro (h | h)
        · exact h1 h
        · exact h2 h
  constructor
  · intro k hkeep
    rcases key k with h | h | ⟨_, h⟩
    · exact Or.inl h
    · exact Or.inr h
    · exact absurd hkeep h
  · intro k _
    rcases key k with h | h | ⟨h, _⟩
    · exact Or.inl h
    · exact Or.inr (Or.inr h)
    · exact Or.inr (Or.inl h)

theorem safe_inv_img {t : Tab} (wf : t.WF) {s : St} (inv : Inv t s) {x : XSt} (g : Good t s x) (img : St)
    (h : Nat → XPack → List Seg) (hh : ∀ q segs, h q (full segs) = segs)
    (hp : img.packs = x.packs.map (fun e => (e.1, h e.1 e.2))) (hr : img.rows = x.rows)
    (hl : img.loose = s.loose) (ht : img.target = s.target) : SafeImg t img (keysOf s) ∧ Inv t img := by
  have i := inv_img inv g img h hh hp hr hl ht
  exact ⟨safe_of_inv wf i (by rw [hr, g.keys]) hl, i⟩

theorem good_crash {t : Tab} (wf : t.WF) {s : St} (inv : Inv t s) {x : XSt} (g : Good t s x) (cut : Nat → Nat) :
    SafeImg t (crashImg x cut) (keysOf s) :=
  (safe_inv_img wf inv g (crashImg x cut) (fun q pk => pk.segs.take (pk.flushed + cut q))
    (by intro q segs; simp only [full]; exact List.take_of_length_le (by omega)) rfl rfl
    (by
      show x.loose.map _ = _
      rw [g.loose]
      exact loose_ofSt_map s (fun f => if f.dur = .buffered then garbage else f.cid) (by intro c; simp))
    g.target).1

theorem good_power {t : Tab} (wf : t.WF) {s : St} (inv : Inv t s) {x : XSt} (g : Good t s x) :
    SafeImg t (powerImg x) (keysOf s) :=
  (safe_inv_img wf inv g (powerImg x) (fun _ pk => pk.segs.take pk.synced)
    (by intro q segs; simp [full]) rfl rfl
    (by
      show x.loose.map _ = _
      rw [g.loose]
      exact loose_ofSt_map s (fun f => if f.dur = .synced then f.cid else garbage) (by intro c; simp))
    g.target).1

theorem good_toSt {t : Tab} (wf : t.WF) {s : St} (inv : Inv t s) {x : XSt} (g : Good t s x) :
    SafeImg t (toSt x) (keysOf s) ∧ Inv t (toSt x) :=
  safe_inv_img wf inv g (toSt x) (fun _ pk => pk.segs)
    (by intro q segs; simp [full]) rfl rfl
    (by
      show x.loose.map _ = _
      rw [g.loose]
      exact loose_ofSt_map s (fun f => f.cid) (by intro c; rfl))
    g.target

/-- the reduction: an action list all of whose prefixes lead to good states is safe at every cut point -/
theorem allSafe_of_good {t : Tab} (wf : t.WF) {s : St} (inv : Inv t s) {acts : List Act}
    (h : AllPre (Good t s) (ofSt s) acts) : AllSafe t s acts (keysOf s) := by
  intro k
  have g := h k
  have gf := good_toSt wf inv (good_fault g)
  exact ⟨fun cut => good_crash wf inv g cut, good_power wf inv g, gf.1, gf.2⟩

end Dos.IO.Repack
