/-
Deletion and space reclamation (C11) at Level B.
-/
import Dos.Proofs.Step
import Dos.Proofs.Validate

namespace Dos

/-! ### helpers: `eraseDups` -/

theorem nodup_eraseDups_aux (n : Nat) : ∀ (l : List Nat), l.length ≤ n → l.eraseDups.Nodup := by
  induction n with
  | zero =>
    intro l hl
    have : l = [] := List.length_eq_zero_iff.mp (by omega)
    subst this
    simp
  | succ n ih =>
    intro l hl
    cases l with
    | nil => simp
    | cons a as =>
      rw [List.eraseDups_cons, List.nodup_cons]
      constructor
      · intro hm
        rw [List.mem_eraseDups, List.mem_filter] at hm
        simp at hm
      · apply ih
        have := List.length_filter_le (fun b => !b == a) as
        simp only [List.length_cons] at hl
        omega

theorem nodup_eraseDups (l : List Nat) : l.eraseDups.Nodup := nodup_eraseDups_aux l.length l (Nat.le_refl _)

/-- the keys reported as deleted are exactly the requested keys that existed, each once -/
theorem delete_returns (s : St) (ks : List Nat) :
    (delete s ks).2.Nodup ∧ ∀ k, k ∈ (delete s ks).2 ↔ (k ∈ ks ∧ has s k = true) := by
  refine ⟨nodup_eraseDups _, ?_⟩
  intro k
  simp only [delete, List.mem_eraseDups, List.mem_filter, has, Bool.or_eq_true]
  constructor
  · rintro ⟨h1, h2⟩; exact ⟨h1, h2.symm⟩
  · rintro ⟨h1, h2⟩; exact ⟨h1, h2.symm⟩

/-- exactly the requested keys disappear -/
theorem delete_has (s : St) (ks : List Nat) (k : Nat) :
    has (delete s ks).1 k = (has s k && !ks.contains k) := has_delete s ks k

theorem find?_ext {α} {p q : α → Bool} {l : List α} (h : ∀ a ∈ l, p a = q a) : l.find? p = l.find? q := by
  induction l with
  | nil => rfl
  | cons x xs ih =>
    simp only [List.find?_cons]
    rw [h x (by simp), ih (fun a ha => h a (List.mem_cons_of_mem _ ha))]

theorem findRow_delete (s : St) (ks : List Nat) {k : Nat} (hk : k ∉ ks) :
    findRow (delete s ks).1.rows k = findRow s.rows k := by
  simp only [delete, findRow, List.find?_filter]
  apply find?_ext
  intro r _
  by_cases h : r.key = k
  · simp [h, hk]
  · simp [h]

theorem findLoose_delete (s : St) (ks : List Nat) {k : Nat} (hk : k ∉ ks) :
    findLoose (delete s ks).1.loose k = findLoose s.loose k := by
  simp only [delete, findLoose, List.find?_filter]
  congr 1
  apply find?_ext
  intro r _
  by_cases h : r.1 = k
  · simp [h, hk]
  · simp [h]

/-- every other object reads back unchanged, with unchanged metadata -/
theorem delete_others_unchanged (t : Tab) (s : St) (ks : List Nat) {k : Nat} (hk : k ∉ ks) :
    getc t (delete s ks).1 k = getc t s k ∧ getMeta t (delete s ks).1 k = getMeta t s k := by
  have h1 := findRow_delete s ks hk
  have h2 := findLoose_delete s ks hk
  constructor
  · unfold getc
    rw [h1, h2]
    cases findRow s.rows k with
    | none => rfl
    | some r => rfl
  · unfold getMeta
    rw [h1, h2]

/-- deletion never touches pack files -/
theorem delete_packs (s : St) (ks : List Nat) : (delete s ks).1.packs = s.packs := by
  rfl

/-- the segments of a pack as its live rows describe them, in offset order -/
def liveSegs (s : St) (p : Nat) : List Seg := (sortByOff (rowsOfPack s.rows p)).map (fun r => (⟨r.key, r.z⟩ : Seg))

/-! ### helpers for `repackPack_compacts` -/

/-- looking up, in `b`, the keys of `a` (same keys in the same order, no duplicates) returns `b` -/
theorem map_findRow_eq : ∀ (a b : List Row), a.map (·.key) = b.map (·.key) → (b.map (·.key)).Nodup →
    a.map (fun r => (findRow b r.key).getD r) = b := by
  intro a
  induction a with
  | nil =>
    intro b hk _
    cases b with
    | nil => rfl
    | cons y ys => simp at hk
  | cons x xs ih =>
    intro b hk nd
    cases b with
    | nil => simp at hk
    | cons y ys =>
      simp only [List.map_cons, List.cons.injEq] at hk
      simp only [List.map_cons, List.nodup_cons] at nd
      obtain ⟨hxy, hks⟩ := hk
      obtain ⟨hy, nd'⟩ := nd
      have h1 : findRow (y :: ys) x.key = some y := by
        simp [findRow, hxy]
      have h2 : xs.map (fun r => (findRow (y :: ys) r.key).getD r) = xs.map (fun r => (findRow ys r.key).getD r) := by
        apply List.map_congr_left
        intro r hr
        have hrk : r.key ∈ ys.map (·.key) := by
          rw [← hks]; exact List.mem_map_of_mem (f := (·.key)) hr
        have hne : ¬ y.key = r.key := fun h => hy (h ▸ hrk)
        simp [findRow, hne]
      simp only [List.map_cons, h1, h2, Option.getD_some, ih ys hks nd']

theorem rowsOfPack_map {rows : List Row} {f : Row → Row} (p : Nat) (hf : ∀ r ∈ rows, (f r).pack = r.pack) :
    rowsOfPack (rows.map f) p = (rowsOfPack rows p).map f := by
  unfold rowsOfPack
  rw [List.filter_map]
  congr 1
  apply List.filter_congr
  intro r hr
  simp [hf r hr]

/-- a list that is strictly sorted for `ORDER BY offset` is what sorting any permutation of it returns -/
theorem sortByOff_eq_of_perm {l l' : List Row} (hs : l'.Pairwise (fun a b => rowBefore a b = true))
    (hp : l.Perm l') : sortByOff l = l' := by
  have hperm : (sortByOff l).Perm l' := (sortByOff_perm l).trans hp
  refine List.Perm.eq_of_pairwise (le := rowLe) ?_ (sortByOff_sorted l) ?_ hperm
  · intro a b ha hb hab hba
    have ha' : a ∈ l' := hperm.subset ha
    rcases pairwise_trichotomy hs ha' hb with h | h | h
    · exact h
    · rw [rowBefore_iff] at h
      unfold rowLe at hab hba
      omega
    · rw [rowBefore_iff] at h
      unfold rowLe at hab hba
      omega
  · exact hs.imp (fun h => rowLe_of_rowBefore h)

theorem rowsOfPack_ids_nodup {t : Tab} {s : St} (inv : Inv t s) (p : Nat) :
    ((sortByOff (rowsOfPack s.rows p)).map (·.id)).Nodup := by
  have h1 : ((rowsOfPack s.rows p).map (·.id)).Nodup :=
    inv.ids_nodup.sublist (List.Sublist.map _ List.filter_sublist)
  exact ((sortByOff_perm _).map _).nodup_iff.mpr h1

theorem rowsOfPack_keys_nodup {t : Tab} {s : St} (inv : Inv t s) (p : Nat) :
    ((sortByOff (rowsOfPack s.rows p)).map (·.key)).Nodup := by
  have h1 : ((rowsOfPack s.rows p).map (·.key)).Nodup :=
    inv.keys_nodup.sublist (List.Sublist.map _ List.filter_sublist)
  exact ((sortByOff_perm _).map _).nodup_iff.mpr h1

/-- the rebuilt rows are strictly sorted for `ORDER BY offset` -/
theorem rebuilt_sorted {t : Tab} {s : St} (inv : Inv t s) (p : Nat) (zs : List Bool) :
    (rebuild t p (sortByOff (rowsOfPack s.rows p)) zs 0).2.Pairwise (fun a b => rowBefore a b = true) := by
  have h1 := (rebuild_pairwise t p (sortByOff (rowsOfPack s.rows p)) zs 0).1
  have h2 : (rebuild t p (sortByOff (rowsOfPack s.rows p)) zs 0).2.Pairwise (fun a b => a.id ≤ b.id) := by
    have h0 : ((sortByOff (rowsOfPack s.rows p)).map (·.id)).Pairwise (· ≤ ·) :=
      List.pairwise_map.mpr (sorted_ids inv p)
    rw [← rebuild_ids t p _ zs 0] at h0
    exact List.pairwise_map.mp h0
  have h3 : (rebuild t p (sortByOff (rowsOfPack s.rows p)) zs 0).2.Pairwise (fun a b => a.id ≠ b.id) := by
    have h0 := rowsOfPack_ids_nodup inv p
    rw [← rebuild_ids t p _ zs 0] at h0
    exact List.pairwise_map.mp h0
  refine ((h1.and h2).and h3).imp ?_
  intro a b h
  obtain ⟨⟨ha, hb⟩, hc⟩ := h
  rw [rowBefore_iff]
  omega

/-- after the row update the rows of pack `p`, in `ORDER BY offset` order, are exactly the rebuilt rows -/
theorem rows_rebuilt {t : Tab} {s : St} (inv : Inv t s) (p : Nat) (zs : List Bool) :
    sortByOff (rowsOfPack (s.rows.map (repackRow p (rebuild t p (sortByOff (rowsOfPack s.rows p)) zs 0).2)) p)
      = (rebuild t p (sortByOff (rowsOfPack s.rows p)) zs 0).2 := by
  have spec := fun (r : Row) (hr : r ∈ s.rows) => repackRow_spec inv p zs hr
  apply sortByOff_eq_of_perm (rebuilt_sorted inv p zs)
  rw [rowsOfPack_map p (fun r hr => (spec r hr).2.2.1)]
  have hmap : (sortByOff (rowsOfPack s.rows p)).map
      (repackRow p (rebuild t p (sortByOff (rowsOfPack s.rows p)) zs 0).2)
      = (rebuild t p (sortByOff (rowsOfPack s.rows p)) zs 0).2 := by
    have hc : (sortByOff (rowsOfPack s.rows p)).map
        (repackRow p (rebuild t p (sortByOff (rowsOfPack s.rows p)) zs 0).2)
        = (sortByOff (rowsOfPack s.rows p)).map
          (fun r => (findRow (rebuild t p (sortByOff (rowsOfPack s.rows p)) zs 0).2 r.key).getD r) := by
      apply List.map_congr_left
      intro r hr
      have hp : r.pack = p := (mem_rowsOfPack.mp (mem_sortByOff.mp hr)).2
      simp [repackRow, hp]
    rw [hc]
    apply map_findRow_eq
    · rw [rebuild_keys]
    · rw [rebuild_keys]; exact rowsOfPack_keys_nodup inv p
  have hperm := ((sortByOff_perm (rowsOfPack s.rows p)).map
    (repackRow p (rebuild t p (sortByOff (rowsOfPack s.rows p)) zs 0).2)).symm
  rw [hmap] at hperm
  exact hperm

theorem rowsOfPack_rebuilt_ne {t : Tab} {s : St} (inv : Inv t s) (p : Nat) (zs : List Bool) {q : Nat} (hq : q ≠ p) :
    rowsOfPack (s.rows.map (repackRow p (rebuild t p (sortByOff (rowsOfPack s.rows p)) zs 0).2)) q
      = rowsOfPack s.rows q := by
  have spec := fun (r : Row) (hr : r ∈ s.rows) => repackRow_spec inv p zs hr
  rw [rowsOfPack_map q (fun r hr => (spec r hr).2.2.1)]
  have : (rowsOfPack s.rows q).map (repackRow p (rebuild t p (sortByOff (rowsOfPack s.rows p)) zs 0).2)
      = (rowsOfPack s.rows q).map id := by
    apply List.map_congr_left
    intro r hr
    obtain ⟨hr1, hr2⟩ := mem_rowsOfPack.mp hr
    exact (spec r hr1).2.2.2.2.1 (by rw [hr2]; exact hq)
  rw [this, List.map_id]

/-- after repacking one pack it consists of exactly its live objects' stored bytes, or is gone when it has none -/
theorem repackPack_compacts {t : Tab} {s s' : St} (inv : Inv t s) {m : Mode} {p : Nat} {order : List Nat} {zs : List Bool}
    (h : repackPack t s m p order zs = some s') :
    (rowsOfPack s'.rows p = [] → getPack s'.packs p = none) ∧
    (rowsOfPack s'.rows p ≠ [] → getPack s'.packs p = some (liveSegs s' p)) ∧
    (∀ q, q ≠ p → getPack s'.packs q = getPack s.packs q ∧ rowsOfPack s'.rows q = rowsOfPack s.rows q) := by
  unfold repackPack at h
  simp only at h
  split at h
  · rename_i hnil
    split at h
    · simp only [Option.some.injEq] at h
      subst h
      refine ⟨fun _ => getPack_erasePack_eq _ _, fun hne => absurd hnil hne, ?_⟩
      intro q hq
      exact ⟨getPack_erasePack_ne _ _ _ hq, rfl⟩
    · simp at h
  · rename_i hne
    split at h
    · simp at h
    · split at h
      · simp at h
      · split at h
        · simp at h
        · simp only [Option.some.injEq] at h
          subst h
          have hrows := rows_rebuilt inv p zs
          refine ⟨?_, ?_, ?_⟩
          · intro hnil
            exfalso
            have h0 : sortByOff (rowsOfPack (s.rows.map (repackRow p
                (rebuild t p (sortByOff (rowsOfPack s.rows p)) zs 0).2)) p) = [] := by
              have : rowsOfPack (s.rows.map (repackRow p
                (rebuild t p (sortByOff (rowsOfPack s.rows p)) zs 0).2)) p = [] := hnil
              rw [this]; rfl
            rw [hrows] at h0
            have h1 := rebuild_keys t p (sortByOff (rowsOfPack s.rows p)) zs 0
            rw [h0] at h1
            have h2 : sortByOff (rowsOfPack s.rows p) = [] := by
              simpa using h1.symm
            have h3 := (sortByOff_perm (rowsOfPack s.rows p)).symm
            rw [h2] at h3
            exact hne (List.Perm.eq_nil h3)
          · intro _
            show getPack (setPack s.packs p _) p = some (List.map _ (sortByOff (rowsOfPack (s.rows.map (repackRow p
                (rebuild t p (sortByOff (rowsOfPack s.rows p)) zs 0).2)) p)))
            rw [hrows, getPack_setPack_eq, rebuild_segs]
          · intro q hq
            exact ⟨getPack_setPack_ne _ _ _ _ hq, rowsOfPack_rebuilt_ne inv p zs hq⟩

/-- pack `p` either does not exist or is exactly the concatenation of its live objects -/
def Compact (s : St) (p : Nat) : Prop :=
  ∀ segs, getPack s.packs p = some segs → rowsOfPack s.rows p ≠ [] ∧ segs = liveSegs s p

theorem compact_repackPack_self {t : Tab} {s s' : St} (inv : Inv t s) {m : Mode} {p : Nat} {order : List Nat}
    {zs : List Bool} (h : repackPack t s m p order zs = some s') : Compact s' p := by
  obtain ⟨h1, h2, _⟩ := repackPack_compacts inv h
  intro segs hs
  by_cases hn : rowsOfPack s'.rows p = []
  · rw [h1 hn] at hs
    cases hs
  · refine ⟨hn, ?_⟩
    rw [h2 hn] at hs
    cases hs
    rfl

theorem compact_repackPack_other {t : Tab} {s s' : St} (inv : Inv t s) {m : Mode} {p q : Nat} {order : List Nat}
    {zs : List Bool} (h : repackPack t s m p order zs = some s') (hq : q ≠ p) (hc : Compact s q) : Compact s' q := by
  obtain ⟨_, _, h3⟩ := repackPack_compacts inv h
  obtain ⟨hg, hr⟩ := h3 q hq
  intro segs hs
  rw [hg] at hs
  obtain ⟨c1, c2⟩ := hc segs hs
  refine ⟨by rw [hr]; exact c1, ?_⟩
  rw [c2]
  unfold liveSegs
  rw [hr]

theorem repackAll_compacts_aux {t : Tab} {m : Mode} (plan : List (Nat × List Nat × List Bool)) :
    ∀ {s s' : St}, Inv t s → repackAll t m s plan = some s' →
      (∀ p, p ∈ plan.map (·.1) ∨ Compact s p) → ∀ p, Compact s' p := by
  induction plan with
  | nil =>
    intro s s' _ h hc p
    simp only [repackAll, Option.some.injEq] at h
    subst h
    rcases hc p with hp | hp
    · simp at hp
    · exact hp
  | cons e rest ih =>
    intro s s' inv h hc
    obtain ⟨p0, order, zs⟩ := e
    simp only [repackAll] at h
    split at h
    · simp at h
    · rename_i s1 hs1
      apply ih (inv_repackPack inv hs1) h
      intro q
      by_cases hq : q = p0
      · subst hq
        exact Or.inr (compact_repackPack_self inv hs1)
      · rcases hc q with hm | hm
        · simp only [List.map_cons, List.mem_cons] at hm
          rcases hm with hm | hm
          · exact absurd hm hq
          · exact Or.inl hm
        · exact Or.inr (compact_repackPack_other inv hs1 hq hm)

/-- a full repack (a plan naming every pack file) leaves every pack equal to the concatenation of its live objects
    and removes packs without live objects -/
theorem repackAll_compacts {t : Tab} {m : Mode} {plan : List (Nat × List Nat × List Bool)} {s s' : St} (inv : Inv t s)
    (h : repackAll t m s plan = some s') (cover : ∀ p ∈ s.packs.map (·.1), p ∈ plan.map (·.1)) :
    ∀ p segs, getPack s'.packs p = some segs → rowsOfPack s'.rows p ≠ [] ∧ segs = liveSegs s' p := by
  apply repackAll_compacts_aux plan inv h
  intro p
  by_cases hp : p ∈ s.packs.map (·.1)
  · exact Or.inl (cover p hp)
  · right
    intro segs hs
    rw [getPack_none_of_not_mem hp] at hs
    cases hs

end Dos
