/-
The AUTO heuristic reads a bounded sample whatever the size of the object: at most 128 KiB + 1 KiB in reads of at most
1 KiB, all inside the stream, never moving backwards; small objects are read completely.
-/
import Dos.Sample

namespace Dos.Sample

/-! ### helper lemmas -/

/-- one step of the loop, with the constants as numerals -/
theorem loop_succ (size f pos total : Nat) :
    loop size (f + 1) pos total =
      if total < 131072 then
        if min 1024 (size - pos) = 0 then [(pos, 0)]
        else (pos, min 1024 (size - pos)) ::
          loop size f
            (pos + min 1024 (size - pos) +
              min (size - (pos + min 1024 (size - pos))) (size / 128 - min 1024 (size - pos)))
            (total + min 1024 (size - pos))
      else [] := by
  rfl

theorem loop_zero (size pos total : Nat) : loop size 0 pos total = [] := rfl

theorem sampled_nil : sampled [] = 0 := rfl

theorem sampled_cons (a : Nat × Nat) (l : List (Nat × Nat)) : sampled (a :: l) = a.2 + sampled l := by
  simp [sampled]

/-- at the end of the stream the loop makes at most one (empty) read, whatever the fuel -/
theorem loop_at_end (size f pos total : Nat) (hp : size ≤ pos) :
    loop size (f + 1) pos total = if total < 131072 then [(pos, 0)] else [] := by
  rw [loop_succ]
  have : min 1024 (size - pos) = 0 := by omega
  simp [this]

/-- every read is inside the stream, at or after the current position, at most 1 KiB long -/
theorem loop_within (size : Nat) : ∀ (f pos total : Nat), pos ≤ size →
    ∀ r ∈ loop size f pos total, pos ≤ r.1 ∧ r.1 + r.2 ≤ size ∧ r.2 ≤ 1024 := by
  intro f
  induction f with
  | zero => intro pos total _ r hr; simp [loop_zero] at hr
  | succ f ih =>
    intro pos total hp r hr
    rw [loop_succ] at hr
    split at hr
    · split at hr
      · simp at hr; subst hr; simp; omega
      · rw [List.mem_cons] at hr
        rcases hr with hr | hr
        · subst hr; simp only; omega
        · have := ih _ _ (by omega) r hr
          omega
    · simp at hr

theorem loop_forward (size : Nat) : ∀ (f pos total : Nat), pos ≤ size →
    List.Pairwise (fun a b => a.1 + a.2 ≤ b.1) (loop size f pos total) := by
  intro f
  induction f with
  | zero => intro pos total _; simp [loop_zero]
  | succ f ih =>
    intro pos total hp
    rw [loop_succ]
    split
    · split
      · simp
      · rw [List.pairwise_cons]
        refine ⟨?_, ih _ _ (by omega)⟩
        intro r hr
        have := loop_within size _ _ _ (by omega) r hr
        simp only
        omega
    · simp

theorem loop_sampled (size : Nat) : ∀ (f pos total : Nat), pos ≤ size →
    sampled (loop size f pos total) ≤ size - pos ∧
    (total ≤ 131072 + 1024 → total + sampled (loop size f pos total) ≤ 131072 + 1024) := by
  intro f
  induction f with
  | zero => intro pos total _; simp [loop_zero, sampled_nil]
  | succ f ih =>
    intro pos total hp
    rw [loop_succ]
    split
    · split
      · simp [sampled_cons, sampled_nil]
      · rw [sampled_cons]
        have := ih (pos + min 1024 (size - pos) +
              min (size - (pos + min 1024 (size - pos))) (size / 128 - min 1024 (size - pos)))
            (total + min 1024 (size - pos)) (by omega)
        simp only
        omega
    · simp [sampled_nil]

theorem loop_length_at_end (size f pos total : Nat) (hp : size ≤ pos) :
    (loop size f pos total).length ≤ 1 := by
  cases f with
  | zero => simp [loop_zero]
  | succ f => rw [loop_at_end _ _ _ _ hp]; split <;> simp

theorem loop_length (size : Nat) : ∀ (f pos total : Nat), pos ≤ size → total % 1024 = 0 →
    (loop size f pos total).length ≤ (131072 - total) / 1024 + 2 := by
  intro f
  induction f with
  | zero => intro pos total _ _; simp [loop_zero]
  | succ f ih =>
    intro pos total hp ht
    rw [loop_succ]
    split
    · split
      · simp
      · rw [List.length_cons]
        by_cases hl : size - pos < 1024
        · have := loop_length_at_end size f (pos + min 1024 (size - pos) +
              min (size - (pos + min 1024 (size - pos))) (size / 128 - min 1024 (size - pos)))
            (total + min 1024 (size - pos)) (by omega)
          omega
        · have hm : min 1024 (size - pos) = 1024 := by omega
          rw [hm]
          have := ih (pos + 1024 + min (size - (pos + 1024)) (size / 128 - 1024)) (total + 1024)
            (by omega) (by omega)
          omega
    · simp

/-- one more unit of fuel changes nothing once the fuel exceeds the number of reads still possible -/
theorem loop_fuel_succ (size : Nat) : ∀ (f pos total : Nat), pos ≤ size → total % 1024 = 0 →
    (131072 - total) / 1024 + 2 ≤ f → loop size (f + 1) pos total = loop size f pos total := by
  intro f
  induction f with
  | zero => intro pos total _ _ h; omega
  | succ f ih =>
    intro pos total hp ht hf
    rw [loop_succ size (f + 1) pos total, loop_succ size f pos total]
    split
    · split
      · rfl
      · congr 1
        by_cases hl : size - pos < 1024
        · obtain ⟨g, rfl⟩ : ∃ g, f = g + 1 := ⟨f - 1, by omega⟩
          rw [loop_at_end _ (g + 1) _ _ (by omega), loop_at_end _ g _ _ (by omega)]
        · have hm : min 1024 (size - pos) = 1024 := by omega
          rw [hm]
          exact ih _ _ (by omega) (by omega) (by omega)
    · rfl

/-- contiguous reads when the interval is no larger than a sample -/
theorem loop_small (size : Nat) (hs : size / 128 ≤ 1024) : ∀ (f pos total : Nat), pos ≤ size →
    total + (size - pos) ≤ 131072 → size - pos + 1024 ≤ 1024 * f →
    sampled (loop size f pos total) = size - pos := by
  intro f
  induction f with
  | zero => intro pos total _ _ h; omega
  | succ f ih =>
    intro pos total hp ht hf
    rw [loop_succ]
    split
    · split
      · simp [sampled_cons, sampled_nil]; omega
      · rw [sampled_cons]
        have := ih (pos + min 1024 (size - pos) +
              min (size - (pos + min 1024 (size - pos))) (size / 128 - min 1024 (size - pos)))
            (total + min 1024 (size - pos)) (by omega) (by omega) (by omega)
        simp only
        omega
    · simp [sampled_nil]; omega

/-! ### the theorems -/

/-- the fuel given in `sampleReads` suffices: more fuel gives the same reads -/
theorem sampleReads_fuel (size f : Nat) (hf : 200 ≤ f) : loop size f 0 0 = loop size 200 0 0 := by
  obtain ⟨k, rfl⟩ := Nat.exists_eq_add_of_le hf
  induction k with
  | zero => rfl
  | succ k ih =>
    rw [← ih (by omega), ← Nat.add_assoc]
    exact loop_fuel_succ size _ 0 0 (by omega) (by omega) (by omega)

theorem sampleReads_within (size : Nat) : ∀ r ∈ sampleReads size, r.1 + r.2 ≤ size ∧ r.2 ≤ sampleSize := by
  intro r hr
  unfold sampleReads at hr
  split at hr
  · simp at hr
  · have := loop_within size 200 0 0 (by omega) r hr
    simp only [sampleSize]
    omega

/-- never backwards, never overlapping: consecutive reads are in increasing, disjoint positions -/
theorem sampleReads_forward (size : Nat) :
    List.Pairwise (fun a b => a.1 + a.2 ≤ b.1) (sampleReads size) := by
  unfold sampleReads
  split
  · simp
  · exact loop_forward size 200 0 0 (by omega)

theorem sampleReads_bounded (size : Nat) :
    sampled (sampleReads size) ≤ maxSampled + sampleSize ∧ sampled (sampleReads size) ≤ size ∧
    (sampleReads size).length ≤ 130 := by
  unfold sampleReads
  simp only [maxSampled, sampleSize]
  split
  · simp [sampled_nil]
  · have h1 := loop_sampled size 200 0 0 (by omega)
    have h2 := loop_length size 200 0 0 (by omega) (by omega)
    omega

/-- an object no larger than the sampling window is read completely, contiguously -/
theorem sampleReads_small (size : Nat) (h : size ≤ maxSampled) : sampled (sampleReads size) = size := by
  simp only [maxSampled] at h
  unfold sampleReads
  split
  · subst_vars; rfl
  · have := loop_small size (by omega) 200 0 0 (by omega) (by omega) (by omega)
    omega

end Dos.Sample
