/-
A full `repack()` is safe against a kill, a power loss and a single fault at every cut point of the whole sequence.
-/
import Dos.IORepackAll
import Dos.IOSpec
import Dos.Proofs.IORepack
import Dos.Proofs.IORepackAllAux

namespace Dos.IO
open Dos

set_option linter.unusedVariables false in
theorem safe_repackAll {t : Tab} (wf : t.WF) {s : St} (inv : Inv t s) (hb : Bounded s) (nt : NoTmp s)
    (plan : List (Nat × List Bool)) (hp : planOK t s plan = true) :
    AllSafe t s (actsRepackAll t s plan) (keysOf s) := by
  exact Repack.allSafe_of_good wf inv (Repack.allPre_all wf plan s inv nt hp)

/-- the intermediate on-disk states are quiescent: compiling the next pack from `toSt` of the state reached loses nothing -/
theorem quiescent_repackPack {t : Tab} {s : St} (inv : Inv t s) (nt : NoTmp s) (p : Nat) (hp : p ≠ tmpId)
    (zs : List Bool) :
    ofSt (toSt (execAll (ofSt s) (actsRepackPack t s p zs))) = execAll (ofSt s) (actsRepackPack t s p zs) :=
  Repack.ofSt_toSt (Repack.done_pack inv nt p hp zs).quiet

end Dos.IO
