/-
Helpers for `Dos/Proofs/ConcDirect.lean`: the action lists of the direct-to-pack writers (with options) and of
`import_objects`, compiled with `no_holes=False`, are allowed action by action (`allowedAll`) from `ofSt s`.

The flushed-prefix simulation of `Dos/Proofs/IOImportAux.lean` (`Imp.Idle` / `Imp.Mid` with `fl = true`) gives, at every
point where a commit is issued, that the working copy of the index lies in the flushed prefix of the packs (`wrk`);
the only additional fact the discipline needs is that the working copy still contains every committed row (`RowsSub`),
which every action of these lists preserves.
-/
import Dos.IOImport
import Dos.Proofs.ConcProofs
import Dos.Proofs.IOImportAux

namespace Dos.Conc
open Dos Dos.IO

/-- the open transaction (if any) still contains every committed row -/
def RowsSub (x : XSt) : Prop := ∀ r ∈ x.rows, r ∈ workOf x

theorem rowsSub_of_work_none {x : XSt} (h : x.work = none) : RowsSub x := by
  intro r hr
  simpa [workOf, h] using hr

theorem rowsSub_plain {x : XSt} (h : RowsSub x) {a : Act} (ha : plain a = true) : RowsSub (exec x a) := by
  cases a <;> simp only [plain] at ha <;> try (exact absurd ha (by decide))
  case dirSync => exact h
  case readLoose => exact h
  case lock => exact h
  case unlock => exact h
  case pkOpen p =>
    rw [Imp.exec_pkOpen]; exact h
  case pkWrite p sg => exact h
  case pkFlush p => exact h
  case pkFsync p => exact h
  case pkClose p => exact h
  case pkTruncate p n => exact h
  case sqlInsert r0 =>
    intro r hr
    show r ∈ workOf { x with work := some (insertIgnore (workOf x) r0) }
    simp only [workOf, Option.getD_some]
    exact sub_foldl_insertIgnore [r0] _ _ (h r hr)

theorem rowsSub_commit (x : XSt) : RowsSub (exec x .sqlCommit) :=
  rowsSub_of_work_none rfl

/-- the list is allowed action by action from `x`, and the final state still satisfies `RowsSub` -/
structure Ok (t : Tab) (x : XSt) (acts : List Act) : Prop where
  al : allowedAll t x acts = true
  sub : RowsSub (execAll x acts)

theorem ok_nil {t : Tab} {x : XSt} (h : RowsSub x) : Ok t x [] := ⟨rfl, h⟩

theorem ok_append {t : Tab} {x : XSt} {l1 l2 : List Act} (h1 : Ok t x l1) (h2 : Ok t (execAll x l1) l2) :
    Ok t x (l1 ++ l2) := by
  refine ⟨?_, ?_⟩
  · rw [allowedAll_append, h1.al, h2.al]; rfl
  · rw [execAll_append]; exact h2.sub

theorem ok_plain {t : Tab} (l : List Act) : ∀ {x : XSt}, RowsSub x → (∀ a ∈ l, plain a = true) → Ok t x l := by
  induction l with
  | nil => intro x h _; exact ok_nil h
  | cons a l ih =>
    intro x h hp
    have h1 := ih (rowsSub_plain h (hp a List.mem_cons_self)) (fun b hb => hp b (List.mem_cons_of_mem _ hb))
    refine ⟨?_, h1.sub⟩
    simp only [allowedAll, Bool.and_eq_true]
    exact ⟨plain_allowed x (hp a List.mem_cons_self), h1.al⟩

/-- between sessions (pack closed, hence flushed) the working copy may be committed -/
theorem commit_allowed_idle {t : Tab} (wf : t.WF) {keep : List Nat} {x : XSt} {b : St} (i : Imp.Idle true t keep x b)
    (hsub : RowsSub x) : pkAllowed t x .sqlCommit = true := by
  have gc := i.wrk
  simp only [pkAllowed, Bool.and_eq_true, List.all_eq_true]
  refine ⟨⟨?_, ?_⟩, nodupB_of_nodup gc.keys_nodup⟩
  · intro r hr
    obtain ⟨pk, h1, h2⟩ := gc.rows_ok r hr
    have h3 : SegOK t (pk.segs.take pk.flushed) r := by simpa [Imp.wm] using h2
    have h4 := findSeg_of_segOK wf h3
    obtain ⟨_, _, _, _, _, hsz⟩ := h3
    simp only [h1, segOKb, h4]
    simp [hsz]
  · intro r hr
    simpa using hsub r hr

theorem ok_commit {t : Tab} (wf : t.WF) {keep : List Nat} {x : XSt} {b : St} (i : Imp.Idle true t keep x b)
    (hsub : RowsSub x) : Ok t x [.sqlCommit] := by
  refine ⟨?_, rowsSub_commit x⟩
  simp only [allowedAll, Bool.and_true]
  exact commit_allowed_idle wf i hsub

theorem hfs_true {df : Bool} : true = false → df = true := by intro h; cases h

/-- the end of a session without truncation: the inserts, the (optional) flush+fsync, the close, the unlock, and - after
    the close - the (optional) commit -/
theorem ok_sessionEndO {t : Tab} (wf : t.WF) {keep : List Nat} {x : XSt} {b : St} {q : Nat} {rs : List Row}
    (m : Imp.Mid true t keep x b q rs) (hsub : RowsSub x) (df dc : Bool) :
    Ok t x (sessionEndO q rs false df dc) := by
  obtain ⟨_, i1⟩ := Imp.mid_endO m false df hfs_true
  have o1 : Ok t x (Imp.endO q rs false df) := ok_plain _ hsub (Imp.endO_plain q rs false df)
  rw [Imp.sessionEndO_eq]
  cases hc : (dc && !rs.isEmpty) with
  | true =>
    simp only [if_true]
    exact ok_append o1 (ok_commit wf i1 o1.sub)
  | false =>
    simp only [Bool.false_eq_true, if_false, List.append_nil]
    exact o1

theorem ok_open {t : Tab} {x : XSt} (h : RowsSub x) (p : Nat) : Ok t x [.lock p, .pkOpen p] :=
  ok_plain _ h (by intro a ha; simp at ha; rcases ha with rfl | rfl <;> rfl)

/-- reachable compiler state, with the discipline respected so far -/
def ReachD (t : Tab) (keep : List Nat) (x0 : XSt) (w : WSt) : Prop :=
  Imp.Reach true t keep x0 w ∧ Ok t x0 w.acts

theorem wOpenO_ok {t : Tab} (wf : t.WF) {keep : List Nat} {x0 : XSt} {w : WSt} (df dc : Bool)
    (h : ReachD t keep x0 w) : Ok t x0 (wOpenO t false df dc w).acts := by
  obtain ⟨⟨_, sim⟩, ok⟩ := h
  unfold Imp.Sim at sim
  unfold wOpenO
  simp only
  cases hop : w.openP with
  | none =>
    simp only [hop] at sim ⊢
    exact ok_append ok (ok_open ok.sub _)
  | some q =>
    simp only [hop] at sim ⊢
    by_cases hq : q = (openCur t w.s).cur
    · simp only [hq, if_true]
      exact ok
    · simp only [hq, if_false]
      have o1 := ok_append ok (ok_sessionEndO wf sim ok.sub df dc)
      exact ok_append o1 (ok_open o1.sub _)

theorem reachD_wAddPackedO {t : Tab} (wf : t.WF) {keep : List Nat} {x0 : XSt} {w : WSt} (z rt df dc : Bool) (c : Nat)
    (h : ReachD t keep x0 w) : ReachD t keep x0 (wAddPackedO t z false rt df dc w c) := by
  refine ⟨Imp.reach_wAddPackedO z false rt df dc c hfs_true h.1, ?_⟩
  have o1 := wOpenO_ok wf df dc h
  unfold wAddPackedO
  simp only [Bool.false_and, Bool.false_eq_true, if_false]
  exact ok_append o1 (ok_plain _ o1.sub (by intro a ha; simp at ha; subst ha; rfl))

theorem reachD_foldl {t : Tab} (wf : t.WF) {keep : List Nat} {x0 : XSt} (z rt df dc : Bool) (cs : List Nat) :
    ∀ w, ReachD t keep x0 w → ReachD t keep x0 (cs.foldl (wAddPackedO t z false rt df dc) w) := by
  induction cs with
  | nil => intro w h; exact h
  | cons c cs ih => intro w h; exact ih _ (reachD_wAddPackedO wf z rt df dc c h)

/-- one call -/
theorem call_ok {t : Tab} (wf : t.WF) {keep : List Nat} {x : XSt} {b : St} (i : Imp.Idle true t keep x b)
    (hsub : RowsSub x) (cs : List Nat) (z rt df dc : Bool) : Ok t x (callActs t b cs z false rt df dc).1 := by
  cases cs with
  | nil => exact ok_nil hsub
  | cons c cs =>
    have hr := reachD_foldl wf (keep := keep) (x0 := x) z rt df dc (c :: cs) _ ⟨Imp.reach_init i, ok_nil hsub⟩
    simp only [callActs]
    generalize (c :: cs).foldl (wAddPackedO t z false rt df dc) { s := b, openP := none, rows := [], acts := [] } = w
      at hr
    obtain ⟨⟨_, sim⟩, ok⟩ := hr
    unfold Imp.Sim at sim
    cases hop : w.openP with
    | none =>
      simp only [hop] at sim ⊢
      exact ok
    | some q =>
      simp only [hop] at sim ⊢
      exact ok_append ok (ok_sessionEndO wf sim ok.sub df dc)

/-- a sequence of non-committing calls -/
theorem calls_ok {t : Tab} (wf : t.WF) {keep : List Nat} (z rt df : Bool) (calls : List (List Nat)) :
    ∀ {x : XSt} {b : St}, Imp.Idle true t keep x b → RowsSub x → Ok t x (callsGo t z false rt df b calls) := by
  induction calls with
  | nil => intro x b _ hsub; exact ok_nil hsub
  | cons cs rest ih =>
    intro x b i hsub
    have o1 := call_ok wf i hsub cs z rt df false
    obtain ⟨_, i1⟩ := Imp.call_step i cs z false rt df false hfs_true
    rw [Imp.callActs_snd t b cs z false rt df false i.inv.target_pos] at i1
    have e : callsGo t z false rt df b (cs :: rest) =
        (callActs t b cs z false rt df false).1 ++ callsGo t z false rt df (addPacked t b cs z false) rest := by
      simp only [callsGo, Imp.callActs_snd t b cs z false rt df false i.inv.target_pos]
    rw [e]
    exact ok_append o1 (ih i1 o1.sub)

theorem allowed_addPackedO {t : Tab} (wf : t.WF) {s : St} (inv : Inv t s) (cs : List Nat) (z rt df : Bool) :
    allowedAll t (ofSt s) (actsAddPackedO t s cs z false rt df) = true :=
  (call_ok wf (Imp.idle_ofSt (fl := true) inv) (rowsSub_of_work_none rfl) cs z rt df true).al

theorem allowed_import {t : Tab} (wf : t.WF) {s : St} (inv : Inv t s) (calls : List (List Nat)) (z rt df : Bool) :
    allowedAll t (ofSt s) (actsImport t s calls z false rt df) = true := by
  have i0 : Imp.Idle true t (keysOf s) (ofSt s) s := Imp.idle_ofSt inv
  have o1 := calls_ok wf z rt df calls i0 (rowsSub_of_work_none rfl)
  obtain ⟨_, i1⟩ := Imp.calls_step z false rt df hfs_true calls i0
  unfold actsImport
  exact (ok_append o1 (ok_commit wf i1 o1.sub)).al

end Dos.Conc
