/-
C12 (second half): whatever the bytes on disk and whatever the index says, if `validate()` reports nothing then every
object reads back as bytes whose digest is its key and whose length is its recorded size - so, digests being
collision-free, an object that reads back as different bytes, or not at all, is always reported.
C01 (write side): the chunk loops hash and store exactly the bytes they are given, whatever the chunk size.
-/
import Dos.Bytes

namespace Dos.Bytes

/-! ### helpers: what a clean report means -/

theorem clean_loose (a : Algo) (s : BStore) (hv : validateClean a s = true) :
    ∀ e ∈ s.loose, a.H e.2 = e.1 := by
  intro e he
  simp only [validateClean, badLoose, Bool.and_eq_true, List.isEmpty_iff, List.map_eq_nil_iff,
    List.filter_eq_nil_iff] at hv
  have h := hv.1 e he
  simpa using h

theorem clean_rows (a : Algo) (s : BStore) (hv : validateClean a s = true) :
    ∀ r ∈ s.rows, ∃ b, readRowB a s r = some b ∧ a.H b = r.key ∧ b.length = r.size := by
  intro r hr
  simp only [validateClean, badPacked, Bool.and_eq_true, List.isEmpty_iff, List.map_eq_nil_iff,
    List.filter_eq_nil_iff] at hv
  have h := hv.2 r hr
  cases hrd : readRowB a s r with
  | none => rw [hrd] at h; exact absurd rfl h
  | some b =>
    rw [hrd] at h
    refine ⟨b, rfl, ?_, ?_⟩
    · apply Classical.byContradiction
      intro hne
      apply h
      simp [hne]
    · apply Classical.byContradiction
      intro hne
      apply h
      simp [hne]

theorem findRowB_some {rows : List BRow} {k : Nat} {r : BRow} (h : findRowB rows k = some r) :
    r ∈ rows ∧ r.key = k := by
  unfold findRowB at h
  refine ⟨List.mem_of_find?_eq_some h, ?_⟩
  have := List.find?_some h
  simpa using this

theorem findLooseB_some {l : List (Nat × Bytes)} {k : Nat} {b : Bytes} (h : findLooseB l k = some b) :
    ∃ e ∈ l, e.1 = k ∧ e.2 = b := by
  unfold findLooseB at h
  cases hf : l.find? (fun e => e.1 == k) with
  | none => rw [hf] at h; cases h
  | some e =>
    rw [hf] at h
    refine ⟨e, List.mem_of_find?_eq_some hf, ?_, ?_⟩
    · have := List.find?_some hf
      simpa using this
    · simpa using h

/-- … and every indexed key CAN be read (a row whose range cannot be read or inflated is reported) -/
theorem validate_sound_readable (a : Algo) (s : BStore) (hv : validateClean a s = true) (r : BRow) (hr : r ∈ s.rows) :
    ∃ b, readRowB a s r = some b ∧ a.H b = r.key ∧ b.length = r.size :=
  clean_rows a s hv r hr

/-- a clean validation means: every key that can be read at all reads as bytes that hash to the key
    (and, for packed objects, have the recorded size) -/
theorem validate_sound (a : Algo) (s : BStore) (hv : validateClean a s = true)
    (hu : (s.loose.map (·.1)).Nodup) (k : Nat) (b : Bytes) (hg : getB a s k = some b) :
    a.H b = k ∧ (∀ r, findRowB s.rows k = some r → b.length = r.size) := by
  have _ := hu  -- (uniqueness of loose names is not needed for this direction)
  unfold getB at hg
  cases hf : findRowB s.rows k with
  | some r0 =>
    rw [hf] at hg
    simp only at hg
    obtain ⟨hmem, hkey⟩ := findRowB_some hf
    obtain ⟨b', hb', hH, hlen⟩ := clean_rows a s hv r0 hmem
    rw [hg] at hb'
    cases hb'
    refine ⟨by rw [hH, hkey], ?_⟩
    intro r hr
    cases hr
    exact hlen
  | none =>
    rw [hf] at hg
    simp only at hg
    obtain ⟨e, he, hk, hb⟩ := findLooseB_some hg
    have := clean_loose a s hv e he
    refine ⟨by rw [← hb, this, hk], ?_⟩
    intro r hr
    cases hr

/-- the contrapositive used by property C12: with a collision-free digest, if key `k` used to be content `c` and now
    reads back as something else (or, being indexed, cannot be read), validation is not clean -/
theorem damaged_never_clean (a : Algo) (s : BStore) (hu : (s.loose.map (·.1)).Nodup)
    (hinj : ∀ x y, a.H x = a.H y → x = y) (k : Nat) (c : Bytes) (hk : a.H c = k)
    (hd : (∃ b, getB a s k = some b ∧ b ≠ c) ∨ (∃ r, r ∈ s.rows ∧ r.key = k ∧ readRowB a s r = none) ∨
          (∃ r b, r ∈ s.rows ∧ r.key = k ∧ readRowB a s r = some b ∧ b.length ≠ r.size)) :
    validateClean a s = false := by
  cases hv : validateClean a s with
  | false => rfl
  | true =>
    exfalso
    rcases hd with ⟨b, hg, hne⟩ | ⟨r, hr, _, hnone⟩ | ⟨r, b, hr, _, hsome, hlen⟩
    · have h := (validate_sound a s hv hu k b hg).1
      exact hne (hinj b c (by rw [h, hk]))
    · obtain ⟨b, hb, _⟩ := validate_sound_readable a s hv r hr
      rw [hnone] at hb
      cases hb
    · obtain ⟨b', hb', _, hl⟩ := validate_sound_readable a s hv r hr
      rw [hsome] at hb'
      cases hb'
      exact hlen hl

/-! ### chunk loops -/

theorem readChunks_spec (n : Nat) (hn : 0 < n) :
    ∀ (f : Nat) (b : Bytes), b.length ≤ f →
      (readChunks n f b).flatten = b ∧ ∀ ch ∈ readChunks n f b, ch ≠ [] ∧ ch.length ≤ n := by
  intro f
  induction f with
  | zero =>
    intro b hb
    have : b = [] := List.eq_nil_of_length_eq_zero (by omega)
    subst this
    simp [readChunks]
  | succ f ih =>
    intro b hb
    cases b with
    | nil => simp [readChunks]
    | cons x xs =>
      have hlen : ((x :: xs).drop n).length ≤ f := by
        rw [List.length_drop]
        simp only [List.length_cons] at hb ⊢
        omega
      obtain ⟨h1, h2⟩ := ih ((x :: xs).drop n) hlen
      simp only [readChunks]
      refine ⟨?_, ?_⟩
      · rw [List.flatten_cons, h1, List.take_append_drop]
      · intro ch hch
        rcases List.mem_cons.mp hch with rfl | hch
        · refine ⟨?_, ?_⟩
          · intro h
            have := congrArg List.length h
            rw [List.length_take] at this
            simp only [List.length_cons, List.length_nil] at this
            omega
          · rw [List.length_take]; omega
        · exact h2 ch hch

/-- the chunks a `read(n)` loop sees concatenate to the stream's bytes, each has at most `n` bytes, none is empty -/
theorem chunksOf_spec (n : Nat) (hn : 0 < n) (b : Bytes) :
    (chunksOf n b).flatten = b ∧ ∀ ch ∈ chunksOf n b, ch ≠ [] ∧ ch.length ≤ n := by
  have hne : n ≠ 0 := by omega
  unfold chunksOf
  rw [if_neg hne]
  exact readChunks_spec n hn b.length b (Nat.le_refl _)

/-! ### the write loop -/

theorem fold_plain {σ κ} (h : Hasher σ) (c : Compressor κ) (chunks : List Bytes) :
    ∀ (out0 : Bytes) (cnt0 : Nat) (hs0 : σ) (cs0 : κ),
    chunks.foldl (fun (acc : Bytes × Nat × σ × κ) ch =>
      let (out, cnt, hs, cs) := acc
      if false = true then
        let (cs', o) := c.compress cs ch
        (out ++ o, cnt + ch.length, h.update hs ch, cs')
      else (out ++ ch, cnt + ch.length, h.update hs ch, cs)) (out0, cnt0, hs0, cs0)
    = (out0 ++ chunks.flatten, cnt0 + chunks.flatten.length, chunks.foldl h.update hs0, cs0) := by
  induction chunks with
  | nil => intro out0 cnt0 hs0 cs0; simp
  | cons ch rest ih =>
    intro out0 cnt0 hs0 cs0
    rw [List.foldl_cons]
    simp only [Bool.false_eq_true, if_false] at ih ⊢
    rw [ih]
    simp [List.append_assoc, Nat.add_assoc]

theorem fold_comp {σ κ} (h : Hasher σ) (c : Compressor κ) (chunks : List Bytes) :
    ∀ (out0 : Bytes) (cnt0 : Nat) (hs0 : σ) (cs0 : κ),
    chunks.foldl (fun (acc : Bytes × Nat × σ × κ) ch =>
      let (out, cnt, hs, cs) := acc
      if true = true then
        let (cs', o) := c.compress cs ch
        (out ++ o, cnt + ch.length, h.update hs ch, cs')
      else (out ++ ch, cnt + ch.length, h.update hs ch, cs)) (out0, cnt0, hs0, cs0)
    = ((chunks.foldl (fun (acc : κ × Bytes) ch => let (k', o) := c.compress acc.1 ch; (k', acc.2 ++ o)) (cs0, out0)).2,
       cnt0 + chunks.flatten.length, chunks.foldl h.update hs0,
       (chunks.foldl (fun (acc : κ × Bytes) ch => let (k', o) := c.compress acc.1 ch; (k', acc.2 ++ o)) (cs0, out0)).1) := by
  induction chunks with
  | nil => intro out0 cnt0 hs0 cs0; simp
  | cons ch rest ih =>
    intro out0 cnt0 hs0 cs0
    rw [List.foldl_cons, List.foldl_cons, List.foldl_cons]
    simp only [if_true] at ih ⊢
    rw [ih]
    simp [Nat.add_assoc]

/-- `_write_data_to_packfile`, for every hasher and compressor obeying their incremental laws and every chunk size:
    the count is the content length, the digest is the digest of the whole content, and what is appended to the pack is
    the content itself, or a stream that decodes to it -/
theorem writeData_spec {σ κ : Type} (h : Hasher σ) (c : Compressor κ) (hashOf : Bytes → Nat) (decode : Bytes → Option Bytes)
    (hlaw : ∀ chunks : List Bytes, h.digest (chunks.foldl h.update h.init) = hashOf chunks.flatten)
    (claw : ∀ chunks : List Bytes,
        decode ((chunks.foldl (fun (acc : κ × Bytes) ch => let (k', o) := c.compress acc.1 ch; (k', acc.2 ++ o)) (c.init, [])).2 ++
                c.flush (chunks.foldl (fun (acc : κ × Bytes) ch => let (k', o) := c.compress acc.1 ch; (k', acc.2 ++ o)) (c.init, [])).1)
          = some chunks.flatten)
    (n : Nat) (hn : 0 < n) (b : Bytes) (compress : Bool) :
    (writeData h c compress (chunksOf n b)).2.1 = b.length ∧
    (writeData h c compress (chunksOf n b)).2.2 = hashOf b ∧
    (if compress then decode (writeData h c compress (chunksOf n b)).1 = some b
     else (writeData h c compress (chunksOf n b)).1 = b) := by
  have hfl := (chunksOf_spec n hn b).1
  have hl := hlaw (chunksOf n b)
  have cl := claw (chunksOf n b)
  rw [hfl] at hl cl
  generalize chunksOf n b = chunks at *
  cases compress with
  | false =>
    unfold writeData
    rw [fold_plain]
    simp [hfl, hl]
  | true =>
    unfold writeData
    rw [fold_comp]
    simp [hfl, hl, cl]

end Dos.Bytes
