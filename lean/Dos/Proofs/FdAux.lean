/-
Helper lemmas for Dos/Proofs/FdProofs.lean: descriptor accounting along the pack-writer compilers.
-/
import Dos.Fd
import Dos.IOSpec

namespace Dos.Fd
open Dos Dos.IO

theorem held_app (a b : List Act) : held (a ++ b) = held a + held b := by
  induction a with
  | nil => simp [held]
  | cons x xs ih => simp only [List.cons_append, held, ih]; omega

theorem execAll_app (x : XSt) (a b : List Act) : execAll x (a ++ b) = execAll (execAll x a) b := by
  induction a generalizing x with
  | nil => rfl
  | cons h tl ih => simp [execAll, ih]

theorem execAll_concat (x : XSt) (l : List Act) (a : Act) : execAll x (l ++ [a]) = exec (execAll x l) a := by
  rw [execAll_app]; rfl

theorem held_concat (l : List Act) (a : Act) : held (l ++ [a]) = held l + delta a := by
  rw [held_app]; simp [held]

theorem held_eq_zero {l : List Act} (h : ∀ a ∈ l, delta a = 0) : held l = 0 := by
  induction l with
  | nil => rfl
  | cons a l ih =>
    simp only [held]
    rw [h a (by simp), ih (fun b hb => h b (by simp [hb]))]; rfl

/-! ### the point inside a (lock, pack) pair -/

/-- actions after which exactly one descriptor of a (lock file, pack file) pair is open -/
def midAct : Act → Bool
  | .lock _ => true
  | .pkClose _ => true
  | _ => false

/-- the action list ends between the two halves of a pair: after `lock p` (before `pkOpen p`), or after `pkClose p`
    (before `unlock p`) -/
def midPair (l : List Act) : Bool :=
  match l.getLast? with
  | some a => midAct a
  | none => false

theorem midPair_concat (l : List Act) (a : Act) : midPair (l ++ [a]) = midAct a := by
  simp [midPair]

/-- actions that neither open nor close a descriptor, and do not touch the locks or the sandbox -/
def neutral : Act → Bool
  | .sbCreate | .sbClose | .sbWrite _ | .sbFlush | .sbFsync | .sbRemove | .renameLoose _ => false
  | .lock _ | .unlock _ | .pkOpen _ | .pkClose _ => false
  | _ => true

theorem neutral_delta {a : Act} (h : neutral a = true) : delta a = 0 := by
  cases a <;> simp_all [neutral, delta]

theorem neutral_mid {a : Act} (h : neutral a = true) : midAct a = false := by
  cases a <;> simp_all [neutral, midAct]

theorem neutral_locks {a : Act} (h : neutral a = true) (x : XSt) : (exec x a).locks = x.locks := by
  cases a <;> simp_all [neutral, exec]
  split <;> rfl

theorem neutral_sandbox {a : Act} (h : neutral a = true) (x : XSt) : (exec x a).sandbox = x.sandbox := by
  cases a <;> simp_all [neutral, exec]
  split <;> rfl

theorem pkOpen_locks (x : XSt) (p : Nat) : (exec x (.pkOpen p)).locks = x.locks := by
  simp only [exec]; split <;> rfl

theorem pkOpen_sandbox (x : XSt) (p : Nat) : (exec x (.pkOpen p)).sandbox = x.sandbox := by
  simp only [exec]; split <;> rfl

/-! ### prefixes -/

def AllPre (P : List Act → Prop) (l : List Act) : Prop := ∀ p, p <+: l → P p

theorem allPre_nil {P : List Act → Prop} (h : P []) : AllPre P [] := by
  intro p hp
  rw [List.prefix_nil] at hp
  subst hp; exact h

theorem allPre_concat {P : List Act → Prop} {l : List Act} {a : Act} (h : AllPre P l) (ha : P (l ++ [a])) :
    AllPre P (l ++ [a]) := by
  intro p hp
  rcases List.prefix_concat_iff.mp hp with rfl | hp
  · exact ha
  · exact h p hp

/-- what holds after every prefix of a pack writer's program: the state-based count is the action-based one, plus one
    inside a pair; it is at most 2; and the action-based count is between 0 and 2 -/
def Q (x0 : XSt) (l : List Act) : Prop :=
  heldBy (execAll x0 l) = held l + (if midPair l then 1 else 0) ∧ heldBy (execAll x0 l) ≤ 2 ∧ 0 ≤ held l ∧ held l ≤ 2

/-- the program `l` so far is fine at every prefix and has arrived at a point outside a pair with locks `L` -/
structure G (x0 : XSt) (l : List Act) (L : List Nat) : Prop where
  pre : AllPre (Q x0) l
  sb : (execAll x0 l).sandbox = none
  lk : (execAll x0 l).locks = L
  hd : held l = 2 * (L.length : Int)
  mid : midPair l = false
  len : L.length ≤ 1

theorem G_nil {x0 : XSt} (h1 : x0.sandbox = none) (h2 : x0.locks = []) : G x0 [] [] := by
  refine ⟨allPre_nil ?_, h1, h2, rfl, rfl, by simp⟩
  simp [Q, heldBy, execAll, h1, h2, held, midPair]

theorem G_neutral {x0 : XSt} {l : List Act} {L : List Nat} (h : G x0 l L) {a : Act} (ha : neutral a = true) :
    G x0 (l ++ [a]) L := by
  have e1 : (execAll x0 (l ++ [a])).sandbox = none := by
    rw [execAll_concat, neutral_sandbox ha]; exact h.sb
  have e2 : (execAll x0 (l ++ [a])).locks = L := by
    rw [execAll_concat, neutral_locks ha]; exact h.lk
  have e3 : held (l ++ [a]) = 2 * (L.length : Int) := by
    rw [held_concat, neutral_delta ha, h.hd]; omega
  have e4 : midPair (l ++ [a]) = false := by rw [midPair_concat]; exact neutral_mid ha
  have hl := h.len
  refine ⟨allPre_concat h.pre ?_, e1, e2, e3, e4, hl⟩
  unfold Q heldBy
  rw [e1, e2, e3, e4]
  simp
  omega

theorem G_neutrals {x0 : XSt} {L : List Nat} (z : List Act) : ∀ {l : List Act}, G x0 l L →
    (∀ a ∈ z, neutral a = true) → G x0 (l ++ z) L := by
  induction z with
  | nil => intro l h _; simpa using h
  | cons a z ih =>
    intro l h hz
    have := ih (G_neutral h (hz a (by simp))) (fun b hb => hz b (by simp [hb]))
    simpa using this

theorem G_open {x0 : XSt} {l : List Act} (h : G x0 l []) (p : Nat) : G x0 (l ++ [.lock p, .pkOpen p]) [p] := by
  have hs := h.sb
  have hk := h.lk
  have hh := h.hd
  have a1 : (execAll x0 (l ++ [.lock p])).sandbox = none := by
    rw [execAll_concat]; simpa [exec] using hs
  have a2 : (execAll x0 (l ++ [.lock p])).locks = [p] := by
    rw [execAll_concat]; simp [exec, hk]
  have a3 : held (l ++ [.lock p]) = 1 := by
    rw [held_concat, hh]; simp [delta]
  have q1 : Q x0 (l ++ [.lock p]) := by
    unfold Q heldBy
    rw [a1, a2, a3, midPair_concat]
    simp [midAct]
  have e : l ++ [Act.lock p, .pkOpen p] = (l ++ [.lock p]) ++ [.pkOpen p] := by simp
  rw [e]
  have b1 : (execAll x0 ((l ++ [.lock p]) ++ [.pkOpen p])).sandbox = none := by
    rw [execAll_concat, pkOpen_sandbox]; exact a1
  have b2 : (execAll x0 ((l ++ [.lock p]) ++ [.pkOpen p])).locks = [p] := by
    rw [execAll_concat, pkOpen_locks]; exact a2
  have b3 : held ((l ++ [.lock p]) ++ [.pkOpen p]) = 2 := by
    rw [held_concat, a3]; simp [delta]
  have b4 : midPair ((l ++ [.lock p]) ++ [.pkOpen p]) = false := by rw [midPair_concat]; rfl
  refine ⟨allPre_concat (allPre_concat h.pre q1) ?_, b1, b2, by rw [b3]; simp, b4, by simp⟩
  unfold Q heldBy
  rw [b1, b2, b3, b4]
  simp

theorem G_close {x0 : XSt} {l : List Act} {q : Nat} (h : G x0 l [q]) : G x0 (l ++ [.pkClose q, .unlock q]) [] := by
  have hs := h.sb
  have hk := h.lk
  have hh := h.hd
  have a1 : (execAll x0 (l ++ [.pkClose q])).sandbox = none := by
    rw [execAll_concat]; simpa [exec] using hs
  have a2 : (execAll x0 (l ++ [.pkClose q])).locks = [q] := by
    rw [execAll_concat]; simpa [exec] using hk
  have a3 : held (l ++ [.pkClose q]) = 1 := by
    rw [held_concat, hh]; simp [delta]
  have q1 : Q x0 (l ++ [.pkClose q]) := by
    unfold Q heldBy
    rw [a1, a2, a3, midPair_concat]
    simp [midAct]
  have e : l ++ [Act.pkClose q, .unlock q] = (l ++ [.pkClose q]) ++ [.unlock q] := by simp
  rw [e]
  have b1 : (execAll x0 ((l ++ [.pkClose q]) ++ [.unlock q])).sandbox = none := by
    rw [execAll_concat]; simpa [exec] using a1
  have b2 : (execAll x0 ((l ++ [.pkClose q]) ++ [.unlock q])).locks = [] := by
    rw [execAll_concat]; simp [exec, a2]
  have b3 : held ((l ++ [.pkClose q]) ++ [.unlock q]) = 0 := by
    rw [held_concat, a3]; simp [delta]
  have b4 : midPair ((l ++ [.pkClose q]) ++ [.unlock q]) = false := by rw [midPair_concat]; rfl
  refine ⟨allPre_concat (allPre_concat h.pre q1) ?_, b1, b2, by rw [b3]; simp, b4, by simp⟩
  unfold Q heldBy
  rw [b1, b2, b3, b4]
  simp

/-! ### session ends -/

theorem G_sessionEnd {x0 : XSt} {l : List Act} {q : Nat} (h : G x0 l [q]) (rows : List Row) (trunc : Bool) :
    G x0 (l ++ sessionEnd q rows trunc) [] := by
  have e : l ++ sessionEnd q rows trunc =
      ((l ++ ((if trunc then [Act.pkTruncate q 0] else []) ++ rows.map .sqlInsert ++ [.pkFlush q, .pkFsync q, .dirSync]))
        ++ [.pkClose q, .unlock q]) ++ (if rows.isEmpty then [] else [.sqlCommit]) := by
    simp [sessionEnd]
  rw [e]
  refine G_neutrals _ (G_close (G_neutrals _ h ?_)) ?_
  · intro a ha
    simp only [List.mem_append, List.mem_map] at ha
    rcases ha with (ha | ⟨r, _, rfl⟩) | ha
    · cases trunc <;> simp at ha
      subst ha; rfl
    · rfl
    · simp at ha
      rcases ha with rfl | rfl | rfl <;> rfl
  · intro a ha
    split at ha
    · simp at ha
    · simp at ha; subst ha; rfl

theorem G_sessionEndClean {x0 : XSt} {l : List Act} {q : Nat} (h : G x0 l [q]) (rows : List Row) (cl : Bool) :
    G x0 (l ++ sessionEndClean q rows cl) [] := by
  unfold sessionEndClean
  rw [← List.append_assoc]
  refine G_neutrals _ (G_sessionEnd h rows false) ?_
  intro a ha
  split at ha
  · simp only [List.mem_map] at ha
    obtain ⟨r, _, rfl⟩ := ha
    rfl
  · simp at ha

/-! ### the compiler state -/

def WG (x0 : XSt) (w : WSt) : Prop := G x0 w.acts w.openP.toList

theorem WG_wOpen {x0 : XSt} {w : WSt} (t : Tab) (nh : Bool) (h : WG x0 w) : WG x0 (wOpen t nh w) := by
  unfold WG at h ⊢
  unfold wOpen
  simp only
  cases hop : w.openP with
  | none =>
    rw [hop] at h
    simp only [Option.toList] at h ⊢
    exact G_open h _
  | some q =>
    rw [hop] at h
    simp only [Option.toList] at h
    simp only
    split
    · simp only [Option.toList]; exact h
    · simp only [Option.toList]
      exact G_open (G_sessionEnd h _ _) _

theorem WG_wOpenPA {x0 : XSt} {w : WSt} (t : Tab) (cl : Bool) (h : WG x0 w) : WG x0 (wOpenPA t cl w) := by
  unfold WG at h ⊢
  unfold wOpenPA
  simp only
  cases hop : w.openP with
  | none =>
    rw [hop] at h
    simp only [Option.toList] at h ⊢
    exact G_open h _
  | some q =>
    rw [hop] at h
    simp only [Option.toList] at h
    simp only
    split
    · simp only [Option.toList]; exact h
    · simp only [Option.toList]
      exact G_open (G_sessionEndClean h _ _) _

theorem WG_wAddPacked {x0 : XSt} {w : WSt} (t : Tab) (z nh rt : Bool) (c : Nat) (h : WG x0 w) :
    WG x0 (wAddPacked t z nh rt w c) := by
  have h1 := WG_wOpen t nh h
  unfold wAddPacked
  generalize wOpen t nh w = w1 at h1
  unfold WG at h1 ⊢
  simp only
  split
  · split
    · exact h1
    · simp only
      refine G_neutrals _ h1 ?_
      intro a ha
      simp at ha; rcases ha with rfl | rfl <;> rfl
  · simp only
    refine G_neutrals _ h1 ?_
    intro a ha
    simp at ha; subst ha; rfl

theorem WG_wPackLooseC {x0 : XSt} {w : WSt} (t : Tab) (cl : Bool) (cz : Nat × Bool) (h : WG x0 w) :
    WG x0 (wPackLooseC t cl w cz) := by
  have h1 := WG_wOpenPA t cl h
  unfold wPackLooseC
  generalize wOpenPA t cl w = w1 at h1
  unfold WG at h1 ⊢
  simp only
  refine G_neutrals _ h1 ?_
  intro a ha
  simp at ha; rcases ha with rfl | rfl <;> rfl

theorem WG_foldl {x0 : XSt} {α} (f : WSt → α → WSt) (hf : ∀ w a, WG x0 w → WG x0 (f w a)) (l : List α) :
    ∀ w, WG x0 w → WG x0 (l.foldl f w) := by
  induction l with
  | nil => intro w h; exact h
  | cons a l ih => intro w h; exact ih _ (hf w a h)

theorem WG_init {x0 : XSt} (h1 : x0.sandbox = none) (h2 : x0.locks = []) (s : St) :
    WG x0 { s := s, openP := none, rows := [], acts := [] } := G_nil h1 h2

theorem G_addPacked {x0 : XSt} (h1 : x0.sandbox = none) (h2 : x0.locks = []) (t : Tab) (s : St) (cs : List Nat)
    (z nh rt : Bool) : G x0 (actsAddPacked t s cs z nh rt) [] := by
  unfold actsAddPacked
  cases cs with
  | nil => exact G_nil h1 h2
  | cons c cs =>
    simp only
    have h := WG_foldl (wAddPacked t z nh rt) (fun w a hw => WG_wAddPacked t z nh rt a hw) (c :: cs) _ (WG_init h1 h2 s)
    generalize List.foldl (wAddPacked t z nh rt) _ (c :: cs) = w at h
    unfold WG at h
    unfold wFinish
    cases hop : w.openP with
    | none => rw [hop] at h; exact h
    | some q => rw [hop] at h; exact G_sessionEnd h _ _

theorem G_packAll {x0 : XSt} (h1 : x0.sandbox = none) (h2 : x0.locks = []) (t : Tab) (s : St) (order : List Nat)
    (zs : List Bool) (cl : Bool) : G x0 (actsPackAll t s order zs cl) [] := by
  unfold actsPackAll
  cases order with
  | nil => exact G_nil h1 h2
  | cons c cs =>
    simp only
    have h := WG_foldl (wPackLooseC t cl) (fun w a hw => WG_wPackLooseC t cl a hw) ((c :: cs).zip zs) _ (WG_init h1 h2 s)
    generalize List.foldl (wPackLooseC t cl) _ ((c :: cs).zip zs) = w at h
    unfold WG at h
    cases hop : w.openP with
    | none => rw [hop] at h; exact h
    | some q => rw [hop] at h; exact G_sessionEndClean h _ _

/-! ### the handlers release everything -/

theorem exec_release (L : List Nat) : ∀ x : XSt,
    (execAll x (L.flatMap (fun p => [Act.pkClose p, .unlock p]))).sandbox = x.sandbox ∧
    (execAll x (L.flatMap (fun p => [Act.pkClose p, .unlock p]))).locks = x.locks.filter (fun q => !L.contains q) := by
  induction L with
  | nil =>
    intro x
    exact ⟨rfl, (List.filter_eq_self.mpr (by simp)).symm⟩
  | cons p L ih =>
    intro x
    simp only [List.flatMap_cons, List.cons_append, List.nil_append, execAll]
    obtain ⟨i1, i2⟩ := ih (exec (exec x (.pkClose p)) (.unlock p))
    refine ⟨by rw [i1]; simp [exec], ?_⟩
    rw [i2]
    simp only [exec, List.filter_filter]
    apply List.filter_congr
    intro q _
    by_cases h1 : q ∈ L <;> by_cases h2 : q = p <;> simp [h1, h2]

theorem handlers_release (x : XSt) :
    (execAll x (handlers x)).sandbox = none ∧ (execAll x (handlers x)).locks = [] := by
  have key : ∀ pre : List Act, (execAll x pre).sandbox = none → (execAll x pre).locks = x.locks →
      (execAll x (pre ++ x.locks.flatMap (fun p => [Act.pkClose p, .unlock p]))).sandbox = none ∧
      (execAll x (pre ++ x.locks.flatMap (fun p => [Act.pkClose p, .unlock p]))).locks = [] := by
    intro pre h1 h2
    rw [execAll_app]
    obtain ⟨i1, i2⟩ := exec_release x.locks (execAll x pre)
    rw [i1, i2, h1, h2]
    refine ⟨rfl, ?_⟩
    rw [List.filter_eq_nil_iff]
    intro q hq
    simp [hq]
  unfold handlers
  cases hs : x.sandbox with
  | none => exact key [] hs rfl
  | some f => exact key [.sbClose, .sbRemove] (by simp [execAll, exec]) (by simp [execAll, exec])

theorem runFault_heldBy (x : XSt) (acts : List Act) (k : Nat) : heldBy (runFault x acts k) = 0 := by
  unfold runFault heldBy
  simp only
  obtain ⟨i1, i2⟩ := handlers_release (execAll x (List.take k acts))
  rw [i1, i2]
  rfl

end Dos.Fd
