/-
Level C for the pack writers with options and for `import_objects`.
-/
import Dos.IOImport
import Dos.IOSpec
import Dos.Proofs.IOGood
import Dos.Proofs.IOPacks
import Dos.Proofs.IOImportAux

namespace Dos.IO
open Dos

/-- safety against a process kill and against a single fault (no claim about a power loss: that needs the fsyncs) -/
def CrashFaultSafe (t : Tab) (s : St) (acts : List Act) (keep : List Nat) : Prop :=
  ∀ k : Nat,
    (∀ cut : Nat → Nat, SafeImg t (crashImg (execAll (ofSt s) (acts.take k)) cut) keep) ∧
    SafeImg t (toSt (runFault (ofSt s) acts k)) keep ∧
    Inv t (toSt (runFault (ofSt s) acts k))

theorem sessionEndO_true (p : Nat) (rows : List Row) (trunc : Bool) :
    sessionEndO p rows trunc true true = sessionEnd p rows trunc := by
  cases rows <;> simp [sessionEndO, sessionEnd]

theorem wOpenO_true (t : Tab) (nh : Bool) (w : WSt) : wOpenO t nh true true w = wOpen t nh w := by
  unfold wOpenO wOpen
  simp only [sessionEndO_true]
  cases w.openP <;> rfl

theorem wAddPackedO_true (t : Tab) (z nh rt : Bool) :
    wAddPackedO t z nh rt true true = wAddPacked t z nh rt := by
  funext w c
  unfold wAddPackedO wAddPacked
  simp only [wOpenO_true]

/-- with the default `do_fsync=True` the optioned compiler is the one already analysed -/
theorem actsAddPackedO_fsync (t : Tab) (s : St) (cs : List Nat) (z nh rt : Bool) :
    actsAddPackedO t s cs z nh rt true = actsAddPacked t s cs z nh rt := by
  cases cs with
  | nil => rfl
  | cons c cs =>
    simp only [actsAddPackedO, callActs, actsAddPacked, wFinish, wAddPackedO_true, sessionEndO_true]
    cases (List.foldl (wAddPacked t z nh rt) { s := s, openP := none, rows := [], acts := [] } (c :: cs)).openP <;> rfl

/-- from the flushed-prefix invariant at every cut point to safety against kills and faults -/
theorem crashFaultSafe_of_allP {t : Tab} (wf : t.WF) {s : St} {acts : List Act} {keep : List Nat}
    (h : Imp.AllP (Imp.GW true t keep) (ofSt s) acts) : CrashFaultSafe t s acts keep := by
  intro k
  have g := h k
  refine ⟨fun cut => Imp.gw_crash wf g cut, ?_, ?_⟩
  · rw [Imp.toSt_runFault_sb _ _ _ g.sb]; exact Imp.gw_toSt_safe wf g
  · rw [Imp.toSt_runFault_sb _ _ _ g.sb]; exact Imp.gw_toSt_inv g

/-- writing directly to packs is safe against kills and faults whatever `do_fsync` is: the rows are committed only after
    the `with` block has closed (hence flushed) the pack -/
theorem crashfault_addPackedO {t : Tab} (wf : t.WF) {s : St} (inv : Inv t s) (hb : Bounded s) (cs : List Nat)
    (hc : ∀ c ∈ cs, c < garbage) (z nh rt doFsync : Bool) :
    CrashFaultSafe t s (actsAddPackedO t s cs z nh rt doFsync) (keysOf s) := by
  have _ := hb
  have _ := hc
  apply crashFaultSafe_of_allP wf
  exact (Imp.call_step (Imp.idle_ofSt inv) cs z nh rt doFsync true (by intro h; cases h)).1

/-- run to completion, an import is the Level-B effect of its calls -/
theorem done_import {t : Tab} {s : St} (inv : Inv t s) (calls : List (List Nat)) (z nh rt doFsync : Bool) :
    SameDisk (toSt (execAll (ofSt s) (actsImport t s calls z nh rt doFsync))) (callsSt t z nh s calls) := by
  obtain ⟨_, i, hw⟩ := Imp.import_step (fl := true) (Imp.idle_ofSt inv) calls z nh rt doFsync (by intro h; cases h)
  refine ⟨i.packs, ?_, ?_, i.target⟩
  · have := i.rows
    simp only [workOf, hw, Option.getD_none] at this
    exact this
  · intro e
    show e ∈ (execAll (ofSt s) (actsImport t s calls z nh rt doFsync)).loose.map (fun e => (e.1, e.2.cid)) ↔ _
    rw [i.loose]

/-- `import_objects` with the default `do_fsync=True` is safe at every cut point, against kill, power loss and fault:
    nothing is committed before the single final commit, and by then every pack written has been flushed and fsynced -/
theorem safe_import {t : Tab} (wf : t.WF) {s : St} (inv : Inv t s) (hb : Bounded s) (calls : List (List Nat))
    (hc : ∀ cs ∈ calls, ∀ c ∈ cs, c < garbage) (z nh rt : Bool) :
    AllSafe t s (actsImport t s calls z nh rt true) (keysOf s) := by
  have _ := hb
  have _ := hc
  apply allSafe_of_allGood wf
  intro k
  exact Imp.good_of_gw ((Imp.import_step (fl := false) (Imp.idle_ofSt inv) calls z nh rt true (fun _ => rfl)).1 k)

/-- … and without the fsyncs it is still safe against kills and faults -/
theorem crashfault_import {t : Tab} (wf : t.WF) {s : St} (inv : Inv t s) (hb : Bounded s) (calls : List (List Nat))
    (hc : ∀ cs ∈ calls, ∀ c ∈ cs, c < garbage) (z nh rt doFsync : Bool) :
    CrashFaultSafe t s (actsImport t s calls z nh rt doFsync) (keysOf s) := by
  have _ := hb
  have _ := hc
  apply crashFaultSafe_of_allP wf
  exact (Imp.import_step (Imp.idle_ofSt inv) calls z nh rt doFsync (by intro h; cases h)).1

end Dos.IO
