/-
Backup folder management: if every new backup gets a name that sorts after all existing ones (what the timestamp with
microseconds guarantees for backups taken one after the other), then after any sequence of successful and failed attempts
the backup just taken is there, `last-backup` points to an existing backup - the newest -, and at most `keep + 1` backups
exist.  Without that ordering the backup just taken can be the one deleted (`unordered_names_lose_the_new_backup`).
-/
import Dos.BackupFolders

namespace Dos.BackupFolders

def Sorted : List Nat → Prop
  | [] => True
  | [_] => True
  | x :: y :: rest => x < y ∧ Sorted (y :: rest)

/-- the state invariant: folder list sorted, `last-backup` (if set) is the largest existing name -/
def Good (s : FSt) : Prop :=
  Sorted s.backups ∧ (∀ l, s.last = some l → l ∈ s.backups ∧ ∀ b ∈ s.backups, b ≤ l)

theorem sorted_iff_pairwise : ∀ l : List Nat, Sorted l ↔ l.Pairwise (· < ·)
  | [] => by simp [Sorted]
  | [_] => by simp [Sorted]
  | x :: y :: rest => by
    have ih := sorted_iff_pairwise (y :: rest)
    simp only [Sorted, ih]
    constructor
    · rintro ⟨hxy, hp⟩
      refine List.pairwise_cons.2 ⟨?_, hp⟩
      intro a ha
      rcases List.mem_cons.1 ha with rfl | ha
      · exact hxy
      · exact Nat.lt_trans hxy ((List.pairwise_cons.1 hp).1 a ha)
    · intro hp
      have h := List.pairwise_cons.1 hp
      exact ⟨h.1 y (List.mem_cons_self ..), h.2⟩

theorem insertSorted_of_lt (name : Nat) : ∀ l : List Nat, (∀ b ∈ l, b < name) → insertSorted name l = l ++ [name]
  | [], _ => rfl
  | y :: ys, h => by
    have hy : ¬ name ≤ y := Nat.not_le.2 (h y (List.mem_cons_self ..))
    have ih := insertSorted_of_lt name ys (fun b hb => h b (List.mem_cons_of_mem _ hb))
    simp [insertSorted, hy, ih]

theorem takeBackup_backups_eq (keep : Nat) (s : FSt) (name : Nat) (hnew : ∀ b ∈ s.backups, b < name) :
    (takeBackup keep s name).backups = s.backups.drop (s.backups.length + 1 - (keep + 1)) ++ [name] := by
  simp only [takeBackup, insertSorted_of_lt name s.backups hnew, List.length_append, List.length_singleton]
  exact List.drop_append_of_le_length (by omega)

theorem run_no_success (keep : Nat) : ∀ (attempts : List (Option Nat)) (s : FSt),
    attempts.filterMap id = [] → run keep s attempts = s
  | [], _, _ => rfl
  | some n :: rest, s, h => by simp at h
  | none :: rest, s, h => by
    have h' : rest.filterMap id = [] := by simpa using h
    simp only [run, failBackup]
    exact run_no_success keep rest s h'

theorem takeBackup_newest (keep : Nat) (s : FSt) (name : Nat) (hs : Sorted s.backups) (hnew : ∀ b ∈ s.backups, b < name) :
    name ∈ (takeBackup keep s name).backups ∧ (takeBackup keep s name).last = some name ∧
    (takeBackup keep s name).backups.length ≤ keep + 1 ∧ Good (takeBackup keep s name) ∧
    (∀ b ∈ (takeBackup keep s name).backups, b = name ∨ b ∈ s.backups) := by
  have hb := takeBackup_backups_eq keep s name hnew
  have hlast : (takeBackup keep s name).last = some name := rfl
  have hmem : name ∈ (takeBackup keep s name).backups := by rw [hb]; simp
  have hsub : ∀ b ∈ (takeBackup keep s name).backups, b = name ∨ b ∈ s.backups := by
    intro b hbm
    rw [hb] at hbm
    rcases List.mem_append.1 hbm with h | h
    · exact Or.inr (List.mem_of_mem_drop h)
    · exact Or.inl (by simpa using h)
  refine ⟨hmem, hlast, ?_, ⟨?_, ?_⟩, hsub⟩
  · rw [hb]; simp only [List.length_append, List.length_drop, List.length_singleton]; omega
  · rw [hb, sorted_iff_pairwise, List.pairwise_append]
    refine ⟨?_, by simp, ?_⟩
    · exact ((sorted_iff_pairwise _).1 hs).sublist (List.drop_sublist _ _)
    · intro a ha b hbm
      have : b = name := by simpa using hbm
      subst this
      exact hnew a (List.mem_of_mem_drop ha)
  · intro l hl
    have : l = name := by rw [hlast] at hl; exact (Option.some.inj hl).symm
    subst this
    refine ⟨hmem, ?_⟩
    intro b hbm
    rcases hsub b hbm with h | h
    · exact Nat.le_of_eq h
    · exact Nat.le_of_lt (hnew b h)

/-- names strictly increasing along the successful attempts, and above everything that exists at the start -/
def Increasing : Nat → List (Option Nat) → Prop
  | _, [] => True
  | lo, some n :: rest => lo < n ∧ Increasing n rest
  | lo, none :: rest => Increasing lo rest

theorem run_good (keep : Nat) (s : FSt) (attempts : List (Option Nat)) (hg : Good s) (lo : Nat)
    (hlo : ∀ b ∈ s.backups, b ≤ lo) (hinc : Increasing lo attempts) :
    Good (run keep s attempts) ∧
    ((run keep s attempts).backups.length ≤ max s.backups.length (keep + 1)) ∧
    (∀ n, (attempts.filterMap id).getLast? = some n → (run keep s attempts).last = some n ∧ n ∈ (run keep s attempts).backups) := by
  induction attempts generalizing s lo with
  | nil =>
    refine ⟨hg, Nat.le_max_left _ _, ?_⟩
    intro n hn
    simp at hn
  | cons a rest ih =>
    cases a with
    | none =>
      have := ih s hg lo hlo hinc
      simpa [run, failBackup] using this
    | some m =>
      have hnew : ∀ b ∈ s.backups, b < m := fun b hb => Nat.lt_of_le_of_lt (hlo b hb) hinc.1
      obtain ⟨tmem, tlast, tlen, tgood, _⟩ := takeBackup_newest keep s m hg.1 hnew
      have hlo' : ∀ b ∈ (takeBackup keep s m).backups, b ≤ m := (tgood.2 m tlast).2
      obtain ⟨ig, ilen, ilast⟩ := ih (takeBackup keep s m) tgood m hlo' hinc.2
      simp only [run]
      refine ⟨ig, ?_, ?_⟩
      · have h1 : max (takeBackup keep s m).backups.length (keep + 1) ≤ keep + 1 := Nat.max_le.2 ⟨tlen, Nat.le_refl _⟩
        exact Nat.le_trans ilen (Nat.le_trans h1 (Nat.le_max_right _ _))
      · intro n hn
        cases hr : rest.filterMap id with
        | nil =>
          have hn' : m = n := by simpa [hr] using hn
          subst hn'
          rw [run_no_success keep rest _ hr]
          exact ⟨tlast, tmem⟩
        | cons x xs =>
          apply ilast n
          have : (some m :: rest).filterMap id = m :: x :: xs := by simp [hr]
          rw [this, List.getLast?_cons_cons] at hn
          rw [hr]; exact hn

/-- the defect repaired by the naming fix, as a machine-checked witness: a new backup whose name sorts before an existing
    one is deleted by its own clean-up when `keep = 0`, and `last-backup` dangles -/
theorem unordered_names_lose_the_new_backup :
    ∃ (s : FSt) (name : Nat), Good s ∧ name ∉ (takeBackup 0 s name).backups ∧ (takeBackup 0 s name).last = some name := by
  refine ⟨{ backups := [5], last := some 5 }, 3, ?_, by decide, rfl⟩
  refine ⟨trivial, ?_⟩
  intro l hl
  have : l = 5 := (Option.some.inj hl).symm
  subst this
  simp

end Dos.BackupFolders
