/-
Level C, generic part: an invariant `Good` on `XSt` which implies that the crash image, the power-loss image and the
single-fault image are all safe (and the latter structurally intact), and which is preserved action by action
under local side conditions.  Used by `Dos/Proofs/IOPacks.lean`.
-/
import Dos.IOSpec
import Dos.Proofs.Step
import Dos.Proofs.C13

namespace Dos.IO
open Dos

/-! ### association lists of `XPack`s -/

theorem getX_setX (ps : List (Nat × XPack)) (p q : Nat) (pk : XPack) :
    getX (setX ps p pk) q = if q = p then some pk else getX ps q := by
  induction ps with
  | nil =>
    by_cases h : q = p
    · subst h; simp [setX, getX]
    · have h' : ¬ p = q := fun e => h e.symm
      simp [setX, getX, h, h']
  | cons e rest ih =>
    obtain ⟨r, old⟩ := e
    by_cases h1 : r = p
    · subst h1
      by_cases h2 : q = r
      · subst h2; simp [setX, getX]
      · have h2' : ¬ r = q := fun e => h2 e.symm
        simp [setX, getX, h2, h2']
    · by_cases h2 : r = q
      · subst h2; simp [setX, getX, h1]
      · simp [setX, getX, h1, h2, ih]

theorem getX_none_iff {ps : List (Nat × XPack)} {p : Nat} : getX ps p = none ↔ p ∉ ps.map (·.1) := by
  induction ps with
  | nil => simp [getX]
  | cons e rest ih =>
    obtain ⟨r, old⟩ := e
    by_cases h1 : r = p
    · subst h1; simp [getX]
    · have h1' : ¬ p = r := fun e => h1 e.symm
      simp [getX, h1, h1', ih]

theorem keysX_setX_none {ps : List (Nat × XPack)} {p : Nat} (pk : XPack) (h : getX ps p = none) :
    (setX ps p pk).map (·.1) = ps.map (·.1) ++ [p] := by
  induction ps with
  | nil => simp [setX]
  | cons e rest ih =>
    obtain ⟨r, old⟩ := e
    by_cases h1 : r = p
    · subst h1; simp [getX] at h
    · simp [getX, h1] at h
      simp [setX, h1, ih h]

theorem keysX_setX_some {ps : List (Nat × XPack)} {p : Nat} (pk : XPack) {old : XPack} (h : getX ps p = some old) :
    (setX ps p pk).map (·.1) = ps.map (·.1) := by
  induction ps with
  | nil => simp [getX] at h
  | cons e rest ih =>
    obtain ⟨r, o⟩ := e
    by_cases h1 : r = p
    · subst h1; simp [setX]
    · simp [getX, h1] at h
      simp [setX, h1, ih h]

theorem getX_updX (ps : List (Nat × XPack)) (p q : Nat) (f : XPack → XPack) :
    getX (updX ps p f) q = if q = p then (getX ps p).map f else getX ps q := by
  unfold updX
  cases hg : getX ps p with
  | none =>
    by_cases h : q = p
    · subst h; simp [hg]
    · simp [h]
  | some pk =>
    simp only [getX_setX]
    by_cases h : q = p
    · simp [h]
    · simp [h]

theorem keysX_updX (ps : List (Nat × XPack)) (p : Nat) (f : XPack → XPack) :
    (updX ps p f).map (·.1) = ps.map (·.1) := by
  unfold updX
  cases hg : getX ps p with
  | none => rfl
  | some pk => exact keysX_setX_some _ hg

/-- the Level-B view of the pack files: everything written so far -/
def segsOf (ps : List (Nat × XPack)) : Packs := ps.map (fun e => (e.1, e.2.segs))

theorem getPack_mapX (F : Nat → XPack → List Seg) (ps : List (Nat × XPack)) (p : Nat) :
    getPack (ps.map (fun e => (e.1, F e.1 e.2))) p = (getX ps p).map (F p) := by
  induction ps with
  | nil => simp [getPack, getX]
  | cons e rest ih =>
    obtain ⟨r, old⟩ := e
    by_cases h1 : r = p
    · subst h1; simp [getPack, getX]
    · simp [getPack, getX, h1, ih]

theorem getPack_segsOf (ps : List (Nat × XPack)) (p : Nat) : getPack (segsOf ps) p = (getX ps p).map (·.segs) :=
  getPack_mapX (fun _ pk => pk.segs) ps p

theorem keys_segsOf (ps : List (Nat × XPack)) : (segsOf ps).map (·.1) = ps.map (·.1) := by
  simp [segsOf, List.map_map, Function.comp_def]

theorem segsOf_setX (ps : List (Nat × XPack)) (p : Nat) (pk : XPack) :
    segsOf (setX ps p pk) = setPack (segsOf ps) p pk.segs := by
  induction ps with
  | nil => simp [segsOf, setX, setPack]
  | cons e rest ih =>
    obtain ⟨r, old⟩ := e
    by_cases h1 : r = p
    · subst h1; simp [segsOf, setX, setPack]
    · have := ih
      simp only [segsOf] at this
      simp [segsOf, setX, setPack, h1, this]

theorem setPack_same {ps : Packs} {p : Nat} {segs : List Seg} (h : getPack ps p = some segs) : setPack ps p segs = ps := by
  induction ps with
  | nil => simp [getPack] at h
  | cons e rest ih =>
    obtain ⟨r, old⟩ := e
    by_cases h1 : r = p
    · subst h1
      simp [getPack] at h
      simp [setPack, h]
    · simp [getPack, h1] at h
      simp [setPack, h1, ih h]

theorem segsOf_updX (ps : List (Nat × XPack)) (p : Nat) (f : XPack → XPack) :
    segsOf (updX ps p f) =
      match getX ps p with
      | some pk => setPack (segsOf ps) p (f pk).segs
      | none => segsOf ps := by
  unfold updX
  cases hg : getX ps p with
  | none => rfl
  | some pk => simp only [segsOf_setX]

theorem segsOf_updX_same (ps : List (Nat × XPack)) (p : Nat) (f : XPack → XPack) (hf : ∀ pk, (f pk).segs = pk.segs) :
    segsOf (updX ps p f) = segsOf ps := by
  rw [segsOf_updX]
  cases hg : getX ps p with
  | none => rfl
  | some pk =>
    simp only [hf]
    exact setPack_same (by rw [getPack_segsOf, hg]; rfl)

theorem updX_updX (ps : List (Nat × XPack)) (p : Nat) (f g : XPack → XPack) :
    updX (updX ps p f) p g = updX ps p (fun pk => g (f pk)) := by
  cases hg : getX ps p with
  | none => simp [updX, hg]
  | some pk =>
    have h1 : updX ps p f = setX ps p (f pk) := by simp [updX, hg]
    have h2 : getX (setX ps p (f pk)) p = some (f pk) := by simp [getX_setX]
    have h3 : updX ps p (fun pk => g (f pk)) = setX ps p (g (f pk)) := by simp [updX, hg]
    rw [h1, h3]
    simp only [updX, h2]
    clear h1 h2 h3 hg
    induction ps with
    | nil => simp [setX]
    | cons e rest ih =>
      obtain ⟨r, old⟩ := e
      by_cases h1 : r = p
      · subst h1; simp [setX]
      · simp [setX, h1, ih]

/-! ### rows designating a segment of a list of segments -/

def SegOK (t : Tab) (segs : List Seg) (r : Row) : Prop :=
  ∃ pre post, segs = pre ++ (⟨r.key, r.z⟩ : Seg) :: post ∧
    r.off = segsLen t pre ∧ r.len = Seg.len t ⟨r.key, r.z⟩ ∧ r.size = t.size r.key

theorem rowOK_iff {t : Tab} {packs : Packs} {r : Row} :
    RowOK t packs r ↔ ∃ segs, getPack packs r.pack = some segs ∧ SegOK t segs r := by
  constructor
  · rintro ⟨segs, pre, post, h1, h2, h3⟩
    exact ⟨segs, h1, pre, post, h2, h3⟩
  · rintro ⟨segs, h1, pre, post, h2, h3⟩
    exact ⟨segs, pre, post, h1, h2, h3⟩

theorem segOK_append {t : Tab} {segs : List Seg} {r : Row} (ext : List Seg) (h : SegOK t segs r) :
    SegOK t (segs ++ ext) r := by
  obtain ⟨pre, post, h1, h2⟩ := h
  exact ⟨pre, post ++ ext, by rw [h1]; simp, h2⟩

theorem take_le_ext {α} (l : List α) {n m : Nat} (h : n ≤ m) : ∃ ext, l.take m = l.take n ++ ext := by
  refine ⟨(l.take m).drop n, ?_⟩
  have h1 : (l.take m).take n = l.take n := by
    rw [List.take_take, Nat.min_eq_left h]
  rw [← h1, List.take_append_drop]

theorem segOK_take_mono {t : Tab} {segs : List Seg} {r : Row} {n m : Nat} (h : n ≤ m) (hr : SegOK t (segs.take n) r) :
    SegOK t (segs.take m) r := by
  obtain ⟨ext, he⟩ := take_le_ext segs h
  rw [he]
  exact segOK_append ext hr

theorem segOK_of_take {t : Tab} {segs : List Seg} {r : Row} {n : Nat} (hr : SegOK t (segs.take n) r) :
    SegOK t segs r := by
  have := segOK_append (segs.drop n) hr
  rwa [List.take_append_drop] at this

/-! ### safety of an image from three facts -/

theorem readFresh_cases {t : Tab} (wf : t.WF) {img : St} (hA : ∀ r ∈ img.rows, RowOK t img.packs r)
    (hB : ∀ e ∈ img.loose, e.1 = e.2) (k : Nat) :
    readFresh t img k = .ok k ∨ readFresh t img k = .loud ∨
      (readFresh t img k = .missing ∧ k ∉ img.rows.map (·.key) ∧ k ∉ img.loose.map (·.1)) := by
  unfold readFresh
  cases hr : findRow img.rows k with
  | some r =>
    obtain ⟨hmem, hk⟩ := findRow_some hr
    simp only
    by_cases hp : r.pack = tmpId
    · simp [hp]
    · rw [if_neg hp, readRow_of_rowOK wf (hA r hmem), hk]
      simp
  | none =>
    simp only
    cases hl : findLoose img.loose k with
    | some c =>
      have := hB _ (findLoose_some hl)
      simp only at this
      simp [this]
    | none =>
      right; right
      exact ⟨rfl, findRow_none_iff.mp hr, findLoose_none_iff.mp hl⟩

theorem safeImg_of {t : Tab} (wf : t.WF) {img : St} {keep : List Nat} (hA : ∀ r ∈ img.rows, RowOK t img.packs r)
    (hB : ∀ e ∈ img.loose, e.1 = e.2) (hC : ∀ k ∈ keep, k ∈ img.rows.map (·.key) ∨ k ∈ img.loose.map (·.1)) :
    SafeImg t img keep := by
  constructor
  · intro k hk
    rcases readFresh_cases wf hA hB k with h | h | ⟨_, h1, h2⟩
    · exact Or.inl h
    · exact Or.inr h
    · rcases hC k hk with h | h
      · exact absurd h h1
      · exact absurd h h2
  · intro k _
    rcases readFresh_cases wf hA hB k with h | h | ⟨h, _, _⟩
    · exact Or.inl h
    · exact Or.inr (Or.inr h)
    · exact Or.inr (Or.inl h)

/-! ### the invariant -/

structure GoodC (t : Tab) (keep : List Nat) (packs : List (Nat × XPack)) (rows : List Row)
    (loose : List (Nat × XFile)) : Prop where
  pk_nodup : (packs.map (·.1)).Nodup
  pk_le : ∀ p pk, getX packs p = some pk → pk.synced ≤ pk.flushed ∧ pk.flushed ≤ pk.segs.length
  rows_ok : ∀ r ∈ rows, ∃ pk, getX packs r.pack = some pk ∧ SegOK t (pk.segs.take pk.synced) r
  keys_nodup : (rows.map (·.key)).Nodup
  ids_nodup : (rows.map (·.id)).Nodup
  ids_pos : ∀ r1 ∈ rows, ∀ r2 ∈ rows, r1.pack = r2.pack → r1.id < r2.id → r1.off + r1.len ≤ r2.off
  loose_nodup : (loose.map (·.1)).Nodup
  loose_ok : ∀ e ∈ loose, e.2.cid = e.1 ∧ e.2.dur = .synced
  keep_ok : ∀ k ∈ keep, k ∈ rows.map (·.key) ∨ k ∈ loose.map (·.1)

def Good (t : Tab) (keep : List Nat) (x : XSt) : Prop :=
  GoodC t keep x.packs x.rows x.loose ∧ x.sandbox = none ∧ 0 < x.target

theorem good_ofSt {t : Tab} {s : St} (inv : Inv t s) : Good t (keysOf s) (ofSt s) := by
  refine ⟨⟨?_, ?_, ?_, inv.keys_nodup, inv.ids_nodup, inv.ids_pos, ?_, ?_, ?_⟩, rfl, inv.target_pos⟩
  · have : (ofSt s).packs.map (·.1) = s.packs.map (·.1) := by
      simp [ofSt, List.map_map, Function.comp_def]
    rw [this]; exact inv.packs_nodup
  · intro p pk h
    simp only [ofSt] at h
    have : ∀ (l : Packs), getX (l.map (fun e => (e.1, ({ segs := e.2, flushed := e.2.length, synced := e.2.length } : XPack)))) p = some pk →
        pk.synced ≤ pk.flushed ∧ pk.flushed ≤ pk.segs.length := by
      intro l
      induction l with
      | nil => simp [getX]
      | cons e rest ih =>
        by_cases h1 : e.1 = p
        · simp only [List.map_cons, getX, h1, if_true]
          intro h2
          cases h2
          simp
        · simp only [List.map_cons, getX, h1, if_false]
          exact ih
    exact this _ h
  · intro r hr
    obtain ⟨segs, hg, hs⟩ := rowOK_iff.mp (inv.rows_ok r hr)
    have : ∀ (l : Packs), getPack l r.pack = some segs →
        getX (l.map (fun e => (e.1, ({ segs := e.2, flushed := e.2.length, synced := e.2.length } : XPack)))) r.pack
          = some { segs := segs, flushed := segs.length, synced := segs.length } := by
      intro l
      induction l with
      | nil => simp [getPack]
      | cons e rest ih =>
        by_cases h1 : e.1 = r.pack
        · simp only [List.map_cons, getX, getPack, h1, if_true]
          intro h2; cases h2; rfl
        · simp only [List.map_cons, getX, getPack, h1, if_false]
          exact ih
    refine ⟨_, this _ hg, ?_⟩
    simpa using hs
  · have : (ofSt s).loose.map (·.1) = s.loose.map (·.1) := by
      simp [ofSt, List.map_map, Function.comp_def]
    rw [this]; exact inv.loose_nodup
  · intro e he
    simp only [ofSt, List.mem_map] at he
    obtain ⟨a, ha, rfl⟩ := he
    exact ⟨(inv.loose_ok a ha).symm, rfl⟩
  · intro k hk
    simp only [keysOf, List.mem_append, rowKeys, looseKeys] at hk
    rcases hk with hk | hk
    · exact Or.inl hk
    · right
      simpa [ofSt, List.map_map, Function.comp_def] using hk

/-- all three images of a good state are safe, and the fault image is structurally intact -/
theorem good_rowOK_view {t : Tab} {keep : List Nat} {x : XSt} (g : Good t keep x) (F : Nat → XPack → List Seg)
    (hF : ∀ p pk, getX x.packs p = some pk → ∃ n, pk.synced ≤ n ∧ F p pk = pk.segs.take n) :
    ∀ r ∈ x.rows, RowOK t (x.packs.map (fun e => (e.1, F e.1 e.2))) r := by
  intro r hr
  obtain ⟨pk, hg, hs⟩ := g.1.rows_ok r hr
  obtain ⟨n, hn, hFn⟩ := hF _ _ hg
  refine rowOK_iff.mpr ⟨F r.pack pk, by rw [getPack_mapX, hg]; rfl, ?_⟩
  rw [hFn]
  exact segOK_take_mono hn hs

theorem good_crash {t : Tab} (wf : t.WF) {keep : List Nat} {x : XSt} (g : Good t keep x) (cut : Nat → Nat) :
    SafeImg t (crashImg x cut) keep := by
  apply safeImg_of wf
  · exact good_rowOK_view g (fun p pk => pk.segs.take (pk.flushed + cut p))
      (fun p pk h => ⟨_, by have := (g.1.pk_le p pk h).1; omega, rfl⟩)
  · intro e he
    simp only [crashImg, List.mem_map] at he
    obtain ⟨a, ha, rfl⟩ := he
    obtain ⟨h1, h2⟩ := g.1.loose_ok a ha
    simp [h1, h2]
  · intro k hk
    rcases g.1.keep_ok k hk with h | h
    · exact Or.inl h
    · right
      simpa [crashImg, List.map_map, Function.comp_def] using h

theorem good_power {t : Tab} (wf : t.WF) {keep : List Nat} {x : XSt} (g : Good t keep x) :
    SafeImg t (powerImg x) keep := by
  apply safeImg_of wf
  · exact good_rowOK_view g (fun _ pk => pk.segs.take pk.synced) (fun p pk _ => ⟨_, Nat.le_refl _, rfl⟩)
  · intro e he
    simp only [powerImg, List.mem_map] at he
    obtain ⟨a, ha, rfl⟩ := he
    obtain ⟨h1, h2⟩ := g.1.loose_ok a ha
    simp [h1, h2]
  · intro k hk
    rcases g.1.keep_ok k hk with h | h
    · exact Or.inl h
    · right
      simpa [powerImg, List.map_map, Function.comp_def] using h

theorem good_toSt_rows {t : Tab} {keep : List Nat} {x : XSt} (g : Good t keep x) :
    ∀ r ∈ (toSt x).rows, RowOK t (toSt x).packs r :=
  good_rowOK_view g (fun _ pk => pk.segs)
    (fun p pk h => ⟨pk.segs.length, by have := g.1.pk_le p pk h; omega, by simp⟩)

theorem good_toSt_safe {t : Tab} (wf : t.WF) {keep : List Nat} {x : XSt} (g : Good t keep x) :
    SafeImg t (toSt x) keep := by
  apply safeImg_of wf (good_toSt_rows g)
  · intro e he
    simp only [toSt, List.mem_map] at he
    obtain ⟨a, ha, rfl⟩ := he
    exact (g.1.loose_ok a ha).1.symm
  · intro k hk
    rcases g.1.keep_ok k hk with h | h
    · exact Or.inl h
    · right
      simpa [toSt, List.map_map, Function.comp_def] using h

theorem good_toSt_inv {t : Tab} {keep : List Nat} {x : XSt} (g : Good t keep x) : Inv t (toSt x) := by
  refine ⟨good_toSt_rows g, g.1.keys_nodup, g.1.ids_nodup, g.1.ids_pos, ?_, ?_, ?_, g.2.2⟩
  · have : (toSt x).packs.map (·.1) = x.packs.map (·.1) := by
      simp [toSt, List.map_map, Function.comp_def]
    rw [this]; exact g.1.pk_nodup
  · have : (toSt x).loose.map (·.1) = x.loose.map (·.1) := by
      simp [toSt, List.map_map, Function.comp_def]
    rw [this]; exact g.1.loose_nodup
  · intro e he
    simp only [toSt, List.mem_map] at he
    obtain ⟨a, ha, rfl⟩ := he
    exact (g.1.loose_ok a ha).1.symm


/-! ### preservation -/

theorem goodC_packs {t : Tab} {keep : List Nat} {packs packs' : List (Nat × XPack)} {rows : List Row}
    {loose : List (Nat × XFile)} (g : GoodC t keep packs rows loose)
    (h1 : (packs'.map (·.1)).Nodup)
    (h2 : ∀ p pk, getX packs' p = some pk → pk.synced ≤ pk.flushed ∧ pk.flushed ≤ pk.segs.length)
    (h3 : ∀ q pk, getX packs q = some pk → ∃ pk', getX packs' q = some pk' ∧
      ∃ ext, pk'.segs.take pk'.synced = pk.segs.take pk.synced ++ ext) :
    GoodC t keep packs' rows loose := by
  refine ⟨h1, h2, ?_, g.keys_nodup, g.ids_nodup, g.ids_pos, g.loose_nodup, g.loose_ok, g.keep_ok⟩
  intro r hr
  obtain ⟨pk, hg, hs⟩ := g.rows_ok r hr
  obtain ⟨pk', hg', ext, he⟩ := h3 _ _ hg
  exact ⟨pk', hg', by rw [he]; exact segOK_append ext hs⟩

theorem good_updX {t : Tab} {keep : List Nat} {x : XSt} (g : Good t keep x) (p : Nat) (f : XPack → XPack)
    (hf : ∀ pk, getX x.packs p = some pk → pk.synced ≤ pk.flushed → pk.flushed ≤ pk.segs.length →
      ((f pk).synced ≤ (f pk).flushed ∧ (f pk).flushed ≤ (f pk).segs.length ∧
        ∃ ext, (f pk).segs.take (f pk).synced = pk.segs.take pk.synced ++ ext)) :
    Good t keep { x with packs := updX x.packs p f } := by
  refine ⟨goodC_packs g.1 ?_ ?_ ?_, g.2.1, g.2.2⟩
  · show ((updX x.packs p f).map (·.1)).Nodup
    rw [keysX_updX]; exact g.1.pk_nodup
  · intro q pk hq
    change getX (updX x.packs p f) q = some pk at hq
    rw [getX_updX] at hq
    by_cases h : q = p
    · subst h
      simp only [if_true] at hq
      cases hg : getX x.packs q with
      | none => simp [hg] at hq
      | some pk0 =>
        simp [hg] at hq
        subst hq
        obtain ⟨a, b⟩ := g.1.pk_le _ _ hg
        obtain ⟨c, d, _⟩ := hf pk0 hg a b
        exact ⟨c, d⟩
    · simp only [h, if_false] at hq
      exact g.1.pk_le _ _ hq
  · intro q pk hq
    change ∃ pk', getX (updX x.packs p f) q = some pk' ∧ _
    rw [getX_updX]
    by_cases h : q = p
    · subst h
      obtain ⟨a, b⟩ := g.1.pk_le _ _ hq
      obtain ⟨_, _, e⟩ := hf pk hq a b
      exact ⟨f pk, by simp [hq], e⟩
    · exact ⟨pk, by simp [h, hq], [], by simp⟩

theorem good_write {t : Tab} {keep : List Nat} {x : XSt} (g : Good t keep x) (p : Nat) (sg : Seg) :
    Good t keep (exec x (.pkWrite p sg)) := by
  apply good_updX g
  intro pk _ a b
  refine ⟨a, by simp; omega, [], ?_⟩
  simp only [List.append_nil]
  exact List.take_append_of_le_length (by omega)

theorem good_flush {t : Tab} {keep : List Nat} {x : XSt} (g : Good t keep x) (p : Nat) :
    Good t keep (exec x (.pkFlush p)) := by
  apply good_updX g
  intro pk _ a b
  exact ⟨by simp only; omega, Nat.le_refl _, [], by simp⟩

theorem good_close {t : Tab} {keep : List Nat} {x : XSt} (g : Good t keep x) (p : Nat) :
    Good t keep (exec x (.pkClose p)) := by
  apply good_updX g
  intro pk _ a b
  exact ⟨by simp only; omega, Nat.le_refl _, [], by simp⟩

theorem good_fsync {t : Tab} {keep : List Nat} {x : XSt} (g : Good t keep x) (p : Nat) :
    Good t keep (exec x (.pkFsync p)) := by
  apply good_updX g
  intro pk _ a b
  exact ⟨Nat.le_refl _, b, take_le_ext _ a⟩

theorem good_truncate {t : Tab} {keep : List Nat} {x : XSt} (g : Good t keep x) (p n : Nat)
    (hn : ∀ pk, getX x.packs p = some pk → pk.synced + n ≤ pk.segs.length) :
    Good t keep (exec x (.pkTruncate p n)) := by
  apply good_updX g
  intro pk hg a b
  have h := hn pk hg
  refine ⟨?_, Nat.le_refl _, [], ?_⟩
  · simp only [List.length_take]; omega
  · simp only [List.length_take, List.append_nil, List.take_take]
    congr 1
    omega

theorem good_truncate0 {t : Tab} {keep : List Nat} {x : XSt} (g : Good t keep x) (p : Nat) :
    Good t keep (exec x (.pkTruncate p 0)) :=
  good_truncate g p 0 (fun pk hg => by have := g.1.pk_le _ _ hg; omega)

theorem good_open {t : Tab} {keep : List Nat} {x : XSt} (g : Good t keep x) (p : Nat) :
    Good t keep (exec x (.pkOpen p)) := by
  cases hg : getX x.packs p with
  | some pk =>
    have e : exec x (.pkOpen p) = x := by simp only [exec, hg]
    rw [e]; exact g
  | none =>
    have e : exec x (.pkOpen p) = { x with packs := setX x.packs p { segs := [], flushed := 0, synced := 0 } } := by
      simp only [exec, hg]
    rw [e]
    refine ⟨goodC_packs g.1 ?_ ?_ ?_, g.2.1, g.2.2⟩
    · show ((setX x.packs p _).map (·.1)).Nodup
      rw [keysX_setX_none _ hg, List.nodup_append]
      refine ⟨g.1.pk_nodup, by simp, ?_⟩
      intro a ha b hb hab
      simp at hb
      subst hb; subst hab
      exact getX_none_iff.mp hg ha
    · intro q pk hq
      change getX (setX x.packs p _) q = some pk at hq
      rw [getX_setX] at hq
      by_cases h : q = p
      · simp [h] at hq
        subst hq
        simp
      · simp only [h, if_false] at hq
        exact g.1.pk_le _ _ hq
    · intro q pk hq
      change ∃ pk', getX (setX x.packs p _) q = some pk' ∧ _
      rw [getX_setX]
      have h : q ≠ p := by
        intro e; subst e; rw [hg] at hq; cases hq
      exact ⟨pk, by simp [h, hq], [], by simp⟩

theorem good_unlink {t : Tab} {keep : List Nat} {x : XSt} (g : Good t keep x) (k : Nat)
    (hk : k ∈ x.rows.map (·.key)) : Good t keep (exec x (.looseUnlink k)) := by
  refine ⟨⟨g.1.pk_nodup, g.1.pk_le, g.1.rows_ok, g.1.keys_nodup, g.1.ids_nodup, g.1.ids_pos, ?_, ?_, ?_⟩, g.2.1, g.2.2⟩
  · exact g.1.loose_nodup.sublist (List.filter_sublist.map _)
  · intro e he
    exact g.1.loose_ok e (List.mem_filter.mp he).1
  · intro k' hk'
    rcases g.1.keep_ok k' hk' with h | h
    · exact Or.inl h
    · by_cases e : k' = k
      · subst e; exact Or.inl hk
      · right
        obtain ⟨a, ha, rfl⟩ := List.mem_map.mp h
        exact List.mem_map.mpr ⟨a, List.mem_filter.mpr ⟨ha, by simpa using e⟩, rfl⟩

theorem good_commit {t : Tab} {keep : List Nat} {x : XSt} (g : Good t keep x)
    (h : GoodC t keep x.packs (workOf x) x.loose) : Good t keep (exec x .sqlCommit) :=
  ⟨h, g.2.1, g.2.2⟩

/-- the actions that preserve `Good` unconditionally -/
def plain : Act → Bool
  | .lock _ | .unlock _ | .pkOpen _ | .pkWrite _ _ | .pkFlush _ | .pkFsync _ | .pkClose _ | .dirSync
  | .readLoose _ | .sqlInsert _ => true
  | .pkTruncate _ n => n == 0
  | _ => false

theorem good_plain {t : Tab} {keep : List Nat} {x : XSt} (g : Good t keep x) {a : Act} (ha : plain a = true) :
    Good t keep (exec x a) := by
  cases a <;> simp only [plain] at ha <;> try (exact absurd ha (by decide))
  case dirSync => exact g
  case readLoose => exact g
  case lock => exact g
  case unlock => exact g
  case pkOpen p => exact good_open g p
  case pkWrite p sg => exact good_write g p sg
  case pkFlush p => exact good_flush g p
  case pkFsync p => exact good_fsync g p
  case pkClose p => exact good_close g p
  case pkTruncate p n =>
    have : n = 0 := by simpa using ha
    subst this
    exact good_truncate0 g p
  case sqlInsert r => exact g

/-! ### all prefixes -/

theorem execAll_append (x : XSt) (l1 l2 : List Act) : execAll x (l1 ++ l2) = execAll (execAll x l1) l2 := by
  induction l1 generalizing x with
  | nil => rfl
  | cons a l ih => simp [execAll, ih]

def AllGood (t : Tab) (keep : List Nat) (x : XSt) (acts : List Act) : Prop :=
  ∀ k, Good t keep (execAll x (acts.take k))

theorem allGood_nil {t : Tab} {keep : List Nat} {x : XSt} (g : Good t keep x) : AllGood t keep x [] := by
  intro k; simpa [execAll] using g

theorem allGood_start {t : Tab} {keep : List Nat} {x : XSt} {l : List Act} (h : AllGood t keep x l) : Good t keep x := by
  have := h 0; simpa [execAll] using this

theorem allGood_end {t : Tab} {keep : List Nat} {x : XSt} {l : List Act} (h : AllGood t keep x l) :
    Good t keep (execAll x l) := by
  have := h l.length; simpa using this

theorem allGood_cons {t : Tab} {keep : List Nat} {x : XSt} {a : Act} {l : List Act} (g : Good t keep x)
    (h : AllGood t keep (exec x a) l) : AllGood t keep x (a :: l) := by
  intro k
  cases k with
  | zero => simpa [execAll] using g
  | succ k => simpa [execAll] using h k

theorem allGood_append {t : Tab} {keep : List Nat} {x : XSt} {l1 l2 : List Act} (h1 : AllGood t keep x l1)
    (h2 : AllGood t keep (execAll x l1) l2) : AllGood t keep x (l1 ++ l2) := by
  intro k
  rw [List.take_append, execAll_append]
  by_cases hk : k ≤ l1.length
  · have : k - l1.length = 0 := by omega
    rw [this]
    simpa [execAll] using h1 k
  · have : l1.take k = l1 := List.take_of_length_le (by omega)
    rw [this]
    exact h2 _

theorem allGood_plain {t : Tab} {keep : List Nat} {l : List Act} : ∀ {x : XSt}, Good t keep x →
    (∀ a ∈ l, plain a = true) → AllGood t keep x l := by
  induction l with
  | nil => intro x g _; exact allGood_nil g
  | cons a l ih =>
    intro x g h
    exact allGood_cons g (ih (good_plain g (h a List.mem_cons_self)) (fun b hb => h b (List.mem_cons_of_mem _ hb)))

theorem allGood_single {t : Tab} {keep : List Nat} {x : XSt} {a : Act} (g : Good t keep x)
    (g' : Good t keep (exec x a)) : AllGood t keep x [a] :=
  allGood_cons g (allGood_nil g')

/-! ### from `AllGood` to `AllSafe` -/

theorem toSt_execAll_handlers (x : XSt) (l : List Act) (hl : ∀ a ∈ l, ∃ p, a = Act.pkClose p ∨ a = Act.unlock p) :
    toSt (execAll x l) = toSt x := by
  induction l generalizing x with
  | nil => rfl
  | cons a l ih =>
    simp only [execAll]
    rw [ih _ (fun b hb => hl b (List.mem_cons_of_mem _ hb))]
    obtain ⟨p, h | h⟩ := hl a List.mem_cons_self
    · subst h
      simp only [exec, toSt]
      have := segsOf_updX_same x.packs p (fun pk => { pk with flushed := pk.segs.length }) (fun _ => rfl)
      simp only [segsOf] at this
      rw [this]
    · subst h
      rfl

theorem toSt_runFault {t : Tab} {keep : List Nat} (x : XSt) (acts : List Act) (k : Nat)
    (g : Good t keep (execAll x (acts.take k))) :
    toSt (runFault x acts k) = toSt (execAll x (acts.take k)) := by
  unfold runFault
  simp only
  have h1 : ∀ y : XSt, toSt { y with work := none } = toSt y := fun _ => rfl
  rw [h1]
  apply toSt_execAll_handlers
  intro a ha
  unfold handlers at ha
  rw [g.2.1] at ha
  simp only [List.nil_append, List.mem_flatMap] at ha
  obtain ⟨p, _, hp⟩ := ha
  simp at hp
  exact ⟨p, hp⟩

theorem allSafe_of_allGood {t : Tab} (wf : t.WF) {s : St} {acts : List Act} {keep : List Nat}
    (h : AllGood t keep (ofSt s) acts) : AllSafe t s acts keep := by
  intro k
  have g := h k
  refine ⟨fun cut => good_crash wf g cut, good_power wf g, ?_, ?_⟩
  · rw [toSt_runFault _ _ _ g]; exact good_toSt_safe wf g
  · rw [toSt_runFault _ _ _ g]; exact good_toSt_inv g

end Dos.IO
