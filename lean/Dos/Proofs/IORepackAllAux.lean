/-
Helper lemmas for the full `repack()`: the state a completed `repack_pack` leaves is quiescent (`ofSt (toSt x) = x`),
it has no trace of the temporary pack, and the per-state invariant `Good` only depends on the loose files, the
target, and the keys and ids of the index of the reference state.
-/
import Dos.IORepackAll
import Dos.IOSpec
import Dos.Proofs.IORepack

namespace Dos.IO.Repack
open Dos Dos.IO

/-! ### quiescent states -/

/-- nothing buffered, nothing unsynced, no sandbox file, no open transaction, no lock -/
structure Quiet (x : XSt) : Prop where
  sandbox : x.sandbox = none
  work : x.work = none
  locks : x.locks = []
  loose : ∀ e ∈ x.loose, e.2.dur = .synced
  packs : ∀ e ∈ x.packs, e.2 = full e.2.segs

theorem ofSt_toSt {x : XSt} (q : Quiet x) : ofSt (toSt x) = x := by
  obtain ⟨h1, h2, h3, h4, h5⟩ := q
  cases x with
  | mk loose sandbox packs rows work locks cur target =>
    simp only at h1 h2 h3 h4 h5
    subst h1 h2 h3
    simp only [ofSt, toSt, List.map_map, XSt.mk.injEq, and_true, true_and]
    constructor
    · conv => rhs; rw [← List.map_id loose]
      apply List.map_congr_left
      intro e he
      have := h4 e he
      obtain ⟨k, f⟩ := e
      cases f with
      | mk cid dur =>
        simp only at this
        subst this
        rfl
    · conv => rhs; rw [← List.map_id packs]
      apply List.map_congr_left
      intro e he
      have := h5 e he
      obtain ⟨k, pk⟩ := e
      simp only [Function.comp, id]
      simp only at this
      conv => rhs; rw [this]
      rfl

theorem quiet_ofSt (s : St) : Quiet (ofSt s) := by
  refine ⟨rfl, rfl, rfl, ?_, ?_⟩
  · intro e he
    simp only [ofSt, List.mem_map] at he
    obtain ⟨e', _, rfl⟩ := he
    rfl
  · intro e he
    simp only [ofSt, List.mem_map] at he
    obtain ⟨e', _, rfl⟩ := he
    rfl

theorem mem_eraseX {ps : List (Nat × XPack)} {p : Nat} {e : Nat × XPack} (h : e ∈ eraseX ps p) : e ∈ ps := by
  induction ps with
  | nil => simp [eraseX] at h
  | cons a rest ih =>
    obtain ⟨q, o⟩ := a
    by_cases hq : q = p
    · simp only [eraseX, hq, if_true] at h
      exact List.mem_cons_of_mem _ (ih h)
    · simp only [eraseX, hq, if_false, List.mem_cons] at h
      rcases h with h | h
      · exact h ▸ List.mem_cons_self
      · exact List.mem_cons_of_mem _ (ih h)

/-! ### the state a completed `repack_pack` leaves -/

structure Done (t : Tab) (s : St) (x : XSt) : Prop where
  quiet : Quiet x
  packs : ∀ e ∈ x.packs, e.1 ≠ tmpId
  rows : ∀ r ∈ x.rows, r.pack ≠ tmpId

theorem done_pack {t : Tab} {s : St} (inv : Inv t s) (nt : NoTmp s) (p : Nat) (hp : p ≠ tmpId) (zs : List Bool) :
    Done t s (execAll (ofSt s) (actsRepackPack t s p zs)) := by
  have q0 := quiet_ofSt s
  have hP0 : ∀ e ∈ (ofSt s).packs, e.1 ≠ tmpId := by
    intro e he
    simp only [ofSt, List.mem_map] at he
    obtain ⟨e', he', rfl⟩ := he
    exact nt.1 e' he'
  by_cases he : rowsOfPack s.rows p = []
  · rw [acts_nil he]
    split
    · refine ⟨⟨rfl, rfl, rfl, q0.loose, ?_⟩, ?_, nt.2⟩
      · intro e he'
        exact q0.packs e (mem_eraseX he')
      · intro e he'
        exact hP0 e (mem_eraseX he')
    · exact ⟨q0, hP0, nt.2⟩
  · rw [exec_all_cons inv nt.1 nt.2 p hp zs he]
    have hmem : ∀ e ∈ PF t s p zs, e ∈ (ofSt s).packs ∨ e = (p, full (rebuild t p (srt s p) zs 0).1) := by
      intro e he'
      rw [PF_eq p zs nt.1 hp, List.mem_append, List.mem_singleton] at he'
      rcases he' with h | h
      · exact Or.inl (mem_eraseX h)
      · exact Or.inr h
    refine ⟨⟨rfl, rfl, rfl, q0.loose, ?_⟩, ?_, ?_⟩
    · intro e he'
      rcases hmem e he' with h | rfl
      · exact q0.packs e h
      · rfl
    · intro e he'
      rcases hmem e he' with h | rfl
      · exact hP0 e h
      · exact hp
    · intro r hr
      simp only [st, List.mem_map] at hr
      obtain ⟨o, ho, rfl⟩ := hr
      by_cases hop : o.pack = p
      · simp only [mvd, hop, if_true, setPk]
        exact hp
      · simp only [mvd, hop, if_false]
        exact nt.2 o ho

theorem noTmp_toSt {t : Tab} {s : St} {x : XSt} (d : Done t s x) : NoTmp (toSt x) := by
  constructor
  · intro e he
    simp only [toSt, List.mem_map] at he
    obtain ⟨e', he', rfl⟩ := he
    exact d.packs e' he'
  · exact d.rows

/-! ### `Good` relative to another reference state -/

theorem good_transfer {t : Tab} {s s1 : St} (hl : s1.loose = s.loose) (ht : s1.target = s.target)
    (hk : s1.rows.map (·.key) = s.rows.map (·.key)) (hi : s1.rows.map (·.id) = s.rows.map (·.id))
    {x : XSt} (g : Good t s1 x) : Good t s x := by
  refine ⟨?_, by rw [g.target, ht], by rw [g.keys, hk], by rw [g.ids, hi], g.ids_pos, g.rows_ok, g.packs_nodup⟩
  rw [g.loose]
  simp only [ofSt, hl]

/-- the on-disk state a good state denotes has the loose files, the target, the keys and the ids of the reference -/
theorem good_toSt_same {t : Tab} {s : St} {x : XSt} (g : Good t s x) :
    (toSt x).loose = s.loose ∧ (toSt x).target = s.target ∧
    (toSt x).rows.map (·.key) = s.rows.map (·.key) ∧ (toSt x).rows.map (·.id) = s.rows.map (·.id) := by
  refine ⟨?_, g.target, g.keys, g.ids⟩
  show x.loose.map _ = _
  rw [g.loose]
  exact loose_ofSt_map s (fun f => f.cid) (fun _ => rfl)

theorem allPre_take_all {P : XSt → Prop} {x : XSt} {as : List Act} (h : AllPre P x as) : P (execAll x as) := by
  have := h as.length
  rwa [List.take_length] at this

/-- every prefix of one `repack_pack` leads to a good state -/
theorem allPre_pack {t : Tab} {s : St} (inv : Inv t s) (nt : NoTmp s) (p : Nat) (hp : p ≠ tmpId) (zs : List Bool) :
    AllPre (Good t s) (ofSt s) (actsRepackPack t s p zs) := by
  by_cases he : rowsOfPack s.rows p = []
  · exact allPre_nil_case inv p zs he
  · exact allPre_cons_case inv nt.1 nt.2 p hp zs he

/-- every prefix of the whole `repack()` leads to a good state (relative to the state at the start) -/
theorem allPre_all {t : Tab} (wf : t.WF) (plan : List (Nat × List Bool)) :
    ∀ (s : St), Inv t s → NoTmp s → planOK t s plan = true →
      AllPre (Good t s) (ofSt s) (actsRepackAll t s plan) := by
  induction plan with
  | nil => intro s inv _ _; exact allPre_nil_case_all inv
  | cons e rest ih =>
    obtain ⟨p, zs⟩ := e
    intro s inv nt hp
    simp only [planOK, Bool.and_eq_true, bne_iff_ne, ne_eq] at hp
    obtain ⟨⟨hp1, _⟩, hp3⟩ := hp
    have h1 := allPre_pack inv nt p hp1 zs
    have g1 := allPre_take_all h1
    have d1 := done_pack inv nt p hp1 zs
    have inv1 := (good_toSt wf inv g1).2
    obtain ⟨sl, st', sk, si⟩ := good_toSt_same g1
    have h2 := ih _ inv1 (noTmp_toSt d1) hp3
    rw [ofSt_toSt d1.quiet] at h2
    show AllPre (Good t s) (ofSt s) (actsRepackPack t s p zs ++ _)
    exact allPre_append h1 (allPre_mono (fun _ g => good_transfer sl st' sk si g) h2)
where
  allPre_nil_case_all {t : Tab} {s : St} (inv : Inv t s) : AllPre (Good t s) (ofSt s) (actsRepackAll t s []) :=
    allPre_nil (good_same inv rfl rfl rfl (fun _ _ => rfl) (by rw [keys_ofSt]; exact inv.packs_nodup))

end Dos.IO.Repack
