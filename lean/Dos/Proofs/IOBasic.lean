/-
Level C for the operations that do not write packs: adding a loose object, cleaning, deleting.
-/
import Dos.IOSpec
import Dos.Proofs.Step

namespace Dos.IO.Basic
open Dos

-- some hypotheses of the stated theorems (`Bounded`, `c < garbage`, `Inv` for the `done_` facts) turn out not to be needed
set_option linter.unusedVariables false

/-! ### generic facts -/

theorem execAll_append (x : XSt) (a b : List Act) : execAll x (a ++ b) = execAll (execAll x a) b := by
  induction a generalizing x with
  | nil => rfl
  | cons h tl ih => simp [execAll, ih]

theorem map_eq_self {α} {f : α → α} {l : List α} (h : ∀ a ∈ l, f a = a) : l.map f = l := by
  induction l with
  | nil => rfl
  | cons a l ih =>
    simp only [List.map_cons]
    rw [h a (by simp), ih (fun b hb => h b (by simp [hb]))]

theorem toSt_ofSt_packs (s : St) : (toSt (ofSt s)).packs = s.packs := by
  simp only [toSt, ofSt, List.map_map]
  exact map_eq_self (fun a _ => rfl)

/-- an image whose packs are those of `s`, whose rows are rows of `s`, and whose loose files are undamaged, is safe
    for all keys it still holds -/
theorem safeImg_of {t : Tab} (wf : t.WF) {s : St} (inv : Inv t s) {img : St} {keep : List Nat}
    (hp : img.packs = s.packs) (hr : ∀ r ∈ img.rows, r ∈ s.rows) (hl : ∀ e ∈ img.loose, e.2 = e.1)
    (hk : ∀ k ∈ keep, k ∈ img.rows.map (·.key) ∨ k ∈ img.loose.map (·.1)) : SafeImg t img keep := by
  have key : ∀ k, readFresh t img k = .ok k ∨ readFresh t img k = .loud ∨
      (readFresh t img k = .missing ∧ k ∉ img.rows.map (·.key) ∧ k ∉ img.loose.map (·.1)) := by
    intro k
    unfold readFresh
    cases hf : findRow img.rows k with
    | some r =>
      obtain ⟨hm, hkey⟩ := findRow_some hf
      simp only
      by_cases hpk : r.pack = tmpId
      · simp [hpk]
      · have hro : RowOK t img.packs r := by rw [hp]; exact inv.rows_ok r (hr r hm)
        rw [if_neg hpk, readRow_of_rowOK wf hro, hkey]
        simp
    | none =>
      simp only
      cases hl' : findLoose img.loose k with
      | some c =>
        have := hl _ (findLoose_some hl')
        simp at this
        simp [this]
      | none =>
        right; right
        exact ⟨rfl, findRow_none_iff.mp hf, findLoose_none_iff.mp hl'⟩
  constructor
  · intro k hk'
    rcases key k with h | h | ⟨_, h1, h2⟩
    · exact Or.inl h
    · exact Or.inr h
    · rcases hk k hk' with h | h
      · exact absurd h h1
      · exact absurd h h2
  · intro k _
    rcases key k with h | h | ⟨h, _⟩
    · exact Or.inl h
    · exact Or.inr (Or.inr h)
    · exact Or.inr (Or.inl h)

/-! ### the invariant of the intermediate states

`kR`: keys that must stay indexed, `kL`: keys that must stay loose. -/

structure Good (s : St) (kR kL : List Nat) (x : XSt) : Prop where
  packs : x.packs = (ofSt s).packs
  rows : x.rows.Sublist s.rows
  work : (workOf x).Sublist s.rows
  loose_ok : ∀ e ∈ x.loose, e.2.cid = e.1 ∧ e.2.dur = .synced
  loose_nodup : (x.loose.map (·.1)).Nodup
  locks : x.locks = []
  target : x.target = s.target
  keepR : ∀ k ∈ kR, k ∈ x.rows.map (·.key) ∧ k ∈ (workOf x).map (·.key)
  keepL : ∀ k ∈ kL, k ∈ x.loose.map (·.1)

theorem good_ofSt {t : Tab} {s : St} (inv : Inv t s) {kR kL : List Nat}
    (hR : ∀ k ∈ kR, k ∈ rowKeys s) (hL : ∀ k ∈ kL, k ∈ looseKeys s) : Good s kR kL (ofSt s) where
  packs := rfl
  rows := List.Sublist.refl _
  work := List.Sublist.refl _
  loose_ok := by
    intro e he
    simp only [ofSt, List.mem_map] at he
    obtain ⟨a, ha, rfl⟩ := he
    exact ⟨(inv.loose_ok a ha).symm, rfl⟩
  loose_nodup := by
    have : (ofSt s).loose.map (·.1) = s.loose.map (·.1) := by simp [ofSt, List.map_map, Function.comp_def]
    rw [this]; exact inv.loose_nodup
  locks := rfl
  target := rfl
  keepR := fun k hk => ⟨hR k hk, hR k hk⟩
  keepL := by
    intro k hk
    have : (ofSt s).loose.map (·.1) = s.loose.map (·.1) := by simp [ofSt, List.map_map, Function.comp_def]
    rw [this]; exact hL k hk

/-- side condition under which one action keeps `Good` -/
def OKAct (kR kL : List Nat) (x : XSt) : Act → Prop
  | .sbCreate | .sbWrite _ | .sbFlush | .sbFsync | .sbClose | .sbRemove | .dirSync | .mkdirLoose _
  | .readLoose _ | .sqlCommit => True
  | .renameLoose k => x.sandbox = none ∨ x.sandbox = some ⟨k, .synced⟩
  | .looseUnlink k => k ∉ kL
  | .sqlDelete k => k ∉ kR
  | _ => False

theorem good_rename {s : St} {kR kL : List Nat} {x : XSt} (h : Good s kR kL x) (k : Nat) :
    Good s kR kL { x with sandbox := none, loose := x.loose.filter (fun e => e.1 != k) ++ [(k, ⟨k, .synced⟩)] } where
  packs := h.packs
  rows := h.rows
  work := h.work
  loose_ok := by
    intro e he
    simp only [List.mem_append, List.mem_filter, List.mem_singleton] at he
    rcases he with ⟨he, _⟩ | rfl
    · exact h.loose_ok e he
    · exact ⟨rfl, rfl⟩
  loose_nodup := by
    simp only [List.map_append, List.map_cons, List.map_nil]
    rw [List.nodup_append]
    refine ⟨List.Nodup.sublist (List.Sublist.map _ List.filter_sublist) h.loose_nodup, by simp, ?_⟩
    intro a ha b hb
    simp only [List.mem_map, List.mem_filter] at ha
    obtain ⟨e, ⟨_, hne⟩, rfl⟩ := ha
    simp only [List.mem_singleton] at hb
    subst hb
    simpa using hne
  locks := h.locks
  target := h.target
  keepR := h.keepR
  keepL := by
    intro k' hk'
    have := h.keepL k' hk'
    simp only [List.mem_map] at this
    obtain ⟨e, he, rfl⟩ := this
    by_cases hek : e.1 = k
    · simp [hek]
    · simp only [List.map_append, List.mem_append, List.mem_map, List.mem_filter]
      left
      exact ⟨e, ⟨he, by simpa using hek⟩, rfl⟩

theorem good_unlink {s : St} {kR kL : List Nat} {x : XSt} (h : Good s kR kL x) {k : Nat} (hk : k ∉ kL) :
    Good s kR kL { x with loose := x.loose.filter (fun e => e.1 != k) } where
  packs := h.packs
  rows := h.rows
  work := h.work
  loose_ok := fun e he => h.loose_ok e (List.mem_filter.mp he).1
  loose_nodup := List.Nodup.sublist (List.Sublist.map _ List.filter_sublist) h.loose_nodup
  locks := h.locks
  target := h.target
  keepR := h.keepR
  keepL := by
    intro k' hk'
    have := h.keepL k' hk'
    simp only [List.mem_map] at this
    obtain ⟨e, he, rfl⟩ := this
    simp only [List.mem_map, List.mem_filter]
    refine ⟨e, ⟨he, ?_⟩, rfl⟩
    have : e.1 ≠ k := fun hh => hk (hh ▸ hk')
    simpa using this

theorem good_sqlDelete {s : St} {kR kL : List Nat} {x : XSt} (h : Good s kR kL x) {k : Nat} (hk : k ∉ kR) :
    Good s kR kL { x with work := some ((workOf x).filter (fun r => r.key != k)) } where
  packs := h.packs
  rows := h.rows
  work := List.Sublist.trans List.filter_sublist h.work
  loose_ok := h.loose_ok
  loose_nodup := h.loose_nodup
  locks := h.locks
  target := h.target
  keepR := by
    intro k' hk'
    obtain ⟨h1, h2⟩ := h.keepR k' hk'
    refine ⟨h1, ?_⟩
    simp only [List.mem_map] at h2
    obtain ⟨r, hr, rfl⟩ := h2
    show r.key ∈ ((workOf x).filter (fun r => r.key != k)).map (·.key)
    simp only [List.mem_map, List.mem_filter]
    refine ⟨r, ⟨hr, ?_⟩, rfl⟩
    have : r.key ≠ k := fun hh => hk (hh ▸ hk')
    simpa using this
  keepL := h.keepL

theorem good_commit {s : St} {kR kL : List Nat} {x : XSt} (h : Good s kR kL x) :
    Good s kR kL { x with rows := workOf x, work := none } where
  packs := h.packs
  rows := h.work
  work := h.work
  loose_ok := h.loose_ok
  loose_nodup := h.loose_nodup
  locks := h.locks
  target := h.target
  keepR := fun k hk => ⟨(h.keepR k hk).2, (h.keepR k hk).2⟩
  keepL := h.keepL

theorem good_dropWork {s : St} {kR kL : List Nat} {x : XSt} (h : Good s kR kL x) :
    Good s kR kL { x with work := none } where
  packs := h.packs
  rows := h.rows
  work := h.rows
  loose_ok := h.loose_ok
  loose_nodup := h.loose_nodup
  locks := h.locks
  target := h.target
  keepR := fun k hk => ⟨(h.keepR k hk).1, (h.keepR k hk).1⟩
  keepL := h.keepL

/-- changing only the sandbox file keeps `Good` -/
theorem good_sandbox {s : St} {kR kL : List Nat} {x : XSt} (h : Good s kR kL x) (o : Option XFile) :
    Good s kR kL { x with sandbox := o } :=
  ⟨h.packs, h.rows, h.work, h.loose_ok, h.loose_nodup, h.locks, h.target, h.keepR, h.keepL⟩

theorem good_exec {s : St} {kR kL : List Nat} {x : XSt} (h : Good s kR kL x) {a : Act} (ha : OKAct kR kL x a) :
    Good s kR kL (exec x a) := by
  cases a with
  | sbCreate => exact good_sandbox h _
  | sbWrite c => exact good_sandbox h _
  | sbFlush => exact good_sandbox h _
  | sbFsync => exact good_sandbox h _
  | sbClose => exact good_sandbox h _
  | sbRemove => exact good_sandbox h _
  | dirSync => exact h
  | mkdirLoose k => exact h
  | readLoose k => exact h
  | renameLoose k =>
    rcases ha with h0 | h0
    · have e : exec x (.renameLoose k) = x := by simp [exec, h0]
      rw [e]; exact h
    · have e : exec x (.renameLoose k) =
          { x with sandbox := none, loose := x.loose.filter (fun e => e.1 != k) ++ [(k, ⟨k, .synced⟩)] } := by
        simp [exec, h0]
      rw [e]; exact good_rename h k
  | looseUnlink k => exact good_unlink h ha
  | sqlDelete k => exact good_sqlDelete h ha
  | sqlCommit => exact good_commit h
  | lock p => exact False.elim ha
  | unlock p => exact False.elim ha
  | pkOpen p => exact False.elim ha
  | pkWrite p g => exact False.elim ha
  | pkFlush p => exact False.elim ha
  | pkFsync p => exact False.elim ha
  | pkClose p => exact False.elim ha
  | pkTruncate p n => exact False.elim ha
  | pkRead p => exact False.elim ha
  | pkUnlink p => exact False.elim ha
  | pkLink a b => exact False.elim ha
  | sqlInsert r => exact False.elim ha
  | sqlMove r => exact False.elim ha
  | sqlRepoint a b => exact False.elim ha

/-- every action of the list meets its side condition in the state it is executed in -/
def StepsOK (kR kL : List Nat) : XSt → List Act → Prop
  | _, [] => True
  | x, a :: as => OKAct kR kL x a ∧ StepsOK kR kL (exec x a) as

theorem stepsOK_append {kR kL : List Nat} {x : XSt} {a b : List Act} (ha : StepsOK kR kL x a)
    (hb : StepsOK kR kL (execAll x a) b) : StepsOK kR kL x (a ++ b) := by
  induction a generalizing x with
  | nil => exact hb
  | cons c cs ih => exact ⟨ha.1, ih ha.2 hb⟩

theorem stepsOK_static {kR kL : List Nat} {acts : List Act} (h : ∀ a ∈ acts, ∀ x, OKAct kR kL x a) (x : XSt) :
    StepsOK kR kL x acts := by
  induction acts generalizing x with
  | nil => trivial
  | cons c cs ih => exact ⟨h c (by simp) x, ih (fun a ha => h a (by simp [ha])) _⟩

theorem good_take {s : St} {kR kL : List Nat} {acts : List Act} {x : XSt} (h : Good s kR kL x)
    (hs : StepsOK kR kL x acts) (k : Nat) : Good s kR kL (execAll x (acts.take k)) := by
  induction acts generalizing x k with
  | nil => simpa [execAll] using h
  | cons a as ih =>
    cases k with
    | zero => simpa [execAll] using h
    | succ k => simpa [execAll] using ih (good_exec h hs.1) hs.2 k

theorem good_handlers {s : St} {kR kL : List Nat} {x : XSt} (h : Good s kR kL x) :
    Good s kR kL (execAll x (handlers x)) := by
  have hl := h.locks
  unfold handlers
  rw [hl]
  cases hsb : x.sandbox with
  | none => simpa [execAll] using h
  | some f =>
    simp only [List.flatMap_nil, List.append_nil, execAll]
    exact good_sandbox (good_sandbox h _) _

/-! ### what `Good` gives for the three images -/

section images
variable {t : Tab} {s : St} {kR kL keep : List Nat} {x : XSt}

theorem good_keep (h : Good s kR kL x) (hk : ∀ k ∈ keep, k ∈ kR ∨ k ∈ kL) (f : Nat × XFile → Nat × Nat)
    (hf : ∀ e, (f e).1 = e.1) :
    ∀ k ∈ keep, k ∈ x.rows.map (·.key) ∨ k ∈ (x.loose.map f).map (·.1) := by
  intro k hk'
  have e : (x.loose.map f).map (·.1) = x.loose.map (·.1) := by
    simp [List.map_map, Function.comp_def, hf]
  rw [e]
  rcases hk k hk' with h1 | h1
  · exact Or.inl (h.keepR k h1).1
  · exact Or.inr (h.keepL k h1)

theorem good_crash (wf : t.WF) (inv : Inv t s) (h : Good s kR kL x) (hk : ∀ k ∈ keep, k ∈ kR ∨ k ∈ kL)
    (cut : Nat → Nat) : SafeImg t (crashImg x cut) keep := by
  apply safeImg_of wf inv
  · simp only [crashImg, h.packs, ofSt, List.map_map]
    apply map_eq_self
    intro a _
    simp [List.take_of_length_le]
  · exact fun r hr => h.rows.subset hr
  · intro e he
    simp only [crashImg, List.mem_map] at he
    obtain ⟨a, ha, rfl⟩ := he
    obtain ⟨h1, h2⟩ := h.loose_ok a ha
    simp [h1, h2]
  · exact good_keep h hk _ (fun _ => rfl)

theorem good_power (wf : t.WF) (inv : Inv t s) (h : Good s kR kL x) (hk : ∀ k ∈ keep, k ∈ kR ∨ k ∈ kL) :
    SafeImg t (powerImg x) keep := by
  apply safeImg_of wf inv
  · simp only [powerImg, h.packs, ofSt, List.map_map]
    apply map_eq_self
    intro a _
    simp
  · exact fun r hr => h.rows.subset hr
  · intro e he
    simp only [powerImg, List.mem_map] at he
    obtain ⟨a, ha, rfl⟩ := he
    obtain ⟨h1, h2⟩ := h.loose_ok a ha
    simp [h1, h2]
  · exact good_keep h hk _ (fun _ => rfl)

theorem good_toSt_packs (h : Good s kR kL x) : (toSt x).packs = s.packs := by
  simp only [toSt, h.packs, ofSt, List.map_map]
  apply map_eq_self
  intro a _
  simp

theorem good_toSt (wf : t.WF) (inv : Inv t s) (h : Good s kR kL x) (hk : ∀ k ∈ keep, k ∈ kR ∨ k ∈ kL) :
    SafeImg t (toSt x) keep := by
  apply safeImg_of wf inv
  · exact good_toSt_packs h
  · exact fun r hr => h.rows.subset hr
  · intro e he
    simp only [toSt, List.mem_map] at he
    obtain ⟨a, ha, rfl⟩ := he
    exact (h.loose_ok a ha).1
  · exact good_keep h hk _ (fun _ => rfl)

theorem good_inv (inv : Inv t s) (h : Good s kR kL x) : Inv t (toSt x) where
  rows_ok := by
    intro r hr
    rw [good_toSt_packs h]
    exact inv.rows_ok r (h.rows.subset hr)
  keys_nodup := List.Nodup.sublist (List.Sublist.map _ h.rows) inv.keys_nodup
  ids_nodup := List.Nodup.sublist (List.Sublist.map _ h.rows) inv.ids_nodup
  ids_pos := fun r1 h1 r2 h2 => inv.ids_pos r1 (h.rows.subset h1) r2 (h.rows.subset h2)
  packs_nodup := by rw [good_toSt_packs h]; exact inv.packs_nodup
  loose_nodup := by
    have e : (toSt x).loose.map (·.1) = x.loose.map (·.1) := by simp [toSt, List.map_map, Function.comp_def]
    rw [e]; exact h.loose_nodup
  loose_ok := by
    intro e he
    simp only [toSt, List.mem_map] at he
    obtain ⟨a, ha, rfl⟩ := he
    exact (h.loose_ok a ha).1.symm
  target_pos := by
    show 0 < x.target
    rw [h.target]; exact inv.target_pos

end images

/-- the general safety argument for programs that touch neither packs nor (except by deleting) rows -/
theorem allSafe_of {t : Tab} (wf : t.WF) {s : St} (inv : Inv t s) {kR kL keep : List Nat} {acts : List Act}
    (hR : ∀ k ∈ kR, k ∈ rowKeys s) (hL : ∀ k ∈ kL, k ∈ looseKeys s)
    (hk : ∀ k ∈ keep, k ∈ kR ∨ k ∈ kL) (hs : StepsOK kR kL (ofSt s) acts) : AllSafe t s acts keep := by
  intro k
  have g := good_take (good_ofSt inv hR hL) hs k
  have gf : Good s kR kL (runFault (ofSt s) acts k) := good_dropWork (good_handlers g)
  exact ⟨fun cut => good_crash wf inv g hk cut, good_power wf inv g hk, good_toSt wf inv gf hk, good_inv inv gf⟩

/-! ### `add_object` -/

theorem findLoose_self {t : Tab} {s : St} (inv : Inv t s) {c c' : Nat} (h : findLoose s.loose c = some c') : c' = c := by
  have := inv.loose_ok _ (findLoose_some h)
  exact this.symm

/-- run to completion, the action list of `add_object` does what the Level-B operation does -/
theorem done_addLoose {t : Tab} {s : St} (inv : Inv t s) (c : Nat) (mk : Bool) :
    SameDisk (toSt (execAll (ofSt s) (actsAddLoose s c mk))) (addLoose s c) := by
  unfold actsAddLoose addLoose
  cases hf : findLoose s.loose c with
  | some c' =>
    have hc := findLoose_self inv hf
    subst hc
    cases mk <;>
    · simp only [execAll, exec, List.cons_append, List.nil_append, if_true, Bool.false_eq_true, if_false]
      refine ⟨toSt_ofSt_packs s, rfl, ?_, rfl⟩
      intro e
      simp [toSt, ofSt, List.map_map, Function.comp_def]
  | none =>
    have hn := findLoose_none_iff.mp hf
    cases mk <;>
    · simp only [execAll, exec, List.cons_append, List.nil_append, if_true, Bool.false_eq_true, if_false,
        Option.map_some]
      refine ⟨toSt_ofSt_packs s, rfl, ?_, rfl⟩
      intro e
      simp only [toSt, ofSt, List.map_append, List.map_map, List.mem_append, List.mem_map, List.mem_filter,
        List.map_cons, List.map_nil, List.mem_singleton]
      constructor
      · rintro (⟨a, ⟨⟨b, hb, rfl⟩, _⟩, rfl⟩ | h)
        · exact Or.inl hb
        · exact Or.inr h
      · rintro (h | h)
        · left
          refine ⟨_, ⟨⟨e, h, rfl⟩, ?_⟩, rfl⟩
          have : e.1 ≠ c := fun hh => hn (List.mem_map.mpr ⟨e, h, hh⟩)
          simpa using this
        · exact Or.inr h

/-- adding a loose object is safe at every cut point: nothing stored before is affected, and the new object is
    absent or complete -/
theorem safe_addLoose {t : Tab} (wf : t.WF) {s : St} (inv : Inv t s) (hb : Bounded s) (c : Nat) (hc : c < garbage)
    (mk : Bool) : AllSafe t s (actsAddLoose s c mk) (keysOf s) := by
  apply allSafe_of wf inv (kR := rowKeys s) (kL := looseKeys s) (fun _ h => h) (fun _ h => h)
  · intro k hk
    simpa [keysOf] using hk
  · unfold actsAddLoose
    cases hf : findLoose s.loose c with
    | some c' =>
      have hc := findLoose_self inv hf
      subst hc
      cases mk <;> simp [StepsOK, OKAct]
    | none =>
      cases mk <;> simp [StepsOK, OKAct, exec, ofSt]

/-! ### `clean_storage` -/

theorem execAll_unlinks (x : XSt) (l : List Nat) :
    execAll x (l.map .looseUnlink) = { x with loose := x.loose.filter (fun e => !l.contains e.1) } := by
  induction l generalizing x with
  | nil =>
    have e : x.loose.filter (fun e => !([] : List Nat).contains e.1) = x.loose := by simp
    simp only [List.map_nil, execAll, e]
  | cons a l ih =>
    simp only [List.map_cons, execAll, exec, ih, List.filter_filter]
    congr 1
    apply List.filter_congr
    intro e _
    by_cases h : e.1 = a
    · subst h; simp
    · have h' : ¬ a = e.1 := fun hh => h hh.symm
      simp [h]

/-- `clean_storage` unlinks loose files of indexed keys (`order` = any enumeration of them) -/
theorem done_clean {t : Tab} {s : St} (inv : Inv t s) (order : List Nat)
    (ho : ∀ k, k ∈ order ↔ (hasLoose s k = true ∧ hasRow s k = true)) :
    SameDisk (toSt (execAll (ofSt s) (actsClean s order))) (clean s) := by
  unfold actsClean
  rw [execAll_unlinks]
  refine ⟨toSt_ofSt_packs s, rfl, ?_, rfl⟩
  intro e
  simp only [toSt, ofSt, clean, List.mem_map, List.mem_filter]
  constructor
  · rintro ⟨a, ⟨⟨b, hb, rfl⟩, hne⟩, rfl⟩
    refine ⟨hb, ?_⟩
    simp only [Bool.not_eq_true', List.contains_eq_mem, decide_eq_false_iff_not] at hne
    have := mt (ho b.1).mpr hne
    have hl : hasLoose s b.1 = true := hasLoose_iff.mpr (List.mem_map.mpr ⟨b, hb, rfl⟩)
    simp [hl] at this
    simp [this]
  · rintro ⟨he, hnr⟩
    refine ⟨_, ⟨⟨e, he, rfl⟩, ?_⟩, rfl⟩
    simp only [Bool.not_eq_true', List.contains_eq_mem, decide_eq_false_iff_not]
    intro hm
    have := ((ho e.1).mp hm).2
    simp [this] at hnr

theorem safe_clean {t : Tab} (wf : t.WF) {s : St} (inv : Inv t s) (hb : Bounded s) (order : List Nat)
    (ho : ∀ k ∈ order, hasRow s k = true) : AllSafe t s (actsClean s order) (keysOf s) := by
  apply allSafe_of wf inv (kR := rowKeys s) (kL := (looseKeys s).filter (fun k => !hasRow s k)) (fun _ h => h)
    (fun _ h => (List.mem_filter.mp h).1)
  · intro k hk
    simp only [keysOf, List.mem_append] at hk
    by_cases hr : hasRow s k = true
    · exact Or.inl (by simpa [hasRow] using hr)
    · rcases hk with hk | hk
      · exact Or.inl hk
      · exact Or.inr (List.mem_filter.mpr ⟨hk, by simpa using hr⟩)
  · apply stepsOK_static
    intro a ha x
    simp only [actsClean, List.mem_map] at ha
    obtain ⟨k, hk, rfl⟩ := ha
    show k ∉ _
    intro hm
    have := (List.mem_filter.mp hm).2
    simp [ho k hk] at this

/-! ### `delete_objects` -/

theorem toSt_sqlDeletes_commit (x : XSt) (l : List Nat) :
    toSt (exec (execAll x (l.map .sqlDelete)) .sqlCommit) =
      { toSt x with rows := (workOf x).filter (fun r => !l.contains r.key) } := by
  induction l generalizing x with
  | nil =>
    have e : (workOf x).filter (fun r => !([] : List Nat).contains r.key) = workOf x := by simp
    simp only [List.map_nil, execAll, exec, toSt, e]
  | cons a l ih =>
    simp only [List.map_cons, execAll]
    rw [ih]
    simp only [exec, toSt, workOf, Option.getD_some, List.filter_filter]
    congr 1
    apply List.filter_congr
    intro r _
    by_cases h : r.key = a
    · subst h; simp
    · have h' : ¬ a = r.key := fun hh => h hh.symm
      simp [h]

theorem done_delete {t : Tab} {s : St} (inv : Inv t s) (ks : List Nat) :
    SameDisk (toSt (execAll (ofSt s) (actsDelete s ks))) (delete s ks).1 := by
  unfold actsDelete
  rw [execAll_append, execAll_append, execAll_unlinks]
  simp only [execAll]
  rw [toSt_sqlDeletes_commit]
  refine ⟨toSt_ofSt_packs s, ?_, ?_, rfl⟩
  · simp only [delete, workOf, ofSt, Option.getD_none]
    apply List.filter_congr
    intro r hr
    have hrow : hasRow s r.key = true := hasRow_iff.mpr (List.mem_map.mpr ⟨r, hr, rfl⟩)
    simp [List.mem_eraseDups, hrow]
  · intro e
    simp only [toSt, ofSt, delete, List.mem_map, List.mem_filter]
    constructor
    · rintro ⟨a, ⟨⟨b, hb, rfl⟩, hne⟩, rfl⟩
      refine ⟨hb, ?_⟩
      have hl : hasLoose s b.1 = true := hasLoose_iff.mpr (List.mem_map.mpr ⟨b, hb, rfl⟩)
      simpa [List.mem_eraseDups, hl] using hne
    · rintro ⟨he, hnk⟩
      refine ⟨_, ⟨⟨e, he, rfl⟩, ?_⟩, rfl⟩
      have hl : hasLoose s e.1 = true := hasLoose_iff.mpr (List.mem_map.mpr ⟨e, he, rfl⟩)
      simpa [List.mem_eraseDups, hl] using hnk

/-- deleting is safe for every key that is not targeted -/
theorem safe_delete {t : Tab} (wf : t.WF) {s : St} (inv : Inv t s) (hb : Bounded s) (ks : List Nat) :
    AllSafe t s (actsDelete s ks) ((keysOf s).filter (fun k => !ks.contains k)) := by
  apply allSafe_of wf inv (kR := (rowKeys s).filter (fun k => !ks.contains k))
    (kL := (looseKeys s).filter (fun k => !ks.contains k))
    (fun _ h => (List.mem_filter.mp h).1) (fun _ h => (List.mem_filter.mp h).1)
  · intro k hk
    simpa [keysOf, List.filter_append] using hk
  · apply stepsOK_static
    intro a ha x
    simp only [actsDelete, List.mem_append, List.mem_map, List.mem_singleton, List.mem_eraseDups,
      List.mem_filter] at ha
    rcases ha with (⟨k, ⟨hk, _⟩, rfl⟩ | ⟨k, ⟨hk, _⟩, rfl⟩) | rfl
    · show k ∉ _
      intro hm
      have := (List.mem_filter.mp hm).2
      simp [hk] at this
    · show k ∉ _
      intro hm
      have := (List.mem_filter.mp hm).2
      simp [hk] at this
    · trivial

end Dos.IO.Basic
