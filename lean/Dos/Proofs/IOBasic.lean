/-
Level C for the operations that do not write packs: adding a loose object, cleaning, deleting.
-/
import Dos.IOSpec
import Dos.Proofs.Step

namespace Dos.IO
open Dos

/-- run to completion, the action list of `add_object` does what the Level-B operation does -/
theorem done_addLoose {t : Tab} {s : St} (inv : Inv t s) (c : Nat) (mk : Bool) :
    SameDisk (toSt (execAll (ofSt s) (actsAddLoose s c mk))) (addLoose s c) := by
  sorry

/-- adding a loose object is safe at every cut point: nothing stored before is affected, and the new object is
    absent or complete -/
theorem safe_addLoose {t : Tab} (wf : t.WF) {s : St} (inv : Inv t s) (hb : Bounded s) (c : Nat) (hc : c < garbage)
    (mk : Bool) : AllSafe t s (actsAddLoose s c mk) (keysOf s) := by
  sorry

/-- `clean_storage` unlinks loose files of indexed keys (`order` = any enumeration of them) -/
theorem done_clean {t : Tab} {s : St} (inv : Inv t s) (order : List Nat)
    (ho : ∀ k, k ∈ order ↔ (hasLoose s k = true ∧ hasRow s k = true)) :
    SameDisk (toSt (execAll (ofSt s) (actsClean s order))) (clean s) := by
  sorry

theorem safe_clean {t : Tab} (wf : t.WF) {s : St} (inv : Inv t s) (hb : Bounded s) (order : List Nat)
    (ho : ∀ k ∈ order, hasRow s k = true) : AllSafe t s (actsClean s order) (keysOf s) := by
  sorry

theorem done_delete {t : Tab} {s : St} (inv : Inv t s) (ks : List Nat) :
    SameDisk (toSt (execAll (ofSt s) (actsDelete s ks))) (delete s ks).1 := by
  sorry

/-- deleting is safe for every key that is not targeted -/
theorem safe_delete {t : Tab} (wf : t.WF) {s : St} (inv : Inv t s) (hb : Bounded s) (ks : List Nat) :
    AllSafe t s (actsDelete s ks) ((keysOf s).filter (fun k => !ks.contains k)) := by
  sorry

end Dos.IO
