/-
C16, helper level: `detect_where_sorted` classifies every element of two strictly sorted sequences exactly once and
correctly, rejects unsorted input; `chunk_iterator` partitions; the two lookup strategies of the bulk operations give
the same answer for every batch size and threshold.
-/
import Dos.Merge

namespace Dos.Merge

/-! ### `classify` unfolding lemmas -/

theorem classify_nil_left (r : List Nat) : classify [] r = r.map (fun y => (y, Loc.right)) := by
  simp [classify]

theorem classify_nil_right (l : List Nat) : classify l [] = l.map (fun x => (x, Loc.left)) := by
  cases l <;> simp [classify]

theorem classify_cons_cons (x y : Nat) (xs ys : List Nat) :
    classify (x :: xs) (y :: ys) =
      if x = y then (x, Loc.both) :: classify xs ys
      else if x < y then (x, Loc.left) :: classify xs (y :: ys)
      else (y, Loc.right) :: classify (x :: xs) ys := by
  rw [classify]

/-! ### `strictSorted` as `Pairwise` -/

theorem strictSorted_cons_cons (a b : Nat) (l : List Nat) :
    strictSorted (a :: b :: l) = (decide (a < b) && strictSorted (b :: l)) := by
  rw [strictSorted]

theorem strictSorted_iff (l : List Nat) : strictSorted l = true ↔ l.Pairwise (· < ·) := by
  induction l with
  | nil => simp [strictSorted]
  | cons a l ih =>
    cases l with
    | nil => simp [strictSorted]
    | cons b l =>
      rw [strictSorted_cons_cons, Bool.and_eq_true, ih, decide_eq_true_eq]
      rw [List.pairwise_cons (a := a)]
      constructor
      · rintro ⟨hab, hp⟩
        refine ⟨?_, hp⟩
        intro c hc
        rw [List.pairwise_cons] at hp
        rcases List.mem_cons.1 hc with rfl | hc
        · exact hab
        · exact Nat.lt_trans hab (hp.1 c hc)
      · rintro ⟨h1, hp⟩
        exact ⟨h1 b (List.mem_cons_self), hp⟩

theorem strictSorted_cons_cons_lt {a b : Nat} (h : ¬ b ≤ a) (l : List Nat) :
    strictSorted (a :: b :: l) = strictSorted (b :: l) := by
  rw [strictSorted_cons_cons]; simp [Nat.lt_of_not_le h]

theorem strictSorted_cons_cons_ge {a b : Nat} (h : b ≤ a) (l : List Nat) :
    strictSorted (a :: b :: l) = false := by
  rw [strictSorted_cons_cons]; simp; omega

theorem strictSorted_single (a : Nat) : strictSorted [a] = true := by simp [strictSorted]
theorem strictSorted_nil : strictSorted [] = true := by simp [strictSorted]

theorem classify_lt {x y : Nat} (h : x < y) (xs ys : List Nat) :
    classify (x :: xs) (y :: ys) = (x, Loc.left) :: classify xs (y :: ys) := by
  rw [classify_cons_cons]; simp [h, Nat.ne_of_lt h]

theorem classify_gt {x y : Nat} (h : y < x) (xs ys : List Nat) :
    classify (x :: xs) (y :: ys) = (y, Loc.right) :: classify (x :: xs) ys := by
  rw [classify_cons_cons]
  have h1 : ¬ x = y := by omega
  have h2 : ¬ x < y := by omega
  simp [h1, h2]

theorem classify_eq (x : Nat) (xs ys : List Nat) :
    classify (x :: xs) (x :: ys) = (x, Loc.both) :: classify xs ys := by
  rw [classify_cons_cons]; simp

/-! ### the generator's loop -/

/-- the part of the left input not yet yielded -/
def MS.L (s : MS) : List Nat := if s.lEx then [] else s.lastL :: s.restL
/-- the part of the right input not yet yielded -/
def MS.R (s : MS) : List Nat := if s.rEx then [] else s.lastR :: s.restR

/-- the generator's own invariant: the side it is looking at is not exhausted (unless both are) -/
def MS.I (s : MS) : Prop :=
  (s.lEx = true ∧ s.rEx = true) ∨ (if s.nowLeft then s.lEx = false else s.rEx = false)

/-- what one pass of the loop body does, in terms of the remaining inputs -/
def StepPost (s : MS) : (Nat × Loc) × (Except MErr MS) → Prop
  | (_, .error _) => strictSorted s.L = false ∨ strictSorted s.R = false
  | (item, .ok s') =>
      s'.I ∧ classify s.L s.R = item :: classify s'.L s'.R ∧
      strictSorted s'.L = strictSorted s.L ∧ strictSorted s'.R = strictSorted s.R ∧
      s'.L.length + s'.R.length < s.L.length + s.R.length

/-- close one fully case-split instance of the step lemma -/
local macro "step_fin" : tactic =>
  `(tactic| (simp [bodyStep, StepPost, MS.L, MS.R, MS.I, classify_nil_left, classify_nil_right, classify_eq,
      strictSorted_single, strictSorted_nil, *] <;> omega))

-- split the two `rest` lists and the two order tests on their heads
set_option hygiene false in
local macro "step_split" a:term:max b:term:max : tactic =>
  `(tactic| (
      rcases xs with _ | ⟨x, xs⟩ <;> rcases ys with _ | ⟨y, ys⟩
      · step_fin
      · by_cases hy : y ≤ $b
        · have hy' := strictSorted_cons_cons_ge hy; step_fin
        · have hy' := strictSorted_cons_cons_lt hy; step_fin
      · by_cases hx : x ≤ $a
        · have hx' := strictSorted_cons_cons_ge hx; step_fin
        · have hx' := strictSorted_cons_cons_lt hx; step_fin
      · by_cases hx : x ≤ $a <;> by_cases hy : y ≤ $b
        · have hx' := strictSorted_cons_cons_ge hx; have hy' := strictSorted_cons_cons_ge hy; step_fin
        · have hx' := strictSorted_cons_cons_ge hx; have hy' := strictSorted_cons_cons_lt hy; step_fin
        · have hx' := strictSorted_cons_cons_lt hx; have hy' := strictSorted_cons_cons_ge hy; step_fin
        · have hx' := strictSorted_cons_cons_lt hx; have hy' := strictSorted_cons_cons_lt hy; step_fin))

theorem bodyStep_post (s : MS) (hI : s.I) (hne : ¬ (s.lEx = true ∧ s.rEx = true)) :
    StepPost s (bodyStep s) := by
  obtain ⟨a, b, xs, ys, lEx, rEx, nl⟩ := s
  cases lEx <;> cases rEx <;> cases nl <;> simp [MS.I] at hI hne <;> clear hI hne
  · -- neither exhausted, looking right
    rcases Nat.lt_trichotomy a b with h | h | h
    · have h1 : ¬ b < a := by omega
      have h2 : a ≠ b := by omega
      have hc := classify_lt h
      step_split a b
    · subst h
      step_split a a
    · have h1 : ¬ a < b := by omega
      have h2 : a ≠ b := by omega
      have hc := classify_gt h
      step_split a b
  · -- neither exhausted, looking left
    rcases Nat.lt_trichotomy a b with h | h | h
    · have h1 : ¬ b < a := by omega
      have h2 : a ≠ b := by omega
      have hc := classify_lt h
      step_split a b
    · subst h
      step_split a a
    · have h1 : ¬ a < b := by omega
      have h2 : a ≠ b := by omega
      have hc := classify_gt h
      step_split a b
  · step_split a b
  · step_split a b


theorem loop_ok : ∀ (fuel : Nat) (s : MS) (acc : List (Nat × Loc)), s.I →
    strictSorted s.L = true → strictSorted s.R = true → s.L.length + s.R.length ≤ fuel →
    loop fuel s acc = (acc.reverse ++ classify s.L s.R, none) := by
  intro fuel
  induction fuel with
  | zero =>
    intro s acc _ _ _ hf
    have hL : s.L = [] := List.eq_nil_of_length_eq_zero (by omega)
    have hR : s.R = [] := List.eq_nil_of_length_eq_zero (by omega)
    simp [loop, hL, hR, classify_nil_left]
  | succ f ih =>
    intro s acc hI hl hr hf
    by_cases hne : s.lEx = true ∧ s.rEx = true
    · simp [loop, hne, MS.L, MS.R, classify_nil_left]
    · have hp := bodyStep_post s hI hne
      have hne' : (s.lEx && s.rEx) = false := by simpa using hne
      rw [loop]
      simp only [hne', Bool.false_eq_true, if_false]
      rcases hb : bodyStep s with ⟨item, e | s'⟩
      · rw [hb] at hp
        simp [StepPost, hl, hr] at hp
      · rw [hb] at hp
        obtain ⟨hI', hc, hl', hr', hlen⟩ := hp
        simp only
        rw [ih s' (item :: acc) hI' (hl'.trans hl) (hr'.trans hr) (by omega), hc]
        simp

theorem loop_err : ∀ (fuel : Nat) (s : MS) (acc : List (Nat × Loc)), s.I →
    (strictSorted s.L = false ∨ strictSorted s.R = false) → s.L.length + s.R.length ≤ fuel →
    (loop fuel s acc).2 ≠ none := by
  intro fuel
  induction fuel with
  | zero =>
    intro s acc _ h hf
    have hL : s.L = [] := List.eq_nil_of_length_eq_zero (by omega)
    have hR : s.R = [] := List.eq_nil_of_length_eq_zero (by omega)
    simp [hL, hR, strictSorted_nil] at h
  | succ f ih =>
    intro s acc hI h hf
    by_cases hne : s.lEx = true ∧ s.rEx = true
    · simp [hne, MS.L, MS.R, strictSorted_nil] at h
    · have hp := bodyStep_post s hI hne
      have hne' : (s.lEx && s.rEx) = false := by simpa using hne
      rw [loop]
      simp only [hne', Bool.false_eq_true, if_false]
      rcases hb : bodyStep s with ⟨item, e | s'⟩
      · simp
      · rw [hb] at hp
        obtain ⟨hI', hc, hl', hr', hlen⟩ := hp
        simp only
        exact ih s' (item :: acc) hI' (by rw [hl', hr']; exact h) (by omega)

/-- the state `detect` starts the loop in -/
def initMS (l r : List Nat) : MS :=
  { lastL := l.headD 0, lastR := r.headD 0, restL := l.tail, restR := r.tail, lEx := l.isEmpty, rEx := r.isEmpty,
    nowLeft := !(l.isEmpty || (!r.isEmpty && l.headD 0 > r.headD 0)) }

theorem detect_eq_loop (l r : List Nat) : detect l r = loop (l.length + r.length + 1) (initMS l r) [] := by
  cases l <;> cases r <;> simp [detect, initMS, loop]

theorem initMS_L (l r : List Nat) : (initMS l r).L = l := by
  cases l <;> simp [initMS, MS.L]

theorem initMS_R (l r : List Nat) : (initMS l r).R = r := by
  cases r <;> simp [initMS, MS.R]

theorem initMS_I (l r : List Nat) : (initMS l r).I := by
  cases l <;> cases r <;> simp [initMS, MS.I]

/-- on strictly sorted unique inputs the generator terminates without error and yields exactly the two-pointer
    classification -/
theorem detect_spec (l r : List Nat) (hl : strictSorted l = true) (hr : strictSorted r = true) :
    detect l r = (classify l r, none) := by
  rw [detect_eq_loop, loop_ok _ _ _ (initMS_I l r)]
  · simp [initMS_L, initMS_R]
  · rw [initMS_L]; exact hl
  · rw [initMS_R]; exact hr
  · rw [initMS_L, initMS_R]; omega

/-- any adjacent non-increasing pair on either side ends in the error (the generator runs to the end of both) -/
theorem detect_rejects (l r : List Nat) (h : strictSorted l = false ∨ strictSorted r = false) :
    (detect l r).2 ≠ none := by
  rw [detect_eq_loop]
  apply loop_err _ _ _ (initMS_I l r)
  · rw [initMS_L, initMS_R]; exact h
  · rw [initMS_L, initMS_R]; omega

/-! ### the specification `classify` -/

theorem mem_classify_cases {l r : List Nat} {x : Nat}
    (hb : ∀ x, (x, Loc.both) ∈ classify l r ↔ (x ∈ l ∧ x ∈ r))
    (hlft : ∀ x, (x, Loc.left) ∈ classify l r ↔ (x ∈ l ∧ x ∉ r))
    (hrt : ∀ x, (x, Loc.right) ∈ classify l r ↔ (x ∉ l ∧ x ∈ r))
    (h : x ∈ (classify l r).map (·.1)) : x ∈ l ∨ x ∈ r := by
  rw [List.mem_map] at h
  obtain ⟨⟨y, loc⟩, hm, rfl⟩ := h
  cases loc
  · exact Or.inl ((hlft y).1 hm).1
  · exact Or.inl ((hb y).1 hm).1
  · exact Or.inr ((hrt y).1 hm).2

theorem classify_spec_pw (l r : List Nat) (hl : l.Pairwise (· < ·)) (hr : r.Pairwise (· < ·)) :
    ((classify l r).map (·.1)).Pairwise (· < ·) ∧
    (∀ x, (x, Loc.both) ∈ classify l r ↔ (x ∈ l ∧ x ∈ r)) ∧
    (∀ x, (x, Loc.left) ∈ classify l r ↔ (x ∈ l ∧ x ∉ r)) ∧
    (∀ x, (x, Loc.right) ∈ classify l r ↔ (x ∉ l ∧ x ∈ r)) := by
  fun_induction classify l r with
  | case1 r =>
    refine ⟨?_, ?_, ?_, ?_⟩
    · simpa [Function.comp_def] using hr
    all_goals simp
  | case2 l hne =>
    refine ⟨?_, ?_, ?_, ?_⟩
    · simpa [Function.comp_def] using hl
    all_goals simp
  | case3 x xs ys ih =>
    rw [List.pairwise_cons] at hl hr
    obtain ⟨ihp, ihb, ihl, ihr⟩ := ih hl.2 hr.2
    have hmem := fun z => mem_classify_cases (x := z) ihb ihl ihr
    refine ⟨?_, ?_, ?_, ?_⟩
    · simp only [List.map_cons, List.pairwise_cons]
      refine ⟨fun z hz => ?_, ihp⟩
      rcases hmem z hz with h | h
      · exact hl.1 z h
      · exact hr.1 z h
    · intro z; simp [ihb]; grind
    · intro z; simp [ihl]; grind
    · intro z; simp [ihr]; grind
  | case4 x xs y ys hxy hlt ih =>
    rw [List.pairwise_cons] at hl
    obtain ⟨ihp, ihb, ihl, ihr⟩ := ih hl.2 hr
    have hmem := fun z => mem_classify_cases (x := z) ihb ihl ihr
    rw [List.pairwise_cons] at hr
    refine ⟨?_, ?_, ?_, ?_⟩
    · simp only [List.map_cons, List.pairwise_cons]
      refine ⟨fun z hz => ?_, ihp⟩
      rcases hmem z hz with h | h
      · exact hl.1 z h
      · rcases List.mem_cons.1 h with rfl | h
        · exact hlt
        · exact Nat.lt_trans hlt (hr.1 z h)
    · intro z; simp [ihb]; grind
    · intro z; simp [ihl]; grind
    · intro z; simp [ihr]; grind
  | case5 x xs y ys hxy hlt ih =>
    have hgt : y < x := by omega
    rw [List.pairwise_cons] at hr
    obtain ⟨ihp, ihb, ihl, ihr⟩ := ih hl hr.2
    have hmem := fun z => mem_classify_cases (x := z) ihb ihl ihr
    rw [List.pairwise_cons] at hl
    refine ⟨?_, ?_, ?_, ?_⟩
    · simp only [List.map_cons, List.pairwise_cons]
      refine ⟨fun z hz => ?_, ihp⟩
      rcases hmem z hz with h | h
      · rcases List.mem_cons.1 h with rfl | h
        · exact hgt
        · exact Nat.lt_trans hgt (hl.1 z h)
      · exact hr.1 z h
    · intro z; simp [ihb]; grind
    · intro z; simp [ihl]; grind
    · intro z; simp [ihr]; grind

/-- the classification lists every element of either side exactly once, in increasing order, with the right tag -/
theorem classify_spec (l r : List Nat) (hl : strictSorted l = true) (hr : strictSorted r = true) :
    strictSorted ((classify l r).map (·.1)) = true ∧
    (∀ x, (x, Loc.both) ∈ classify l r ↔ (x ∈ l ∧ x ∈ r)) ∧
    (∀ x, (x, Loc.left) ∈ classify l r ↔ (x ∈ l ∧ x ∉ r)) ∧
    (∀ x, (x, Loc.right) ∈ classify l r ↔ (x ∉ l ∧ x ∈ r)) := by
  rw [strictSorted_iff] at hl hr ⊢
  exact classify_spec_pw l r hl hr

/-- `merge_sorted` yields the sorted union -/
theorem mergeSorted_spec (l r : List Nat) (hl : strictSorted l = true) (hr : strictSorted r = true) :
    (mergeSorted l r).2 = none ∧ strictSorted (mergeSorted l r).1 = true ∧
    ∀ x, x ∈ (mergeSorted l r).1 ↔ (x ∈ l ∨ x ∈ r) := by
  obtain ⟨hs, hb, hlft, hrt⟩ := classify_spec l r hl hr
  have hm : mergeSorted l r = ((classify l r).map (·.1), none) := by
    simp [mergeSorted, detect_spec l r hl hr]
  rw [hm]
  refine ⟨rfl, hs, fun x => ⟨fun h => mem_classify_cases hb hlft hrt h, fun h => ?_⟩⟩
  simp only [List.mem_map]
  by_cases hxl : x ∈ l <;> by_cases hxr : x ∈ r
  · exact ⟨(x, Loc.both), (hb x).2 ⟨hxl, hxr⟩, rfl⟩
  · exact ⟨(x, Loc.left), (hlft x).2 ⟨hxl, hxr⟩, rfl⟩
  · exact ⟨(x, Loc.right), (hrt x).2 ⟨hxl, hxr⟩, rfl⟩
  · rcases h with h | h <;> contradiction

/-! ### `chunk_iterator` -/

theorem chunks_spec (n : Nat) (hn : 0 < n) : ∀ (f : Nat) (l : List Nat), l.length ≤ f →
    (chunks n f l).flatten = l ∧ ∀ c ∈ chunks n f l, c ≠ [] ∧ c.length ≤ n := by
  intro f
  induction f with
  | zero =>
    intro l hf
    have : l = [] := List.eq_nil_of_length_eq_zero (by omega)
    subst this
    simp [chunks]
  | succ f ih =>
    intro l hf
    cases l with
    | nil => simp [chunks]
    | cons a l =>
      have hlen : ((a :: l).drop n).length ≤ f := by
        rw [List.length_drop]; simp only [List.length_cons] at hf ⊢; omega
      obtain ⟨ih1, ih2⟩ := ih ((a :: l).drop n) hlen
      rw [chunks.eq_3 n (a :: l) f (by simp)]
      refine ⟨?_, ?_⟩
      · rw [List.flatten_cons, ih1, List.take_append_drop]
      · intro c hc
        rcases List.mem_cons.1 hc with rfl | hc
        · refine ⟨?_, ?_⟩
          · intro h
            have := congrArg List.length h
            rw [List.length_take] at this
            simp only [List.length_cons, List.length_nil] at this
            omega
          · rw [List.length_take]; omega
        · exact ih2 c hc

/-- `chunk_iterator` is a partition into non-empty chunks of at most `n` elements -/
theorem chunkIter_spec (n : Nat) (hn : 0 < n) (l : List Nat) :
    (chunkIter n l).flatten = l ∧ ∀ c ∈ chunkIter n l, c ≠ [] ∧ c.length ≤ n := by
  have hn' : n ≠ 0 := by omega
  simp only [chunkIter, hn', if_false]
  exact chunks_spec n hn l.length l (Nat.le_refl _)

/-! ### the two lookup strategies -/

theorem mem_insSorted (x y : Nat) (l : List Nat) : y ∈ insSorted x l ↔ y = x ∨ y ∈ l := by
  induction l with
  | nil => simp [insSorted]
  | cons a l ih =>
    rw [insSorted]
    split
    · simp
    · simp [ih]; grind

theorem insSorted_pw (x : Nat) (l : List Nat) (hl : l.Pairwise (· < ·)) (hx : x ∉ l) :
    (insSorted x l).Pairwise (· < ·) := by
  induction l with
  | nil => simp [insSorted]
  | cons a l ih =>
    rw [List.pairwise_cons] at hl
    rw [insSorted]
    split
    · rename_i hle
      have hne : x ≠ a := fun h => hx (h ▸ List.mem_cons_self)
      have hlt : x < a := by omega
      rw [List.pairwise_cons, List.pairwise_cons]
      refine ⟨fun z hz => ?_, hl⟩
      rcases List.mem_cons.1 hz with rfl | hz
      · exact hlt
      · exact Nat.lt_trans hlt (hl.1 z hz)
    · rename_i hle
      rw [List.pairwise_cons]
      refine ⟨fun z hz => ?_, ih hl.2 (fun h => hx (List.mem_cons_of_mem _ h))⟩
      rcases (mem_insSorted x z l).1 hz with rfl | hz
      · omega
      · exact hl.1 z hz

theorem mem_sortNats (y : Nat) (l : List Nat) : y ∈ sortNats l ↔ y ∈ l := by
  induction l with
  | nil => simp [sortNats]
  | cons a l ih =>
    have : sortNats (a :: l) = insSorted a (sortNats l) := rfl
    rw [this, mem_insSorted, ih, List.mem_cons]

theorem sortNats_pw (l : List Nat) (hl : l.Nodup) : (sortNats l).Pairwise (· < ·) := by
  induction l with
  | nil => simp [sortNats]
  | cons a l ih =>
    have : sortNats (a :: l) = insSorted a (sortNats l) := rfl
    rw [List.nodup_cons] at hl
    rw [this]
    exact insSorted_pw a _ (ih hl.2) (fun h => hl.1 ((mem_sortNats a l).1 h))

theorem nodup_flatMap_filter (idx : List Nat) (hi : idx.Nodup) : ∀ (cs : List (List Nat)), cs.flatten.Nodup →
    (cs.flatMap (fun ch => idx.filter (fun k => ch.contains k))).Nodup := by
  intro cs
  induction cs with
  | nil => simp
  | cons c cs ih =>
    intro h
    rw [List.flatten_cons, List.nodup_append] at h
    obtain ⟨_, h2, h3⟩ := h
    rw [List.flatMap_cons, List.nodup_append]
    refine ⟨hi.filter _, ih h2, ?_⟩
    intro a ha b hb
    rw [List.mem_filter] at ha
    rw [List.mem_flatMap] at hb
    obtain ⟨ch, hch, hb⟩ := hb
    rw [List.mem_filter] at hb
    apply h3 a (by simpa using ha.2) b
    rw [List.mem_flatten]
    exact ⟨ch, hch, by simpa using hb.2⟩

/-- whatever the IN-batch size and the scan threshold, the bulk lookup finds exactly the requested keys that are
    indexed, each once -/
theorem bulkFind_spec (idx req : List Nat) (hi : idx.Nodup) (hr : req.Nodup) (inMax scanMax : Nat) (hin : 0 < inMax) :
    (bulkFind idx req inMax scanMax).Nodup ∧ ∀ k, k ∈ bulkFind idx req inMax scanMax ↔ (k ∈ idx ∧ k ∈ req) := by
  rw [bulkFind]
  split
  · obtain ⟨hflat, _⟩ := chunkIter_spec inMax hin req
    refine ⟨nodup_flatMap_filter idx hi _ (by rw [hflat]; exact hr), fun k => ?_⟩
    have hk : k ∈ req ↔ k ∈ (chunkIter inMax req).flatten := by rw [hflat]
    rw [hk]
    simp only [List.mem_flatMap, List.mem_filter, List.mem_flatten, List.contains_iff_mem]
    constructor
    · rintro ⟨ch, hch, hki, hkc⟩
      exact ⟨hki, ch, hch, hkc⟩
    · rintro ⟨hki, ch, hch, hkc⟩
      exact ⟨ch, hch, hki, hkc⟩
  · have hsi := sortNats_pw idx hi
    have hsr := sortNats_pw req hr
    have hsi' := (strictSorted_iff _).2 hsi
    have hsr' := (strictSorted_iff _).2 hsr
    rw [detect_spec _ _ hsi' hsr']
    obtain ⟨hp, hb, _, _⟩ := classify_spec_pw _ _ hsi hsr
    refine ⟨?_, fun k => ?_⟩
    · have hsub : (((classify (sortNats idx) (sortNats req)).filter (fun it => it.2 == Loc.both)).map (·.1)).Sublist
          ((classify (sortNats idx) (sortNats req)).map (·.1)) := (List.filter_sublist).map _
      exact (hp.imp (fun h => Nat.ne_of_lt h)).sublist hsub
    · simp only [List.mem_map, List.mem_filter]
      rw [← mem_sortNats k idx, ← mem_sortNats k req, ← hb k]
      constructor
      · rintro ⟨⟨a, loc⟩, ⟨hm, hloc⟩, rfl⟩
        have : loc = Loc.both := by simpa using hloc
        subst this
        exact hm
      · intro hm
        exact ⟨(k, Loc.both), ⟨hm, by simp⟩, rfl⟩

end Dos.Merge
