/-
`validate` reports nothing on a state satisfying the invariant (first half of C12).
-/
import Dos.Proofs.Read

namespace Dos

/-! ### insertion sort by `rowBefore` -/

/-- the non-strict order of which `rowBefore` is the strict part -/
def rowLe (a b : Row) : Prop := a.off < b.off ∨ (a.off = b.off ∧ a.id ≤ b.id)

theorem rowLe_of_rowBefore {a b : Row} (h : rowBefore a b = true) : rowLe a b := by
  simp only [rowBefore, Bool.or_eq_true, Bool.and_eq_true, decide_eq_true_eq, beq_iff_eq] at h
  unfold rowLe
  omega

theorem rowLe_of_not_rowBefore {a b : Row} (h : ¬ rowBefore a b = true) : rowLe b a := by
  simp only [rowBefore, Bool.or_eq_true, Bool.and_eq_true, decide_eq_true_eq, beq_iff_eq] at h
  unfold rowLe
  omega

theorem rowLe_trans {a b c : Row} (h1 : rowLe a b) (h2 : rowLe b c) : rowLe a c := by
  unfold rowLe at *
  omega

theorem insByOff_perm (r : Row) (l : List Row) : (insByOff r l).Perm (r :: l) := by
  induction l with
  | nil => exact List.Perm.refl _
  | cons x xs ih =>
    simp only [insByOff]
    split
    · exact List.Perm.refl _
    · exact (List.Perm.cons x ih).trans (List.Perm.swap r x xs)

theorem sortByOff_perm (l : List Row) : (sortByOff l).Perm l := by
  induction l with
  | nil => exact List.Perm.refl _
  | cons r rs ih =>
    simp only [sortByOff]
    exact (insByOff_perm r _).trans (List.Perm.cons r ih)

theorem insByOff_sorted (r : Row) (l : List Row) (h : l.Pairwise rowLe) : (insByOff r l).Pairwise rowLe := by
  induction l with
  | nil => simp [insByOff]
  | cons x xs ih =>
    rw [List.pairwise_cons] at h
    obtain ⟨hx, hxs⟩ := h
    simp only [insByOff]
    split
    · rename_i hb
      have hrx := rowLe_of_rowBefore hb
      rw [List.pairwise_cons]
      refine ⟨?_, List.pairwise_cons.mpr ⟨hx, hxs⟩⟩
      intro y hy
      rcases List.mem_cons.mp hy with hy | hy
      · subst hy; exact hrx
      · exact rowLe_trans hrx (hx y hy)
    · rename_i hb
      have hxr := rowLe_of_not_rowBefore hb
      rw [List.pairwise_cons]
      refine ⟨?_, ih hxs⟩
      intro y hy
      have hy' := (insByOff_perm r xs).mem_iff.mp hy
      rcases List.mem_cons.mp hy' with hy' | hy'
      · subst hy'; exact hxr
      · exact hx y hy'

theorem sortByOff_sorted (l : List Row) : (sortByOff l).Pairwise rowLe := by
  induction l with
  | nil => simp [sortByOff]
  | cons r rs ih =>
    simp only [sortByOff]
    exact insByOff_sorted r _ ih

/-! ### no overlaps -/

theorem overlapsGo_nil_of_pairwise (l : List Row) (pos : Nat)
    (hp : l.Pairwise (fun a b => a.off + a.len ≤ b.off)) (hpos : ∀ r ∈ l, pos ≤ r.off) :
    overlapsGo l pos = [] := by
  induction l generalizing pos with
  | nil => rfl
  | cons r rs ih =>
    rw [List.pairwise_cons] at hp
    obtain ⟨hr, hrs⟩ := hp
    have h1 : ¬ r.off < pos := by
      have := hpos r (List.mem_cons_self ..)
      omega
    simp only [overlapsGo, if_neg h1, List.nil_append]
    exact ih _ hrs hr

theorem sorted_pack_disjoint {t : Tab} {s : St} (inv : Inv t s) (p : Nat) :
    (sortByOff (rowsOfPack s.rows p)).Pairwise (fun a b => a.off + a.len ≤ b.off) := by
  have hperm := sortByOff_perm (rowsOfPack s.rows p)
  have hsorted := sortByOff_sorted (rowsOfPack s.rows p)
  -- ids are pairwise distinct in the sorted list
  have hids : ((sortByOff (rowsOfPack s.rows p)).map (·.id)).Nodup := by
    refine (List.Perm.nodup_iff (hperm.map _)).mpr ?_
    exact List.Nodup.sublist (List.Sublist.map _ List.filter_sublist) inv.ids_nodup
  have hne : (sortByOff (rowsOfPack s.rows p)).Pairwise (fun a b => a.id ≠ b.id) := by
    have := hids
    unfold List.Nodup at this
    rw [List.pairwise_map] at this
    exact this
  have hboth := List.Pairwise.and hsorted hne
  have hmem : ∀ r ∈ sortByOff (rowsOfPack s.rows p), r ∈ s.rows ∧ r.pack = p := by
    intro r hr
    have := hperm.mem_iff.mp hr
    simp only [rowsOfPack, List.mem_filter, beq_iff_eq] at this
    exact this
  refine List.Pairwise.imp_of_mem ?_ hboth
  intro a b ha hb hab
  obtain ⟨hle, hid⟩ := hab
  obtain ⟨ha1, ha2⟩ := hmem a ha
  obtain ⟨hb1, hb2⟩ := hmem b hb
  have hpk : a.pack = b.pack := by rw [ha2, hb2]
  unfold rowLe at hle
  rcases Nat.lt_or_gt_of_ne hid with h | h
  · exact inv.ids_pos a ha1 b hb1 hpk h
  · have := inv.ids_pos b hb1 a ha1 hpk.symm h
    omega

theorem overlaps_nil {t : Tab} {s : St} (inv : Inv t s) (p : Nat) :
    overlapsGo (sortByOff (rowsOfPack s.rows p)) 0 = [] :=
  overlapsGo_nil_of_pairwise _ 0 (sorted_pack_disjoint inv p) (fun _ _ => Nat.zero_le _)

theorem validate_clean {t : Tab} (wf : t.WF) {s : St} (inv : Inv t s) : (validate t s).clean = true := by
  have hread : ∀ r ∈ s.rows, readRow t s r = some r.key := fun r hr => readRow_of_rowOK wf (inv.rows_ok r hr)
  have h1 : (s.loose.filter (fun e => e.1 != e.2)).map (·.1) = [] := by
    rw [List.map_eq_nil_iff, List.filter_eq_nil_iff]
    intro e he
    simp [inv.loose_ok e he]
  have h2 : (s.rows.filter (fun r => readRow t s r != some r.key)).map (·.key) = [] := by
    rw [List.map_eq_nil_iff, List.filter_eq_nil_iff]
    intro r hr
    simp [hread r hr]
  have h4 : (dedup (s.rows.map (·.pack))).flatMap (fun p => overlapsGo (sortByOff (rowsOfPack s.rows p)) 0) = [] := by
    rw [List.flatMap_eq_nil_iff]
    intro p _
    exact overlaps_nil inv p
  simp only [Issues.clean, validate, h1, h2, h4, List.isEmpty_nil, Bool.true_and, Bool.and_true,
    List.isEmpty_iff, List.map_eq_nil_iff, List.filter_eq_nil_iff]
  intro r hr
  obtain ⟨_, _, _, _, _, _, _, hsz⟩ := inv.rows_ok r hr
  simp [hread r hr, hsz]

end Dos
