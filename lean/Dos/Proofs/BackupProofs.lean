/-
C15: a backup that completes while writers add loose objects and the packer packs and cleans is itself a valid container:
everything that existed when it started reads back correctly from it, every key it exposes reads back correctly, and its
validation is clean - for every placement of the concurrent steps, provided the live SQLite side files are not copied.
-/
/-
A note on `backup_reads`.  `readFresh` answers `.loud` for a row whose pack id is the reserved id `tmpId` (the model's
name for the temporary repack pack `-1`); `Inv`, `Bounded` and the packer discipline do not by themselves exclude a
pack with that id (witness: `backup_reads_needs_noTmp_witness`).  Hence:
  * `backup_reads`: every object that existed at the start reads back, and no key reads as anything but itself or
    missing - under the hypothesis that no row of the backup's index names the reserved pack id (pack ids of a real
    container are small naturals; no repack runs during a backup in C15's scenario);
  * `backup_reads_safe`: without that hypothesis, the same with `.loud` allowed (`SafeImg`, the shape of C05/C06/C17);
    `backup_reads_loud_only_tmp`: a `.loud` answer can only come from a row whose pack id is `tmpId`.
-/
import Dos.Backup
import Dos.IOSpec
import Dos.Proofs.ConcAux
import Dos.Proofs.ConcProofs
import Dos.Proofs.Validate
import Dos.Proofs.BackupAux

namespace Dos.Backup
open Dos Dos.IO Dos.Conc

/-- the invariant at the end of a disciplined run without a copy of the live side files -/
theorem binv_final {t : Tab} (wf : t.WF) {s : St} (inv : Inv t s) (wkeys rkeys : List Nat) (sched : List BEv)
    (hd : bdisciplined t (BSt.init (CSt.init s wkeys rkeys)) sched = true) (hnw : noWal sched = true) :
    BInv t (brun t (BSt.init (CSt.init s wkeys rkeys)) sched) :=
  binv_brun sched _ (binv_init wf inv wkeys rkeys) hd hnw

/-- every object that existed when the backup started reads back from the backup, and the backup exposes no key that
    reads as anything but itself - provided the backup's index does not name the reserved pack id `tmpId`
    (the statement without that proviso is false: see the comment at the top of the file and `backup_reads_needs_noTmp_witness`) -/
theorem backup_reads {t : Tab} (wf : t.WF) {s : St} (inv : Inv t s) (hb : Bounded s) (wkeys rkeys : List Nat)
    (hw : ∀ k ∈ wkeys, k < garbage) (sched : List BEv)
    (hd : bdisciplined t (BSt.init (CSt.init s wkeys rkeys)) sched = true) (hnw : noWal sched = true)
    (hdone : (brun t (BSt.init (CSt.init s wkeys rkeys)) sched).phase = 3)
    (hnt : ∀ r ∈ (brun t (BSt.init (CSt.init s wkeys rkeys)) sched).bkRows, r.pack ≠ tmpId) :
    (∀ k ∈ (brun t (BSt.init (CSt.init s wkeys rkeys)) sched).atStart,
        readFresh t (image (brun t (BSt.init (CSt.init s wkeys rkeys)) sched)) k = .ok k) ∧
    (∀ k, k < garbage →
        readFresh t (image (brun t (BSt.init (CSt.init s wkeys rkeys)) sched)) k = .ok k ∨
        readFresh t (image (brun t (BSt.init (CSt.init s wkeys rkeys)) sched)) k = .missing) := by
  have _ := hb
  have _ := hw
  have B := binv_final wf inv wkeys rkeys sched hd hnw
  constructor
  · intro k hk
    rcases readFresh_image B hdone k with h | ⟨_, r, hr, _, ht⟩ | ⟨_, h⟩
    · exact h
    · exact absurd ht (hnt r hr)
    · exact absurd hk h
  · intro k _
    rcases readFresh_image B hdone k with h | ⟨_, r, hr, _, ht⟩ | ⟨h, _⟩
    · exact Or.inl h
    · exact absurd ht (hnt r hr)
    · exact Or.inr h

/-- without the proviso: the same with the loud failure (`AssertionError: Invalid pack ID -1`) allowed, in the shape of
    the crash-safety statements (`SafeImg`) -/
theorem backup_reads_safe {t : Tab} (wf : t.WF) {s : St} (inv : Inv t s) (hb : Bounded s)
    (wkeys rkeys : List Nat) (hw : ∀ k ∈ wkeys, k < garbage) (sched : List BEv)
    (hd : bdisciplined t (BSt.init (CSt.init s wkeys rkeys)) sched = true) (hnw : noWal sched = true)
    (hdone : (brun t (BSt.init (CSt.init s wkeys rkeys)) sched).phase = 3) :
    SafeImg t (image (brun t (BSt.init (CSt.init s wkeys rkeys)) sched))
      (brun t (BSt.init (CSt.init s wkeys rkeys)) sched).atStart := by
  have _ := hb
  have _ := hw
  have B := binv_final wf inv wkeys rkeys sched hd hnw
  constructor
  · intro k hk
    rcases readFresh_image B hdone k with h | ⟨h, _⟩ | ⟨_, h⟩
    · exact Or.inl h
    · exact Or.inr h
    · exact absurd hk h
  · intro k _
    rcases readFresh_image B hdone k with h | ⟨h, _⟩ | ⟨h, _⟩
    · exact Or.inl h
    · exact Or.inr (Or.inr h)
    · exact Or.inr (Or.inl h)

/-- the loud answer comes only from a row of the backup's index that names the reserved pack id -/
theorem backup_reads_loud_only_tmp {t : Tab} (wf : t.WF) {s : St} (inv : Inv t s) (wkeys rkeys : List Nat)
    (sched : List BEv)
    (hd : bdisciplined t (BSt.init (CSt.init s wkeys rkeys)) sched = true) (hnw : noWal sched = true)
    (hdone : (brun t (BSt.init (CSt.init s wkeys rkeys)) sched).phase = 3) (k : Nat)
    (hl : readFresh t (image (brun t (BSt.init (CSt.init s wkeys rkeys)) sched)) k = .loud) :
    ∃ r ∈ (brun t (BSt.init (CSt.init s wkeys rkeys)) sched).bkRows, r.key = k ∧ r.pack = tmpId := by
  have B := binv_final wf inv wkeys rkeys sched hd hnw
  rcases readFresh_image B hdone k with h | ⟨_, h⟩ | ⟨h, _⟩
  · rw [hl] at h; cases h
  · exact h
  · rw [hl] at h; cases h

/-- the backup is structurally a container (`Inv`), hence its validation is clean -/
theorem backup_valid {t : Tab} (wf : t.WF) {s : St} (inv : Inv t s) (hb : Bounded s) (wkeys rkeys : List Nat)
    (hw : ∀ k ∈ wkeys, k < garbage) (sched : List BEv)
    (hd : bdisciplined t (BSt.init (CSt.init s wkeys rkeys)) sched = true) (hnw : noWal sched = true)
    (hdone : (brun t (BSt.init (CSt.init s wkeys rkeys)) sched).phase = 3) :
    Inv t (image (brun t (BSt.init (CSt.init s wkeys rkeys)) sched)) ∧
    (validate t (image (brun t (BSt.init (CSt.init s wkeys rkeys)) sched))).clean = true := by
  have _ := hb
  have _ := hw
  have I := inv_image (binv_final wf inv wkeys rkeys sched hd hnw) hdone
  exact ⟨I, validate_clean wf I⟩

/-! ### concrete witnesses -/

/-- all contents have length 1, all zlib streams length 9 -/
def witTab : Tab := { size := fun _ => 1, zlen := fun _ => 9 }

theorem witTab_wf : witTab.WF :=
  ⟨fun _ => by show 0 < 9; decide, fun a b h => by simp [witTab] at h⟩

def witRow (key pack : Nat) : Row := { id := 1, key := key, pack := pack, off := 0, len := 1, z := false, size := 1 }

/-- one packed object `key` in pack `pack`, and the given loose objects -/
def witSt (key pack : Nat) (loose : List (Nat × Nat)) : St :=
  { loose := loose, packs := [(pack, [⟨key, false⟩])], rows := [witRow key pack], cur := 0, target := 100 }

theorem witSt_inv (key pack : Nat) (loose : List (Nat × Nat)) (h1 : (loose.map (·.1)).Nodup)
    (h2 : ∀ e ∈ loose, e.1 = e.2) : Inv witTab (witSt key pack loose) where
  rows_ok := by
    intro r hr
    have : r = witRow key pack := by simpa [witSt] using hr
    subst this
    exact ⟨[⟨key, false⟩], [], [], by simp [witSt, witRow, getPack], rfl, rfl, rfl, rfl⟩
  keys_nodup := by simp [witSt]
  ids_nodup := by simp [witSt]
  ids_pos := by
    intro r1 hr1 r2 hr2 _ hlt
    have e1 : r1 = witRow key pack := by simpa [witSt] using hr1
    have e2 : r2 = witRow key pack := by simpa [witSt] using hr2
    subst e1 e2
    exact absurd hlt (Nat.lt_irrefl _)
  packs_nodup := by simp [witSt]
  loose_nodup := h1
  loose_ok := h2
  target_pos := by show 0 < 100; decide

/-- the counterexample to the original `backup_reads`: a row in the reserved pack id reads `.loud` from the backup
    (all hypotheses of the original statement hold, both conjuncts of its conclusion fail for `k = 5`) -/
theorem backup_reads_needs_noTmp_witness : ∃ (t : Tab) (s : St) (sched : List BEv), t.WF ∧ Inv t s ∧ Bounded s ∧
    bdisciplined t (BSt.init (CSt.init s [] [])) sched = true ∧ noWal sched = true ∧
    (brun t (BSt.init (CSt.init s [] [])) sched).phase = 3 ∧
    ∃ k, k ∈ (brun t (BSt.init (CSt.init s [] [])) sched).atStart ∧ k < garbage ∧
      readFresh t (image (brun t (BSt.init (CSt.init s [] [])) sched)) k = .loud := by
  refine ⟨witTab, witSt 5 tmpId [], [.start, .dumpIndex, .cpPack tmpId, .finish], witTab_wf,
    witSt_inv 5 tmpId [] List.nodup_nil (by intro e he; cases he), ?_, by decide, by decide, by decide,
    5, by decide, by decide, by decide⟩
  intro k hk
  have : k = 5 := by simpa [has, hasRow, hasLoose, rowKeys, looseKeys, witSt, witRow] using hk
  subst this
  decide

/-- the schedule of `wal_copy_breaks_backup`: pack 0 is copied, then the packer appends object 5 to it and commits, then
    the live side files are copied -/
def walSched : List BEv :=
  [.start, .cpLoose 5, .dumpIndex, .cpPack 0,
   .sys (.pk (.pkWrite 0 ⟨5, false⟩)), .sys (.pk (.pkFlush 0)),
   .sys (.pk (.sqlInsert { id := 0, key := 5, pack := 0, off := 1, len := 1, z := false, size := 1 })),
   .sys (.pk .sqlCommit), .walCopied, .finish]

/-- why the exclusion of the live side files matters: a schedule in which they are copied and the backup is NOT consistent -/
theorem wal_copy_breaks_backup : ∃ (t : Tab) (s : St) (sched : List BEv), t.WF ∧ Inv t s ∧ Bounded s ∧
    bdisciplined t (BSt.init (CSt.init s [] [])) sched = true ∧
    (brun t (BSt.init (CSt.init s [] [])) sched).phase = 3 ∧
    ∃ k, k < garbage ∧ readFresh t (image (brun t (BSt.init (CSt.init s [] [])) sched)) k = .wrong := by
  refine ⟨witTab, witSt 3 0 [(5, 5)], walSched, witTab_wf,
    witSt_inv 3 0 [(5, 5)] (by simp) (by intro e he; simp at he; subst he; rfl), ?_, by decide, by decide,
    5, by decide, by decide⟩
  intro k hk
  have : k = 3 ∨ k = 5 := by simpa [has, hasRow, hasLoose, rowKeys, looseKeys, witSt, witRow] using hk
  rcases this with rfl | rfl <;> decide

end Dos.Backup
