/-
Batch sizes cannot matter: the batched computations of `pack_all_loose`, `clean_storage` and `delete_objects` are the
Level-B operations, for every state satisfying the invariant, every batch size > 0 and every scan threshold.
-/
import Dos.Batch
import Dos.Inv
import Dos.Proofs.MergeProofs

namespace Dos.Batch
open Dos Dos.Merge

/-! ### helpers -/

theorem eraseDups_nodup_aux (n : Nat) : ∀ l : List Nat, l.length ≤ n → l.eraseDups.Nodup := by
  induction n with
  | zero =>
    intro l hl
    have : l = [] := List.length_eq_zero_iff.mp (by omega)
    subst this
    simp
  | succ n ih =>
    intro l hl
    cases l with
    | nil => simp
    | cons a as =>
      rw [List.eraseDups_cons, List.nodup_cons]
      constructor
      · rw [List.mem_eraseDups]
        simp
      · apply ih
        have := List.length_filter_le (fun b => !b == a) as
        simp only [List.length_cons] at hl
        omega

theorem eraseDups_nodup (l : List Nat) : l.eraseDups.Nodup := eraseDups_nodup_aux l.length l (Nat.le_refl _)

/-- two Boolean values that are `true` under equivalent conditions are equal -/
theorem bool_eq_of_iff {a b : Bool} (h : a = true ↔ b = true) : a = b := by
  cases a <;> cases b <;> simp_all

/-- what the index reports among the loose keys: exactly the loose keys that are indexed -/
theorem mem_packedAmong {t : Tab} {s : St} (inv : Inv t s) (inMax scanMax : Nat) (hin : 0 < inMax) (k : Nat) :
    k ∈ packedAmong s inMax scanMax ↔ (k ∈ rowKeys s ∧ k ∈ looseKeys s) :=
  (bulkFind_spec (rowKeys s) (looseKeys s) inv.keys_nodup inv.loose_nodup inMax scanMax hin).2 k

theorem packedAmong_contains {t : Tab} {s : St} (inv : Inv t s) (inMax scanMax : Nat) (hin : 0 < inMax) (k : Nat)
    (hk : k ∈ looseKeys s) : (packedAmong s inMax scanMax).contains k = hasRow s k := by
  apply bool_eq_of_iff
  rw [List.contains_iff_mem, mem_packedAmong inv inMax scanMax hin, hasRow, List.contains_iff_mem]
  exact ⟨fun h => h.1, fun h => ⟨h, hk⟩⟩

/-- the chunked `IN` queries of `delete_objects` find exactly the requested keys that are indexed -/
theorem mem_deletedPacked (s : St) (ks : List Nat) (inMax : Nat) (hin : 0 < inMax) (k : Nat) :
    k ∈ deletedPacked s ks inMax ↔ (k ∈ rowKeys s ∧ k ∈ ks) := by
  have hspec := (chunkIter_spec inMax hin ks).1
  unfold deletedPacked
  simp only [List.mem_flatMap, List.mem_filter, List.contains_iff_mem]
  constructor
  · rintro ⟨ch, hch, hk, hkc⟩
    refine ⟨hk, ?_⟩
    rw [← hspec]
    exact List.mem_flatten.mpr ⟨ch, hch, hkc⟩
  · rintro ⟨hk, hks⟩
    rw [← hspec] at hks
    obtain ⟨ch, hch, hkc⟩ := List.mem_flatten.mp hks
    exact ⟨ch, hch, hk, hkc⟩

/-! ### the theorems -/

theorem packTargets_eq {t : Tab} {s : St} (inv : Inv t s) (inMax scanMax : Nat) (hin : 0 < inMax) :
    packTargets s inMax scanMax = toPack s := by
  unfold packTargets toPack
  apply List.filter_congr
  intro k hk
  rw [packedAmong_contains inv inMax scanMax hin k hk]

theorem cleanBatched_eq {t : Tab} {s : St} (inv : Inv t s) (inMax scanMax : Nat) (hin : 0 < inMax) :
    cleanBatched s inMax scanMax = clean s := by
  unfold cleanBatched clean
  congr 1
  apply List.filter_congr
  intro e he
  have hk : e.1 ∈ looseKeys s := List.mem_map.mpr ⟨e, he, rfl⟩
  rw [packedAmong_contains inv inMax scanMax hin e.1 hk]

-- `inv` is not needed for this one (the statement is kept as given)
set_option linter.unusedVariables false in
theorem deleteBatched_eq {t : Tab} {s : St} (inv : Inv t s) (ks : List Nat) (inMax : Nat) (hin : 0 < inMax) :
    (deleteBatched s ks inMax).1 = (delete s ks).1 ∧
    ∀ k, k ∈ (deleteBatched s ks inMax).2 ↔ k ∈ (delete s ks).2 := by
  constructor
  · show ({ s with loose := s.loose.filter (fun e => !ks.contains e.1),
                   rows := s.rows.filter (fun r => !(deletedPacked s ks inMax).contains r.key) } : St)
        = { s with loose := s.loose.filter (fun e => !ks.contains e.1),
                   rows := s.rows.filter (fun r => !ks.contains r.key) }
    congr 1
    apply List.filter_congr
    intro r hr
    have hk : r.key ∈ rowKeys s := List.mem_map.mpr ⟨r, hr, rfl⟩
    congr 1
    apply bool_eq_of_iff
    rw [List.contains_iff_mem, List.contains_iff_mem, mem_deletedPacked s ks inMax hin]
    exact ⟨fun h => h.2, fun h => ⟨hk, h⟩⟩
  · intro k
    show k ∈ (ks.filter (fun k => hasLoose s k) ++ deletedPacked s ks inMax).eraseDups
        ↔ k ∈ (ks.filter (fun k => hasLoose s k || hasRow s k)).eraseDups
    rw [List.mem_eraseDups, List.mem_eraseDups, List.mem_append, List.mem_filter, List.mem_filter,
      mem_deletedPacked s ks inMax hin, Bool.or_eq_true, hasRow, List.contains_iff_mem]
    constructor
    · rintro (⟨h1, h2⟩ | ⟨h1, h2⟩)
      · exact ⟨h1, Or.inl h2⟩
      · exact ⟨h2, Or.inr h1⟩
    · rintro ⟨h1, h2 | h2⟩
      · exact Or.inl ⟨h1, h2⟩
      · exact Or.inr ⟨h2, h1⟩

theorem deleteBatched_nodup (s : St) (ks : List Nat) (inMax : Nat) : (deleteBatched s ks inMax).2.Nodup :=
  eraseDups_nodup _

end Dos.Batch
