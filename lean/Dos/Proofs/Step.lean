/-
Every operation preserves the invariant; lifted to all finite histories.  Refinement of the plain key set
for all histories (C02).
-/
import Dos.Proofs.InvOps
import Dos.Proofs.InvRepack
import Dos.Proofs.HasStep

namespace Dos

theorem inv_loosen {t : Tab} (_wf : t.WF) {s s' : St} (inv : Inv t s) {k : Nat} (h : loosen t s k = some s') :
    Inv t s' := by
  unfold loosen at h
  split at h
  · cases h; exact inv
  · split at h
    · cases h; exact inv_addLoose inv _
    · cases h

theorem inv_step {t : Tab} (wf : t.WF) {s s' : St} (inv : Inv t s) {op : Op} (h : step t s op = some s') :
    Inv t s' := by
  cases op with
  | addLoose c => simp [step] at h; subst h; exact inv_addLoose inv c
  | addPacked cs z nh => simp [step] at h; subst h; exact inv_addPacked inv cs z nh
  | packAll m order zs cl => exact inv_packAll inv h
  | clean => simp [step] at h; subst h; exact inv_clean inv
  | delete ks => simp [step] at h; subst h; exact inv_delete inv ks
  | repack m plan => exact inv_repackAll inv h
  | loosen k => exact inv_loosen wf inv h
  | reopen => simp [step] at h; subst h; exact inv_reopen inv
  | importObjs w o z same tr => exact inv_importObjs inv h

theorem inv_run {t : Tab} (wf : t.WF) {ops : List Op} {s s' : St} (inv : Inv t s) (h : run t s ops = some s') :
    Inv t s' := by
  induction ops generalizing s with
  | nil => simp [run] at h; subst h; exact inv
  | cons op ops ih =>
    simp only [run] at h
    cases hs : step t s op with
    | none => simp [hs] at h
    | some s1 =>
      simp [hs] at h
      exact ih (inv_step wf inv hs) h

/-- the plain key set after a whole history -/
def specRun (h : Nat → Bool) : List Op → Nat → Bool
  | [] => h
  | op :: ops => specRun (specHas h op) ops

theorem has_run {t : Tab} (wf : t.WF) {ops : List Op} {s s' : St} (inv : Inv t s) (h : run t s ops = some s')
    (k : Nat) : has s' k = specRun (has s) ops k := by
  induction ops generalizing s with
  | nil => simp [run] at h; subst h; rfl
  | cons op ops ih =>
    simp only [run] at h
    cases hs : step t s op with
    | none => simp [hs] at h
    | some s1 =>
      simp [hs] at h
      rw [ih (inv_step wf inv hs) h]
      have : has s1 = specHas (has s) op := funext (fun k => has_step wf inv hs k)
      simp [specRun, this]

end Dos
