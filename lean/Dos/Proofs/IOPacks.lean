/-
Level C for the pack writers: direct-to-pack additions and `pack_all_loose` (with or without per-pack cleaning).
-/
import Dos.IOSpec
import Dos.Proofs.Step
import Dos.Proofs.IOGood

namespace Dos.IO
open Dos

/-! ### Level-B facts: opening the current pack twice, writing after opening -/

theorem setPack_setPack (ps : Packs) (p : Nat) (a b : List Seg) : setPack (setPack ps p a) p b = setPack ps p b := by
  induction ps with
  | nil => simp [setPack]
  | cons e rest ih =>
    obtain ⟨r, old⟩ := e
    by_cases h1 : r = p
    · subst h1; simp [setPack]
    · simp [setPack, h1, ih]

theorem getPack_ensurePack (ps : Packs) (p : Nat) :
    getPack (ensurePack ps p) p = some ((getPack ps p).getD []) := by
  unfold ensurePack
  cases hg : getPack ps p with
  | none => simp [getPack_setPack_eq]
  | some segs => simp [hg]

theorem setPack_ensurePack (ps : Packs) (p : Nat) (segs : List Seg) :
    setPack (ensurePack ps p) p segs = setPack ps p segs := by
  unfold ensurePack
  cases hg : getPack ps p with
  | none => simp [setPack_setPack]
  | some _ => rfl

theorem ensurePack_of_some {ps : Packs} {p : Nat} (h : getPack ps p ≠ none) : ensurePack ps p = ps := by
  unfold ensurePack
  cases hg : getPack ps p with
  | none => exact absurd hg h
  | some _ => rfl

theorem choosePack_openCur (t : Tab) (s : St) (ht : 0 < s.target) : choosePack t (openCur t s) = choosePack t s := by
  have hsp := (choosePack_spec t s).2.2
  have hg := getPack_ensurePack s.packs (choosePack t s)
  show choosePackGo t (ensurePack s.packs (choosePack t s)) s.target
      ((ensurePack s.packs (choosePack t s)).length + 1) (choosePack t s) = choosePack t s
  simp only [choosePackGo, hg]
  rcases hsp with hn | ⟨segs, hs, hlt⟩
  · simp [hn, ht]
  · simp [hs, hlt]

theorem openCur_openCur (t : Tab) (s : St) (ht : 0 < s.target) : openCur t (openCur t s) = openCur t s := by
  have h1 := choosePack_openCur t s ht
  have h2 : ensurePack (ensurePack s.packs (choosePack t s)) (choosePack t s) = ensurePack s.packs (choosePack t s) :=
    ensurePack_of_some (by rw [getPack_ensurePack]; simp)
  unfold openCur at h1 ⊢
  simp only [h1, h2]

theorem writeObj_openCur (t : Tab) (s : St) (c : Nat) (z : Bool) (ht : 0 < s.target) :
    writeObj t (openCur t s) c z = writeObj t s c z := by
  have h1 := choosePack_openCur t s ht
  unfold writeObj
  simp only [h1]
  simp only [openCur, getPack_ensurePack, setPack_ensurePack, Option.getD_some]

theorem addPackedStep_openCur (t : Tab) (z nh : Bool) (s : St) (c : Nat) (ht : 0 < s.target) :
    addPackedStep t z nh (openCur t s) c = addPackedStep t z nh s c := by
  unfold addPackedStep
  simp only [openCur_openCur t s ht]


/-! ### folds of `insertIgnore` -/

theorem sub_foldl_insertIgnore (rs : List Row) : ∀ (R : List Row) (r : Row), r ∈ R → r ∈ rs.foldl insertIgnore R := by
  induction rs with
  | nil => intro R r h; exact h
  | cons a rs ih =>
    intro R r h
    exact ih _ _ (by
      unfold insertIgnore
      split
      · exact h
      · exact List.mem_append_left _ h)

theorem mem_foldl_insertIgnore (rs : List Row) : ∀ (R : List Row) (r : Row), r ∈ rs.foldl insertIgnore R →
    r ∈ R ∨ ∃ r0 ∈ rs, r.pack = r0.pack ∧ r.key = r0.key := by
  induction rs with
  | nil => intro R r h; exact Or.inl h
  | cons a rs ih =>
    intro R r h
    rcases ih _ _ h with h1 | ⟨r0, h0, h1⟩
    · rcases mem_insertIgnore h1 with h2 | ⟨h2, _⟩
      · exact Or.inl h2
      · exact Or.inr ⟨a, List.mem_cons_self, by rw [h2], by rw [h2]⟩
    · exact Or.inr ⟨r0, List.mem_cons_of_mem _ h0, h1⟩

theorem key_mem_foldl_insertIgnore (rs : List Row) : ∀ (R : List Row) (r0 : Row), r0 ∈ rs →
    r0.key ∈ (rs.foldl insertIgnore R).map (·.key) := by
  induction rs with
  | nil => intro R r0 h; simp at h
  | cons a rs ih =>
    intro R r0 h
    rcases List.mem_cons.mp h with h | h
    · subst h
      have h1 : r0.key ∈ (insertIgnore R r0).map (·.key) := (mem_keys_insertIgnore R r0 r0.key).mpr (Or.inr rfl)
      obtain ⟨y, hy, hk⟩ := List.mem_map.mp h1
      exact List.mem_map.mpr ⟨y, sub_foldl_insertIgnore rs _ _ hy, hk⟩
    · exact ih _ _ h

/-! ### effect of single actions -/

theorem segsOf_pkOpen (x : XSt) (p : Nat) : segsOf (exec x (.pkOpen p)).packs = ensurePack (segsOf x.packs) p := by
  unfold ensurePack
  rw [getPack_segsOf]
  cases hg : getX x.packs p with
  | some pk => simp [exec, hg]
  | none => simp [exec, hg, segsOf_setX]

theorem getX_pkOpen (x : XSt) (p : Nat) : getX (exec x (.pkOpen p)).packs p ≠ none := by
  cases hg : getX x.packs p with
  | some pk => simp [exec, hg]
  | none => simp [exec, hg, getX_setX]

theorem pkOpen_fields (x : XSt) (p : Nat) :
    (exec x (.pkOpen p)).work = x.work ∧ (exec x (.pkOpen p)).locks = x.locks ∧
    (exec x (.pkOpen p)).rows = x.rows ∧ (exec x (.pkOpen p)).loose = x.loose := by
  cases hg : getX x.packs p with
  | some pk => simp [exec, hg]
  | none => simp [exec, hg]

def syncPk (pk : XPack) : XPack := { segs := pk.segs, flushed := pk.segs.length, synced := pk.segs.length }

theorem exec_inserts (rs : List Row) : ∀ x : XSt, execAll x (rs.map .sqlInsert) =
    { x with work := if rs = [] then x.work else some (rs.foldl insertIgnore (workOf x)) } := by
  induction rs with
  | nil => intro x; simp [execAll]
  | cons r rs ih =>
    intro x
    simp only [List.map_cons, execAll, ih]
    by_cases h : rs = []
    · subst h; simp [exec, workOf]
    · simp [exec, workOf, h]

/-- the part of a session end up to and including the release of the lock -/
def endA (q : Nat) (rs : List Row) (trunc : Bool) : List Act :=
  (if trunc then [.pkTruncate q 0] else []) ++ rs.map .sqlInsert ++
  [.pkFlush q, .pkFsync q, .dirSync, .pkClose q, .unlock q]

theorem endA_plain (q : Nat) (rs : List Row) (trunc : Bool) : ∀ a ∈ endA q rs trunc, plain a = true := by
  intro a ha
  unfold endA at ha
  simp only [List.mem_append, List.mem_map] at ha
  rcases ha with (ha | ⟨r, _, rfl⟩) | ha
  · cases trunc <;> simp at ha
    subst ha; rfl
  · rfl
  · simp at ha
    rcases ha with rfl | rfl | rfl | rfl | rfl <;> rfl

theorem exec_endA (x : XSt) (q : Nat) (rs : List Row) (trunc : Bool) :
    execAll x (endA q rs trunc) =
      { x with packs := updX x.packs q syncPk,
               work := if rs = [] then x.work else some (rs.foldl insertIgnore (workOf x)),
               locks := x.locks.filter (· != q) } := by
  unfold endA
  cases trunc
  · simp only [Bool.false_eq_true, if_false, List.nil_append, execAll_append, exec_inserts, execAll, exec, updX_updX]
    rfl
  · simp only [if_true, execAll_append, exec_inserts, execAll, exec, updX_updX, workOf]
    congr 1
    congr 1
    funext pk
    simp [syncPk]


/-! ### the simulation: between sessions (`Idle`) and inside a session (`Mid`) -/

structure Idle (t : Tab) (keep : List Nat) (x : XSt) (b : St) : Prop where
  good : Good t keep x
  packs : segsOf x.packs = b.packs
  work : x.work = none
  locks : x.locks = []
  rows : x.rows = b.rows
  inv : Inv t b

structure Mid (t : Tab) (keep : List Nat) (x : XSt) (b : St) (q : Nat) (rs : List Row) : Prop where
  good : Good t keep x
  packs : segsOf x.packs = b.packs
  work : x.work = none
  locks : x.locks = [q]
  rows : rs.foldl insertIgnore x.rows = b.rows
  inv : Inv t b
  ex : getX x.packs q ≠ none
  rpack : ∀ r ∈ rs, r.pack = q

theorem idle_ofSt {t : Tab} {s : St} (inv : Inv t s) : Idle t (keysOf s) (ofSt s) s := by
  refine ⟨good_ofSt inv, ?_, rfl, rfl, rfl, inv⟩
  simp [segsOf, ofSt, List.map_map, Function.comp_def]

theorem idle_open {t : Tab} {keep : List Nat} {x : XSt} {b : St} (h : Idle t keep x b) (p : Nat) :
    AllGood t keep x [.lock p, .pkOpen p] ∧
    Mid t keep (execAll x [.lock p, .pkOpen p]) { b with cur := p, packs := ensurePack b.packs p } p [] := by
  have ag : AllGood t keep x [.lock p, .pkOpen p] := allGood_plain h.good (by
    intro a ha; simp at ha; rcases ha with rfl | rfl <;> rfl)
  refine ⟨ag, ⟨allGood_end ag, ?_, ?_, ?_, ?_, ?_, ?_, by simp⟩⟩
  · show segsOf (exec (exec x (.lock p)) (.pkOpen p)).packs = ensurePack b.packs p
    rw [segsOf_pkOpen, ← h.packs]; rfl
  · show (exec (exec x (.lock p)) (.pkOpen p)).work = none
    rw [(pkOpen_fields _ _).1]; exact h.work
  · show (exec (exec x (.lock p)) (.pkOpen p)).locks = [p]
    rw [(pkOpen_fields _ _).2.1]
    show p :: x.locks = [p]
    rw [h.locks]
  · show (exec (exec x (.lock p)) (.pkOpen p)).rows = b.rows
    rw [(pkOpen_fields _ _).2.2.1]; exact h.rows
  · have := h.inv
    exact ⟨fun r hr => rowOK_ensurePack _ (this.rows_ok r hr), this.keys_nodup, this.ids_nodup, this.ids_pos,
      nodup_keys_ensurePack _ this.packs_nodup, this.loose_nodup, this.loose_ok, this.target_pos⟩
  · exact getX_pkOpen _ _

theorem mid_getPack {t : Tab} {keep : List Nat} {x : XSt} {b : St} {q : Nat} {rs : List Row}
    (m : Mid t keep x b q rs) : ∃ pk, getX x.packs q = some pk ∧ getPack b.packs q = some pk.segs := by
  cases hg : getX x.packs q with
  | none => exact absurd hg m.ex
  | some pk => exact ⟨pk, rfl, by rw [← m.packs, getPack_segsOf, hg]; rfl⟩

/-- the same pack is chosen again: nothing happens at Level C -/
theorem mid_reopen {t : Tab} {keep : List Nat} {x : XSt} {b : St} {q : Nat} {rs : List Row}
    (m : Mid t keep x b q rs) : Mid t keep x { b with cur := q, packs := ensurePack b.packs q } q rs := by
  obtain ⟨pk, _, hb⟩ := mid_getPack m
  have e : ensurePack b.packs q = b.packs := ensurePack_of_some (by rw [hb]; simp)
  rw [e]
  exact ⟨m.good, m.packs, m.work, m.locks, m.rows, inv_set_cur m.inv q, m.ex, m.rpack⟩

/-- one object written to the open pack -/
theorem mid_write {t : Tab} {keep : List Nat} {x : XSt} {b : St} {q : Nat} {rs : List Row}
    (m : Mid t keep x b q rs) (c : Nat) (z : Bool) (hq : choosePack t b = q) :
    Mid t keep (exec x (.pkWrite q ⟨c, z⟩)) (writeObj t b c z) q (rs ++ [rowFor t b q c z]) := by
  obtain ⟨pk, hx, hb⟩ := mid_getPack m
  refine ⟨good_write m.good _ _, ?_, m.work, m.locks, ?_, inv_writeObj m.inv c z, ?_, ?_⟩
  · show segsOf (updX x.packs q _) = (writeObj t b c z).packs
    rw [segsOf_updX, hx]
    simp only [writeObj, hq, hb, Option.getD_some, m.packs]
  · show (rs ++ [rowFor t b q c z]).foldl insertIgnore x.rows = (writeObj t b c z).rows
    rw [List.foldl_append, m.rows]
    simp only [writeObj, hq, rowFor, List.foldl_cons, List.foldl_nil]
  · show getX (updX x.packs q _) q ≠ none
    rw [getX_updX, hx]; simp
  · intro r hr
    rcases List.mem_append.mp hr with h | h
    · exact m.rpack r h
    · simp at h; subst h; rfl

/-- a stream that turns out to be known already, written and truncated back -/
theorem mid_write_trunc {t : Tab} {keep : List Nat} {x : XSt} {b : St} {q : Nat} {rs : List Row}
    (m : Mid t keep x b q rs) (sg : Seg) :
    AllGood t keep x [.pkWrite q sg, .pkTruncate q 1] ∧
    Mid t keep (execAll x [.pkWrite q sg, .pkTruncate q 1]) b q rs := by
  have g1 := good_write m.good q sg
  have g2 : Good t keep (exec (exec x (.pkWrite q sg)) (.pkTruncate q 1)) := by
    apply good_truncate g1
    intro pk hpk
    change getX (updX x.packs q _) q = some pk at hpk
    rw [getX_updX] at hpk
    simp only [if_true] at hpk
    cases hg : getX x.packs q with
    | none => simp [hg] at hpk
    | some pk0 =>
      simp [hg] at hpk
      subst hpk
      have := m.good.1.pk_le _ _ hg
      simp only [List.length_append, List.length_singleton]
      omega
  refine ⟨allGood_cons m.good (allGood_single g1 g2), ⟨g2, ?_, m.work, m.locks, m.rows, m.inv, ?_, m.rpack⟩⟩
  · show segsOf (updX (updX x.packs q _) q _) = b.packs
    rw [updX_updX, segsOf_updX_same, m.packs]
    intro pk
    simp
  · show getX (updX (updX x.packs q _) q _) q ≠ none
    rw [updX_updX, getX_updX]
    obtain ⟨pk, hx, _⟩ := mid_getPack m
    simp [hx]

theorem idle_unlinks {t : Tab} {keep : List Nat} {b : St} (ks : List Nat) (hk : ∀ k ∈ ks, k ∈ b.rows.map (·.key)) :
    ∀ {x : XSt}, Idle t keep x b →
      AllGood t keep x (ks.map .looseUnlink) ∧ Idle t keep (execAll x (ks.map .looseUnlink)) b := by
  induction ks with
  | nil => intro x h; exact ⟨allGood_nil h.good, h⟩
  | cons k ks ih =>
    intro x h
    have g1 : Good t keep (exec x (.looseUnlink k)) :=
      good_unlink h.good k (by rw [h.rows]; exact hk k List.mem_cons_self)
    have h1 : Idle t keep (exec x (.looseUnlink k)) b := ⟨g1, h.packs, h.work, h.locks, h.rows, h.inv⟩
    obtain ⟨a1, a2⟩ := ih (fun k' hk' => hk k' (List.mem_cons_of_mem _ hk')) h1
    exact ⟨allGood_cons h.good a1, a2⟩

/-- end of a session, general form -/
def gEnd (q : Nat) (rs : List Row) (trunc cl : Bool) : List Act :=
  endA q rs trunc ++ (if rs.isEmpty then [] else [.sqlCommit]) ++
  (if cl then rs.map (fun r => Act.looseUnlink r.key) else [])

theorem mid_endA {t : Tab} {keep : List Nat} {x : XSt} {b : St} {q : Nat} {rs : List Row}
    (m : Mid t keep x b q rs) (trunc : Bool) :
    AllGood t keep x (endA q rs trunc ++ (if rs.isEmpty then [] else [.sqlCommit])) ∧
    Idle t keep (execAll x (endA q rs trunc ++ (if rs.isEmpty then [] else [.sqlCommit]))) b := by
  have agA : AllGood t keep x (endA q rs trunc) := allGood_plain m.good (endA_plain q rs trunc)
  have gA := allGood_end agA
  have hA := exec_endA x q rs trunc
  obtain ⟨pk, hx, hb⟩ := mid_getPack m
  have hpacks : segsOf (updX x.packs q syncPk) = b.packs := by
    rw [segsOf_updX_same x.packs q syncPk (fun _ => rfl), m.packs]
  have hlocks : x.locks.filter (· != q) = [] := by rw [m.locks]; simp
  by_cases hrs : rs = []
  · subst hrs
    simp only [List.isEmpty_nil, if_true, List.append_nil]
    refine ⟨agA, ?_⟩
    rw [hA] at gA ⊢
    exact ⟨gA, hpacks, by simpa using m.work, hlocks, by simpa using m.rows, m.inv⟩
  · have hne : rs.isEmpty = false := by cases rs <;> simp_all
    simp only [hne, Bool.false_eq_true, if_false]
    rw [hA] at gA
    simp only [hrs, if_false] at gA hA
    have hw : rs.foldl insertIgnore (workOf x) = b.rows := by
      have : workOf x = x.rows := by simp [workOf, m.work]
      rw [this, m.rows]
    rw [hw] at gA hA
    have gC : GoodC t keep (updX x.packs q syncPk) b.rows x.loose := by
      have g0 := gA.1
      refine ⟨g0.pk_nodup, g0.pk_le, ?_, m.inv.keys_nodup, m.inv.ids_nodup, m.inv.ids_pos, g0.loose_nodup,
        g0.loose_ok, ?_⟩
      · intro r hr
        rw [← m.rows] at hr
        rcases mem_foldl_insertIgnore _ _ _ hr with h | ⟨r0, h0, hp, _⟩
        · exact g0.rows_ok r h
        · have hq : r.pack = q := by rw [hp]; exact m.rpack r0 h0
          have hok := m.inv.rows_ok r (by rw [← m.rows]; exact hr)
          obtain ⟨segs, hg, hs⟩ := rowOK_iff.mp hok
          rw [hq, hb] at hg
          cases hg
          refine ⟨syncPk pk, by rw [hq, getX_updX, hx]; simp, ?_⟩
          simpa [syncPk] using hs
      · intro k hk
        rcases g0.keep_ok k hk with h | h
        · left
          obtain ⟨y, hy, hky⟩ := List.mem_map.mp h
          exact List.mem_map.mpr ⟨y, by rw [← m.rows]; exact sub_foldl_insertIgnore _ _ _ hy, hky⟩
        · exact Or.inr h
    have gB := good_commit gA gC
    refine ⟨allGood_append agA (by rw [hA]; exact allGood_single gA gB), ?_⟩
    rw [execAll_append, hA]
    exact ⟨gB, hpacks, rfl, hlocks, rfl, m.inv⟩

theorem mid_end {t : Tab} {keep : List Nat} {x : XSt} {b : St} {q : Nat} {rs : List Row}
    (m : Mid t keep x b q rs) (trunc cl : Bool) :
    AllGood t keep x (gEnd q rs trunc cl) ∧ Idle t keep (execAll x (gEnd q rs trunc cl)) b := by
  obtain ⟨a1, i1⟩ := mid_endA m trunc
  unfold gEnd
  cases cl
  · simp only [Bool.false_eq_true, if_false, List.append_nil]
    exact ⟨a1, i1⟩
  · simp only [if_true]
    have hk : ∀ k ∈ rs.map (·.key), k ∈ b.rows.map (·.key) := by
      intro k hk
      obtain ⟨r0, h0, rfl⟩ := List.mem_map.mp hk
      rw [← m.rows]
      exact key_mem_foldl_insertIgnore _ _ _ h0
    obtain ⟨a2, i2⟩ := idle_unlinks (rs.map (·.key)) hk i1
    have e : rs.map (fun r => Act.looseUnlink r.key) = (rs.map (·.key)).map .looseUnlink := by
      simp [List.map_map, Function.comp_def]
    rw [e]
    exact ⟨allGood_append a1 a2, by rw [execAll_append]; exact i2⟩


/-! ### the compiler state -/

theorem sessionEnd_eq (q : Nat) (rs : List Row) (trunc : Bool) : sessionEnd q rs trunc = gEnd q rs trunc false := by
  simp [sessionEnd, gEnd, endA]

theorem sessionEndClean_eq (q : Nat) (rs : List Row) (cl : Bool) : sessionEndClean q rs cl = gEnd q rs false cl := by
  simp [sessionEndClean, sessionEnd, gEnd, endA]

/-- `wOpen` and `wOpenPA` in one -/
def gOpen (t : Tab) (trunc cl : Bool) (w : WSt) : WSt :=
  let s1 := openCur t w.s
  let p := s1.cur
  match w.openP with
  | some q =>
    if q = p then { w with s := s1 }
    else { s := s1, openP := some p, rows := [], acts := w.acts ++ gEnd q w.rows trunc cl ++ [.lock p, .pkOpen p] }
  | none => { s := s1, openP := some p, rows := [], acts := w.acts ++ [.lock p, .pkOpen p] }

theorem wOpen_eq (t : Tab) (nh : Bool) (w : WSt) : wOpen t nh w = gOpen t nh false w := by
  unfold wOpen gOpen
  simp only [sessionEnd_eq]
  cases w.openP <;> rfl

theorem wOpenPA_eq (t : Tab) (cl : Bool) (w : WSt) : wOpenPA t cl w = gOpen t false cl w := by
  unfold wOpenPA gOpen
  simp only [sessionEndClean_eq]
  cases w.openP <;> rfl

def Sim (t : Tab) (keep : List Nat) (w : WSt) (x : XSt) : Prop :=
  match w.openP with
  | none => Idle t keep x w.s ∧ w.rows = []
  | some q => Mid t keep x w.s q w.rows

def Reach (t : Tab) (keep : List Nat) (x0 : XSt) (w : WSt) : Prop :=
  AllGood t keep x0 w.acts ∧ Sim t keep w (execAll x0 w.acts)

theorem sim_target {t : Tab} {keep : List Nat} {w : WSt} {x : XSt} (h : Sim t keep w x) : 0 < w.s.target := by
  unfold Sim at h
  split at h
  · exact h.1.inv.target_pos
  · exact h.inv.target_pos

theorem gOpen_s (t : Tab) (trunc cl : Bool) (w : WSt) : (gOpen t trunc cl w).s = openCur t w.s := by
  unfold gOpen
  simp only
  split
  · split <;> rfl
  · rfl

theorem gOpen_openP (t : Tab) (trunc cl : Bool) (w : WSt) :
    (gOpen t trunc cl w).openP = some (choosePack t w.s) := by
  unfold gOpen
  simp only
  split
  · rename_i q hq
    split
    · rename_i h; simp only [hq]; rw [h]; rfl
    · rfl
  · rfl

theorem gOpen_reach {t : Tab} {keep : List Nat} {x0 : XSt} {w : WSt} (trunc cl : Bool) (h : Reach t keep x0 w) :
    AllGood t keep x0 (gOpen t trunc cl w).acts ∧
    Mid t keep (execAll x0 (gOpen t trunc cl w).acts) (openCur t w.s) (choosePack t w.s) (gOpen t trunc cl w).rows := by
  obtain ⟨ag, sim⟩ := h
  unfold Sim at sim
  unfold gOpen
  simp only
  cases hop : w.openP with
  | none =>
    simp only [hop] at sim ⊢
    obtain ⟨a1, m1⟩ := idle_open sim.1 (choosePack t w.s)
    exact ⟨allGood_append ag a1, by rw [execAll_append]; exact m1⟩
  | some q =>
    simp only [hop] at sim ⊢
    by_cases hq : q = (openCur t w.s).cur
    · simp only [hq, if_true]
      have hq' : q = choosePack t w.s := hq
      subst hq'
      exact ⟨ag, mid_reopen sim⟩
    · simp only [hq, if_false]
      obtain ⟨a1, i1⟩ := mid_end sim trunc cl
      obtain ⟨a2, m2⟩ := idle_open i1 (choosePack t w.s)
      refine ⟨allGood_append (allGood_append ag a1) (by rw [execAll_append]; exact a2), ?_⟩
      rw [execAll_append, execAll_append]
      exact m2

theorem reach_of_mid {t : Tab} {keep : List Nat} {x0 : XSt} {w : WSt} {q : Nat} (hop : w.openP = some q)
    (ag : AllGood t keep x0 w.acts) (m : Mid t keep (execAll x0 w.acts) w.s q w.rows) : Reach t keep x0 w := by
  refine ⟨ag, ?_⟩
  unfold Sim
  rw [hop]
  exact m

theorem reach_wAddPacked {t : Tab} {keep : List Nat} {x0 : XSt} {w : WSt} (z nh rt : Bool) (c : Nat)
    (h : Reach t keep x0 w) : Reach t keep x0 (wAddPacked t z nh rt w c) := by
  have ht := sim_target h.2
  obtain ⟨ag, m⟩ := gOpen_reach nh false h
  have hs := gOpen_s t nh false w
  have hop := gOpen_openP t nh false w
  unfold wAddPacked
  rw [wOpen_eq]
  generalize gOpen t nh false w = w1 at ag m hs hop
  have hcur : w1.s.cur = choosePack t w.s := by rw [hs]; rfl
  simp only [hcur]
  rw [← hs] at m
  split
  · split
    · exact reach_of_mid hop ag m
    · obtain ⟨a1, m1⟩ := mid_write_trunc m ⟨c, z⟩
      exact reach_of_mid (w := { w1 with acts := _ }) hop (allGood_append ag a1) (by rw [execAll_append]; exact m1)
  · have hq : choosePack t w1.s = choosePack t w.s := by rw [hs]; exact choosePack_openCur t w.s ht
    have m1 := mid_write m c z hq
    have a1 : AllGood t keep (execAll x0 w1.acts) [.pkWrite (choosePack t w.s) ⟨c, z⟩] :=
      allGood_single m.good m1.good
    exact reach_of_mid (w := { w1 with s := _, rows := _, acts := _ }) hop (allGood_append ag a1)
      (by rw [execAll_append]; exact m1)

theorem reach_wPackLooseC {t : Tab} {keep : List Nat} {x0 : XSt} {w : WSt} (cl : Bool) (cz : Nat × Bool)
    (h : Reach t keep x0 w) : Reach t keep x0 (wPackLooseC t cl w cz) := by
  have ht := sim_target h.2
  obtain ⟨ag, m⟩ := gOpen_reach false cl h
  have hs := gOpen_s t false cl w
  have hop := gOpen_openP t false cl w
  unfold wPackLooseC
  rw [wOpenPA_eq]
  generalize gOpen t false cl w = w1 at ag m hs hop
  have hcur : w1.s.cur = choosePack t w.s := by rw [hs]; rfl
  simp only [hcur]
  rw [← hs] at m
  have hq : choosePack t w1.s = choosePack t w.s := by rw [hs]; exact choosePack_openCur t w.s ht
  have m1 := mid_write m cz.1 cz.2 hq
  have a1 : AllGood t keep (execAll x0 w1.acts) [.readLoose cz.1, .pkWrite (choosePack t w.s) ⟨cz.1, cz.2⟩] :=
    allGood_cons m.good (allGood_single m.good m1.good)
  exact reach_of_mid (w := { w1 with s := _, rows := _, acts := _ }) hop (allGood_append ag a1)
    (by rw [execAll_append]; exact m1)

theorem reach_foldl {t : Tab} {keep : List Nat} {x0 : XSt} {α} (f : WSt → α → WSt)
    (hf : ∀ w a, Reach t keep x0 w → Reach t keep x0 (f w a)) (l : List α) :
    ∀ w, Reach t keep x0 w → Reach t keep x0 (l.foldl f w) := by
  induction l with
  | nil => intro w h; exact h
  | cons a l ih => intro w h; exact ih _ (hf w a h)

theorem reach_init {t : Tab} {s : St} (inv : Inv t s) :
    Reach t (keysOf s) (ofSt s) { s := s, openP := none, rows := [], acts := [] } :=
  ⟨allGood_nil (good_ofSt inv), ⟨idle_ofSt inv, rfl⟩⟩

/-- closing the last session -/
def gFinish (trunc cl : Bool) (w : WSt) : List Act :=
  match w.openP with
  | some q => w.acts ++ gEnd q w.rows trunc cl
  | none => w.acts

theorem reach_finish {t : Tab} {keep : List Nat} {x0 : XSt} {w : WSt} (trunc cl : Bool) (h : Reach t keep x0 w) :
    AllGood t keep x0 (gFinish trunc cl w) ∧ Idle t keep (execAll x0 (gFinish trunc cl w)) w.s := by
  obtain ⟨ag, sim⟩ := h
  unfold Sim at sim
  unfold gFinish
  cases hop : w.openP with
  | none =>
    simp only [hop] at sim ⊢
    exact ⟨ag, sim.1⟩
  | some q =>
    simp only [hop] at sim ⊢
    obtain ⟨a1, i1⟩ := mid_end sim trunc cl
    exact ⟨allGood_append ag a1, by rw [execAll_append]; exact i1⟩

theorem actsAddPacked_eq (t : Tab) (s : St) (cs : List Nat) (z nh rt : Bool) (hcs : cs ≠ []) :
    actsAddPacked t s cs z nh rt =
      gFinish nh false (cs.foldl (wAddPacked t z nh rt) { s := s, openP := none, rows := [], acts := [] }) := by
  unfold actsAddPacked wFinish gFinish
  cases cs with
  | nil => exact absurd rfl hcs
  | cons c cs =>
    simp only [sessionEnd_eq]
    cases (List.foldl (wAddPacked t z nh rt) { s := s, openP := none, rows := [], acts := [] } (c :: cs)).openP <;> rfl

theorem actsPackAll_eq (t : Tab) (s : St) (order : List Nat) (zs : List Bool) (cl : Bool) (ho : order ≠ []) :
    actsPackAll t s order zs cl =
      gFinish false cl ((order.zip zs).foldl (wPackLooseC t cl) { s := s, openP := none, rows := [], acts := [] }) := by
  unfold actsPackAll gFinish
  cases order with
  | nil => exact absurd rfl ho
  | cons c cs =>
    simp only [sessionEndClean_eq]
    cases (List.foldl (wPackLooseC t cl) { s := s, openP := none, rows := [], acts := [] } ((c :: cs).zip zs)).openP <;> rfl

/-! ### what the action lists do to the loose files and the target: a syntactic analysis -/

theorem exec_target (x : XSt) (a : Act) : (exec x a).target = x.target := by
  cases a
  all_goals first | rfl | (simp only [exec]; split <;> rfl)

theorem execAll_target (l : List Act) : ∀ x : XSt, (execAll x l).target = x.target := by
  induction l with
  | nil => intro x; rfl
  | cons a l ih => intro x; simp only [execAll, ih, exec_target]

/-- the actions the pack writers use -/
def packAct : Act → Bool
  | .lock _ | .unlock _ | .pkOpen _ | .pkWrite _ _ | .pkFlush _ | .pkFsync _ | .pkClose _ | .pkTruncate _ _
  | .dirSync | .readLoose _ | .sqlInsert _ | .sqlCommit | .looseUnlink _ => true
  | _ => false

def unlinks : List Act → List Nat
  | [] => []
  | .looseUnlink k :: l => k :: unlinks l
  | _ :: l => unlinks l

theorem unlinks_append (l1 l2 : List Act) : unlinks (l1 ++ l2) = unlinks l1 ++ unlinks l2 := by
  induction l1 with
  | nil => rfl
  | cons a l ih => cases a <;> simp [unlinks, ih]

theorem unlinks_inserts (rs : List Row) : unlinks (rs.map .sqlInsert) = [] := by
  induction rs with
  | nil => rfl
  | cons r rs ih => simpa [unlinks] using ih

theorem unlinks_unlinks (rs : List Row) : unlinks (rs.map (fun r => Act.looseUnlink r.key)) = rs.map (·.key) := by
  induction rs with
  | nil => rfl
  | cons r rs ih => simp [unlinks, ih]

theorem unlinks_gEnd (q : Nat) (rs : List Row) (trunc cl : Bool) :
    unlinks (gEnd q rs trunc cl) = if cl then rs.map (·.key) else [] := by
  unfold gEnd endA
  simp only [unlinks_append, unlinks_inserts]
  cases trunc <;> cases cl <;> cases rs <;> simp [unlinks, unlinks_unlinks]

theorem packAct_gEnd (q : Nat) (rs : List Row) (trunc cl : Bool) : ∀ a ∈ gEnd q rs trunc cl, packAct a = true := by
  intro a ha
  unfold gEnd endA at ha
  simp only [List.mem_append, List.mem_map] at ha
  rcases ha with (((ha | ⟨r, _, rfl⟩) | ha) | ha) | ha
  · cases trunc <;> simp at ha
    subst ha; rfl
  · rfl
  · simp at ha
    rcases ha with rfl | rfl | rfl | rfl | rfl <;> rfl
  · split at ha <;> simp at ha
    subst ha; rfl
  · cases cl <;> simp at ha
    obtain ⟨r, _, rfl⟩ := ha
    rfl

theorem exec_loose (x : XSt) (a : Act) (ha : packAct a = true) :
    (exec x a).loose = x.loose.filter (fun e => !(unlinks [a]).contains e.1) := by
  cases a <;> simp only [packAct] at ha <;> try (exact absurd ha (by decide))
  case pkOpen p => rw [(pkOpen_fields x p).2.2.2]; symm; simp [unlinks]
  case looseUnlink k =>
    simp only [exec, unlinks]
    apply List.filter_congr
    intro e _
    rw [List.contains_cons]; simp [bne]
  all_goals (symm; simp [exec, unlinks])

theorem execAll_loose (l : List Act) : ∀ x : XSt, (∀ a ∈ l, packAct a = true) →
    (execAll x l).loose = x.loose.filter (fun e => !(unlinks l).contains e.1) := by
  induction l with
  | nil => intro x _; symm; simp [execAll, unlinks]
  | cons a l ih =>
    intro x h
    simp only [execAll]
    rw [ih _ (fun b hb => h b (List.mem_cons_of_mem _ hb)), exec_loose x a (h a List.mem_cons_self), List.filter_filter]
    have : unlinks (a :: l) = unlinks [a] ++ unlinks l := unlinks_append [a] l
    rw [this]
    apply List.filter_congr
    intro e _
    simp [Bool.and_comm]

structure Syn (cl : Bool) (w : WSt) (U : List Nat) : Prop where
  acts_ok : ∀ a ∈ w.acts, packAct a = true
  rows_nil : w.openP = none → w.rows = []
  unl : unlinks w.acts ++ (if cl then w.rows.map (·.key) else []) = U

theorem syn_gOpen {cl : Bool} {w : WSt} {U : List Nat} (t : Tab) (trunc : Bool) (h : Syn cl w U) :
    Syn cl (gOpen t trunc cl w) U := by
  unfold gOpen
  simp only
  cases hop : w.openP with
  | none =>
    have hr := h.rows_nil hop
    refine ⟨?_, by simp, ?_⟩
    · intro a ha
      simp only [List.mem_append] at ha
      rcases ha with ha | ha
      · exact h.acts_ok a ha
      · simp at ha; rcases ha with rfl | rfl <;> rfl
    · have := h.unl
      rw [hr] at this
      simpa [unlinks_append, unlinks] using this
  | some q =>
    simp only
    split
    · exact ⟨h.acts_ok, by simp, h.unl⟩
    · refine ⟨?_, by simp, ?_⟩
      · intro a ha
        simp only [List.mem_append] at ha
        rcases ha with (ha | ha) | ha
        · exact h.acts_ok a ha
        · exact packAct_gEnd _ _ _ _ a ha
        · simp at ha; rcases ha with rfl | rfl <;> rfl
      · have := h.unl
        simpa [unlinks_append, unlinks, unlinks_gEnd] using this

theorem syn_wAddPacked {w : WSt} (t : Tab) (z nh rt : Bool) (c : Nat) (h : Syn false w []) :
    Syn false (wAddPacked t z nh rt w c) [] := by
  have h1 := syn_gOpen t nh h
  have hop := gOpen_openP t nh false w
  unfold wAddPacked
  rw [wOpen_eq]
  generalize gOpen t nh false w = w1 at h1 hop
  simp only
  split
  · split
    · exact h1
    · refine ⟨?_, by simp [hop], ?_⟩
      · intro a ha
        simp only [List.mem_append] at ha
        rcases ha with ha | ha
        · exact h1.acts_ok a ha
        · simp at ha; rcases ha with rfl | rfl <;> rfl
      · have := h1.unl
        simpa [unlinks_append, unlinks] using this
  · refine ⟨?_, by simp [hop], ?_⟩
    · intro a ha
      simp only [List.mem_append] at ha
      rcases ha with ha | ha
      · exact h1.acts_ok a ha
      · simp at ha; subst ha; rfl
    · have := h1.unl
      simpa [unlinks_append, unlinks] using this

theorem syn_wPackLooseC {cl : Bool} {w : WSt} {U : List Nat} (t : Tab) (cz : Nat × Bool) (h : Syn cl w U) :
    Syn cl (wPackLooseC t cl w cz) (U ++ if cl then [cz.1] else []) := by
  have h1 := syn_gOpen t false h
  have hop := gOpen_openP t false cl w
  unfold wPackLooseC
  rw [wOpenPA_eq]
  generalize gOpen t false cl w = w1 at h1 hop
  simp only
  refine ⟨?_, by simp [hop], ?_⟩
  · intro a ha
    simp only [List.mem_append] at ha
    rcases ha with ha | ha
    · exact h1.acts_ok a ha
    · simp at ha; rcases ha with rfl | rfl <;> rfl
  · have := h1.unl
    subst this
    cases cl <;> simp [unlinks_append, unlinks, rowFor]

theorem syn_foldl_addPacked (t : Tab) (z nh rt : Bool) (cs : List Nat) :
    ∀ w, Syn false w [] → Syn false (cs.foldl (wAddPacked t z nh rt) w) [] := by
  induction cs with
  | nil => intro w h; exact h
  | cons c cs ih => intro w h; exact ih _ (syn_wAddPacked t z nh rt c h)

theorem syn_foldl_packAll (t : Tab) (cl : Bool) (l : List (Nat × Bool)) :
    ∀ w U, Syn cl w U → Syn cl (l.foldl (wPackLooseC t cl) w) (U ++ if cl then l.map (·.1) else []) := by
  induction l with
  | nil => intro w U h; simpa using h
  | cons c l ih =>
    intro w U h
    have := ih _ _ (syn_wPackLooseC t c h)
    cases cl <;> simpa using this

theorem syn_init (cl : Bool) (s : St) : Syn cl { s := s, openP := none, rows := [], acts := [] } [] :=
  ⟨by simp, fun _ => rfl, by simp [unlinks]⟩

theorem syn_finish {cl : Bool} {w : WSt} {U : List Nat} (trunc : Bool) (h : Syn cl w U) :
    (∀ a ∈ gFinish trunc cl w, packAct a = true) ∧ unlinks (gFinish trunc cl w) = U := by
  unfold gFinish
  cases hop : w.openP with
  | none =>
    have hr := h.rows_nil hop
    have := h.unl
    rw [hr] at this
    exact ⟨h.acts_ok, by simpa using this⟩
  | some q =>
    simp only
    refine ⟨?_, ?_⟩
    · intro a ha
      rcases List.mem_append.mp ha with ha | ha
      · exact h.acts_ok a ha
      · exact packAct_gEnd _ _ _ _ a ha
    · rw [unlinks_append, unlinks_gEnd]; exact h.unl

/-! ### the Level-B state carried by the compiler -/

theorem wAddPacked_s (t : Tab) (z nh rt : Bool) (w : WSt) (c : Nat) :
    (wAddPacked t z nh rt w c).s = addPackedStep t z nh w.s c := by
  have hs := gOpen_s t nh false w
  unfold wAddPacked addPackedStep
  rw [wOpen_eq]
  generalize gOpen t nh false w = w1 at hs
  simp only
  rw [← hs]
  by_cases hc : (nh && hasRow w1.s c) = true
  · simp only [hc, if_true]
    cases rt <;> rfl
  · simp only [hc]
    rfl

theorem foldl_wAddPacked_s (t : Tab) (z nh rt : Bool) (cs : List Nat) :
    ∀ w, (cs.foldl (wAddPacked t z nh rt) w).s = cs.foldl (addPackedStep t z nh) w.s := by
  induction cs with
  | nil => intro w; rfl
  | cons c cs ih => intro w; simp only [List.foldl_cons, ih, wAddPacked_s]

theorem addPacked_eq_foldl (t : Tab) (s : St) (cs : List Nat) (z nh : Bool) (ht : 0 < s.target) (hcs : cs ≠ []) :
    addPacked t s cs z nh = cs.foldl (addPackedStep t z nh) s := by
  cases cs with
  | nil => exact absurd rfl hcs
  | cons c cs =>
    simp only [addPacked, List.foldl_cons, addPackedStep_openCur t z nh s c ht]

theorem addPackedStep_loose_target (t : Tab) (z nh : Bool) (s : St) (c : Nat) :
    (addPackedStep t z nh s c).loose = s.loose ∧ (addPackedStep t z nh s c).target = s.target := by
  unfold addPackedStep
  simp only
  split <;> exact ⟨rfl, rfl⟩

theorem foldl_addPackedStep_loose_target (t : Tab) (z nh : Bool) (cs : List Nat) :
    ∀ s, (cs.foldl (addPackedStep t z nh) s).loose = s.loose ∧ (cs.foldl (addPackedStep t z nh) s).target = s.target := by
  induction cs with
  | nil => intro s; exact ⟨rfl, rfl⟩
  | cons c cs ih =>
    intro s
    obtain ⟨h1, h2⟩ := ih (addPackedStep t z nh s c)
    obtain ⟨h3, h4⟩ := addPackedStep_loose_target t z nh s c
    exact ⟨h1.trans h3, h2.trans h4⟩

theorem wPackLooseC_s (t : Tab) (cl : Bool) (w : WSt) (cz : Nat × Bool) :
    (wPackLooseC t cl w cz).s = writeObj t (openCur t w.s) cz.1 cz.2 := by
  have hs := gOpen_s t false cl w
  unfold wPackLooseC
  rw [wOpenPA_eq]
  generalize gOpen t false cl w = w1 at hs
  simp only
  rw [← hs]

theorem foldl_wPackLooseC_s (t : Tab) (cl : Bool) (l : List (Nat × Bool)) :
    ∀ w, 0 < w.s.target → (l.foldl (wPackLooseC t cl) w).s = writeAll t w.s l := by
  induction l with
  | nil => intro w _; rfl
  | cons cz l ih =>
    intro w ht
    obtain ⟨c, z⟩ := cz
    have e : (wPackLooseC t cl w (c, z)).s = writeObj t w.s c z := by
      rw [wPackLooseC_s, writeObj_openCur t w.s c z ht]
    simp only [List.foldl_cons, writeAll]
    rw [ih _ (by rw [e]; exact ht), e]

theorem writeAll_openCur (t : Tab) (s : St) (l : List (Nat × Bool)) (ht : 0 < s.target) (hl : l ≠ []) :
    writeAll t (openCur t s) l = writeAll t s l := by
  cases l with
  | nil => exact absurd rfl hl
  | cons cz l =>
    obtain ⟨c, z⟩ := cz
    simp only [writeAll, writeObj_openCur t s c z ht]

theorem writeAll_target (t : Tab) (l : List (Nat × Bool)) : ∀ s, (writeAll t s l).target = s.target := by
  induction l with
  | nil => intro s; rfl
  | cons cz l ih => intro s; obtain ⟨c, z⟩ := cz; simp only [writeAll, ih]; rfl

/-! ### run to completion -/

theorem toSt_ofSt_loose (s : St) (U : List Nat) :
    ((ofSt s).loose.filter (fun e => !U.contains e.1)).map (fun e => (e.1, e.2.cid)) =
      s.loose.filter (fun e => !U.contains e.1) := by
  simp only [ofSt, List.filter_map, List.map_map, Function.comp_def]
  simp

/-- what the finished program leaves, in terms of the Level-B state carried along and the unlinked keys -/
theorem done_core {t : Tab} {keep : List Nat} {s b : St} {acts : List Act} {U : List Nat}
    (hi : Idle t keep (execAll (ofSt s) acts) b) (ha : ∀ a ∈ acts, packAct a = true) (hu : unlinks acts = U) :
    (toSt (execAll (ofSt s) acts)).packs = b.packs ∧ (toSt (execAll (ofSt s) acts)).rows = b.rows ∧
    (toSt (execAll (ofSt s) acts)).loose = s.loose.filter (fun e => !U.contains e.1) ∧
    (toSt (execAll (ofSt s) acts)).target = s.target := by
  refine ⟨hi.packs, hi.rows, ?_, ?_⟩
  · show (execAll (ofSt s) acts).loose.map (fun e => (e.1, e.2.cid)) = _
    rw [execAll_loose acts _ ha, hu, toSt_ofSt_loose]
  · show (execAll (ofSt s) acts).target = s.target
    rw [execAll_target]; rfl

theorem done_addPacked {t : Tab} {s : St} (inv : Inv t s) (cs : List Nat) (z nh rt : Bool) :
    SameDisk (toSt (execAll (ofSt s) (actsAddPacked t s cs z nh rt))) (addPacked t s cs z nh) := by
  by_cases hcs : cs = []
  · subst hcs
    have h := done_core (acts := []) (U := []) (idle_ofSt inv) (by simp) rfl
    simp only [actsAddPacked, addPacked]
    exact ⟨h.1, h.2.1, by rw [h.2.2.1]; simp, h.2.2.2⟩
  · rw [actsAddPacked_eq t s cs z nh rt hcs]
    have hr := reach_finish nh false
      (reach_foldl _ (fun w c h => reach_wAddPacked z nh rt c h) cs _ (reach_init inv))
    have hsyn := syn_finish nh (syn_foldl_addPacked t z nh rt cs _ (syn_init false s))
    have h := done_core hr.2 hsyn.1 hsyn.2
    rw [foldl_wAddPacked_s] at h
    rw [addPacked_eq_foldl t s cs z nh inv.target_pos hcs]
    obtain ⟨h1, h2⟩ := foldl_addPackedStep_loose_target t z nh cs s
    exact ⟨h.1, h.2.1, by rw [h.2.2.1, h1]; simp, by rw [h.2.2.2, h2]⟩

theorem packAll_cases {t : Tab} {s s' : St} {m : Mode} {order : List Nat} {zs : List Bool} {cl : Bool}
    (h : packAll t s m order zs cl = some s') :
    zs.length = order.length ∧
    ((order = [] ∧ s' = { s with cur := choosePack t s }) ∨
     (order ≠ [] ∧ s' = if cl then removeLoose (writeAll t (openCur t s) (order.zip zs)) order
                         else writeAll t (openCur t s) (order.zip zs))) := by
  unfold packAll at h
  split at h
  · exact absurd h (by simp)
  split at h
  · exact absurd h (by simp)
  rename_i hz
  split at h
  · exact absurd h (by simp)
  split at h
  · exact absurd h (by simp)
  refine ⟨by simpa using hz, ?_⟩
  simp only at h
  split at h
  · cases h
    exact Or.inl ⟨rfl, rfl⟩
  · rename_i hne
    cases h
    exact Or.inr ⟨fun e => hne e, rfl⟩

theorem done_packAll {t : Tab} {s s' : St} (inv : Inv t s) {m : Mode} {order : List Nat} {zs : List Bool} {cl : Bool}
    (h : packAll t s m order zs cl = some s') :
    SameDisk (toSt (execAll (ofSt s) (actsPackAll t s order zs cl))) s' := by
  obtain ⟨hz, hcase⟩ := packAll_cases h
  rcases hcase with ⟨ho, rfl⟩ | ⟨ho, rfl⟩
  · subst ho
    have h := done_core (acts := []) (U := []) (idle_ofSt inv) (by simp) rfl
    simp only [actsPackAll]
    exact ⟨h.1, h.2.1, by rw [h.2.2.1]; simp, h.2.2.2⟩
  · rw [actsPackAll_eq t s order zs cl ho]
    have hr := reach_finish false cl
      (reach_foldl _ (fun w c h => reach_wPackLooseC cl c h) (order.zip zs) _ (reach_init inv))
    have hsyn := syn_finish false (syn_foldl_packAll t cl (order.zip zs) _ _ (syn_init cl s))
    have h := done_core hr.2 hsyn.1 hsyn.2
    have hl : order.zip zs ≠ [] := by
      cases order with
      | nil => exact absurd rfl ho
      | cons a l =>
        cases zs with
        | nil => simp at hz
        | cons b l' => simp
    rw [foldl_wPackLooseC_s t cl _ _ inv.target_pos] at h
    rw [writeAll_openCur t s _ inv.target_pos hl]
    have hfst : (order.zip zs).map (·.1) = order := List.map_fst_zip (by omega)
    rw [hfst] at h
    have ht := writeAll_target t (order.zip zs) s
    cases cl
    · simp only [Bool.false_eq_true, if_false, List.nil_append] at h ⊢
      exact ⟨h.1, h.2.1, by rw [h.2.2.1]; simp, by rw [h.2.2.2, ht]⟩
    · simp only [if_true, List.nil_append] at h ⊢
      exact ⟨h.1, h.2.1, by rw [h.2.2.1]; simp [removeLoose], by rw [h.2.2.2]; exact ht.symm⟩

/-- writing directly to packs is safe at every cut point, whatever the options -/
theorem safe_addPacked {t : Tab} (wf : t.WF) {s : St} (inv : Inv t s) (hb : Bounded s) (cs : List Nat)
    (hc : ∀ c ∈ cs, c < garbage) (z nh rt : Bool) : AllSafe t s (actsAddPacked t s cs z nh rt) (keysOf s) := by
  have _ := hb
  have _ := hc
  apply allSafe_of_allGood wf
  by_cases hcs : cs = []
  · subst hcs
    exact allGood_nil (good_ofSt inv)
  · rw [actsAddPacked_eq t s cs z nh rt hcs]
    exact (reach_finish nh false
      (reach_foldl _ (fun w c h => reach_wAddPacked z nh rt c h) cs _ (reach_init inv))).1

/-- packing loose objects, with or without deleting the packed loose files pack by pack, is safe at every cut point -/
theorem safe_packAll {t : Tab} (wf : t.WF) {s : St} (inv : Inv t s) (hb : Bounded s) (order : List Nat) (zs : List Bool)
    (cl : Bool) (ho : ∀ k ∈ order, hasLoose s k = true ∧ hasRow s k = false) (hn : order.Nodup)
    (hz : zs.length = order.length) : AllSafe t s (actsPackAll t s order zs cl) (keysOf s) := by
  have _ := hb
  have _ := ho
  have _ := hn
  have _ := hz
  apply allSafe_of_allGood wf
  by_cases hcs : order = []
  · subst hcs
    exact allGood_nil (good_ofSt inv)
  · rw [actsPackAll_eq t s order zs cl hcs]
    exact (reach_finish false cl
      (reach_foldl _ (fun w c h => reach_wPackLooseC cl c h) _ _ (reach_init inv))).1

end Dos.IO
