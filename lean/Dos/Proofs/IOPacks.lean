/-
Level C for the pack writers: direct-to-pack additions and `pack_all_loose` (with or without per-pack cleaning).
-/
import Dos.IOSpec
import Dos.Proofs.Step

namespace Dos.IO
open Dos

theorem done_addPacked {t : Tab} {s : St} (inv : Inv t s) (cs : List Nat) (z nh rt : Bool) :
    SameDisk (toSt (execAll (ofSt s) (actsAddPacked t s cs z nh rt))) (addPacked t s cs z nh) := by
  sorry

/-- writing directly to packs is safe at every cut point, whatever the options -/
theorem safe_addPacked {t : Tab} (wf : t.WF) {s : St} (inv : Inv t s) (hb : Bounded s) (cs : List Nat)
    (hc : ∀ c ∈ cs, c < garbage) (z nh rt : Bool) : AllSafe t s (actsAddPacked t s cs z nh rt) (keysOf s) := by
  sorry

theorem done_packAll {t : Tab} {s s' : St} (inv : Inv t s) {m : Mode} {order : List Nat} {zs : List Bool} {cl : Bool}
    (h : packAll t s m order zs cl = some s') :
    SameDisk (toSt (execAll (ofSt s) (actsPackAll t s order zs cl))) s' := by
  sorry

/-- packing loose objects, with or without deleting the packed loose files pack by pack, is safe at every cut point -/
theorem safe_packAll {t : Tab} (wf : t.WF) {s : St} (inv : Inv t s) (hb : Bounded s) (order : List Nat) (zs : List Bool)
    (cl : Bool) (ho : ∀ k ∈ order, hasLoose s k = true ∧ hasRow s k = false) (hn : order.Nodup)
    (hz : zs.length = order.length) : AllSafe t s (actsPackAll t s order zs cl) (keysOf s) := by
  sorry

end Dos.IO
