/-
Direct-to-pack writers and `import_objects` as the packing client of the interleaving model: with `no_holes=False` (nothing
is ever truncated) their action lists respect the packer discipline under every interleaving with loose writers and
readers, whatever `do_fsync` is - so `reader_correct`, `reader_never_wrong`, `acked_available` (C04) and the backup
theorems (C15: "direct-to-pack steps" among the concurrent steps) apply to them as well.
-/
import Dos.IOImport
import Dos.Proofs.ConcProofs
import Dos.Proofs.IOImportProofs
import Dos.Proofs.ConcDirectAux

namespace Dos.Conc
open Dos Dos.IO

theorem addPackedO_disciplined {t : Tab} (wf : t.WF) {s : St} (inv : Inv t s) (wkeys rkeys : List Nat)
    (cs : List Nat) (z rt doFsync : Bool) (sched : List Ev)
    (hp : ∃ rest, actsAddPackedO t s cs z false rt doFsync = pkActs sched ++ rest) :
    disciplined t (CSt.init s wkeys rkeys) sched = true := by
  obtain ⟨rest, hp⟩ := hp
  exact disciplined_of_allowed sched _ (ofSt s) _ rest ⟨rfl, rfl, rfl⟩ (allowed_addPackedO wf inv cs z rt doFsync) hp

theorem import_disciplined {t : Tab} (wf : t.WF) {s : St} (inv : Inv t s) (wkeys rkeys : List Nat)
    (calls : List (List Nat)) (z rt doFsync : Bool) (sched : List Ev)
    (hp : ∃ rest, actsImport t s calls z false rt doFsync = pkActs sched ++ rest) :
    disciplined t (CSt.init s wkeys rkeys) sched = true := by
  obtain ⟨rest, hp⟩ := hp
  exact disciplined_of_allowed sched _ (ofSt s) _ rest ⟨rfl, rfl, rfl⟩ (allowed_import wf inv calls z rt doFsync) hp

end Dos.Conc
