/-
Compression modes (C10) at Level B.
-/
import Dos.Proofs.Step

namespace Dos

/-! ### helpers -/

theorem mem_insertIgnore_of_mem {rows : List Row} (row : Row) {r : Row} (h : r ∈ rows) :
    r ∈ insertIgnore rows row := by
  unfold insertIgnore
  split
  · exact h
  · exact List.mem_append_left _ h

theorem writeAll_rows_kept (t : Tab) (l : List (Nat × Bool)) (s : St) :
    ∀ r ∈ s.rows, r ∈ (writeAll t s l).rows := by
  induction l generalizing s with
  | nil => intro r hr; exact hr
  | cons e rest ih =>
    obtain ⟨c, z⟩ := e
    intro r hr
    simp only [writeAll]
    apply ih
    exact mem_insertIgnore_of_mem _ hr

theorem writeAll_new_rows (t : Tab) (l : List (Nat × Bool)) (s : St) :
    ∀ r ∈ (writeAll t s l).rows, r ∈ s.rows ∨ ∃ cz ∈ l, r.key = cz.1 ∧ r.z = cz.2 := by
  induction l generalizing s with
  | nil => intro r hr; exact Or.inl hr
  | cons e rest ih =>
    obtain ⟨c, z⟩ := e
    intro r hr
    simp only [writeAll] at hr
    rcases ih _ r hr with h | ⟨cz, hcz, hk⟩
    · have h' : r ∈ insertIgnore s.rows _ := h
      rcases mem_insertIgnore h' with h'' | ⟨h'', _⟩
      · exact Or.inl h''
      · right
        refine ⟨(c, z), List.mem_cons_self, ?_, ?_⟩
        · rw [h'']
        · rw [h'']
    · exact Or.inr ⟨cz, List.mem_cons_of_mem _ hcz, hk⟩

/-- with one verdict per row, every rebuilt row carries the verdict paired with its source row -/
theorem rebuild_flag {t : Tab} {p : Nat} {rs : List Row} {zs : List Bool} {off : Nat} {r' : Row}
    (hlen : zs.length = rs.length) (h : r' ∈ (rebuild t p rs zs off).2) :
    ∃ rz ∈ rs.zip zs, r'.key = rz.1.key ∧ r'.z = rz.2 := by
  induction rs generalizing zs off with
  | nil => simp [rebuild_nil] at h
  | cons r rs ih =>
    cases zs with
    | nil => simp at hlen
    | cons z zs' =>
      rw [rebuild_cons] at h
      simp only [List.headD_cons, List.tail_cons] at h
      rcases List.mem_cons.mp h with h | h
      · subst h
        exact ⟨(r, z), by simp, rfl, rfl⟩
      · have hlen' : zs'.length = rs.length := by simpa using hlen
        obtain ⟨rz, hm, hh⟩ := ih hlen' h
        exact ⟨rz, by simp only [List.zip_cons_cons]; exact List.mem_cons_of_mem _ hm, hh⟩

/-- the two ways `repackPack` succeeds -/
theorem repackPack_cases {t : Tab} {s s' : St} {m : Mode} {p : Nat} {order : List Nat} {zs : List Bool}
    (h : repackPack t s m p order zs = some s') :
    s'.loose = s.loose ∧
    ((rowsOfPack s.rows p = [] ∧ s'.rows = s.rows) ∨
     (zs.length = (sortByOff (rowsOfPack s.rows p)).length ∧
      (∀ rz ∈ (sortByOff (rowsOfPack s.rows p)).zip zs, verdictOK m rz.1.z rz.1.len rz.1.size rz.2 = true) ∧
      s'.rows = s.rows.map (repackRow p (rebuild t p (sortByOff (rowsOfPack s.rows p)) zs 0).2))) := by
  unfold repackPack at h
  simp only at h
  split at h
  · rename_i hnil
    split at h
    · simp only [Option.some.injEq] at h
      subst h
      exact ⟨rfl, Or.inl ⟨hnil, rfl⟩⟩
    · simp at h
  · split at h
    · simp at h
    · rename_i h1
      split at h
      · simp at h
      · rename_i h2
        split at h
        · simp at h
        · rename_i h3
          simp only [Option.some.injEq] at h
          subst h
          refine ⟨rfl, Or.inr ⟨?_, ?_, rfl⟩⟩
          · simp only [bne_iff_ne, ne_eq, Decidable.not_not] at h1 h2
            rw [h2, h1, List.length_map]
          · simp only [Bool.not_eq_true, Bool.not_eq_false', List.all_eq_true] at h3
            exact h3

/-! ### the theorems -/

/-- recorded size = content length; recorded stored length = bytes occupied in the pack -/
theorem row_size_len {t : Tab} {s : St} (inv : Inv t s) {r : Row} (hr : r ∈ s.rows) :
    r.size = t.size r.key ∧ r.len = (if r.z then t.zlen r.key else t.size r.key) ∧ (r.z = false → r.len = r.size) := by
  obtain ⟨_, _, _, _, _, _, hl, hs⟩ := inv.rows_ok r hr
  simp only [Seg.len] at hl
  refine ⟨hs, hl, ?_⟩
  intro hz
  rw [hl, hs, hz]
  simp

/-- rows present before `pack_all_loose` are untouched -/
theorem packAll_rows_kept {t : Tab} {s s' : St} {m : Mode} {order : List Nat} {zs : List Bool} {cl : Bool}
    (h : packAll t s m order zs cl = some s') : ∀ r ∈ s.rows, r ∈ s'.rows := by
  unfold packAll at h
  split at h
  · exact absurd h (by simp)
  split at h
  · exact absurd h (by simp)
  split at h
  · exact absurd h (by simp)
  split at h
  · exact absurd h (by simp)
  simp only at h
  split at h
  · cases h
    intro r hr; exact hr
  · cases h
    intro r hr
    have h1 : r ∈ (writeAll t (openCur t s) (order.zip zs)).rows := writeAll_rows_kept t _ _ r hr
    split
    · exact h1
    · exact h1

/-- the rows `pack_all_loose` creates are exactly those of the loose-only keys, stored as the mode demands -/
theorem packAll_new_rows {t : Tab} {s s' : St} (inv : Inv t s) {m : Mode} {order : List Nat} {zs : List Bool} {cl : Bool}
    (h : packAll t s m order zs cl = some s') :
    ∀ r ∈ s'.rows, r ∈ s.rows ∨
      (r.key ∈ toPack s ∧ (m = .yes → r.z = true) ∧ (m = .no → r.z = false) ∧ (m = .keep → r.z = false)) := by
  have _ := inv  -- the invariant is not needed for this clause
  unfold packAll at h
  split at h
  · exact absurd h (by simp)
  rename_i h1
  split at h
  · exact absurd h (by simp)
  split at h
  · exact absurd h (by simp)
  split at h
  · exact absurd h (by simp)
  rename_i h4
  simp only [Bool.not_eq_true, Bool.not_eq_false', Bool.and_eq_true] at h1
  simp only [Bool.not_eq_true, Bool.not_eq_false', List.all_eq_true] at h4
  simp only at h
  split at h
  · cases h
    intro r hr; exact Or.inl hr
  · cases h
    intro r hr
    have hr' : r ∈ (writeAll t (openCur t s) (order.zip zs)).rows := by
      split at hr
      · exact hr
      · exact hr
    rcases writeAll_new_rows t _ _ r hr' with h' | ⟨cz, hcz, hk, hz⟩
    · exact Or.inl h'
    · right
      have hv := h4 cz hcz
      have hmem : cz.1 ∈ order := (List.of_mem_zip hcz).1
      refine ⟨?_, ?_, ?_, ?_⟩
      · rw [hk]; exact (mem_of_isPerm h1.2 _).mp hmem
      · intro hm; subst hm; rw [hz]; simpa [verdictOK] using hv
      · intro hm; subst hm; rw [hz]; simpa [verdictOK] using hv
      · intro hm; subst hm; rw [hz]; simpa [verdictOK] using hv

/-- one repacked pack: every row keeps id, key, pack and size; its flag is an admissible verdict -/
theorem repackPack_rows {t : Tab} {s s' : St} (inv : Inv t s) {m : Mode} {p : Nat} {order : List Nat} {zs : List Bool}
    (h : repackPack t s m p order zs = some s') :
    s'.rows.map (·.key) = s.rows.map (·.key) ∧
    (∀ r' ∈ s'.rows, ∃ r ∈ s.rows, r'.key = r.key ∧ r'.id = r.id ∧ r'.size = r.size ∧ r'.pack = r.pack ∧
        (r.pack ≠ p → r' = r) ∧
        (r.pack = p → verdictOK m r.z r.len r.size r'.z = true)) := by
  refine ⟨(rowKeys_repackPack h).1, ?_⟩
  obtain ⟨_, hc | ⟨hlen, hall, hrows⟩⟩ := repackPack_cases h
  · obtain ⟨hnil, hrows⟩ := hc
    intro r' hr'
    rw [hrows] at hr'
    refine ⟨r', hr', rfl, rfl, rfl, rfl, fun _ => rfl, ?_⟩
    intro hp
    have : r' ∈ rowsOfPack s.rows p := mem_rowsOfPack.mpr ⟨hr', hp⟩
    rw [hnil] at this
    simp at this
  · intro r' hr'
    rw [hrows] at hr'
    obtain ⟨r, hr, rfl⟩ := List.mem_map.mp hr'
    obtain ⟨hk, hi, hpk, hsz, hne, heq⟩ := repackRow_spec inv p zs hr
    refine ⟨r, hr, hk, hi, hsz, hpk, hne, ?_⟩
    intro hp
    obtain ⟨rz, hrz, hk', hz'⟩ := rebuild_flag hlen (heq hp)
    have hv := hall rz hrz
    have hm0 : rz.1 ∈ s.rows := (mem_rowsOfPack.mp (mem_sortByOff.mp (List.of_mem_zip hrz).1)).1
    have : rz.1 = r := eq_of_key_eq inv.keys_nodup hm0 hr (by rw [← hk', hk])
    rw [hz', ← this]
    exact hv

/-- generic form of `repackAll_yes/no`: a property forced by every admissible verdict holds of every row whose
    pack is named in the plan; the other rows are untouched -/
theorem repackAll_forced {t : Tab} {m : Mode} (P : Bool → Prop)
    (hP : ∀ z len size z', verdictOK m z len size z' = true → P z')
    {plan : List (Nat × List Nat × List Bool)} {s s' : St} (inv : Inv t s)
    (h : repackAll t m s plan = some s') :
    ∀ r ∈ s'.rows, P r.z ∨ (r ∈ s.rows ∧ r.pack ∉ plan.map (·.1)) := by
  induction plan generalizing s with
  | nil =>
    simp only [repackAll, Option.some.injEq] at h
    subst h
    intro r hr
    exact Or.inr ⟨hr, by simp⟩
  | cons e rest ih =>
    obtain ⟨p, order, zs⟩ := e
    simp only [repackAll] at h
    split at h
    · simp at h
    · rename_i s1 hs1
      intro r' hr'
      rcases ih (inv_repackPack inv hs1) h r' hr' with hp | ⟨hm1, hnot⟩
      · exact Or.inl hp
      · obtain ⟨r, hr, _, _, _, hpk, hne, heq⟩ := (repackPack_rows inv hs1).2 r' hm1
        by_cases hp : r.pack = p
        · exact Or.inl (hP _ _ _ _ (heq hp))
        · have : r' = r := hne hp
          subst this
          refine Or.inr ⟨hr, ?_⟩
          simp only [List.map_cons, List.mem_cons, not_or]
          exact ⟨hp, hnot⟩

/-- full repack: every row of a pack named in the plan ends up with an admissible verdict w.r.t. some earlier form,
    in particular YES leaves everything compressed, NO uncompressed, KEEP as it was. -/
theorem repackAll_yes {t : Tab} {plan : List (Nat × List Nat × List Bool)} {s s' : St} (inv : Inv t s)
    (h : repackAll t .yes s plan = some s') (cover : ∀ r ∈ s.rows, r.pack ∈ plan.map (·.1)) :
    ∀ r ∈ s'.rows, r.z = true := by
  intro r hr
  rcases repackAll_forced (fun z => z = true) (by intro z l sz z' hv; simpa [verdictOK] using hv) inv h r hr with h' | ⟨h1, h2⟩
  · exact h'
  · exact absurd (cover r h1) h2

theorem repackAll_no {t : Tab} {plan : List (Nat × List Nat × List Bool)} {s s' : St} (inv : Inv t s)
    (h : repackAll t .no s plan = some s') (cover : ∀ r ∈ s.rows, r.pack ∈ plan.map (·.1)) :
    ∀ r ∈ s'.rows, r.z = false := by
  intro r hr
  rcases repackAll_forced (fun z => z = false) (by intro z l sz z' hv; simpa [verdictOK] using hv) inv h r hr with h' | ⟨h1, h2⟩
  · exact h'
  · exact absurd (cover r h1) h2

theorem repackAll_keep {t : Tab} {plan : List (Nat × List Nat × List Bool)} {s s' : St} (inv : Inv t s)
    (h : repackAll t .keep s plan = some s') :
    ∀ r' ∈ s'.rows, ∃ r ∈ s.rows, r'.key = r.key ∧ r'.z = r.z ∧ r'.size = r.size ∧ r'.len = r.len := by
  induction plan generalizing s with
  | nil =>
    simp only [repackAll, Option.some.injEq] at h
    subst h
    intro r hr
    exact ⟨r, hr, rfl, rfl, rfl, rfl⟩
  | cons e rest ih =>
    obtain ⟨p, order, zs⟩ := e
    simp only [repackAll] at h
    split at h
    · simp at h
    · rename_i s1 hs1
      have inv1 := inv_repackPack inv hs1
      intro r' hr'
      obtain ⟨r1, hr1, hk1, hz1, hs1', hl1⟩ := ih inv1 h r' hr'
      obtain ⟨r, hr, hk, _, hsz, _, hne, heq⟩ := (repackPack_rows inv hs1).2 r1 hr1
      have hz : r1.z = r.z := by
        by_cases hp : r.pack = p
        · simpa [verdictOK] using heq hp
        · rw [hne hp]
      have hl : r1.len = r.len := by
        rw [(row_size_len inv1 hr1).2.1, (row_size_len inv hr).2.1, hz, hk]
      exact ⟨r, hr, by rw [hk1, hk], by rw [hz1, hz], by rw [hs1', hsz], by rw [hl1, hl]⟩

/-- whatever the mode (AUTO included) a repack never changes the keys, ids or sizes -/
theorem repackPack_keys {t : Tab} {m : Mode} {p : Nat} {order : List Nat} {zs : List Bool} {s s' : St} (inv : Inv t s)
    (h : repackPack t s m p order zs = some s') :
    s'.rows.map (·.key) = s.rows.map (·.key) ∧ s'.rows.map (·.id) = s.rows.map (·.id) ∧
    s'.rows.map (·.size) = s.rows.map (·.size) ∧ s'.loose = s.loose := by
  obtain ⟨hl, hc | ⟨_, _, hrows⟩⟩ := repackPack_cases h
  · rw [hc.2]; exact ⟨rfl, rfl, rfl, hl⟩
  · rw [hrows]
    simp only [List.map_map]
    refine ⟨?_, ?_, ?_, hl⟩
    · apply List.map_congr_left
      intro r hr
      exact (repackRow_spec inv p zs hr).1
    · apply List.map_congr_left
      intro r hr
      exact (repackRow_spec inv p zs hr).2.1
    · apply List.map_congr_left
      intro r hr
      exact (repackRow_spec inv p zs hr).2.2.2.1

theorem repackAll_keys {t : Tab} {m : Mode} {plan : List (Nat × List Nat × List Bool)} {s s' : St} (inv : Inv t s)
    (h : repackAll t m s plan = some s') :
    s'.rows.map (·.key) = s.rows.map (·.key) ∧ s'.rows.map (·.id) = s.rows.map (·.id) ∧
    s'.rows.map (·.size) = s.rows.map (·.size) ∧ s'.loose = s.loose := by
  induction plan generalizing s with
  | nil =>
    simp only [repackAll, Option.some.injEq] at h
    subst h
    exact ⟨rfl, rfl, rfl, rfl⟩
  | cons e rest ih =>
    obtain ⟨p, order, zs⟩ := e
    simp only [repackAll] at h
    split at h
    · simp at h
    · rename_i s1 hs1
      obtain ⟨a1, a2, a3, a4⟩ := repackPack_keys inv hs1
      obtain ⟨b1, b2, b3, b4⟩ := ih (inv_repackPack inv hs1) h
      exact ⟨b1.trans a1, b2.trans a2, b3.trans a3, b4.trans a4⟩

end Dos
