/-
The decoder contract is satisfiable: the run-length toy decoder used by the correspondence harness satisfies it
for the streams its encoder produces (non-vacuity of `decomp_refines_ref`).
-/
import Dos.StreamSpec

namespace Dos.Stream

namespace Toy

/-! ### well-formed record streams -/

/-- `Enc er br`: `er` is a complete record stream (records, then `[0, 0]`) that decodes to `br` -/
inductive Enc : Bytes → Bytes → Prop
  | nil : Enc [0, 0] []
  | lit (x : UInt8) (er br : Bytes) : Enc er br → Enc (1 :: x :: er) (x :: br)
  | run (x k : UInt8) (er br : Bytes) : 1 ≤ k.toNat → Enc er br →
      Enc (2 :: x :: k :: er) (List.replicate k.toNat x ++ br)

theorem Enc.inv {er br : Bytes} (h : Enc er br) :
    (er = [0, 0] ∧ br = []) ∨
    (∃ x er' br', er = 1 :: x :: er' ∧ br = x :: br' ∧ Enc er' br') ∨
    (∃ x k er' br', er = 2 :: x :: k :: er' ∧ br = List.replicate k.toNat x ++ br' ∧ 1 ≤ k.toNat ∧ Enc er' br') := by
  cases h with
  | nil => exact Or.inl ⟨rfl, rfl⟩
  | lit x er br h => exact Or.inr (Or.inl ⟨x, er, br, rfl, rfl, h⟩)
  | run x k er br hk h => exact Or.inr (Or.inr ⟨x, k, er, br, rfl, rfl, hk, h⟩)

theorem Enc.ne_nil {er br : Bytes} (h : Enc er br) : er ≠ [] := by
  cases h <;> simp

/-- the bytes of an incomplete record -/
def HoldOK (h : Bytes) : Prop := h = [] ∨ h = [0] ∨ h = [1] ∨ h = [2] ∨ ∃ x, h = [2, x]

/-- `G st er br`: from state `st`, the rest `er` of the compressed stream yields exactly `br` and ends the stream -/
def G (st : ToyState) (er br : Bytes) : Prop :=
  st.bad = false ∧
  if st.eof = true then er = [] ∧ br = []
  else match st.run with
    | some (x, k) => st.hold = [] ∧ 1 ≤ k ∧ ∃ br', br = List.replicate k x ++ br' ∧ Enc er br'
    | none => HoldOK st.hold ∧ Enc (st.hold ++ er) br

theorem G.eof_iff {st : ToyState} {er br : Bytes} (h : G st er br) : st.eof = true ↔ er = [] := by
  obtain ⟨_, h⟩ := h
  by_cases he : st.eof = true
  · simp only [he, if_true] at h; simp [he, h.1]
  · simp only [he] at h
    constructor
    · intro h'; exact absurd h' he
    · intro h'
      subst h'
      exfalso
      cases hr : st.run with
      | some p =>
        obtain ⟨x, k⟩ := p
        simp only [hr] at h
        obtain ⟨_, _, br', _, h⟩ := h
        exact h.ne_nil rfl
      | none =>
        simp only [hr, List.append_nil] at h
        obtain ⟨hh, h⟩ := h
        rcases hh with hh | hh | hh | hh | ⟨x, hh⟩ <;> rw [hh] at h <;>
          rcases h.inv with h' | ⟨_, _, _, h', _⟩ | ⟨_, _, _, _, h', _⟩ <;> simp at h'

theorem G.nil_out {st : ToyState} {br : Bytes} (h : G st [] br) : br = [] := by
  have he := h.eof_iff.2 rfl
  obtain ⟨_, h⟩ := h
  simp only [he, if_true] at h
  exact h.2

/-! ### one iteration of `toyGo` -/

section step
variable (st : ToyState) (f room : Nat) (out rest : Bytes)

theorem go_eof (h : st.eof = true) (inp : Bytes) :
    toyGo (f + 1) st inp room out = ({ st with tail := [] }, out) := by
  simp [toyGo, h]

theorem go_run (h1 : st.eof = false) (h2 : st.bad = false) (x : UInt8) (k : Nat) (h3 : st.run = some (x, k))
    (hr : room ≠ 0) (inp : Bytes) :
    toyGo (f + 1) st inp room out =
      toyGo f { st with run := if k - min k room = 0 then none else some (x, k - min k room) } inp
        (room - min k room) (out ++ List.replicate (min k room) x) := by
  simp [toyGo, h1, h2, h3, hr]

theorem go_room0 (h1 : st.eof = false) (h2 : st.bad = false) (inp : Bytes) :
    toyGo (f + 1) st inp 0 out = ({ st with tail := inp }, out) := by
  cases h3 : st.run with
  | none => simp [toyGo, h1, h2, h3]
  | some p => simp [toyGo, h1, h2, h3]

theorem go_nil (h1 : st.eof = false) (h2 : st.bad = false) (h3 : st.run = none) :
    toyGo (f + 1) st [] room out = ({ st with tail := [] }, out) := by
  by_cases hr : room = 0 <;> simp [toyGo, h1, h2, h3, hr]

variable (h1 : st.eof = false) (h2 : st.bad = false) (h3 : st.run = none) (hr : room ≠ 0)
include h1 h2 h3 hr

theorem go_hold0 (b : UInt8) (hb : b = 0 ∨ b = 1 ∨ b = 2) (h4 : st.hold = []) :
    toyGo (f + 1) st (b :: rest) room out = toyGo f { st with hold := [b] } rest room out := by
  rcases hb with hb | hb | hb <;> subst hb <;> simp [toyGo, h1, h2, h3, h4, hr]

theorem go_hold2 (x : UInt8) (h4 : st.hold = [2]) :
    toyGo (f + 1) st (x :: rest) room out = toyGo f { st with hold := [2, x] } rest room out := by
  simp [toyGo, h1, h2, h3, h4, hr]

theorem go_end (h4 : st.hold = [0]) :
    toyGo (f + 1) st (0 :: rest) room out = toyGo f { st with hold := [], eof := true } rest room out := by
  simp [toyGo, h1, h2, h3, h4, hr]

theorem go_lit (x : UInt8) (h4 : st.hold = [1]) :
    toyGo (f + 1) st (x :: rest) room out = toyGo f { st with hold := [] } rest (room - 1) (out ++ [x]) := by
  simp [toyGo, h1, h2, h3, h4, hr]

theorem go_runrec (x k : UInt8) (hk : 1 ≤ k.toNat) (h4 : st.hold = [2, x]) :
    toyGo (f + 1) st (k :: rest) room out =
      toyGo f { st with hold := [], run := some (x, k.toNat) } rest room out := by
  have hk' : k.toNat ≠ 0 := by omega
  simp [toyGo, h1, h2, h3, h4, hr, hk']

end step

/-! ### the loop -/

/-- what a run of `toyGo` from a good state guarantees: it consumed a prefix `ci` of `inp`, appended a prefix `o`
    of the expected content to `out`, and is again in a good state -/
def Post (r : ToyState × Bytes) (inp t br out : Bytes) (room : Nat) : Prop :=
  ∃ ci o br', inp = ci ++ r.1.tail ∧ br = o ++ br' ∧ r.2 = out ++ o ∧ o.length ≤ room ∧
    G r.1 (r.1.tail ++ t) br' ∧ (o.length < room → r.1.tail = [])

theorem Post.consume {r : ToyState × Bytes} {rest t br out : Bytes} {room : Nat} (b : UInt8)
    (h : Post r rest t br out room) : Post r (b :: rest) t br out room := by
  obtain ⟨ci, o, br', h1, h2, h3, h4, h5, h6⟩ := h
  exact ⟨b :: ci, o, br', by rw [h1]; simp, h2, h3, h4, h5, h6⟩

theorem Post.emit {r : ToyState × Bytes} {inp t br out : Bytes} {room : Nat} (p : Bytes) (n : Nat)
    (hn : p.length = n) (hp : n ≤ room)
    (h : Post r inp t br (out ++ p) (room - n)) : Post r inp t (p ++ br) out room := by
  subst hn
  obtain ⟨ci, o, br', h1, h2, h3, h4, h5, h6⟩ := h
  refine ⟨ci, p ++ o, br', h1, by rw [h2]; simp, by rw [h3]; simp, ?_, h5, ?_⟩
  · simp only [List.length_append]; omega
  · intro hlt; apply h6; simp only [List.length_append] at hlt; omega

theorem Post.stop (st : ToyState) (inp t br out : Bytes) (room : Nat) (hG : G st (inp ++ t) br)
    (hroom : inp = [] ∨ room = 0) : Post ({ st with tail := inp }, out) inp t br out room := by
  refine ⟨[], [], br, rfl, rfl, by simp, by simp, hG, ?_⟩
  intro h
  rcases hroom with h' | h'
  · exact h'
  · simp [h'] at h

theorem toyGo_spec : ∀ (f : Nat) (st : ToyState) (inp : Bytes) (room : Nat) (out t br : Bytes),
    G st (inp ++ t) br → inp.length + room < f → Post (toyGo f st inp room out) inp t br out room := by
  intro f
  induction f with
  | zero => intro st inp room out t br _ h; omega
  | succ f ih =>
    intro st inp room out t br hG hf
    have hG0 := hG
    obtain ⟨hbad, hG⟩ := hG
    by_cases heof : st.eof = true
    · -- already at the end of the stream
      simp only [heof, if_true] at hG
      obtain ⟨hnil, hbr⟩ := hG
      have hinp : inp = [] := (List.append_eq_nil_iff.1 hnil).1
      subst hinp
      rw [go_eof st f room out heof]
      exact Post.stop st [] t br out room hG0 (Or.inl rfl)
    · have heof' : st.eof = false := by simpa using heof
      simp only [heof] at hG
      by_cases hr : room = 0
      · subst hr
        rw [go_room0 st f out heof' hbad]
        exact Post.stop st inp t br out 0 hG0 (Or.inr rfl)
      cases hrun : st.run with
      | some p =>
        obtain ⟨x, k⟩ := p
        simp only [hrun] at hG
        obtain ⟨hhold, hk, br', hbr, henc⟩ := hG
        rw [go_run st f room out heof' hbad x k hrun hr]
        have hn : 1 ≤ min k room := by omega
        have hsplit : br = List.replicate (min k room) x ++ (List.replicate (k - min k room) x ++ br') := by
          rw [hbr, ← List.append_assoc, List.replicate_append_replicate]
          congr 2; omega
        rw [hsplit]
        apply Post.emit _ (min k room) (by simp) (by omega)
        · apply ih
          · refine ⟨hbad, ?_⟩
            simp only [heof]
            by_cases hz : k - min k room = 0
            · simp [hz, hhold, HoldOK, henc]
            · simp only [hz, if_false]
              exact ⟨hhold, by omega, br', rfl, henc⟩
          · omega
      | none =>
        simp only [hrun] at hG
        obtain ⟨hh, henc⟩ := hG
        cases inp with
        | nil =>
          rw [go_nil st f room out heof' hbad hrun]
          exact Post.stop st [] t br out room hG0 (Or.inl rfl)
        | cons b rest =>
          have hf' : rest.length + room < f := by simp only [List.length_cons] at hf; omega
          apply Post.consume
          rcases hh with hh | hh | hh | hh | ⟨x, hh⟩
          · -- first byte of a record
            rw [hh, List.nil_append, List.cons_append] at henc
            have hb : b = 0 ∨ b = 1 ∨ b = 2 := by
              rcases henc.inv with ⟨h', _⟩ | ⟨_, _, _, h', _⟩ | ⟨_, _, _, _, h', _⟩ <;>
                simp only [List.cons.injEq] at h' <;> simp [h'.1]
            rw [go_hold0 st f room out rest heof' hbad hrun hr b hb hh]
            refine ih _ _ _ _ _ _ ?_ hf'
            refine ⟨hbad, ?_⟩
            simp only [heof, hrun]
            refine ⟨?_, by simpa using henc⟩
            rcases hb with hb | hb | hb <;> subst hb <;> simp [HoldOK]
          · -- [0, b]
            rw [hh] at henc
            rcases henc.inv with ⟨h', hbr⟩ | ⟨_, _, _, h', _⟩ | ⟨_, _, _, _, h', _⟩ <;>
              simp at h'
            obtain ⟨hb, hrest⟩ := h'
            subst hb
            rw [go_end st f room out rest heof' hbad hrun hr hh]
            refine ih _ _ _ _ _ _ ?_ hf'
            exact ⟨hbad, by simp [hrest, hbr]⟩
          · -- [1, b]
            rw [hh] at henc
            rcases henc.inv with ⟨h', hbr⟩ | ⟨y, er', br', h', hbr, henc'⟩ | ⟨_, _, _, _, h', _⟩ <;>
              simp at h'
            obtain ⟨hb, hrest⟩ := h'
            subst hb
            rw [go_lit st f room out rest heof' hbad hrun hr b hh, hbr]
            apply Post.emit [b] 1 rfl (by omega)
            apply ih
            · refine ⟨hbad, ?_⟩
              simp only [heof, hrun]
              exact ⟨Or.inl rfl, by simpa [hrest] using henc'⟩
            · omega
          · -- [2, b]
            rw [go_hold2 st f room out rest heof' hbad hrun hr b hh]
            refine ih _ _ _ _ _ _ ?_ hf'
            refine ⟨hbad, ?_⟩
            simp only [heof, hrun]
            exact ⟨Or.inr (Or.inr (Or.inr (Or.inr ⟨b, rfl⟩))), by simpa [hh] using henc⟩
          · -- [2, x, b]
            rw [hh] at henc
            rcases henc.inv with ⟨h', hbr⟩ | ⟨_, _, _, h', _⟩ | ⟨y, k, er', br', h', hbr, hk, henc'⟩ <;>
              simp at h'
            obtain ⟨hx, hb, hrest⟩ := h'
            subst hx hb
            rw [go_runrec st f room out rest heof' hbad hrun hr x b hk hh]
            refine ih _ _ _ _ _ _ ?_ hf'
            refine ⟨hbad, ?_⟩
            simp only [heof]
            exact ⟨trivial, hk, br', hbr, by simpa [hrest] using henc'⟩

/-! ### the encoder produces well-formed record streams -/

theorem runLen_split (x : UInt8) : ∀ (ys : Bytes) (m : Nat), m ≤ runLen x ys →
    ys = List.replicate m x ++ ys.drop m := by
  intro ys
  induction ys with
  | nil => intro m hm; simp only [runLen] at hm; have : m = 0 := by omega
           subst this; rfl
  | cons y ys ih =>
    intro m hm
    cases m with
    | zero => rfl
    | succ m =>
      simp only [runLen] at hm
      by_cases hy : y = x
      · subst hy
        simp only [if_true] at hm
        have := ih m (by omega)
        simp only [List.replicate_succ, List.cons_append, List.drop_succ_cons]
        rw [← this]
      · simp only [hy, if_false] at hm; omega

theorem encGo_Enc : ∀ (f : Nat) (b : Bytes), b.length < f → Enc (toyEncGo f b) b := by
  intro f
  induction f with
  | zero => intro b h; omega
  | succ f ih =>
    intro b hb
    cases b with
    | nil => simp only [toyEncGo]; exact Enc.nil
    | cons x rest =>
      simp only [toyEncGo]
      simp only [List.length_cons] at hb
      split
      · next hn =>
        have hle : min (1 + runLen x rest) 255 - 1 ≤ runLen x rest := by omega
        have hsp := runLen_split x rest _ hle
        have hto : (UInt8.ofNat (min (1 + runLen x rest) 255)).toNat = min (1 + runLen x rest) 255 := by
          rw [UInt8.toNat_ofNat']; omega
        have hxr : x :: rest = List.replicate (UInt8.ofNat (min (1 + runLen x rest) 255)).toNat x ++
            rest.drop (min (1 + runLen x rest) 255 - 1) := by
          rw [hto]
          have : min (1 + runLen x rest) 255 = (min (1 + runLen x rest) 255 - 1) + 1 := by omega
          rw [this, List.replicate_succ, List.cons_append, Nat.add_sub_cancel, ← hsp]
        simp only [List.cons_append, List.nil_append]
        have henc := Enc.run x (UInt8.ofNat (min (1 + runLen x rest) 255)) _ _ (by omega)
          (ih (rest.drop (min (1 + runLen x rest) 255 - 1)) (by simp only [List.length_drop]; omega))
        rw [← hxr] at henc
        exact henc
      · simp only [List.cons_append, List.nil_append]
        exact Enc.lit x _ _ (ih rest (by omega))

theorem toyEnc_Enc (b : Bytes) : Enc (toyEnc b) b := encGo_Enc _ _ (Nat.lt_succ_self _)

/-! ### the contract -/

/-- the ghost relation: after `c` bytes of `e`, with `q` bytes of `b` produced, the state is good for the rest -/
def R (e b : Bytes) (st : ToyState) (c q : Nat) : Prop :=
  c ≤ e.length ∧ q ≤ b.length ∧ G st (e.drop c) (b.drop q)

theorem feed_spec (e b : Bytes) (s : ToyState) (c q : Nat) (inp : Bytes) (max : Nat) (hR : R e b s c q)
    (hinp : inp = slice e c inp.length) (r : ToyState × Bytes)
    (hr : r = toyGo (2 * inp.length + 2 * max + 8) s inp max []) :
    ∃ c', R e b r.1 c' (q + r.2.length) ∧ r.2 = slice b q r.2.length ∧ r.2.length ≤ max ∧
      c ≤ c' ∧ c' ≤ c + inp.length ∧ r.1.tail = inp.drop (c' - c) ∧
      (r.2.length < max → c' = c + inp.length) ∧
      (r.1.eof = true ↔ c' = e.length) ∧ (c' = e.length → q + r.2.length = b.length) := by
  obtain ⟨hc, hq, hG⟩ := hR
  obtain ⟨T, hsplit⟩ : ∃ T, e.drop c = inp ++ T := by
    refine ⟨(e.drop c).drop inp.length, ?_⟩
    have := List.take_append_drop inp.length (e.drop c)
    rw [slice] at hinp
    rw [← hinp] at this
    exact this.symm
  rw [hsplit] at hG
  have hspec := toyGo_spec (2 * inp.length + 2 * max + 8) s inp max [] _ _ hG (by omega)
  rw [← hr] at hspec
  obtain ⟨ci, o, br', h1, h2, h3, h4, h5, h6⟩ := hspec
  rw [List.nil_append] at h3
  have hlen : inp.length = ci.length + r.1.tail.length := by
    have := congrArg List.length h1
    simpa using this
  have he : e.drop (c + ci.length) = r.1.tail ++ T := by
    rw [← List.drop_drop, hsplit, h1, List.append_assoc, List.drop_left]
  have hb : b.drop (q + o.length) = br' := by
    rw [← List.drop_drop, h2, List.drop_left]
  have helen : inp.length + T.length = e.length - c := by
    have := congrArg List.length hsplit
    simpa using this.symm
  have hblen : o.length + br'.length = b.length - q := by
    have := congrArg List.length h2
    simpa using this.symm
  rw [← he] at h5
  rw [← hb] at h5
  refine ⟨c + ci.length, ⟨by omega, by rw [h3]; omega, by rw [h3]; exact h5⟩, ?_, by rw [h3]; exact h4,
    by omega, by omega, ?_, ?_, ?_, ?_⟩
  · rw [h3, slice, h2, List.take_left]
  · rw [Nat.add_sub_cancel_left]
    conv => rhs; rw [h1]
    rw [List.drop_left]
  · rw [h3]; intro hlt
    have := h6 hlt
    rw [this] at hlen
    simp at hlen; omega
  · rw [h5.eof_iff, List.drop_eq_nil_iff]
    omega
  · intro hce
    rw [hce, List.drop_length] at h5
    have := h5.nil_out
    rw [hb] at this
    rw [h3]; subst this
    simp at hblen; omega

end Toy

/-- the toy decoder satisfies the decoder contract for every content -/
def toy_valid (b : Bytes) : toyDecoder.Valid (toyEnc b) b where
  R := Toy.R (toyEnc b) b
  init_R := by
    refine ⟨Nat.zero_le _, Nat.zero_le _, rfl, ?_⟩
    exact ⟨Or.inl rfl, Toy.toyEnc_Enc b⟩
  init_tail := rfl
  bounds := fun _ _ _ h => ⟨h.1, h.2.1⟩
  feed_R := by
    intro s c q inp max hR _ hinp
    exact Toy.feed_spec (toyEnc b) b s c q inp max hR hinp _ rfl

end Dos.Stream
