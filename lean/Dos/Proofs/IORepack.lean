/-
Level C for `repack_pack`: copy to the temporary pack, commit, unlink the old pack, link back, commit, unlink.

A note on the formulation of `done_repackPack`.  The association list of pack files is a *set* of files: Level B
(`repackPack`) replaces pack `p` in place (`setPack`), whereas the action list unlinks `p` and links the temporary pack
back under the name `p`, which puts `p` at the end of the model's list.  Equality of the pack *lists* (`SameDisk`) is
therefore too strong (machine-checked witness: `Repack.Cx.*`, `done_repackPack_listorder_differs`); the statement proved,
`done_repackPack`, uses `SameFiles`: the pack lists are equal up to permutation and equal as maps (`getPack`); rows,
loose files and target are equal.  `done_repackPack_last` gives list equality when `p` is the last pack file or has no
rows; `Repack.done_repackPack_cons/_nil` give the exact final state.  `safe_repackPack` is the safety theorem.
-/
import Dos.IOSpec
import Dos.Proofs.Step
import Dos.Proofs.C11
import Dos.Proofs.IORepackAux

namespace Dos.IO
open Dos

/-- no pack file and no row uses the reserved id of the temporary pack -/
def NoTmp (s : St) : Prop := (∀ e ∈ s.packs, e.1 ≠ tmpId) ∧ (∀ r ∈ s.rows, r.pack ≠ tmpId)

namespace Repack

/-! ### the rows: moves and repointing -/

def setPk (q : Nat) (r : Row) : Row := { r with pack := q }

/-- the rows copied, in copy order -/
abbrev srt (s : St) (p : Nat) : List Row := sortByOff (rowsOfPack s.rows p)

/-- the rebuilt rows, as Level B computes them -/
abbrev rsP (t : Tab) (s : St) (p : Nat) (zs : List Bool) : List Row := (rebuild t p (srt s p) zs 0).2

/-- the committed index while (`q = tmpId`) and after (`q = p`) the rows of pack `p` name the copy -/
def mvd (t : Tab) (s : St) (p : Nat) (zs : List Bool) (q : Nat) (o : Row) : Row :=
  if o.pack = p then setPk q (repackRow p (rsP t s p zs) o) else o

theorem rebuild_fst_pack (t : Tab) (q q' : Nat) (rs : List Row) (zs : List Bool) (off : Nat) :
    (rebuild t q rs zs off).1 = (rebuild t q' rs zs off).1 := by
  induction rs generalizing zs off with
  | nil => rfl
  | cons r rs ih => simp only [rebuild_cons]; rw [ih]

theorem rebuild_snd_pack (t : Tab) (q q' : Nat) (rs : List Row) (zs : List Bool) (off : Nat) :
    (rebuild t q rs zs off).2 = (rebuild t q' rs zs off).2.map (setPk q) := by
  induction rs generalizing zs off with
  | nil => rfl
  | cons r rs ih => simp only [rebuild_cons, List.map_cons]; rw [ih]; rfl

def mvRow (o r : Row) : Row := if o.key = r.key then { r with id := o.id } else o
def mvStep (W : List Row) (r : Row) : List Row := W.map (fun o => mvRow o r)

theorem foldl_mvStep (l : List Row) (W : List Row) : l.foldl mvStep W = W.map (fun o => l.foldl mvRow o) := by
  induction l generalizing W with
  | nil => simp
  | cons r l ih => simp only [List.foldl_cons, ih, mvStep, List.map_map]; rfl

theorem mvRow_fold_none {l : List Row} {o : Row} (h : ∀ r ∈ l, r.key ≠ o.key) : l.foldl mvRow o = o := by
  induction l with
  | nil => rfl
  | cons r l ih =>
    have h1 : ¬ o.key = r.key := fun h' => h r (by simp) h'.symm
    simp only [List.foldl_cons, mvRow, h1, if_false]
    exact ih (fun r' hr' => h r' (List.mem_cons_of_mem _ hr'))

theorem mvRow_fold_some {l : List Row} (nd : (l.map (·.key)).Nodup) {o r : Row} (hr : r ∈ l) (hk : r.key = o.key) :
    l.foldl mvRow o = { r with id := o.id } := by
  induction l generalizing o with
  | nil => simp at hr
  | cons a l ih =>
    simp only [List.map_cons, List.nodup_cons] at nd
    rcases List.mem_cons.mp hr with h | h
    · subst h
      have e : mvRow o r = { r with id := o.id } := by simp [mvRow, hk]
      simp only [List.foldl_cons, e]
      apply mvRow_fold_none
      intro r' hr' hk'
      have hk'' : r'.key = r.key := hk'
      exact nd.1 (hk'' ▸ List.mem_map_of_mem (f := (·.key)) hr')
    · have h1 : ¬ o.key = a.key := by
        intro h'
        exact nd.1 (by rw [← h', ← hk]; exact List.mem_map_of_mem (f := (·.key)) h)
      simp only [List.foldl_cons, mvRow, h1, if_false]
      exact ih nd.2 h hk

/-- all `sqlMove`s together turn the index into the one whose rows of pack `p` name pack `q` -/
theorem moves_rows {t : Tab} {s : St} (inv : Inv t s) (p q : Nat) (zs : List Bool) :
    ((rsP t s p zs).map (setPk q)).foldl mvStep s.rows = s.rows.map (mvd t s p zs q) := by
  rw [foldl_mvStep]
  apply List.map_congr_left
  intro o ho
  have nd : (((rsP t s p zs).map (setPk q)).map (·.key)).Nodup := by
    rw [List.map_map]
    have : ((·.key) ∘ setPk q : Row → Nat) = (·.key) := rfl
    rw [this, rebuild_keys]
    exact rowsOfPack_keys_nodup inv p
  by_cases hp : o.pack = p
  · obtain ⟨r', hm', hf, h1, h2, _, _⟩ := repack_row inv p zs ho hp
    have e : repackRow p (rsP t s p zs) o = r' := by simp [repackRow, hp, hf]
    rw [mvRow_fold_some nd (List.mem_map_of_mem (f := setPk q) hm') (by simpa [setPk] using h1)]
    simp only [mvd, hp, if_true, e]
    cases r'
    simp_all [setPk]
  · simp only [mvd, hp, if_false]
    apply mvRow_fold_none
    intro r hr hk
    simp only [List.mem_map] at hr
    obtain ⟨r', hr', rfl⟩ := hr
    obtain ⟨r0, hr0, h1, _⟩ := rebuild_mem hr'
    obtain ⟨hr0', hr0p⟩ := mem_rowsOfPack.mp (mem_sortByOff.mp hr0)
    have : r0 = o := eq_of_key_eq inv.keys_nodup hr0' ho (by rw [← h1]; simpa [setPk] using hk)
    exact hp (this ▸ hr0p)

/-- `sqlRepoint tmpId p` after the first commit -/
theorem repoint_rows {t : Tab} {s : St} (p : Nat) (zs : List Bool) (hT : ∀ r ∈ s.rows, r.pack ≠ tmpId) :
    (s.rows.map (mvd t s p zs tmpId)).map (fun o => if o.pack = tmpId then { o with pack := p } else o) =
      s.rows.map (mvd t s p zs p) := by
  rw [List.map_map]
  apply List.map_congr_left
  intro o ho
  by_cases hp : o.pack = p
  · simp [mvd, hp, setPk]
  · simp [mvd, hp, hT o ho]

/-- after the second commit the index is the one Level B computes -/
theorem mvd_self {t : Tab} {s : St} (inv : Inv t s) (p : Nat) (zs : List Bool) :
    s.rows.map (mvd t s p zs p) = s.rows.map (repackRow p (rsP t s p zs)) := by
  apply List.map_congr_left
  intro o ho
  obtain ⟨_, _, h3, _, h5, _⟩ := repackRow_spec inv p zs ho
  by_cases hp : o.pack = p
  · simp only [mvd, hp, if_true]
    rw [hp] at h3
    generalize repackRow p (rsP t s p zs) o = r' at h3
    cases r'
    simp_all [setPk]
  · simp only [mvd, hp, if_false]
    exact (h5 hp).symm

/-! ### good states -/

theorem rowIn_of_inv {t : Tab} {s : St} (inv : Inv t s) {r : Row} (hr : r ∈ s.rows) :
    ∃ segs, getX (ofSt s).packs r.pack = some (full segs) ∧ RowIn t segs r := by
  obtain ⟨segs, h1, h2⟩ := rowOK_iff.mp (inv.rows_ok r hr)
  exact ⟨segs, by rw [getX_ofSt, h1]; rfl, h2⟩

/-- the index is the one of the start, and the packs it names are untouched -/
theorem good_same {t : Tab} {s : St} (inv : Inv t s) {x : XSt} (hl : x.loose = (ofSt s).loose)
    (ht : x.target = s.target) (hr : x.rows = s.rows)
    (hp : ∀ r ∈ s.rows, getX x.packs r.pack = getX (ofSt s).packs r.pack)
    (hn : (x.packs.map (·.1)).Nodup) : Good t s x := by
  refine ⟨hl, ht, by rw [hr], by rw [hr], by rw [hr]; exact inv.ids_pos, ?_, hn⟩
  intro r hr'
  rw [hr] at hr'
  rw [hp r hr']
  exact rowIn_of_inv inv hr'

/-- the rows of pack `p` name pack `q`, which holds the rebuilt layout, completely flushed and synced -/
theorem good_moved {t : Tab} {s : St} (inv : Inv t s) (p q : Nat) (zs : List Bool)
    (hq : ∀ r ∈ s.rows, r.pack ≠ p → r.pack ≠ q) {x : XSt} (hl : x.loose = (ofSt s).loose)
    (ht : x.target = s.target) (hr : x.rows = s.rows.map (mvd t s p zs q))
    (hq1 : getX x.packs q = some (full (rebuild t p (srt s p) zs 0).1))
    (hq2 : ∀ r ∈ s.rows, r.pack ≠ p → getX x.packs r.pack = getX (ofSt s).packs r.pack)
    (hn : (x.packs.map (·.1)).Nodup) : Good t s x := by
  have spec := fun (r : Row) (hr : r ∈ s.rows) => repackRow_spec inv p zs hr
  refine ⟨hl, ht, ?_, ?_, ?_, ?_, hn⟩
  · rw [hr, List.map_map]
    apply List.map_congr_left
    intro r hr'
    by_cases hp : r.pack = p
    · simp only [Function.comp, mvd, hp, if_true]
      exact (spec r hr').1
    · simp [mvd, hp]
  · rw [hr, List.map_map]
    apply List.map_congr_left
    intro r hr'
    by_cases hp : r.pack = p
    · simp only [Function.comp, mvd, hp, if_true]
      exact (spec r hr').2.1
    · simp [mvd, hp]
  · intro r1' h1' r2' h2' hpack hlt
    rw [hr] at h1' h2'
    simp only [List.mem_map] at h1' h2'
    obtain ⟨r1, hr1, rfl⟩ := h1'
    obtain ⟨r2, hr2, rfl⟩ := h2'
    obtain ⟨_, hi1, _, _, _, heq1⟩ := spec r1 hr1
    obtain ⟨_, hi2, _, _, _, heq2⟩ := spec r2 hr2
    by_cases hp1 : r1.pack = p <;> by_cases hp2 : r2.pack = p
    · simp only [mvd, hp1, hp2, if_true] at hlt ⊢
      exact rebuilt_pos inv p zs (a := repackRow p (rsP t s p zs) r1) (b := repackRow p (rsP t s p zs) r2)
        (heq1 hp1) (heq2 hp2) hlt
    · simp only [mvd, hp1, hp2, if_true, if_false] at hpack
      exact absurd hpack.symm (hq r2 hr2 hp2)
    · simp only [mvd, hp1, hp2, if_true, if_false] at hpack
      exact absurd hpack (hq r1 hr1 hp1)
    · simp only [mvd, hp1, hp2, if_false] at hpack hlt ⊢
      exact inv.ids_pos r1 hr1 r2 hr2 hpack hlt
  · intro r' hr'
    rw [hr] at hr'
    simp only [List.mem_map] at hr'
    obtain ⟨r, hr0, rfl⟩ := hr'
    obtain ⟨hk, _, _, hsz, _, heq⟩ := spec r hr0
    by_cases hp : r.pack = p
    · have hm' := heq hp
      obtain ⟨pre, post, hl1, hl2⟩ := rebuild_layout hm'
      obtain ⟨r0, _, _, _, _, _, hlen⟩ := rebuild_mem hm'
      obtain ⟨_, _, _, _, _, _, _, hsize⟩ := inv.rows_ok r hr0
      simp only [mvd, hp, if_true]
      refine ⟨_, hq1, pre, post, hl1, by simpa [setPk] using hl2, hlen, ?_⟩
      show (repackRow p (rsP t s p zs) r).size = t.size (repackRow p (rsP t s p zs) r).key
      rw [hsz, hk, hsize]
    · simp only [mvd, hp, if_false]
      rw [hq2 r hr0 hp]
      exact rowIn_of_inv inv hr0

/-! ### the action list -/

theorem sortByOff_eq_nil {l : List Row} (h : sortByOff l = []) : l = [] := by
  have := (sortByOff_perm l).symm
  rw [h] at this
  exact this.eq_nil

theorem acts_nil {t : Tab} {s : St} {p : Nat} {zs : List Bool} (h : rowsOfPack s.rows p = []) :
    actsRepackPack t s p zs = if (getPack s.packs p).isSome then [.pkUnlink p] else [] := by
  unfold actsRepackPack
  simp [h, sortByOff]

theorem acts_cons {t : Tab} {s : St} {p : Nat} {zs : List Bool} (h : rowsOfPack s.rows p ≠ []) :
    actsRepackPack t s p zs =
      ([.lock tmpId, .pkOpen tmpId, .pkRead p] ++
        ((rebuild t p (srt s p) zs 0).1.map (fun g => Act.pkWrite tmpId g) ++
         [.pkFlush tmpId, .pkFsync tmpId, .dirSync, .pkClose tmpId, .unlock tmpId])) ++
      (((rsP t s p zs).map (setPk tmpId)).map .sqlMove ++
        (.sqlCommit :: [.pkUnlink p, .pkLink tmpId p, .sqlRepoint tmpId p, .sqlCommit, .pkUnlink tmpId])) := by
  unfold actsRepackPack
  simp only
  split
  · rename_i h0
    exact absurd (sortByOff_eq_nil h0) h
  · rw [rebuild_fst_pack t tmpId p, rebuild_snd_pack t tmpId p]
    simp [srt, rsP]

/-! ### phase 1: up to the first commit the index and the packs it names are untouched -/

structure Ph1 (s : St) (x : XSt) : Prop where
  loose : x.loose = (ofSt s).loose
  target : x.target = s.target
  rows : x.rows = s.rows
  packs : ∀ q, q ≠ tmpId → getX x.packs q = getX (ofSt s).packs q
  nodup : (x.packs.map (·.1)).Nodup

def Q1 : Act → Prop
  | .lock _ | .unlock _ | .pkRead _ | .dirSync | .sqlMove _ => True
  | .pkOpen q | .pkWrite q _ | .pkFlush q | .pkFsync q | .pkClose q => q = tmpId
  | _ => False

theorem ph1_upd {s : St} {x : XSt} (h : Ph1 s x) (f : XPack → XPack) :
    Ph1 s { x with packs := updX x.packs tmpId f } := by
  refine ⟨h.loose, h.target, h.rows, ?_, ?_⟩
  · intro q hq
    show getX (updX x.packs tmpId f) q = _
    rw [getX_updX, if_neg hq]
    exact h.packs q hq
  · show ((updX x.packs tmpId f).map (·.1)).Nodup
    rw [keys_updX]; exact h.nodup

theorem ph1_step {s : St} (x : XSt) (a : Act) (ha : Q1 a) (h : Ph1 s x) : Ph1 s (exec x a) := by
  cases a <;> simp only [Q1] at ha
  case dirSync => exact h
  case lock q => exact ⟨h.loose, h.target, h.rows, h.packs, h.nodup⟩
  case unlock q => exact ⟨h.loose, h.target, h.rows, h.packs, h.nodup⟩
  case pkRead q => exact h
  case sqlMove r => exact ⟨h.loose, h.target, h.rows, h.packs, h.nodup⟩
  case pkWrite q g => subst ha; exact ph1_upd h _
  case pkFlush q => subst ha; exact ph1_upd h _
  case pkFsync q => subst ha; exact ph1_upd h _
  case pkClose q => subst ha; exact ph1_upd h _
  case pkOpen q =>
    subst ha
    simp only [exec]
    split
    · exact h
    · refine ⟨h.loose, h.target, h.rows, ?_, ?_⟩
      · intro q hq
        show getX (setX x.packs tmpId _) q = _
        rw [getX_setX_ne _ _ _ _ hq]
        exact h.packs q hq
      · exact nodup_keys_setX _ _ h.nodup

theorem ph1_ofSt {t : Tab} {s : St} (inv : Inv t s) : Ph1 s (ofSt s) :=
  ⟨rfl, rfl, rfl, fun _ _ => rfl, by rw [keys_ofSt]; exact inv.packs_nodup⟩

theorem good_of_ph1 {t : Tab} {s : St} (inv : Inv t s) (hT : ∀ r ∈ s.rows, r.pack ≠ tmpId) {x : XSt}
    (h : Ph1 s x) : Good t s x :=
  good_same inv h.loose h.target h.rows (fun r hr => h.packs _ (hT r hr)) h.nodup

/-! ### the states reached, exactly -/

/-- the states of the repack differ from the start in the packs, the index, the open transaction and the locks -/
def st (s : St) (L : List Nat) (P : List (Nat × XPack)) (R : List Row) (W : Option (List Row)) : XSt :=
  { loose := (ofSt s).loose, sandbox := none, packs := P, rows := R, work := W, locks := L,
    cur := s.cur, target := s.target }

theorem ofSt_eq_st (s : St) : ofSt s = st s [] (ofSt s).packs s.rows none := rfl

theorem exec_writes (s : St) (L : List Nat) (A : List (Nat × XPack)) (R : List Row) (W : Option (List Row))
    (hA : tmpId ∉ A.map (·.1)) (gs : List Seg) (v : XPack) :
    execAll (st s L (A ++ [(tmpId, v)]) R W) (gs.map (fun g => Act.pkWrite tmpId g)) =
      st s L (A ++ [(tmpId, { v with segs := v.segs ++ gs })]) R W := by
  induction gs generalizing v with
  | nil => simp [execAll]
  | cons g gs ih =>
    simp only [List.map_cons, execAll]
    have : exec (st s L (A ++ [(tmpId, v)]) R W) (.pkWrite tmpId g) =
        st s L (A ++ [(tmpId, { v with segs := v.segs ++ [g] })]) R W := by
      simp only [exec, st, updX_append_last v _ hA]
    rw [this, ih]
    simp

theorem exec_moves_commit (s : St) (L : List Nat) (P : List (Nat × XPack)) (R : List Row) (l : List Row)
    (W : Option (List Row)) :
    execAll (st s L P R W) (l.map .sqlMove ++ [.sqlCommit]) = st s L P (l.foldl mvStep (W.getD R)) none := by
  induction l generalizing W with
  | nil => rfl
  | cons r l ih =>
    simp only [List.map_cons, List.cons_append, execAll]
    have : exec (st s L P R W) (.sqlMove r) = st s L P R (some (mvStep (W.getD R) r)) := rfl
    rw [this, ih]
    rfl

theorem tmp_not_mem {s : St} (hT : ∀ e ∈ s.packs, e.1 ≠ tmpId) : tmpId ∉ (ofSt s).packs.map (·.1) := by
  rw [keys_ofSt]
  intro h
  simp only [List.mem_map] at h
  obtain ⟨e, he, h⟩ := h
  exact hT e he h

/-- the copy: the temporary pack holds the rebuilt layout, flushed and synced; nothing else has changed -/
theorem exec_copy {s : St} (hT : ∀ e ∈ s.packs, e.1 ≠ tmpId) (p : Nat) (gs : List Seg) :
    execAll (ofSt s) ([.lock tmpId, .pkOpen tmpId, .pkRead p] ++
      (gs.map (fun g => Act.pkWrite tmpId g) ++
        [.pkFlush tmpId, .pkFsync tmpId, .dirSync, .pkClose tmpId, .unlock tmpId])) =
      st s [] ((ofSt s).packs ++ [(tmpId, full gs)]) s.rows none := by
  have hT0 := tmp_not_mem hT
  have eA : execAll (ofSt s) [.lock tmpId, .pkOpen tmpId, .pkRead p] =
      st s [tmpId] ((ofSt s).packs ++ [(tmpId, ⟨[], 0, 0⟩)]) s.rows none := by
    have e2 : exec (st s [tmpId] (ofSt s).packs s.rows none) (.pkOpen tmpId) =
        st s [tmpId] ((ofSt s).packs ++ [(tmpId, ⟨[], 0, 0⟩)]) s.rows none := by
      simp only [exec, st, getX_none_of_not_mem hT0, setX_of_not_mem _ hT0]
    show exec (exec (st s [tmpId] (ofSt s).packs s.rows none) (.pkOpen tmpId)) (.pkRead p) = _
    rw [e2]
    rfl
  rw [execAll_append, execAll_append, eA, exec_writes s _ _ _ _ hT0]
  simp only [execAll, exec, st, updX_append_last _ _ hT0]
  simp [full]

section tail
variable {t : Tab} {s : St} (p : Nat) (zs : List Bool)

/-- the packs after the copy / the unlink / the link / the final unlink -/
abbrev PB (t : Tab) (s : St) (p : Nat) (zs : List Bool) : List (Nat × XPack) :=
  (ofSt s).packs ++ [(tmpId, full (rebuild t p (srt s p) zs 0).1)]
abbrev PU (t : Tab) (s : St) (p : Nat) (zs : List Bool) : List (Nat × XPack) := eraseX (PB t s p zs) p
abbrev PL (t : Tab) (s : St) (p : Nat) (zs : List Bool) : List (Nat × XPack) :=
  setX (PU t s p zs) p (full (rebuild t p (srt s p) zs 0).1)
abbrev PF (t : Tab) (s : St) (p : Nat) (zs : List Bool) : List (Nat × XPack) := eraseX (PL t s p zs) tmpId

abbrev Rq (t : Tab) (s : St) (p : Nat) (zs : List Bool) (q : Nat) : List Row := s.rows.map (mvd t s p zs q)

theorem getX_PU_tmp (hT : ∀ e ∈ s.packs, e.1 ≠ tmpId) (hp : p ≠ tmpId) :
    getX (PU t s p zs) tmpId = some (full (rebuild t p (srt s p) zs 0).1) := by
  rw [getX_eraseX_ne _ _ _ (Ne.symm hp)]
  exact getX_append_last _ (tmp_not_mem hT)

theorem exec_commit1 (inv : Inv t s) (hT : ∀ e ∈ s.packs, e.1 ≠ tmpId) :
    execAll (ofSt s) (([.lock tmpId, .pkOpen tmpId, .pkRead p] ++
        ((rebuild t p (srt s p) zs 0).1.map (fun g => Act.pkWrite tmpId g) ++
         [.pkFlush tmpId, .pkFsync tmpId, .dirSync, .pkClose tmpId, .unlock tmpId])) ++
      (((rsP t s p zs).map (setPk tmpId)).map .sqlMove ++ [.sqlCommit])) =
    st s [] (PB t s p zs) (Rq t s p zs tmpId) none := by
  rw [execAll_append, exec_copy hT, exec_moves_commit]
  show st s [] (PB t s p zs) (((rsP t s p zs).map (setPk tmpId)).foldl mvStep s.rows) none = _
  rw [moves_rows inv]

theorem exec_tail1 : exec (st s [] (PB t s p zs) (Rq t s p zs tmpId) none) (.pkUnlink p) =
    st s [] (PU t s p zs) (Rq t s p zs tmpId) none := rfl

theorem exec_tail2 (hT : ∀ e ∈ s.packs, e.1 ≠ tmpId) (hp : p ≠ tmpId) :
    exec (st s [] (PU t s p zs) (Rq t s p zs tmpId) none) (.pkLink tmpId p) =
      st s [] (PL t s p zs) (Rq t s p zs tmpId) none := by
  simp only [exec, st, getX_PU_tmp p zs hT hp]

theorem exec_tail3 : exec (st s [] (PL t s p zs) (Rq t s p zs tmpId) none) (.sqlRepoint tmpId p) =
    st s [] (PL t s p zs) (Rq t s p zs tmpId)
      (some ((Rq t s p zs tmpId).map (fun o => if o.pack = tmpId then { o with pack := p } else o))) := rfl

theorem exec_tail4 (hT : ∀ r ∈ s.rows, r.pack ≠ tmpId) :
    exec (st s [] (PL t s p zs) (Rq t s p zs tmpId)
      (some ((Rq t s p zs tmpId).map (fun o => if o.pack = tmpId then { o with pack := p } else o)))) .sqlCommit =
    st s [] (PL t s p zs) (Rq t s p zs p) none := by
  have e : exec (st s [] (PL t s p zs) (Rq t s p zs tmpId)
      (some ((Rq t s p zs tmpId).map (fun o => if o.pack = tmpId then { o with pack := p } else o)))) .sqlCommit =
      st s [] (PL t s p zs)
        ((Rq t s p zs tmpId).map (fun o => if o.pack = tmpId then { o with pack := p } else o)) none := rfl
  rw [e, repoint_rows p zs hT]

theorem exec_tail5 : exec (st s [] (PL t s p zs) (Rq t s p zs p) none) (.pkUnlink tmpId) =
    st s [] (PF t s p zs) (Rq t s p zs p) none := rfl

theorem PB_eq (hT : ∀ e ∈ s.packs, e.1 ≠ tmpId) :
    PB t s p zs = setX (ofSt s).packs tmpId (full (rebuild t p (srt s p) zs 0).1) :=
  (setX_of_not_mem _ (tmp_not_mem hT)).symm

theorem packs_other (hT : ∀ e ∈ s.packs, e.1 ≠ tmpId) {q : Nat} (hq1 : q ≠ p) (hq2 : q ≠ tmpId) :
    getX (PB t s p zs) q = getX (ofSt s).packs q ∧ getX (PU t s p zs) q = getX (ofSt s).packs q ∧
    getX (PL t s p zs) q = getX (ofSt s).packs q ∧ getX (PF t s p zs) q = getX (ofSt s).packs q := by
  have hB : getX (PB t s p zs) q = getX (ofSt s).packs q := by
    rw [PB_eq p zs hT, getX_setX_ne _ _ _ _ hq2]
  have hU : getX (PU t s p zs) q = getX (ofSt s).packs q := by
    show getX (eraseX (PB t s p zs) p) q = _
    rw [getX_eraseX_ne _ _ _ hq1]; exact hB
  have hL : getX (PL t s p zs) q = getX (ofSt s).packs q := by
    show getX (setX (PU t s p zs) p _) q = _
    rw [getX_setX_ne _ _ _ _ hq1]; exact hU
  have hF : getX (PF t s p zs) q = getX (ofSt s).packs q := by
    show getX (eraseX (PL t s p zs) tmpId) q = _
    rw [getX_eraseX_ne _ _ _ hq2]; exact hL
  exact ⟨hB, hU, hL, hF⟩

theorem packs_nodup (inv : Inv t s) (hT : ∀ e ∈ s.packs, e.1 ≠ tmpId) :
    ((PB t s p zs).map (·.1)).Nodup ∧ ((PU t s p zs).map (·.1)).Nodup ∧
    ((PL t s p zs).map (·.1)).Nodup ∧ ((PF t s p zs).map (·.1)).Nodup := by
  have h0 : ((ofSt s).packs.map (·.1)).Nodup := by rw [keys_ofSt]; exact inv.packs_nodup
  have hB : ((PB t s p zs).map (·.1)).Nodup := by
    rw [PB_eq p zs hT]; exact nodup_keys_setX _ _ h0
  have hU : ((PU t s p zs).map (·.1)).Nodup := nodup_keys_eraseX _ hB
  have hL : ((PL t s p zs).map (·.1)).Nodup := nodup_keys_setX _ _ hU
  exact ⟨hB, hU, hL, nodup_keys_eraseX _ hL⟩

theorem packs_copy (hT : ∀ e ∈ s.packs, e.1 ≠ tmpId) (hp : p ≠ tmpId) :
    getX (PB t s p zs) tmpId = some (full (rebuild t p (srt s p) zs 0).1) ∧
    getX (PU t s p zs) tmpId = some (full (rebuild t p (srt s p) zs 0).1) ∧
    getX (PL t s p zs) tmpId = some (full (rebuild t p (srt s p) zs 0).1) ∧
    getX (PL t s p zs) p = some (full (rebuild t p (srt s p) zs 0).1) ∧
    getX (PF t s p zs) p = some (full (rebuild t p (srt s p) zs 0).1) := by
  have hB := getX_append_last (full (rebuild t p (srt s p) zs 0).1) (tmp_not_mem hT)
  have hU := getX_PU_tmp (t := t) p zs hT hp
  have hL : getX (PL t s p zs) tmpId = some (full (rebuild t p (srt s p) zs 0).1) := by
    show getX (setX (PU t s p zs) p _) tmpId = _
    rw [getX_setX_ne _ _ _ _ (Ne.symm hp)]; exact hU
  have hLp : getX (PL t s p zs) p = some (full (rebuild t p (srt s p) zs 0).1) := getX_setX_eq _ _ _
  have hF : getX (PF t s p zs) p = some (full (rebuild t p (srt s p) zs 0).1) := by
    show getX (eraseX (PL t s p zs) tmpId) p = _
    rw [getX_eraseX_ne _ _ _ hp]; exact hLp
  exact ⟨hB, hU, hL, hLp, hF⟩

theorem good_st (inv : Inv t s) (hT : ∀ r ∈ s.rows, r.pack ≠ tmpId) (q : Nat) (hq : q = tmpId ∨ q = p)
    (L : List Nat) (P : List (Nat × XPack)) (W : Option (List Row))
    (h1 : getX P q = some (full (rebuild t p (srt s p) zs 0).1))
    (h2 : ∀ q', q' ≠ p → q' ≠ tmpId → getX P q' = getX (ofSt s).packs q')
    (h3 : (P.map (·.1)).Nodup) : Good t s (st s L P (Rq t s p zs q) W) := by
  refine good_moved inv p q zs ?_ rfl rfl rfl h1 (fun r hr hrp => h2 _ hrp (hT r hr)) h3
  intro r hr hrp
  rcases hq with rfl | rfl
  · exact hT r hr
  · exact hrp

end tail

/-! ### every prefix leads to a good state -/

theorem seg1 {t : Tab} {s : St} (inv : Inv t s) (hT : ∀ r ∈ s.rows, r.pack ≠ tmpId) (x : XSt) (as : List Act)
    (hq : ∀ a ∈ as, Q1 a) (h : Ph1 s x) : AllPre (Good t s) x as ∧ Ph1 s (execAll x as) := by
  obtain ⟨h1, h2⟩ := allPre_of_step (P := Ph1 s) (Q := Q1) ph1_step hq h
  exact ⟨allPre_mono (fun _ hx => good_of_ph1 inv hT hx) h1, h2⟩

theorem allPre_cons_case {t : Tab} {s : St} (inv : Inv t s) (hTp : ∀ e ∈ s.packs, e.1 ≠ tmpId)
    (hTr : ∀ r ∈ s.rows, r.pack ≠ tmpId) (p : Nat) (hp : p ≠ tmpId) (zs : List Bool)
    (hne : rowsOfPack s.rows p ≠ []) : AllPre (Good t s) (ofSt s) (actsRepackPack t s p zs) := by
  rw [acts_cons hne]
  obtain ⟨c1, c2, c3, c4, c5⟩ := packs_copy (t := t) (s := s) p zs hTp hp
  obtain ⟨n1, n2, n3, n4⟩ := packs_nodup (t := t) p zs inv hTp
  have o := fun q (h1 : q ≠ p) (h2 : q ≠ tmpId) => packs_other (t := t) (s := s) p zs hTp h1 h2
  -- the copy
  obtain ⟨a1, p1⟩ := seg1 inv hTr (ofSt s) ([.lock tmpId, .pkOpen tmpId, .pkRead p] ++
        ((rebuild t p (srt s p) zs 0).1.map (fun g => Act.pkWrite tmpId g) ++
         [.pkFlush tmpId, .pkFsync tmpId, .dirSync, .pkClose tmpId, .unlock tmpId]))
    (by
      intro a ha
      simp only [List.mem_append, List.mem_map, List.mem_cons, List.not_mem_nil, or_false] at ha
      rcases ha with (rfl | rfl | rfl) | ⟨g, _, rfl⟩ | rfl | rfl | rfl | rfl | rfl <;> simp [Q1])
    (ph1_ofSt inv)
  refine allPre_append a1 ?_
  -- the moves
  obtain ⟨a2, p2⟩ := seg1 inv hTr _ (((rsP t s p zs).map (setPk tmpId)).map .sqlMove)
    (by
      intro a ha
      simp only [List.mem_map] at ha
      obtain ⟨r, _, rfl⟩ := ha
      simp [Q1])
    p1
  refine allPre_append a2 ?_
  refine allPre_cons (good_of_ph1 inv hTr p2) ?_
  -- first commit
  have e : ∀ x : XSt, exec (execAll x (((rsP t s p zs).map (setPk tmpId)).map .sqlMove)) .sqlCommit =
      execAll x (((rsP t s p zs).map (setPk tmpId)).map .sqlMove ++ [.sqlCommit]) := by
    intro x; rw [execAll_append]; rfl
  rw [e, ← execAll_append, exec_commit1 p zs inv hTp]
  refine allPre_cons (good_st p zs inv hTr tmpId (Or.inl rfl) _ _ _ c1 (fun q h1 h2 => (o q h1 h2).1) n1) ?_
  rw [exec_tail1]
  refine allPre_cons (good_st p zs inv hTr tmpId (Or.inl rfl) _ _ _ c2 (fun q h1 h2 => (o q h1 h2).2.1) n2) ?_
  rw [exec_tail2 p zs hTp hp]
  refine allPre_cons (good_st p zs inv hTr tmpId (Or.inl rfl) _ _ _ c3 (fun q h1 h2 => (o q h1 h2).2.2.1) n3) ?_
  rw [exec_tail3]
  refine allPre_cons (good_st p zs inv hTr tmpId (Or.inl rfl) _ _ _ c3 (fun q h1 h2 => (o q h1 h2).2.2.1) n3) ?_
  rw [exec_tail4 p zs hTr]
  refine allPre_cons (good_st p zs inv hTr p (Or.inr rfl) _ _ _ c4 (fun q h1 h2 => (o q h1 h2).2.2.1) n3) ?_
  rw [exec_tail5]
  exact allPre_nil (good_st p zs inv hTr p (Or.inr rfl) _ _ _ c5 (fun q h1 h2 => (o q h1 h2).2.2.2) n4)

theorem allPre_nil_case {t : Tab} {s : St} (inv : Inv t s) (p : Nat) (zs : List Bool)
    (he : rowsOfPack s.rows p = []) : AllPre (Good t s) (ofSt s) (actsRepackPack t s p zs) := by
  rw [acts_nil he]
  have g0 : Good t s (ofSt s) :=
    good_same inv rfl rfl rfl (fun _ _ => rfl) (by rw [keys_ofSt]; exact inv.packs_nodup)
  split
  · refine allPre_cons g0 (allPre_nil ?_)
    refine good_same inv rfl rfl rfl ?_ ?_
    · intro r hr
      have hrp : r.pack ≠ p := by
        intro hrp
        have : r ∈ rowsOfPack s.rows p := mem_rowsOfPack.mpr ⟨hr, hrp⟩
        rw [he] at this
        simp at this
      exact getX_eraseX_ne _ _ _ hrp
    · exact nodup_keys_eraseX _ (by rw [keys_ofSt]; exact inv.packs_nodup)
  · exact allPre_nil g0

/-! ### run to completion -/

theorem repackPack_nil {t : Tab} {s s' : St} {m : Mode} {p : Nat} {order : List Nat} {zs : List Bool}
    (he : rowsOfPack s.rows p = []) (h : repackPack t s m p order zs = some s') :
    s' = { s with packs := erasePack s.packs p } := by
  unfold repackPack at h
  simp only [he] at h
  split at h
  · simp only [Option.some.injEq] at h
    exact h.symm
  · simp at h

theorem repackPack_cons {t : Tab} {s s' : St} {m : Mode} {p : Nat} {order : List Nat} {zs : List Bool}
    (hne : rowsOfPack s.rows p ≠ []) (h : repackPack t s m p order zs = some s') :
    s' = { s with packs := setPack s.packs p (rebuild t p (srt s p) zs 0).1,
                  rows := s.rows.map (repackRow p (rsP t s p zs)) } := by
  unfold repackPack at h
  simp only at h
  split at h
  · simp at h
  · split at h
    · simp at h
    · split at h
      · simp at h
      · simp only [Option.some.injEq] at h
        subst h
        rfl

theorem not_mem_keys_eraseX (ps : List (Nat × XPack)) (p : Nat) : p ∉ (eraseX ps p).map (·.1) := by
  intro h
  induction ps with
  | nil => simp [eraseX] at h
  | cons e rest ih =>
    obtain ⟨q, o⟩ := e
    by_cases hq : q = p
    · simp only [eraseX, hq, if_true] at h
      exact ih h
    · simp only [eraseX, hq, if_false, List.map_cons, List.mem_cons] at h
      rcases h with h | h
      · exact hq h.symm
      · exact ih h

theorem toSt_eraseX (s : St) (p : Nat) :
    (eraseX (ofSt s).packs p).map (fun e => (e.1, e.2.segs)) = erasePack s.packs p := by
  simp only [ofSt]
  induction s.packs with
  | nil => rfl
  | cons e rest ih =>
    obtain ⟨q, o⟩ := e
    by_cases hq : q = p
    · simp [eraseX, erasePack, hq, ih]
    · simp [eraseX, erasePack, hq, ih]

/-- the pack files at the end: the old file is gone, the new one is the last directory entry -/
theorem PF_eq {t : Tab} {s : St} (p : Nat) (zs : List Bool) (hT : ∀ e ∈ s.packs, e.1 ≠ tmpId) (hp : p ≠ tmpId) :
    PF t s p zs = eraseX (ofSt s).packs p ++ [(p, full (rebuild t p (srt s p) zs 0).1)] := by
  have hp' : ¬ tmpId = p := fun h => hp h.symm
  have hT0 := tmp_not_mem hT
  have hT1 : tmpId ∉ (eraseX (ofSt s).packs p).map (·.1) := fun h => hT0 ((keys_eraseX_sublist _ _).subset h)
  have e1 : PU t s p zs = eraseX (ofSt s).packs p ++ [(tmpId, full (rebuild t p (srt s p) zs 0).1)] := by
    show eraseX (_ ++ _) p = _
    rw [eraseX_append]
    simp [eraseX, hp']
  have e2 : PL t s p zs = eraseX (ofSt s).packs p ++ [(tmpId, full (rebuild t p (srt s p) zs 0).1)] ++
      [(p, full (rebuild t p (srt s p) zs 0).1)] := by
    show setX (PU t s p zs) p _ = _
    rw [e1]
    apply setX_of_not_mem
    simp only [List.map_append, List.mem_append, List.map_cons, List.map_nil, List.mem_singleton]
    rintro (h | h)
    · exact not_mem_keys_eraseX _ _ h
    · exact hp h
  show eraseX (PL t s p zs) tmpId = _
  rw [e2, eraseX_append, eraseX_append, eraseX_of_not_mem hT1]
  simp [eraseX, hp]

theorem getPack_append_last_eq {a : Packs} {p : Nat} (v : List Seg) (h : p ∉ a.map (·.1)) :
    getPack (a ++ [(p, v)]) p = some v := by
  induction a with
  | nil => simp [getPack]
  | cons e rest ih =>
    obtain ⟨q, o⟩ := e
    simp at h
    have h1 : ¬ q = p := fun h' => h.1 h'.symm
    simp only [List.cons_append, getPack, h1, if_false]
    exact ih (by simpa using h.2)

theorem getPack_append_last_ne (a : Packs) {p q : Nat} (v : List Seg) (h : q ≠ p) :
    getPack (a ++ [(p, v)]) q = getPack a q := by
  induction a with
  | nil =>
    have : ¬ p = q := fun h' => h h'.symm
    simp [getPack, this]
  | cons e rest ih =>
    obtain ⟨r, o⟩ := e
    by_cases hr : r = q
    · simp [getPack, hr]
    · simp [getPack, hr, ih]

theorem not_mem_keys_erasePack (ps : Packs) (p : Nat) : p ∉ (erasePack ps p).map (·.1) := by
  intro h
  induction ps with
  | nil => simp [erasePack] at h
  | cons e rest ih =>
    obtain ⟨q, o⟩ := e
    by_cases hq : q = p
    · simp only [erasePack, hq, if_true] at h
      exact ih h
    · simp only [erasePack, hq, if_false, List.map_cons, List.mem_cons] at h
      rcases h with h | h
      · exact hq h.symm
      · exact ih h

theorem erasePack_of_getPack_none {ps : Packs} {p : Nat} (h : getPack ps p = none) : erasePack ps p = ps := by
  induction ps with
  | nil => rfl
  | cons e rest ih =>
    obtain ⟨q, o⟩ := e
    by_cases hq : q = p
    · simp [getPack, hq] at h
    · simp only [getPack, hq, if_false] at h
      simp [erasePack, hq, ih h]

theorem perm_erase_set {ps : Packs} (nd : (ps.map (·.1)).Nodup) {p : Nat} (hm : p ∈ ps.map (·.1)) (v : List Seg) :
    (erasePack ps p ++ [(p, v)]).Perm (setPack ps p v) := by
  induction ps with
  | nil => simp at hm
  | cons e rest ih =>
    obtain ⟨q, o⟩ := e
    simp only [List.map_cons, List.nodup_cons] at nd
    by_cases hq : q = p
    · subst hq
      have : erasePack rest q = rest := erasePack_of_getPack_none (getPack_none_of_not_mem nd.1)
      simp only [erasePack, setPack, if_true, this]
      exact List.perm_append_singleton _ _
    · have hm' : p ∈ rest.map (·.1) := by
        simp only [List.map_cons, List.mem_cons] at hm
        rcases hm with h | h
        · exact absurd h.symm hq
        · exact h
      simp only [erasePack, setPack, hq, if_false, List.cons_append]
      exact (ih nd.2 hm').cons _

theorem getPack_erase_set (ps : Packs) (p : Nat) (v : List Seg) (q : Nat) :
    getPack (erasePack ps p ++ [(p, v)]) q = getPack (setPack ps p v) q := by
  by_cases hq : q = p
  · subst hq
    rw [getPack_append_last_eq v (not_mem_keys_erasePack ps q), getPack_setPack_eq]
  · rw [getPack_append_last_ne _ v hq, getPack_erasePack_ne _ _ _ hq, getPack_setPack_ne _ _ _ _ hq]

theorem toSt_ofSt_packs (s : St) : (ofSt s).packs.map (fun e => (e.1, e.2.segs)) = s.packs := by
  simp only [ofSt, List.map_map]
  conv => rhs; rw [← List.map_id s.packs]
  apply List.map_congr_left
  intro e _
  rfl

/-- the state at the end of a repack of a pack with rows -/
theorem exec_all_cons {t : Tab} {s : St} (inv : Inv t s) (hTp : ∀ e ∈ s.packs, e.1 ≠ tmpId)
    (hTr : ∀ r ∈ s.rows, r.pack ≠ tmpId) (p : Nat) (hp : p ≠ tmpId) (zs : List Bool)
    (hne : rowsOfPack s.rows p ≠ []) :
    execAll (ofSt s) (actsRepackPack t s p zs) = st s [] (PF t s p zs) (Rq t s p zs p) none := by
  rw [acts_cons hne]
  have e : ∀ (S M : List Act), S ++ (M ++ (Act.sqlCommit ::
        [Act.pkUnlink p, .pkLink tmpId p, .sqlRepoint tmpId p, .sqlCommit, .pkUnlink tmpId])) =
      (S ++ (M ++ [Act.sqlCommit])) ++
        [Act.pkUnlink p, .pkLink tmpId p, .sqlRepoint tmpId p, .sqlCommit, .pkUnlink tmpId] := by
    intro S M; simp
  rw [e, execAll_append, exec_commit1 p zs inv hTp]
  simp only [execAll]
  rw [exec_tail1, exec_tail2 p zs hTp hp, exec_tail3, exec_tail4 p zs hTr, exec_tail5]

/-- what the repack of a pack with rows leaves on disk: the pack files in directory order, the index -/
theorem done_repackPack_cons {t : Tab} {s : St} (inv : Inv t s) (hTp : ∀ e ∈ s.packs, e.1 ≠ tmpId)
    (hTr : ∀ r ∈ s.rows, r.pack ≠ tmpId) (p : Nat) (hp : p ≠ tmpId) (zs : List Bool)
    (hne : rowsOfPack s.rows p ≠ []) :
    toSt (execAll (ofSt s) (actsRepackPack t s p zs)) =
      { s with packs := erasePack s.packs p ++ [(p, (rebuild t p (srt s p) zs 0).1)],
               rows := s.rows.map (repackRow p (rsP t s p zs)) } := by
  rw [exec_all_cons inv hTp hTr p hp zs hne]
  simp only [toSt, st]
  rw [PF_eq p zs hTp hp, show Rq t s p zs p = _ from mvd_self inv p zs, loose_ofSt_map s (fun f => f.cid) (fun _ => rfl)]
  simp only [List.map_append, toSt_eraseX]
  rfl

/-- what the repack of a pack without rows leaves on disk -/
theorem done_repackPack_nil {t : Tab} {s : St} (p : Nat) (zs : List Bool) (he : rowsOfPack s.rows p = []) :
    toSt (execAll (ofSt s) (actsRepackPack t s p zs)) = { s with packs := erasePack s.packs p } := by
  rw [acts_nil he]
  split
  · simp only [execAll, exec, toSt]
    rw [toSt_eraseX, show (ofSt s).loose = (ofSt s).loose from rfl,
      loose_ofSt_map s (fun f => f.cid) (fun _ => rfl)]
    rfl
  · rename_i hnone
    have hnone' : getPack s.packs p = none := by
      cases h : getPack s.packs p with
      | none => rfl
      | some v => simp [h] at hnone
    simp only [execAll, toSt]
    rw [toSt_ofSt_packs, loose_ofSt_map s (fun f => f.cid) (fun _ => rfl), erasePack_of_getPack_none hnone']
    rfl

/-! ### the counterexample to `done_repackPack` -/

namespace Cx
def tb : Tab := { size := fun c => c + 1, zlen := fun c => c + 1 }
def r1 : Row := { id := 1, key := 1, pack := 0, off := 0, len := 2, z := false, size := 2 }
def r2 : Row := { id := 2, key := 2, pack := 1, off := 0, len := 3, z := false, size := 3 }
def s0 : St := St.mk [] [(0, [Seg.mk 1 false]), (1, [Seg.mk 2 false])] [r1, r2] 0 100

theorem repack_s0 : repackPack tb s0 .keep 0 [1] [false] = some s0 := by rfl

theorem noTmp_s0 : NoTmp s0 := by
  constructor <;> simp [s0, r1, r2, tmpId]

theorem inv_s0 : Inv tb s0 := by
  refine ⟨?_, by decide, by decide, ?_, by decide, by decide, by simp [s0], by decide⟩
  · intro r hr
    simp only [s0, List.mem_cons, List.not_mem_nil, or_false] at hr
    rcases hr with rfl | rfl
    · exact ⟨[Seg.mk 1 false], [], [], rfl, rfl, rfl, rfl, rfl⟩
    · exact ⟨[Seg.mk 2 false], [], [], rfl, rfl, rfl, rfl, rfl⟩
  · intro a ha b hb
    simp only [s0, List.mem_cons, List.not_mem_nil, or_false] at ha hb
    rcases ha with rfl | rfl <;> rcases hb with rfl | rfl <;> simp [r1, r2]

theorem packs_s0 : (toSt (execAll (ofSt s0) (actsRepackPack tb s0 0 [false]))).packs =
    [(1, [Seg.mk 2 false]), (0, [Seg.mk 1 false])] := by decide

theorem not_sameDisk : ¬ SameDisk (toSt (execAll (ofSt s0) (actsRepackPack tb s0 0 [false]))) s0 := by
  intro h
  have h1 := h.1
  revert h1
  decide
end Cx

end Repack

/-- equality of the pack *lists* does not hold in general (the order of the association list differs) -/
theorem done_repackPack_listorder_differs :
    ¬ (∀ {t : Tab} {s s' : St} (_ : Inv t s) (_ : NoTmp s) {m : Mode} {p : Nat} {order : List Nat}
        {zs : List Bool} (_ : p ≠ tmpId) (_ : repackPack t s m p order zs = some s'),
        SameDisk (toSt (execAll (ofSt s) (actsRepackPack t s p zs))) s') := by
  intro h
  exact Repack.Cx.not_sameDisk
    (h Repack.Cx.inv_s0 Repack.Cx.noTmp_s0 (by decide) Repack.Cx.repack_s0)

/-- `SameDisk` up to the order of the directory entries of the pack folder: the same pack files (as a multiset,
    and hence the same file for every pack id), the same index, the same loose files, the same target. -/
def SameFiles (a b : St) : Prop :=
  a.packs.Perm b.packs ∧ (∀ q, getPack a.packs q = getPack b.packs q) ∧ a.rows = b.rows ∧
    (∀ e, e ∈ a.loose ↔ e ∈ b.loose) ∧ a.target = b.target

open Repack in
/-- Run to completion, the action list of `repack_pack` gives the Level-B result (as a set of files, see the top of the file):
    run to completion, the action list gives the Level-B repack of that pack up to the position of pack `p` in the
    list of pack files (the relinked pack becomes the last entry; Level B replaces it in place). -/
theorem done_repackPack {t : Tab} {s s' : St} (inv : Inv t s) (nt : NoTmp s) {m : Mode} {p : Nat}
    {order : List Nat} {zs : List Bool} (hp : p ≠ tmpId) (h : repackPack t s m p order zs = some s') :
    SameFiles (toSt (execAll (ofSt s) (actsRepackPack t s p zs))) s' := by
  by_cases he : rowsOfPack s.rows p = []
  · rw [done_repackPack_nil p zs he, repackPack_nil he h]
    exact ⟨List.Perm.refl _, fun _ => rfl, rfl, fun _ => Iff.rfl, rfl⟩
  · rw [done_repackPack_cons inv nt.1 nt.2 p hp zs he, repackPack_cons he h]
    have hm : p ∈ s.packs.map (·.1) := by
      obtain ⟨r, hr⟩ := List.exists_mem_of_ne_nil _ he
      obtain ⟨hr1, hr2⟩ := mem_rowsOfPack.mp hr
      obtain ⟨segs, _, _, hg, _⟩ := inv.rows_ok r hr1
      rw [hr2] at hg
      exact mem_keys_of_getPack hg
    exact ⟨perm_erase_set inv.packs_nodup hm _, getPack_erase_set _ _ _, rfl, fun _ => Iff.rfl, rfl⟩

open Repack in
/-- when the repacked pack is the last pack file (or has no rows) the statement holds as given -/
theorem done_repackPack_last {t : Tab} {s s' : St} (inv : Inv t s) (nt : NoTmp s) {m : Mode} {p : Nat}
    {order : List Nat} {zs : List Bool} (hp : p ≠ tmpId) (h : repackPack t s m p order zs = some s')
    (hlast : rowsOfPack s.rows p = [] ∨ ∃ a v, s.packs = a ++ [(p, v)]) :
    SameDisk (toSt (execAll (ofSt s) (actsRepackPack t s p zs))) s' := by
  by_cases he : rowsOfPack s.rows p = []
  · rw [done_repackPack_nil p zs he, repackPack_nil he h]
    exact ⟨rfl, rfl, fun _ => Iff.rfl, rfl⟩
  · rw [done_repackPack_cons inv nt.1 nt.2 p hp zs he, repackPack_cons he h]
    rcases hlast with hl | ⟨a, v, hl⟩
    · exact absurd hl he
    · refine ⟨?_, rfl, fun _ => Iff.rfl, rfl⟩
      show erasePack s.packs p ++ _ = setPack s.packs p _
      have nd := inv.packs_nodup
      rw [hl] at nd ⊢
      have hpa : p ∉ a.map (·.1) := by
        simp only [List.map_append, List.map_cons, List.map_nil] at nd
        intro hpa
        exact (List.nodup_append.mp nd).2.2 p hpa p (by simp) rfl
      have e1 : erasePack (a ++ [(p, v)]) p = a := by
        clear nd hl
        induction a with
        | nil => simp [erasePack]
        | cons e rest ih =>
          obtain ⟨q, o⟩ := e
          simp at hpa
          have hq : ¬ q = p := fun h' => hpa.1 h'.symm
          simp only [List.cons_append, erasePack, hq, if_false]
          rw [ih (by simpa using hpa.2)]
      have e2 : ∀ w, setPack (a ++ [(p, v)]) p w = a ++ [(p, w)] := by
        intro w
        clear nd hl e1
        induction a with
        | nil => simp [setPack]
        | cons e rest ih =>
          obtain ⟨q, o⟩ := e
          simp at hpa
          have hq : ¬ q = p := fun h' => hpa.1 h'.symm
          simp only [List.cons_append, setPack, hq, if_false]
          rw [ih (by simpa using hpa.2)]
      rw [e1, e2]

set_option linter.unusedVariables false in
open Repack in
/-- a repack interrupted anywhere (kill, power loss, single fault) never lets a key read as anything but itself;
    at worst it fails loudly because the index names the temporary pack -/
theorem safe_repackPack {t : Tab} (wf : t.WF) {s : St} (inv : Inv t s) (hb : Bounded s) (nt : NoTmp s) (p : Nat)
    (hp : p ≠ tmpId) (zs : List Bool) (hz : zs.length = (rowsOfPack s.rows p).length) :
    AllSafe t s (actsRepackPack t s p zs) (keysOf s) := by
  apply allSafe_of_good wf inv
  by_cases he : rowsOfPack s.rows p = []
  · exact allPre_nil_case inv p zs he
  · exact allPre_cons_case inv nt.1 nt.2 p hp zs he

end Dos.IO
