/-
Level C for `repack_pack`: copy to the temporary pack, commit, unlink the old pack, link back, commit, unlink.
-/
import Dos.IOSpec
import Dos.Proofs.Step
import Dos.Proofs.C11

namespace Dos.IO
open Dos

/-- no pack file and no row uses the reserved id of the temporary pack -/
def NoTmp (s : St) : Prop := (∀ e ∈ s.packs, e.1 ≠ tmpId) ∧ (∀ r ∈ s.rows, r.pack ≠ tmpId)

/-- run to completion, the action list is the Level-B repack of that pack (verdicts `zs` admissible for `m`) -/
theorem done_repackPack {t : Tab} {s s' : St} (inv : Inv t s) (nt : NoTmp s) {m : Mode} {p : Nat} {order : List Nat}
    {zs : List Bool} (hp : p ≠ tmpId) (h : repackPack t s m p order zs = some s') :
    SameDisk (toSt (execAll (ofSt s) (actsRepackPack t s p zs))) s' := by
  sorry

/-- a repack interrupted anywhere (kill, power loss, single fault) never lets a key read as anything but itself;
    at worst it fails loudly because the index names the temporary pack -/
theorem safe_repackPack {t : Tab} (wf : t.WF) {s : St} (inv : Inv t s) (hb : Bounded s) (nt : NoTmp s) (p : Nat)
    (hp : p ≠ tmpId) (zs : List Bool) (hz : zs.length = (rowsOfPack s.rows p).length) :
    AllSafe t s (actsRepackPack t s p zs) (keysOf s) := by
  sorry

end Dos.IO
