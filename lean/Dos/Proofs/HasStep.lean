/-
One-step refinement of the plain key set (property C02): after every operation the container has exactly
the keys the specification `specHas` says.
-/
import Dos.Proofs.Read

namespace Dos

/-! ### membership forms of `hasRow` / `hasLoose` -/

theorem hasRow_eq_decide (s : St) (k : Nat) : hasRow s k = decide (k ∈ s.rows.map (·.key)) := by
  simp [hasRow, rowKeys]

theorem hasLoose_eq_decide (s : St) (k : Nat) : hasLoose s k = decide (k ∈ s.loose.map (·.1)) := by
  simp [hasLoose, looseKeys]

/-- `hasRow` only depends on the list of row keys -/
theorem hasRow_congr {s s' : St} (h : s'.rows.map (·.key) = s.rows.map (·.key)) (k : Nat) :
    hasRow s' k = hasRow s k := by
  simp only [hasRow, rowKeys, h]

theorem hasLoose_congr {s s' : St} (h : s'.loose = s.loose) (k : Nat) : hasLoose s' k = hasLoose s k := by
  simp only [hasLoose, looseKeys, h]

/-! ### `openCur`, `writeObj`, `writeAll` -/

@[simp] theorem rows_openCur (t : Tab) (s : St) : (openCur t s).rows = s.rows := rfl
@[simp] theorem loose_openCur (t : Tab) (s : St) : (openCur t s).loose = s.loose := rfl
@[simp] theorem loose_writeObj (t : Tab) (s : St) (c : Nat) (z : Bool) : (writeObj t s c z).loose = s.loose := rfl

@[simp] theorem hasRow_openCur (t : Tab) (s : St) (k : Nat) : hasRow (openCur t s) k = hasRow s k := rfl
@[simp] theorem hasLoose_openCur (t : Tab) (s : St) (k : Nat) : hasLoose (openCur t s) k = hasLoose s k := rfl
@[simp] theorem hasLoose_writeObj (t : Tab) (s : St) (c : Nat) (z : Bool) (k : Nat) :
    hasLoose (writeObj t s c z) k = hasLoose s k := rfl

theorem mem_keys_insertIgnore (rows : List Row) (r : Row) (k : Nat) :
    k ∈ (insertIgnore rows r).map (·.key) ↔ k ∈ rows.map (·.key) ∨ k = r.key := by
  unfold insertIgnore
  split
  · rename_i h
    constructor
    · exact Or.inl
    · rintro (h' | h')
      · exact h'
      · subst h'
        simp only [List.any_eq_true, beq_iff_eq] at h
        obtain ⟨x, hx, hk⟩ := h
        exact List.mem_map.mpr ⟨x, hx, hk⟩
  · simp

theorem hasRow_writeObj (t : Tab) (s : St) (c : Nat) (z : Bool) (k : Nat) :
    hasRow (writeObj t s c z) k = (hasRow s k || k == c) := by
  rw [Bool.eq_iff_iff]
  simp only [hasRow_eq_decide, writeObj, mem_keys_insertIgnore, Bool.or_eq_true, decide_eq_true_eq, beq_iff_eq]

@[simp] theorem loose_writeAll (t : Tab) (s : St) (l : List (Nat × Bool)) : (writeAll t s l).loose = s.loose := by
  induction l generalizing s with
  | nil => rfl
  | cons e rest ih => obtain ⟨c, z⟩ := e; simp only [writeAll, ih, loose_writeObj]

theorem hasLoose_writeAll (t : Tab) (s : St) (l : List (Nat × Bool)) (k : Nat) :
    hasLoose (writeAll t s l) k = hasLoose s k := hasLoose_congr (loose_writeAll t s l) k

theorem hasRow_writeAll (t : Tab) (s : St) (l : List (Nat × Bool)) (k : Nat) :
    hasRow (writeAll t s l) k = (hasRow s k || (l.map (·.1)).contains k) := by
  induction l generalizing s with
  | nil => simp [writeAll]
  | cons e rest ih =>
    obtain ⟨c, z⟩ := e
    simp only [writeAll, ih, hasRow_writeObj, List.map_cons, List.contains_cons, Bool.or_assoc]

/-! ### `addLoose` -/

theorem hasRow_addLoose (s : St) (c k : Nat) : hasRow (addLoose s c) k = hasRow s k := by
  unfold addLoose
  split
  · split <;> rfl
  · rfl

theorem hasLoose_addLoose (s : St) (c k : Nat) : hasLoose (addLoose s c) k = (hasLoose s k || k == c) := by
  unfold addLoose
  split
  · rename_i c' hf
    have hc : hasLoose s c = true := by
      rw [hasLoose_iff]
      exact List.mem_map.mpr ⟨(c, c'), findLoose_some hf, rfl⟩
    have hkc : (hasLoose s k || k == c) = hasLoose s k := by
      by_cases hk : k = c
      · subst hk; simp [hc]
      · simp [hk]
    rw [hkc]
    split
    · rfl
    · have : (s.loose.map (fun e => if e.1 = c then (c, c) else e)).map (·.1) = s.loose.map (·.1) := by
        rw [List.map_map]
        apply List.map_congr_left
        intro e _
        simp only [Function.comp]
        split
        · rename_i h; exact h.symm
        · rfl
      simp only [hasLoose, looseKeys, this]
  · rw [Bool.eq_iff_iff]
    simp [hasLoose_eq_decide]

theorem has_addLoose (s : St) (c k : Nat) : has (addLoose s c) k = (has s k || k == c) := by
  simp only [has, hasRow_addLoose, hasLoose_addLoose, Bool.or_assoc]

/-! ### `addPacked` -/

theorem hasLoose_addPackedStep (t : Tab) (z nh : Bool) (s : St) (c k : Nat) :
    hasLoose (addPackedStep t z nh s c) k = hasLoose s k := by
  unfold addPackedStep
  simp only
  split <;> rfl

theorem hasRow_addPackedStep (t : Tab) (z nh : Bool) (s : St) (c k : Nat) :
    hasRow (addPackedStep t z nh s c) k = (hasRow s k || k == c) := by
  unfold addPackedStep
  simp only
  split
  · rename_i h
    simp only [Bool.and_eq_true, hasRow_openCur] at h
    by_cases hk : k = c
    · subst hk; simp [h.2]
    · simp [hk]
  · simp only [hasRow_writeObj, hasRow_openCur]

theorem hasLoose_foldl_addPackedStep (t : Tab) (z nh : Bool) (cs : List Nat) (s : St) (k : Nat) :
    hasLoose (cs.foldl (addPackedStep t z nh) s) k = hasLoose s k := by
  induction cs generalizing s with
  | nil => rfl
  | cons c rest ih => simp only [List.foldl_cons, ih, hasLoose_addPackedStep]

theorem hasRow_foldl_addPackedStep (t : Tab) (z nh : Bool) (cs : List Nat) (s : St) (k : Nat) :
    hasRow (cs.foldl (addPackedStep t z nh) s) k = (hasRow s k || cs.contains k) := by
  induction cs generalizing s with
  | nil => simp
  | cons c rest ih =>
    simp only [List.foldl_cons, ih, hasRow_addPackedStep, List.contains_cons, Bool.or_assoc]

theorem has_addPacked (t : Tab) (s : St) (cs : List Nat) (z nh : Bool) (k : Nat) :
    has (addPacked t s cs z nh) k = (has s k || cs.contains k) := by
  unfold addPacked
  split
  · simp [has, hasRow, hasLoose, rowKeys, looseKeys]
  · simp only [has, hasRow_foldl_addPackedStep, hasLoose_foldl_addPackedStep, hasRow_openCur, hasLoose_openCur]
    cases hasRow s k <;> cases hasLoose s k <;> cases cs.contains k <;> rfl

/-! ### `isPerm`, `toPack` -/

theorem mem_of_isPerm {a b : List Nat} (h : isPerm a b = true) (x : Nat) : x ∈ a ↔ x ∈ b := by
  simp only [isPerm, Bool.and_eq_true, List.all_eq_true, List.contains_iff_mem] at h
  exact ⟨h.1.2 x, h.2 x⟩

theorem mem_toPack (s : St) (k : Nat) : k ∈ toPack s ↔ hasLoose s k = true ∧ hasRow s k = false := by
  simp [toPack, hasLoose]

/-! ### `packAll` -/

theorem hasLoose_removeLoose (s : St) (ks : List Nat) (k : Nat) :
    hasLoose (removeLoose s ks) k = (hasLoose s k && !ks.contains k) := by
  rw [Bool.eq_iff_iff]
  simp only [hasLoose_eq_decide, removeLoose, decide_eq_true_eq, Bool.and_eq_true, Bool.not_eq_true',
    List.mem_map, List.mem_filter]
  constructor
  · rintro ⟨e, ⟨he, hn⟩, rfl⟩
    exact ⟨⟨e, he, rfl⟩, by simpa using hn⟩
  · rintro ⟨⟨e, he, rfl⟩, hn⟩
    exact ⟨e, ⟨he, by simpa using hn⟩, rfl⟩

theorem has_packAll {t : Tab} {s s' : St} {m : Mode} {order : List Nat} {zs : List Bool} {cl : Bool}
    (h : packAll t s m order zs cl = some s') (k : Nat) : has s' k = has s k := by
  unfold packAll at h
  split at h
  · exact absurd h (by simp)
  rename_i h1
  split at h
  · exact absurd h (by simp)
  rename_i h2
  split at h
  · exact absurd h (by simp)
  split at h
  · exact absurd h (by simp)
  simp only [Bool.not_eq_true, Bool.not_eq_false', Bool.and_eq_true] at h1
  simp only [bne_iff_ne, ne_eq, Decidable.not_not] at h2
  have hperm := mem_of_isPerm h1.2 k
  split at h
  · simp only [Option.some.injEq] at h
    subst h
    rfl
  · simp only [Option.some.injEq] at h
    have hfst : (order.zip zs).map (·.1) = order := List.map_fst_zip (by omega)
    have hr : hasRow (writeAll t (openCur t s) (order.zip zs)) k = (hasRow s k || order.contains k) := by
      rw [hasRow_writeAll, hfst, hasRow_openCur]
    have hl : hasLoose (writeAll t (openCur t s) (order.zip zs)) k = hasLoose s k := by
      rw [hasLoose_writeAll, hasLoose_openCur]
    have hmem : order.contains k = (hasLoose s k && !hasRow s k) := by
      rw [Bool.eq_iff_iff, List.contains_iff_mem, hperm, mem_toPack]
      simp
    subst h
    split
    · simp only [has, hasLoose_removeLoose]
      have hr' : hasRow (removeLoose (writeAll t (openCur t s) (order.zip zs)) order) k
          = hasRow (writeAll t (openCur t s) (order.zip zs)) k := rfl
      rw [hr', hr, hl, hmem]
      cases hasRow s k <;> cases hasLoose s k <;> rfl
    · simp only [has, hr, hl, hmem]
      cases hasRow s k <;> cases hasLoose s k <;> rfl

/-! ### `clean`, `delete` -/

theorem has_clean (s : St) (k : Nat) : has (clean s) k = has s k := by
  have hr : hasRow (clean s) k = hasRow s k := rfl
  have hl : hasLoose (clean s) k = (hasLoose s k && !hasRow s k) := by
    rw [Bool.eq_iff_iff]
    simp only [hasLoose_eq_decide, clean, decide_eq_true_eq, Bool.and_eq_true, Bool.not_eq_true',
      List.mem_map, List.mem_filter]
    constructor
    · rintro ⟨e, ⟨he, hn⟩, rfl⟩
      exact ⟨⟨e, he, rfl⟩, by simpa using hn⟩
    · rintro ⟨⟨e, he, rfl⟩, hn⟩
      exact ⟨e, ⟨he, by simpa using hn⟩, rfl⟩
  simp only [has, hr, hl]
  cases hasRow s k <;> cases hasLoose s k <;> rfl

theorem has_delete (s : St) (ks : List Nat) (k : Nat) : has (delete s ks).1 k = (has s k && !ks.contains k) := by
  have hl : hasLoose (delete s ks).1 k = (hasLoose s k && !ks.contains k) := hasLoose_removeLoose s ks k
  have hr : hasRow (delete s ks).1 k = (hasRow s k && !ks.contains k) := by
    rw [Bool.eq_iff_iff]
    simp only [hasRow_eq_decide, delete, decide_eq_true_eq, Bool.and_eq_true, Bool.not_eq_true',
      List.mem_map, List.mem_filter]
    constructor
    · rintro ⟨e, ⟨he, hn⟩, rfl⟩
      exact ⟨⟨e, he, rfl⟩, by simpa using hn⟩
    · rintro ⟨⟨e, he, rfl⟩, hn⟩
      exact ⟨e, ⟨he, by simpa using hn⟩, rfl⟩
  simp only [has, hr, hl]
  cases hasRow s k <;> cases hasLoose s k <;> cases ks.contains k <;> rfl

/-! ### `repack` -/

theorem rowKeys_repackPack {t : Tab} {s s' : St} {m : Mode} {p : Nat} {order : List Nat} {zs : List Bool}
    (h : repackPack t s m p order zs = some s') :
    s'.rows.map (·.key) = s.rows.map (·.key) ∧ s'.loose = s.loose := by
  unfold repackPack at h
  simp only at h
  split at h
  · split at h
    · simp only [Option.some.injEq] at h; subst h; exact ⟨rfl, rfl⟩
    · exact absurd h (by simp)
  · split at h
    · exact absurd h (by simp)
    split at h
    · exact absurd h (by simp)
    split at h
    · exact absurd h (by simp)
    simp only [Option.some.injEq] at h
    subst h
    refine ⟨?_, rfl⟩
    simp only [List.map_map]
    apply List.map_congr_left
    intro r _
    simp only [Function.comp]
    split
    · cases hf : findRow (rebuild t p (sortByOff (rowsOfPack s.rows p)) zs 0).2 r.key with
      | none => rfl
      | some r' => exact (findRow_some hf).2
    · rfl

theorem has_repackAll {t : Tab} {m : Mode} {plan : List (Nat × List Nat × List Bool)} {s s' : St}
    (h : repackAll t m s plan = some s') (k : Nat) : has s' k = has s k := by
  induction plan generalizing s with
  | nil =>
    simp only [repackAll, Option.some.injEq] at h
    subst h; rfl
  | cons e rest ih =>
    obtain ⟨p, order, zs⟩ := e
    simp only [repackAll] at h
    split at h
    · exact absurd h (by simp)
    · rename_i s1 h1
      obtain ⟨hk, hl⟩ := rowKeys_repackPack h1
      rw [ih h]
      simp only [has, hasRow_congr hk, hasLoose_congr hl]

/-! ### `loosen` -/

theorem has_loosen {t : Tab} (wf : t.WF) {s s' : St} (inv : Inv t s) {k0 : Nat} (h : loosen t s k0 = some s')
    (k : Nat) : has s' k = has s k := by
  unfold loosen at h
  split at h
  · simp only [Option.some.injEq] at h; subst h; rfl
  · split at h
    · rename_i c hc
      simp only [Option.some.injEq] at h
      subst h
      cases hh : has s k0 with
      | false => rw [getc_none_of_not_has hh] at hc; exact absurd hc (by simp)
      | true =>
        rw [getc_of_has wf inv hh] at hc
        simp only [Option.some.injEq] at hc
        subst hc
        rw [has_addLoose]
        by_cases hk : k = k0
        · subst hk; simp [hh]
        · simp [hk]
    · exact absurd h (by simp)

/-! ### `importObjs` -/

theorem importObjs_aux {t : Tab} {s s' : St} {w o : List Nat} {z tr : Bool} (needed streams : List Nat)
    (h : (if !(nodupB w && nodupB o && isPerm o needed) then none
      else if tr && streams.length == needed.length then none
      else match streams with
        | [] => some s
        | _ =>
          some (if tr then openCur t (writeAll t (openCur t s) (o.map (fun c => (c, z))))
            else writeAll t (openCur t s) (o.map (fun c => (c, z))))) = some s') (k : Nat) :
    (streams = [] ∧ s' = s) ∨ has s' k = (has s k || needed.contains k) := by
  split at h
  · exact absurd h (by simp)
  rename_i h1
  split at h
  · exact absurd h (by simp)
  simp only [Bool.not_eq_true, Bool.not_eq_false', Bool.and_eq_true] at h1
  have hperm := mem_of_isPerm h1.2 k
  split at h
  · simp only [Option.some.injEq] at h
    exact Or.inl ⟨rfl, h.symm⟩
  · right
    simp only [Option.some.injEq] at h
    have hfst : (o.map (fun c => (c, z))).map (·.1) = o := by
      rw [List.map_map]; simp [Function.comp_def]
    have hr : hasRow (writeAll t (openCur t s) (o.map (fun c => (c, z)))) k = (hasRow s k || o.contains k) := by
      rw [hasRow_writeAll, hfst, hasRow_openCur]
    have hl : hasLoose (writeAll t (openCur t s) (o.map (fun c => (c, z)))) k = hasLoose s k := by
      rw [hasLoose_writeAll, hasLoose_openCur]
    have hmem : needed.contains k = o.contains k := by
      rw [Bool.eq_iff_iff, List.contains_iff_mem, List.contains_iff_mem, hperm]
    rw [hmem]
    subst h
    split
    · simp only [has, hasRow_openCur, hasLoose_openCur, hr, hl]
      cases hasRow s k <;> cases hasLoose s k <;> cases o.contains k <;> rfl
    · simp only [has, hr, hl]
      cases hasRow s k <;> cases hasLoose s k <;> cases o.contains k <;> rfl

theorem contains_filter_not (w : List Nat) (f : Nat → Bool) (k : Nat) :
    (w.filter (fun c => !f c)).contains k = (w.contains k && !f k) := by
  rw [Bool.eq_iff_iff]
  simp [List.mem_filter]

theorem has_importObjs {t : Tab} {s s' : St} {w o : List Nat} {z same tr : Bool}
    (h : importObjs t s w o z same tr = some s') (k : Nat) : has s' k = (has s k || w.contains k) := by
  unfold importObjs at h
  cases same with
  | true =>
    simp only [if_true] at h
    rcases importObjs_aux _ _ h k with ⟨hs, rfl⟩ | h'
    · have := contains_filter_not w (has s') k
      rw [hs] at this
      revert this
      cases has s' k <;> cases w.contains k <;> simp
    · rw [h', contains_filter_not]
      cases has s k <;> cases w.contains k <;> rfl
  | false =>
    simp only [Bool.false_eq_true, if_false] at h
    rcases importObjs_aux _ _ h k with ⟨hs, rfl⟩ | h'
    · subst hs; simp
    · rw [h', contains_filter_not]
      simp only [has]
      cases hasRow s k <;> cases hasLoose s k <;> cases w.contains k <;> rfl

/-! ### the theorem -/

theorem has_step {t : Tab} (wf : t.WF) {s s' : St} (inv : Inv t s) {op : Op} (h : step t s op = some s') (k : Nat) :
    has s' k = specHas (has s) op k := by
  cases op with
  | addLoose c =>
    simp only [step, Option.some.injEq] at h; subst h
    exact has_addLoose s c k
  | addPacked cs z nh =>
    simp only [step, Option.some.injEq] at h; subst h
    exact has_addPacked t s cs z nh k
  | packAll m order zs cl => exact has_packAll h k
  | clean =>
    simp only [step, Option.some.injEq] at h; subst h
    exact has_clean s k
  | delete ks =>
    simp only [step, Option.some.injEq] at h; subst h
    exact has_delete s ks k
  | repack m plan => exact has_repackAll h k
  | loosen k0 => exact has_loosen wf inv h k
  | reopen =>
    simp only [step, Option.some.injEq] at h; subst h
    rfl
  | importObjs w o z same tr => exact has_importObjs h k

end Dos
