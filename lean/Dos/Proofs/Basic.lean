/-
Basic lemmas about the association-list helpers, segment lengths and row ids.
-/
import Dos.Inv

namespace Dos

@[simp] theorem segsLen_nil (t : Tab) : segsLen t [] = 0 := rfl
@[simp] theorem segsLen_cons (t : Tab) (g : Seg) (gs : List Seg) : segsLen t (g :: gs) = g.len t + segsLen t gs := rfl

@[simp] theorem segsLen_append (t : Tab) (a b : List Seg) : segsLen t (a ++ b) = segsLen t a + segsLen t b := by
  induction a with
  | nil => simp
  | cons g gs ih => simp [ih, Nat.add_assoc]

theorem getPack_setPack_eq (ps : Packs) (p : Nat) (segs : List Seg) : getPack (setPack ps p segs) p = some segs := by
  induction ps with
  | nil => simp [setPack, getPack]
  | cons e rest ih =>
    obtain ⟨q, gs⟩ := e
    by_cases h : q = p
    · simp [setPack, getPack, h]
    · simp [setPack, getPack, h, ih]

theorem getPack_setPack_ne (ps : Packs) (p q : Nat) (segs : List Seg) (h : q ≠ p) :
    getPack (setPack ps p segs) q = getPack ps q := by
  induction ps with
  | nil => simp [setPack, getPack]; intro h'; exact absurd h'.symm h
  | cons e rest ih =>
    obtain ⟨r, gs⟩ := e
    by_cases h1 : r = p
    · subst h1
      simp [setPack, getPack]
      by_cases h2 : r = q
      · exact absurd h2.symm h
      · simp [h2]
    · by_cases h2 : r = q
      · subst h2; simp [setPack, getPack, h1]
      · simp [setPack, getPack, h1, h2, ih]

theorem getPack_erasePack_eq (ps : Packs) (p : Nat) : getPack (erasePack ps p) p = none := by
  induction ps with
  | nil => simp [erasePack, getPack]
  | cons e rest ih =>
    obtain ⟨q, gs⟩ := e
    by_cases h : q = p
    · simp [erasePack, h, ih]
    · simp [erasePack, getPack, h, ih]

theorem getPack_erasePack_ne (ps : Packs) (p q : Nat) (h : q ≠ p) : getPack (erasePack ps p) q = getPack ps q := by
  induction ps with
  | nil => simp [erasePack, getPack]
  | cons e rest ih =>
    obtain ⟨r, gs⟩ := e
    by_cases h1 : r = p
    · subst h1
      have : ¬ r = q := fun h' => h h'.symm
      simp [erasePack, getPack, this, ih]
    · by_cases h2 : r = q
      · subst h2; simp [erasePack, getPack, h1]
      · simp [erasePack, getPack, h1, h2, ih]

theorem mem_keys_of_getPack {ps : Packs} {p : Nat} {segs : List Seg} (h : getPack ps p = some segs) :
    p ∈ ps.map (·.1) := by
  induction ps with
  | nil => simp [getPack] at h
  | cons e rest ih =>
    obtain ⟨q, gs⟩ := e
    by_cases h1 : q = p
    · simp [h1]
    · simp [getPack, h1] at h
      simp [ih h]

theorem getPack_none_of_not_mem {ps : Packs} {p : Nat} (h : p ∉ ps.map (·.1)) : getPack ps p = none := by
  induction ps with
  | nil => rfl
  | cons e rest ih =>
    obtain ⟨q, gs⟩ := e
    simp at h
    have h1 : ¬ q = p := fun h' => h.1 h'.symm
    simp [getPack, h1]
    exact ih (by simpa using h.2)

theorem keys_setPack (ps : Packs) (p : Nat) (segs : List Seg) :
    (setPack ps p segs).map (·.1) = if p ∈ ps.map (·.1) then ps.map (·.1) else ps.map (·.1) ++ [p] := by
  induction ps with
  | nil => simp [setPack]
  | cons e rest ih =>
    obtain ⟨q, gs⟩ := e
    by_cases h1 : q = p
    · simp [setPack, h1]
    · have h1' : ¬ p = q := fun h' => h1 h'.symm
      by_cases hm : p ∈ rest.map (·.1)
      · simp [setPack, h1, h1', ih, hm]
      · simp [setPack, h1, h1', ih, hm]

theorem nodup_keys_setPack {ps : Packs} (p : Nat) (segs : List Seg) (h : (ps.map (·.1)).Nodup) :
    ((setPack ps p segs).map (·.1)).Nodup := by
  rw [keys_setPack]
  split
  · exact h
  · rename_i hp
    rw [List.nodup_append]
    refine ⟨h, by simp, ?_⟩
    intro a ha b hb
    simp at hb
    subst hb
    intro hab
    exact hp (hab ▸ ha)

theorem le_maxId {rows : List Row} {r : Row} (h : r ∈ rows) : r.id ≤ maxId rows := by
  induction rows with
  | nil => simp at h
  | cons x xs ih =>
    simp [maxId]
    rcases List.mem_cons.mp h with h | h
    · subst h; omega
    · have := ih h; omega

theorem lt_nextId {rows : List Row} {r : Row} (h : r ∈ rows) : r.id < nextId rows := by
  have := le_maxId h
  simp [nextId]; omega

end Dos
