/-
Descriptor accounting (property C18) for the action lists of the optioned writers, `import_objects` and the full history:
every operation returns with no descriptor held, never holds more than two at any cut point (a pack and its lock file), and
a whole history of operations therefore never accumulates descriptors however many operations or packs it writes.
-/
import Dos.Fd
import Dos.IOImport
import Dos.IOPackAllO
import Dos.Proofs.FdAux
import Dos.Proofs.FdProofs
import Dos.Proofs.FdOAux

namespace Dos.Fd
open Dos Dos.IO

theorem balanced_addPackedO (t : Tab) (s : St) (cs : List Nat) (z nh rt f : Bool) :
    held (actsAddPackedO t s cs z nh rt f) = 0 := by
  have h := (G_callActs (x0 := ofSt s) rfl rfl t s cs z nh rt f true).hd
  simpa [actsAddPackedO] using h

theorem bounded_addPackedO (t : Tab) (s : St) (cs : List Nat) (z nh rt f : Bool) (k : Nat) :
    0 ≤ held ((actsAddPackedO t s cs z nh rt f).take k) ∧ held ((actsAddPackedO t s cs z nh rt f).take k) ≤ 2 :=
  ((G_callActs (x0 := ofSt s) rfl rfl t s cs z nh rt f true).pre _ (List.take_prefix k _)).2.2

theorem balanced_import (t : Tab) (s : St) (calls : List (List Nat)) (z nh rt f : Bool) :
    held (actsImport t s calls z nh rt f) = 0 := by
  unfold actsImport
  rw [held_app, (callsGo_spec t z nh rt f calls s).1]
  rfl

theorem bounded_import (t : Tab) (s : St) (calls : List (List Nat)) (z nh rt f : Bool) (k : Nat) :
    0 ≤ held ((actsImport t s calls z nh rt f).take k) ∧ held ((actsImport t s calls z nh rt f).take k) ≤ 2 := by
  unfold actsImport
  obtain ⟨h0, hb⟩ := callsGo_spec t z nh rt f calls s
  refine held_take_append_bound h0 hb ?_ k
  intro j
  rw [held_take_zero (l := [Act.sqlCommit]) (by intro a ha; simp at ha; subst ha; rfl) j]
  omega

theorem balanced_packAllO (t : Tab) (s : St) (order : List Nat) (zs : List Bool) (cl f : Bool) :
    held (actsPackAllO t s order zs cl f) = 0 := by
  have h := (G_packAllO (x0 := ofSt s) rfl rfl t s order zs cl f).hd
  simpa using h

theorem bounded_packAllO (t : Tab) (s : St) (order : List Nat) (zs : List Bool) (cl f : Bool) (k : Nat) :
    0 ≤ held ((actsPackAllO t s order zs cl f).take k) ∧ held ((actsPackAllO t s order zs cl f).take k) ≤ 2 :=
  ((G_packAllO (x0 := ofSt s) rfl rfl t s order zs cl f).pre _ (List.take_prefix k _)).2.2

theorem bounded_repackPack (t : Tab) (s : St) (p : Nat) (zs : List Bool) (k : Nat) :
    0 ≤ held ((actsRepackPack t s p zs).take k) ∧ held ((actsRepackPack t s p zs).take k) ≤ 2 :=
  ((G_repackPack (x0 := ofSt s) rfl rfl t s p zs).pre _ (List.take_prefix k _)).2.2

theorem bounded_clean (s : St) (order : List Nat) (k : Nat) : held ((actsClean s order).take k) = 0 := by
  apply held_take_zero
  intro a ha
  obtain ⟨b, _, rfl⟩ := List.mem_map.mp ha
  rfl

theorem bounded_delete (s : St) (ks : List Nat) (k : Nat) : held ((actsDelete s ks).take k) = 0 := by
  apply held_take_zero
  intro a ha
  unfold actsDelete at ha
  simp only [List.mem_append, List.mem_map] at ha
  rcases ha with (⟨b, _, rfl⟩ | ⟨b, _, rfl⟩) | ha
  · rfl
  · rfl
  · simp at ha; subst ha; rfl

/-- a concatenation of balanced, bounded action lists (= any sequence of operations, however long) is balanced and bounded:
    descriptors do not accumulate with the number of operations -/
theorem bounded_concat (ls : List (List Act)) (b : Int) (hb : 0 ≤ b)
    (hbal : ∀ l ∈ ls, held l = 0) (hbd : ∀ l ∈ ls, ∀ k, 0 ≤ held (l.take k) ∧ held (l.take k) ≤ b) (k : Nat) :
    held ls.flatten = 0 ∧ 0 ≤ held (ls.flatten.take k) ∧ held (ls.flatten.take k) ≤ b := by
  induction ls generalizing k with
  | nil => simp [held, hb]
  | cons l ls ih =>
    have h0 := hbal l (by simp)
    have ih' := fun j => ih (fun m hm => hbal m (by simp [hm])) (fun m hm => hbd m (by simp [hm])) j
    rw [List.flatten_cons]
    refine ⟨by rw [held_app, h0, (ih' 0).1]; rfl, ?_⟩
    exact held_take_append_bound h0 (hbd l (by simp)) (fun j => (ih' j).2) k

end Dos.Fd
