/-
Helpers for `MultiBulkProofs`: pinned snapshots have duplicate-free keys along every history, `findRows` finds exactly
the rows `findRow` finds, and the pure core of `bulkLookup` against the pure core of `lookup`.
-/
import Dos.MultiBulk
import Dos.Proofs.MultiProofs
import Dos.Proofs.MergeProofs

namespace Dos.Multi
open Dos Dos.Merge

/-! ### pinned snapshots have duplicate-free keys -/

/-- every pinned snapshot has duplicate-free keys -/
def SnapNodup (m : MSt) : Prop := ∀ h rows, getSnap m h = some rows → (rows.map (·.key)).Nodup

theorem snapNodup_setSnap {m : MSt} (sn : SnapNodup m) (h : Nat) {v : Option (List Row)}
    (hv : ∀ rows, v = some rows → (rows.map (·.key)).Nodup) : SnapNodup (setSnap m h v) := by
  intro h' rows hg
  rcases getSnap_setSnap_cases hg with h1 | h1
  · exact hv rows h1
  · exact sn h' rows h1

theorem snapNodup_disk {m : MSt} (sn : SnapNodup m) (d : St) : SnapNodup { m with disk := d } := sn

theorem snapNodup_setSnap_cur {t : Tab} {m : MSt} (mi : MInv t m) (sn : SnapNodup m) (h : Nat) :
    SnapNodup (setSnap m h (some m.disk.rows)) :=
  snapNodup_setSnap sn h (by intro rows hr; cases hr; exact mi.inv.keys_nodup)

theorem snapNodup_pin {t : Tab} {m : MSt} (mi : MInv t m) (sn : SnapNodup m) (h : Nat) : SnapNodup (pin m h).2 := by
  unfold pin; split
  · exact sn
  · exact snapNodup_setSnap_cur mi sn h

theorem snapNodup_lookup {t : Tab} {m : MSt} (mi : MInv t m) (sn : SnapNodup m) (h k : Nat) :
    SnapNodup (lookup m h k).2 := by
  have hp := snapNodup_pin mi sn h
  have h2 : SnapNodup (setSnap (pin m h).2 h (some m.disk.rows)) :=
    snapNodup_setSnap hp h (by intro rows hr; cases hr; exact mi.inv.keys_nodup)
  unfold lookup
  simp only
  split
  · exact hp
  · split
    · exact hp
    · split <;> exact h2

theorem snapNodup_mstep {t : Tab} {m m' : MSt} (mi : MInv t m) (sn : SnapNodup m) {op : MOp}
    (hs : mstep t m op = some m') : SnapNodup m' := by
  cases op with
  | add h c =>
    simp only [mstep, Option.some.injEq] at hs; subst hs
    exact snapNodup_disk sn _
  | pack mode order zs cl =>
    simp only [mstep] at hs
    split at hs
    · next d hd =>
      simp only [Option.some.injEq] at hs; subst hs
      exact snapNodup_setSnap (snapNodup_disk sn d) 0 (by intro rows hr; cases hr)
    · cases hs
  | clean =>
    simp only [mstep, Option.some.injEq] at hs; subst hs
    exact snapNodup_setSnap (snapNodup_disk sn _) 0 (by intro rows hr; cases hr; exact mi.inv.keys_nodup)
  | qHas h k =>
    simp only [mstep, Option.some.injEq] at hs; subst hs
    rw [qHas_snd]; exact snapNodup_lookup mi sn h k
  | qGet h k =>
    simp only [mstep, Option.some.injEq] at hs; subst hs
    exact snapNodup_lookup mi sn h k
  | qList h =>
    simp only [mstep, Option.some.injEq] at hs; subst hs
    exact snapNodup_setSnap_cur mi sn h

theorem snapNodup_mrun {t : Tab} {ops : List MOp} {m m' : MSt} (mi : MInv t m) (sn : SnapNodup m)
    (hr : mrun t m ops = some m') : SnapNodup m' := by
  induction ops generalizing m with
  | nil => simp only [mrun, Option.some.injEq] at hr; subst hr; exact sn
  | cons op ops ih =>
    simp only [mrun] at hr
    split at hr
    · cases hr
    · next m1 h1 => exact ih (minv_mstep mi h1) (snapNodup_mstep mi sn h1) hr

theorem snapNodup_init (tg n : Nat) : SnapNodup (MSt.init tg n) := by
  intro h rows hg
  simp only [getSnap, MSt.init, List.getD_eq_getElem?_getD, List.getElem?_replicate] at hg
  split at hg <;> simp at hg

theorem pin_nodup {t : Tab} {m : MSt} (mi : MInv t m) (sn : SnapNodup m) (h : Nat) :
    ((pin m h).1.map (·.key)).Nodup := by
  unfold pin; split
  · next rows hg => exact sn h rows hg
  · exact mi.inv.keys_nodup

/-! ### `eraseDups` -/

theorem eraseDups_nodup_aux (n : Nat) : ∀ l : List Nat, l.length ≤ n → l.eraseDups.Nodup := by
  induction n with
  | zero =>
    intro l hl
    have : l = [] := List.length_eq_zero_iff.mp (by omega)
    subst this
    simp
  | succ n ih =>
    intro l hl
    cases l with
    | nil => simp
    | cons a as =>
      rw [List.eraseDups_cons, List.nodup_cons]
      constructor
      · rw [List.mem_eraseDups]
        simp
      · apply ih
        have := List.length_filter_le (fun b => !b == a) as
        simp only [List.length_cons] at hl
        omega

theorem eraseDups_nodup (l : List Nat) : l.eraseDups.Nodup := eraseDups_nodup_aux l.length l (Nat.le_refl _)

/-! ### `findRows` -/

theorem filterMap_findRow_keys (rows : List Row) :
    ∀ l : List Nat, (∀ k ∈ l, k ∈ rows.map (·.key)) → (l.filterMap (fun k => findRow rows k)).map (·.key) = l := by
  intro l
  induction l with
  | nil => intro _; rfl
  | cons a l ih =>
    intro hl
    have ha : a ∈ rows.map (·.key) := hl a (by simp)
    cases hf : findRow rows a with
    | none => exact absurd ha (findRow_none_iff.mp hf)
    | some r =>
      have hk := (findRow_some hf).2
      rw [List.filterMap_cons_some hf, List.map_cons, hk, ih (fun k hk => hl k (List.mem_cons_of_mem _ hk))]

theorem findRows_keys {rows : List Row} {ks : List Nat} (hr : (rows.map (·.key)).Nodup) (hk : ks.Nodup)
    (inMax scanMax : Nat) (hin : 0 < inMax) :
    (findRows rows ks inMax scanMax).map (·.key) = bulkFind (rows.map (·.key)) ks inMax scanMax := by
  unfold findRows
  apply filterMap_findRow_keys
  intro k hk'
  exact (((bulkFind_spec _ _ hr hk inMax scanMax hin).2 k).mp hk').1

theorem findRows_keys_nodup {rows : List Row} {ks : List Nat} (hr : (rows.map (·.key)).Nodup) (hk : ks.Nodup)
    (inMax scanMax : Nat) (hin : 0 < inMax) : ((findRows rows ks inMax scanMax).map (·.key)).Nodup := by
  rw [findRows_keys hr hk inMax scanMax hin]
  exact (bulkFind_spec _ _ hr hk inMax scanMax hin).1

theorem mem_findRows {rows : List Row} {ks : List Nat} (hr : (rows.map (·.key)).Nodup) (hk : ks.Nodup)
    (inMax scanMax : Nat) (hin : 0 < inMax) (r : Row) :
    r ∈ findRows rows ks inMax scanMax ↔ r.key ∈ ks ∧ findRow rows r.key = some r := by
  have hs := (bulkFind_spec _ _ hr hk inMax scanMax hin).2
  unfold findRows
  rw [List.mem_filterMap]
  constructor
  · rintro ⟨k, hkm, hf⟩
    have := (findRow_some hf).2
    subst this
    exact ⟨((hs _).mp hkm).2, hf⟩
  · rintro ⟨h1, h2⟩
    refine ⟨r.key, (hs _).mpr ⟨?_, h1⟩, h2⟩
    exact List.mem_map.mpr ⟨r, (findRow_some h2).1, rfl⟩

theorem mem_findRows_keys {rows : List Row} {ks : List Nat} (hr : (rows.map (·.key)).Nodup) (hk : ks.Nodup)
    (inMax scanMax : Nat) (hin : 0 < inMax) (k : Nat) :
    k ∈ (findRows rows ks inMax scanMax).map (·.key) ↔ k ∈ ks ∧ (findRow rows k).isSome := by
  rw [findRows_keys hr hk inMax scanMax hin, (bulkFind_spec _ _ hr hk inMax scanMax hin).2 k]
  constructor
  · rintro ⟨h1, h2⟩
    refine ⟨h2, ?_⟩
    cases hf : findRow rows k with
    | none => exact absurd h1 (findRow_none_iff.mp hf)
    | some r => rfl
  · rintro ⟨h1, h2⟩
    refine ⟨?_, h1⟩
    cases hf : findRow rows k with
    | none => rw [hf] at h2; cases h2
    | some r =>
      obtain ⟨hm, hkey⟩ := findRow_some hf
      exact List.mem_map.mpr ⟨r, hm, hkey⟩

theorem findRows_nil (rows : List Row) (inMax scanMax : Nat) : findRows rows [] inMax scanMax = [] := by
  simp [findRows, bulkFind, chunkIter, chunks]

/-! ### the pure cores -/

/-- what `lookup` reports, as a function of the pinned rows, the current rows and the loose files -/
def look1 (rows cur : List Row) (loose : List (Nat × Nat)) (k : Nat) : Found :=
  match findRow rows k with
  | some r => .packed r
  | none =>
    match findLoose loose k with
    | some c => .loose c
    | none =>
      match findRow cur k with
      | some r => .packed r
      | none => .missing

theorem lookup_fst (m : MSt) (h k : Nat) : (lookup m h k).1 = look1 (pin m h).1 m.disk.rows m.disk.loose k := by
  unfold lookup look1
  simp only
  cases findRow (pin m h).1 k with
  | some r => rfl
  | none =>
    cases findLoose m.disk.loose k with
    | some c => rfl
    | none =>
      cases findRow m.disk.rows k with
      | some r => rfl
      | none => rfl

/-- what `bulkLookup` reports, without the shortcut when nothing is left after stage 2 -/
def bulkOut (rows cur : List Row) (loose : List (Nat × Nat)) (ks : List Nat) (inMax scanMax : Nat) (skip : Bool) :
    List (Nat × Found) :=
  let hit1 := findRows rows ks inMax scanMax
  let out1 := hit1.map (fun r => (r.key, Found.packed r))
  let rest1 := ks.filter (fun k => !(hit1.map (·.key)).contains k)
  let out2 := rest1.filterMap (fun k => (findLoose loose k).map (fun c => (k, Found.loose c)))
  let rest2 := rest1.filter (fun k => (findLoose loose k).isNone)
  let hit3 := findRows cur rest2 inMax scanMax
  let out3 := hit3.map (fun r => (r.key, Found.packed r))
  let rest3 := rest2.filter (fun k => !(hit3.map (·.key)).contains k)
  out1 ++ out2 ++ out3 ++ (if skip then [] else rest3.map (fun k => (k, Found.missing)))

theorem bulkLookup_fst (m : MSt) (h : Nat) (req : List Nat) (inMax scanMax : Nat) (skip : Bool) :
    (bulkLookup m h req inMax scanMax skip).1 =
      bulkOut (pin m h).1 m.disk.rows m.disk.loose req.eraseDups inMax scanMax skip := by
  unfold bulkLookup bulkOut
  simp only
  split
  · next heq =>
    simp only [heq, findRows_nil, List.map_nil, List.filter_nil, List.append_nil, ite_self]
  · rfl

/-! ### the core statement -/

theorem mem_rest {rows : List Row} {ks : List Nat} (hr : (rows.map (·.key)).Nodup) (hk : ks.Nodup)
    (inMax scanMax : Nat) (hin : 0 < inMax) (k : Nat) :
    k ∈ ks.filter (fun k => !((findRows rows ks inMax scanMax).map (·.key)).contains k) ↔
      k ∈ ks ∧ findRow rows k = none := by
  rw [List.mem_filter]
  simp only [Bool.not_eq_true', List.contains_eq_mem, decide_eq_false_iff_not,
    mem_findRows_keys hr hk inMax scanMax hin]
  constructor
  · rintro ⟨h1, h2⟩
    refine ⟨h1, ?_⟩
    cases hf : findRow rows k with
    | none => rfl
    | some r => exact absurd ⟨h1, by simp [hf]⟩ h2
  · rintro ⟨h1, h2⟩
    exact ⟨h1, by simp [h2]⟩

theorem bulkOut_spec {rows cur : List Row} {ks : List Nat} (loose : List (Nat × Nat))
    (hr : (rows.map (·.key)).Nodup) (hc : (cur.map (·.key)).Nodup) (hk : ks.Nodup)
    (inMax scanMax : Nat) (hin : 0 < inMax) (skip : Bool) :
    ((bulkOut rows cur loose ks inMax scanMax skip).map (·.1)).Nodup ∧
    (∀ k f, (k, f) ∈ bulkOut rows cur loose ks inMax scanMax skip → k ∈ ks ∧ f = look1 rows cur loose k) ∧
    (∀ k ∈ ks, (look1 rows cur loose k ≠ .missing ∨ skip = false) →
      (k, look1 rows cur loose k) ∈ bulkOut rows cur loose ks inMax scanMax skip) := by
  unfold bulkOut
  simp only
  -- names
  generalize hh1 : findRows rows ks inMax scanMax = hit1
  have h1mem : ∀ r, r ∈ hit1 ↔ r.key ∈ ks ∧ findRow rows r.key = some r := by
    intro r; rw [← hh1]; exact mem_findRows hr hk inMax scanMax hin r
  have h1nd : (hit1.map (·.key)).Nodup := by rw [← hh1]; exact findRows_keys_nodup hr hk inMax scanMax hin
  generalize hr1 : ks.filter (fun k => !(hit1.map (·.key)).contains k) = rest1
  have r1mem : ∀ k, k ∈ rest1 ↔ k ∈ ks ∧ findRow rows k = none := by
    intro k; rw [← hr1, ← hh1]; exact mem_rest hr hk inMax scanMax hin k
  have r1nd : rest1.Nodup := by rw [← hr1]; exact hk.sublist List.filter_sublist
  generalize hr2 : rest1.filter (fun k => (findLoose loose k).isNone) = rest2
  have r2mem : ∀ k, k ∈ rest2 ↔ k ∈ ks ∧ findRow rows k = none ∧ findLoose loose k = none := by
    intro k; rw [← hr2, List.mem_filter, r1mem, Option.isNone_iff_eq_none, and_assoc]
  have r2nd : rest2.Nodup := by rw [← hr2]; exact r1nd.sublist List.filter_sublist
  generalize hh3 : findRows cur rest2 inMax scanMax = hit3
  have h3mem : ∀ r, r ∈ hit3 ↔ r.key ∈ rest2 ∧ findRow cur r.key = some r := by
    intro r; rw [← hh3]; exact mem_findRows hc r2nd inMax scanMax hin r
  have h3nd : (hit3.map (·.key)).Nodup := by rw [← hh3]; exact findRows_keys_nodup hc r2nd inMax scanMax hin
  generalize hr3 : rest2.filter (fun k => !(hit3.map (·.key)).contains k) = rest3
  have r3mem : ∀ k, k ∈ rest3 ↔ k ∈ rest2 ∧ findRow cur k = none := by
    intro k; rw [← hr3, ← hh3]; exact mem_rest hc r2nd inMax scanMax hin k
  have r3nd : rest3.Nodup := by rw [← hr3]; exact r2nd.sublist List.filter_sublist
  -- the second stage
  have o2keys : (rest1.filterMap (fun k => (findLoose loose k).map (fun c => (k, Found.loose c)))).map (·.1) =
      rest1.filter (fun k => (findLoose loose k).isSome) := by
    clear r1mem r1nd hr1 hr2
    induction rest1 with
    | nil => rfl
    | cons a l ih =>
      cases hf : findLoose loose a with
      | none => simp [hf, ih]
      | some c => simp [hf, ih]
  have o2mem : ∀ k f, (k, f) ∈ rest1.filterMap (fun k => (findLoose loose k).map (fun c => (k, Found.loose c))) ↔
      k ∈ rest1 ∧ ∃ c, findLoose loose k = some c ∧ f = .loose c := by
    intro k f
    simp only [List.mem_filterMap, Option.map_eq_some_iff, Prod.mk.injEq]
    constructor
    · rintro ⟨a, ha, c, hc', rfl, rfl⟩
      exact ⟨ha, c, hc', rfl⟩
    · rintro ⟨ha, c, hc', rfl⟩
      exact ⟨k, ha, c, hc', rfl, rfl⟩
  refine ⟨?_, ?_, ?_⟩
  · -- each key once
    simp only [List.map_append, List.map_map]
    have e1 : (hit1.map ((fun x : Nat × Found => x.1) ∘ fun r => (r.key, Found.packed r))) = hit1.map (·.key) := rfl
    have e3 : (hit3.map ((fun x : Nat × Found => x.1) ∘ fun r => (r.key, Found.packed r))) = hit3.map (·.key) := rfl
    have k1 : ∀ k, k ∈ hit1.map (·.key) → k ∈ ks ∧ (findRow rows k).isSome := by
      intro k hk'
      obtain ⟨r, hr', rfl⟩ := List.mem_map.mp hk'
      have := (h1mem r).mp hr'
      exact ⟨this.1, by simp [this.2]⟩
    have k3 : ∀ k, k ∈ hit3.map (·.key) → k ∈ rest2 ∧ (findRow cur k).isSome := by
      intro k hk'
      obtain ⟨r, hr', rfl⟩ := List.mem_map.mp hk'
      have := (h3mem r).mp hr'
      exact ⟨this.1, by simp [this.2]⟩
    have k4 : ∀ k, k ∈ ((if skip = true then [] else rest3.map (fun k => (k, Found.missing))).map (·.1)) → k ∈ rest3 := by
      intro k hk'
      cases skip with
      | true => simp at hk'
      | false => simpa using hk'
    have n4 : ((if skip = true then [] else rest3.map (fun k => (k, Found.missing))).map (·.1)).Nodup := by
      cases skip with
      | true => simp
      | false => simpa [List.map_map, Function.comp_def] using r3nd
    rw [e1, e3]
    rw [List.nodup_append, List.nodup_append, List.nodup_append]
    refine ⟨⟨⟨h1nd, ?_, ?_⟩, h3nd, ?_⟩, n4, ?_⟩
    · exact r1nd.sublist (by rw [o2keys]; exact List.filter_sublist)
    · intro a ha b hb hab
      subst hab
      rw [o2keys, List.mem_filter, r1mem] at hb
      have := (k1 a ha).2
      rw [hb.1.2] at this; cases this
    · intro a ha b hb hab
      subst hab
      have h3' := k3 a hb
      rw [r2mem] at h3'
      rcases List.mem_append.mp ha with ha | ha
      · have := (k1 a ha).2
        rw [h3'.1.2.1] at this; cases this
      · rw [o2keys, List.mem_filter] at ha
        have := ha.2
        rw [h3'.1.2.2] at this; cases this
    · intro a ha b hb hab
      subst hab
      have h4 := k4 a hb
      rw [r3mem, r2mem] at h4
      rcases List.mem_append.mp ha with ha | ha
      · rcases List.mem_append.mp ha with ha | ha
        · have := (k1 a ha).2
          rw [h4.1.2.1] at this; cases this
        · rw [o2keys, List.mem_filter] at ha
          have := ha.2
          rw [h4.1.2.2] at this; cases this
      · have := (k3 a ha).2
        rw [h4.2] at this; cases this
  · -- what is reported is what `lookup` finds
    intro k f hm
    simp only [List.mem_append] at hm
    rcases hm with ((hm | hm) | hm) | hm
    · obtain ⟨r, hr', he⟩ := List.mem_map.mp hm
      cases he
      have := (h1mem r).mp hr'
      exact ⟨this.1, by simp [look1, this.2]⟩
    · obtain ⟨h1, c, h2, rfl⟩ := (o2mem k f).mp hm
      rw [r1mem] at h1
      exact ⟨h1.1, by simp [look1, h1.2, h2]⟩
    · obtain ⟨r, hr', he⟩ := List.mem_map.mp hm
      cases he
      have := (h3mem r).mp hr'
      rw [r2mem] at this
      exact ⟨this.1.1, by simp [look1, this.1.2.1, this.1.2.2, this.2]⟩
    · cases skip with
      | true => simp at hm
      | false =>
        simp only [Bool.false_eq_true, if_false] at hm
        obtain ⟨a, ha, he⟩ := List.mem_map.mp hm
        cases he
        rw [r3mem, r2mem] at ha
        exact ⟨ha.1.1, by simp [look1, ha.1.2.1, ha.1.2.2, ha.2]⟩
  · -- everything asked for is reported
    intro k hkm hcond
    simp only [List.mem_append]
    cases hf1 : findRow rows k with
    | some r =>
      left; left; left
      have hkey := (findRow_some hf1).2
      subst hkey
      have : look1 rows cur loose r.key = .packed r := by simp [look1, hf1]
      rw [this]
      exact List.mem_map.mpr ⟨r, (h1mem r).mpr ⟨hkm, hf1⟩, rfl⟩
    | none =>
      cases hf2 : findLoose loose k with
      | some c =>
        left; left; right
        have : look1 rows cur loose k = .loose c := by simp [look1, hf1, hf2]
        rw [this]
        exact (o2mem k _).mpr ⟨(r1mem k).mpr ⟨hkm, hf1⟩, c, hf2, rfl⟩
      | none =>
        have hk2 : k ∈ rest2 := (r2mem k).mpr ⟨hkm, hf1, hf2⟩
        cases hf3 : findRow cur k with
        | some r =>
          left; right
          have hkey := (findRow_some hf3).2
          subst hkey
          have : look1 rows cur loose r.key = .packed r := by simp [look1, hf1, hf2, hf3]
          rw [this]
          exact List.mem_map.mpr ⟨r, (h3mem r).mpr ⟨hk2, hf3⟩, rfl⟩
        | none =>
          right
          have hl : look1 rows cur loose k = .missing := by simp [look1, hf1, hf2, hf3]
          rw [hl] at hcond ⊢
          rcases hcond with hcond | hcond
          · exact absurd rfl hcond
          · subst hcond
            simp only [Bool.false_eq_true, if_false]
            exact List.mem_map.mpr ⟨k, (r3mem k).mpr ⟨hk2, hf3⟩, rfl⟩

/-- with `skip_if_missing` nothing is reported missing -/
theorem bulkOut_skip (rows cur : List Row) (loose : List (Nat × Nat)) (ks : List Nat) (inMax scanMax : Nat) (k : Nat) :
    (k, Found.missing) ∉ bulkOut rows cur loose ks inMax scanMax true := by
  unfold bulkOut
  simp only [if_true, List.append_nil, List.mem_append, List.mem_map, List.mem_filterMap, Option.map_eq_some_iff,
    Prod.mk.injEq]
  rintro ((⟨r, _, _, h⟩ | ⟨a, _, c, _, _, h⟩) | ⟨r, _, _, h⟩) <;> cases h

end Dos.Multi
