/-
Level C for the pack writers with options: the invariant of `Dos/Proofs/IOGood.lean` generalised over the
"watermark" up to which the rows of the index must lie in their pack:

  * `fl = false`: the synced prefix  (this is `Good`; it gives safety against a power loss as well),
  * `fl = true` : the flushed prefix (enough for a process kill and for a single fault).

and the simulation of `Dos/Proofs/IOPacks.lean` generalised to sessions that may leave their rows in the open
transaction (`do_commit=False`).
-/
import Dos.IOImport
import Dos.IOSpec
import Dos.Proofs.IOGood
import Dos.Proofs.IOPacks

namespace Dos.IO.Imp
open Dos Dos.IO

/-! ### the watermark -/

def wm (fl : Bool) (pk : XPack) : Nat := if fl then pk.flushed else pk.synced

theorem wm_ge {fl : Bool} {pk : XPack} (h : pk.synced ≤ pk.flushed) : pk.synced ≤ wm fl pk := by
  unfold wm; cases fl <;> simp <;> omega

theorem wm_le {fl : Bool} {pk : XPack} (h : pk.synced ≤ pk.flushed) : wm fl pk ≤ pk.flushed := by
  unfold wm; cases fl <;> simp <;> omega

structure GC (fl : Bool) (t : Tab) (keep : List Nat) (packs : List (Nat × XPack)) (rows : List Row)
    (loose : List (Nat × XFile)) : Prop where
  pk_nodup : (packs.map (·.1)).Nodup
  pk_le : ∀ p pk, getX packs p = some pk → pk.synced ≤ pk.flushed ∧ pk.flushed ≤ pk.segs.length
  rows_ok : ∀ r ∈ rows, ∃ pk, getX packs r.pack = some pk ∧ SegOK t (pk.segs.take (wm fl pk)) r
  keys_nodup : (rows.map (·.key)).Nodup
  ids_nodup : (rows.map (·.id)).Nodup
  ids_pos : ∀ r1 ∈ rows, ∀ r2 ∈ rows, r1.pack = r2.pack → r1.id < r2.id → r1.off + r1.len ≤ r2.off
  loose_nodup : (loose.map (·.1)).Nodup
  loose_ok : ∀ e ∈ loose, e.2.cid = e.1 ∧ e.2.dur = .synced
  keep_ok : ∀ k ∈ keep, k ∈ rows.map (·.key) ∨ k ∈ loose.map (·.1)

structure GW (fl : Bool) (t : Tab) (keep : List Nat) (x : XSt) : Prop where
  com : GC fl t keep x.packs x.rows x.loose
  sb : x.sandbox = none
  tgt : 0 < x.target

theorem gw_of_good {fl : Bool} {t : Tab} {keep : List Nat} {x : XSt} (g : Good t keep x) : GW fl t keep x := by
  refine ⟨⟨g.1.pk_nodup, g.1.pk_le, ?_, g.1.keys_nodup, g.1.ids_nodup, g.1.ids_pos, g.1.loose_nodup, g.1.loose_ok,
    g.1.keep_ok⟩, g.2.1, g.2.2⟩
  intro r hr
  obtain ⟨pk, hg, hs⟩ := g.1.rows_ok r hr
  exact ⟨pk, hg, segOK_take_mono (wm_ge (g.1.pk_le _ _ hg).1) hs⟩

theorem good_of_gw {t : Tab} {keep : List Nat} {x : XSt} (g : GW false t keep x) : Good t keep x := by
  refine ⟨⟨g.com.pk_nodup, g.com.pk_le, ?_, g.com.keys_nodup, g.com.ids_nodup, g.com.ids_pos, g.com.loose_nodup,
    g.com.loose_ok, g.com.keep_ok⟩, g.sb, g.tgt⟩
  intro r hr
  obtain ⟨pk, hg, hs⟩ := g.com.rows_ok r hr
  exact ⟨pk, hg, by simpa [wm] using hs⟩

/-! ### images -/

theorem gw_rowOK_view {fl : Bool} {t : Tab} {keep : List Nat} {x : XSt} (g : GW fl t keep x)
    (F : Nat → XPack → List Seg)
    (hF : ∀ p pk, getX x.packs p = some pk → ∃ n, wm fl pk ≤ n ∧ F p pk = pk.segs.take n) :
    ∀ r ∈ x.rows, RowOK t (x.packs.map (fun e => (e.1, F e.1 e.2))) r := by
  intro r hr
  obtain ⟨pk, hg, hs⟩ := g.com.rows_ok r hr
  obtain ⟨n, hn, hFn⟩ := hF _ _ hg
  refine rowOK_iff.mpr ⟨F r.pack pk, by rw [getPack_mapX, hg]; rfl, ?_⟩
  rw [hFn]
  exact segOK_take_mono hn hs

theorem gw_crash {fl : Bool} {t : Tab} (wf : t.WF) {keep : List Nat} {x : XSt} (g : GW fl t keep x) (cut : Nat → Nat) :
    SafeImg t (crashImg x cut) keep := by
  apply safeImg_of wf
  · exact gw_rowOK_view g (fun p pk => pk.segs.take (pk.flushed + cut p))
      (fun p pk h => ⟨_, by have := wm_le (fl := fl) (g.com.pk_le p pk h).1; omega, rfl⟩)
  · intro e he
    simp only [crashImg, List.mem_map] at he
    obtain ⟨a, ha, rfl⟩ := he
    obtain ⟨h1, h2⟩ := g.com.loose_ok a ha
    simp [h1, h2]
  · intro k hk
    rcases g.com.keep_ok k hk with h | h
    · exact Or.inl h
    · right
      simpa [crashImg, List.map_map, Function.comp_def] using h

theorem gw_toSt_rows {fl : Bool} {t : Tab} {keep : List Nat} {x : XSt} (g : GW fl t keep x) :
    ∀ r ∈ (toSt x).rows, RowOK t (toSt x).packs r :=
  gw_rowOK_view g (fun _ pk => pk.segs)
    (fun p pk h => ⟨pk.segs.length, by
      have := g.com.pk_le p pk h
      have := wm_le (fl := fl) this.1
      omega, by simp⟩)

theorem gw_toSt_safe {fl : Bool} {t : Tab} (wf : t.WF) {keep : List Nat} {x : XSt} (g : GW fl t keep x) :
    SafeImg t (toSt x) keep := by
  apply safeImg_of wf (gw_toSt_rows g)
  · intro e he
    simp only [toSt, List.mem_map] at he
    obtain ⟨a, ha, rfl⟩ := he
    exact (g.com.loose_ok a ha).1.symm
  · intro k hk
    rcases g.com.keep_ok k hk with h | h
    · exact Or.inl h
    · right
      simpa [toSt, List.map_map, Function.comp_def] using h

theorem gw_toSt_inv {fl : Bool} {t : Tab} {keep : List Nat} {x : XSt} (g : GW fl t keep x) : Inv t (toSt x) := by
  refine ⟨gw_toSt_rows g, g.com.keys_nodup, g.com.ids_nodup, g.com.ids_pos, ?_, ?_, ?_, g.tgt⟩
  · have : (toSt x).packs.map (·.1) = x.packs.map (·.1) := by
      simp [toSt, List.map_map, Function.comp_def]
    rw [this]; exact g.com.pk_nodup
  · have : (toSt x).loose.map (·.1) = x.loose.map (·.1) := by
      simp [toSt, List.map_map, Function.comp_def]
    rw [this]; exact g.com.loose_nodup
  · intro e he
    simp only [toSt, List.mem_map] at he
    obtain ⟨a, ha, rfl⟩ := he
    exact (g.com.loose_ok a ha).1.symm

theorem toSt_runFault_sb (x : XSt) (acts : List Act) (k : Nat) (h : (execAll x (acts.take k)).sandbox = none) :
    toSt (runFault x acts k) = toSt (execAll x (acts.take k)) := by
  unfold runFault
  simp only
  have h1 : ∀ y : XSt, toSt { y with work := none } = toSt y := fun _ => rfl
  rw [h1]
  apply toSt_execAll_handlers
  intro a ha
  unfold handlers at ha
  rw [h] at ha
  simp only [List.nil_append, List.mem_flatMap] at ha
  obtain ⟨p, _, hp⟩ := ha
  simp at hp
  exact ⟨p, hp⟩

/-! ### preservation of `GC` under changes of the pack files (for any list of rows) -/

theorem gc_packs {fl : Bool} {t : Tab} {keep : List Nat} {packs packs' : List (Nat × XPack)} {rows : List Row}
    {loose : List (Nat × XFile)} (g : GC fl t keep packs rows loose)
    (h1 : (packs'.map (·.1)).Nodup)
    (h2 : ∀ p pk, getX packs' p = some pk → pk.synced ≤ pk.flushed ∧ pk.flushed ≤ pk.segs.length)
    (h3 : ∀ q pk, getX packs q = some pk → ∃ pk', getX packs' q = some pk' ∧
      ∃ ext, pk'.segs.take (wm fl pk') = pk.segs.take (wm fl pk) ++ ext) :
    GC fl t keep packs' rows loose := by
  refine ⟨h1, h2, ?_, g.keys_nodup, g.ids_nodup, g.ids_pos, g.loose_nodup, g.loose_ok, g.keep_ok⟩
  intro r hr
  obtain ⟨pk, hg, hs⟩ := g.rows_ok r hr
  obtain ⟨pk', hg', ext, he⟩ := h3 _ _ hg
  exact ⟨pk', hg', by rw [he]; exact segOK_append ext hs⟩

theorem gc_updX {fl : Bool} {t : Tab} {keep : List Nat} {packs : List (Nat × XPack)} {rows : List Row}
    {loose : List (Nat × XFile)} (g : GC fl t keep packs rows loose) (p : Nat) (f : XPack → XPack)
    (hf : ∀ pk, getX packs p = some pk → pk.synced ≤ pk.flushed → pk.flushed ≤ pk.segs.length →
      ((f pk).synced ≤ (f pk).flushed ∧ (f pk).flushed ≤ (f pk).segs.length ∧
        ∃ ext, (f pk).segs.take (wm fl (f pk)) = pk.segs.take (wm fl pk) ++ ext)) :
    GC fl t keep (updX packs p f) rows loose := by
  refine gc_packs g ?_ ?_ ?_
  · rw [keysX_updX]; exact g.pk_nodup
  · intro q pk hq
    rw [getX_updX] at hq
    by_cases h : q = p
    · subst h
      simp only [if_true] at hq
      cases hg : getX packs q with
      | none => simp [hg] at hq
      | some pk0 =>
        simp [hg] at hq
        subst hq
        obtain ⟨a, b⟩ := g.pk_le _ _ hg
        obtain ⟨c, d, _⟩ := hf pk0 hg a b
        exact ⟨c, d⟩
    · simp only [h, if_false] at hq
      exact g.pk_le _ _ hq
  · intro q pk hq
    rw [getX_updX]
    by_cases h : q = p
    · subst h
      obtain ⟨a, b⟩ := g.pk_le _ _ hq
      obtain ⟨_, _, e⟩ := hf pk hq a b
      exact ⟨f pk, by simp [hq], e⟩
    · exact ⟨pk, by simp [h, hq], [], by simp⟩

theorem gc_write {fl : Bool} {t : Tab} {keep : List Nat} {packs : List (Nat × XPack)} {rows : List Row}
    {loose : List (Nat × XFile)} (g : GC fl t keep packs rows loose) (p : Nat) (sg : Seg) :
    GC fl t keep (updX packs p (fun pk => { pk with segs := pk.segs ++ [sg] })) rows loose := by
  apply gc_updX g
  intro pk _ a b
  refine ⟨a, by simp; omega, [], ?_⟩
  simp only [List.append_nil]
  have : wm fl { pk with segs := pk.segs ++ [sg] } = wm fl pk := rfl
  rw [this]
  exact List.take_append_of_le_length (by have := wm_le (fl := fl) a; omega)

theorem gc_flush {fl : Bool} {t : Tab} {keep : List Nat} {packs : List (Nat × XPack)} {rows : List Row}
    {loose : List (Nat × XFile)} (g : GC fl t keep packs rows loose) (p : Nat) :
    GC fl t keep (updX packs p (fun pk => { pk with flushed := pk.segs.length })) rows loose := by
  apply gc_updX g
  intro pk _ a b
  refine ⟨by simp only; omega, Nat.le_refl _, ?_⟩
  cases fl
  · exact ⟨[], by simp [wm]⟩
  · simp only [wm, if_true]
    exact take_le_ext _ b

theorem gc_fsync {fl : Bool} {t : Tab} {keep : List Nat} {packs : List (Nat × XPack)} {rows : List Row}
    {loose : List (Nat × XFile)} (g : GC fl t keep packs rows loose) (p : Nat) :
    GC fl t keep (updX packs p (fun pk => { pk with synced := pk.flushed })) rows loose := by
  apply gc_updX g
  intro pk _ a b
  refine ⟨Nat.le_refl _, b, ?_⟩
  cases fl
  · simp only [wm, Bool.false_eq_true, if_false]
    exact take_le_ext _ a
  · exact ⟨[], by simp [wm]⟩

theorem gc_truncate {fl : Bool} {t : Tab} {keep : List Nat} {packs : List (Nat × XPack)} {rows : List Row}
    {loose : List (Nat × XFile)} (g : GC fl t keep packs rows loose) (p n : Nat)
    (hn : ∀ pk, getX packs p = some pk → pk.flushed + n ≤ pk.segs.length) :
    GC fl t keep (updX packs p (fun pk =>
        let segs := pk.segs.take (pk.segs.length - n)
        { segs := segs, flushed := segs.length, synced := min pk.synced segs.length })) rows loose := by
  apply gc_updX g
  intro pk hg a b
  have h := hn pk hg
  refine ⟨?_, Nat.le_refl _, ?_⟩
  · simp only [List.length_take]; omega
  · cases fl
    · refine ⟨[], ?_⟩
      simp only [wm, Bool.false_eq_true, if_false, List.length_take, List.append_nil, List.take_take]
      congr 1
      omega
    · simp only [wm, if_true, List.length_take, List.take_take]
      have e : min (min (pk.segs.length - n) pk.segs.length) (pk.segs.length - n) = pk.segs.length - n := by omega
      rw [e]
      exact take_le_ext _ (by omega)

def openPacks (ps : List (Nat × XPack)) (p : Nat) : List (Nat × XPack) :=
  match getX ps p with
  | some _ => ps
  | none => setX ps p { segs := [], flushed := 0, synced := 0 }

theorem exec_pkOpen (x : XSt) (p : Nat) : exec x (.pkOpen p) = { x with packs := openPacks x.packs p } := by
  cases hg : getX x.packs p <;> simp [exec, openPacks, hg]

theorem gc_open {fl : Bool} {t : Tab} {keep : List Nat} {packs : List (Nat × XPack)} {rows : List Row}
    {loose : List (Nat × XFile)} (g : GC fl t keep packs rows loose) (p : Nat) :
    GC fl t keep (openPacks packs p) rows loose := by
  unfold openPacks
  cases hg : getX packs p with
  | some pk => exact g
  | none =>
    simp only
    refine gc_packs g ?_ ?_ ?_
    · rw [keysX_setX_none _ hg, List.nodup_append]
      refine ⟨g.pk_nodup, by simp, ?_⟩
      intro a ha b hb hab
      simp at hb
      subst hb; subst hab
      exact getX_none_iff.mp hg ha
    · intro q pk hq
      rw [getX_setX] at hq
      by_cases h : q = p
      · simp [h] at hq
        subst hq
        simp
      · simp only [h, if_false] at hq
        exact g.pk_le _ _ hq
    · intro q pk hq
      rw [getX_setX]
      have h : q ≠ p := by
        intro e; subst e; rw [hg] at hq; cases hq
      exact ⟨pk, by simp [h, hq], [], by simp⟩

/-! ### preservation of `GW` -/

theorem gw_write {fl : Bool} {t : Tab} {keep : List Nat} {x : XSt} (g : GW fl t keep x) (p : Nat) (sg : Seg) :
    GW fl t keep (exec x (.pkWrite p sg)) := ⟨gc_write g.com p sg, g.sb, g.tgt⟩

theorem gw_flush {fl : Bool} {t : Tab} {keep : List Nat} {x : XSt} (g : GW fl t keep x) (p : Nat) :
    GW fl t keep (exec x (.pkFlush p)) := ⟨gc_flush g.com p, g.sb, g.tgt⟩

theorem gw_close {fl : Bool} {t : Tab} {keep : List Nat} {x : XSt} (g : GW fl t keep x) (p : Nat) :
    GW fl t keep (exec x (.pkClose p)) := ⟨gc_flush g.com p, g.sb, g.tgt⟩

theorem gw_fsync {fl : Bool} {t : Tab} {keep : List Nat} {x : XSt} (g : GW fl t keep x) (p : Nat) :
    GW fl t keep (exec x (.pkFsync p)) := ⟨gc_fsync g.com p, g.sb, g.tgt⟩

theorem gw_truncate {fl : Bool} {t : Tab} {keep : List Nat} {x : XSt} (g : GW fl t keep x) (p n : Nat)
    (hn : ∀ pk, getX x.packs p = some pk → pk.flushed + n ≤ pk.segs.length) :
    GW fl t keep (exec x (.pkTruncate p n)) := ⟨gc_truncate g.com p n hn, g.sb, g.tgt⟩

theorem gw_open {fl : Bool} {t : Tab} {keep : List Nat} {x : XSt} (g : GW fl t keep x) (p : Nat) :
    GW fl t keep (exec x (.pkOpen p)) := by
  rw [exec_pkOpen]
  exact ⟨gc_open g.com p, g.sb, g.tgt⟩

theorem gw_plain {fl : Bool} {t : Tab} {keep : List Nat} {x : XSt} (g : GW fl t keep x) {a : Act}
    (ha : plain a = true) : GW fl t keep (exec x a) := by
  cases a <;> simp only [plain] at ha <;> try (exact absurd ha (by decide))
  case dirSync => exact g
  case readLoose => exact g
  case lock => exact ⟨g.com, g.sb, g.tgt⟩
  case unlock => exact ⟨g.com, g.sb, g.tgt⟩
  case pkOpen p => exact gw_open g p
  case pkWrite p sg => exact gw_write g p sg
  case pkFlush p => exact gw_flush g p
  case pkFsync p => exact gw_fsync g p
  case pkClose p => exact gw_close g p
  case pkTruncate p n =>
    have : n = 0 := by simpa using ha
    subst this
    exact gw_truncate g p 0 (fun pk hg => by have := g.com.pk_le _ _ hg; omega)
  case sqlInsert r => exact ⟨g.com, g.sb, g.tgt⟩

/-! ### all prefixes, for an arbitrary predicate -/

def AllP (P : XSt → Prop) (x : XSt) (acts : List Act) : Prop := ∀ k, P (execAll x (acts.take k))

theorem allP_nil {P : XSt → Prop} {x : XSt} (g : P x) : AllP P x [] := by
  intro k; simpa [execAll] using g

theorem allP_end {P : XSt → Prop} {x : XSt} {l : List Act} (h : AllP P x l) : P (execAll x l) := by
  have := h l.length; simpa using this

theorem allP_cons {P : XSt → Prop} {x : XSt} {a : Act} {l : List Act} (g : P x) (h : AllP P (exec x a) l) :
    AllP P x (a :: l) := by
  intro k
  cases k with
  | zero => simpa [execAll] using g
  | succ k => simpa [execAll] using h k

theorem allP_append {P : XSt → Prop} {x : XSt} {l1 l2 : List Act} (h1 : AllP P x l1)
    (h2 : AllP P (execAll x l1) l2) : AllP P x (l1 ++ l2) := by
  intro k
  rw [List.take_append, execAll_append]
  by_cases hk : k ≤ l1.length
  · have : k - l1.length = 0 := by omega
    rw [this]
    simpa [execAll] using h1 k
  · have : l1.take k = l1 := List.take_of_length_le (by omega)
    rw [this]
    exact h2 _

theorem allP_single {P : XSt → Prop} {x : XSt} {a : Act} (g : P x) (g' : P (exec x a)) : AllP P x [a] :=
  allP_cons g (allP_nil g')

theorem allP_plain {fl : Bool} {t : Tab} {keep : List Nat} {l : List Act} : ∀ {x : XSt}, GW fl t keep x →
    (∀ a ∈ l, plain a = true) → AllP (GW fl t keep) x l := by
  induction l with
  | nil => intro x g _; exact allP_nil g
  | cons a l ih =>
    intro x g h
    exact allP_cons g (ih (gw_plain g (h a List.mem_cons_self)) (fun b hb => h b (List.mem_cons_of_mem _ hb)))


/-! ### the simulation: between sessions (`Idle`) and inside a session (`Mid`)

Unlike in `IOPacks.lean` the transaction may stay open between sessions (`do_commit=False`): the Level-B state sees the
session's working copy `workOf x`, and that copy satisfies `GC` as well (`wrk`), so that it can be committed. -/

structure Idle (fl : Bool) (t : Tab) (keep : List Nat) (x : XSt) (b : St) : Prop where
  good : GW fl t keep x
  wrk : GC fl t keep x.packs (workOf x) x.loose
  packs : segsOf x.packs = b.packs
  locks : x.locks = []
  rows : workOf x = b.rows
  inv : Inv t b
  loose : x.loose.map (fun e => (e.1, e.2.cid)) = b.loose
  target : x.target = b.target

structure Mid (fl : Bool) (t : Tab) (keep : List Nat) (x : XSt) (b : St) (q : Nat) (rs : List Row) : Prop where
  good : GW fl t keep x
  wrk : GC fl t keep x.packs (workOf x) x.loose
  packs : segsOf x.packs = b.packs
  locks : x.locks = [q]
  rows : rs.foldl insertIgnore (workOf x) = b.rows
  inv : Inv t b
  ex : getX x.packs q ≠ none
  rpack : ∀ r ∈ rs, r.pack = q
  loose : x.loose.map (fun e => (e.1, e.2.cid)) = b.loose
  target : x.target = b.target

theorem idle_ofSt {fl : Bool} {t : Tab} {s : St} (inv : Inv t s) : Idle fl t (keysOf s) (ofSt s) s := by
  have g : GW fl t (keysOf s) (ofSt s) := gw_of_good (good_ofSt inv)
  refine ⟨g, g.com, ?_, rfl, rfl, inv, ?_, rfl⟩
  · simp [segsOf, ofSt, List.map_map, Function.comp_def]
  · simp [ofSt, List.map_map, Function.comp_def]

theorem segsOf_openPacks (ps : List (Nat × XPack)) (p : Nat) :
    segsOf (openPacks ps p) = ensurePack (segsOf ps) p := by
  unfold ensurePack openPacks
  rw [getPack_segsOf]
  cases hg : getX ps p with
  | some pk => simp
  | none => simp [segsOf_setX]

theorem getX_openPacks (ps : List (Nat × XPack)) (p : Nat) : getX (openPacks ps p) p ≠ none := by
  unfold openPacks
  cases hg : getX ps p with
  | some pk => simp [hg]
  | none => simp [getX_setX]

theorem idle_open {fl : Bool} {t : Tab} {keep : List Nat} {x : XSt} {b : St} (h : Idle fl t keep x b) (p : Nat) :
    AllP (GW fl t keep) x [.lock p, .pkOpen p] ∧
    Mid fl t keep (execAll x [.lock p, .pkOpen p]) { b with cur := p, packs := ensurePack b.packs p } p [] := by
  have ag : AllP (GW fl t keep) x [.lock p, .pkOpen p] := allP_plain h.good (by
    intro a ha; simp at ha; rcases ha with rfl | rfl <;> rfl)
  have e : execAll x [.lock p, .pkOpen p] = { x with locks := p :: x.locks, packs := openPacks x.packs p } := by
    show exec (exec x (.lock p)) (.pkOpen p) = _
    rw [exec_pkOpen]; rfl
  have gE := allP_end ag
  rw [e] at gE ⊢
  refine ⟨ag, ⟨gE, gc_open h.wrk p, ?_, ?_, h.rows, ?_, getX_openPacks _ _, by simp, h.loose, h.target⟩⟩
  · show segsOf (openPacks x.packs p) = ensurePack b.packs p
    rw [segsOf_openPacks, h.packs]
  · show p :: x.locks = [p]
    rw [h.locks]
  · have := h.inv
    exact ⟨fun r hr => rowOK_ensurePack _ (this.rows_ok r hr), this.keys_nodup, this.ids_nodup, this.ids_pos,
      nodup_keys_ensurePack _ this.packs_nodup, this.loose_nodup, this.loose_ok, this.target_pos⟩

theorem mid_getPack {fl : Bool} {t : Tab} {keep : List Nat} {x : XSt} {b : St} {q : Nat} {rs : List Row}
    (m : Mid fl t keep x b q rs) : ∃ pk, getX x.packs q = some pk ∧ getPack b.packs q = some pk.segs := by
  cases hg : getX x.packs q with
  | none => exact absurd hg m.ex
  | some pk => exact ⟨pk, rfl, by rw [← m.packs, getPack_segsOf, hg]; rfl⟩

theorem mid_reopen {fl : Bool} {t : Tab} {keep : List Nat} {x : XSt} {b : St} {q : Nat} {rs : List Row}
    (m : Mid fl t keep x b q rs) : Mid fl t keep x { b with cur := q, packs := ensurePack b.packs q } q rs := by
  obtain ⟨pk, _, hb⟩ := mid_getPack m
  have e : ensurePack b.packs q = b.packs := ensurePack_of_some (by rw [hb]; simp)
  rw [e]
  exact ⟨m.good, m.wrk, m.packs, m.locks, m.rows, inv_set_cur m.inv q, m.ex, m.rpack, m.loose, m.target⟩

theorem mid_write {fl : Bool} {t : Tab} {keep : List Nat} {x : XSt} {b : St} {q : Nat} {rs : List Row}
    (m : Mid fl t keep x b q rs) (c : Nat) (z : Bool) (hq : choosePack t b = q) :
    Mid fl t keep (exec x (.pkWrite q ⟨c, z⟩)) (writeObj t b c z) q (rs ++ [rowFor t b q c z]) := by
  obtain ⟨pk, hx, hb⟩ := mid_getPack m
  refine ⟨gw_write m.good _ _, gc_write m.wrk _ _, ?_, m.locks, ?_, inv_writeObj m.inv c z, ?_, ?_, m.loose, m.target⟩
  · show segsOf (updX x.packs q _) = (writeObj t b c z).packs
    rw [segsOf_updX, hx]
    simp only [writeObj, hq, hb, Option.getD_some, m.packs]
  · show (rs ++ [rowFor t b q c z]).foldl insertIgnore (workOf x) = (writeObj t b c z).rows
    rw [List.foldl_append, m.rows]
    simp only [writeObj, hq, rowFor, List.foldl_cons, List.foldl_nil]
  · show getX (updX x.packs q _) q ≠ none
    rw [getX_updX, hx]; simp
  · intro r hr
    rcases List.mem_append.mp hr with h | h
    · exact m.rpack r h
    · simp at h; subst h; rfl

theorem mid_write_trunc {fl : Bool} {t : Tab} {keep : List Nat} {x : XSt} {b : St} {q : Nat} {rs : List Row}
    (m : Mid fl t keep x b q rs) (sg : Seg) :
    AllP (GW fl t keep) x [.pkWrite q sg, .pkTruncate q 1] ∧
    Mid fl t keep (execAll x [.pkWrite q sg, .pkTruncate q 1]) b q rs := by
  have g1 := gw_write m.good q sg
  have hn : ∀ pk, getX (updX x.packs q (fun pk => { pk with segs := pk.segs ++ [sg] })) q = some pk →
      pk.flushed + 1 ≤ pk.segs.length := by
    intro pk hpk
    rw [getX_updX] at hpk
    simp only [if_true] at hpk
    cases hg : getX x.packs q with
    | none => simp [hg] at hpk
    | some pk0 =>
      simp [hg] at hpk
      subst hpk
      have := m.good.com.pk_le _ _ hg
      simp only [List.length_append, List.length_singleton]
      omega
  have g2 : GW fl t keep (exec (exec x (.pkWrite q sg)) (.pkTruncate q 1)) := gw_truncate g1 q 1 hn
  have w2 := gc_truncate (gc_write m.wrk q sg) q 1 hn
  refine ⟨allP_cons m.good (allP_single g1 g2), ⟨g2, w2, ?_, m.locks, m.rows, m.inv, ?_, m.rpack, m.loose, m.target⟩⟩
  · show segsOf (updX (updX x.packs q _) q _) = b.packs
    rw [updX_updX, segsOf_updX_same, m.packs]
    intro pk
    simp
  · show getX (updX (updX x.packs q _) q _) q ≠ none
    rw [updX_updX, getX_updX]
    obtain ⟨pk, hx, _⟩ := mid_getPack m
    simp [hx]

/-! ### the end of a session -/

/-- the part of a session end up to and including the release of the lock -/
def endO (q : Nat) (rs : List Row) (trunc df : Bool) : List Act :=
  (if trunc then [.pkTruncate q 0] else []) ++ rs.map .sqlInsert ++
  (if df then [.pkFlush q, .pkFsync q, .dirSync] else []) ++ [.pkClose q, .unlock q]

theorem sessionEndO_eq (q : Nat) (rs : List Row) (trunc df dc : Bool) :
    sessionEndO q rs trunc df dc = endO q rs trunc df ++ (if dc && !rs.isEmpty then [.sqlCommit] else []) := by
  simp [sessionEndO, endO]

theorem endO_plain (q : Nat) (rs : List Row) (trunc df : Bool) : ∀ a ∈ endO q rs trunc df, plain a = true := by
  intro a ha
  unfold endO at ha
  simp only [List.mem_append, List.mem_map] at ha
  rcases ha with ((ha | ⟨r, _, rfl⟩) | ha) | ha
  · cases trunc <;> simp at ha
    subst ha; rfl
  · rfl
  · cases df <;> simp at ha
    rcases ha with rfl | rfl | rfl <;> rfl
  · simp at ha
    rcases ha with rfl | rfl <;> rfl

def endPk (trunc df : Bool) (pk : XPack) : XPack :=
  { segs := pk.segs, flushed := pk.segs.length,
    synced := if df then pk.segs.length else if trunc then min pk.synced pk.segs.length else pk.synced }

theorem exec_endO (x : XSt) (q : Nat) (rs : List Row) (trunc df : Bool) :
    execAll x (endO q rs trunc df) =
      { x with packs := updX x.packs q (endPk trunc df),
               work := if rs = [] then x.work else some (rs.foldl insertIgnore (workOf x)),
               locks := x.locks.filter (· != q) } := by
  unfold endO
  cases trunc <;> cases df <;>
    simp only [Bool.false_eq_true, if_false, if_true, List.nil_append, List.append_nil, execAll_append, exec_inserts,
      execAll, exec, updX_updX, workOf] <;>
    (first | rfl | (congr 1; congr 1; funext pk; simp [endPk]))


theorem wm_endPk {fl : Bool} (trunc df : Bool) (pk : XPack) (hfs : fl = false → df = true) :
    wm fl (endPk trunc df pk) = pk.segs.length := by
  cases fl
  · simp [wm, endPk, hfs rfl]
  · simp [wm, endPk]

theorem endPk_ok {fl : Bool} (trunc df : Bool) (pk : XPack) (a : pk.synced ≤ pk.flushed) (b : pk.flushed ≤ pk.segs.length) :
    (endPk trunc df pk).synced ≤ (endPk trunc df pk).flushed ∧
    (endPk trunc df pk).flushed ≤ (endPk trunc df pk).segs.length ∧
    ∃ ext, (endPk trunc df pk).segs.take (wm fl (endPk trunc df pk)) = pk.segs.take (wm fl pk) ++ ext := by
  refine ⟨?_, Nat.le_refl _, ?_⟩
  · cases trunc <;> cases df <;> simp [endPk] <;> omega
  · apply take_le_ext
    cases fl <;> cases trunc <;> cases df <;> simp [wm, endPk] <;> omega

theorem mid_endO {fl : Bool} {t : Tab} {keep : List Nat} {x : XSt} {b : St} {q : Nat} {rs : List Row}
    (m : Mid fl t keep x b q rs) (trunc df : Bool) (hfs : fl = false → df = true) :
    AllP (GW fl t keep) x (endO q rs trunc df) ∧ Idle fl t keep (execAll x (endO q rs trunc df)) b := by
  have agA : AllP (GW fl t keep) x (endO q rs trunc df) := allP_plain m.good (endO_plain q rs trunc df)
  have gA := allP_end agA
  refine ⟨agA, ?_⟩
  rw [exec_endO] at gA ⊢
  obtain ⟨pk, hx, hb⟩ := mid_getPack m
  have hw : (if rs = [] then x.work else some (rs.foldl insertIgnore (workOf x))).getD x.rows = b.rows := by
    by_cases hrs : rs = []
    · subst hrs
      simpa [workOf] using m.rows
    · simp only [hrs, if_false, Option.getD_some]
      exact m.rows
  have g0 : GC fl t keep (updX x.packs q (endPk trunc df)) (workOf x) x.loose :=
    gc_updX m.wrk q _ (fun pk _ a b => endPk_ok trunc df pk a b)
  have gC : GC fl t keep (updX x.packs q (endPk trunc df)) b.rows x.loose := by
    refine ⟨g0.pk_nodup, g0.pk_le, ?_, m.inv.keys_nodup, m.inv.ids_nodup, m.inv.ids_pos, g0.loose_nodup,
      g0.loose_ok, ?_⟩
    · intro r hr
      rw [← m.rows] at hr
      rcases mem_foldl_insertIgnore _ _ _ hr with h | ⟨r0, h0, hp, _⟩
      · exact g0.rows_ok r h
      · have hq : r.pack = q := by rw [hp]; exact m.rpack r0 h0
        have hok := m.inv.rows_ok r (by rw [← m.rows]; exact hr)
        obtain ⟨segs, hg, hs⟩ := rowOK_iff.mp hok
        rw [hq, hb] at hg
        cases hg
        refine ⟨endPk trunc df pk, by rw [hq, getX_updX, hx]; simp, ?_⟩
        rw [wm_endPk trunc df pk hfs]
        simpa [endPk] using hs
    · intro k hk
      rcases g0.keep_ok k hk with h | h
      · left
        obtain ⟨y, hy, hky⟩ := List.mem_map.mp h
        exact List.mem_map.mpr ⟨y, by rw [← m.rows]; exact sub_foldl_insertIgnore _ _ _ hy, hky⟩
      · exact Or.inr h
  refine ⟨gA, ?_, ?_, ?_, hw, m.inv, m.loose, m.target⟩
  · show GC fl t keep (updX x.packs q (endPk trunc df))
      ((if rs = [] then x.work else some (rs.foldl insertIgnore (workOf x))).getD x.rows) x.loose
    rw [hw]; exact gC
  · show segsOf (updX x.packs q (endPk trunc df)) = b.packs
    rw [segsOf_updX_same x.packs q (endPk trunc df) (fun _ => rfl), m.packs]
  · show x.locks.filter (· != q) = []
    rw [m.locks]; simp

/-- committing between sessions -/
theorem idle_commit {fl : Bool} {t : Tab} {keep : List Nat} {x : XSt} {b : St} (h : Idle fl t keep x b) :
    Idle fl t keep (exec x .sqlCommit) b :=
  ⟨⟨h.wrk, h.good.sb, h.good.tgt⟩, h.wrk, h.packs, h.locks, h.rows, h.inv, h.loose, h.target⟩

theorem mid_end {fl : Bool} {t : Tab} {keep : List Nat} {x : XSt} {b : St} {q : Nat} {rs : List Row}
    (m : Mid fl t keep x b q rs) (trunc df dc : Bool) (hfs : fl = false → df = true) :
    AllP (GW fl t keep) x (sessionEndO q rs trunc df dc) ∧
    Idle fl t keep (execAll x (sessionEndO q rs trunc df dc)) b := by
  obtain ⟨a1, i1⟩ := mid_endO m trunc df hfs
  rw [sessionEndO_eq]
  cases hc : (dc && !rs.isEmpty) with
  | true =>
    simp only [if_true]
    have i2 := idle_commit i1
    refine ⟨allP_append a1 (allP_single i1.good i2.good), ?_⟩
    rw [execAll_append]
    exact i2
  | false =>
    simp only [Bool.false_eq_true, if_false, List.append_nil]
    exact ⟨a1, i1⟩

/-! ### the compiler state -/

def Sim (fl : Bool) (t : Tab) (keep : List Nat) (w : WSt) (x : XSt) : Prop :=
  match w.openP with
  | none => Idle fl t keep x w.s ∧ w.rows = []
  | some q => Mid fl t keep x w.s q w.rows

def Reach (fl : Bool) (t : Tab) (keep : List Nat) (x0 : XSt) (w : WSt) : Prop :=
  AllP (GW fl t keep) x0 w.acts ∧ Sim fl t keep w (execAll x0 w.acts)

theorem sim_target {fl : Bool} {t : Tab} {keep : List Nat} {w : WSt} {x : XSt} (h : Sim fl t keep w x) :
    0 < w.s.target := by
  unfold Sim at h
  split at h
  · exact h.1.inv.target_pos
  · exact h.inv.target_pos

theorem wOpenO_s (t : Tab) (nh df dc : Bool) (w : WSt) : (wOpenO t nh df dc w).s = openCur t w.s := by
  unfold wOpenO
  simp only
  split
  · split <;> rfl
  · rfl

theorem wOpenO_openP (t : Tab) (nh df dc : Bool) (w : WSt) :
    (wOpenO t nh df dc w).openP = some (choosePack t w.s) := by
  unfold wOpenO
  simp only
  split
  · rename_i q hq
    split
    · rename_i h; simp only [hq]; rw [h]; rfl
    · rfl
  · rfl

theorem wOpenO_reach {fl : Bool} {t : Tab} {keep : List Nat} {x0 : XSt} {w : WSt} (nh df dc : Bool)
    (hfs : fl = false → df = true) (h : Reach fl t keep x0 w) :
    AllP (GW fl t keep) x0 (wOpenO t nh df dc w).acts ∧
    Mid fl t keep (execAll x0 (wOpenO t nh df dc w).acts) (openCur t w.s) (choosePack t w.s)
      (wOpenO t nh df dc w).rows := by
  obtain ⟨ag, sim⟩ := h
  unfold Sim at sim
  unfold wOpenO
  simp only
  cases hop : w.openP with
  | none =>
    simp only [hop] at sim ⊢
    obtain ⟨a1, m1⟩ := idle_open sim.1 (choosePack t w.s)
    exact ⟨allP_append ag a1, by rw [execAll_append]; exact m1⟩
  | some q =>
    simp only [hop] at sim ⊢
    by_cases hq : q = (openCur t w.s).cur
    · simp only [hq, if_true]
      have hq' : q = choosePack t w.s := hq
      subst hq'
      exact ⟨ag, mid_reopen sim⟩
    · simp only [hq, if_false]
      obtain ⟨a1, i1⟩ := mid_end sim nh df dc hfs
      obtain ⟨a2, m2⟩ := idle_open i1 (choosePack t w.s)
      refine ⟨allP_append (allP_append ag a1) (by rw [execAll_append]; exact a2), ?_⟩
      rw [execAll_append, execAll_append]
      exact m2

theorem reach_of_mid {fl : Bool} {t : Tab} {keep : List Nat} {x0 : XSt} {w : WSt} {q : Nat} (hop : w.openP = some q)
    (ag : AllP (GW fl t keep) x0 w.acts) (m : Mid fl t keep (execAll x0 w.acts) w.s q w.rows) :
    Reach fl t keep x0 w := by
  refine ⟨ag, ?_⟩
  unfold Sim
  rw [hop]
  exact m

theorem reach_wAddPackedO {fl : Bool} {t : Tab} {keep : List Nat} {x0 : XSt} {w : WSt} (z nh rt df dc : Bool) (c : Nat)
    (hfs : fl = false → df = true) (h : Reach fl t keep x0 w) :
    Reach fl t keep x0 (wAddPackedO t z nh rt df dc w c) := by
  have ht := sim_target h.2
  obtain ⟨ag, m⟩ := wOpenO_reach nh df dc hfs h
  have hs := wOpenO_s t nh df dc w
  have hop := wOpenO_openP t nh df dc w
  unfold wAddPackedO
  generalize wOpenO t nh df dc w = w1 at ag m hs hop
  have hcur : w1.s.cur = choosePack t w.s := by rw [hs]; rfl
  simp only [hcur]
  rw [← hs] at m
  split
  · split
    · exact reach_of_mid hop ag m
    · obtain ⟨a1, m1⟩ := mid_write_trunc m ⟨c, z⟩
      exact reach_of_mid (w := { w1 with acts := _ }) hop (allP_append ag a1) (by rw [execAll_append]; exact m1)
  · have hq : choosePack t w1.s = choosePack t w.s := by rw [hs]; exact choosePack_openCur t w.s ht
    have m1 := mid_write m c z hq
    have a1 : AllP (GW fl t keep) (execAll x0 w1.acts) [.pkWrite (choosePack t w.s) ⟨c, z⟩] :=
      allP_single m.good m1.good
    exact reach_of_mid (w := { w1 with s := _, rows := _, acts := _ }) hop (allP_append ag a1)
      (by rw [execAll_append]; exact m1)

theorem reach_foldl {fl : Bool} {t : Tab} {keep : List Nat} {x0 : XSt} {α} (f : WSt → α → WSt)
    (hf : ∀ w a, Reach fl t keep x0 w → Reach fl t keep x0 (f w a)) (l : List α) :
    ∀ w, Reach fl t keep x0 w → Reach fl t keep x0 (l.foldl f w) := by
  induction l with
  | nil => intro w h; exact h
  | cons a l ih => intro w h; exact ih _ (hf w a h)

theorem reach_init {fl : Bool} {t : Tab} {keep : List Nat} {x0 : XSt} {s : St} (i : Idle fl t keep x0 s) :
    Reach fl t keep x0 { s := s, openP := none, rows := [], acts := [] } :=
  ⟨allP_nil i.good, ⟨i, rfl⟩⟩

/-! ### one call, a sequence of calls -/

theorem wAddPackedO_s (t : Tab) (z nh rt df dc : Bool) (w : WSt) (c : Nat) :
    (wAddPackedO t z nh rt df dc w c).s = addPackedStep t z nh w.s c := by
  have hs := wOpenO_s t nh df dc w
  unfold wAddPackedO addPackedStep
  generalize wOpenO t nh df dc w = w1 at hs
  simp only
  rw [← hs]
  by_cases hc : (nh && hasRow w1.s c) = true
  · simp only [hc, if_true]
    cases rt <;> rfl
  · simp only [hc]
    rfl

theorem foldl_wAddPackedO_s (t : Tab) (z nh rt df dc : Bool) (cs : List Nat) :
    ∀ w, (cs.foldl (wAddPackedO t z nh rt df dc) w).s = cs.foldl (addPackedStep t z nh) w.s := by
  induction cs with
  | nil => intro w; rfl
  | cons c cs ih => intro w; simp only [List.foldl_cons, ih, wAddPackedO_s]

theorem callActs_snd (t : Tab) (s : St) (cs : List Nat) (z nh rt df dc : Bool) (ht : 0 < s.target) :
    (callActs t s cs z nh rt df dc).2 = addPacked t s cs z nh := by
  cases cs with
  | nil => rfl
  | cons c cs =>
    rw [addPacked_eq_foldl t s (c :: cs) z nh ht (by simp)]
    simp only [callActs, foldl_wAddPackedO_s]

theorem call_step {fl : Bool} {t : Tab} {keep : List Nat} {x : XSt} {b : St} (i : Idle fl t keep x b)
    (cs : List Nat) (z nh rt df dc : Bool) (hfs : fl = false → df = true) :
    AllP (GW fl t keep) x (callActs t b cs z nh rt df dc).1 ∧
    Idle fl t keep (execAll x (callActs t b cs z nh rt df dc).1) (callActs t b cs z nh rt df dc).2 := by
  cases cs with
  | nil =>
    exact ⟨allP_nil i.good,
      ⟨i.good, i.wrk, i.packs, i.locks, i.rows, inv_set_cur i.inv _, i.loose, i.target⟩⟩
  | cons c cs =>
    have hr := reach_foldl (fl := fl) (t := t) (keep := keep) (x0 := x) _
      (fun w c h => reach_wAddPackedO z nh rt df dc c hfs h) (c :: cs) _ (reach_init i)
    simp only [callActs]
    generalize (c :: cs).foldl (wAddPackedO t z nh rt df dc) { s := b, openP := none, rows := [], acts := [] } = w at hr
    obtain ⟨ag, sim⟩ := hr
    unfold Sim at sim
    cases hop : w.openP with
    | none =>
      simp only [hop] at sim ⊢
      exact ⟨ag, sim.1⟩
    | some q =>
      simp only [hop] at sim ⊢
      obtain ⟨a1, i1⟩ := mid_end sim nh df dc hfs
      exact ⟨allP_append ag a1, by rw [execAll_append]; exact i1⟩

theorem calls_step {fl : Bool} {t : Tab} {keep : List Nat} (z nh rt df : Bool) (hfs : fl = false → df = true)
    (calls : List (List Nat)) : ∀ {x : XSt} {b : St}, Idle fl t keep x b →
      AllP (GW fl t keep) x (callsGo t z nh rt df b calls) ∧
      Idle fl t keep (execAll x (callsGo t z nh rt df b calls)) (callsSt t z nh b calls) := by
  induction calls with
  | nil => intro x b i; exact ⟨allP_nil i.good, i⟩
  | cons cs rest ih =>
    intro x b i
    obtain ⟨a1, i1⟩ := call_step i cs z nh rt df false hfs
    rw [callActs_snd t b cs z nh rt df false i.inv.target_pos] at i1
    obtain ⟨a2, i2⟩ := ih i1
    have e : callsGo t z nh rt df b (cs :: rest) =
        (callActs t b cs z nh rt df false).1 ++ callsGo t z nh rt df (addPacked t b cs z nh) rest := by
      simp only [callsGo, callActs_snd t b cs z nh rt df false i.inv.target_pos]
    rw [e]
    exact ⟨allP_append a1 a2, by rw [execAll_append]; exact i2⟩

/-- the whole import: the calls, then the commit -/
theorem import_step {fl : Bool} {t : Tab} {keep : List Nat} {x : XSt} {b : St} (i : Idle fl t keep x b)
    (calls : List (List Nat)) (z nh rt df : Bool) (hfs : fl = false → df = true) :
    AllP (GW fl t keep) x (actsImport t b calls z nh rt df) ∧
    Idle fl t keep (execAll x (actsImport t b calls z nh rt df)) (callsSt t z nh b calls) ∧
    (execAll x (actsImport t b calls z nh rt df)).work = none := by
  obtain ⟨a1, i1⟩ := calls_step z nh rt df hfs calls i
  have i2 := idle_commit i1
  unfold actsImport
  refine ⟨allP_append a1 (allP_single i1.good i2.good), ?_, ?_⟩
  · rw [execAll_append]; exact i2
  · rw [execAll_append]; rfl

end Dos.IO.Imp
