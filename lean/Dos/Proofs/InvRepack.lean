/-
`Inv` is preserved by repacking (the one operation that rewrites packs and moves rows).
-/
import Dos.Proofs.Basic
import Dos.Proofs.Read

namespace Dos

/-! ### `ORDER BY offset` -/

theorem rowBefore_iff (a b : Row) :
    rowBefore a b = true ↔ (a.off < b.off ∨ (a.off = b.off ∧ a.id < b.id)) := by
  simp [rowBefore]

theorem rowBefore_false_iff (a b : Row) :
    rowBefore a b = false ↔ (b.off < a.off ∨ (a.off = b.off ∧ b.id ≤ a.id)) := by
  have h := rowBefore_iff a b
  cases hb : rowBefore a b with
  | true =>
    rw [hb] at h
    have := h.mp rfl
    simp
    omega
  | false =>
    rw [hb] at h
    simp at h
    simp
    omega

theorem mem_insByOff {r x : Row} {l : List Row} : x ∈ insByOff r l ↔ x = r ∨ x ∈ l := by
  induction l with
  | nil => simp [insByOff]
  | cons y ys ih =>
    simp only [insByOff]
    split
    · simp
    · simp only [List.mem_cons, ih]
      constructor
      · rintro (h | h | h)
        · exact Or.inr (Or.inl h)
        · exact Or.inl h
        · exact Or.inr (Or.inr h)
      · rintro (h | h | h)
        · exact Or.inr (Or.inl h)
        · exact Or.inl h
        · exact Or.inr (Or.inr h)

theorem mem_sortByOff {x : Row} {l : List Row} : x ∈ sortByOff l ↔ x ∈ l := by
  induction l with
  | nil => simp [sortByOff]
  | cons y ys ih => simp [sortByOff, mem_insByOff, ih]

theorem pairwise_insByOff {r : Row} {l : List Row} (h : l.Pairwise (fun a b => rowBefore b a = false)) :
    (insByOff r l).Pairwise (fun a b => rowBefore b a = false) := by
  induction l with
  | nil => simp [insByOff]
  | cons x xs ih =>
    rw [List.pairwise_cons] at h
    obtain ⟨hx, hxs⟩ := h
    simp only [insByOff]
    split
    · rename_i hrx
      rw [List.pairwise_cons]
      refine ⟨?_, List.pairwise_cons.mpr ⟨hx, hxs⟩⟩
      intro y hy
      rw [rowBefore_iff] at hrx
      rw [rowBefore_false_iff]
      rcases List.mem_cons.mp hy with hy | hy
      · subst hy; omega
      · have := (rowBefore_false_iff _ _).mp (hx y hy)
        omega
    · rename_i hrx
      rw [List.pairwise_cons]
      refine ⟨?_, ih hxs⟩
      intro y hy
      rcases mem_insByOff.mp hy with hy | hy
      · subst hy
        simpa using hrx
      · exact hx y hy

theorem pairwise_sortByOff (l : List Row) : (sortByOff l).Pairwise (fun a b => rowBefore b a = false) := by
  induction l with
  | nil => simp [sortByOff]
  | cons y ys ih => exact pairwise_insByOff ih

/-! ### `rebuild` -/

theorem rebuild_nil (t : Tab) (p : Nat) (zs : List Bool) (off : Nat) : rebuild t p [] zs off = ([], []) := rfl

theorem rebuild_cons (t : Tab) (p : Nat) (r : Row) (rs : List Row) (zs : List Bool) (off : Nat) :
    rebuild t p (r :: rs) zs off =
      ((⟨r.key, zs.headD r.z⟩ : Seg) :: (rebuild t p rs zs.tail (off + Seg.len t ⟨r.key, zs.headD r.z⟩)).1,
       { r with pack := p, off := off, len := Seg.len t ⟨r.key, zs.headD r.z⟩, z := zs.headD r.z } ::
         (rebuild t p rs zs.tail (off + Seg.len t ⟨r.key, zs.headD r.z⟩)).2) := rfl

theorem rebuild_keys (t : Tab) (p : Nat) (rs : List Row) (zs : List Bool) (off : Nat) :
    (rebuild t p rs zs off).2.map (·.key) = rs.map (·.key) := by
  induction rs generalizing zs off with
  | nil => simp [rebuild_nil]
  | cons r rs ih => simp [rebuild_cons, ih]

theorem rebuild_ids (t : Tab) (p : Nat) (rs : List Row) (zs : List Bool) (off : Nat) :
    (rebuild t p rs zs off).2.map (·.id) = rs.map (·.id) := by
  induction rs generalizing zs off with
  | nil => simp [rebuild_nil]
  | cons r rs ih => simp [rebuild_cons, ih]

theorem rebuild_segs (t : Tab) (p : Nat) (rs : List Row) (zs : List Bool) (off : Nat) :
    (rebuild t p rs zs off).1 = (rebuild t p rs zs off).2.map (fun r => (⟨r.key, r.z⟩ : Seg)) := by
  induction rs generalizing zs off with
  | nil => simp [rebuild_nil]
  | cons r rs ih => simp [rebuild_cons, ← ih]

theorem rebuild_mem {t : Tab} {p : Nat} {rs : List Row} {zs : List Bool} {off : Nat} {r' : Row}
    (h : r' ∈ (rebuild t p rs zs off).2) :
    ∃ r ∈ rs, r'.key = r.key ∧ r'.id = r.id ∧ r'.size = r.size ∧ r'.pack = p ∧
      r'.len = Seg.len t ⟨r'.key, r'.z⟩ := by
  induction rs generalizing zs off with
  | nil => simp [rebuild_nil] at h
  | cons r rs ih =>
    rw [rebuild_cons] at h
    rcases List.mem_cons.mp h with h | h
    · subst h
      exact ⟨r, by simp, rfl, rfl, rfl, rfl, rfl⟩
    · obtain ⟨r0, hm, hh⟩ := ih h
      exact ⟨r0, List.mem_cons_of_mem _ hm, hh⟩

theorem rebuild_layout {t : Tab} {p : Nat} {rs : List Row} {zs : List Bool} {off : Nat} {r' : Row}
    (h : r' ∈ (rebuild t p rs zs off).2) :
    ∃ pre post, (rebuild t p rs zs off).1 = pre ++ (⟨r'.key, r'.z⟩ : Seg) :: post ∧
      r'.off = off + segsLen t pre := by
  induction rs generalizing zs off with
  | nil => simp [rebuild_nil] at h
  | cons r rs ih =>
    rw [rebuild_cons] at h ⊢
    rcases List.mem_cons.mp h with h | h
    · subst h
      exact ⟨[], _, rfl, by simp⟩
    · obtain ⟨pre, post, h1, h2⟩ := ih h
      refine ⟨(⟨r.key, zs.headD r.z⟩ : Seg) :: pre, post, ?_, ?_⟩
      · simp only [List.cons_append]
        rw [← h1]
      · rw [h2]; simp [Nat.add_assoc]

theorem rebuild_pairwise (t : Tab) (p : Nat) (rs : List Row) (zs : List Bool) (off : Nat) :
    (rebuild t p rs zs off).2.Pairwise (fun a b => a.off + a.len ≤ b.off) ∧
      ∀ r' ∈ (rebuild t p rs zs off).2, off ≤ r'.off := by
  induction rs generalizing zs off with
  | nil => simp [rebuild_nil]
  | cons r rs ih =>
    rw [rebuild_cons]
    obtain ⟨h1, h2⟩ := ih zs.tail (off + Seg.len t ⟨r.key, zs.headD r.z⟩)
    constructor
    · rw [List.pairwise_cons]
      refine ⟨?_, h1⟩
      intro b hb
      exact h2 b hb
    · intro r' hr'
      rcases List.mem_cons.mp hr' with h | h
      · subst h; exact Nat.le_refl _
      · have := h2 r' h
        omega

/-! ### generic list facts -/

theorem pairwise_trichotomy {α} {R : α → α → Prop} {l : List α} (h : l.Pairwise R) {a b : α}
    (ha : a ∈ l) (hb : b ∈ l) : a = b ∨ R a b ∨ R b a := by
  induction l with
  | nil => simp at ha
  | cons x xs ih =>
    rw [List.pairwise_cons] at h
    rcases List.mem_cons.mp ha with ha' | ha' <;> rcases List.mem_cons.mp hb with hb' | hb'
    · left; rw [ha', hb']
    · subst ha'; exact Or.inr (Or.inl (h.1 b hb'))
    · subst hb'; exact Or.inr (Or.inr (h.1 a ha'))
    · exact ih h.2 ha' hb'

theorem eq_of_key_eq {rows : List Row} (nd : (rows.map (·.key)).Nodup) {a b : Row}
    (ha : a ∈ rows) (hb : b ∈ rows) (h : a.key = b.key) : a = b := by
  induction rows with
  | nil => simp at ha
  | cons x xs ih =>
    simp only [List.map_cons, List.nodup_cons] at nd
    rcases List.mem_cons.mp ha with ha' | ha' <;> rcases List.mem_cons.mp hb with hb' | hb'
    · rw [ha', hb']
    · subst ha'
      exact absurd (h ▸ List.mem_map_of_mem (f := (·.key)) hb') nd.1
    · subst hb'
      exact absurd (h ▸ List.mem_map_of_mem (f := (·.key)) ha') nd.1
    · exact ih nd.2 ha' hb'

theorem keys_erasePack_sublist (ps : Packs) (p : Nat) :
    ((erasePack ps p).map (·.1)).Sublist (ps.map (·.1)) := by
  induction ps with
  | nil => simp [erasePack]
  | cons e rest ih =>
    obtain ⟨q, gs⟩ := e
    simp only [erasePack]
    split
    · exact List.Sublist.cons _ ih
    · simp only [List.map_cons]
      exact List.Sublist.cons_cons _ ih

/-! ### the rows after a repack -/

/-- the row update performed by `repackPack` -/
def repackRow (p : Nat) (rs' : List Row) (r : Row) : Row :=
  if r.pack == p then (findRow rs' r.key).getD r else r

theorem mem_rowsOfPack {rows : List Row} {p : Nat} {r : Row} : r ∈ rowsOfPack rows p ↔ r ∈ rows ∧ r.pack = p := by
  simp [rowsOfPack, List.mem_filter]

theorem repack_row {t : Tab} {s : St} (inv : Inv t s) (p : Nat) (zs : List Bool) {r : Row}
    (hr : r ∈ s.rows) (hp : r.pack = p) :
    ∃ r' ∈ (rebuild t p (sortByOff (rowsOfPack s.rows p)) zs 0).2,
      findRow (rebuild t p (sortByOff (rowsOfPack s.rows p)) zs 0).2 r.key = some r' ∧
      r'.key = r.key ∧ r'.id = r.id ∧ r'.size = r.size ∧ r'.pack = p := by
  have hmem : r ∈ sortByOff (rowsOfPack s.rows p) := mem_sortByOff.mpr (mem_rowsOfPack.mpr ⟨hr, hp⟩)
  have hk : r.key ∈ (rebuild t p (sortByOff (rowsOfPack s.rows p)) zs 0).2.map (·.key) := by
    rw [rebuild_keys]
    exact List.mem_map_of_mem (f := (·.key)) hmem
  cases hf : findRow (rebuild t p (sortByOff (rowsOfPack s.rows p)) zs 0).2 r.key with
  | none => exact absurd hk (findRow_none_iff.mp hf)
  | some r' =>
    obtain ⟨hm', hk'⟩ := findRow_some hf
    obtain ⟨r0, hr0, h1, h2, h3, h4, _⟩ := rebuild_mem hm'
    have hr0' : r0 ∈ s.rows := (mem_rowsOfPack.mp (mem_sortByOff.mp hr0)).1
    have : r0 = r := eq_of_key_eq inv.keys_nodup hr0' hr (by rw [← h1, hk'])
    subst this
    exact ⟨r', hm', rfl, h1, h2, h3, h4⟩

theorem repackRow_spec {t : Tab} {s : St} (inv : Inv t s) (p : Nat) (zs : List Bool) {r : Row} (hr : r ∈ s.rows) :
    (repackRow p (rebuild t p (sortByOff (rowsOfPack s.rows p)) zs 0).2 r).key = r.key ∧
    (repackRow p (rebuild t p (sortByOff (rowsOfPack s.rows p)) zs 0).2 r).id = r.id ∧
    (repackRow p (rebuild t p (sortByOff (rowsOfPack s.rows p)) zs 0).2 r).pack = r.pack ∧
    (repackRow p (rebuild t p (sortByOff (rowsOfPack s.rows p)) zs 0).2 r).size = r.size ∧
    (r.pack ≠ p → repackRow p (rebuild t p (sortByOff (rowsOfPack s.rows p)) zs 0).2 r = r) ∧
    (r.pack = p → repackRow p (rebuild t p (sortByOff (rowsOfPack s.rows p)) zs 0).2 r ∈
      (rebuild t p (sortByOff (rowsOfPack s.rows p)) zs 0).2) := by
  by_cases hp : r.pack = p
  · obtain ⟨r', hm', hf, h1, h2, h3, h4⟩ := repack_row inv p zs hr hp
    have : repackRow p (rebuild t p (sortByOff (rowsOfPack s.rows p)) zs 0).2 r = r' := by
      simp [repackRow, hp, hf]
    rw [this]
    exact ⟨h1, h2, by rw [h4, hp], h3, fun h => absurd hp h, fun _ => hm'⟩
  · have : repackRow p (rebuild t p (sortByOff (rowsOfPack s.rows p)) zs 0).2 r = r := by
      simp [repackRow, hp]
    rw [this]
    exact ⟨rfl, rfl, rfl, rfl, fun _ => rfl, fun h => absurd h hp⟩

/-- in the old state the `ORDER BY offset` order of the rows of one pack is also their id order -/
theorem sorted_ids {t : Tab} {s : St} (inv : Inv t s) (p : Nat) :
    (sortByOff (rowsOfPack s.rows p)).Pairwise (fun a b => a.id ≤ b.id) := by
  have hmem : ∀ a ∈ sortByOff (rowsOfPack s.rows p), a ∈ s.rows ∧ a.pack = p :=
    fun a ha => mem_rowsOfPack.mp (mem_sortByOff.mp ha)
  refine List.Pairwise.imp_of_mem ?_ (pairwise_sortByOff (rowsOfPack s.rows p))
  intro a b ha hb hab
  obtain ⟨ha1, ha2⟩ := hmem a ha
  obtain ⟨hb1, hb2⟩ := hmem b hb
  rw [rowBefore_false_iff] at hab
  by_cases hlt : b.id < a.id
  · have := inv.ids_pos b hb1 a ha1 (by rw [ha2, hb2]) hlt
    omega
  · omega

theorem rebuilt_pos {t : Tab} {s : St} (inv : Inv t s) (p : Nat) (zs : List Bool) {a b : Row}
    (ha : a ∈ (rebuild t p (sortByOff (rowsOfPack s.rows p)) zs 0).2)
    (hb : b ∈ (rebuild t p (sortByOff (rowsOfPack s.rows p)) zs 0).2) (hlt : a.id < b.id) :
    a.off + a.len ≤ b.off := by
  have h1 := (rebuild_pairwise t p (sortByOff (rowsOfPack s.rows p)) zs 0).1
  have h2 : (rebuild t p (sortByOff (rowsOfPack s.rows p)) zs 0).2.Pairwise (fun a b => a.id ≤ b.id) := by
    have h0 : ((sortByOff (rowsOfPack s.rows p)).map (·.id)).Pairwise (· ≤ ·) :=
      List.pairwise_map.mpr (sorted_ids inv p)
    rw [← rebuild_ids t p _ zs 0] at h0
    exact List.pairwise_map.mp h0
  have h3 := h1.and h2
  rcases pairwise_trichotomy h3 ha hb with h | h | h
  · subst h; omega
  · exact h.1
  · have := h.2; omega

theorem inv_rebuilt {t : Tab} {s : St} (inv : Inv t s) (p : Nat) (zs : List Bool) :
    Inv t { s with packs := setPack s.packs p (rebuild t p (sortByOff (rowsOfPack s.rows p)) zs 0).1,
                   rows := s.rows.map (repackRow p (rebuild t p (sortByOff (rowsOfPack s.rows p)) zs 0).2) } := by
  have spec := fun (r : Row) (hr : r ∈ s.rows) => repackRow_spec inv p zs hr
  refine ⟨?_, ?_, ?_, ?_, ?_, inv.loose_nodup, inv.loose_ok, inv.target_pos⟩
  · -- rows_ok
    intro r' hr'
    simp only [List.mem_map] at hr'
    obtain ⟨r, hr, rfl⟩ := hr'
    obtain ⟨hk, hi, hpk, hsz, hne, heq⟩ := spec r hr
    by_cases hp : r.pack = p
    · have hm' := heq hp
      obtain ⟨pre, post, hl1, hl2⟩ := rebuild_layout hm'
      obtain ⟨r0, _, _, _, _, _, hlen⟩ := rebuild_mem hm'
      obtain ⟨_, _, _, _, _, _, _, hsize⟩ := inv.rows_ok r hr
      refine ⟨_, pre, post, ?_, hl1, by simpa using hl2, hlen, ?_⟩
      · show getPack (setPack s.packs p _) _ = _
        rw [hpk, hp, getPack_setPack_eq]
      · rw [hsz, hk, hsize]
    · rw [hne hp]
      obtain ⟨segs, pre, post, h1, h2⟩ := inv.rows_ok r hr
      refine ⟨segs, pre, post, ?_, h2⟩
      show getPack (setPack s.packs p _) _ = _
      rw [getPack_setPack_ne _ _ _ _ hp, h1]
  · -- keys_nodup
    have : (s.rows.map (repackRow p (rebuild t p (sortByOff (rowsOfPack s.rows p)) zs 0).2)).map (·.key)
        = s.rows.map (·.key) := by
      rw [List.map_map]
      apply List.map_congr_left
      intro r hr
      exact (spec r hr).1
    show (List.map _ (s.rows.map _)).Nodup
    rw [this]; exact inv.keys_nodup
  · -- ids_nodup
    have : (s.rows.map (repackRow p (rebuild t p (sortByOff (rowsOfPack s.rows p)) zs 0).2)).map (·.id)
        = s.rows.map (·.id) := by
      rw [List.map_map]
      apply List.map_congr_left
      intro r hr
      exact (spec r hr).2.1
    show (List.map _ (s.rows.map _)).Nodup
    rw [this]; exact inv.ids_nodup
  · -- ids_pos
    intro r1' h1' r2' h2' hpack hlt
    simp only [List.mem_map] at h1' h2'
    obtain ⟨r1, hr1, rfl⟩ := h1'
    obtain ⟨r2, hr2, rfl⟩ := h2'
    obtain ⟨_, hi1, hp1, _, hne1, heq1⟩ := spec r1 hr1
    obtain ⟨_, hi2, hp2, _, hne2, heq2⟩ := spec r2 hr2
    rw [hp1, hp2] at hpack
    rw [hi1, hi2] at hlt
    by_cases hp : r1.pack = p
    · have hp' : r2.pack = p := by rw [← hpack]; exact hp
      exact rebuilt_pos inv p zs (heq1 hp) (heq2 hp') (by rw [hi1, hi2]; exact hlt)
    · have hp' : r2.pack ≠ p := by rw [← hpack]; exact hp
      rw [hne1 hp, hne2 hp']
      exact inv.ids_pos r1 hr1 r2 hr2 hpack hlt
  · exact nodup_keys_setPack p _ inv.packs_nodup

theorem inv_erased {t : Tab} {s : St} (inv : Inv t s) (p : Nat) (h : rowsOfPack s.rows p = []) :
    Inv t { s with packs := erasePack s.packs p } := by
  refine ⟨?_, inv.keys_nodup, inv.ids_nodup, inv.ids_pos, ?_, inv.loose_nodup, inv.loose_ok, inv.target_pos⟩
  · intro r hr
    have hp : r.pack ≠ p := by
      intro hp
      have : r ∈ rowsOfPack s.rows p := mem_rowsOfPack.mpr ⟨hr, hp⟩
      rw [h] at this
      simp at this
    obtain ⟨segs, pre, post, h1, h2⟩ := inv.rows_ok r hr
    refine ⟨segs, pre, post, ?_, h2⟩
    show getPack (erasePack s.packs p) _ = _
    rw [getPack_erasePack_ne _ _ _ hp, h1]
  · exact inv.packs_nodup.sublist (keys_erasePack_sublist s.packs p)

/-! ### the theorems -/

theorem inv_repackPack {t : Tab} {s s' : St} (inv : Inv t s) {m : Mode} {p : Nat} {order : List Nat} {zs : List Bool}
    (h : repackPack t s m p order zs = some s') : Inv t s' := by
  unfold repackPack at h
  simp only at h
  split at h
  · rename_i hnil
    split at h
    · simp only [Option.some.injEq] at h
      subst h
      exact inv_erased inv p hnil
    · simp at h
  · split at h
    · simp at h
    · split at h
      · simp at h
      · split at h
        · simp at h
        · simp only [Option.some.injEq] at h
          subst h
          exact inv_rebuilt inv p zs

theorem inv_repackAll {t : Tab} {m : Mode} {plan : List (Nat × List Nat × List Bool)} {s s' : St} (inv : Inv t s)
    (h : repackAll t m s plan = some s') : Inv t s' := by
  induction plan generalizing s with
  | nil =>
    simp only [repackAll, Option.some.injEq] at h
    subst h; exact inv
  | cons e rest ih =>
    obtain ⟨p, order, zs⟩ := e
    simp only [repackAll] at h
    split at h
    · simp at h
    · rename_i s1 hs1
      exact ih (inv_repackPack inv hs1) h

end Dos
