/-
C07 for the streaming decompresser: for every decoder satisfying the contract, every in-range program over a
compressed object gives the outputs of an in-memory file over the uncompressed bytes.

Proof outline (helpers live in the namespace `Dos.Stream.DecompProof`):
* `CInv s c`   – invariant of the compressed mode: the decoder state has consumed `c` bytes of `e` and produced
                 `s.pos + s.buf.length` bytes of `b`; the compressed window is well-formed and sits right after the
                 unconsumed tail; the buffer is the slice of `b` at `s.pos`.
* `fillStep_spec`/`fill_spec` – the fill loop never raises, keeps `CInv`, and ends with enough bytes or with all of `b`.
* `readSome_spec`, `readAllGo_spec`, `reset_spec`, `skipTo_spec`, `seekComp_ok`/`seekComp_err` – the primitives.
* `Good s p`   – `CInv` at position `p`, or proxied to the loose copy `⟨b, p⟩`.
* `step_sim` (in-range commands = `Ref.step`), `step_safe` (every command keeps `Good`, outputs are harmless).
The facts needed about `Packed` (`packed_read_spec`, `packed_seek0_spec`) are proved here directly, so the theorems
of this file do not depend on Dos/Proofs/StreamPacked.lean.
-/
import Dos.StreamSpec
import Dos.Proofs.StreamPacked

namespace Dos.Stream

namespace DecompProof

theorem slice_length (d : Bytes) (p n : Nat) : (slice d p n).length = min n (d.length - p) := by
  simp [slice, List.length_take, List.length_drop]

theorem slice_add (d : Bytes) (p n m : Nat) : slice d p n ++ slice d (p + n) m = slice d p (n + m) := by
  simp only [slice, List.take_add, ← List.drop_drop]

theorem drop_slice (d : Bytes) (p n k : Nat) : (slice d p n).drop k = slice d (p + k) (n - k) := by
  simp only [slice, List.drop_take, List.drop_drop]

theorem take_slice (d : Bytes) (p n k : Nat) : (slice d p n).take k = slice d p (min k n) := by
  simp only [slice, List.take_take]

theorem slice_window (pre e post : Bytes) (p k : Nat) (h : p + k ≤ e.length) :
    slice (pre ++ e ++ post) (pre.length + p) k = slice e p k := by
  simp only [slice, List.append_assoc]
  rw [List.drop_append, List.drop_eq_nil_of_le (by omega), List.nil_append]
  have : pre.length + p - pre.length = p := by omega
  rw [this, List.drop_append, List.take_append]
  have h2 : k - (List.drop p e).length = 0 := by simp [List.length_drop]; omega
  have h3 : p - e.length = 0 := by omega
  rw [h2, h3]; simp

theorem slice_of_le (d : Bytes) (p n m : Nat) (h : d.length ≤ p + n) (h' : d.length ≤ p + m) : slice d p n = slice d p m := by
  simp only [slice]
  rw [List.take_of_length_le (by simp [List.length_drop]; omega), List.take_of_length_le (by simp [List.length_drop]; omega)]

theorem packed_read_spec {p : Packed} {e : Bytes} (wf : p.WF e) (k : Nat) :
    ∃ p', p.read (Int.ofNat k) = (p', .data (slice e p.pos (min (e.length - p.pos) k))) ∧ p'.WF e ∧
      p'.pos = p.pos + min (e.length - p.pos) k := by
  obtain ⟨⟨pre, post, hd, hoff⟩, hlen, hfpos, hle⟩ := wf
  have hk : ¬ (Int.ofNat k < 0) := Int.not_lt.mpr (Int.natCast_nonneg k)
  have hk2 : (Int.ofNat k).toNat = k := rfl
  have hout : slice p.f.data p.f.fpos (min (p.len - p.pos) k) = slice e p.pos (min (e.length - p.pos) k) := by
    rw [hd, hfpos, hoff, hlen]; exact slice_window _ _ _ _ _ (by omega)
  have hlen2 : (slice e p.pos (min (e.length - p.pos) k)).length = min (e.length - p.pos) k := by
    rw [slice_length]; omega
  simp only [Packed.read, hk, if_false, File.read, hk2, hout, hlen2, Packed.updatePos]
  have h1 : ¬ (p.f.fpos + min (e.length - p.pos) k < p.off) := by omega
  have h2 : ¬ (p.f.fpos + min (e.length - p.pos) k - p.off > p.len) := by omega
  simp only [h1, h2, if_false]
  refine ⟨_, rfl, ⟨⟨pre, post, hd, hoff⟩, hlen, ?_, ?_⟩, ?_⟩ <;> simp only <;> omega

theorem packed_seek0_spec {p : Packed} {e : Bytes} (wf : p.WF e) :
    ∃ p', p.seek 0 0 = (p', .pos 0) ∧ p'.WF e ∧ p'.pos = 0 := by
  obtain ⟨⟨pre, post, hd, hoff⟩, hlen, hfpos, hle⟩ := wf
  have h0 : ¬ ((p.len : Int) < 0) := by omega
  simp [Packed.seek, Packed.updatePos, h0]
  exact ⟨⟨pre, post, hd, hoff⟩, hlen, by simp, by simp⟩

section
variable {σ : Type} (dc : Decoder σ) (e b : Bytes) (V : dc.Valid e b) (chunk fuel : Nat) (lazy : Option Bytes)

structure CInv (s : Decomp σ) (c : Nat) : Prop where
  loose : s.loose = none
  R : V.R s.d c (s.pos + s.buf.length)
  wf : s.cs.WF e
  cpos : s.cs.pos = c + (dc.tail s.d).length
  tail : dc.tail s.d = slice e c (dc.tail s.d).length
  buf : s.buf = slice b s.pos s.buf.length
  chunk_eq : s.chunk = chunk
  fuel_eq : s.fuel = fuel
  lazy_eq : s.lazy = lazy

theorem fillStep_spec {s : Decomp σ} {c : Nat} (hc : 0 < chunk) (h : CInv dc e b V chunk fuel lazy s c) {size : Nat} (hsize : 0 < size) :
    ∃ s' stop c', fillStep dc s size = some (s', stop) ∧ CInv dc e b V chunk fuel lazy s' c' ∧ s'.pos = s.pos ∧
      (stop = true → s'.pos + s'.buf.length = b.length) ∧
      (stop = false → size ≤ s'.buf.length ∨ c < c') := by
  obtain ⟨hloose, hR, hwf, hcpos, htail, hbuf, hch, hfu, hlz⟩ := h
  obtain ⟨p', hread, hwf', hpos'⟩ := packed_read_spec hwf (s.chunk - (dc.tail s.d).length)
  generalize hnext : slice e s.cs.pos (min (e.length - s.cs.pos) (s.chunk - (dc.tail s.d).length)) = next at hread
  have hnl : next.length = min (e.length - s.cs.pos) (s.chunk - (dc.tail s.d).length) := by
    rw [← hnext, slice_length]; omega
  have hn2 : next = slice e (c + (dc.tail s.d).length) next.length := by rw [hnl, ← hcpos, hnext]
  have hinp : dc.tail s.d ++ next = slice e c (dc.tail s.d ++ next).length := by
    rw [List.length_append, ← slice_add, ← htail, ← hn2]
  obtain ⟨c', hR', hout, hle, hcc, hcc', htail', hfull, heof, hend⟩ :=
    V.feed_R s.d c _ (dc.tail s.d ++ next) size hR hsize hinp
  generalize hfd : dc.feed s.d (dc.tail s.d ++ next) size = fd at *
  obtain ⟨d', out⟩ := fd
  simp only at *
  simp only [fillStep, hread, hfd]
  have htl : (dc.tail d').length = (dc.tail s.d ++ next).length - (c' - c) := by
    rw [htail', List.length_drop]
  have hinv : CInv dc e b V chunk fuel lazy
      { cs := p', d := d', buf := s.buf ++ out, pos := s.pos, lazy := s.lazy, loose := s.loose,
        chunk := s.chunk, fuel := s.fuel } c' := by
    refine ⟨hloose, ?_, hwf', ?_, ?_, ?_, hch, hfu, hlz⟩
    · simpa only [List.length_append, Nat.add_assoc] using hR'
    · simp only [htl, hpos', hcpos, List.length_append] at *; omega
    · show dc.tail d' = slice e c' (dc.tail d').length
      rw [htl, htail']
      conv => lhs; rw [hinp]
      rw [drop_slice]
      congr 1; omega
    · show s.buf ++ out = slice b s.pos (s.buf ++ out).length
      rw [List.length_append, ← slice_add, ← hbuf, ← hout]
  by_cases hstop : (s.chunk - List.length (dc.tail s.d) != 0 && List.isEmpty next && List.isEmpty (dc.tail d')) = true
  · simp only [hstop, if_true]
    simp only [Bool.and_eq_true, bne_iff_ne, ne_eq, List.isEmpty_iff] at hstop
    obtain ⟨⟨h1, h2⟩, h3⟩ := hstop
    have hce : c' = e.length := by
      have := hwf.pos_le; have := hwf.len_eq
      simp only [h2, h3, List.length_nil, List.length_append] at *; omega
    rw [if_pos (heof.mpr hce)]
    refine ⟨_, true, c', rfl, hinv, rfl, ?_, by simp⟩
    intro _
    have := hend hce
    simp only [List.length_append]; omega
  · simp only [hstop]
    refine ⟨_, false, c', rfl, hinv, rfl, by simp, ?_⟩
    intro _
    simp only [List.length_append]
    by_cases hlt : out.length < size
    · right
      have h4 := hfull hlt
      simp only [Bool.and_eq_true, bne_iff_ne, ne_eq, List.isEmpty_iff, not_and] at hstop
      rcases Nat.eq_zero_or_pos (s.chunk - (dc.tail s.d).length) with h5 | h5
      · simp only [List.length_append] at h4; omega
      · rcases Nat.eq_zero_or_pos next.length with h6 | h6
        · have h7 := hstop ⟨by omega, List.eq_nil_of_length_eq_zero h6⟩
          exact absurd (List.eq_nil_of_length_eq_zero (by omega)) h7
        · simp only [List.length_append] at h4; omega
    · left; omega

theorem fill_done (size f : Nat) (s : Decomp σ) (h : size ≤ s.buf.length) : fill dc size f s = some s := by
  cases f with
  | zero => rfl
  | succ f => simp only [fill, if_neg (Nat.not_lt.mpr h)]

theorem fill_spec (hc : 0 < chunk) {size : Nat} (hsize : 0 < size) :
    ∀ (f : Nat) (s : Decomp σ) (c : Nat), CInv dc e b V chunk fuel lazy s c → e.length - c + 1 ≤ f →
      ∃ s' c', fill dc size f s = some s' ∧ CInv dc e b V chunk fuel lazy s' c' ∧ s'.pos = s.pos ∧
        (size ≤ s'.buf.length ∨ s'.pos + s'.buf.length = b.length) := by
  intro f
  induction f with
  | zero => intro s c _ h; omega
  | succ f ih =>
    intro s c h hf
    by_cases hlt : s.buf.length < size
    · obtain ⟨s', stop, c', hfs, hinv', hp, hst, hns⟩ := fillStep_spec dc e b V chunk fuel lazy hc h hsize
      simp only [fill, if_pos hlt, hfs]
      cases stop with
      | true => exact ⟨s', c', by simp, hinv', hp, Or.inr (hst rfl)⟩
      | false =>
        simp only [Bool.false_eq_true, if_false]
        rcases hns rfl with h1 | h1
        · rw [fill_done dc size f s' h1]
          exact ⟨s', c', rfl, hinv', hp, Or.inl h1⟩
        · have hb := (V.bounds _ _ _ hinv'.R).1
          obtain ⟨s'', c'', h2, h3, h4, h5⟩ := ih s' c' hinv' (by omega)
          exact ⟨s'', c'', h2, h3, by omega, h5⟩
    · rw [fill_done dc size _ s (by omega)]
      exact ⟨s, c, rfl, h, rfl, Or.inl (by omega)⟩


theorem take_buf {B : Bytes} {p size : Nat} (hB : B = slice b p B.length)
    (h : size ≤ B.length ∨ p + B.length = b.length) : B.take size = slice b p size := by
  rw [hB, take_slice]
  rcases Nat.le_total size B.length with h1 | h1
  · rw [Nat.min_eq_left h1]
  · rcases h with h | h
    · have : size = B.length := by omega
      rw [this, Nat.min_self]
    · rw [Nat.min_eq_right h1]; exact slice_of_le _ _ _ _ (by omega) (by omega)

theorem drop_buf {B : Bytes} {p size : Nat} (hB : B = slice b p B.length) :
    B.drop size = slice b (p + (B.take size).length) (B.drop size).length := by
  rcases Nat.le_total size B.length with h1 | h1
  · rw [List.length_take, List.length_drop, Nat.min_eq_left h1]
    conv => lhs; rw [hB]
    rw [drop_slice]
  · rw [List.drop_eq_nil_of_le h1]; simp [slice]

theorem readSome_spec (hc : 0 < chunk) (hf : e.length + b.length + 4 ≤ fuel) {s : Decomp σ} {c : Nat}
    (h : CInv dc e b V chunk fuel lazy s c) {size : Nat} (hsize : 0 < size) :
    ∃ c', CInv dc e b V chunk fuel lazy (readSome dc s size).1 c' ∧
      (readSome dc s size).2 = .data (slice b s.pos size) ∧
      (readSome dc s size).1.pos = s.pos + (slice b s.pos size).length := by
  obtain ⟨s', c', hfill, hinv, hp, hdone⟩ :=
    fill_spec dc e b V chunk fuel lazy hc hsize s.fuel s c h (by have := h.fuel_eq; omega)
  have htake := take_buf b hinv.buf hdone
  simp only [readSome, hfill, htake, hp]
  refine ⟨c', ⟨hinv.loose, ?_, hinv.wf, hinv.cpos, hinv.tail, ?_, hinv.chunk_eq, hinv.fuel_eq, hinv.lazy_eq⟩, trivial, trivial⟩
  · have := hinv.R
    have h2 : s.pos + (slice b s.pos size).length + (List.drop size s'.buf).length = s'.pos + s'.buf.length := by
      rw [← hp, ← htake, List.length_take, List.length_drop]; omega
    show V.R s'.d c' (s.pos + (slice b s.pos size).length + (List.drop size s'.buf).length)
    rw [h2]; exact this
  · show List.drop size s'.buf = slice b (s.pos + (slice b s.pos size).length) (List.drop size s'.buf).length
    rw [← hp, ← htake]; exact drop_buf b hinv.buf


theorem slice_min (d : Bytes) (p n : Nat) : slice d p n = slice d p (min n (d.length - p)) := by
  rcases Nat.le_total n (d.length - p) with h | h
  · rw [Nat.min_eq_left h]
  · rw [Nat.min_eq_right h]; exact slice_of_le _ _ _ _ (by omega) (by omega)

theorem readAllGo_spec (hc : 0 < chunk) (hf : e.length + b.length + 4 ≤ fuel) :
    ∀ (f : Nat) (s : Decomp σ) (c : Nat) (acc : Bytes), CInv dc e b V chunk fuel lazy s c →
      b.length - s.pos + 1 ≤ f →
      ∃ c', CInv dc e b V chunk fuel lazy (readAllGo dc f s acc).1 c' ∧
        (readAllGo dc f s acc).2 = .data (acc ++ slice b s.pos (b.length - s.pos)) ∧
        (readAllGo dc f s acc).1.pos = b.length := by
  intro f
  induction f with
  | zero => intro s c acc _ h; omega
  | succ f ih =>
    intro s c acc h hfu
    have hple : s.pos ≤ b.length := by have := (V.bounds _ _ _ h.R).2; omega
    have hck : 0 < s.chunk := by rw [h.chunk_eq]; exact hc
    obtain ⟨c', hinv, hout, hpos⟩ := readSome_spec dc e b V chunk fuel lazy hc hf h hck
    generalize hrs : readSome dc s s.chunk = r at *
    obtain ⟨s', o⟩ := r
    simp only at hinv hout hpos
    subst hout
    simp only [readAllGo, hrs]
    have hlen := slice_length b s.pos s.chunk
    by_cases hemp : (slice b s.pos s.chunk).isEmpty = true
    · simp only [hemp, if_true]
      rw [List.isEmpty_iff] at hemp
      rw [hemp, List.length_nil] at hlen hpos
      have h0 : b.length - s.pos = 0 := by omega
      refine ⟨c', hinv, ?_, by omega⟩
      rw [h0]; simp [slice]
    · simp only [hemp, Bool.false_eq_true, if_false]
      have hne : 0 < (slice b s.pos s.chunk).length := by
        rcases Nat.eq_zero_or_pos (slice b s.pos s.chunk).length with h0 | h0
        · exact absurd (List.isEmpty_iff.mpr (List.eq_nil_of_length_eq_zero h0)) hemp
        · exact h0
      obtain ⟨c'', h1, h2, h3⟩ := ih s' c' (acc ++ slice b s.pos s.chunk) hinv (by omega)
      refine ⟨c'', h1, ?_, h3⟩
      rw [h2, hpos, List.append_assoc]
      congr 2
      have hsl : slice b s.pos s.chunk = slice b s.pos (slice b s.pos s.chunk).length := by
        rw [hlen]; exact slice_min _ _ _
      generalize slice b s.pos s.chunk = sl at *
      conv => lhs; arg 1; rw [hsl]
      rw [slice_add]
      congr 1; omega


theorem reset_spec {s : Decomp σ} {c : Nat} (h : CInv dc e b V chunk fuel lazy s c) :
    CInv dc e b V chunk fuel lazy (Decomp.reset dc s).1 0 ∧ (Decomp.reset dc s).2 = .pos 0 ∧
      (Decomp.reset dc s).1.pos = 0 := by
  obtain ⟨p', hseek, hwf, hpos⟩ := packed_seek0_spec h.wf
  simp only [Decomp.reset, hseek]
  refine ⟨⟨h.loose, V.init_R, hwf, ?_, ?_, rfl, h.chunk_eq, h.fuel_eq, h.lazy_eq⟩, trivial, trivial⟩
  · show p'.pos = 0 + (dc.tail dc.init).length
    rw [V.init_tail, hpos]; rfl
  · show dc.tail dc.init = slice e 0 (dc.tail dc.init).length
    rw [V.init_tail]; rfl

theorem skipTo_spec (hc : 0 < chunk) (hf : e.length + b.length + 4 ≤ fuel) (target : Nat) :
    ∀ (f : Nat) (s : Decomp σ) (c : Nat), CInv dc e b V chunk fuel lazy s c → s.pos ≤ target →
      min target b.length - s.pos + 1 ≤ f →
      ∃ c', CInv dc e b V chunk fuel lazy (skipTo dc target f s).1 c' ∧
        (skipTo dc target f s).1.pos = min target b.length ∧
        (skipTo dc target f s).2 = .pos ((skipTo dc target f s).1.pos : Nat) := by
  intro f
  induction f with
  | zero => intro s c _ _ h; omega
  | succ f ih =>
    intro s c h hpt hfu
    have hple : s.pos ≤ b.length := by have := (V.bounds _ _ _ h.R).2; omega
    by_cases hlt : s.pos < target
    · have hk : 0 < min 262144 (target - s.pos) := by omega
      obtain ⟨c', hinv, hout, hpos⟩ := readSome_spec dc e b V chunk fuel lazy hc hf h hk
      generalize hrs : readSome dc s (min 262144 (target - s.pos)) = r at *
      obtain ⟨s', o⟩ := r
      simp only at hinv hout hpos
      subst hout
      simp only [skipTo, if_pos hlt, hrs]
      have hlen := slice_length b s.pos (min 262144 (target - s.pos))
      by_cases hemp : (slice b s.pos (min 262144 (target - s.pos))).isEmpty = true
      · simp only [hemp, if_true]
        rw [List.isEmpty_iff] at hemp
        rw [hemp, List.length_nil] at hlen hpos
        exact ⟨c', hinv, by omega, trivial⟩
      · simp only [hemp, Bool.false_eq_true, if_false]
        have hne : 0 < (slice b s.pos (min 262144 (target - s.pos))).length := by
          rcases Nat.eq_zero_or_pos (slice b s.pos (min 262144 (target - s.pos))).length with h0 | h0
          · exact absurd (List.isEmpty_iff.mpr (List.eq_nil_of_length_eq_zero h0)) hemp
          · exact h0
        exact ih s' c' hinv (by omega) (by omega)
    · simp only [skipTo, if_neg hlt]
      exact ⟨c, h, by omega, trivial⟩

def shouldU (pos : Nat) (t : Int) (w : Nat) : Bool :=
  decide (w = 2) || decide (w = 1) && decide (t < 0) || decide (w = 1) && decide (t < Int.ofNat pos)

def seekComp (s : Decomp σ) (t : Int) (w : Nat) : Decomp σ × Out :=
  if w = 2 then (s, .err .notImplemented)
  else
    let target : Int := if w = 1 then Int.ofNat s.pos + t else t
    if target < 0 then (s, .err .value)
    else if target = 0 then Decomp.reset dc s
    else
      if target.toNat < s.pos then
        match Decomp.reset dc s with
        | (s2, .pos _) => skipTo dc target.toNat s2.fuel s2
        | (s2, o) => (s2, o)
      else skipTo dc target.toNat s.fuel s

theorem seek_noswitch {s : Decomp σ} {t : Int} {w : Nat} (hl : s.loose = none) (hw : w ≤ 2)
    (hns : s.lazy = none ∨ shouldU s.pos t w = false) : Decomp.seek dc s t w = seekComp dc s t w := by
  obtain ⟨cs, d, buf, pos, lazy, loose, chunk, fuel⟩ := s
  simp only at hl hns
  subst hl
  have hw' : ¬ w > 2 := by omega
  rcases hns with h | h
  · subst h
    simp only [Decomp.seek, hw', if_false, seekComp]; rfl
  · cases lazy with
    | none => simp only [Decomp.seek, hw', if_false, seekComp]; rfl
    | some b' =>
      simp only [shouldU] at h
      simp only [Decomp.seek, hw', if_false, seekComp, h, Bool.false_eq_true]; rfl

theorem seek_switch {s : Decomp σ} {t : Int} {w : Nat} {b' : Bytes} (hl : s.loose = none) (hw : w ≤ 2)
    (hlz : s.lazy = some b') (hsu : shouldU s.pos t w = true) :
    Decomp.seek dc s t w = ({ s with loose := some (Ref.step ⟨b', s.pos⟩ (.seek t w)).1 }, (Ref.step ⟨b', s.pos⟩ (.seek t w)).2) := by
  obtain ⟨cs, d, buf, pos, lazy, loose, chunk, fuel⟩ := s
  simp only at hl hlz hsu
  subst hl hlz
  have hw' : ¬ w > 2 := by omega
  simp only [shouldU] at hsu
  simp only [Decomp.seek, hw', if_false, hsu, if_true]

theorem seek_loose {s : Decomp σ} {t : Int} {w : Nat} {r : Ref} (hl : s.loose = some r) :
    Decomp.seek dc s t w = ({ s with loose := some (r.step (.seek t w)).1 }, (r.step (.seek t w)).2) := by
  obtain ⟨cs, d, buf, pos, lazy, loose, chunk, fuel⟩ := s
  simp only at hl
  subst hl
  by_cases hw : w > 2
  · have h0 : ¬ w = 0 := by omega
    have h1 : ¬ w = 1 := by omega
    have h2 : ¬ w = 2 := by omega
    simp only [Decomp.seek, hw, if_true, Ref.step, h0, h1, h2, if_false]
  · simp only [Decomp.seek, hw, if_false]

theorem read_loose {s : Decomp σ} {n : Int} {r : Ref} (hl : s.loose = some r) :
    Decomp.read dc s n = ({ s with loose := some (r.step (.read n)).1 }, (r.step (.read n)).2) := by
  simp only [Decomp.read, hl]

def compTarget (pos : Nat) (t : Int) (w : Nat) : Int := if w = 1 then Int.ofNat pos + t else t

theorem seekComp_err {s : Decomp σ} {t : Int} {w : Nat} (h : w = 2 ∨ compTarget s.pos t w < 0) :
    (seekComp dc s t w).1 = s ∧ ∃ er, (seekComp dc s t w).2 = .err er := by
  unfold compTarget at h
  by_cases h2 : w = 2
  · simp only [seekComp, h2, if_true]; exact ⟨trivial, _, rfl⟩
  · have h3 := h.resolve_left h2
    simp only [seekComp, h2, if_false, h3, if_true]; exact ⟨trivial, _, rfl⟩

theorem seekComp_ok (hc : 0 < chunk) (hf : e.length + b.length + 4 ≤ fuel) {s : Decomp σ} {c : Nat}
    (h : CInv dc e b V chunk fuel lazy s c) {t : Int} {w : Nat} (h2 : w ≠ 2) (h0 : 0 ≤ compTarget s.pos t w) :
    ∃ c', CInv dc e b V chunk fuel lazy (seekComp dc s t w).1 c' ∧
      (seekComp dc s t w).1.pos = min (compTarget s.pos t w).toNat b.length ∧
      (seekComp dc s t w).2 = .pos ((seekComp dc s t w).1.pos : Nat) := by
  unfold compTarget at h0 ⊢
  simp only [seekComp, h2, if_false]
  generalize (if w = 1 then Int.ofNat s.pos + t else t) = tgt at h0 ⊢
  have h0' : ¬ tgt < 0 := by omega
  simp only [h0', if_false]
  obtain ⟨hr1, hr2, hr3⟩ := reset_spec dc e b V chunk fuel lazy h
  by_cases hz : tgt = 0
  · simp only [hz, if_true]
    refine ⟨0, hr1, ?_, ?_⟩
    · rw [hr3]; simp
    · rw [hr2, hr3]; rfl
  · simp only [hz, if_false]
    by_cases hlt : tgt.toNat < s.pos
    · simp only [hlt, if_true]
      generalize Decomp.reset dc s = r at hr1 hr2 hr3
      obtain ⟨s2, o⟩ := r
      simp only at hr1 hr2 hr3
      subst hr2
      simp only
      exact skipTo_spec dc e b V chunk fuel lazy hc hf tgt.toNat s2.fuel s2 0 hr1 (by omega)
        (by have := hr1.fuel_eq; omega)
    · simp only [hlt, if_false]
      exact skipTo_spec dc e b V chunk fuel lazy hc hf tgt.toNat s.fuel s c h (by omega)
        (by have := h.fuel_eq; omega)


theorem ref_step_data (r : Ref) (cmd : Cmd) : (r.step cmd).1.data = r.data := by
  cases cmd with
  | read n => rfl
  | tell => rfl
  | seek t w =>
    simp only [Ref.step]
    split
    · split <;> rfl
    · split
      · rfl
      · split <;> rfl

theorem ref_step_eta (d : Bytes) (p : Nat) (cmd : Cmd) :
    (Ref.step ⟨d, p⟩ cmd).1 = ⟨d, (Ref.step ⟨d, p⟩ cmd).1.pos⟩ := by
  have := ref_step_data ⟨d, p⟩ cmd
  generalize (Ref.step ⟨d, p⟩ cmd).1 = r at *
  obtain ⟨d', p'⟩ := r
  simp only at this
  rw [this]

def OutOk (o : Out) : Prop := (∀ out, o = .data out → ∃ q k, out = slice b q k) ∧ (∀ n, o = .pos n → 0 ≤ n)

theorem ref_out_ok (p : Nat) (cmd : Cmd) : OutOk b (Ref.step ⟨b, p⟩ cmd).2 := by
  cases cmd with
  | read n => exact ⟨fun out h => ⟨_, _, (Out.data.inj h).symm⟩, fun n h => (by cases h)⟩
  | tell => exact ⟨fun out h => (by cases h), fun n h => (by cases h; exact Int.natCast_nonneg _)⟩
  | seek t w =>
    simp only [Ref.step]
    refine ⟨?_, ?_⟩
    · intro out h
      split at h
      · split at h <;> cases h
      · split at h
        · cases h
        · split at h <;> cases h
    · intro n h
      split at h
      · split at h
        · cases h
        · cases h; omega
      · split at h
        · cases h; exact Int.natCast_nonneg _
        · split at h
          · cases h; exact Int.natCast_nonneg _
          · cases h


theorem read_comp (hc : 0 < chunk) (hf : e.length + b.length + 4 ≤ fuel) {s : Decomp σ} {c : Nat}
    (h : CInv dc e b V chunk fuel lazy s c) (n : Int) :
    ∃ c', CInv dc e b V chunk fuel lazy (s.read dc n).1 c' ∧
      (s.read dc n).2 = (Ref.step ⟨b, s.pos⟩ (.read n)).2 ∧
      (s.read dc n).1.pos = (Ref.step ⟨b, s.pos⟩ (.read n)).1.pos := by
  have hple : s.pos ≤ b.length := by have := (V.bounds _ _ _ h.R).2; omega
  simp only [Decomp.read, h.loose, Ref.step]
  by_cases hn : n < 0
  · simp only [hn, if_true]
    obtain ⟨c', h1, h2, h3⟩ := readAllGo_spec dc e b V chunk fuel lazy hc hf s.fuel s c [] h
      (by have := h.fuel_eq; omega)
    refine ⟨c', h1, ?_, ?_⟩
    · rw [h2, List.nil_append]
    · rw [h3, slice_length]; omega
  · simp only [hn, if_false]
    by_cases h0 : n = 0
    · subst h0
      refine ⟨c, h, ?_, ?_⟩
      · simp [slice]
      · simp [slice]
    · simp only [h0, if_false]
      exact readSome_spec dc e b V chunk fuel lazy hc hf h (by omega)

theorem seek_comp_cases (hc : 0 < chunk) (hf : e.length + b.length + 4 ≤ fuel) (hl : lazy = none ∨ lazy = some b)
    {s : Decomp σ} {c : Nat} (h : CInv dc e b V chunk fuel lazy s c) (t : Int) {w : Nat} (hw : w ≤ 2) :
    (lazy = some b ∧ shouldU s.pos t w = true ∧
      (s.seek dc t w).1.loose = some ⟨b, (Ref.step ⟨b, s.pos⟩ (.seek t w)).1.pos⟩ ∧
      (s.seek dc t w).2 = (Ref.step ⟨b, s.pos⟩ (.seek t w)).2) ∨
    ((lazy = none ∨ shouldU s.pos t w = false) ∧ (w = 2 ∨ compTarget s.pos t w < 0) ∧
      (s.seek dc t w).1 = s ∧ ∃ er, (s.seek dc t w).2 = .err er) ∨
    ((lazy = none ∨ shouldU s.pos t w = false) ∧ w ≠ 2 ∧ 0 ≤ compTarget s.pos t w ∧
      ∃ c', CInv dc e b V chunk fuel lazy (s.seek dc t w).1 c' ∧
        (s.seek dc t w).1.pos = min (compTarget s.pos t w).toNat b.length ∧
        (s.seek dc t w).2 = .pos ((s.seek dc t w).1.pos : Nat)) := by
  by_cases hsw : lazy = some b ∧ shouldU s.pos t w = true
  · left
    obtain ⟨h1, h2⟩ := hsw
    rw [seek_switch dc h.loose hw (h.lazy_eq.trans h1) h2]
    refine ⟨h1, h2, ?_, rfl⟩
    show some (Ref.step ⟨b, s.pos⟩ (.seek t w)).1 = _
    rw [← ref_step_eta]
  · right
    have hns : lazy = none ∨ shouldU s.pos t w = false := by
      rcases hl with h1 | h1
      · exact Or.inl h1
      · right
        cases hsu : shouldU s.pos t w with
        | false => rfl
        | true => exact absurd ⟨h1, hsu⟩ hsw
    rw [seek_noswitch dc h.loose hw (by rw [h.lazy_eq]; exact hns)]
    by_cases herr : w = 2 ∨ compTarget s.pos t w < 0
    · left; exact ⟨hns, herr, seekComp_err dc herr⟩
    · right
      have h2 : w ≠ 2 := fun h => herr (Or.inl h)
      have h0 : 0 ≤ compTarget s.pos t w := by
        apply Int.not_lt.mp
        exact fun h => herr (Or.inr h)
      exact ⟨hns, h2, h0, seekComp_ok dc e b V chunk fuel lazy hc hf h h2 h0⟩


theorem ref_seek_comp (p : Nat) (t : Int) {w : Nat} (hw : w ≤ 2) (h2 : w ≠ 2) (h0 : 0 ≤ compTarget p t w) :
    (Ref.step ⟨b, p⟩ (.seek t w)).2 = .pos ((compTarget p t w).toNat : Nat) ∧
      (Ref.step ⟨b, p⟩ (.seek t w)).1.pos = (compTarget p t w).toNat := by
  have hw01 : w = 0 ∨ w = 1 := by omega
  rcases hw01 with h | h
  · subst h
    simp only [compTarget] at h0 ⊢
    have h1 : ¬ ((0 : Nat) = 1) := by omega
    simp only [h1, if_false] at h0 ⊢
    have h3 : ¬ t < 0 := by omega
    simp only [Ref.step, if_true, h3, if_false]
    refine ⟨?_, trivial⟩
    congr 1; omega
  · subst h
    simp only [compTarget, if_true] at h0 ⊢
    have h1 : ¬ ((1 : Nat) = 0) := by omega
    simp only [Ref.step, h1, if_false, if_true]
    exact ⟨trivial, trivial⟩

def Good (s : Decomp σ) (p : Nat) : Prop :=
  (∃ c, CInv dc e b V chunk fuel lazy s c ∧ s.pos = p) ∨ s.loose = some ⟨b, p⟩

theorem step_loose {s : Decomp σ} {p : Nat} (h : s.loose = some ⟨b, p⟩) (cmd : Cmd) :
    (s.step dc cmd).1.loose = some ⟨b, (Ref.step ⟨b, p⟩ cmd).1.pos⟩ ∧
      (s.step dc cmd).2 = (Ref.step ⟨b, p⟩ cmd).2 := by
  cases cmd with
  | read n =>
    simp only [Decomp.step, read_loose dc h]
    exact ⟨by rw [← ref_step_eta], trivial⟩
  | seek t w =>
    simp only [Decomp.step, seek_loose dc h]
    exact ⟨by rw [← ref_step_eta], trivial⟩
  | tell =>
    simp only [Decomp.step, Decomp.tell, h, Ref.step]
    exact ⟨trivial, trivial⟩

theorem step_sim (hc : 0 < chunk) (hf : e.length + b.length + 4 ≤ fuel) (hl : lazy = none ∨ lazy = some b)
    {s : Decomp σ} {p : Nat} (h : Good dc e b V chunk fuel lazy s p) (cmd : Cmd)
    (hr : cmd.inRange b.length p = true) (hw2 : lazy = none → cmd.isWhence2 = false) :
    (s.step dc cmd).2 = (Ref.step ⟨b, p⟩ cmd).2 ∧
      Good dc e b V chunk fuel lazy (s.step dc cmd).1 (Ref.step ⟨b, p⟩ cmd).1.pos := by
  rcases h with ⟨c, h, hp⟩ | h
  · subst hp
    cases cmd with
    | read n =>
      obtain ⟨c', h1, h2, h3⟩ := read_comp dc e b V chunk fuel lazy hc hf h n
      exact ⟨h2, Or.inl ⟨c', h1, h3⟩⟩
    | tell =>
      simp only [Decomp.step, Decomp.tell, h.loose, Ref.step]
      exact ⟨trivial, Or.inl ⟨c, h, rfl⟩⟩
    | seek t w =>
      simp only [Cmd.inRange, Bool.and_eq_true, decide_eq_true_eq] at hr
      obtain ⟨⟨hw, hr0⟩, hr1⟩ := hr
      simp only [Decomp.step]
      rcases seek_comp_cases dc e b V chunk fuel lazy hc hf hl h t hw with
        ⟨_, _, h3, h4⟩ | ⟨hns, herr, _, _⟩ | ⟨hns, h2, h0, c', h3, h4, h5⟩
      · exact ⟨h4, Or.inr h3⟩
      · exfalso
        have h2 : w ≠ 2 := by
          rcases hns with h1 | h1
          · have := hw2 h1
            intro h2; subst h2; simp [Cmd.isWhence2] at this
          · intro h2; subst h2; simp [shouldU] at h1
        have hst : compTarget s.pos t w = seekTarget b.length s.pos t w := by
          simp only [compTarget, seekTarget, h2, if_false]
        rcases herr with h | h
        · exact h2 h
        · omega
      · have hst : compTarget s.pos t w = seekTarget b.length s.pos t w := by
          simp only [compTarget, seekTarget, h2, if_false]
        obtain ⟨r1, r2⟩ := ref_seek_comp b s.pos t hw h2 h0
        have hpos : (s.seek dc t w).1.pos = (compTarget s.pos t w).toNat := by
          have hcast : Int.ofNat b.length = (b.length : Int) := rfl
          rw [h4]; omega
        refine ⟨?_, Or.inl ⟨c', h3, ?_⟩⟩
        · rw [h5, r1, hpos]
        · rw [hpos, r2]
  · obtain ⟨h1, h2⟩ := step_loose dc b h cmd
    exact ⟨h2, Or.inr h1⟩

theorem step_safe (hc : 0 < chunk) (hf : e.length + b.length + 4 ≤ fuel) (hl : lazy = none ∨ lazy = some b)
    {s : Decomp σ} {p : Nat} (h : Good dc e b V chunk fuel lazy s p) (cmd : Cmd) :
    (∃ p', Good dc e b V chunk fuel lazy (s.step dc cmd).1 p') ∧ OutOk b (s.step dc cmd).2 := by
  rcases h with ⟨c, h, hp⟩ | h
  · subst hp
    cases cmd with
    | read n =>
      obtain ⟨c', h1, h2, h3⟩ := read_comp dc e b V chunk fuel lazy hc hf h n
      refine ⟨⟨_, Or.inl ⟨c', h1, rfl⟩⟩, ?_⟩
      simp only [Decomp.step, h2]; exact ref_out_ok b _ _
    | tell =>
      simp only [Decomp.step, Decomp.tell, h.loose]
      exact ⟨⟨_, Or.inl ⟨c, h, rfl⟩⟩, fun out h => (by cases h), fun n h => (by cases h; exact Int.natCast_nonneg _)⟩
    | seek t w =>
      simp only [Decomp.step]
      by_cases hw : w ≤ 2
      · rcases seek_comp_cases dc e b V chunk fuel lazy hc hf hl h t hw with
          ⟨_, _, h3, h4⟩ | ⟨_, _, h3, er, h4⟩ | ⟨_, _, _, c', h3, h4, h5⟩
        · refine ⟨⟨_, Or.inr h3⟩, ?_⟩
          rw [h4]; exact ref_out_ok b _ _
        · rw [h3, h4]
          exact ⟨⟨_, Or.inl ⟨c, h, rfl⟩⟩, fun out h => (by cases h), fun n h => (by cases h)⟩
        · refine ⟨⟨_, Or.inl ⟨c', h3, rfl⟩⟩, ?_⟩
          rw [h5]
          exact ⟨fun out h => (by cases h), fun n h => (by cases h; exact Int.natCast_nonneg _)⟩
      · have hw' : w > 2 := by omega
        simp only [Decomp.seek, hw', if_true]
        exact ⟨⟨_, Or.inl ⟨c, h, rfl⟩⟩, fun out h => (by cases h), fun n h => (by cases h)⟩
  · obtain ⟨h1, h2⟩ := step_loose dc b h cmd
    refine ⟨⟨_, Or.inr h1⟩, ?_⟩
    rw [h2]; exact ref_out_ok b _ _


theorem init_good (pre post : Bytes) :
    Good dc e b V chunk fuel lazy (Decomp.init dc (pre ++ e ++ post) pre.length e.length lazy chunk fuel) 0 := by
  refine Or.inl ⟨0, ⟨rfl, V.init_R, ⟨⟨pre, post, rfl, rfl⟩, rfl, rfl, Nat.zero_le _⟩, ?_, ?_, rfl, rfl, rfl, rfl⟩, rfl⟩
  · show 0 = 0 + (dc.tail dc.init).length
    rw [V.init_tail]; rfl
  · show dc.tail dc.init = slice e 0 (dc.tail dc.init).length
    rw [V.init_tail]; rfl

theorem run_sim (hc : 0 < chunk) (hf : e.length + b.length + 4 ≤ fuel) (hl : lazy = none ∨ lazy = some b) :
    ∀ (prog : List Cmd) (s : Decomp σ) (p : Nat), Good dc e b V chunk fuel lazy s p →
      inRangeProg ⟨b, p⟩ prog = true → (lazy = none → ∀ c ∈ prog, c.isWhence2 = false) →
      runDecomp dc s prog = runRef ⟨b, p⟩ prog := by
  intro prog
  induction prog with
  | nil => intro s p _ _ _; rfl
  | cons cmd cs ih =>
    intro s p h hr hw
    simp only [inRangeProg, Bool.and_eq_true] at hr
    obtain ⟨hr1, hr2⟩ := hr
    obtain ⟨h1, h2⟩ := step_sim dc e b V chunk fuel lazy hc hf hl h cmd hr1
      (fun hn => hw hn cmd (List.mem_cons_self ..))
    rw [ref_step_eta] at hr2
    have := ih _ _ h2 hr2 (fun hn c hc => hw hn c (List.mem_cons_of_mem _ hc))
    simp only [runDecomp, runRef]
    rw [h1, this, ← ref_step_eta]

theorem run_safe (hc : 0 < chunk) (hf : e.length + b.length + 4 ≤ fuel) (hl : lazy = none ∨ lazy = some b) :
    ∀ (prog : List Cmd) (s : Decomp σ) (p : Nat), Good dc e b V chunk fuel lazy s p →
      ∀ o ∈ runDecomp dc s prog, OutOk b o := by
  intro prog
  induction prog with
  | nil => intro s p _ o ho; simp [runDecomp] at ho
  | cons cmd cs ih =>
    intro s p h o ho
    obtain ⟨⟨p', h1⟩, h2⟩ := step_safe dc e b V chunk fuel lazy hc hf hl h cmd
    simp only [runDecomp, List.mem_cons] at ho
    rcases ho with ho | ho
    · rw [ho]; exact h2
    · exact ih _ _ h1 o ho

end

end DecompProof

/-- in-range programs on a compressed object (with the lazily materialised loose copy available, or without
    seeks relative to the end) behave exactly like `io.BytesIO` over the content -/
theorem decomp_refines_ref {σ : Type} (dc : Decoder σ) (e b pre post : Bytes) (V : dc.Valid e b)
    (chunk fuel : Nat) (hc : 0 < chunk) (hf : e.length + b.length + 4 ≤ fuel)
    (lazy : Option Bytes) (hl : lazy = none ∨ lazy = some b)
    (prog : List Cmd) (hr : inRangeProg ⟨b, 0⟩ prog = true)
    (hw : lazy = none → ∀ c ∈ prog, c.isWhence2 = false) :
    runDecomp dc (Decomp.init dc (pre ++ e ++ post) pre.length e.length lazy chunk fuel) prog = runRef ⟨b, 0⟩ prog := by
  exact DecompProof.run_sim dc e b V chunk fuel lazy hc hf hl prog _ 0
    (DecompProof.init_good dc e b V chunk fuel lazy pre post) hr hw

/-- whatever the program (out-of-range seeks included), no read returns anything but a contiguous piece of the object,
    and every reported position is non-negative -/
theorem decomp_reads_within {σ : Type} (dc : Decoder σ) (e b pre post : Bytes) (V : dc.Valid e b)
    (chunk fuel : Nat) (hc : 0 < chunk) (hf : e.length + b.length + 4 ≤ fuel)
    (lazy : Option Bytes) (hl : lazy = none ∨ lazy = some b) (prog : List Cmd) :
    ∀ o ∈ runDecomp dc (Decomp.init dc (pre ++ e ++ post) pre.length e.length lazy chunk fuel) prog,
      (∀ out, o = .data out → ∃ q k, out = slice b q k) ∧ (∀ n, o = .pos n → 0 ≤ n) := by
  exact DecompProof.run_safe dc e b V chunk fuel lazy hc hf hl prog _ 0
    (DecompProof.init_good dc e b V chunk fuel lazy pre post)

end Dos.Stream
