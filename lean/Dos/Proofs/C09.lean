/-
Deduplication (C09) at Level B.
-/
import Dos.Proofs.Step

namespace Dos

/-- total size of the pack files -/
def packBytes (t : Tab) (s : St) : Nat := sumBy (fun p => segsLen t p.2) s.packs
/-- total stored length of the indexed objects -/
def refBytes (s : St) : Nat := sumBy (·.len) s.rows

/-! ### helpers -/

theorem filter_key_length_le_one {α} (f : α → Nat) (k : Nat) (l : List α) (h : (l.map f).Nodup) :
    (l.filter (fun x => f x == k)).length ≤ 1 := by
  induction l with
  | nil => simp
  | cons a as ih =>
    rw [List.map_cons, List.nodup_cons] at h
    have ih' := ih h.2
    by_cases ha : f a = k
    · have hnone : as.filter (fun x => f x == k) = [] := by
        rw [List.filter_eq_nil_iff]
        intro x hx hxk
        simp only [beq_iff_eq] at hxk
        exact h.1 (List.mem_map.mpr ⟨x, hx, by rw [hxk, ha]⟩)
      simp [ha, hnone]
    · simp [ha, ih']

theorem nodup_eraseDups_aux (n : Nat) : ∀ l : List Nat, l.length ≤ n → l.eraseDups.Nodup := by
  induction n with
  | zero =>
    intro l hl
    have : l = [] := List.length_eq_zero_iff.mp (by omega)
    subst this
    simp
  | succ n ih =>
    intro l hl
    cases l with
    | nil => simp
    | cons a as =>
      rw [List.eraseDups_cons, List.nodup_cons]
      constructor
      · rw [List.mem_eraseDups]
        simp
      · apply ih
        have := List.length_filter_le (fun b => !b == a) as
        simp only [List.length_cons] at hl
        omega

theorem nodup_eraseDups (l : List Nat) : l.eraseDups.Nodup := nodup_eraseDups_aux l.length l (Nat.le_refl _)

theorem sumBy_append {α} (f : α → Nat) (a b : List α) : sumBy f (a ++ b) = sumBy f a + sumBy f b := by
  induction a with
  | nil => simp [sumBy]
  | cons x xs ih => simp [sumBy, ih, Nat.add_assoc]

/-- `setPack` replaces the first occurrence, which is the one `getPack` reads -/
theorem sumBy_setPack (t : Tab) (ps : Packs) (p : Nat) (segs : List Seg) :
    sumBy (fun q => segsLen t q.2) (setPack ps p segs) + segsLen t ((getPack ps p).getD []) =
      sumBy (fun q => segsLen t q.2) ps + segsLen t segs := by
  induction ps with
  | nil => simp [setPack, getPack, sumBy]
  | cons e rest ih =>
    obtain ⟨q, gs⟩ := e
    by_cases h : q = p
    · simp only [setPack, getPack, h, if_true, sumBy, Option.getD_some]
      omega
    · simp only [setPack, getPack, h, if_false, sumBy]
      omega

/-- the byte balance between two states -/
def Bal (t : Tab) (s s' : St) : Prop := packBytes t s' + refBytes s = packBytes t s + refBytes s'

theorem Bal.refl (t : Tab) (s : St) : Bal t s s := rfl

theorem Bal.trans {t : Tab} {a b c : St} (h1 : Bal t a b) (h2 : Bal t b c) : Bal t a c := by
  unfold Bal at *
  omega

theorem packBytes_ensurePack (t : Tab) (ps : Packs) (p : Nat) :
    sumBy (fun q => segsLen t q.2) (ensurePack ps p) = sumBy (fun q => segsLen t q.2) ps := by
  unfold ensurePack
  cases hg : getPack ps p with
  | some segs => rfl
  | none =>
    have := sumBy_setPack t ps p []
    simp only [hg, Option.getD_none, segsLen_nil, Nat.add_zero] at this
    exact this

theorem bal_openCur (t : Tab) (s : St) : Bal t s (openCur t s) := by
  unfold Bal packBytes refBytes openCur
  simp only [packBytes_ensurePack]

theorem bal_writeObj_new (t : Tab) (s : St) (c : Nat) (z : Bool) (h : hasRow s c = false) :
    Bal t s (writeObj t s c z) := by
  have hany : (s.rows.any (fun x => x.key == c)) = false := by
    rw [Bool.eq_false_iff]
    intro ha
    rw [List.any_eq_true] at ha
    obtain ⟨x, hx, hk⟩ := ha
    simp only [beq_iff_eq] at hk
    have : hasRow s c = true := hasRow_iff.mpr (List.mem_map.mpr ⟨x, hx, hk⟩)
    rw [h] at this
    exact absurd this (by simp)
  unfold Bal packBytes refBytes writeObj
  simp only [insertIgnore, hany]
  have := sumBy_setPack t s.packs (choosePack t s)
    ((getPack s.packs (choosePack t s)).getD [] ++ [(⟨c, z⟩ : Seg)])
  simp only [segsLen_append, segsLen_cons, segsLen_nil] at this
  simp only [Bool.false_eq_true, if_false, sumBy_append, sumBy]
  omega

theorem bal_addPackedStep (t : Tab) (z : Bool) (s : St) (c : Nat) : Bal t s (addPackedStep t z true s c) := by
  unfold addPackedStep
  simp only [Bool.true_and]
  split
  · exact bal_openCur t s
  · rename_i h
    exact (bal_openCur t s).trans (bal_writeObj_new t _ c z (by simpa using h))

theorem bal_foldl (t : Tab) (z : Bool) (cs : List Nat) (s : St) :
    Bal t s (cs.foldl (addPackedStep t z true) s) := by
  induction cs generalizing s with
  | nil => exact Bal.refl t s
  | cons c rest ih => exact (bal_addPackedStep t z s c).trans (ih _)

/-- packs may only gain empty entries -/
def Same (s s' : St) : Prop :=
  s'.rows = s.rows ∧
  (∀ p segs, getPack s.packs p = some segs → getPack s'.packs p = some segs) ∧
  (∀ p segs, getPack s'.packs p = some segs → getPack s.packs p = some segs ∨ segs = [])

theorem Same.refl (s : St) : Same s s := ⟨rfl, fun _ _ h => h, fun _ _ h => Or.inl h⟩

theorem Same.trans {a b c : St} (h1 : Same a b) (h2 : Same b c) : Same a c := by
  refine ⟨h2.1.trans h1.1, fun p segs h => h2.2.1 p segs (h1.2.1 p segs h), ?_⟩
  intro p segs h
  rcases h2.2.2 p segs h with h | h
  · exact h1.2.2 p segs h
  · exact Or.inr h

theorem same_openCur (t : Tab) (s : St) : Same s (openCur t s) := by
  refine ⟨rfl, ?_, ?_⟩
  · intro p segs h
    show getPack (ensurePack s.packs (choosePack t s)) p = some segs
    unfold ensurePack
    cases hg : getPack s.packs (choosePack t s) with
    | some _ => exact h
    | none =>
      have hne : p ≠ choosePack t s := by
        intro he
        rw [he, hg] at h
        exact absurd h (by simp)
      simp only
      rw [getPack_setPack_ne _ _ _ _ hne]
      exact h
  · intro p segs h
    change getPack (ensurePack s.packs (choosePack t s)) p = some segs at h
    unfold ensurePack at h
    cases hg : getPack s.packs (choosePack t s) with
    | some _ =>
      rw [hg] at h
      exact Or.inl h
    | none =>
      rw [hg] at h
      simp only at h
      by_cases hp : p = choosePack t s
      · subst hp
        rw [getPack_setPack_eq] at h
        right
        exact (Option.some.inj h).symm
      · rw [getPack_setPack_ne _ _ _ _ hp] at h
        exact Or.inl h

theorem same_foldl (t : Tab) (z : Bool) (cs : List Nat) (s : St) (hk : ∀ c ∈ cs, hasRow s c = true) :
    Same s (cs.foldl (addPackedStep t z true) s) := by
  induction cs generalizing s with
  | nil => exact Same.refl s
  | cons c rest ih =>
    have hc : hasRow s c = true := hk c (by simp)
    have hstep : addPackedStep t z true s c = openCur t s := by
      unfold addPackedStep
      simp [hc]
    rw [List.foldl_cons, hstep]
    refine (same_openCur t s).trans (ih _ ?_)
    intro c' hc'
    rw [hasRow_openCur]
    exact hk c' (by simp [hc'])

theorem mem_insertIgnore_of_mem {rows : List Row} (row : Row) {r : Row} (h : r ∈ rows) : r ∈ insertIgnore rows row := by
  unfold insertIgnore
  split
  · exact h
  · exact List.mem_append_left _ h

theorem rows_kept_step (t : Tab) (z nh : Bool) (s : St) (c : Nat) :
    ∀ r ∈ s.rows, r ∈ (addPackedStep t z nh s c).rows := by
  intro r hr
  unfold addPackedStep
  simp only
  split
  · exact hr
  · exact mem_insertIgnore_of_mem _ hr

theorem rows_kept_foldl (t : Tab) (z nh : Bool) (cs : List Nat) (s : St) :
    ∀ r ∈ s.rows, r ∈ (cs.foldl (addPackedStep t z nh) s).rows := by
  induction cs generalizing s with
  | nil => intro r hr; exact hr
  | cons c rest ih =>
    intro r hr
    exact ih _ r (rows_kept_step t z nh s c r hr)

theorem findLoose_map_fix (l : List (Nat × Nat)) (c : Nat) (h : findLoose l c ≠ none) :
    findLoose (l.map (fun e => if e.1 = c then (c, c) else e)) c = some c := by
  induction l with
  | nil => simp [findLoose] at h
  | cons e rest ih =>
    by_cases he : e.1 = c
    · simp [findLoose, he]
    · have h' : findLoose rest c ≠ none := by
        simpa [findLoose, List.find?_cons, he] using h
      have := ih h'
      simpa [findLoose, List.find?_cons, he] using this

/-! ### the theorems -/

/-- at most one index entry per key -/
theorem one_row_per_key {t : Tab} {s : St} (inv : Inv t s) (k : Nat) : (s.rows.filter (fun r => r.key == k)).length ≤ 1 := by
  exact filter_key_length_le_one (·.key) k s.rows inv.keys_nodup

/-- at most one loose file per key -/
theorem one_loose_per_key {t : Tab} {s : St} (inv : Inv t s) (k : Nat) : (s.loose.filter (fun e => e.1 == k)).length ≤ 1 := by
  exact filter_key_length_le_one (·.1) k s.loose inv.loose_nodup

/-- the listing is duplicate-free and lists exactly the keys the container has:
    the object count is the number of distinct contents -/
theorem listAll_spec (s : St) : (listAll s).Nodup ∧ ∀ k, k ∈ listAll s ↔ has s k = true := by
  refine ⟨nodup_eraseDups _, ?_⟩
  intro k
  unfold listAll dedup
  rw [List.mem_eraseDups, List.mem_append]
  simp only [has, Bool.or_eq_true, hasRow_iff, hasLoose_iff, rowKeys, looseKeys]

/-- re-adding a content whose loose copy was damaged leaves a correct copy in place
    (no invariant assumed about the loose files) -/
theorem addLoose_repairs (s : St) (c : Nat) : findLoose (addLoose s c).loose c = some c := by
  unfold addLoose
  cases hf : findLoose s.loose c with
  | none =>
    simp only
    unfold findLoose at hf ⊢
    rw [Option.map_eq_none_iff] at hf
    simp [List.find?_append, hf]
  | some c' =>
    simp only
    split
    · rename_i h
      rw [hf, h]
    · exact findLoose_map_fix _ _ (by rw [hf]; simp)

/-- adding a content that is already there (undamaged) changes nothing -/
theorem addLoose_known {t : Tab} {s : St} (inv : Inv t s) {c : Nat} (h : hasLoose s c = true) : addLoose s c = s := by
  unfold addLoose
  cases hf : findLoose s.loose c with
  | none =>
    rw [findLoose_none_iff] at hf
    exact absurd (hasLoose_iff.mp h) hf
  | some c' =>
    have := inv.loose_ok _ (findLoose_some hf)
    simp only at this
    simp [this]

/-- with `no_holes` a direct-to-pack call leaves no unreferenced bytes behind:
    the packs grow by exactly the stored length of the newly indexed objects -/
theorem addPacked_noHoles_no_junk {t : Tab} {s : St} (inv : Inv t s) (cs : List Nat) (z : Bool) :
    packBytes t (addPacked t s cs z true) + refBytes s = packBytes t s + refBytes (addPacked t s cs z true) := by
  have _ := inv
  show Bal t s (addPacked t s cs z true)
  unfold addPacked
  split
  · exact Bal.refl t s
  · exact (bal_openCur t s).trans (bal_foldl t z _ _)

/-- with `no_holes`, content that is already indexed does not grow any pack and adds no row -/
theorem addPacked_noHoles_known {t : Tab} {s : St} (inv : Inv t s) (cs : List Nat) (z : Bool)
    (hk : ∀ c ∈ cs, hasRow s c = true) :
    (addPacked t s cs z true).rows = s.rows ∧
    (∀ p segs, getPack s.packs p = some segs → getPack (addPacked t s cs z true).packs p = some segs) ∧
    (∀ p segs, getPack (addPacked t s cs z true).packs p = some segs → getPack s.packs p = some segs ∨ segs = []) := by
  have _ := inv
  show Same s (addPacked t s cs z true)
  unfold addPacked
  split
  · exact Same.refl s
  · exact (same_openCur t s).trans (same_foldl t z _ _ (fun c hc => by rw [hasRow_openCur]; exact hk c hc))

/-- whatever the options, a direct-to-pack call never creates a second row for a key and never changes an existing row -/
theorem addPacked_rows_kept {t : Tab} {s : St} (cs : List Nat) (z nh : Bool) :
    ∀ r ∈ s.rows, r ∈ (addPacked t s cs z nh).rows := by
  intro r hr
  unfold addPacked
  split
  · exact hr
  · exact rows_kept_foldl t z nh _ _ r hr

end Dos
