/-
Helper lemmas for Dos/Proofs/FdOProofs.lean: descriptor accounting along the optioned pack-writer compilers
(`do_fsync`, `do_commit`), generic in the flags (the flags only add or remove actions that open and close nothing).
-/
import Dos.Fd
import Dos.IOImport
import Dos.IOPackAllO
import Dos.Proofs.FdAux
import Dos.Proofs.FdProofs

namespace Dos.Fd
open Dos Dos.IO

theorem G_sessionEndO {x0 : XSt} {l : List Act} {q : Nat} (h : G x0 l [q]) (rows : List Row) (trunc f c : Bool) :
    G x0 (l ++ sessionEndO q rows trunc f c) [] := by
  have e : l ++ sessionEndO q rows trunc f c =
      ((l ++ ((if trunc then [Act.pkTruncate q 0] else []) ++ rows.map .sqlInsert ++
          (if f then [.pkFlush q, .pkFsync q, .dirSync] else [])))
        ++ [.pkClose q, .unlock q]) ++ (if (c && !rows.isEmpty) = true then [.sqlCommit] else []) := by
    simp [sessionEndO]
  rw [e]
  refine G_neutrals _ (G_close (G_neutrals _ h ?_)) ?_
  · intro a ha
    simp only [List.mem_append, List.mem_map] at ha
    rcases ha with (ha | ⟨r, _, rfl⟩) | ha
    · cases trunc <;> simp at ha
      subst ha; rfl
    · rfl
    · cases f <;> simp at ha
      rcases ha with rfl | rfl | rfl <;> rfl
  · intro a ha
    split at ha
    · simp at ha; subst ha; rfl
    · simp at ha

theorem G_sessionEndCleanO {x0 : XSt} {l : List Act} {q : Nat} (h : G x0 l [q]) (rows : List Row) (cl f : Bool) :
    G x0 (l ++ sessionEndCleanO q rows cl f) [] := by
  unfold sessionEndCleanO
  rw [← List.append_assoc]
  refine G_neutrals _ (G_sessionEndO h rows false f true) ?_
  intro a ha
  split at ha
  · simp only [List.mem_map] at ha
    obtain ⟨r, _, rfl⟩ := ha
    rfl
  · simp at ha

theorem WG_wOpenO {x0 : XSt} {w : WSt} (t : Tab) (nh f c : Bool) (h : WG x0 w) : WG x0 (wOpenO t nh f c w) := by
  unfold WG at h ⊢
  unfold wOpenO
  simp only
  cases hop : w.openP with
  | none =>
    rw [hop] at h
    simp only [Option.toList] at h ⊢
    exact G_open h _
  | some q =>
    rw [hop] at h
    simp only [Option.toList] at h
    simp only
    split
    · simp only [Option.toList]; exact h
    · simp only [Option.toList]
      exact G_open (G_sessionEndO h _ _ _ _) _

theorem WG_wOpenPAO {x0 : XSt} {w : WSt} (t : Tab) (cl f : Bool) (h : WG x0 w) : WG x0 (wOpenPAO t cl f w) := by
  unfold WG at h ⊢
  unfold wOpenPAO
  simp only
  cases hop : w.openP with
  | none =>
    rw [hop] at h
    simp only [Option.toList] at h ⊢
    exact G_open h _
  | some q =>
    rw [hop] at h
    simp only [Option.toList] at h
    simp only
    split
    · simp only [Option.toList]; exact h
    · simp only [Option.toList]
      exact G_open (G_sessionEndCleanO h _ _ _) _

theorem WG_wAddPackedO {x0 : XSt} {w : WSt} (t : Tab) (z nh rt f cm : Bool) (c : Nat) (h : WG x0 w) :
    WG x0 (wAddPackedO t z nh rt f cm w c) := by
  have h1 := WG_wOpenO t nh f cm h
  unfold wAddPackedO
  generalize wOpenO t nh f cm w = w1 at h1
  unfold WG at h1 ⊢
  simp only
  split
  · split
    · exact h1
    · simp only
      refine G_neutrals _ h1 ?_
      intro a ha
      simp at ha; rcases ha with rfl | rfl <;> rfl
  · simp only
    refine G_neutrals _ h1 ?_
    intro a ha
    simp at ha; subst ha; rfl

theorem WG_wPackLooseCO {x0 : XSt} {w : WSt} (t : Tab) (cl f : Bool) (cz : Nat × Bool) (h : WG x0 w) :
    WG x0 (wPackLooseCO t cl f w cz) := by
  have h1 := WG_wOpenPAO t cl f h
  unfold wPackLooseCO
  generalize wOpenPAO t cl f w = w1 at h1
  unfold WG at h1 ⊢
  simp only
  refine G_neutrals _ h1 ?_
  intro a ha
  simp at ha; rcases ha with rfl | rfl <;> rfl

theorem G_callActs {x0 : XSt} (h1 : x0.sandbox = none) (h2 : x0.locks = []) (t : Tab) (s : St) (cs : List Nat)
    (z nh rt f cm : Bool) : G x0 (callActs t s cs z nh rt f cm).1 [] := by
  unfold callActs
  cases cs with
  | nil => exact G_nil h1 h2
  | cons c cs =>
    simp only
    have h := WG_foldl (wAddPackedO t z nh rt f cm) (fun w a hw => WG_wAddPackedO t z nh rt f cm a hw) (c :: cs) _
      (WG_init h1 h2 s)
    generalize List.foldl (wAddPackedO t z nh rt f cm) _ (c :: cs) = w at h
    unfold WG at h
    cases hop : w.openP with
    | none => rw [hop] at h; exact h
    | some q => rw [hop] at h; exact G_sessionEndO h _ _ _ _

theorem G_packAllO {x0 : XSt} (h1 : x0.sandbox = none) (h2 : x0.locks = []) (t : Tab) (s : St) (order : List Nat)
    (zs : List Bool) (cl f : Bool) : G x0 (actsPackAllO t s order zs cl f) [] := by
  unfold actsPackAllO
  cases order with
  | nil => exact G_nil h1 h2
  | cons c cs =>
    simp only
    have h := WG_foldl (wPackLooseCO t cl f) (fun w a hw => WG_wPackLooseCO t cl f a hw) ((c :: cs).zip zs) _
      (WG_init h1 h2 s)
    generalize List.foldl (wPackLooseCO t cl f) _ ((c :: cs).zip zs) = w at h
    unfold WG at h
    cases hop : w.openP with
    | none => rw [hop] at h; exact h
    | some q => rw [hop] at h; exact G_sessionEndCleanO h _ _ _

theorem G_repackPack {x0 : XSt} (h1 : x0.sandbox = none) (h2 : x0.locks = []) (t : Tab) (s : St) (p : Nat)
    (zs : List Bool) : G x0 (actsRepackPack t s p zs) [] := by
  unfold actsRepackPack
  simp only
  split
  · split
    · have := G_neutral (G_nil h1 h2) (a := Act.pkUnlink p) rfl
      simpa using this
    · exact G_nil h1 h2
  · have g0 := G_open (G_nil h1 h2) tmpId
    generalize rebuild t tmpId _ zs 0 = gr
    obtain ⟨gs, rs'⟩ := gr
    simp only
    have e : [Act.lock tmpId, .pkOpen tmpId, .pkRead p] ++ gs.map (fun g => Act.pkWrite tmpId g) ++
        [.pkFlush tmpId, .pkFsync tmpId, .dirSync, .pkClose tmpId, .unlock tmpId] ++
        rs'.map .sqlMove ++ [.sqlCommit, .pkUnlink p, .pkLink tmpId p, .sqlRepoint tmpId p, .sqlCommit, .pkUnlink tmpId]
        = (([] ++ [Act.lock tmpId, .pkOpen tmpId]) ++
            ([Act.pkRead p] ++ gs.map (fun g => Act.pkWrite tmpId g) ++ [.pkFlush tmpId, .pkFsync tmpId, .dirSync])
            ++ [.pkClose tmpId, .unlock tmpId]) ++
          (rs'.map .sqlMove ++ [.sqlCommit, .pkUnlink p, .pkLink tmpId p, .sqlRepoint tmpId p, .sqlCommit, .pkUnlink tmpId]) := by
      simp
    rw [e]
    refine G_neutrals _ (G_close (G_neutrals _ g0 ?_)) ?_
    · intro a ha
      simp only [List.mem_append, List.mem_map] at ha
      rcases ha with (ha | ⟨r, _, rfl⟩) | ha
      · simp at ha; subst ha; rfl
      · rfl
      · simp at ha
        rcases ha with rfl | rfl | rfl <;> rfl
    · intro a ha
      simp only [List.mem_append, List.mem_map] at ha
      rcases ha with ⟨r, _, rfl⟩ | ha
      · rfl
      · simp at ha
        rcases ha with rfl | rfl | rfl | rfl | rfl | rfl <;> rfl

/-- a balanced, bounded list followed by a bounded list is bounded -/
theorem held_take_append_bound {a b : List Act} {B : Int} (ha0 : held a = 0)
    (ha : ∀ k, 0 ≤ held (a.take k) ∧ held (a.take k) ≤ B) (hb : ∀ k, 0 ≤ held (b.take k) ∧ held (b.take k) ≤ B)
    (k : Nat) : 0 ≤ held ((a ++ b).take k) ∧ held ((a ++ b).take k) ≤ B := by
  rw [List.take_append, held_app]
  by_cases hk : k ≤ a.length
  · have : k - a.length = 0 := by omega
    rw [this]
    have := ha k
    simp only [List.take_zero, held]
    omega
  · rw [List.take_of_length_le (by omega), ha0]
    have := hb (k - a.length)
    omega

theorem callsGo_spec (t : Tab) (z nh rt f : Bool) (calls : List (List Nat)) : ∀ s : St,
    held (callsGo t z nh rt f s calls) = 0 ∧
    ∀ k, 0 ≤ held ((callsGo t z nh rt f s calls).take k) ∧ held ((callsGo t z nh rt f s calls).take k) ≤ 2 := by
  induction calls with
  | nil => intro s; simp [callsGo, held]
  | cons cs rest ih =>
    intro s
    simp only [callsGo]
    have g := G_callActs (x0 := ofSt s) rfl rfl t s cs z nh rt f false
    have g0 : held (callActs t s cs z nh rt f false).1 = 0 := by simpa using g.hd
    have gb : ∀ k, 0 ≤ held ((callActs t s cs z nh rt f false).1.take k) ∧
        held ((callActs t s cs z nh rt f false).1.take k) ≤ 2 :=
      fun k => (g.pre _ (List.take_prefix k _)).2.2
    obtain ⟨i0, ib⟩ := ih (callActs t s cs z nh rt f false).2
    refine ⟨by rw [held_app, g0, i0]; rfl, held_take_append_bound g0 gb ib⟩

end Dos.Fd
