/-
`import_objects` batching: whatever the memory budget and the order of arrival, every object handed over by the source ends
up in exactly one direct-to-pack call; no call is empty; a call either streams one object that exceeds the budget or writes a
batch that was held in memory and whose total size is within the budget (the memory bound of the operation).
-/
import Dos.ImportCache

namespace Dos.ImportCache

/-! ### helper lemmas -/

theorem total_nil (sz : Nat → Nat) : total sz [] = 0 := rfl

theorem total_cons (sz : Nat → Nat) (a : Nat) (l : List Nat) : total sz (a :: l) = sz a + total sz l := by
  simp [total]

theorem total_append (sz : Nat → Nat) (l₁ l₂ : List Nat) : total sz (l₁ ++ l₂) = total sz l₁ + total sz l₂ := by
  simp [total]

theorem total_singleton (sz : Nat → Nat) (a : Nat) : total sz [a] = sz a := by
  simp [total]

theorem le_total_of_mem (sz : Nat → Nat) {l : List Nat} {c : Nat} (h : c ∈ l) : sz c ≤ total sz l := by
  induction l with
  | nil => cases h
  | cons a l ih =>
    rw [total_cons]
    cases h with
    | head => omega
    | tail _ h' => have := ih h'; omega

/-- what a finished call looks like, relative to the prefix of the stream consumed so far -/
def GoodCall (sz : Nat → Nat) (budget : Nat) (pre : List Nat) (call : List Nat) : Prop :=
  call ≠ [] ∧
  ((∃ c, call = [c] ∧ sz c > budget) ∨ (total sz call ≤ budget ∧ ∀ c ∈ call, sz c ≤ budget)) ∧
  call.Sublist pre

theorem GoodCall.mono {sz : Nat → Nat} {budget : Nat} {pre : List Nat} {call : List Nat}
    (h : GoodCall sz budget pre call) (l : List Nat) : GoodCall sz budget (pre ++ l) call :=
  ⟨h.1, h.2.1, h.2.2.trans (List.sublist_append_left pre l)⟩

/-- the loop invariant: `pre` is the part of the stream consumed so far -/
structure Inv (sz : Nat → Nat) (budget : Nat) (st : CSt) (pre : List Nat) : Prop where
  perm : (st.calls.flatten ++ st.cache).Perm pre
  size_eq : st.size = total sz st.cache
  size_le : st.size ≤ budget
  cache_le : ∀ c ∈ st.cache, sz c ≤ budget
  calls_good : ∀ call ∈ st.calls, GoodCall sz budget pre call
  cache_sub : st.cache.Sublist pre

theorem Inv.init (sz : Nat → Nat) (budget : Nat) :
    Inv sz budget { calls := [], cache := [], size := 0 } [] := by
  refine ⟨?_, ?_, ?_, ?_, ?_, ?_⟩ <;> simp [total]

theorem Inv.step {sz : Nat → Nat} {budget : Nat} {st : CSt} {pre : List Nat}
    (h : Inv sz budget st pre) (c : Nat) : Inv sz budget (step sz budget st c) (pre ++ [c]) := by
  unfold Dos.ImportCache.step
  by_cases h1 : sz c > budget
  · -- streamed on its own
    rw [if_pos h1]
    refine ⟨?_, h.size_eq, h.size_le, h.cache_le, ?_, ?_⟩
    · show ((st.calls ++ [[c]]).flatten ++ st.cache).Perm (pre ++ [c])
      have e : (st.calls ++ [[c]]).flatten ++ st.cache = st.calls.flatten ++ ([c] ++ st.cache) := by simp
      rw [e]
      have p1 : (st.calls.flatten ++ ([c] ++ st.cache)).Perm (st.calls.flatten ++ (st.cache ++ [c])) :=
        List.Perm.append_left _ List.perm_append_comm
      have p2 : (st.calls.flatten ++ (st.cache ++ [c])).Perm (pre ++ [c]) := by
        rw [← List.append_assoc]
        exact List.Perm.append_right _ h.perm
      exact p1.trans p2
    · intro call hc
      have hc' : call ∈ st.calls ++ [[c]] := hc
      rcases List.mem_append.1 hc' with hc'' | hc''
      · exact (h.calls_good call hc'').mono [c]
      · have : call = [c] := by simpa using hc''
        subst this
        exact ⟨by simp, Or.inl ⟨c, rfl, h1⟩, List.sublist_append_right pre [c]⟩
    · exact h.cache_sub.trans (List.sublist_append_left pre [c])
  · rw [if_neg h1]
    have h1' : sz c ≤ budget := Nat.le_of_not_gt h1
    by_cases h2 : st.size + sz c > budget
    · -- flush, start a new cache
      rw [if_pos h2]
      refine ⟨?_, ?_, ?_, ?_, ?_, ?_⟩
      · show ((if st.cache.isEmpty then st.calls else st.calls ++ [st.cache]).flatten ++ [c]).Perm (pre ++ [c])
        apply List.Perm.append_right
        by_cases he : st.cache.isEmpty
        · rw [if_pos he]
          have : st.cache = [] := List.isEmpty_iff.1 he
          have hp := h.perm
          rw [this, List.append_nil] at hp
          exact hp
        · rw [if_neg he]
          have e : (st.calls ++ [st.cache]).flatten = st.calls.flatten ++ st.cache := by simp
          rw [e]; exact h.perm
      · show sz c = total sz [c]
        rw [total_singleton]
      · exact h1'
      · intro x hx
        have : x = c := by simpa using hx
        subst this; exact h1'
      · intro call hc
        have hc' : call ∈ (if st.cache.isEmpty then st.calls else st.calls ++ [st.cache]) := hc
        by_cases he : st.cache.isEmpty
        · rw [if_pos he] at hc'
          exact (h.calls_good call hc').mono [c]
        · rw [if_neg he] at hc'
          rcases List.mem_append.1 hc' with hc'' | hc''
          · exact (h.calls_good call hc'').mono [c]
          · have : call = st.cache := by simpa using hc''
            subst this
            refine ⟨?_, Or.inr ⟨?_, h.cache_le⟩, h.cache_sub.trans (List.sublist_append_left pre [c])⟩
            · intro hnil; apply he; rw [hnil]; rfl
            · rw [← h.size_eq]; exact h.size_le
      · exact List.sublist_append_right pre [c]
    · -- append to the cache
      rw [if_neg h2]
      refine ⟨?_, ?_, ?_, ?_, ?_, ?_⟩
      · show (st.calls.flatten ++ (st.cache ++ [c])).Perm (pre ++ [c])
        rw [← List.append_assoc]
        exact List.Perm.append_right _ h.perm
      · show st.size + sz c = total sz (st.cache ++ [c])
        rw [total_append, total_singleton, h.size_eq]
      · show st.size + sz c ≤ budget
        omega
      · intro x hx
        have hx' : x ∈ st.cache ++ [c] := hx
        rcases List.mem_append.1 hx' with hx'' | hx''
        · exact h.cache_le x hx''
        · have : x = c := by simpa using hx''
          subst this; exact h1'
      · intro call hc
        exact (h.calls_good call hc).mono [c]
      · show (st.cache ++ [c]).Sublist (pre ++ [c])
        exact List.Sublist.append h.cache_sub (List.Sublist.refl _)

theorem Inv.foldl {sz : Nat → Nat} {budget : Nat} (l : List Nat) :
    ∀ {st : CSt} {pre : List Nat}, Inv sz budget st pre →
      Inv sz budget (l.foldl (Dos.ImportCache.step sz budget) st) (pre ++ l) := by
  induction l with
  | nil => intro st pre h; simpa using h
  | cons c l ih =>
    intro st pre h
    have := ih (h.step c)
    simpa [List.foldl_cons, List.append_assoc] using this

theorem Inv.final (sz : Nat → Nat) (budget : Nat) (stream : List Nat) :
    Inv sz budget (stream.foldl (Dos.ImportCache.step sz budget) { calls := [], cache := [], size := 0 }) stream := by
  have := Inv.foldl stream (Inv.init sz budget)
  simpa using this

/-- the properties of the calls made by `finish` in a state satisfying the invariant -/
theorem Inv.finish_perm {sz : Nat → Nat} {budget : Nat} {st : CSt} {pre : List Nat}
    (h : Inv sz budget st pre) : (finish st).flatten.Perm pre := by
  unfold finish
  by_cases he : st.cache.isEmpty
  · rw [if_pos he]
    have : st.cache = [] := List.isEmpty_iff.1 he
    have hp := h.perm
    rw [this, List.append_nil] at hp
    exact hp
  · rw [if_neg he]
    have e : (st.calls ++ [st.cache]).flatten = st.calls.flatten ++ st.cache := by simp
    rw [e]; exact h.perm

theorem Inv.finish_good {sz : Nat → Nat} {budget : Nat} {st : CSt} {pre : List Nat}
    (h : Inv sz budget st pre) : ∀ call ∈ finish st, GoodCall sz budget pre call := by
  intro call hc
  unfold finish at hc
  by_cases he : st.cache.isEmpty
  · rw [if_pos he] at hc
    exact h.calls_good call hc
  · rw [if_neg he] at hc
    rcases List.mem_append.1 hc with hc' | hc'
    · exact h.calls_good call hc'
    · have : call = st.cache := by simpa using hc'
      subst this
      refine ⟨?_, Or.inr ⟨?_, h.cache_le⟩, h.cache_sub⟩
      · intro hnil; apply he; rw [hnil]; rfl
      · rw [← h.size_eq]; exact h.size_le

/-! ### the theorems -/

/-- every object exactly once: the calls, concatenated, are a permutation of the stream -/
theorem importCalls_perm (sz : Nat → Nat) (budget : Nat) (stream : List Nat) :
    (importCalls sz budget stream).flatten.Perm stream :=
  (Inv.final sz budget stream).finish_perm

theorem importCalls_mem (sz : Nat → Nat) (budget : Nat) (stream : List Nat) (c : Nat) :
    c ∈ (importCalls sz budget stream).flatten ↔ c ∈ stream :=
  (importCalls_perm sz budget stream).mem_iff

theorem importCalls_nonempty (sz : Nat → Nat) (budget : Nat) (stream : List Nat) :
    ∀ call ∈ importCalls sz budget stream, call ≠ [] :=
  fun call hc => ((Inv.final sz budget stream).finish_good call hc).1

/-- the memory bound: a call is one streamed object larger than the budget, or a cached batch within the budget -/
theorem importCalls_bounded (sz : Nat → Nat) (budget : Nat) (stream : List Nat) :
    ∀ call ∈ importCalls sz budget stream,
      (∃ c, call = [c] ∧ sz c > budget) ∨ (total sz call ≤ budget ∧ ∀ c ∈ call, sz c ≤ budget) :=
  fun call hc => ((Inv.final sz budget stream).finish_good call hc).2.1

/-- relative order inside the batches and among the streamed objects is the order of arrival -/
theorem importCalls_sublist (sz : Nat → Nat) (budget : Nat) (stream : List Nat) :
    ∀ call ∈ importCalls sz budget stream, call.Sublist stream :=
  fun call hc => ((Inv.final sz budget stream).finish_good call hc).2.2

theorem foldl_large (sz : Nat → Nat) (budget : Nat) (l : List Nat) :
    ∀ (pre : List Nat), total sz pre + total sz l ≤ budget →
      l.foldl (step sz budget) { calls := [], cache := pre, size := total sz pre }
        = { calls := [], cache := pre ++ l, size := total sz (pre ++ l) } := by
  induction l with
  | nil => intro pre _; simp
  | cons c l ih =>
    intro pre h
    rw [total_cons] at h
    have hs : step sz budget { calls := [], cache := pre, size := total sz pre } c
        = { calls := [], cache := pre ++ [c], size := total sz (pre ++ [c]) } := by
      unfold step
      have h1 : ¬ sz c > budget := by omega
      have h2 : ¬ total sz pre + sz c > budget := by omega
      simp only [if_neg h1, if_neg h2, total_append, total_singleton]
    rw [List.foldl_cons, hs, ih (pre ++ [c]) (by rw [total_append, total_singleton]; omega)]
    simp

/-- with a budget that everything fits in, there is one call with everything, in order (or none for an empty stream) -/
theorem importCalls_large (sz : Nat → Nat) (budget : Nat) (stream : List Nat) (h : total sz stream ≤ budget) :
    importCalls sz budget stream = if stream.isEmpty then [] else [stream] := by
  unfold importCalls
  have := foldl_large sz budget stream [] (by rw [total_nil]; omega)
  rw [total_nil] at this
  rw [this]
  simp [finish]

theorem foldl_tiny (sz : Nat → Nat) (budget : Nat) (l : List Nat) (h : ∀ c ∈ l, sz c > budget) :
    ∀ (cs : List (List Nat)),
      l.foldl (step sz budget) { calls := cs, cache := [], size := 0 }
        = { calls := cs ++ l.map (fun c => [c]), cache := [], size := 0 } := by
  induction l with
  | nil => intro cs; simp
  | cons c l ih =>
    intro cs
    have hc : sz c > budget := h c (by simp)
    have hs : step sz budget { calls := cs, cache := [], size := 0 } c
        = { calls := cs ++ [[c]], cache := [], size := 0 } := by
      unfold step
      simp only [if_pos hc]
    rw [List.foldl_cons, hs, ih (fun x hx => h x (List.mem_cons_of_mem _ hx))]
    simp

/-- with a budget smaller than every object, each object is streamed on its own, in order -/
theorem importCalls_tiny (sz : Nat → Nat) (budget : Nat) (stream : List Nat) (h : ∀ c ∈ stream, sz c > budget) :
    importCalls sz budget stream = stream.map (fun c => [c]) := by
  unfold importCalls
  rw [foldl_tiny sz budget stream h []]
  simp [finish]

end Dos.ImportCache
