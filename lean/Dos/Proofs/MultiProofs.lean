/-
C08: whatever a handle queried before and whatever the other handles did since, a handle finds every object the
container holds, with the right content, and lists it.
-/
import Dos.Multi
import Dos.Proofs.Step
import Dos.Proofs.C10

namespace Dos.Multi
open Dos

/-! ### snapshots -/

theorem getSnap_setSnap_cases {m : MSt} {h h' : Nat} {v : Option (List Row)} {rows : List Row}
    (hg : getSnap (setSnap m h v) h' = some rows) : v = some rows ∨ getSnap m h' = some rows := by
  simp only [getSnap, setSnap, List.getD_eq_getElem?_getD, List.getElem?_set] at hg ⊢
  split at hg
  · split at hg
    · left; simpa using hg
    · simp at hg
  · right; exact hg

@[simp] theorem setSnap_disk (m : MSt) (h : Nat) (v : Option (List Row)) : (setSnap m h v).disk = m.disk := rfl

/-- the invariant of a reachable multi-handle state -/
structure MInv (t : Tab) (m : MSt) : Prop where
  inv : Inv t m.disk
  snap_sub : ∀ h rows, getSnap m h = some rows → ∀ r ∈ rows, r ∈ m.disk.rows

theorem minv_setSnap {t : Tab} {m : MSt} (mi : MInv t m) (h : Nat) {v : Option (List Row)}
    (hv : ∀ rows, v = some rows → ∀ r ∈ rows, r ∈ m.disk.rows) : MInv t (setSnap m h v) := by
  refine ⟨mi.inv, ?_⟩
  intro h' rows hg
  rcases getSnap_setSnap_cases hg with h1 | h1
  · exact hv rows h1
  · exact mi.snap_sub h' rows h1

theorem minv_setSnap_cur {t : Tab} {m : MSt} (mi : MInv t m) (h : Nat) :
    MInv t (setSnap m h (some m.disk.rows)) :=
  minv_setSnap mi h (by intro rows hr; cases hr; exact fun r hr => hr)

theorem minv_disk {t : Tab} {m : MSt} (mi : MInv t m) {d : St} (hd : Inv t d)
    (hrows : ∀ r ∈ m.disk.rows, r ∈ d.rows) : MInv t { m with disk := d } :=
  ⟨hd, fun h rows hg r hr => hrows r (mi.snap_sub h rows hg r hr)⟩

theorem pin_disk (m : MSt) (h : Nat) : (pin m h).2.disk = m.disk := by
  unfold pin; split <;> rfl

theorem minv_pin {t : Tab} {m : MSt} (mi : MInv t m) (h : Nat) : MInv t (pin m h).2 := by
  unfold pin; split
  · exact mi
  · exact minv_setSnap_cur mi h

theorem pin_sub {t : Tab} {m : MSt} (mi : MInv t m) (h : Nat) : ∀ r ∈ (pin m h).1, r ∈ m.disk.rows := by
  unfold pin; split
  · next rows hg => exact mi.snap_sub h rows hg
  · exact fun r hr => hr

theorem lookup_disk (m : MSt) (h k : Nat) : (lookup m h k).2.disk = m.disk := by
  unfold lookup
  simp only
  split
  · exact pin_disk m h
  · split
    · exact pin_disk m h
    · split <;> simp [pin_disk]

theorem minv_lookup {t : Tab} {m : MSt} (mi : MInv t m) (h k : Nat) : MInv t (lookup m h k).2 := by
  have hp := minv_pin mi h
  have h2 : MInv t (setSnap (pin m h).2 h (some m.disk.rows)) := by
    have := minv_setSnap_cur hp h
    rwa [pin_disk] at this
  unfold lookup
  simp only
  split
  · exact hp
  · split
    · exact hp
    · split <;> exact h2

theorem qHas_snd (m : MSt) (h k : Nat) : (qHas m h k).2 = (lookup m h k).2 := by
  unfold qHas; split <;> simp_all

theorem minv_mstep {t : Tab} {m m' : MSt} (mi : MInv t m) {op : MOp} (hs : mstep t m op = some m') :
    MInv t m' := by
  cases op with
  | add h c =>
    simp only [mstep, Option.some.injEq] at hs; subst hs
    refine minv_disk mi (inv_addLoose mi.inv c) ?_
    intro r hr
    unfold addLoose
    split
    · split <;> exact hr
    · exact hr
  | pack mode order zs cl =>
    simp only [mstep] at hs
    split at hs
    · next d hd =>
      simp only [Option.some.injEq] at hs; subst hs
      exact minv_setSnap (minv_disk mi (inv_packAll mi.inv hd) (packAll_rows_kept hd)) 0 (by intro rows hr; cases hr)
    · cases hs
  | clean =>
    simp only [mstep, Option.some.injEq] at hs; subst hs
    exact minv_setSnap (minv_disk mi (inv_clean mi.inv) (fun r hr => hr)) 0
      (by intro rows hr; cases hr; exact fun r hr => hr)
  | qHas h k =>
    simp only [mstep, Option.some.injEq] at hs; subst hs
    rw [qHas_snd]; exact minv_lookup mi h k
  | qGet h k =>
    simp only [mstep, Option.some.injEq] at hs; subst hs
    exact minv_lookup mi h k
  | qList h =>
    simp only [mstep, Option.some.injEq] at hs; subst hs
    exact minv_setSnap_cur mi h

theorem minv_mrun {t : Tab} {ops : List MOp} {m m' : MSt} (mi : MInv t m) (hr : mrun t m ops = some m') :
    MInv t m' := by
  induction ops generalizing m with
  | nil => simp only [mrun, Option.some.injEq] at hr; subst hr; exact mi
  | cons op ops ih =>
    simp only [mrun] at hr
    split at hr
    · cases hr
    · next m1 h1 => exact ih (minv_mstep mi h1) hr

theorem minv_init (t : Tab) {tg : Nat} (htg : 0 < tg) (n : Nat) : MInv t (MSt.init tg n) := by
  refine ⟨inv_empty t htg, ?_⟩
  intro h rows hg
  simp only [getSnap, MSt.init, List.getD_eq_getElem?_getD, List.getElem?_replicate] at hg
  split at hg <;> simp at hg

/-! ### lookups -/

theorem lookup_found {t : Tab} (wf : t.WF) {m : MSt} (mi : MInv t m) (h k : Nat) (hk : has m.disk k = true) :
    (lookup m h k).1 ≠ .missing ∧ contentOf t (lookup m h k).2 (lookup m h k).1 = some k ∧
    contentOf t m (lookup m h k).1 = some k := by
  have hsub := pin_sub mi h
  have hrow : ∀ (m1 : MSt) (r : Row), m1.disk = m.disk → r ∈ m.disk.rows → r.key = k →
      contentOf t m1 (.packed r) = some k := by
    intro m1 r hd hr hkey
    simp only [contentOf, hd]
    rw [readRow_of_rowOK wf (mi.inv.rows_ok r hr), hkey]
  unfold lookup
  simp only
  split
  · next r hf =>
    obtain ⟨hm, hkey⟩ := findRow_some hf
    exact ⟨by simp, hrow _ r (pin_disk m h) (hsub r hm) hkey, hrow m r rfl (hsub r hm) hkey⟩
  · split
    · next c hl =>
      have := mi.inv.loose_ok _ (findLoose_some hl)
      simp only at this
      subst this
      exact ⟨by simp, rfl, rfl⟩
    · next hl =>
      split
      · next r hf =>
        obtain ⟨hm, hkey⟩ := findRow_some hf
        exact ⟨by simp, hrow _ r (by simp [pin_disk]) hm hkey, hrow m r rfl hm hkey⟩
      · next hf =>
        exfalso
        have h1 := findRow_none_iff.mp hf
        have h2 := findLoose_none_iff.mp hl
        simp only [has, Bool.or_eq_true] at hk
        rcases hk with hk | hk
        · exact h1 (hasRow_iff.mp hk)
        · exact h2 (hasLoose_iff.mp hk)

theorem lookup_missing {t : Tab} {m : MSt} (mi : MInv t m) (h k : Nat) (hk : has m.disk k = false) :
    (lookup m h k).1 = .missing := by
  simp only [has, Bool.or_eq_false_iff] at hk
  obtain ⟨h1, h2⟩ := hk
  have hr : findRow m.disk.rows k = none :=
    findRow_none_iff.mpr (fun hm => by simp [hasRow_iff.mpr hm] at h1)
  have hl : findLoose m.disk.loose k = none :=
    findLoose_none_iff.mpr (fun hm => by simp [hasLoose_iff.mpr hm] at h2)
  have hp : findRow (pin m h).1 k = none := by
    rw [findRow_none_iff]
    intro hm
    obtain ⟨r, hr1, hr2⟩ := List.mem_map.mp hm
    exact (findRow_none_iff.mp hr) (List.mem_map.mpr ⟨r, pin_sub mi h r hr1, hr2⟩)
  unfold lookup
  simp only [hp, hl, hr]

theorem mem_qList {m : MSt} {h k : Nat} : k ∈ (qList m h).1 ↔ has m.disk k = true := by
  simp only [qList, List.mem_eraseDups, List.mem_append, has, Bool.or_eq_true, hasRow_iff, hasLoose_iff, looseKeys]

/-! ### the theorems -/

/-- all histories of add (any handle) / pack / clean (packing handle) / queries (any handle) over `n` handles -/
theorem handle_sees_acked {t : Tab} (wf : t.WF) {n tg : Nat} (htg : 0 < tg) {ops : List MOp} {m : MSt}
    (hrun : mrun t (MSt.init tg n) ops = some m) (h k : Nat) (hk : has m.disk k = true) :
    (lookup m h k).1 ≠ .missing ∧
    contentOf t (lookup m h k).2 (lookup m h k).1 = some k ∧
    (qHas m h k).1 = true ∧ (qGet t m h k).1 = some k ∧
    k ∈ (qList m h).1 := by
  have mi := minv_mrun (minv_init t htg n) hrun
  obtain ⟨h1, h2, h3⟩ := lookup_found wf mi h k hk
  refine ⟨h1, h2, ?_, ?_, mem_qList.mpr hk⟩
  · unfold qHas
    split
    · next m' he => rw [he] at h1; exact absurd rfl h1
    · rfl
  · simpa [qGet] using h3

set_option linter.unusedVariables false in
/-- and nothing else: a key the container does not hold is reported missing by every handle -/
theorem handle_no_ghost {t : Tab} (wf : t.WF) {n tg : Nat} (htg : 0 < tg) {ops : List MOp} {m : MSt}
    (hrun : mrun t (MSt.init tg n) ops = some m) (h k : Nat) (hk : has m.disk k = false) :
    (lookup m h k).1 = .missing ∧ k ∉ (qList m h).1 := by
  have mi := minv_mrun (minv_init t htg n) hrun
  refine ⟨lookup_missing mi h k hk, ?_⟩
  rw [mem_qList, hk]; simp

set_option linter.unusedVariables false in
/-- the disk part of a multi-handle history is a Level-B history: the invariant holds throughout -/
theorem multi_inv {t : Tab} (wf : t.WF) {n tg : Nat} (htg : 0 < tg) {ops : List MOp} {m : MSt}
    (hrun : mrun t (MSt.init tg n) ops = some m) : Inv t m.disk :=
  (minv_mrun (minv_init t htg n) hrun).inv

end Dos.Multi
