/-
C04: under every interleaving of loose writers, readers and a packer that respects the ordering discipline, a reader
returns exactly the content of every key that was acknowledged before its query started; and the packer programs of the
library respect the discipline whatever the other actors do in between.
-/
import Dos.Conc
import Dos.IOSpec
import Dos.Proofs.IOGood
import Dos.Proofs.IOPacks
import Dos.Proofs.ConcAux

namespace Dos.Conc
open Dos Dos.IO

/-- every acknowledged key stays available: as a complete loose file or through a committed row whose bytes are flushed -/
theorem acked_available {t : Tab} (wf : t.WF) {s : St} (inv : Inv t s) (hb : Bounded s) (wkeys rkeys : List Nat)
    (hw : ∀ k ∈ wkeys, k < garbage) (sched : List Ev)
    (hd : disciplined t (CSt.init s wkeys rkeys) sched = true) :
    ∀ k ∈ (crun t (CSt.init s wkeys rkeys) sched).acked,
      k ∈ (crun t (CSt.init s wkeys rkeys) sched).x.rows.map (·.key) ∨
      hasLooseX (crun t (CSt.init s wkeys rkeys) sched).x k = true := by
  have _ := hb
  have _ := hw
  intro k hk
  exact (cinv_crun sched _ (cinv_init wf inv wkeys rkeys) hd).acked k hk

/-- C04, readers: whatever the schedule, a finished reader has returned exactly the content of its key if the key was
    acknowledged (or existed) when its query started - never missing, never partial, never another object's bytes -/
theorem reader_correct {t : Tab} (wf : t.WF) {s : St} (inv : Inv t s) (hb : Bounded s) (wkeys rkeys : List Nat)
    (hw : ∀ k ∈ wkeys, k < garbage) (sched : List Ev)
    (hd : disciplined t (CSt.init s wkeys rkeys) sched = true) :
    ∀ r ∈ (crun t (CSt.init s wkeys rkeys) sched).readers, r.pc = 9 → r.key ∈ r.ackedAtStart →
      r.res = some (.ok r.key) := by
  have _ := hb
  have _ := hw
  intro r hr hp ha
  rcases ((cinv_crun sched _ (cinv_init wf inv wkeys rkeys) hd).rd r hr).p9 hp with h | ⟨_, h⟩
  · exact h
  · exact absurd ha h

/-- a finished reader never returns wrong bytes, acknowledged key or not -/
theorem reader_never_wrong {t : Tab} (wf : t.WF) {s : St} (inv : Inv t s) (hb : Bounded s) (wkeys rkeys : List Nat)
    (hw : ∀ k ∈ wkeys, k < garbage) (sched : List Ev)
    (hd : disciplined t (CSt.init s wkeys rkeys) sched = true) :
    ∀ r ∈ (crun t (CSt.init s wkeys rkeys) sched).readers, r.pc = 9 →
      r.res = some (.ok r.key) ∨ r.res = some .missing := by
  have _ := hb
  have _ := hw
  intro r hr hp
  rcases ((cinv_crun sched _ (cinv_init wf inv wkeys rkeys) hd).rd r hr).p9 hp with h | ⟨h, _⟩
  · exact Or.inl h
  · exact Or.inr h

/-- is the event one of the packer's -/
def Ev.isPk : Ev → Bool
  | .pk _ => true
  | _ => false

def pkActs : List Ev → List Act
  | [] => []
  | .pk a :: es => a :: pkActs es
  | _ :: es => pkActs es

theorem cstep_sync' {t : Tab} {g : CSt} {y : XSt} {e : Ev} (he : ∀ a, e ≠ .pk a) (hs : SyncX g.x y) :
    SyncX (cstep t g e).x y := by
  obtain ⟨h1, h2, h3⟩ := cstep_sync (t := t) g he
  exact ⟨h1.trans hs.1, h2.trans hs.2.1, h3.trans hs.2.2⟩

/-- a schedule whose packer events are a prefix of a sequentially allowed action list is disciplined: the other actors
    do not touch the packs, the index or the open transaction -/
theorem disciplined_of_allowed {t : Tab} : ∀ (sched : List Ev) (g : CSt) (y : XSt) (acts rest : List Act),
    SyncX g.x y → allowedAll t y acts = true → acts = pkActs sched ++ rest → disciplined t g sched = true := by
  intro sched
  induction sched with
  | nil => intro g y acts rest _ _ _; rfl
  | cons e es ih =>
    intro g y acts rest hs ha he
    cases e with
    | pk a =>
      simp only [pkActs, List.cons_append] at he
      subst he
      simp only [allowedAll, Bool.and_eq_true] at ha
      simp only [disciplined, Bool.and_eq_true]
      refine ⟨by rw [pkAllowed_sync hs]; exact ha.1, ?_⟩
      exact ih _ (exec y a) _ rest (exec_sync hs a) ha.2 rfl
    | _ =>
      simp only [pkActs] at he
      simp only [disciplined, Bool.true_and]
      exact ih _ y acts rest (cstep_sync' (by intro a; simp) hs) ha he

/-- `pack_all_loose` (compiled when it lists the loose folder in state `s`, with or without per-pack cleaning) respects
    the discipline under EVERY interleaving with writers and readers: every schedule whose packer events are a prefix of its
    action list is disciplined -/
theorem packAll_disciplined {t : Tab} (wf : t.WF) {s : St} (inv : Inv t s) (hb : Bounded s) (wkeys rkeys : List Nat)
    (hw : ∀ k ∈ wkeys, k < garbage) (order : List Nat) (zs : List Bool) (cl : Bool)
    (ho : ∀ k ∈ order, hasLoose s k = true ∧ hasRow s k = false) (hn : order.Nodup) (hz : zs.length = order.length)
    (sched : List Ev) (hp : ∃ rest, actsPackAll t s order zs cl = pkActs sched ++ rest) :
    disciplined t (CSt.init s wkeys rkeys) sched = true := by
  have _ := hb
  have _ := hw
  have _ := ho
  have _ := hn
  have _ := hz
  obtain ⟨rest, hp⟩ := hp
  exact disciplined_of_allowed sched _ (ofSt s) _ rest ⟨rfl, rfl, rfl⟩ (allowed_packAll wf inv order zs cl) hp

/-- `clean_storage` (unlinking loose files of keys that are in the committed index when it looks) respects the discipline
    under every interleaving -/
theorem clean_disciplined {t : Tab} {s : St} (wkeys rkeys : List Nat) (order : List Nat)
    (ho : ∀ k ∈ order, hasRow s k = true) (sched : List Ev) (hp : ∃ rest, actsClean s order = pkActs sched ++ rest) :
    disciplined t (CSt.init s wkeys rkeys) sched = true := by
  obtain ⟨rest, hp⟩ := hp
  exact disciplined_of_allowed sched _ (ofSt s) _ rest ⟨rfl, rfl, rfl⟩ (allowed_clean s order ho) hp

end Dos.Conc
