/-
Helpers for C15 (`Dos/Proofs/BackupProofs.lean`): the inductive invariant `BInv` of a backup run over disciplined
schedules in which the live SQLite side files are not copied.
-/
import Dos.Backup
import Dos.IOSpec
import Dos.Proofs.ConcAux
import Dos.Proofs.ConcProofs
import Dos.Proofs.Validate

namespace Dos.Backup
open Dos Dos.IO Dos.Conc

/-! ### what one event does to the fields of the disk -/

theorem exec_target (x : XSt) (a : Act) : (exec x a).target = x.target := by
  cases a <;> simp only [exec] <;> (try split) <;> rfl

theorem exec_rows_of_ne (x : XSt) (a : Act) (h : ∀ _ : a = .sqlCommit, False) : (exec x a).rows = x.rows := by
  cases a <;> simp only [exec] <;> (try split) <;> first | rfl | exact absurd rfl h

theorem cstep_target (t : Tab) (g : CSt) (e : Ev) : (cstep t g e).x.target = g.x.target := by
  cases e with
  | pk a => exact exec_target g.x a
  | _ =>
    simp only [cstep]
    split
    · split <;> rfl
    · rfl

theorem xstep_cstep {t : Tab} (g : CSt) (e : Ev)
    (hd : (match e with
           | .pk a => pkAllowed t g.x a
           | _ => true) = true) : XStep t g.x (cstep t g e).x := by
  cases e with
  | pk a => exact xstep_pk g.x a hd
  | wpublish i =>
    simp only [cstep]
    split
    · split
      · exact xstep_publish g.x _
      · exact xstep_same rfl rfl rfl
    · exact xstep_same rfl rfl rfl
  | _ =>
    simp only [cstep]
    split
    · split <;> exact xstep_same rfl rfl rfl
    · exact xstep_same rfl rfl rfl

/-! ### from the read-back fact to the decomposition -/

theorem findSeg_some_decomp {t : Tab} {c : Nat} : ∀ {segs : List Seg} {off len : Nat} {z : Bool},
    findSeg t segs off len z = some c →
    ∃ pre post, segs = pre ++ (⟨c, z⟩ : Seg) :: post ∧ off = segsLen t pre ∧ len = Seg.len t ⟨c, z⟩ := by
  intro segs
  induction segs with
  | nil => intro off len z h; simp [findSeg] at h
  | cons g gs ih =>
    intro off len z h
    simp only [findSeg] at h
    split at h
    · rename_i h1
      obtain ⟨h0, hl, hz⟩ := h1
      have hc : g.cid = c := by simpa using h
      refine ⟨[], gs, ?_, by simpa using h0, ?_⟩
      · cases g
        simp only at hc hz
        subst hc hz
        rfl
      · cases g
        simp only at hc hz
        subst hc hz
        exact hl.symm
    · split at h
      · rename_i h2
        obtain ⟨pre, post, e1, e2, e3⟩ := ih h
        refine ⟨g :: pre, post, by rw [e1]; rfl, ?_, e3⟩
        rw [segsLen_cons]
        omega
      · cases h

/-! ### the rows of a committed index -/

structure RowsGood (t : Tab) (rows : List Row) : Prop where
  keys : (rows.map (·.key)).Nodup
  ids : (rows.map (·.id)).Nodup
  pos : ∀ r1 ∈ rows, ∀ r2 ∈ rows, r1.pack = r2.pack → r1.id < r2.id → r1.off + r1.len ≤ r2.off
  size : ∀ r ∈ rows, r.size = t.size r.key

theorem rowsGood_nil (t : Tab) : RowsGood t [] :=
  ⟨List.nodup_nil, List.nodup_nil, (by intro r h; cases h), (by intro r h; cases h)⟩

theorem nodup_of_nodupB : ∀ {l : List Nat}, nodupB l = true → l.Nodup := by
  intro l
  induction l with
  | nil => intro _; exact List.nodup_nil
  | cons a l ih =>
    intro h
    simp only [nodupB, Bool.and_eq_true] at h
    rw [List.nodup_cons]
    exact ⟨by simpa using h.1, ih h.2⟩

theorem rowsGood_commit {t : Tab} {x : XSt} (ha : pkAllowed t x .sqlCommit = true)
    (hl : layoutOKb (workOf x) = true) : RowsGood t (workOf x) := by
  simp only [pkAllowed, Bool.and_eq_true, List.all_eq_true] at ha
  obtain ⟨⟨h1, _⟩, h3⟩ := ha
  simp only [layoutOKb, Bool.and_eq_true, List.all_eq_true] at hl
  obtain ⟨l1, l2⟩ := hl
  refine ⟨nodup_of_nodupB h3, nodup_of_nodupB l1, ?_, ?_⟩
  · intro r1 hr1 r2 hr2 hp hi
    have := l2 r1 hr1 r2 hr2
    simp only [hp, hi, beq_self_eq_true, decide_true, Bool.and_self, Bool.not_true, Bool.false_or,
      decide_eq_true_eq] at this
    exact this
  · intro r hr
    have := h1 r hr
    split at this
    · unfold segOKb at this
      split at this
      · simp only [Bool.and_eq_true, beq_iff_eq] at this
        exact this.2.symm
      · cases this
    · cases this

theorem rowsGood_of_inv {t : Tab} {s : St} (inv : Inv t s) : RowsGood t s.rows := by
  refine ⟨inv.keys_nodup, inv.ids_nodup, inv.ids_pos, ?_⟩
  intro r hr
  obtain ⟨_, _, _, _, _, _, _, hsz⟩ := inv.rows_ok r hr
  exact hsz

/-! ### the invariant of a backup run -/

structure BInv (t : Tab) (b : BSt) : Prop where
  cinv : CInv t b.g
  rg : RowsGood t b.g.x.rows
  tgt : 0 < b.g.x.target
  lk : ∀ e ∈ b.bkLoose, e.2 = e.1
  lnd : (b.bkLoose.map (·.1)).Nodup
  pnd : (b.bkPacks.map (·.1)).Nodup
  brg : RowsGood t b.bkRows
  early : b.phase < 2 → b.bkPacks = []
  rowsF : 2 ≤ b.phase → ∀ r ∈ b.bkRows, FOK t b.g.x.packs r
  pk : ∀ p segs, getPack b.bkPacks p = some segs → ∀ r ∈ b.bkRows, r.pack = p →
    findSeg t segs r.off r.len r.z = some r.key
  st1 : b.phase = 1 → ∀ k ∈ b.atStart, k ∈ b.bkLoose.map (·.1) ∨ Avail b.g.x.rows b.g.x.loose k
  st2 : 2 ≤ b.phase → ∀ k ∈ b.atStart, k ∈ b.bkLoose.map (·.1) ∨ k ∈ b.bkRows.map (·.key)
  fin : b.phase = 3 → ∀ r ∈ b.bkRows, (getPack b.bkPacks r.pack).isSome = true

theorem binv_init {t : Tab} (wf : t.WF) {s : St} (inv : Inv t s) (wkeys rkeys : List Nat) :
    BInv t (BSt.init (CSt.init s wkeys rkeys)) where
  cinv := cinv_init wf inv wkeys rkeys
  rg := rowsGood_of_inv inv
  tgt := inv.target_pos
  lk := by intro e he; cases he
  lnd := List.nodup_nil
  pnd := List.nodup_nil
  brg := rowsGood_nil t
  early := fun _ => rfl
  rowsF := by intro _ r hr; cases hr
  pk := by intro p segs h; simp [BSt.init, getPack] at h
  st1 := by intro h; simp [BSt.init] at h
  st2 := by intro _ k hk; cases hk
  fin := by intro _ r hr; cases hr

/-- a step of the concurrent system -/
theorem binv_sys {t : Tab} {b : BSt} (h : BInv t b) (e : Ev)
    (hd : (match e with
           | .pk a => pkAllowed t b.g.x a
           | _ => true) = true)
    (hl : e = .pk .sqlCommit → layoutOKb (workOf b.g.x) = true) : BInv t { b with g := cstep t b.g e } := by
  have X := xstep_cstep b.g e hd
  refine { cinv := cinv_step h.cinv e hd, rg := ?_, tgt := ?_, lk := h.lk, lnd := h.lnd, pnd := h.pnd, brg := h.brg,
           early := h.early, rowsF := fun hp r hr => X.fok r (h.rowsF hp r hr), pk := h.pk,
           st1 := ?_, st2 := h.st2, fin := h.fin }
  · cases e with
    | pk a =>
      by_cases ha : a = .sqlCommit
      · subst ha
        exact rowsGood_commit hd (hl rfl)
      · show RowsGood t (exec b.g.x a).rows
        rw [exec_rows_of_ne _ _ ha]
        exact h.rg
    | _ =>
      show RowsGood t (cstep t b.g _).x.rows
      rw [(cstep_sync (t := t) b.g (by intro a; simp)).2.1]
      exact h.rg
  · show 0 < (cstep t b.g e).x.target
    rw [cstep_target]
    exact h.tgt
  · intro hp k hk
    rcases h.st1 hp k hk with h1 | h1
    · exact Or.inl h1
    · exact Or.inr (X.avail k h1)

theorem keys_cpLoose {l : List (Nat × Nat)} {k k' c : Nat} (h : k' ∈ l.map (·.1)) :
    k' ∈ (l.filter (fun p => p.1 != k) ++ [(k, c)]).map (·.1) := by
  rw [List.map_append, List.mem_append]
  by_cases e : k' = k
  · right; simp [e]
  · left
    obtain ⟨p, hp, rfl⟩ := List.mem_map.mp h
    exact List.mem_map.mpr ⟨p, List.mem_filter.mpr ⟨hp, by simpa using e⟩, rfl⟩

theorem nodup_cpLoose {l : List (Nat × Nat)} (k c : Nat) (h : (l.map (·.1)).Nodup) :
    ((l.filter (fun p => p.1 != k) ++ [(k, c)]).map (·.1)).Nodup := by
  rw [List.map_append, List.nodup_append]
  refine ⟨List.Nodup.sublist (List.Sublist.map _ List.filter_sublist) h, by simp, ?_⟩
  intro a ha b hb
  simp only [List.map_cons, List.map_nil, List.mem_singleton] at hb
  subst hb
  obtain ⟨p, hp, rfl⟩ := List.mem_map.mp ha
  have := (List.mem_filter.mp hp).2
  simpa using this

/-- one event of a backup run (other than copying the live side files) -/
theorem binv_step {t : Tab} {b : BSt} (h : BInv t b) (e : BEv)
    (hd : (match e with
           | .sys (.pk a) => pkAllowed t b.g.x a && (match a with
                                                     | .sqlCommit => layoutOKb (workOf b.g.x)
                                                     | _ => true)
           | _ => true) = true) (hw : e ≠ .walCopied) : BInv t (bstep t b e) := by
  cases e with
  | walCopied => exact absurd rfl hw
  | sys ev =>
    apply binv_sys h ev
    · cases ev with
      | pk a =>
        simp only [Bool.and_eq_true] at hd
        exact hd.1
      | _ => rfl
    · intro he
      subst he
      simp only [Bool.and_eq_true] at hd
      exact hd.2
  | start =>
    simp only [bstep]
    split
    · rename_i hp
      exact { cinv := h.cinv, rg := h.rg, tgt := h.tgt, lk := h.lk, lnd := h.lnd, pnd := h.pnd, brg := h.brg,
              early := fun _ => h.early (by omega),
              rowsF := fun hp' => absurd hp' (by simp),
              pk := h.pk,
              st1 := fun _ k hk => Or.inr (h.cinv.acked k hk),
              st2 := fun hp' => absurd hp' (by simp),
              fin := fun hp' => absurd hp' (by simp) }
    · exact h
  | cpLoose k =>
    simp only [bstep]
    split
    · rename_i hp
      split
      · rename_i e0 hf
        have hm := List.mem_of_find?_eq_some hf
        have hk : e0.1 = k := by simpa using List.find?_some hf
        obtain ⟨ha, hb⟩ := h.cinv.loose_ok e0 hm
        exact { cinv := h.cinv, rg := h.rg, tgt := h.tgt,
                lk := by
                  intro e' he'
                  rcases List.mem_append.mp he' with he' | he'
                  · exact h.lk e' (List.mem_filter.mp he').1
                  · simp only [List.mem_singleton] at he'
                    subst he'
                    simp [ha, hb, hk],
                lnd := nodup_cpLoose k _ h.lnd, pnd := h.pnd, brg := h.brg,
                early := h.early, rowsF := h.rowsF, pk := h.pk,
                st1 := by
                  intro hp' k' hk'
                  rcases h.st1 hp' k' hk' with h1 | h1
                  · exact Or.inl (keys_cpLoose h1)
                  · exact Or.inr h1,
                st2 := fun hp' => absurd hp' (by show ¬ 2 ≤ b.phase; omega),
                fin := h.fin }
      · exact h
    · exact h
  | dumpIndex =>
    simp only [bstep]
    split
    · rename_i hg
      obtain ⟨hp, hg⟩ := hg
      have hpk : b.bkPacks = [] := h.early (by omega)
      exact { cinv := h.cinv, rg := h.rg, tgt := h.tgt, lk := h.lk, lnd := h.lnd, pnd := h.pnd, brg := h.rg,
              early := fun hp' => absurd hp' (by simp),
              rowsF := fun _ => h.cinv.rows_ok,
              pk := by
                intro p segs hgp
                rw [show ({ b with phase := 2, bkRows := b.g.x.rows } : BSt).bkPacks = [] from hpk] at hgp
                simp [getPack] at hgp,
              st1 := fun hp' => absurd hp' (by simp),
              st2 := by
                intro _ k hk
                have g1 := (List.all_eq_true.mp hg) k hk
                simp only [Bool.or_eq_true, Bool.not_eq_true', List.any_eq_true, beq_iff_eq] at g1
                have toKey : (∃ r, r ∈ b.g.x.rows ∧ r.key = k) → k ∈ b.g.x.rows.map (·.key) :=
                  fun ⟨r, hr, e⟩ => List.mem_map.mpr ⟨r, hr, e⟩
                rcases g1 with (g1 | ⟨p, hp1, hp2⟩) | g1
                · rcases h.st1 hp k hk with h1 | h1 | h1
                  · exact Or.inl h1
                  · exact Or.inr h1
                  · unfold hasLooseX at g1
                    rw [h1] at g1
                    cases g1
                · exact Or.inl (List.mem_map.mpr ⟨p, hp1, hp2⟩)
                · exact Or.inr (toKey g1),
              fin := fun hp' => absurd hp' (by simp) }
    · exact h
  | cpPack p =>
    simp only [bstep]
    split
    · rename_i hp
      split
      · rename_i pk0 hg
        exact { cinv := h.cinv, rg := h.rg, tgt := h.tgt, lk := h.lk, lnd := h.lnd,
                pnd := nodup_keys_setPack p _ h.pnd, brg := h.brg,
                early := fun hp' => absurd hp' (by show ¬ b.phase < 2; omega),
                rowsF := h.rowsF,
                pk := by
                  intro q segs hgq r hr hrq
                  by_cases hqp : q = p
                  · subst hqp
                    rw [show ({ b with bkPacks := setPack b.bkPacks q (pk0.segs.take pk0.flushed) } : BSt).bkPacks
                      = setPack b.bkPacks q (pk0.segs.take pk0.flushed) from rfl, getPack_setPack_eq] at hgq
                    obtain ⟨pk1, f1, f2⟩ := h.rowsF (by omega) r hr
                    rw [hrq, hg] at f1
                    cases f1
                    cases hgq
                    exact f2
                  · rw [show ({ b with bkPacks := setPack b.bkPacks p (pk0.segs.take pk0.flushed) } : BSt).bkPacks
                      = setPack b.bkPacks p (pk0.segs.take pk0.flushed) from rfl, getPack_setPack_ne _ _ _ _ hqp] at hgq
                    exact h.pk q segs hgq r hr hrq,
                st1 := h.st1, st2 := h.st2,
                fin := fun hp' => absurd hp' (by show ¬ b.phase = 3; omega) }
      · exact h
    · exact h
  | finish =>
    simp only [bstep]
    split
    · rename_i hg
      obtain ⟨hp, hg⟩ := hg
      exact { cinv := h.cinv, rg := h.rg, tgt := h.tgt, lk := h.lk, lnd := h.lnd, pnd := h.pnd, brg := h.brg,
              early := fun hp' => absurd hp' (by simp),
              rowsF := fun _ => h.rowsF (by omega),
              pk := h.pk,
              st1 := fun hp' => absurd hp' (by simp),
              st2 := fun _ => h.st2 (by omega),
              fin := fun _ r hr => (List.all_eq_true.mp hg) r hr }
    · exact h

theorem binv_brun {t : Tab} (sched : List BEv) : ∀ b : BSt, BInv t b → bdisciplined t b sched = true →
    noWal sched = true → BInv t (brun t b sched) := by
  induction sched with
  | nil => intro b h _ _; exact h
  | cons e es ih =>
    intro b h hd hn
    simp only [bdisciplined, Bool.and_eq_true] at hd
    have hw : e ≠ .walCopied := by
      intro he
      subst he
      simp [noWal] at hn
    have hn' : noWal es = true := by
      cases e <;> first | exact hn | exact absurd rfl hw
    exact ih _ (binv_step h e hd.1 hw) hd.2 hn'

/-! ### what the finished backup reads -/

theorem readFresh_image {t : Tab} {b : BSt} (h : BInv t b) (hp : b.phase = 3) (k : Nat) :
    readFresh t (image b) k = .ok k ∨
    (readFresh t (image b) k = .loud ∧ ∃ r ∈ b.bkRows, r.key = k ∧ r.pack = tmpId) ∨
    (readFresh t (image b) k = .missing ∧ k ∉ b.atStart) := by
  unfold readFresh
  rw [show (image b).rows = b.bkRows from rfl, show (image b).loose = b.bkLoose from rfl]
  cases hf : findRow b.bkRows k with
  | some r =>
    obtain ⟨hm, hk⟩ := findRow_some hf
    by_cases ht : r.pack = tmpId
    · right; left
      simp only [ht, if_true]
      exact ⟨trivial, r, hm, hk, ht⟩
    · left
      simp only [ht, if_false]
      have h1 := h.fin hp r hm
      cases hg : getPack b.bkPacks r.pack with
      | none => rw [hg] at h1; cases h1
      | some segs =>
        have h2 := h.pk _ segs hg r hm rfl
        have : readRow t (image b) r = some r.key := by
          show (match getPack b.bkPacks r.pack with
                | none => none
                | some segs => findSeg t segs r.off r.len r.z) = some r.key
          rw [hg]
          exact h2
        rw [this, hk]
  | none =>
    simp only
    cases hl : findLoose b.bkLoose k with
    | some c =>
      left
      have := h.lk _ (findLoose_some hl)
      simp only at this
      simp [this]
    | none =>
      right; right
      refine ⟨rfl, ?_⟩
      intro hk
      rcases h.st2 (by omega) k hk with h1 | h1
      · exact findLoose_none_iff.mp hl h1
      · exact findRow_none_iff.mp hf h1

theorem inv_image {t : Tab} {b : BSt} (h : BInv t b) (hp : b.phase = 3) : Inv t (image b) where
  rows_ok := by
    intro r hr
    have hr' : r ∈ b.bkRows := hr
    have h1 := h.fin hp r hr'
    cases hg : getPack b.bkPacks r.pack with
    | none => rw [hg] at h1; cases h1
    | some segs =>
      obtain ⟨pre, post, e1, e2, e3⟩ := findSeg_some_decomp (h.pk _ segs hg r hr' rfl)
      exact ⟨segs, pre, post, hg, e1, e2, e3, h.brg.size r hr'⟩
  keys_nodup := h.brg.keys
  ids_nodup := h.brg.ids
  ids_pos := h.brg.pos
  packs_nodup := h.pnd
  loose_nodup := h.lnd
  loose_ok := fun e he => (h.lk e he).symm
  target_pos := h.tgt

end Dos.Backup
