/-
The batched three-stage bulk lookup equals the one-key lookup, key by key, for every reachable multi-handle state, every
request (any order, any repetitions), every batch size and scan threshold: each distinct requested key is reported exactly
once, with what `lookup` finds for it; missing keys are reported iff asked for.
-/
import Dos.MultiBulk
import Dos.Proofs.MultiProofs
import Dos.Proofs.MergeProofs
import Dos.Proofs.MultiBulkAux

namespace Dos.Multi
open Dos Dos.Merge

set_option linter.unusedVariables false in
theorem bulkLookup_spec {t : Tab} (wf : t.WF) {n tg : Nat} (htg : 0 < tg) {ops : List MOp} {m : MSt}
    (hrun : mrun t (MSt.init tg n) ops = some m) (h : Nat) (req : List Nat) (inMax scanMax : Nat) (hin : 0 < inMax)
    (skip : Bool) :
    (((bulkLookup m h req inMax scanMax skip).1).map (·.1)).Nodup ∧
    (∀ k f, (k, f) ∈ (bulkLookup m h req inMax scanMax skip).1 → k ∈ req ∧ f = (lookup m h k).1) ∧
    (∀ k ∈ req, ((lookup m h k).1 ≠ .missing ∨ skip = false) → (k, (lookup m h k).1) ∈ (bulkLookup m h req inMax scanMax skip).1) := by
  have mi := minv_mrun (minv_init t htg n) hrun
  have sn := snapNodup_mrun (minv_init t htg n) (snapNodup_init tg n) hrun
  have hs := bulkOut_spec m.disk.loose (pin_nodup mi sn h) mi.inv.keys_nodup (eraseDups_nodup req) inMax scanMax hin skip
  simp only [bulkLookup_fst, lookup_fst]
  simp only [List.mem_eraseDups] at hs
  exact hs

/-- in particular the result does not depend on the batch size, the scan threshold, the order of the request or repetitions -/
theorem bulkLookup_independent {t : Tab} (wf : t.WF) {n tg : Nat} (htg : 0 < tg) {ops : List MOp} {m : MSt}
    (hrun : mrun t (MSt.init tg n) ops = some m) (h : Nat) (req req' : List Nat) (hreq : ∀ k, k ∈ req ↔ k ∈ req')
    (inMax scanMax inMax' scanMax' : Nat) (hin : 0 < inMax) (hin' : 0 < inMax') (skip : Bool) (k : Nat) (f : Found) :
    (k, f) ∈ (bulkLookup m h req inMax scanMax skip).1 ↔ (k, f) ∈ (bulkLookup m h req' inMax' scanMax' skip).1 := by
  obtain ⟨_, h2, h3⟩ := bulkLookup_spec wf htg hrun h req inMax scanMax hin skip
  obtain ⟨_, h2', h3'⟩ := bulkLookup_spec wf htg hrun h req' inMax' scanMax' hin' skip
  have hskip : ∀ (r : List Nat) (iM sM : Nat), (k, f) ∈ (bulkLookup m h r iM sM skip).1 →
      f ≠ .missing ∨ skip = false := by
    intro r iM sM hm
    cases hsk : skip with
    | false => exact Or.inr rfl
    | true =>
      left
      intro hf
      subst hf
      subst hsk
      rw [bulkLookup_fst] at hm
      exact bulkOut_skip _ _ _ _ _ _ _ hm
  constructor
  · intro hm
    obtain ⟨hk, hf⟩ := h2 k f hm
    have := hskip req inMax scanMax hm
    subst hf
    exact h3' k ((hreq k).mp hk) this
  · intro hm
    obtain ⟨hk, hf⟩ := h2' k f hm
    have := hskip req' inMax' scanMax' hm
    subst hf
    exact h3 k ((hreq k).mpr hk) this

end Dos.Multi
