/-
Helpers for C04 (`Dos/Proofs/ConcProofs.lean`), part 1: the inductive invariant `CInv` of the interleaving model over
disciplined schedules.
-/
import Dos.Conc
import Dos.IOSpec
import Dos.Proofs.Read
import Dos.Proofs.IOGood
import Dos.Proofs.IOPacks

namespace Dos.Conc
open Dos Dos.IO

/-! ### reading a row in the flushed prefix of its pack -/

/-- the row's range, read in the flushed prefix of its pack, is the row's own content -/
def FOK (t : Tab) (packs : List (Nat × XPack)) (r : Row) : Prop :=
  ∃ pk, getX packs r.pack = some pk ∧ findSeg t (pk.segs.take pk.flushed) r.off r.len r.z = some r.key

theorem readFlushed_of_fok {t : Tab} {x : XSt} {r : Row} (h : FOK t x.packs r) : readFlushed t x r = .ok r.key := by
  obtain ⟨pk, h1, h2⟩ := h
  simp [readFlushed, h1, h2]

theorem findSeg_append {t : Tab} (ext : List Seg) {c : Nat} : ∀ {segs : List Seg} {off len : Nat} {z : Bool},
    findSeg t segs off len z = some c → findSeg t (segs ++ ext) off len z = some c := by
  intro segs
  induction segs with
  | nil => intro off len z h; simp [findSeg] at h
  | cons g gs ih =>
    intro off len z h
    simp only [List.cons_append, findSeg] at h ⊢
    split
    · rename_i h1; rw [if_pos h1] at h; exact h
    · rename_i h1
      rw [if_neg h1] at h
      split
      · rename_i h2; rw [if_pos h2] at h; exact ih h
      · rename_i h2; rw [if_neg h2] at h; cases h

theorem findSeg_of_segOK {t : Tab} (wf : t.WF) {segs : List Seg} {r : Row} (h : SegOK t segs r) :
    findSeg t segs r.off r.len r.z = some r.key := by
  obtain ⟨pre, post, hs, ho, hl, _⟩ := h
  subst hs
  rw [ho, hl]
  exact findSeg_decomp wf pre ⟨r.key, r.z⟩ post

/-- packs only grow, and so do their flushed prefixes -/
def PkExt (ps ps' : List (Nat × XPack)) : Prop :=
  ∀ q pk, getX ps q = some pk → ∃ pk' ext, getX ps' q = some pk' ∧
    pk'.segs.take pk'.flushed = pk.segs.take pk.flushed ++ ext

theorem pkExt_refl (ps : List (Nat × XPack)) : PkExt ps ps :=
  fun _ pk h => ⟨pk, [], h, by simp⟩

theorem fok_mono {t : Tab} {ps ps' : List (Nat × XPack)} (h : PkExt ps ps') {r : Row} (hr : FOK t ps r) : FOK t ps' r := by
  obtain ⟨pk, h1, h2⟩ := hr
  obtain ⟨pk', ext, h3, h4⟩ := h _ _ h1
  exact ⟨pk', h3, by rw [h4]; exact findSeg_append ext h2⟩

theorem pkExt_updX (ps : List (Nat × XPack)) (p : Nat) (f : XPack → XPack)
    (hf : ∀ pk, ∃ ext, (f pk).segs.take (f pk).flushed = pk.segs.take pk.flushed ++ ext) : PkExt ps (updX ps p f) := by
  intro q pk hq
  rw [getX_updX]
  by_cases h : q = p
  · subst h
    obtain ⟨ext, he⟩ := hf pk
    exact ⟨f pk, ext, by simp [hq], he⟩
  · exact ⟨pk, [], by simp [h, hq], by simp⟩

theorem pkExt_open (x : XSt) (p : Nat) : PkExt x.packs (exec x (.pkOpen p)).packs := by
  cases hg : getX x.packs p with
  | some pk =>
    have e : exec x (.pkOpen p) = x := by simp only [exec, hg]
    rw [e]; exact pkExt_refl _
  | none =>
    have e : (exec x (.pkOpen p)).packs = setX x.packs p { segs := [], flushed := 0, synced := 0 } := by
      simp only [exec, hg]
    rw [e]
    intro q pk hq
    have h : q ≠ p := by
      intro e; subst e; rw [hg] at hq; cases hq
    exact ⟨pk, [], by rw [getX_setX]; simp [h, hq], by simp⟩

/-! ### availability of a key -/

def Avail (rows : List Row) (loose : List (Nat × XFile)) (k : Nat) : Prop :=
  k ∈ rows.map (·.key) ∨ loose.any (fun e => e.1 == k) = true

def LooseOK (loose : List (Nat × XFile)) : Prop := ∀ e ∈ loose, e.2.cid = e.1 ∧ e.2.dur = .synced

/-- what one step of any actor does to the disk -/
structure XStep (t : Tab) (x x' : XSt) : Prop where
  loose_ok : LooseOK x.loose → LooseOK x'.loose
  rows_ok : (∀ r ∈ x.rows, FOK t x.packs r) → ∀ r ∈ x'.rows, FOK t x'.packs r
  avail : ∀ k, Avail x.rows x.loose k → Avail x'.rows x'.loose k
  comm : ∀ k, k ∈ x.rows.map (·.key) → k ∈ x'.rows.map (·.key)
  fok : ∀ r, FOK t x.packs r → FOK t x'.packs r

theorem xstep_packs {t : Tab} {x x' : XSt} (h1 : x'.rows = x.rows) (h2 : x'.loose = x.loose)
    (h3 : PkExt x.packs x'.packs) : XStep t x x' := by
  refine ⟨?_, ?_, ?_, ?_, fun r hr => fok_mono h3 hr⟩
  · rw [h2]; exact id
  · rw [h1]; intro h r hr; exact fok_mono h3 (h r hr)
  · rw [h1, h2]; exact fun _ => id
  · rw [h1]; exact fun _ => id

theorem xstep_same {t : Tab} {x x' : XSt} (h1 : x'.rows = x.rows) (h2 : x'.loose = x.loose)
    (h3 : x'.packs = x.packs) : XStep t x x' :=
  xstep_packs h1 h2 (by rw [h3]; exact pkExt_refl _)

theorem xstep_updX {t : Tab} (x : XSt) (p : Nat) (f : XPack → XPack)
    (hf : ∀ pk, ∃ ext, (f pk).segs.take (f pk).flushed = pk.segs.take pk.flushed ++ ext) :
    XStep t x { x with packs := updX x.packs p f } :=
  xstep_packs rfl rfl (pkExt_updX _ _ _ hf)

theorem any_filter_ne {loose : List (Nat × XFile)} {k k' : Nat} (h : k' ≠ k)
    (ha : loose.any (fun e => e.1 == k') = true) :
    (loose.filter (fun e => e.1 != k)).any (fun e => e.1 == k') = true := by
  rw [List.any_eq_true] at ha ⊢
  obtain ⟨e, he, hk⟩ := ha
  have hk' : e.1 = k' := by simpa using hk
  exact ⟨e, List.mem_filter.mpr ⟨he, by simp [hk', h]⟩, hk⟩

theorem xstep_unlink {t : Tab} (x : XSt) (k : Nat) (hk : k ∈ x.rows.map (·.key)) :
    XStep t x (exec x (.looseUnlink k)) := by
  refine ⟨?_, fun h => h, ?_, fun _ => id, fun _ => id⟩
  · intro h e he
    exact h e (List.mem_filter.mp he).1
  · intro k' hk'
    rcases hk' with h | h
    · exact Or.inl h
    · by_cases e : k' = k
      · subst e; exact Or.inl hk
      · exact Or.inr (any_filter_ne e h)

theorem xstep_publish {t : Tab} (x : XSt) (k : Nat) :
    XStep t x { x with loose := x.loose.filter (fun e => e.1 != k) ++ [(k, { cid := k, dur := .synced })] } := by
  refine ⟨?_, fun h => h, ?_, fun _ => id, fun _ => id⟩
  · intro h e he
    rcases List.mem_append.mp he with he | he
    · exact h e (List.mem_filter.mp he).1
    · simp at he; subst he; exact ⟨rfl, rfl⟩
  · intro k' hk'
    rcases hk' with h | h
    · exact Or.inl h
    · right
      show (x.loose.filter (fun e => e.1 != k) ++ [(k, ({ cid := k, dur := .synced } : XFile))]).any
        (fun e => e.1 == k') = true
      rw [List.any_append]
      by_cases e : k' = k
      · subst e; simp
      · rw [any_filter_ne e h]; rfl

theorem segOKb_fok {t : Tab} {segs : List Seg} {r : Row} (h : segOKb t segs r = true) :
    findSeg t segs r.off r.len r.z = some r.key := by
  unfold segOKb at h
  split at h
  · rename_i c hc
    simp only [Bool.and_eq_true, beq_iff_eq] at h
    rw [hc, h.1]
  · cases h

theorem xstep_commit {t : Tab} (x : XSt) (ha : pkAllowed t x .sqlCommit = true) :
    XStep t x (exec x .sqlCommit) := by
  simp only [pkAllowed, Bool.and_eq_true, List.all_eq_true] at ha
  obtain ⟨⟨h1, h2⟩, _⟩ := ha
  refine ⟨id, ?_, ?_, ?_, fun _ => id⟩
  · intro _ r hr
    have := h1 r hr
    split at this
    · rename_i pk hpk
      exact ⟨pk, hpk, segOKb_fok this⟩
    · cases this
  · intro k hk
    rcases hk with h | h
    · left
      obtain ⟨r, hr, rfl⟩ := List.mem_map.mp h
      have := h2 r hr
      exact List.mem_map.mpr ⟨r, (by simpa using this : r ∈ workOf x), rfl⟩
    · exact Or.inr h
  · intro k h
    obtain ⟨r, hr, rfl⟩ := List.mem_map.mp h
    have := h2 r hr
    exact List.mem_map.mpr ⟨r, (by simpa using this : r ∈ workOf x), rfl⟩

theorem take_ext {α} (l : List α) (n : Nat) : ∃ ext, l = l.take n ++ ext :=
  ⟨l.drop n, (List.take_append_drop n l).symm⟩

/-- an allowed packer action -/
theorem xstep_pk {t : Tab} (x : XSt) (a : Act) (ha : pkAllowed t x a = true) : XStep t x (exec x a) := by
  cases a <;> simp only [pkAllowed] at ha <;> try (exact absurd ha (by decide))
  case dirSync => exact xstep_same rfl rfl rfl
  case mkdirLoose => exact xstep_same rfl rfl rfl
  case readLoose => exact xstep_same rfl rfl rfl
  case pkRead => exact xstep_same rfl rfl rfl
  case lock => exact xstep_same rfl rfl rfl
  case unlock => exact xstep_same rfl rfl rfl
  case sqlInsert => exact xstep_same rfl rfl rfl
  case looseUnlink k =>
    apply xstep_unlink
    rw [List.any_eq_true] at ha
    obtain ⟨r, hr, hk⟩ := ha
    exact List.mem_map.mpr ⟨r, hr, by simpa using hk⟩
  case pkOpen p =>
    exact xstep_packs (pkOpen_fields x p).2.2.1 (pkOpen_fields x p).2.2.2 (pkExt_open x p)
  case pkWrite p sg =>
    apply xstep_updX
    intro pk
    exact ⟨_, List.take_append⟩
  case pkFlush p =>
    apply xstep_updX
    intro pk
    simp only [List.take_length]
    exact take_ext _ _
  case pkFsync p =>
    apply xstep_updX
    intro pk
    exact ⟨[], by simp⟩
  case pkClose p =>
    apply xstep_updX
    intro pk
    simp only [List.take_length]
    exact take_ext _ _
  case pkTruncate p n =>
    have : n = 0 := by simpa using ha
    subst this
    apply xstep_updX
    intro pk
    simp only [Nat.sub_zero, List.take_length]
    exact take_ext _ _
  case sqlCommit => exact xstep_commit x ha

/-! ### the invariant of the interleaving model -/

structure RdOK (t : Tab) (x : XSt) (r : Rd) : Prop where
  snap : ∀ row ∈ r.snap.getD [], FOK t x.packs row
  found : r.pc = 2 ∨ r.pc = 6 → ∃ row, r.row = some row ∧ row.key = r.key ∧ FOK t x.packs row
  p3 : r.pc = 3 → r.key ∈ r.ackedAtStart → Avail x.rows x.loose r.key
  p4 : r.pc = 4 → r.key ∈ r.ackedAtStart → r.key ∈ x.rows.map (·.key)
  p5 : r.pc = 5 → r.key ∈ r.ackedAtStart → r.key ∈ (r.snap.getD []).map (·.key)
  p9 : r.pc = 9 → r.res = some (.ok r.key) ∨ (r.res = some .missing ∧ r.key ∉ r.ackedAtStart)

structure CInv (t : Tab) (g : CSt) : Prop where
  loose_ok : LooseOK g.x.loose
  rows_ok : ∀ r ∈ g.x.rows, FOK t g.x.packs r
  acked : ∀ k ∈ g.acked, Avail g.x.rows g.x.loose k
  wr : ∀ w ∈ g.writers, w.pc = 2 → Avail g.x.rows g.x.loose w.key
  rd : ∀ r ∈ g.readers, RdOK t g.x r

theorem rdOK_xstep {t : Tab} {x x' : XSt} (h : XStep t x x') {r : Rd} (hr : RdOK t x r) : RdOK t x' r := by
  refine ⟨fun row hrow => h.fok _ (hr.snap row hrow), ?_, fun a b => h.avail _ (hr.p3 a b),
    fun a b => h.comm _ (hr.p4 a b), hr.p5, hr.p9⟩
  intro hp
  obtain ⟨row, h1, h2, h3⟩ := hr.found hp
  exact ⟨row, h1, h2, h.fok _ h3⟩

theorem cinv_xstep {t : Tab} {g : CSt} (h : CInv t g) {x' : XSt} (hx : XStep t g.x x') : CInv t { g with x := x' } :=
  ⟨hx.loose_ok h.loose_ok, hx.rows_ok h.rows_ok, fun k hk => hx.avail _ (h.acked k hk),
    fun w hw hp => hx.avail _ (h.wr w hw hp), fun r hr => rdOK_xstep hx (h.rd r hr)⟩

theorem mem_updW {l : List Wr} {i : Nat} {f : Wr → Wr} {w' : Wr} (h : w' ∈ updW l i f) :
    w' ∈ l ∨ ∃ w, l[i]? = some w ∧ w' = f w := by
  unfold updW at h
  rw [List.mem_mapIdx] at h
  obtain ⟨j, hj, he⟩ := h
  by_cases hji : j = i
  · subst hji
    right
    exact ⟨l[j], by simp [hj], by simpa using he.symm⟩
  · left
    simp only [hji, if_false] at he
    rw [← he]
    exact List.getElem_mem hj

theorem mem_updR {l : List Rd} {i : Nat} {f : Rd → Rd} {r' : Rd} (h : r' ∈ updR l i f) :
    r' ∈ l ∨ ∃ r, l[i]? = some r ∧ r' = f r := by
  unfold updR at h
  rw [List.mem_mapIdx] at h
  obtain ⟨j, hj, he⟩ := h
  by_cases hji : j = i
  · subst hji
    right
    exact ⟨l[j], by simp [hj], by simpa using he.symm⟩
  · left
    simp only [hji, if_false] at he
    rw [← he]
    exact List.getElem_mem hj

/-- a reader's own step -/
theorem cinv_readers {t : Tab} {g : CSt} (h : CInv t g) (i : Nat) (F : Rd → Rd) {r0 : Rd}
    (h0 : g.readers[i]? = some r0) (hF : RdOK t g.x r0 → RdOK t g.x (F r0)) :
    CInv t { g with readers := updR g.readers i F } := by
  refine ⟨h.loose_ok, h.rows_ok, h.acked, h.wr, ?_⟩
  intro r hr
  rcases mem_updR hr with hr | ⟨r1, h1, rfl⟩
  · exact h.rd r hr
  · rw [h0] at h1
    cases h1
    exact hF (h.rd r0 (List.mem_of_getElem? h0))

theorem cinv_writers {t : Tab} {g : CSt} (h : CInv t g) (i : Nat) (F : Wr → Wr) {w0 : Wr}
    (h0 : g.writers[i]? = some w0) (hF : (F w0).pc = 2 → Avail g.x.rows g.x.loose (F w0).key) :
    CInv t { g with writers := updW g.writers i F } := by
  refine ⟨h.loose_ok, h.rows_ok, h.acked, ?_, h.rd⟩
  intro w hw
  rcases mem_updW hw with hw | ⟨w1, h1, rfl⟩
  · exact h.wr w hw
  · rw [h0] at h1
    cases h1
    exact hF

theorem not_any_of_find_none {loose : List (Nat × XFile)} {k : Nat}
    (h : loose.find? (fun e => e.1 == k) = none) : ¬ (loose.any (fun e => e.1 == k) = true) := by
  rw [List.find?_eq_none] at h
  intro ha
  rw [List.any_eq_true] at ha
  obtain ⟨e, he, hk⟩ := ha
  exact h e he hk

theorem cinv_step {t : Tab} {g : CSt} (h : CInv t g) (e : Ev)
    (hd : (match e with
           | .pk a => pkAllowed t g.x a
           | _ => true) = true) : CInv t (cstep t g e) := by
  cases e with
  | pk a => exact cinv_xstep h (xstep_pk g.x a hd)
  | wcheck i =>
    simp only [cstep]
    split
    · rename_i w hw
      split
      · apply cinv_writers h i _ hw
        intro hp
        simp only at hp ⊢
        right
        by_cases hl : hasLooseX g.x w.key = true
        · exact hl
        · simp [hl] at hp
      · exact h
    · exact h
  | wpublish i =>
    simp only [cstep]
    split
    · rename_i w hw
      split
      · have h1 := cinv_xstep h (xstep_publish (t := t) g.x w.key)
        have h2 := cinv_writers h1 i (fun w => { w with pc := 2 }) (w0 := w) hw (by
          intro _
          right
          show (g.x.loose.filter (fun e => e.1 != w.key) ++ [(w.key, ({ cid := w.key, dur := .synced } : XFile))]).any
            (fun e => e.1 == w.key) = true
          simp)
        exact h2
      · exact h
    · exact h
  | wack i =>
    simp only [cstep]
    split
    · rename_i w hw
      split
      · rename_i hpc
        have hw' : Avail g.x.rows g.x.loose w.key := h.wr w (List.mem_of_getElem? hw) hpc
        have h1 : CInv t { g with acked := w.key :: g.acked } :=
          ⟨h.loose_ok, h.rows_ok, fun k hk => by
            rcases List.mem_cons.mp hk with rfl | hk
            · exact hw'
            · exact h.acked k hk, h.wr, h.rd⟩
        exact cinv_writers h1 i (fun w => { w with pc := 3 }) (w0 := w) hw (by intro hp; simp at hp)
      · exact h
    · exact h
  | pin i =>
    simp only [cstep]
    split
    · rename_i r hr
      split
      · apply cinv_readers h i _ hr
        intro _
        exact ⟨h.rows_ok, by simp, by simp, by simp, by simp, by simp⟩
      · exact h
    · exact h
  | look i =>
    simp only [cstep]
    split
    · rename_i r hr
      split
      · apply cinv_readers h i _ hr
        intro ok
        cases hf : findRow (r.snap.getD []) r.key with
        | some row =>
          simp only
          obtain ⟨hm, hk⟩ := findRow_some hf
          exact ⟨ok.snap, fun _ => ⟨row, rfl, hk, ok.snap row hm⟩, by simp, by simp, by simp, by simp⟩
        | none =>
          simp only
          exact ⟨ok.snap, by simp, fun _ ha => h.acked _ ha, by simp, by simp, by simp⟩
      · exact h
    · exact h
  | readPack i =>
    simp only [cstep]
    split
    · rename_i r hr
      split
      · rename_i hpc
        apply cinv_readers h i _ hr
        intro ok
        obtain ⟨row, h1, h2, h3⟩ := ok.found hpc
        refine ⟨ok.snap, by simp, by simp, by simp, by simp, fun _ => Or.inl ?_⟩
        simp only [h1, Option.map_some, readFlushed_of_fok h3, h2]
      · exact h
    · exact h
  | openLoose i =>
    simp only [cstep]
    split
    · rename_i r hr
      split
      · rename_i hpc
        apply cinv_readers h i _ hr
        intro ok
        cases hf : g.x.loose.find? (fun e => e.1 == r.key) with
        | some e =>
          simp only
          have hm := List.mem_of_find?_eq_some hf
          have hk := List.find?_some hf
          have hk' : e.1 = r.key := by simpa using hk
          obtain ⟨a, b⟩ := h.loose_ok e hm
          refine ⟨ok.snap, by simp, by simp, by simp, by simp, fun _ => Or.inl ?_⟩
          simp [a, b, hk']
        | none =>
          simp only
          refine ⟨ok.snap, by simp, by simp, ?_, by simp, by simp⟩
          intro _ ha
          rcases ok.p3 hpc ha with h1 | h1
          · exact h1
          · exact absurd h1 (not_any_of_find_none hf)
      · exact h
    · exact h
  | repin i =>
    simp only [cstep]
    split
    · rename_i r hr
      split
      · rename_i hpc
        apply cinv_readers h i _ hr
        intro ok
        exact ⟨h.rows_ok, by simp, by simp, by simp, fun _ ha => ok.p4 hpc ha, by simp⟩
      · exact h
    · exact h
  | look2 i =>
    simp only [cstep]
    split
    · rename_i r hr
      split
      · rename_i hpc
        apply cinv_readers h i _ hr
        intro ok
        cases hf : findRow (r.snap.getD []) r.key with
        | some row =>
          simp only
          obtain ⟨hm, hk⟩ := findRow_some hf
          exact ⟨ok.snap, fun _ => ⟨row, rfl, hk, ok.snap row hm⟩, by simp, by simp, by simp, by simp⟩
        | none =>
          simp only
          refine ⟨ok.snap, by simp, by simp, by simp, by simp, fun _ => Or.inr ⟨rfl, ?_⟩⟩
          intro ha
          exact findRow_none_iff.mp hf (ok.p5 hpc ha)
      · exact h
    · exact h

theorem cinv_crun {t : Tab} (sched : List Ev) : ∀ g : CSt, CInv t g → disciplined t g sched = true →
    CInv t (crun t g sched) := by
  induction sched with
  | nil => intro g h _; exact h
  | cons e es ih =>
    intro g h hd
    simp only [disciplined, Bool.and_eq_true] at hd
    exact ih _ (cinv_step h e hd.1) hd.2

theorem cinv_init {t : Tab} (wf : t.WF) {s : St} (inv : Inv t s) (wkeys rkeys : List Nat) :
    CInv t (CSt.init s wkeys rkeys) := by
  have g := good_ofSt inv
  refine ⟨?_, ?_, ?_, ?_, ?_⟩
  · exact g.1.loose_ok
  · intro r hr
    obtain ⟨pk, h1, h2⟩ := g.1.rows_ok r hr
    exact ⟨pk, h1, findSeg_of_segOK wf (segOK_take_mono (g.1.pk_le _ _ h1).1 h2)⟩
  · intro k hk
    rcases g.1.keep_ok k hk with h | h
    · exact Or.inl h
    · right
      obtain ⟨e, he, rfl⟩ := List.mem_map.mp h
      exact List.any_eq_true.mpr ⟨e, he, by simp⟩
  · intro w hw hp
    simp only [CSt.init, List.mem_map] at hw
    obtain ⟨k, _, rfl⟩ := hw
    simp at hp
  · intro r hr
    simp only [CSt.init, List.mem_map] at hr
    obtain ⟨k, _, rfl⟩ := hr
    exact ⟨by simp, by simp, by simp, by simp, by simp, by simp⟩

/-! ### part 2: the packer programs are allowed action by action (sequentially) -/

/-- every action of the list is allowed in the state in which it executes -/
def allowedAll (t : Tab) : XSt → List Act → Bool
  | _, [] => true
  | x, a :: as => pkAllowed t x a && allowedAll t (exec x a) as

theorem allowedAll_append {t : Tab} (l1 l2 : List Act) : ∀ x : XSt,
    allowedAll t x (l1 ++ l2) = (allowedAll t x l1 && allowedAll t (execAll x l1) l2) := by
  induction l1 with
  | nil => intro x; simp [allowedAll, execAll]
  | cons a l ih => intro x; simp only [List.cons_append, allowedAll, execAll, ih, Bool.and_assoc]

theorem plain_allowed {t : Tab} (x : XSt) {a : Act} (ha : plain a = true) : pkAllowed t x a = true := by
  cases a <;> simp only [plain] at ha <;> first | exact absurd ha (by decide) | rfl | exact ha

theorem allowedAll_plain {t : Tab} (l : List Act) : ∀ x : XSt, (∀ a ∈ l, plain a = true) → allowedAll t x l = true := by
  induction l with
  | nil => intro x _; rfl
  | cons a l ih =>
    intro x h
    simp only [allowedAll, Bool.and_eq_true]
    exact ⟨plain_allowed x (h a List.mem_cons_self), ih _ (fun b hb => h b (List.mem_cons_of_mem _ hb))⟩

theorem allowedAll_unlinks {t : Tab} (ks : List Nat) : ∀ x : XSt, (∀ k ∈ ks, k ∈ x.rows.map (·.key)) →
    allowedAll t x (ks.map .looseUnlink) = true := by
  induction ks with
  | nil => intro x _; rfl
  | cons k ks ih =>
    intro x h
    simp only [List.map_cons, allowedAll, Bool.and_eq_true]
    refine ⟨?_, ih _ (fun k' hk' => h k' (List.mem_cons_of_mem _ hk'))⟩
    obtain ⟨r, hr, hk⟩ := List.mem_map.mp (h k List.mem_cons_self)
    simp only [pkAllowed]
    exact List.any_eq_true.mpr ⟨r, hr, by simpa using hk⟩

theorem nodupB_of_nodup : ∀ {l : List Nat}, l.Nodup → nodupB l = true := by
  intro l
  induction l with
  | nil => intro _; rfl
  | cons a l ih =>
    intro h
    rw [List.nodup_cons] at h
    simp only [nodupB, Bool.and_eq_true]
    exact ⟨by simpa using h.1, ih h.2⟩

theorem commit_allowed {t : Tab} (wf : t.WF) {keep : List Nat} {x : XSt} (g : Good t keep (exec x .sqlCommit))
    (hsub : ∀ r ∈ x.rows, r ∈ workOf x) : pkAllowed t x .sqlCommit = true := by
  have gc : GoodC t keep x.packs (workOf x) x.loose := g.1
  simp only [pkAllowed, Bool.and_eq_true, List.all_eq_true]
  refine ⟨⟨?_, ?_⟩, nodupB_of_nodup gc.keys_nodup⟩
  · intro r hr
    obtain ⟨pk, h1, h2⟩ := gc.rows_ok r hr
    have h3 := segOK_take_mono (gc.pk_le _ _ h1).1 h2
    have h4 := findSeg_of_segOK wf h3
    obtain ⟨_, _, _, _, _, hsz⟩ := h3
    simp only [h1, segOKb, h4]
    simp [hsz]
  · intro r hr
    simpa using hsub r hr

theorem mid_end_allowed {t : Tab} (wf : t.WF) {keep : List Nat} {x : XSt} {b : St} {q : Nat} {rs : List Row}
    (m : Mid t keep x b q rs) (trunc cl : Bool) : allowedAll t x (gEnd q rs trunc cl) = true := by
  obtain ⟨a1, i1⟩ := mid_endA m trunc
  unfold gEnd
  rw [allowedAll_append, Bool.and_eq_true]
  constructor
  · rw [allowedAll_append, Bool.and_eq_true]
    refine ⟨allowedAll_plain _ _ (endA_plain q rs trunc), ?_⟩
    by_cases hrs : rs = []
    · subst hrs; rfl
    · have hne : rs.isEmpty = false := by cases rs <;> simp_all
      simp only [hne, Bool.false_eq_true, if_false] at a1 ⊢
      have g := allGood_end a1
      rw [execAll_append] at g
      simp only [allowedAll, Bool.and_true]
      apply commit_allowed wf g
      rw [exec_endA]
      simp only [hrs, if_false]
      intro r hr
      have hw : workOf x = x.rows := by simp [workOf, m.work]
      show r ∈ rs.foldl insertIgnore (workOf x)
      rw [hw]
      exact sub_foldl_insertIgnore _ _ _ hr
  · cases cl
    · rfl
    · simp only [if_true]
      have e : rs.map (fun r => Act.looseUnlink r.key) = (rs.map (·.key)).map .looseUnlink := by
        simp [List.map_map, Function.comp_def]
      rw [e]
      apply allowedAll_unlinks
      intro k hk
      obtain ⟨r0, h0, rfl⟩ := List.mem_map.mp hk
      rw [i1.rows, ← m.rows]
      exact key_mem_foldl_insertIgnore _ _ _ h0

def ReachA (t : Tab) (keep : List Nat) (x0 : XSt) (w : WSt) : Prop :=
  Reach t keep x0 w ∧ allowedAll t x0 w.acts = true

theorem open_allowed {t : Tab} (x : XSt) (p : Nat) : allowedAll t x [.lock p, .pkOpen p] = true :=
  allowedAll_plain _ _ (by intro a ha; simp at ha; rcases ha with rfl | rfl <;> rfl)

theorem gOpen_allowed {t : Tab} (wf : t.WF) {keep : List Nat} {x0 : XSt} {w : WSt} (trunc cl : Bool)
    (h : ReachA t keep x0 w) : allowedAll t x0 (gOpen t trunc cl w).acts = true := by
  obtain ⟨⟨_, sim⟩, al⟩ := h
  unfold Sim at sim
  unfold gOpen
  simp only
  cases hop : w.openP with
  | none =>
    simp only [hop] at sim ⊢
    rw [allowedAll_append, al, open_allowed]; rfl
  | some q =>
    simp only [hop] at sim ⊢
    by_cases hq : q = (openCur t w.s).cur
    · simp only [hq, if_true]
      exact al
    · simp only [hq, if_false]
      rw [allowedAll_append, allowedAll_append, al, mid_end_allowed wf sim trunc cl, open_allowed]; rfl

theorem reachA_wPackLooseC {t : Tab} (wf : t.WF) {keep : List Nat} {x0 : XSt} {w : WSt} (cl : Bool) (cz : Nat × Bool)
    (h : ReachA t keep x0 w) : ReachA t keep x0 (wPackLooseC t cl w cz) := by
  refine ⟨reach_wPackLooseC cl cz h.1, ?_⟩
  have al := gOpen_allowed wf false cl h
  unfold wPackLooseC
  rw [wOpenPA_eq]
  simp only
  rw [allowedAll_append, al]
  exact allowedAll_plain _ _ (by intro a ha; simp at ha; rcases ha with rfl | rfl <;> rfl)

theorem reachA_foldl {t : Tab} (wf : t.WF) {keep : List Nat} {x0 : XSt} (cl : Bool) (l : List (Nat × Bool)) :
    ∀ w, ReachA t keep x0 w → ReachA t keep x0 (l.foldl (wPackLooseC t cl) w) := by
  induction l with
  | nil => intro w h; exact h
  | cons a l ih => intro w h; exact ih _ (reachA_wPackLooseC wf cl a h)

theorem reachA_finish {t : Tab} (wf : t.WF) {keep : List Nat} {x0 : XSt} {w : WSt} (trunc cl : Bool)
    (h : ReachA t keep x0 w) : allowedAll t x0 (gFinish trunc cl w) = true := by
  obtain ⟨⟨_, sim⟩, al⟩ := h
  unfold Sim at sim
  unfold gFinish
  cases hop : w.openP with
  | none => exact al
  | some q =>
    simp only [hop] at sim ⊢
    rw [allowedAll_append, al, mid_end_allowed wf sim trunc cl]; rfl

theorem allowed_packAll {t : Tab} (wf : t.WF) {s : St} (inv : Inv t s) (order : List Nat) (zs : List Bool) (cl : Bool) :
    allowedAll t (ofSt s) (actsPackAll t s order zs cl) = true := by
  by_cases ho : order = []
  · subst ho; rfl
  · rw [actsPackAll_eq t s order zs cl ho]
    exact reachA_finish wf false cl (reachA_foldl wf cl _ _ ⟨reach_init inv, rfl⟩)

theorem allowed_clean {t : Tab} (s : St) (order : List Nat) (ho : ∀ k ∈ order, hasRow s k = true) :
    allowedAll t (ofSt s) (actsClean s order) = true :=
  allowedAll_unlinks order _ (fun k hk => hasRow_iff.mp (ho k hk))

/-! ### the other actors do not touch what the discipline looks at -/

def SyncX (x y : XSt) : Prop := x.packs = y.packs ∧ x.rows = y.rows ∧ x.work = y.work

theorem pkAllowed_sync {t : Tab} {x y : XSt} (h : SyncX x y) (a : Act) : pkAllowed t x a = pkAllowed t y a := by
  obtain ⟨h1, h2, h3⟩ := h
  cases a <;> simp only [pkAllowed, workOf, h1, h2, h3]

theorem exec_sync {x y : XSt} (h : SyncX x y) (a : Act) : SyncX (exec x a) (exec y a) := by
  obtain ⟨h1, h2, h3⟩ := h
  cases a
  case renameLoose k =>
    simp only [exec]
    split <;> split <;> exact ⟨h1, h2, h3⟩
  case pkOpen p =>
    simp only [exec, h1]
    split
    · exact ⟨h1, h2, h3⟩
    · exact ⟨rfl, h2, h3⟩
  case pkLink src dst =>
    simp only [exec, h1]
    split
    · exact ⟨rfl, h2, h3⟩
    · exact ⟨h1, h2, h3⟩
  all_goals (simp only [exec, workOf, h1, h2, h3, SyncX]; simp)

theorem cstep_sync {t : Tab} (g : CSt) {e : Ev} (he : ∀ a, e ≠ .pk a) : SyncX (cstep t g e).x g.x := by
  cases e with
  | pk a => exact absurd rfl (he a)
  | _ =>
    simp only [cstep]
    split
    · split <;> exact ⟨rfl, rfl, rfl⟩
    · exact ⟨rfl, rfl, rfl⟩

end Dos.Conc
