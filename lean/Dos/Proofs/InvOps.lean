/-
`Inv` is established by the empty container and preserved by every operation that only appends to packs,
touches loose files or removes rows.
-/
import Dos.Proofs.Basic

namespace Dos

/-! ### helper lemmas -/

/-- `RowOK` survives extending any pack at its end (creating it when missing). -/
theorem rowOK_setPack_append {t : Tab} {packs : Packs} {r : Row} (p : Nat) (ext : List Seg)
    (h : RowOK t packs r) : RowOK t (setPack packs p ((getPack packs p).getD [] ++ ext)) r := by
  obtain ⟨segs, pre, post, hg, hs, ho, hl, hz⟩ := h
  by_cases hp : r.pack = p
  · subst hp
    refine ⟨segs ++ ext, pre, post ++ ext, ?_, ?_, ho, hl, hz⟩
    · rw [getPack_setPack_eq, hg]; rfl
    · rw [hs]; simp
  · exact ⟨segs, pre, post, by rw [getPack_setPack_ne _ _ _ _ hp]; exact hg, hs, ho, hl, hz⟩

theorem rowOK_ensurePack {t : Tab} {packs : Packs} {r : Row} (p : Nat)
    (h : RowOK t packs r) : RowOK t (ensurePack packs p) r := by
  unfold ensurePack
  cases hg : getPack packs p with
  | some segs => exact h
  | none =>
    have := rowOK_setPack_append (t := t) p [] h
    simpa [hg] using this

theorem nodup_keys_ensurePack {ps : Packs} (p : Nat) (h : (ps.map (·.1)).Nodup) :
    ((ensurePack ps p).map (·.1)).Nodup := by
  unfold ensurePack
  cases hg : getPack ps p with
  | some segs => exact h
  | none => exact nodup_keys_setPack p [] h

/-- a row of pack `p` ends inside the pack -/
theorem rowOK_end_le {t : Tab} {packs : Packs} {r : Row} (h : RowOK t packs r) :
    r.off + r.len ≤ segsLen t ((getPack packs r.pack).getD []) := by
  obtain ⟨segs, pre, post, hg, hs, ho, hl, _⟩ := h
  rw [hg, hs, ho, hl]
  simp only [Option.getD_some, segsLen_append, segsLen_cons]
  omega

theorem mem_insertIgnore {rows : List Row} {row r : Row} (h : r ∈ insertIgnore rows row) :
    r ∈ rows ∨ (r = { row with id := nextId rows } ∧ row.key ∉ rows.map (·.key)) := by
  unfold insertIgnore at h
  split at h
  · exact Or.inl h
  · rename_i hn
    rcases List.mem_append.mp h with h | h
    · exact Or.inl h
    · right
      refine ⟨by simpa using h, ?_⟩
      intro hm
      apply hn
      obtain ⟨x, hx, hk⟩ := List.mem_map.mp hm
      exact List.any_eq_true.mpr ⟨x, hx, by simp [hk]⟩

theorem keys_nodup_insertIgnore {rows : List Row} (row : Row) (h : (rows.map (·.key)).Nodup) :
    ((insertIgnore rows row).map (·.key)).Nodup := by
  unfold insertIgnore
  split
  · exact h
  · rename_i hn
    rw [List.map_append, List.nodup_append]
    refine ⟨h, by simp, ?_⟩
    intro a ha b hb hab
    simp at hb
    subst hb
    subst hab
    apply hn
    obtain ⟨x, hx, hk⟩ := List.mem_map.mp ha
    exact List.any_eq_true.mpr ⟨x, hx, by simp [hk]⟩

theorem ids_nodup_insertIgnore {rows : List Row} (row : Row) (h : (rows.map (·.id)).Nodup) :
    ((insertIgnore rows row).map (·.id)).Nodup := by
  unfold insertIgnore
  split
  · exact h
  · rw [List.map_append, List.nodup_append]
    refine ⟨h, by simp, ?_⟩
    intro a ha b hb hab
    simp at hb
    subst hb
    subst hab
    obtain ⟨x, hx, hk⟩ := List.mem_map.mp ha
    have := lt_nextId hx
    omega

/-- writing one object to an arbitrary pack `p` -/
theorem inv_write_at {t : Tab} {s : St} (inv : Inv t s) (p c : Nat) (z : Bool) (cur : Nat) :
    Inv t { s with
      packs := setPack s.packs p ((getPack s.packs p).getD [] ++ [(⟨c, z⟩ : Seg)]),
      cur := cur,
      rows := insertIgnore s.rows
        { id := 0, key := c, pack := p, off := segsLen t ((getPack s.packs p).getD []),
          len := Seg.len t ⟨c, z⟩, z := z, size := t.size c } } := by
  refine ⟨?_, ?_, ?_, ?_, ?_, inv.loose_nodup, inv.loose_ok, inv.target_pos⟩
  · intro r hr
    rcases mem_insertIgnore hr with hr | ⟨hr, _⟩
    · exact rowOK_setPack_append p _ (inv.rows_ok r hr)
    · subst hr
      exact ⟨_, (getPack s.packs p).getD [], [], getPack_setPack_eq _ _ _, rfl, rfl, rfl, rfl⟩
  · exact keys_nodup_insertIgnore _ inv.keys_nodup
  · exact ids_nodup_insertIgnore _ inv.ids_nodup
  · intro r1 h1 r2 h2 hp hid
    rcases mem_insertIgnore h1 with h1 | ⟨h1, _⟩
    · rcases mem_insertIgnore h2 with h2 | ⟨h2, _⟩
      · exact inv.ids_pos r1 h1 r2 h2 hp hid
      · subst h2
        have := rowOK_end_le (inv.rows_ok r1 h1)
        simp only at hp ⊢
        rw [hp] at this
        exact this
    · subst h1
      rcases mem_insertIgnore h2 with h2 | ⟨h2, _⟩
      · have := lt_nextId h2
        simp only at hid
        omega
      · subst h2
        simp only at hid
        omega
  · exact nodup_keys_setPack _ _ inv.packs_nodup

theorem inv_set_cur {t : Tab} {s : St} (inv : Inv t s) (c : Nat) : Inv t { s with cur := c } :=
  ⟨inv.rows_ok, inv.keys_nodup, inv.ids_nodup, inv.ids_pos, inv.packs_nodup, inv.loose_nodup, inv.loose_ok,
    inv.target_pos⟩

theorem inv_filter_loose {t : Tab} {s : St} (inv : Inv t s) (f : Nat × Nat → Bool) :
    Inv t { s with loose := s.loose.filter f } :=
  ⟨inv.rows_ok, inv.keys_nodup, inv.ids_nodup, inv.ids_pos, inv.packs_nodup,
    inv.loose_nodup.sublist (List.filter_sublist.map _),
    fun e he => inv.loose_ok e (List.mem_filter.mp he).1, inv.target_pos⟩

theorem inv_removeLoose {t : Tab} {s : St} (inv : Inv t s) (ks : List Nat) : Inv t (removeLoose s ks) :=
  inv_filter_loose inv _

/-! ### the theorems -/

theorem inv_empty (t : Tab) {tg : Nat} (h : 0 < tg) : Inv t (St.empty tg) := by
  refine ⟨?_, ?_, ?_, ?_, ?_, ?_, ?_, h⟩ <;> simp [St.empty]

theorem inv_addLoose {t : Tab} {s : St} (inv : Inv t s) (c : Nat) : Inv t (addLoose s c) := by
  unfold addLoose
  cases hf : findLoose s.loose c with
  | some c' =>
    simp only
    split
    · exact inv
    · refine ⟨inv.rows_ok, inv.keys_nodup, inv.ids_nodup, inv.ids_pos, inv.packs_nodup, ?_, ?_, inv.target_pos⟩
      · have : (s.loose.map (fun e => if e.1 = c then (c, c) else e)).map (·.1) = s.loose.map (·.1) := by
          rw [List.map_map]
          apply List.map_congr_left
          intro e _
          simp only [Function.comp]
          split <;> simp_all
        simp only [this]
        exact inv.loose_nodup
      · intro e he
        simp only [List.mem_map] at he
        obtain ⟨x, hx, rfl⟩ := he
        split
        · rfl
        · exact inv.loose_ok x hx
  | none =>
    simp only
    refine ⟨inv.rows_ok, inv.keys_nodup, inv.ids_nodup, inv.ids_pos, inv.packs_nodup, ?_, ?_, inv.target_pos⟩
    · have hn : c ∉ s.loose.map (·.1) := by
        unfold findLoose at hf
        simp [List.find?_eq_none] at hf
        intro hm
        obtain ⟨x, hx, hk⟩ := List.mem_map.mp hm
        exact hf x.1 x.2 hx hk
      simp only [List.map_append, List.map_cons, List.map_nil]
      rw [List.nodup_append]
      refine ⟨inv.loose_nodup, by simp, ?_⟩
      intro a ha b hb hab
      simp at hb
      subst hb
      subst hab
      exact hn ha
    · intro e he
      rcases List.mem_append.mp he with he | he
      · exact inv.loose_ok e he
      · simp at he
        subst he
        rfl

theorem inv_openCur {t : Tab} {s : St} (inv : Inv t s) : Inv t (openCur t s) := by
  unfold openCur
  exact ⟨fun r hr => rowOK_ensurePack _ (inv.rows_ok r hr), inv.keys_nodup, inv.ids_nodup, inv.ids_pos,
    nodup_keys_ensurePack _ inv.packs_nodup, inv.loose_nodup, inv.loose_ok, inv.target_pos⟩

theorem inv_writeObj {t : Tab} {s : St} (inv : Inv t s) (c : Nat) (z : Bool) : Inv t (writeObj t s c z) :=
  inv_write_at inv (choosePack t s) c z (choosePack t s)

theorem inv_addPackedStep {t : Tab} {s : St} (inv : Inv t s) (z nh : Bool) (c : Nat) :
    Inv t (addPackedStep t z nh s c) := by
  unfold addPackedStep
  simp only
  split
  · exact inv_openCur inv
  · exact inv_writeObj (inv_openCur inv) c z

theorem inv_foldl_addPackedStep {t : Tab} (z nh : Bool) (cs : List Nat) {s : St} (inv : Inv t s) :
    Inv t (cs.foldl (addPackedStep t z nh) s) := by
  induction cs generalizing s with
  | nil => exact inv
  | cons c cs ih => exact ih (inv_addPackedStep inv z nh c)

theorem inv_addPacked {t : Tab} {s : St} (inv : Inv t s) (cs : List Nat) (z nh : Bool) :
    Inv t (addPacked t s cs z nh) := by
  unfold addPacked
  split
  · exact inv_set_cur inv _
  · exact inv_foldl_addPackedStep z nh _ (inv_openCur inv)

theorem inv_writeAll {t : Tab} {s : St} (inv : Inv t s) (l : List (Nat × Bool)) : Inv t (writeAll t s l) := by
  induction l generalizing s with
  | nil => exact inv
  | cons e rest ih =>
    obtain ⟨c, z⟩ := e
    exact ih (inv_writeObj inv c z)

theorem inv_packAll {t : Tab} {s s' : St} (inv : Inv t s) {m : Mode} {order : List Nat} {zs : List Bool} {cl : Bool}
    (h : packAll t s m order zs cl = some s') : Inv t s' := by
  unfold packAll at h
  split at h
  · exact absurd h (by simp)
  split at h
  · exact absurd h (by simp)
  split at h
  · exact absurd h (by simp)
  split at h
  · exact absurd h (by simp)
  simp only at h
  split at h
  · cases h
    exact inv_set_cur inv _
  · cases h
    have h1 := inv_writeAll (inv_openCur inv) (order.zip zs)
    split
    · exact inv_removeLoose h1 _
    · exact h1

theorem inv_clean {t : Tab} {s : St} (inv : Inv t s) : Inv t (clean s) :=
  inv_filter_loose inv _

theorem inv_delete {t : Tab} {s : St} (inv : Inv t s) (ks : List Nat) : Inv t (delete s ks).1 := by
  unfold delete
  simp only
  refine ⟨?_, ?_, ?_, ?_, inv.packs_nodup, ?_, ?_, inv.target_pos⟩
  · intro r hr
    exact inv.rows_ok r (List.mem_filter.mp hr).1
  · exact inv.keys_nodup.sublist (List.filter_sublist.map _)
  · exact inv.ids_nodup.sublist (List.filter_sublist.map _)
  · intro r1 h1 r2 h2
    exact inv.ids_pos r1 (List.mem_filter.mp h1).1 r2 (List.mem_filter.mp h2).1
  · exact inv.loose_nodup.sublist (List.filter_sublist.map _)
  · intro e he
    exact inv.loose_ok e (List.mem_filter.mp he).1

theorem inv_reopen {t : Tab} {s : St} (inv : Inv t s) : Inv t (reopen s) :=
  inv_set_cur inv 0

theorem inv_importObjs_aux {t : Tab} {s s' : St} (inv : Inv t s) {o : List Nat} {z tr : Bool} (c1 c2 : Bool)
    (streams : List Nat)
    (h : (if c1 then none
          else if c2 then none
          else match streams with
            | [] => some s
            | _ =>
              let s1 := writeAll t (openCur t s) (o.map (fun c => (c, z)))
              some (if tr then openCur t s1 else s1)) = some s') : Inv t s' := by
  split at h
  · exact absurd h (by simp)
  split at h
  · exact absurd h (by simp)
  split at h
  · cases h
    exact inv
  · cases h
    have h1 := inv_writeAll (inv_openCur inv) (o.map (fun c => (c, z)))
    split
    · exact inv_openCur h1
    · exact h1

theorem inv_importObjs {t : Tab} {s s' : St} (inv : Inv t s) {w o : List Nat} {z same tr : Bool}
    (h : importObjs t s w o z same tr = some s') : Inv t s' := by
  unfold importObjs at h
  exact inv_importObjs_aux inv _ _ _ h

end Dos
