/-
Append-only packs filled in order (C13) at Level B.

`choosePack_ok`, `choosePack_ge`, `append_only_step`, `append_only_run`, `full_never_written` are proved for every
state; the numbering part is an inductive invariant `Numbered ∧ CurFull`, established by the empty container
(`numbered_empty`, `curFull_empty`) and preserved by every operation except repack (`numbered_step`,
`numbered_run`); `numbered_reachable` is the property as stated in C13 for all histories from the empty container.

A note on the formulation.  `Numbered` alone (ids are 0..n-1, all but the last pack full, cached id ≤ n) is *not*
inductive: it does not say that the packs below the cached pack id are full.  The machine-checked witness is kept
below (`numbered_alone_not_inductive_step/_run`): with `packs = [(0, [])]`, `cur = 1`, `target = 1` the handle's
cache points past the half-empty pack 0, `addPacked [7]` creates pack 1, and pack 0 is then a non-last pack below
the target.  Such a state is not reachable from the empty container (the cache only ever holds 0 or a value
returned by `choosePack`, and everything below such a value is full); `CurFull` is that missing clause.
-/
import Dos.Proofs.Step

namespace Dos

/-- the operations of histories "without repack" -/
def Op.noRepack : Op → Bool
  | .repack _ _ => false
  | _ => true

/-! ### pigeonhole and the search for the pack to write to -/

/-- a list that contains the `f` numbers `p, …, p+f-1` has at least `f` entries -/
theorem length_ge_of_range_mem : ∀ (f : Nat) (l : List Nat) (p : Nat),
    (∀ i, p ≤ i → i < p + f → i ∈ l) → f ≤ l.length := by
  intro f
  induction f with
  | zero => intros; omega
  | succ f ih =>
    intro l p h
    have hm : p + f ∈ l := h (p + f) (by omega) (by omega)
    have h1 := ih (l.erase (p + f)) p
      (fun i h1 h2 => (List.mem_erase_of_ne (by omega)).mpr (h i h1 (by omega)))
    rw [List.length_erase_of_mem hm] at h1
    have : 0 < l.length := List.length_pos_of_mem hm
    omega

/-- what the bounded search returns: everything it skipped exists and is full; unless the fuel ran out the
    result is missing or below the target -/
theorem choosePackGo_spec (t : Tab) (packs : Packs) (tg : Nat) : ∀ (f p : Nat),
    p ≤ choosePackGo t packs tg f p ∧ choosePackGo t packs tg f p ≤ p + f ∧
    (∀ i, p ≤ i → i < choosePackGo t packs tg f p →
      ∃ segs, getPack packs i = some segs ∧ tg ≤ segsLen t segs) ∧
    (choosePackGo t packs tg f p < p + f →
      getPack packs (choosePackGo t packs tg f p) = none ∨
      ∃ segs, getPack packs (choosePackGo t packs tg f p) = some segs ∧ segsLen t segs < tg) := by
  intro f
  induction f with
  | zero =>
    intro p
    simp only [choosePackGo]
    exact ⟨Nat.le_refl _, by omega, fun i h1 h2 => by omega, fun h => by omega⟩
  | succ f ih =>
    intro p
    cases hg : getPack packs p with
    | none =>
      have e : choosePackGo t packs tg (f + 1) p = p := by simp only [choosePackGo, hg]
      rw [e]
      exact ⟨Nat.le_refl _, by omega, fun i h1 h2 => by omega, fun _ => Or.inl hg⟩
    | some segs =>
      by_cases hlt : segsLen t segs < tg
      · have e : choosePackGo t packs tg (f + 1) p = p := by simp only [choosePackGo, hg, hlt, if_true]
        rw [e]
        exact ⟨Nat.le_refl _, by omega, fun i h1 h2 => by omega, fun _ => Or.inr ⟨segs, hg, hlt⟩⟩
      · have e : choosePackGo t packs tg (f + 1) p = choosePackGo t packs tg f (p + 1) := by
          simp only [choosePackGo, hg, hlt, if_false]
        rw [e]
        obtain ⟨h1, h2, h3, h4⟩ := ih (p + 1)
        refine ⟨by omega, by omega, ?_, fun h => h4 (by omega)⟩
        intro i hi1 hi2
        by_cases hip : i = p
        · subst hip
          exact ⟨segs, hg, by omega⟩
        · exact h3 i (by omega) hi2

/-- the fuel of `choosePackGo` always suffices: the pack chosen is reached after skipping only full packs, it
    is at most `cur + packs.length`, and it is missing or below the target -/
theorem choosePack_spec (t : Tab) (s : St) :
    s.cur ≤ choosePack t s ∧
    (∀ i, s.cur ≤ i → i < choosePack t s →
      ∃ segs, getPack s.packs i = some segs ∧ s.target ≤ segsLen t segs) ∧
    (getPack s.packs (choosePack t s) = none ∨
      ∃ segs, getPack s.packs (choosePack t s) = some segs ∧ segsLen t segs < s.target) := by
  obtain ⟨h1, h2, h3, h4⟩ := choosePackGo_spec t s.packs s.target (s.packs.length + 1) s.cur
  refine ⟨h1, h3, ?_⟩
  by_cases hlt : choosePack t s < s.cur + (s.packs.length + 1)
  · exact h4 hlt
  · exfalso
    have heq : choosePack t s = s.cur + (s.packs.length + 1) := by
      unfold choosePack at hlt ⊢
      omega
    have := length_ge_of_range_mem (s.packs.length + 1) (s.packs.map (·.1)) s.cur (by
      intro i hi1 hi2
      obtain ⟨segs, hs, _⟩ := h3 i hi1 (by unfold choosePack at heq; omega)
      exact mem_keys_of_getPack hs)
    simp only [List.length_map] at this
    omega

/-- the pack chosen for writing never exists-and-is-full (the fuel of `choosePackGo` always suffices) -/
theorem choosePack_ok (t : Tab) (s : St) (nd : (s.packs.map (·.1)).Nodup) :
    getPack s.packs (choosePack t s) = none ∨
    ∃ segs, getPack s.packs (choosePack t s) = some segs ∧ segsLen t segs < s.target := by
  have _ := nd
  exact (choosePack_spec t s).2.2

theorem choosePack_ge (t : Tab) (s : St) : s.cur ≤ choosePack t s :=
  (choosePack_spec t s).1

/-! ### one induction principle for all operations except repack

Without repack the only things that happen to `(packs, cur, target)` are: `openCur`, `writeObj`, caching the
chosen pack id, and forgetting the cache (`reopen`). -/

section induct

variable {t : Tab} {Q : Packs → Nat → Nat → Prop}

/-- the four hypotheses of the induction principle, bundled -/
structure Closed (t : Tab) (Q : Packs → Nat → Nat → Prop) : Prop where
  openCur : ∀ s : St, Q s.packs s.cur s.target →
    Q (ensurePack s.packs (choosePack t s)) (choosePack t s) s.target
  write : ∀ (s : St) (g : Seg), Q s.packs s.cur s.target →
    Q (setPack s.packs (choosePack t s) ((getPack s.packs (choosePack t s)).getD [] ++ [g])) (choosePack t s) s.target
  setCur : ∀ s : St, Q s.packs s.cur s.target → Q s.packs (choosePack t s) s.target
  zeroCur : ∀ s : St, Q s.packs s.cur s.target → Q s.packs 0 s.target

abbrev QS (Q : Packs → Nat → Nat → Prop) (s : St) : Prop := Q s.packs s.cur s.target

theorem qs_openCur (cl : Closed t Q) {s : St} (h : QS Q s) : QS Q (openCur t s) :=
  cl.openCur s h

theorem qs_writeObj (cl : Closed t Q) {s : St} (h : QS Q s) (c : Nat) (z : Bool) : QS Q (writeObj t s c z) :=
  cl.write s ⟨c, z⟩ h

theorem qs_addPackedStep (cl : Closed t Q) {s : St} (h : QS Q s) (z nh : Bool) (c : Nat) :
    QS Q (addPackedStep t z nh s c) := by
  unfold addPackedStep
  simp only
  split
  · exact qs_openCur cl h
  · exact qs_writeObj cl (qs_openCur cl h) c z

theorem qs_foldl_addPackedStep (cl : Closed t Q) (z nh : Bool) (cs : List Nat) {s : St} (h : QS Q s) :
    QS Q (cs.foldl (addPackedStep t z nh) s) := by
  induction cs generalizing s with
  | nil => exact h
  | cons c cs ih => exact ih (qs_addPackedStep cl h z nh c)

theorem qs_addPacked (cl : Closed t Q) {s : St} (h : QS Q s) (cs : List Nat) (z nh : Bool) :
    QS Q (addPacked t s cs z nh) := by
  unfold addPacked
  split
  · exact cl.setCur s h
  · exact qs_foldl_addPackedStep cl z nh _ (qs_openCur cl h)

theorem qs_writeAll (cl : Closed t Q) {s : St} (h : QS Q s) (l : List (Nat × Bool)) : QS Q (writeAll t s l) := by
  induction l generalizing s with
  | nil => exact h
  | cons e rest ih =>
    obtain ⟨c, z⟩ := e
    exact ih (qs_writeObj cl h c z)

theorem qs_packAll (cl : Closed t Q) {s s' : St} (hq : QS Q s) {m : Mode} {order : List Nat} {zs : List Bool}
    {c : Bool} (h : packAll t s m order zs c = some s') : QS Q s' := by
  unfold packAll at h
  split at h
  · exact absurd h (by simp)
  split at h
  · exact absurd h (by simp)
  split at h
  · exact absurd h (by simp)
  split at h
  · exact absurd h (by simp)
  simp only at h
  split at h
  · cases h
    exact cl.setCur s hq
  · cases h
    have h1 := qs_writeAll cl (qs_openCur cl hq) (order.zip zs)
    split
    · exact h1
    · exact h1

theorem qs_addLoose {s : St} (h : QS Q s) (c : Nat) : QS Q (addLoose s c) := by
  unfold addLoose
  split
  · split
    · exact h
    · exact h
  · exact h

theorem qs_loosen {s s' : St} (hq : QS Q s) {k : Nat} (h : loosen t s k = some s') : QS Q s' := by
  unfold loosen at h
  split at h
  · cases h; exact hq
  · split at h
    · cases h; exact qs_addLoose hq _
    · cases h

theorem qs_importObjs_aux (cl : Closed t Q) {s s' : St} (hq : QS Q s) {o : List Nat} {z tr : Bool} (c1 c2 : Bool)
    (streams : List Nat)
    (h : (if c1 then none
          else if c2 then none
          else match streams with
            | [] => some s
            | _ =>
              let s1 := writeAll t (Dos.openCur t s) (o.map (fun c => (c, z)))
              some (if tr then Dos.openCur t s1 else s1)) = some s') : QS Q s' := by
  split at h
  · exact absurd h (by simp)
  split at h
  · exact absurd h (by simp)
  split at h
  · cases h
    exact hq
  · cases h
    have h1 := qs_writeAll cl (qs_openCur cl hq) (o.map (fun c => (c, z)))
    split
    · exact qs_openCur cl h1
    · exact h1

theorem qs_importObjs (cl : Closed t Q) {s s' : St} (hq : QS Q s) {w o : List Nat} {z same tr : Bool}
    (h : importObjs t s w o z same tr = some s') : QS Q s' := by
  unfold importObjs at h
  exact qs_importObjs_aux cl hq _ _ _ h

/-- every operation except repack preserves a `Closed` predicate on `(packs, cur, target)` -/
theorem qs_step (cl : Closed t Q) {s s' : St} {op : Op} (hop : op.noRepack = true)
    (h : step t s op = some s') (hq : QS Q s) : QS Q s' := by
  cases op with
  | addLoose c => simp [step] at h; subst h; exact qs_addLoose hq c
  | addPacked cs z nh => simp [step] at h; subst h; exact qs_addPacked cl hq cs z nh
  | packAll m order zs c => exact qs_packAll cl hq h
  | clean => simp [step] at h; subst h; exact hq
  | delete ks => simp [step] at h; subst h; exact hq
  | repack m plan => simp [Op.noRepack] at hop
  | loosen k => exact qs_loosen hq h
  | reopen => simp [step] at h; subst h; exact cl.zeroCur s hq
  | importObjs w o z same tr => exact qs_importObjs cl hq h

theorem qs_run (cl : Closed t Q) {ops : List Op} {s s' : St} (hops : ∀ op ∈ ops, op.noRepack = true)
    (h : run t s ops = some s') (hq : QS Q s) : QS Q s' := by
  induction ops generalizing s with
  | nil => simp [run] at h; subst h; exact hq
  | cons op ops ih =>
    simp only [run] at h
    cases hs : step t s op with
    | none => simp [hs] at h
    | some s1 =>
      simp [hs] at h
      exact ih (fun o ho => hops o (List.mem_cons_of_mem _ ho)) h
        (qs_step cl (hops op List.mem_cons_self) hs hq)

end induct

/-! ### append-only -/

/-- every pack of `a` is still there in `b`, possibly longer at its end -/
def Grow (a b : Packs) : Prop :=
  ∀ p segs, getPack a p = some segs → ∃ ext, getPack b p = some (segs ++ ext)

theorem Grow.refl (a : Packs) : Grow a a := fun _ segs h => ⟨[], by simpa using h⟩

theorem Grow.trans {a b c : Packs} (h1 : Grow a b) (h2 : Grow b c) : Grow a c := by
  intro p segs h
  obtain ⟨e1, h3⟩ := h1 p segs h
  obtain ⟨e2, h4⟩ := h2 p _ h3
  exact ⟨e1 ++ e2, by rw [h4, List.append_assoc]⟩

theorem grow_setPack_append (a : Packs) (q : Nat) (ext : List Seg) :
    Grow a (setPack a q ((getPack a q).getD [] ++ ext)) := by
  intro p segs h
  by_cases hp : p = q
  · subst hp
    exact ⟨ext, by rw [getPack_setPack_eq, h]; rfl⟩
  · exact ⟨[], by rw [getPack_setPack_ne _ _ _ _ hp, h]; simp⟩

theorem grow_ensurePack (a : Packs) (q : Nat) : Grow a (ensurePack a q) := by
  unfold ensurePack
  cases hg : getPack a q with
  | some segs => exact Grow.refl a
  | none =>
    have := grow_setPack_append a q []
    simpa [hg] using this

theorem closed_grow (t : Tab) (a : Packs) : Closed t (fun packs _ _ => Grow a packs) where
  openCur := fun _ h => h.trans (grow_ensurePack _ _)
  write := fun _ _ h => h.trans (grow_setPack_append _ _ _)
  setCur := fun _ h => h
  zeroCur := fun _ h => h

/-- without repack a pack file only ever grows at its end -/
theorem append_only_step {t : Tab} {s s' : St} {op : Op} (hop : op.noRepack = true) (h : step t s op = some s') :
    ∀ p segs, getPack s.packs p = some segs → ∃ ext, getPack s'.packs p = some (segs ++ ext) :=
  qs_step (closed_grow t s.packs) hop h (Grow.refl _)

theorem append_only_run {t : Tab} {ops : List Op} {s s' : St} (hops : ∀ op ∈ ops, op.noRepack = true)
    (h : run t s ops = some s') :
    ∀ p segs, getPack s.packs p = some segs → ∃ ext, getPack s'.packs p = some (segs ++ ext) :=
  qs_run (closed_grow t s.packs) hops h (Grow.refl _)

/-! ### full packs are left alone -/

/-- the full packs of `a` (w.r.t. target `tg`) are unchanged in `b`, and the target is still `tg` -/
def KeepFull (t : Tab) (a : Packs) (tg : Nat) (b : Packs) (tg' : Nat) : Prop :=
  tg' = tg ∧ ∀ p segs, getPack a p = some segs → tg ≤ segsLen t segs → getPack b p = some segs

theorem keepFull_setPack {t : Tab} {a : Packs} {tg : Nat} {s : St} (h : KeepFull t a tg s.packs s.target)
    (segs' : List Seg) : KeepFull t a tg (setPack s.packs (choosePack t s) segs') s.target := by
  refine ⟨h.1, ?_⟩
  intro p segs hp hfull
  have h1 := h.2 p segs hp hfull
  have hne : p ≠ choosePack t s := by
    intro heq
    rcases (choosePack_spec t s).2.2 with hn | ⟨segs2, hs2, hlt⟩
    · rw [← heq, h1] at hn; cases hn
    · rw [← heq, h1] at hs2
      cases hs2
      rw [h.1] at hlt
      omega
  rw [getPack_setPack_ne _ _ _ _ hne]
  exact h1

theorem keepFull_ensurePack {t : Tab} {a : Packs} {tg : Nat} {s : St} (h : KeepFull t a tg s.packs s.target) :
    KeepFull t a tg (ensurePack s.packs (choosePack t s)) s.target := by
  unfold ensurePack
  cases hg : getPack s.packs (choosePack t s) with
  | some segs => exact h
  | none => exact keepFull_setPack h []

theorem closed_keepFull (t : Tab) (a : Packs) (tg : Nat) : Closed t (fun packs _ tg' => KeepFull t a tg packs tg') where
  openCur := fun _ h => keepFull_ensurePack h
  write := fun _ _ h => keepFull_setPack h _
  setCur := fun _ h => h
  zeroCur := fun _ h => h

/-- a pack that has reached the target size is never written again (by a handle whose cache is valid: no repack) -/
theorem full_never_written {t : Tab} {s s' : St} (inv : Inv t s) {op : Op} (hop : op.noRepack = true)
    (h : step t s op = some s') :
    ∀ p segs, getPack s.packs p = some segs → s.target ≤ segsLen t segs → getPack s'.packs p = some segs := by
  have _ := inv
  have h0 : KeepFull t s.packs s.target s.packs s.target := ⟨rfl, fun _ _ hp _ => hp⟩
  exact (qs_step (closed_keepFull t s.packs s.target) hop h h0).2

/-! ### packs are numbered in order -/

/-- packs are numbered 0..n-1, all but the last have reached the target, the cached pack id is in range -/
structure Numbered (t : Tab) (s : St) : Prop where
  consecutive : ∀ p, p ∈ s.packs.map (·.1) ↔ p < s.packs.length
  full : ∀ p segs, getPack s.packs p = some segs → p + 1 < s.packs.length → s.target ≤ segsLen t segs
  cur_le : s.cur ≤ s.packs.length

theorem numbered_empty (t : Tab) (tg : Nat) : Numbered t (St.empty tg) := by
  refine ⟨?_, ?_, ?_⟩
  · intro p; simp [St.empty]
  · intro p segs h; simp [St.empty, getPack] at h
  · simp [St.empty]

/-- the clause missing from `Numbered`: every pack below the cached pack id is full -/
def CurFull (t : Tab) (s : St) : Prop :=
  ∀ p segs, getPack s.packs p = some segs → p < s.cur → s.target ≤ segsLen t segs

theorem curFull_empty (t : Tab) (tg : Nat) : CurFull t (St.empty tg) := by
  intro p segs h
  simp [St.empty, getPack] at h

/-- `Numbered ∧ CurFull` on `(packs, cur, target)` -/
structure Num3 (t : Tab) (packs : Packs) (cur tg : Nat) : Prop where
  consecutive : ∀ p, p ∈ packs.map (·.1) ↔ p < packs.length
  full : ∀ p segs, getPack packs p = some segs → p + 1 < packs.length → tg ≤ segsLen t segs
  cur_le : cur ≤ packs.length
  cur_full : ∀ p segs, getPack packs p = some segs → p < cur → tg ≤ segsLen t segs

theorem num3_iff (t : Tab) (s : St) : Num3 t s.packs s.cur s.target ↔ Numbered t s ∧ CurFull t s :=
  ⟨fun h => ⟨⟨h.consecutive, h.full, h.cur_le⟩, h.cur_full⟩,
   fun h => ⟨h.1.consecutive, h.1.full, h.1.cur_le, h.2⟩⟩

/-- an existing key has a pack -/
theorem getPack_some_of_mem {ps : Packs} {p : Nat} (h : p ∈ ps.map (·.1)) : ∃ segs, getPack ps p = some segs := by
  induction ps with
  | nil => simp at h
  | cons e rest ih =>
    obtain ⟨q, gs⟩ := e
    by_cases h1 : q = p
    · exact ⟨gs, by simp [getPack, h1]⟩
    · simp only [List.map_cons, List.mem_cons] at h
      rcases h with h | h
      · exact absurd h.symm h1
      · obtain ⟨segs, hs⟩ := ih h
        exact ⟨segs, by simp [getPack, h1, hs]⟩

/-- under `Num3` the pack chosen is the last one (below the target) or the next one (all packs full) -/
theorem num3_choose {t : Tab} {s : St} (h : Num3 t s.packs s.cur s.target) :
    (∀ p segs, getPack s.packs p = some segs → p < choosePack t s → s.target ≤ segsLen t segs) ∧
    ((getPack s.packs (choosePack t s) = none ∧ choosePack t s = s.packs.length) ∨
     (∃ segs, getPack s.packs (choosePack t s) = some segs ∧ choosePack t s + 1 = s.packs.length)) := by
  obtain ⟨h1, h2, h3⟩ := choosePack_spec t s
  have hbelow : ∀ p segs, getPack s.packs p = some segs → p < choosePack t s → s.target ≤ segsLen t segs := by
    intro p segs hp hlt
    by_cases hc : p < s.cur
    · exact h.cur_full p segs hp hc
    · obtain ⟨segs2, hs2, hf⟩ := h2 p (by omega) hlt
      rw [hp] at hs2
      cases hs2
      exact hf
  have hle : choosePack t s ≤ s.packs.length := by
    by_cases hc : choosePack t s = s.cur
    · rw [hc]; exact h.cur_le
    · obtain ⟨segs2, hs2, _⟩ := h2 (choosePack t s - 1) (by omega) (by omega)
      have := (h.consecutive _).mp (mem_keys_of_getPack hs2)
      omega
  refine ⟨hbelow, ?_⟩
  rcases h3 with hn | ⟨segs, hs, hlt⟩
  · left
    refine ⟨hn, ?_⟩
    have : ¬ choosePack t s < s.packs.length := by
      intro hlt
      obtain ⟨segs, hs⟩ := getPack_some_of_mem ((h.consecutive _).mpr hlt)
      rw [hn] at hs
      cases hs
    omega
  · right
    refine ⟨segs, hs, ?_⟩
    have hlt2 := (h.consecutive _).mp (mem_keys_of_getPack hs)
    by_cases hc : choosePack t s + 1 < s.packs.length
    · have := h.full _ _ hs hc
      omega
    · omega

theorem length_setPack (ps : Packs) (p : Nat) (segs : List Seg) :
    (setPack ps p segs).length = if p ∈ ps.map (·.1) then ps.length else ps.length + 1 := by
  have h := congrArg List.length (keys_setPack ps p segs)
  simp only [List.length_map] at h
  rw [h]
  split <;> simp

/-- writing anything to the chosen pack and caching its id keeps `Num3` -/
theorem num3_setPack {t : Tab} {s : St} (h : Num3 t s.packs s.cur s.target) (segs' : List Seg) :
    Num3 t (setPack s.packs (choosePack t s) segs') (choosePack t s) s.target := by
  obtain ⟨hbelow, hcase⟩ := num3_choose h
  have hbelow' : ∀ p segs, getPack (setPack s.packs (choosePack t s) segs') p = some segs →
      p < choosePack t s → s.target ≤ segsLen t segs := by
    intro p segs hp hlt
    rw [getPack_setPack_ne _ _ _ _ (by omega)] at hp
    exact hbelow p segs hp hlt
  rcases hcase with ⟨hn, hq⟩ | ⟨segs0, hs0, hq⟩
  · -- a new pack is created; all the old ones are full
    have hnm : choosePack t s ∉ s.packs.map (·.1) := by
      intro hm
      have := (h.consecutive _).mp hm
      omega
    have hlen : (setPack s.packs (choosePack t s) segs').length = s.packs.length + 1 := by
      rw [length_setPack, if_neg hnm]
    refine ⟨?_, ?_, by omega, hbelow'⟩
    · intro p
      rw [keys_setPack, if_neg hnm, hlen, List.mem_append, h.consecutive p]
      simp only [List.mem_singleton]
      omega
    · intro p segs hp hlt
      exact hbelow' p segs hp (by omega)
  · -- the last pack is written
    have hm : choosePack t s ∈ s.packs.map (·.1) := mem_keys_of_getPack hs0
    have hlen : (setPack s.packs (choosePack t s) segs').length = s.packs.length := by
      rw [length_setPack, if_pos hm]
    refine ⟨?_, ?_, by omega, hbelow'⟩
    · intro p
      rw [keys_setPack, if_pos hm, hlen]
      exact h.consecutive p
    · intro p segs hp hlt
      exact hbelow' p segs hp (by omega)

theorem num3_ensurePack {t : Tab} {s : St} (h : Num3 t s.packs s.cur s.target) :
    Num3 t (ensurePack s.packs (choosePack t s)) (choosePack t s) s.target := by
  unfold ensurePack
  cases hg : getPack s.packs (choosePack t s) with
  | none => exact num3_setPack h []
  | some segs =>
    obtain ⟨hbelow, hcase⟩ := num3_choose h
    have hlt := (h.consecutive _).mp (mem_keys_of_getPack hg)
    show Num3 t s.packs (choosePack t s) s.target
    exact ⟨h.consecutive, h.full, by omega, hbelow⟩

theorem num3_setCur {t : Tab} {s : St} (h : Num3 t s.packs s.cur s.target) :
    Num3 t s.packs (choosePack t s) s.target := by
  obtain ⟨hbelow, hcase⟩ := num3_choose h
  refine ⟨h.consecutive, h.full, ?_, hbelow⟩
  rcases hcase with ⟨_, hq⟩ | ⟨_, _, hq⟩ <;> omega

theorem closed_num3 (t : Tab) : Closed t (Num3 t) where
  openCur := fun _ h => num3_ensurePack h
  write := fun _ _ h => num3_setPack h _
  setCur := fun _ h => num3_setCur h
  zeroCur := fun _ h => ⟨h.consecutive, h.full, Nat.zero_le _, fun _ _ _ hlt => absurd hlt (Nat.not_lt_zero _)⟩

/-- `Numbered` together with `CurFull` is preserved by every operation except repack -/
theorem numbered_step {t : Tab} {s s' : St} (inv : Inv t s) (num : Numbered t s) (cf : CurFull t s)
    {op : Op} (hop : op.noRepack = true) (h : step t s op = some s') : Numbered t s' ∧ CurFull t s' := by
  have _ := inv
  exact (num3_iff t s').mp (qs_step (closed_num3 t) hop h ((num3_iff t s).mpr ⟨num, cf⟩))

/-- … and by every history without repack -/
theorem numbered_run {t : Tab} (wf : t.WF) {ops : List Op} {s s' : St} (inv : Inv t s) (num : Numbered t s)
    (cf : CurFull t s) (hops : ∀ op ∈ ops, op.noRepack = true) (h : run t s ops = some s') :
    Numbered t s' ∧ CurFull t s' := by
  have _ := wf
  have _ := inv
  exact (num3_iff t s').mp (qs_run (closed_num3 t) hops h ((num3_iff t s).mpr ⟨num, cf⟩))

/-- what C13 needs: every history without repack that starts from the empty container ends in a state whose
    packs are numbered in order with all but the last one full -/
theorem numbered_reachable {t : Tab} {tg : Nat} {ops : List Op} {s' : St}
    (hops : ∀ op ∈ ops, op.noRepack = true) (h : run t (St.empty tg) ops = some s') : Numbered t s' :=
  ((num3_iff t s').mp (qs_run (closed_num3 t) hops h
    ((num3_iff t _).mpr ⟨numbered_empty t tg, curFull_empty t tg⟩))).1

/-! ### `Numbered` without `CurFull` is not inductive -/

/-- the counterexample state: one empty pack, the cache pointing past it -/
def cexState : St := { loose := [], packs := [(0, [])], rows := [], cur := 1, target := 1 }

theorem cex_inv (t : Tab) : Inv t cexState := by
  refine ⟨?_, ?_, ?_, ?_, ?_, ?_, ?_, ?_⟩ <;> simp [cexState]

theorem cex_numbered (t : Tab) : Numbered t cexState := by
  refine ⟨?_, ?_, ?_⟩
  · intro p; simp [cexState]
  · intro p segs _ h; simp [cexState] at h
  · simp [cexState]

theorem cex_step (t : Tab) : step t cexState (.addPacked [7] false false) =
    some { loose := [], packs := [(0, []), (1, [⟨7, false⟩])],
           rows := [{ id := 1, key := 7, pack := 1, off := 0, len := t.size 7, z := false, size := t.size 7 }],
           cur := 1, target := 1 } := by
  simp [step, addPacked, addPackedStep, openCur, writeObj, choosePack, choosePackGo, ensurePack, getPack, setPack,
    cexState, hasRow, rowKeys, insertIgnore, nextId, maxId, Seg.len]

theorem cex_not_numbered (t : Tab) : ¬ Numbered t
    { loose := [], packs := [(0, []), (1, [⟨7, false⟩])],
      rows := [{ id := 1, key := 7, pack := 1, off := 0, len := t.size 7, z := false, size := t.size 7 }],
      cur := 1, target := 1 } := by
  intro h
  have := h.full 0 [] (by simp [getPack]) (by simp)
  simp at this

/-- `Numbered` alone is not preserved by one step -/
theorem numbered_alone_not_inductive_step (t : Tab) :
    ¬ (∀ {s s' : St}, Inv t s → Numbered t s → ∀ {op : Op}, op.noRepack = true → step t s op = some s' →
        Numbered t s') :=
  fun h => cex_not_numbered t (h (cex_inv t) (cex_numbered t) (op := .addPacked [7] false false) rfl (cex_step t))

/-- … nor by histories (for any table, well-formed or not) -/
theorem numbered_alone_not_inductive_run (t : Tab) :
    ¬ (∀ {ops : List Op} {s s' : St}, Inv t s → Numbered t s → (∀ op ∈ ops, op.noRepack = true) →
        run t s ops = some s' → Numbered t s') := by
  intro h
  refine cex_not_numbered t (h (ops := [.addPacked [7] false false]) (cex_inv t) (cex_numbered t) ?_ ?_)
  · intro op hop
    simp only [List.mem_singleton] at hop
    subst hop
    rfl
  · simp only [run, cex_step]

end Dos
