/-
A note on `heldBy_exec_addPacked`.  The state-based count (`heldBy`: one sandbox file, and a pack + a lock file per held
lock) and the action-based count (`held`) agree except between the two halves of a (lock file, pack file) pair: right
after `lock p` (before `pkOpen p`) and right after `pkClose p` (before `unlock p`) the state-based count is one ahead
(witness: `heldBy_exec_addPacked_offByOne_witness`).  The exact relation is `heldBy_exec_addPacked`:
    heldBy (execAll (ofSt s) (acts.take k)) = held (acts.take k) + (if midPair (acts.take k) then 1 else 0);
corollaries `heldBy_exec_addPacked_of_not_mid`, `heldBy_exec_addPacked_bounds` (`held ≤ heldBy ≤ held + 1`, `heldBy ≤ 2`
at every prefix) and `heldBy_exec_addPacked_done` (both are 0 for the whole program).

C18 at the level of the I/O model: every operation closes what it opens, never holds more than three descriptors of the
container folder at once (pack + lock + sandbox / one transient), a failed operation's handlers close everything, and the
streaming loops move data in pieces bounded by the chunk size whatever the object size.
-/
import Dos.Fd
import Dos.IOSpec
import Dos.Proofs.FdAux

namespace Dos.Fd
open Dos Dos.IO

theorem held_append (a b : List Act) : held (a ++ b) = held a + held b := held_app a b

theorem held_map_zero {α} (f : α → Act) (l : List α) (h : ∀ a, delta (f a) = 0) : held (l.map f) = 0 := by
  apply held_eq_zero
  intro a ha
  obtain ⟨b, _, rfl⟩ := List.mem_map.mp ha
  exact h b

/-- `actsAddLoose` is `sbCreate`, four actions that leave the sandbox open, `sbClose`, and actions that open nothing -/
theorem actsAddLoose_shape (s : St) (c : Nat) (mk : Bool) :
    ∃ rest : List Act, actsAddLoose s c mk = [.sbCreate, .sbWrite c, .sbFlush, .sbFsync, .dirSync, .sbClose] ++ rest ∧
      (∀ a ∈ rest, delta a = 0) := by
  unfold actsAddLoose
  refine ⟨_, by rw [List.append_assoc], ?_⟩
  intro a ha
  rcases List.mem_append.mp ha with ha | ha
  · cases mk <;> simp at ha
    subst ha; rfl
  · cases hf : findLoose s.loose c with
    | none =>
      rw [hf] at ha
      simp at ha
      rcases ha with rfl | rfl <;> rfl
    | some c' =>
      rw [hf] at ha
      simp only at ha
      by_cases hc : c' = c
      · rw [if_pos hc] at ha
        simp at ha
        rcases ha with rfl | rfl <;> rfl
      · rw [if_neg hc] at ha
        simp at ha
        rcases ha with rfl | rfl | rfl <;> rfl

/-- every operation's program is balanced: nothing stays open when it has run to completion -/
theorem balanced_addLoose (s : St) (c : Nat) (mk : Bool) : held (actsAddLoose s c mk) = 0 := by
  obtain ⟨rest, e, hz⟩ := actsAddLoose_shape s c mk
  rw [e, held_append, held_eq_zero hz]
  simp [held, delta]

theorem balanced_addPacked (t : Tab) (s : St) (cs : List Nat) (z nh rt : Bool) : held (actsAddPacked t s cs z nh rt) = 0 := by
  have h := (G_addPacked (x0 := ofSt s) rfl rfl t s cs z nh rt).hd
  simpa using h

theorem balanced_packAll (t : Tab) (s : St) (order : List Nat) (zs : List Bool) (cl : Bool) :
    held (actsPackAll t s order zs cl) = 0 := by
  have h := (G_packAll (x0 := ofSt s) rfl rfl t s order zs cl).hd
  simpa using h

theorem balanced_clean (s : St) (order : List Nat) : held (actsClean s order) = 0 :=
  held_map_zero _ _ (fun _ => rfl)

theorem balanced_delete (s : St) (ks : List Nat) : held (actsDelete s ks) = 0 := by
  unfold actsDelete
  rw [held_append, held_append, held_map_zero _ _ (fun _ => rfl), held_map_zero _ _ (fun _ => rfl)]
  rfl

theorem balanced_repackPack (t : Tab) (s : St) (p : Nat) (zs : List Bool) : held (actsRepackPack t s p zs) = 0 := by
  unfold actsRepackPack
  simp only
  split
  · split <;> rfl
  · simp only [held_append, held_map_zero (fun g => Act.pkWrite tmpId g) _ (fun _ => rfl),
      held_map_zero Act.sqlMove _ (fun _ => rfl), List.cons_append, List.nil_append, held, delta]
    omega

/-- at every point of every operation at most two descriptors are held (a pack and its lock file, or the sandbox file):
    the number does not grow with the number of objects or packs written -/
theorem bounded_addPacked (t : Tab) (s : St) (cs : List Nat) (z nh rt : Bool) (k : Nat) :
    0 ≤ held ((actsAddPacked t s cs z nh rt).take k) ∧ held ((actsAddPacked t s cs z nh rt).take k) ≤ 2 :=
  ((G_addPacked (x0 := ofSt s) rfl rfl t s cs z nh rt).pre _ (List.take_prefix k _)).2.2

theorem bounded_packAll (t : Tab) (s : St) (order : List Nat) (zs : List Bool) (cl : Bool) (k : Nat) :
    0 ≤ held ((actsPackAll t s order zs cl).take k) ∧ held ((actsPackAll t s order zs cl).take k) ≤ 2 :=
  ((G_packAll (x0 := ofSt s) rfl rfl t s order zs cl).pre _ (List.take_prefix k _)).2.2

theorem held_take_zero {l : List Act} (h : ∀ a ∈ l, delta a = 0) (k : Nat) : held (l.take k) = 0 :=
  held_eq_zero (fun a ha => h a (List.mem_of_mem_take ha))

theorem bounded_addLoose (s : St) (c : Nat) (mk : Bool) (k : Nat) :
    0 ≤ held ((actsAddLoose s c mk).take k) ∧ held ((actsAddLoose s c mk).take k) ≤ 1 := by
  obtain ⟨rest, e, hz⟩ := actsAddLoose_shape s c mk
  rw [e, List.take_append, held_append, held_take_zero hz]
  rcases k with _ | _ | _ | _ | _ | _ | _ | k <;> simp [held, delta]

/-- the statement `heldBy (execAll (ofSt s) (acts.take k)) = held (acts.take k)` fails one action into every
    non-empty direct-to-pack write: the lock file is open, the pack is not yet (see the comment at the top) -/
theorem heldBy_exec_addPacked_offByOne_witness (t : Tab) (s : St) (c : Nat) (z nh rt : Bool) :
    heldBy (execAll (ofSt s) ((actsAddPacked t s [c] z nh rt).take 1)) = 2 ∧
    held ((actsAddPacked t s [c] z nh rt).take 1) = 1 := by
  have hw : ∃ p rest, (wAddPacked t z nh rt { s := s, openP := none, rows := [], acts := [] } c).acts
      = Act.lock p :: rest := by
    refine ⟨(openCur t s).cur, List.head?_eq_some_iff.mp ?_⟩
    unfold wAddPacked
    simp only
    split <;> (try split) <;> rfl
  have e : ∃ p rest, actsAddPacked t s [c] z nh rt = Act.lock p :: rest := by
    obtain ⟨p, rest, hw⟩ := hw
    unfold actsAddPacked wFinish
    simp only [List.foldl]
    split
    · rw [hw]; exact ⟨_, _, rfl⟩
    · rw [hw]; exact ⟨_, _, rfl⟩
  obtain ⟨p, rest, e⟩ := e
  rw [e]
  simp [execAll, exec, heldBy, ofSt, held, delta]

/-- the state-based count agrees with the action-based one along any run from a quiescent state, except between the
    two halves of a (lock file, pack file) pair, where the state-based count is one ahead -/
theorem heldBy_exec_addPacked (t : Tab) (s : St) (cs : List Nat) (z nh rt : Bool) (k : Nat) :
    heldBy (execAll (ofSt s) ((actsAddPacked t s cs z nh rt).take k)) =
      held ((actsAddPacked t s cs z nh rt).take k) + (if midPair ((actsAddPacked t s cs z nh rt).take k) then 1 else 0) :=
  ((G_addPacked (x0 := ofSt s) rfl rfl t s cs z nh rt).pre _ (List.take_prefix k _)).1

theorem heldBy_exec_addPacked_of_not_mid (t : Tab) (s : St) (cs : List Nat) (z nh rt : Bool) (k : Nat)
    (h : midPair ((actsAddPacked t s cs z nh rt).take k) = false) :
    heldBy (execAll (ofSt s) ((actsAddPacked t s cs z nh rt).take k)) = held ((actsAddPacked t s cs z nh rt).take k) := by
  rw [heldBy_exec_addPacked, h]; simp

theorem heldBy_exec_addPacked_bounds (t : Tab) (s : St) (cs : List Nat) (z nh rt : Bool) (k : Nat) :
    held ((actsAddPacked t s cs z nh rt).take k) ≤ heldBy (execAll (ofSt s) ((actsAddPacked t s cs z nh rt).take k)) ∧
    heldBy (execAll (ofSt s) ((actsAddPacked t s cs z nh rt).take k)) ≤ held ((actsAddPacked t s cs z nh rt).take k) + 1 ∧
    heldBy (execAll (ofSt s) ((actsAddPacked t s cs z nh rt).take k)) ≤ 2 := by
  have h := heldBy_exec_addPacked t s cs z nh rt k
  have b := bounded_addPacked t s cs z nh rt k
  have b2 := ((G_addPacked (x0 := ofSt s) rfl rfl t s cs z nh rt).pre _ (List.take_prefix k _)).2.1
  generalize heldBy _ = H at h b2 ⊢
  generalize held _ = A at h b ⊢
  generalize midPair _ = m at h
  cases m <;> simp at h <;> omega

theorem heldBy_exec_addPacked_done (t : Tab) (s : St) (cs : List Nat) (z nh rt : Bool) :
    heldBy (execAll (ofSt s) (actsAddPacked t s cs z nh rt)) = held (actsAddPacked t s cs z nh rt) := by
  have g := G_addPacked (x0 := ofSt s) rfl rfl t s cs z nh rt
  have h := (g.pre _ (List.prefix_refl _)).1
  rw [g.mid] at h
  simpa using h

/-- … so after a fault anywhere the handlers (`finally` blocks) release every descriptor -/
theorem fault_releases_addPacked (t : Tab) (s : St) (cs : List Nat) (z nh rt : Bool) (k : Nat) :
    heldBy (runFault (ofSt s) (actsAddPacked t s cs z nh rt) k) = 0 :=
  runFault_heldBy _ _ _

theorem fault_releases_addLoose (s : St) (c : Nat) (mk : Bool) (k : Nat) :
    heldBy (runFault (ofSt s) (actsAddLoose s c mk) k) = 0 :=
  runFault_heldBy _ _ _

theorem pieces_spec (chunk : Nat) (hc : 0 < chunk) : ∀ (f size : Nat), size ≤ f →
    (∀ n ∈ pieces chunk f size, 0 < n ∧ n ≤ chunk) ∧ (pieces chunk f size).sum = size ∧
    (pieces chunk f size).length = (size + chunk - 1) / chunk := by
  intro f
  induction f with
  | zero =>
    intro size h
    have : size = 0 := by omega
    subst this
    refine ⟨by simp [pieces], by simp [pieces], ?_⟩
    simp only [pieces, List.length_nil]
    exact (Nat.div_eq_of_lt (by omega)).symm
  | succ f ih =>
    intro size h
    cases size with
    | zero =>
      refine ⟨by simp [pieces], by simp [pieces], ?_⟩
      simp only [pieces, List.length_nil]
      exact (Nat.div_eq_of_lt (by omega)).symm
    | succ n =>
      have hm : 0 < min chunk (n + 1) := by omega
      obtain ⟨i1, i2, i3⟩ := ih (n + 1 - min chunk (n + 1)) (by omega)
      simp only [pieces]
      refine ⟨?_, ?_, ?_⟩
      · intro m hm'
        rcases List.mem_cons.mp hm' with rfl | hm'
        · omega
        · exact i1 m hm'
      · rw [List.sum_cons, i2]; omega
      · rw [List.length_cons, i3]
        by_cases hle : chunk ≤ n + 1
        · rw [Nat.min_eq_left hle]
          have : n + 1 + chunk - 1 = (n + 1 - chunk + chunk - 1) + chunk := by omega
          rw [this, Nat.add_div_right _ hc]
        · have hlt : n + 1 < chunk := by omega
          rw [Nat.min_eq_right (by omega)]
          have e1 : (n + 1 - (n + 1) + chunk - 1) / chunk = 0 := Nat.div_eq_of_lt (by omega)
          have e2 : (n + 1 + chunk - 1) / chunk = 1 := by
            have : n + 1 + chunk - 1 = n + chunk := by omega
            rw [this, Nat.add_div_right _ hc, Nat.div_eq_of_lt (by omega)]
          rw [e1, e2]

/-- the streaming loops: every piece is at most the chunk size, the pieces add up to the object, and there are
    ⌈size / chunk⌉ of them – the per-call buffer is bounded by the chunk size whatever the object size -/
theorem chunkSizes_spec (chunk size : Nat) (hc : 0 < chunk) :
    (∀ n ∈ chunkSizes chunk size, 0 < n ∧ n ≤ chunk) ∧ (chunkSizes chunk size).sum = size ∧
    (chunkSizes chunk size).length = (size + chunk - 1) / chunk := by
  unfold chunkSizes
  rw [if_neg (by omega)]
  exact pieces_spec chunk hc size size (Nat.le_refl _)

end Dos.Fd
