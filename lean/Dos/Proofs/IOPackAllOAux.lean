/-
Level C for `pack_all_loose` with options: the simulation of `Dos/Proofs/IOImportAux.lean` extended by the unlinking of
loose files after a session's commit.  The Level-B state carried by the compiler does not follow the unlinks, so the
simulation relates the Level-C state to the compiler's state *up to its loose files* (`lo`).
-/
import Dos.IOPackAllO
import Dos.Proofs.IOImportAux

namespace Dos.IO.Imp
open Dos Dos.IO

/-! ### unlinking a loose file whose key has a row -/

theorem gc_unlink {fl : Bool} {t : Tab} {keep : List Nat} {packs : List (Nat × XPack)} {rows : List Row}
    {loose : List (Nat × XFile)} (g : GC fl t keep packs rows loose) (k : Nat) (hk : k ∈ rows.map (·.key)) :
    GC fl t keep packs rows (loose.filter (fun e => e.1 != k)) := by
  refine ⟨g.pk_nodup, g.pk_le, g.rows_ok, g.keys_nodup, g.ids_nodup, g.ids_pos, ?_, ?_, ?_⟩
  · exact g.loose_nodup.sublist (List.filter_sublist.map _)
  · intro e he
    exact g.loose_ok e (List.mem_filter.mp he).1
  · intro k' hk'
    rcases g.keep_ok k' hk' with h | h
    · exact Or.inl h
    · by_cases e : k' = k
      · subst e; exact Or.inl hk
      · right
        obtain ⟨a, ha, rfl⟩ := List.mem_map.mp h
        exact List.mem_map.mpr ⟨a, List.mem_filter.mpr ⟨ha, by simpa using e⟩, rfl⟩

theorem gw_unlink {fl : Bool} {t : Tab} {keep : List Nat} {x : XSt} (g : GW fl t keep x) (k : Nat)
    (hk : k ∈ x.rows.map (·.key)) : GW fl t keep (exec x (.looseUnlink k)) :=
  ⟨gc_unlink g.com k hk, g.sb, g.tgt⟩

/-- the Level-B state with other loose files -/
def lo (b : St) (L : List (Nat × Nat)) : St := { b with loose := L }

/-- the loose files of a good Level-C state are fine for the Level-B invariant -/
theorem inv_lo {fl : Bool} {t : Tab} {keep : List Nat} {x : XSt} {b : St} (inv : Inv t b) (g : GW fl t keep x) :
    Inv t (lo b (x.loose.map (fun e => (e.1, e.2.cid)))) := by
  refine ⟨inv.rows_ok, inv.keys_nodup, inv.ids_nodup, inv.ids_pos, inv.packs_nodup, ?_, ?_, inv.target_pos⟩
  · have : (lo b (x.loose.map (fun e => (e.1, e.2.cid)))).loose.map (·.1) = x.loose.map (·.1) := by
      simp [lo, List.map_map, Function.comp_def]
    rw [this]; exact g.com.loose_nodup
  · intro e he
    simp only [lo, List.mem_map] at he
    obtain ⟨a, ha, rfl⟩ := he
    exact (g.com.loose_ok a ha).1.symm

theorem idle_unlink {fl : Bool} {t : Tab} {keep : List Nat} {x : XSt} {b : St} (h : Idle fl t keep x b) (k : Nat)
    (h1 : k ∈ x.rows.map (·.key)) (h2 : k ∈ (workOf x).map (·.key)) :
    ∃ L, Idle fl t keep (exec x (.looseUnlink k)) (lo b L) := by
  have g1 := gw_unlink h.good k h1
  exact ⟨(exec x (.looseUnlink k)).loose.map (fun e => (e.1, e.2.cid)),
    g1, gc_unlink h.wrk k h2, h.packs, h.locks, h.rows, inv_lo h.inv g1, rfl, h.target⟩

theorem idle_unlinks {fl : Bool} {t : Tab} {keep : List Nat} (ks : List Nat) :
    ∀ {x : XSt} {b : St}, Idle fl t keep x b →
      (∀ k ∈ ks, k ∈ x.rows.map (·.key) ∧ k ∈ (workOf x).map (·.key)) →
      AllP (GW fl t keep) x (ks.map .looseUnlink) ∧ ∃ L, Idle fl t keep (execAll x (ks.map .looseUnlink)) (lo b L) := by
  induction ks with
  | nil =>
    intro x b h _
    refine ⟨allP_nil h.good, b.loose, ?_⟩
    exact h
  | cons k ks ih =>
    intro x b h hk
    obtain ⟨hk1, hk2⟩ := hk k List.mem_cons_self
    obtain ⟨L1, i1⟩ := idle_unlink h k hk1 hk2
    obtain ⟨a2, L, i2⟩ := ih i1 (fun k' hk' => hk k' (List.mem_cons_of_mem _ hk'))
    exact ⟨allP_cons h.good a2, L, i2⟩

/-! ### the end of a session of `pack_all_loose` -/

theorem sessionEndCleanO_eq (q : Nat) (rs : List Row) (cl df : Bool) :
    sessionEndCleanO q rs cl df =
      endO q rs false df ++ (if rs.isEmpty then [] else [.sqlCommit]) ++
        (if cl then (rs.map (·.key)).map .looseUnlink else []) := by
  cases rs <;> simp [sessionEndCleanO, sessionEndO, endO, List.map_map, Function.comp_def]

theorem mid_endC {fl : Bool} {t : Tab} {keep : List Nat} {x : XSt} {b : St} {q : Nat} {rs : List Row}
    (m : Mid fl t keep x b q rs) (cl df : Bool) (hfs : fl = false → df = true) :
    AllP (GW fl t keep) x (sessionEndCleanO q rs cl df) ∧
    ∃ L, Idle fl t keep (execAll x (sessionEndCleanO q rs cl df)) (lo b L) := by
  obtain ⟨a1, i1⟩ := mid_endO m false df hfs
  rw [sessionEndCleanO_eq]
  by_cases hrs : rs = []
  · subst hrs
    simp only [List.isEmpty_nil, if_true, List.append_nil, List.map_nil, ite_self]
    exact ⟨a1, b.loose, i1⟩
  · have hne : rs.isEmpty = false := by cases rs <;> simp_all
    simp only [hne, Bool.false_eq_true, if_false]
    have i2 := idle_commit i1
    have a12 : AllP (GW fl t keep) x (endO q rs false df ++ [.sqlCommit]) :=
      allP_append a1 (allP_single i1.good i2.good)
    cases cl
    · simp only [Bool.false_eq_true, if_false, List.append_nil]
      refine ⟨a12, b.loose, ?_⟩
      rw [execAll_append]
      exact i2
    · simp only [if_true]
      have hk : ∀ k ∈ rs.map (·.key),
          k ∈ (exec (execAll x (endO q rs false df)) .sqlCommit).rows.map (·.key) ∧
          k ∈ (workOf (exec (execAll x (endO q rs false df)) .sqlCommit)).map (·.key) := by
        intro k hk
        obtain ⟨r0, h0, rfl⟩ := List.mem_map.mp hk
        have hb : r0.key ∈ b.rows.map (·.key) := by
          rw [← m.rows]
          exact key_mem_foldl_insertIgnore _ _ _ h0
        have e1 : (exec (execAll x (endO q rs false df)) .sqlCommit).rows = b.rows := i1.rows
        have e2 : workOf (exec (execAll x (endO q rs false df)) .sqlCommit) = b.rows := i2.rows
        rw [e1, e2]
        exact ⟨hb, hb⟩
      obtain ⟨a3, L, i3⟩ := idle_unlinks (rs.map (·.key)) i2 hk
      refine ⟨allP_append a12 (by rw [execAll_append]; exact a3), L, ?_⟩
      rw [execAll_append, execAll_append]
      exact i3

/-! ### the compiler state, up to loose files -/

def SimL (fl : Bool) (t : Tab) (keep : List Nat) (w : WSt) (x : XSt) : Prop :=
  ∃ L, match w.openP with
    | none => Idle fl t keep x (lo w.s L) ∧ w.rows = []
    | some q => Mid fl t keep x (lo w.s L) q w.rows

def ReachL (fl : Bool) (t : Tab) (keep : List Nat) (x0 : XSt) (w : WSt) : Prop :=
  AllP (GW fl t keep) x0 w.acts ∧ SimL fl t keep w (execAll x0 w.acts)

theorem simL_target {fl : Bool} {t : Tab} {keep : List Nat} {w : WSt} {x : XSt} (h : SimL fl t keep w x) :
    0 < w.s.target := by
  obtain ⟨L, h⟩ := h
  split at h
  · exact h.1.inv.target_pos
  · exact h.inv.target_pos

theorem wOpenPAO_s (t : Tab) (cl df : Bool) (w : WSt) : (wOpenPAO t cl df w).s = openCur t w.s := by
  unfold wOpenPAO
  simp only
  split
  · split <;> rfl
  · rfl

theorem wOpenPAO_openP (t : Tab) (cl df : Bool) (w : WSt) :
    (wOpenPAO t cl df w).openP = some (choosePack t w.s) := by
  unfold wOpenPAO
  simp only
  split
  · rename_i q hq
    split
    · rename_i h; simp only [hq]; rw [h]; rfl
    · rfl
  · rfl

theorem wOpenPAO_reach {fl : Bool} {t : Tab} {keep : List Nat} {x0 : XSt} {w : WSt} (cl df : Bool)
    (hfs : fl = false → df = true) (h : ReachL fl t keep x0 w) :
    AllP (GW fl t keep) x0 (wOpenPAO t cl df w).acts ∧
    ∃ L, Mid fl t keep (execAll x0 (wOpenPAO t cl df w).acts) (lo (openCur t w.s) L) (choosePack t w.s)
      (wOpenPAO t cl df w).rows := by
  obtain ⟨ag, L, sim⟩ := h
  unfold wOpenPAO
  simp only
  cases hop : w.openP with
  | none =>
    simp only [hop] at sim ⊢
    obtain ⟨a1, m1⟩ := idle_open sim.1 (choosePack t w.s)
    exact ⟨allP_append ag a1, L, by rw [execAll_append]; exact m1⟩
  | some q =>
    simp only [hop] at sim ⊢
    by_cases hq : q = (openCur t w.s).cur
    · simp only [hq, if_true]
      have hq' : q = choosePack t w.s := hq
      subst hq'
      exact ⟨ag, L, mid_reopen sim⟩
    · simp only [hq, if_false]
      obtain ⟨a1, L1, i1⟩ := mid_endC sim cl df hfs
      obtain ⟨a2, m2⟩ := idle_open i1 (choosePack t w.s)
      refine ⟨allP_append (allP_append ag a1) (by rw [execAll_append]; exact a2), L1, ?_⟩
      rw [execAll_append, execAll_append]
      exact m2

theorem reachL_of_mid {fl : Bool} {t : Tab} {keep : List Nat} {x0 : XSt} {w : WSt} {q : Nat} {L : List (Nat × Nat)}
    (hop : w.openP = some q) (ag : AllP (GW fl t keep) x0 w.acts)
    (m : Mid fl t keep (execAll x0 w.acts) (lo w.s L) q w.rows) : ReachL fl t keep x0 w := by
  refine ⟨ag, L, ?_⟩
  rw [hop]
  exact m

theorem reach_wPackLooseCO {fl : Bool} {t : Tab} {keep : List Nat} {x0 : XSt} {w : WSt} (cl df : Bool)
    (cz : Nat × Bool) (hfs : fl = false → df = true) (h : ReachL fl t keep x0 w) :
    ReachL fl t keep x0 (wPackLooseCO t cl df w cz) := by
  have ht := simL_target h.2
  obtain ⟨ag, L, m⟩ := wOpenPAO_reach cl df hfs h
  have hs := wOpenPAO_s t cl df w
  have hop := wOpenPAO_openP t cl df w
  unfold wPackLooseCO
  generalize wOpenPAO t cl df w = w1 at ag m hs hop
  have hcur : w1.s.cur = choosePack t w.s := by rw [hs]; rfl
  simp only [hcur]
  rw [← hs] at m
  have hq : choosePack t (lo w1.s L) = choosePack t w.s := by
    show choosePack t w1.s = choosePack t w.s
    rw [hs]; exact choosePack_openCur t w.s ht
  have m1 := mid_write m cz.1 cz.2 hq
  have a1 : AllP (GW fl t keep) (execAll x0 w1.acts) [.readLoose cz.1, .pkWrite (choosePack t w.s) ⟨cz.1, cz.2⟩] :=
    allP_cons m.good (allP_single m.good m1.good)
  exact reachL_of_mid (w := { w1 with s := _, rows := _, acts := _ }) (L := L) hop (allP_append ag a1)
    (by rw [execAll_append]; exact m1)

theorem reachL_foldl {fl : Bool} {t : Tab} {keep : List Nat} {x0 : XSt} {α} (f : WSt → α → WSt)
    (hf : ∀ w a, ReachL fl t keep x0 w → ReachL fl t keep x0 (f w a)) (l : List α) :
    ∀ w, ReachL fl t keep x0 w → ReachL fl t keep x0 (l.foldl f w) := by
  induction l with
  | nil => intro w h; exact h
  | cons a l ih => intro w h; exact ih _ (hf w a h)

theorem reachL_init {fl : Bool} {t : Tab} {keep : List Nat} {x0 : XSt} {s : St} (i : Idle fl t keep x0 s) :
    ReachL fl t keep x0 { s := s, openP := none, rows := [], acts := [] } :=
  ⟨allP_nil i.good, s.loose, ⟨i, rfl⟩⟩

/-- the whole of `pack_all_loose` with options -/
theorem packAllO_allP {fl : Bool} {t : Tab} {keep : List Nat} {x : XSt} {b : St} (i : Idle fl t keep x b)
    (order : List Nat) (zs : List Bool) (cl df : Bool) (hfs : fl = false → df = true) :
    AllP (GW fl t keep) x (actsPackAllO t b order zs cl df) := by
  cases order with
  | nil => exact allP_nil i.good
  | cons c cs =>
    have hr := reachL_foldl (fl := fl) (t := t) (keep := keep) (x0 := x) _
      (fun w cz h => reach_wPackLooseCO cl df cz hfs h) ((c :: cs).zip zs) _ (reachL_init i)
    simp only [actsPackAllO]
    generalize ((c :: cs).zip zs).foldl (wPackLooseCO t cl df) { s := b, openP := none, rows := [], acts := [] } = w
      at hr
    obtain ⟨ag, L, sim⟩ := hr
    cases hop : w.openP with
    | none => exact ag
    | some q =>
      simp only [hop] at sim ⊢
      obtain ⟨a1, _⟩ := mid_endC sim cl df hfs
      exact allP_append ag a1

end Dos.IO.Imp
