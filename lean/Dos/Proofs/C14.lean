/-
Import (C14) seen from the destination at Level B.
-/
import Dos.Proofs.Step
import Dos.Proofs.C09

namespace Dos

/-- the contents actually written by an import -/
def importNeeded (s : St) (written : List Nat) (sameHash : Bool) : List Nat :=
  if sameHash then written.filter (fun c => !has s c) else written.filter (fun c => !hasRow s c)

/-! ### helpers -/

theorem nodupB_cons {x : Nat} {xs : List Nat} (h : nodupB (x :: xs) = true) : x ∉ xs ∧ nodupB xs = true := by
  simpa [nodupB] using h

/-- every pack of `ps'` is the pack of `ps` (empty when missing) extended by segments satisfying `P` -/
def PExt (P : Seg → Prop) (ps ps' : Packs) : Prop :=
  ∀ p, getPack ps' p = getPack ps p ∨
    ∃ ext, getPack ps' p = some ((getPack ps p).getD [] ++ ext) ∧ ∀ g ∈ ext, P g

theorem PExt.refl (P : Seg → Prop) (ps : Packs) : PExt P ps ps := fun _ => Or.inl rfl

theorem PExt.trans {P : Seg → Prop} {a b c : Packs} (h1 : PExt P a b) (h2 : PExt P b c) : PExt P a c := by
  intro p
  rcases h1 p with e1 | ⟨x1, e1, hx1⟩
  · rcases h2 p with e2 | ⟨x2, e2, hx2⟩
    · exact Or.inl (e2.trans e1)
    · exact Or.inr ⟨x2, by rw [e2, e1], hx2⟩
  · rcases h2 p with e2 | ⟨x2, e2, hx2⟩
    · exact Or.inr ⟨x1, e2.trans e1, hx1⟩
    · refine Or.inr ⟨x1 ++ x2, ?_, ?_⟩
      · rw [e2, e1]; simp
      · intro g hg
        rcases List.mem_append.mp hg with hg | hg
        · exact hx1 g hg
        · exact hx2 g hg

theorem pext_ensurePack (P : Seg → Prop) (ps : Packs) (p : Nat) : PExt P ps (ensurePack ps p) := by
  unfold ensurePack
  cases hg : getPack ps p with
  | some segs => exact PExt.refl P ps
  | none =>
    intro q
    by_cases hq : q = p
    · subst hq
      exact Or.inr ⟨[], by rw [getPack_setPack_eq, hg]; rfl, by simp⟩
    · exact Or.inl (getPack_setPack_ne _ _ _ _ hq)

theorem pext_openCur (P : Seg → Prop) (t : Tab) (s : St) : PExt P s.packs (openCur t s).packs :=
  pext_ensurePack P s.packs _

theorem pext_writeObj {P : Seg → Prop} (t : Tab) (s : St) {c : Nat} {z : Bool} (h : P ⟨c, z⟩) :
    PExt P s.packs (writeObj t s c z).packs := by
  intro q
  by_cases hq : q = choosePack t s
  · subst hq
    exact Or.inr ⟨[⟨c, z⟩], getPack_setPack_eq _ _ _, by simpa using h⟩
  · exact Or.inl (getPack_setPack_ne _ _ _ _ hq)

theorem pext_writeAll {P : Seg → Prop} (t : Tab) (z : Bool) (o : List Nat) (s : St) (h : ∀ c ∈ o, P ⟨c, z⟩) :
    PExt P s.packs (writeAll t s (o.map (fun c => (c, z)))).packs := by
  induction o generalizing s with
  | nil => exact PExt.refl P _
  | cons c rest ih =>
    simp only [List.map_cons, writeAll]
    exact (pext_writeObj t s (h c (by simp))).trans (ih _ (fun c' hc' => h c' (by simp [hc'])))

/-! rows -/

theorem rows_sub_insertIgnore (rows : List Row) (row : Row) : ∀ r ∈ rows, r ∈ insertIgnore rows row := by
  intro r hr
  unfold insertIgnore
  split
  · exact hr
  · exact List.mem_append_left _ hr

theorem rows_sub_writeAll (t : Tab) (z : Bool) (o : List Nat) (s : St) :
    ∀ r ∈ s.rows, r ∈ (writeAll t s (o.map (fun c => (c, z)))).rows := by
  induction o generalizing s with
  | nil => intro r hr; exact hr
  | cons c rest ih =>
    intro r hr
    simp only [List.map_cons, writeAll]
    exact ih _ r (rows_sub_insertIgnore _ _ r hr)

theorem rows_new_writeObj (t : Tab) (s : St) (c : Nat) (z : Bool) :
    ∀ r ∈ (writeObj t s c z).rows, r ∈ s.rows ∨ (r.key = c ∧ r.z = z) := by
  intro r hr
  rcases mem_insertIgnore hr with hr | ⟨hr, _⟩
  · exact Or.inl hr
  · subst hr; exact Or.inr ⟨rfl, rfl⟩

theorem rows_new_writeAll (t : Tab) (z : Bool) (o : List Nat) (s : St) :
    ∀ r ∈ (writeAll t s (o.map (fun c => (c, z)))).rows, r ∈ s.rows ∨ (r.key ∈ o ∧ r.z = z) := by
  induction o generalizing s with
  | nil => intro r hr; exact Or.inl hr
  | cons c rest ih =>
    intro r hr
    simp only [List.map_cons, writeAll] at hr
    rcases ih _ r hr with h | ⟨h1, h2⟩
    · rcases rows_new_writeObj t s c z r h with h | ⟨h1, h2⟩
      · exact Or.inl h
      · exact Or.inr ⟨by simp [h1], h2⟩
    · exact Or.inr ⟨by simp [h1], h2⟩

/-! bytes -/

theorem sumBy_append_i {α} (f : α → Nat) (a b : List α) : sumBy f (a ++ b) = sumBy f a + sumBy f b := by
  induction a with
  | nil => simp [sumBy]
  | cons x xs ih => simp [sumBy, ih, Nat.add_assoc]

theorem sumBy_setPack_i (t : Tab) (ps : Packs) (p : Nat) (new : List Seg) :
    sumBy (fun e => segsLen t e.2) (setPack ps p new) + segsLen t ((getPack ps p).getD [])
      = sumBy (fun e => segsLen t e.2) ps + segsLen t new := by
  induction ps with
  | nil => simp [setPack, getPack, sumBy]
  | cons e rest ih =>
    obtain ⟨q, gs⟩ := e
    by_cases hq : q = p
    · simp [setPack, getPack, sumBy, hq]; omega
    · simp only [setPack, getPack, sumBy, hq, if_false] at ih ⊢
      omega

theorem packBytes_ensurePack_i (t : Tab) (ps : Packs) (p : Nat) :
    sumBy (fun e => segsLen t e.2) (ensurePack ps p) = sumBy (fun e => segsLen t e.2) ps := by
  unfold ensurePack
  cases hg : getPack ps p with
  | some segs => rfl
  | none =>
    have := sumBy_setPack_i t ps p []
    simpa [hg] using this

theorem packBytes_openCur (t : Tab) (s : St) : packBytes t (openCur t s) = packBytes t s :=
  packBytes_ensurePack_i t s.packs _

theorem refBytes_openCur (t : Tab) (s : St) : refBytes (openCur t s) = refBytes s := rfl

theorem packBytes_writeObj (t : Tab) (s : St) (c : Nat) (z : Bool) :
    packBytes t (writeObj t s c z) = packBytes t s + Seg.len t ⟨c, z⟩ := by
  have := sumBy_setPack_i t s.packs (choosePack t s) ((getPack s.packs (choosePack t s)).getD [] ++ [⟨c, z⟩])
  simp only [segsLen_append, segsLen_cons, segsLen_nil] at this
  simp only [packBytes, writeObj]
  omega

theorem refBytes_writeObj (t : Tab) (s : St) (c : Nat) (z : Bool) (h : hasRow s c = false) :
    refBytes (writeObj t s c z) = refBytes s + Seg.len t ⟨c, z⟩ := by
  have hn : (s.rows.any fun x => x.key == c) = false := by
    rw [Bool.eq_false_iff]
    intro ha
    obtain ⟨x, hx, hk⟩ := List.any_eq_true.mp ha
    have : hasRow s c = true := hasRow_iff.mpr (List.mem_map.mpr ⟨x, hx, by simpa using hk⟩)
    simp [h] at this
  simp only [refBytes, writeObj, insertIgnore, hn, Bool.false_eq_true, if_false, sumBy_append_i, sumBy]
  omega

theorem nojunk_writeAll (t : Tab) (z : Bool) (o : List Nat) (s : St) (hnd : nodupB o = true)
    (hno : ∀ c ∈ o, hasRow s c = false) :
    packBytes t (writeAll t s (o.map (fun c => (c, z)))) + refBytes s
      = packBytes t s + refBytes (writeAll t s (o.map (fun c => (c, z)))) := by
  induction o generalizing s with
  | nil => rfl
  | cons c rest ih =>
    obtain ⟨hc, hnd'⟩ := nodupB_cons hnd
    simp only [List.map_cons, writeAll]
    have hno' : ∀ c' ∈ rest, hasRow (writeObj t s c z) c' = false := by
      intro c' hc'
      rw [hasRow_writeObj, hno c' (by simp [hc'])]
      have : c' ≠ c := fun e => hc (e ▸ hc')
      simp [this]
    have h1 := ih (writeObj t s c z) hnd' hno'
    have h2 := packBytes_writeObj t s c z
    have h3 := refBytes_writeObj t s c z (hno c (by simp))
    omega

/-! the shape of a successful import -/

theorem importObjs_cases {t : Tab} {s s' : St} {w o : List Nat} {z same tr : Bool}
    (h : importObjs t s w o z same tr = some s') :
    nodupB o = true ∧ isPerm o (importNeeded s w same) = true ∧
    ((importNeeded s w same = [] ∧ s' = s) ∨
      s' = writeAll t (openCur t s) (o.map (fun c => (c, z))) ∨
      s' = openCur t (writeAll t (openCur t s) (o.map (fun c => (c, z))))) := by
  unfold importObjs at h
  unfold importNeeded
  cases same with
  | true =>
    simp only [if_true] at h ⊢
    split at h
    · exact absurd h (by simp)
    rename_i h1
    simp only [Bool.not_eq_true, Bool.not_eq_false', Bool.and_eq_true] at h1
    split at h
    · exact absurd h (by simp)
    refine ⟨h1.1.2, h1.2, ?_⟩
    split at h
    · rename_i hs
      simp only [Option.some.injEq] at h
      exact Or.inl ⟨hs, h.symm⟩
    · simp only [Option.some.injEq] at h
      cases tr with
      | true => exact Or.inr (Or.inr (by simpa using h.symm))
      | false => exact Or.inr (Or.inl (by simpa using h.symm))
  | false =>
    simp only [Bool.false_eq_true, if_false] at h ⊢
    split at h
    · exact absurd h (by simp)
    rename_i h1
    simp only [Bool.not_eq_true, Bool.not_eq_false', Bool.and_eq_true] at h1
    split at h
    · exact absurd h (by simp)
    refine ⟨h1.1.2, h1.2, ?_⟩
    split at h
    · rename_i hs
      simp only [Option.some.injEq] at h
      exact Or.inl ⟨by simp, h.symm⟩
    · simp only [Option.some.injEq] at h
      cases tr with
      | true => exact Or.inr (Or.inr (by simpa using h.symm))
      | false => exact Or.inr (Or.inl (by simpa using h.symm))

theorem importNeeded_noRow {s : St} {w : List Nat} {same : Bool} {c : Nat} (h : c ∈ importNeeded s w same) :
    hasRow s c = false := by
  unfold importNeeded at h
  cases same with
  | true =>
    simp only [if_true, List.mem_filter, has, Bool.not_eq_true', Bool.or_eq_false_iff] at h
    exact h.2.1
  | false =>
    simp only [Bool.false_eq_true, if_false, List.mem_filter, Bool.not_eq_true'] at h
    exact h.2

/-! ### the theorems -/

/-- existing rows are untouched; new rows are exactly one per needed content, stored as requested -/
theorem import_rows {t : Tab} {s s' : St} (inv : Inv t s) {w o : List Nat} {z same tr : Bool}
    (h : importObjs t s w o z same tr = some s') :
    (∀ r ∈ s.rows, r ∈ s'.rows) ∧
    (∀ r ∈ s'.rows, r ∈ s.rows ∨ (r.key ∈ importNeeded s w same ∧ r.z = z)) ∧
    (∀ c ∈ importNeeded s w same, hasRow s' c = true) ∧
    s'.loose = s.loose := by
  obtain ⟨_, hperm, hc⟩ := importObjs_cases h
  have hsub := rows_sub_writeAll t z o (openCur t s)
  have hnew : ∀ r ∈ (writeAll t (openCur t s) (o.map (fun c => (c, z)))).rows,
      r ∈ s.rows ∨ (r.key ∈ importNeeded s w same ∧ r.z = z) := by
    intro r hr
    rcases rows_new_writeAll t z o (openCur t s) r hr with h | ⟨h1, h2⟩
    · exact Or.inl h
    · exact Or.inr ⟨(mem_of_isPerm hperm _).mp h1, h2⟩
  have hhas : ∀ c ∈ importNeeded s w same,
      hasRow (writeAll t (openCur t s) (o.map (fun c => (c, z)))) c = true := by
    intro c hc
    have hfst : (o.map (fun c => (c, z))).map (·.1) = o := by
      rw [List.map_map]; simp [Function.comp_def]
    rw [hasRow_writeAll, hfst]
    have : o.contains c = true := List.contains_iff_mem.mpr ((mem_of_isPerm hperm _).mpr hc)
    rw [this, Bool.or_true]
  rcases hc with ⟨hn, rfl⟩ | rfl | rfl
  · refine ⟨fun r hr => hr, fun r hr => Or.inl hr, ?_, rfl⟩
    rw [hn]; intro c hc; simp at hc
  · exact ⟨hsub, hnew, hhas, by simp⟩
  · exact ⟨hsub, hnew, hhas, by simp⟩

/-- packs only grow, and only by the needed contents: contents the destination already holds
    (in any form when the hash types agree, indexed ones otherwise) are not written again -/
theorem import_packs {t : Tab} {s s' : St} (inv : Inv t s) {w o : List Nat} {z same tr : Bool}
    (h : importObjs t s w o z same tr = some s') :
    (∀ p segs, getPack s.packs p = some segs →
        ∃ ext, getPack s'.packs p = some (segs ++ ext) ∧ ∀ g ∈ ext, g.cid ∈ importNeeded s w same ∧ g.z = z) ∧
    (∀ p segs, getPack s.packs p = none → getPack s'.packs p = some segs →
        ∀ g ∈ segs, g.cid ∈ importNeeded s w same ∧ g.z = z) := by
  obtain ⟨_, hperm, hc⟩ := importObjs_cases h
  have hext : PExt (fun g => g.cid ∈ importNeeded s w same ∧ g.z = z) s.packs s'.packs := by
    have h1 := pext_openCur (fun g => g.cid ∈ importNeeded s w same ∧ g.z = z) t s
    have h2 := pext_writeAll (P := fun g => g.cid ∈ importNeeded s w same ∧ g.z = z) t z o (openCur t s)
      (fun c hc => ⟨(mem_of_isPerm hperm _).mp hc, rfl⟩)
    rcases hc with ⟨_, rfl⟩ | rfl | rfl
    · exact PExt.refl _ _
    · exact h1.trans h2
    · exact (h1.trans h2).trans (pext_openCur _ t _)
  constructor
  · intro p segs hg
    rcases hext p with e | ⟨ext, e, hx⟩
    · exact ⟨[], by rw [e, hg]; simp, by simp⟩
    · exact ⟨ext, by rw [e, hg]; rfl, hx⟩
  · intro p segs hg hg'
    rcases hext p with e | ⟨ext, e, hx⟩
    · rw [e, hg] at hg'; exact absurd hg' (by simp)
    · rw [e, hg] at hg'
      simp only [Option.getD_none, List.nil_append, Option.some.injEq] at hg'
      subst hg'
      exact hx

/-- an import leaves no unreferenced bytes behind -/
theorem import_no_junk {t : Tab} {s s' : St} (inv : Inv t s) {w o : List Nat} {z same tr : Bool}
    (h : importObjs t s w o z same tr = some s') :
    packBytes t s' + refBytes s = packBytes t s + refBytes s' := by
  obtain ⟨hnd, hperm, hc⟩ := importObjs_cases h
  have hno : ∀ c ∈ o, hasRow (openCur t s) c = false := by
    intro c hc
    rw [hasRow_openCur]
    exact importNeeded_noRow ((mem_of_isPerm hperm _).mp hc)
  have h1 := nojunk_writeAll t z o (openCur t s) hnd hno
  have h2 := packBytes_openCur t s
  have h3 := refBytes_openCur t s
  rcases hc with ⟨_, rfl⟩ | rfl | rfl
  · rfl
  · omega
  · rw [packBytes_openCur, refBytes_openCur]; omega

/-- afterwards every requested content the source holds is available and reads back as itself,
    and nothing else appeared -/
theorem import_exact {t : Tab} (wf : t.WF) {s s' : St} (inv : Inv t s) {w o : List Nat} {z same tr : Bool}
    (h : importObjs t s w o z same tr = some s') :
    (∀ k, has s' k = (has s k || w.contains k)) ∧ (∀ k ∈ w, getc t s' k = some k) ∧
    (∀ k, has s k = true → getc t s' k = some k) := by
  have inv' := inv_importObjs inv h
  have hh := has_importObjs h
  refine ⟨hh, ?_, ?_⟩
  · intro k hk
    apply getc_of_has wf inv'
    rw [hh, List.contains_iff_mem.mpr hk, Bool.or_true]
  · intro k hk
    apply getc_of_has wf inv'
    rw [hh, hk]
    rfl

end Dos
