/-
Line protocol for the Level-B store model.  One request line in, one response line out.
The harness (harness/store.py) runs the real `Container` on the same operations and compares.
-/
import Dos.Store
import Dos.IO
import Dos.IOImport
import Dos.IOPackAllO
import Dos.IORepackAll
import Dos.Wire
import Dos.ImportCache

namespace Dos.StoreDriver
open Dos Dos.Wire

/-- one container: its content table (sizes, zlib-stream lengths at its level) and its state -/
structure Cont where
  sizes : Array Nat := #[]
  zlens : Array Nat := #[]
  st : St

structure DState where
  conts : List (String × Cont) := []

def Cont.tab (c : Cont) : Tab :=
  { size := fun i => c.sizes.getD i 0, zlen := fun i => c.zlens.getD i 0 }

def getCont (d : DState) (n : String) : Option Cont := (d.conts.find? (·.1 == n)).map (·.2)

def setCont (d : DState) (n : String) (c : Cont) : DState :=
  { d with conts := (n, c) :: d.conts.filter (·.1 != n) }

def insBy {α} (lt : α → α → Bool) (x : α) : List α → List α
  | [] => [x]
  | y :: ys => if lt x y then x :: y :: ys else y :: insBy lt x ys

def sortBy {α} (lt : α → α → Bool) (l : List α) : List α := l.foldr (insBy lt) []

def showSeg (g : Seg) : String := s!"{g.cid}.{b01 g.z}"

def showRow (r : Row) : String := s!"{r.id}.{r.key}.{r.pack}.{r.off}.{r.len}.{b01 r.z}.{r.size}"

def showState (s : St) : String :=
  let loose := sortBy (fun a b => a.1 < b.1) s.loose
  let packs := sortBy (fun a b => a.1 < b.1) s.packs
  let rows := sortBy (fun a b => a.key < b.key) s.rows
  let l := if loose.isEmpty then "-" else ",".intercalate (loose.map (fun e => s!"{e.1}:{e.2}"))
  let p := if packs.isEmpty then "-" else "|".intercalate (packs.map (fun e =>
    s!"{e.1}[" ++ ";".intercalate (e.2.map showSeg) ++ "]"))
  let r := if rows.isEmpty then "-" else ";".intercalate (rows.map showRow)
  s!"loose={l} packs={p} rows={r} cur={s.cur}"

def parseMode (s : String) : Option Mode :=
  match s with
  | "no" => some .no | "yes" => some .yes | "keep" => some .keep | "auto" => some .auto
  | _ => none

def showMeta : Option Meta → String
  | none => "missing"
  | some (.loose sz) => s!"loose.{sz}"
  | some (.packed sz p o l z) => s!"packed.{sz}.{p}.{o}.{l}.{b01 z}"

def showOptNat : Option Nat → String
  | none => "x"
  | some n => toString n

/-- views for a list of keys: per key `has`, `get`, `meta`; then list, count, totals, validate -/
def showViews (t : Tab) (s : St) (ks : List Nat) : String :=
  let per := ks.map (fun k => s!"{k}:{b01 (has s k)}:{showOptNat (getc t s k)}:{showMeta (getMeta t s k)}")
  let c := count s
  let tt := totals t s
  let v := validate t s
  let perS := if per.isEmpty then "-" else ",".intercalate per
  s!"keys={perS} list={showNats (sortNats (listAll s))} count={c.packed}.{c.loose}.{c.packFiles} " ++
  s!"totals={tt.sizePacked}.{tt.sizePackedOnDisk}.{tt.sizePackfiles}.{tt.sizeLoose} " ++
  s!"validate={showNats (sortNats v.badLoose)}/{showNats (sortNats v.badHash)}/{showNats (sortNats v.badSize)}/{showNats (sortNats v.overlap)}"

/-- parse "p:order:zs|p:order:zs" -/
def parseRepackPlan (s : String) : Option (List (Nat × List Nat × List Bool)) :=
  if s == "-" then some [] else
  (splitOn1 s '|').mapM (fun part =>
    match splitOn1 part ':' with
    | [p, o, z] => do
      let p ← p.toNat?
      let o ← natList o
      let z ← boolList z
      pure (p, o, z)
    | _ => none)

def doOp (t : Tab) (s : St) (args : List String) : Option (St × String) :=
  match args with
  | ["addLoose", c] => do
    let c ← c.toNat?
    pure (addLoose s c, s!"key={c}")
  | ["addPacked", comp, nh, cs] => do
    let cs ← natList cs
    pure (addPacked t s cs (comp == "1") (nh == "1"), s!"keys={showNats cs}")
  | ["packAll", m, cl, order, zs] => do
    let m ← parseMode m
    let order ← natList order
    let zs ← boolList zs
    match packAll t s m order zs (cl == "1") with
    | some s' => pure (s', "ok")
    | none => pure (s, "inadmissible")
  | ["clean"] => pure (clean s, "ok")
  | ["delete", ks] => do
    let ks ← natList ks
    let (s', gone) := delete s ks
    pure (s', s!"deleted={showNats (sortNats gone)}")
  | ["repack", m, plan] => do
    let m ← parseMode m
    let plan ← parseRepackPlan plan
    match repackAll t m s plan with
    | some s' => pure (s', "ok")
    | none => pure (s, "inadmissible")
  | ["loosen", k] => do
    let k ← k.toNat?
    match loosen t s k with
    | some s' => pure (s', "ok")
    | none => pure (s, "notexistent")
  | ["reopen"] => pure (reopen s, "ok")
  | ["import", comp, same, trailing, written, order] => do
    let written ← natList written
    let order ← natList order
    match importObjs t s written order (comp == "1") (same == "1") (trailing == "1") with
    | some s' => pure (s', s!"mapped={showNats (sortNats (if same == "1" then order else written))}")
    | none => pure (s, "inadmissible")
  | ["damage", k, c] => do
    let k ← k.toNat?
    let c ← c.toNat?
    pure ({ s with loose := s.loose.map (fun e => if e.1 = k then (k, c) else e) }, "ok")
  | _ => none

def stepLine (d : DState) (line : String) : DState × String :=
  match (line.trimAscii.toString.splitOn " ").filter (· != "") with
  | "tab" :: name :: entries =>
    -- each entry "size,zlen" appended as the next content id of container `name`
    match getCont d name, entries.mapM (fun e => match splitOn1 e ',' with
        | [a, b] => do pure ((← a.toNat?), (← b.toNat?))
        | _ => none) with
    | some c, some l =>
      let c' := { c with sizes := c.sizes ++ (l.map (·.1)).toArray, zlens := c.zlens ++ (l.map (·.2)).toArray }
      (setCont d name c', s!"ok {c'.sizes.size}")
    | _, _ => (d, "bad-op")
  | ["new", name, target] =>
    match target.toNat? with
    | some tg => (setCont d name { st := St.empty tg }, "ok")
    | none => (d, "bad-op")
  | "op" :: name :: args =>
    match getCont d name with
    | none => (d, "bad-op no-such-container")
    | some c =>
      match doOp c.tab c.st args with
      | some (s', out) => (setCont d name { c with st := s' }, out)
      | none => (d, "bad-op")
  | ["state", name] =>
    match getCont d name with
    | none => (d, "bad-op no-such-container")
    | some c => (d, showState c.st)
  | ["calls", name, budget, stream] =>
    -- the direct-to-pack calls `import_objects` makes for objects arriving in this order, with this memory budget
    match getCont d name, budget.toNat?, natList stream with
    | some c, some b, some st =>
      let calls := ImportCache.importCalls c.tab.size b st
      (d, if calls.isEmpty then "-" else String.intercalate "|" (calls.map showNats))
    | _, _, _ => (d, "bad-op")
  | ["views", name, ks] =>
    match getCont d name, natList ks with
    | some c, some ks => (d, showViews c.tab c.st ks)
    | _, _ => (d, "bad-op")
  | _ => (d, "bad-op")

end Dos.StoreDriver

/-! ### Level C: action lists, crash / power-loss / fault images of the current model state -/
namespace Dos.StoreDriver
open Dos Dos.Wire Dos.IO

def showAct : Act → String
  | .sbCreate => "sbCreate" | .sbWrite _ => "sbWrite" | .sbFlush => "sbFlush" | .sbFsync => "sbFsync"
  | .sbClose => "sbClose" | .sbRemove => "sbRemove" | .dirSync => "dirSync"
  | .mkdirLoose _ => "mkdirLoose" | .renameLoose k => s!"renameLoose:{k}" | .readLoose k => s!"readLoose:{k}"
  | .looseUnlink k => s!"looseUnlink:{k}"
  | .lock p => s!"lock:{p}" | .unlock p => s!"unlock:{p}" | .pkOpen p => s!"pkOpen:{p}"
  | .pkWrite p g => s!"pkWrite:{p}:{g.cid}.{b01 g.z}" | .pkFlush p => s!"pkFlush:{p}" | .pkFsync p => s!"pkFsync:{p}"
  | .pkClose p => s!"pkClose:{p}" | .pkTruncate p n => s!"pkTruncate:{p}:{n}" | .pkRead p => s!"pkRead:{p}"
  | .pkUnlink p => s!"pkUnlink:{p}" | .pkLink a b => s!"pkLink:{a}:{b}"
  | .sqlInsert r => s!"sqlInsert:{r.key}" | .sqlDelete k => s!"sqlDelete:{k}" | .sqlMove r => s!"sqlMove:{r.key}"
  | .sqlRepoint a b => s!"sqlRepoint:{a}:{b}" | .sqlCommit => "sqlCommit"

/-- the action list of an operation from the current state; `none` = unknown request -/
def compileOp (t : Tab) (s : St) (args : List String) : Option (List Act) :=
  match args with
  | ["addLoose", c, mk] => do pure (actsAddLoose s (← c.toNat?) (mk == "1"))
  | ["addPacked", comp, nh, rt, cs] => do pure (actsAddPacked t s (← natList cs) (comp == "1") (nh == "1") (rt == "1"))
  | ["packAll", cl, order, zs] => do pure (actsPackAll t s (← natList order) (← boolList zs) (cl == "1"))
  | ["packAllO", cl, fs, order, zs] => do pure (actsPackAllO t s (← natList order) (← boolList zs) (cl == "1") (fs == "1"))
  | ["clean", order] => do pure (actsClean s (← natList order))
  | ["delete", ks] => do pure (actsDelete s (← natList ks))
  | ["repackOne", p, zs] => do pure (actsRepackPack t s (← p.toNat?) (← boolList zs))
  | ["repackAll", plan] => do
    -- `p:zs|p:zs`: the packs in the order in which they were repacked, with the verdicts of their rows
    let pl ← if plan == "-" then some [] else (splitOn1 plan '|').mapM (fun part =>
      match splitOn1 part ':' with
      | [p, z] => do pure ((← p.toNat?), (← boolList z))
      | _ => none)
    pure (actsRepackAll t s pl)
  | ["addPackedO", comp, nh, rt, fs, cs] => do pure (actsAddPackedO t s (← natList cs) (comp == "1") (nh == "1") (rt == "1") (fs == "1"))
  | ["import", comp, nh, rt, fs, calls] => do
    let cl ← if calls == "-" then some [] else (splitOn1 calls '|').mapM natList
    pure (actsImport t s cl (comp == "1") (nh == "1") (rt == "1") (fs == "1"))
  | _ => none

def lengthsOf (t : Tab) (acts : List Act) : String :=
  -- stored length of every pkWrite, so that the harness can align partial writes with whole segments
  showNats (acts.filterMap (fun a => match a with | .pkWrite _ g => some (g.len t) | _ => none))

def levelC (d : DState) (toks : List String) : DState × String :=
  match toks with
  | "acts" :: name :: args =>
    match getCont d name with
    | none => (d, "bad-op no-such-container")
    | some c =>
      match compileOp c.tab c.st args with
      | some acts => (d, (if acts.isEmpty then "-" else " ".intercalate (acts.map showAct)) ++ " | " ++ lengthsOf c.tab acts)
      | none => (d, "bad-op")
  -- state the disk is left in when the process is killed after `k` actions (`cut` extra segments of every open pack
  -- had already left the user-space buffer), after a power loss at that point, or when action `k` fails
  | "image" :: kind :: name :: k :: cut :: args =>
    match getCont d name, k.toNat?, cut.toNat? with
    | some c, some k, some cut =>
      match compileOp c.tab c.st args with
      | some acts =>
        let x := execAll (ofSt c.st) (acts.take k)
        let img : St := match kind with
          | "crash" => crashImg x (fun _ => cut)
          | "power" => powerImg x
          | "fault" => toSt (runFault (ofSt c.st) acts k)
          | _ => toSt (execAll (ofSt c.st) acts)
        (d, showState img ++ s!" locks={showNats (match kind with | "fault" => (runFault (ofSt c.st) acts k).locks | _ => x.locks)}")
      | none => (d, "bad-op")
    | _, _, _ => (d, "bad-op")
  -- is every prefix safe?  keep = keys that must survive, univ = keys to test; answers the list of unsafe prefixes
  | "safety" :: kind :: name :: keep :: univ :: args =>
    match getCont d name, natList keep, natList univ with
    | some c, some keep, some univ =>
      match compileOp c.tab c.st args with
      | some acts =>
        let ks := List.range (acts.length + 1)
        let bad := ks.filter (fun k =>
          let x := execAll (ofSt c.st) (acts.take k)
          match kind with
          | "crash" => !(safeImgB c.tab (crashImg x (fun _ => 0)) keep univ && safeImgB c.tab (crashImg x (fun _ => 1000000)) keep univ)
          | "power" => !safeImgB c.tab (powerImg x) keep univ
          | _ => !safeImgB c.tab (toSt (runFault (ofSt c.st) acts k)) keep univ)
        (d, s!"n={acts.length} unsafe={showNats bad}")
      | none => (d, "bad-op")
    | _, _, _ => (d, "bad-op")
  | _ => (d, "bad-op")

end Dos.StoreDriver
