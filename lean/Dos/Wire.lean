/-
Line protocol helpers shared by the driver's sub-protocols (parsing of numbers and lists, printing).
No imports.
-/
namespace Dos.Wire

def splitOn1 (s : String) (sep : Char) : List String :=
  (s.split (· == sep)).toList.map (·.toString)

/-- "1,2,3" → [1,2,3]; "-" or "" → [] -/
def natList (s : String) : Option (List Nat) :=
  if s == "-" || s == "" then some []
  else (splitOn1 s ',').mapM (·.toNat?)

def boolList (s : String) : Option (List Bool) :=
  (natList s).map (·.map (· != 0))

def intOf (s : String) : Option Int := s.toInt?

def intList (s : String) : Option (List Int) :=
  if s == "-" || s == "" then some []
  else (splitOn1 s ',').mapM (·.toInt?)

def showNats (l : List Nat) : String :=
  if l.isEmpty then "-" else ",".intercalate (l.map toString)

def showInts (l : List Int) : String :=
  if l.isEmpty then "-" else ",".intercalate (l.map toString)

def b01 (b : Bool) : String := if b then "1" else "0"

def insSorted (x : Nat) : List Nat → List Nat
  | [] => [x]
  | y :: ys => if x ≤ y then x :: y :: ys else y :: insSorted x ys

def sortNats (l : List Nat) : List Nat := l.foldr insSorted []

/-- value of "key=value" token -/
def kv (tok : String) (key : String) : Option String :=
  let pre := key ++ "="
  if tok.startsWith pre then some ((tok.drop pre.length).toString) else none

end Dos.Wire

namespace Dos.Wire

def hexDigit (n : Nat) : Char := if n < 10 then Char.ofNat (48 + n) else Char.ofNat (87 + n)

def hexOfBytes (b : List UInt8) : String :=
  if b.isEmpty then "-" else String.ofList (b.flatMap (fun x => [hexDigit (x.toNat / 16), hexDigit (x.toNat % 16)]))

def hexVal (c : Char) : Option Nat :=
  if '0' ≤ c ∧ c ≤ '9' then some (c.toNat - 48)
  else if 'a' ≤ c ∧ c ≤ 'f' then some (c.toNat - 87)
  else none

def bytesOfHexGo : List Char → Option (List UInt8)
  | [] => some []
  | [_] => none
  | a :: b :: rest => do
    let x ← hexVal a
    let y ← hexVal b
    let r ← bytesOfHexGo rest
    pure (UInt8.ofNat (16 * x + y) :: r)

def bytesOfHex (s : String) : Option (List UInt8) :=
  if s == "-" then some [] else bytesOfHexGo s.toList

end Dos.Wire
