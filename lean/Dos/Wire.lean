/-
Line protocol helpers shared by the driver's sub-protocols (parsing of numbers and lists, printing).
No imports.
-/
namespace Dos.Wire

def splitOn1 (s : String) (sep : Char) : List String :=
  (s.split (· == sep)).toList.map (·.toString)

/-- "1,2,3" → [1,2,3]; "-" or "" → [] -/
def natList (s : String) : Option (List Nat) :=
  if s == "-" || s == "" then some []
  else (splitOn1 s ',').mapM (·.toNat?)

def boolList (s : String) : Option (List Bool) :=
  (natList s).map (·.map (· != 0))

def intOf (s : String) : Option Int := s.toInt?

def intList (s : String) : Option (List Int) :=
  if s == "-" || s == "" then some []
  else (splitOn1 s ',').mapM (·.toInt?)

def showNats (l : List Nat) : String :=
  if l.isEmpty then "-" else ",".intercalate (l.map toString)

def showInts (l : List Int) : String :=
  if l.isEmpty then "-" else ",".intercalate (l.map toString)

def b01 (b : Bool) : String := if b then "1" else "0"

def insSorted (x : Nat) : List Nat → List Nat
  | [] => [x]
  | y :: ys => if x ≤ y then x :: y :: ys else y :: insSorted x ys

def sortNats (l : List Nat) : List Nat := l.foldr insSorted []

/-- value of "key=value" token -/
def kv (tok : String) (key : String) : Option String :=
  let pre := key ++ "="
  if tok.startsWith pre then some ((tok.drop pre.length).toString) else none

end Dos.Wire
