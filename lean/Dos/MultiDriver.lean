import Dos.Multi
import Dos.MultiBulk
import Dos.Wire
import Dos.StoreDriver

namespace Dos.MultiDriver
open Dos Dos.Multi Dos.Wire

structure DState where
  sizes : Array Nat := #[]
  zlens : Array Nat := #[]
  m : MSt := MSt.init 1 1

def DState.tab (d : DState) : Tab := { size := fun i => d.sizes.getD i 0, zlen := fun i => d.zlens.getD i 0 }

def showFound (t : Tab) (m : MSt) (f : Found) : String :=
  match f with
  | .missing => "missing"
  | .loose c => s!"loose:{c}"
  | .packed r => s!"packed:{match readRow t m.disk r with | some c => toString c | none => "x"}"

def stepLine (d : DState) (line : String) : DState × String :=
  match (line.trimAscii.toString.splitOn " ").filter (· != "") with
  | ["new", target, n] =>
    match target.toNat?, n.toNat? with
    | some tg, some n => ({ d with m := MSt.init tg n }, "ok")
    | _, _ => (d, "bad-op")
  | "tab" :: entries =>
    match entries.mapM (fun e => match splitOn1 e ',' with
        | [a, b] => do pure ((← a.toNat?), (← b.toNat?))
        | _ => none) with
    | some l => ({ d with sizes := d.sizes ++ (l.map (·.1)).toArray, zlens := d.zlens ++ (l.map (·.2)).toArray }, "ok")
    | none => (d, "bad-op")
  | ["add", _h, c] =>
    match c.toNat? with
    | some c => ({ d with m := { d.m with disk := addLoose d.m.disk c } }, s!"key={c}")
    | none => (d, "bad-op")
  | ["pack", mode, cl, order, zs] =>
    match StoreDriver.parseMode mode, natList order, boolList zs with
    | some mo, some order, some zs =>
      match mstep d.tab d.m (.pack mo order zs (cl == "1")) with
      | some m' => ({ d with m := m' }, "ok")
      | none => (d, "inadmissible")
    | _, _, _ => (d, "bad-op")
  | ["clean"] =>
    match mstep d.tab d.m .clean with
    | some m' => ({ d with m := m' }, "ok")
    | none => (d, "bad-op")
  | ["get", h, k] =>
    match h.toNat?, k.toNat? with
    | some h, some k =>
      let (f, m') := lookup d.m h k
      ({ d with m := m' }, showFound d.tab d.m f)
    | _, _ => (d, "bad-op")
  | ["bulk", h, inMax, scanMax, skip, ks] =>
    -- the batched three-stage lookup as written in the code: one `key=form` per reported key, sorted by key
    match h.toNat?, inMax.toNat?, scanMax.toNat?, natList ks with
    | some h, some inMax, some scanMax, some ks =>
      let (res, m') := bulkLookup d.m h ks inMax scanMax (skip == "1")
      let forms := res.map (fun kf => (kf.1, match kf.2 with
        | .missing => "missing" | .loose _ => "loose" | .packed r => s!"packed.{r.pack}.{r.off}.{r.len}"))
      let sorted := (sortNats (forms.map (·.1))).map (fun k => s!"{k}=" ++ String.intercalate "+" ((forms.filter (·.1 == k)).map (·.2)))
      ({ d with m := m' }, if sorted.isEmpty then "-" else String.intercalate "," sorted)
    | _, _, _, _ => (d, "bad-op")
  | ["list", h] =>
    match h.toNat? with
    | some h => let (l, m') := qList d.m h; ({ d with m := m' }, showNats (sortNats l))
    | none => (d, "bad-op")
  | ["state"] => (d, StoreDriver.showState d.m.disk)
  | _ => (d, "bad-op")

end Dos.MultiDriver
