/-
Specification-side definitions for the stream theorems (C07): in-range programs, the guarded reference,
the decoder contract.
-/
import Dos.Stream

namespace Dos.Stream

/-- the reference, with out-of-range seeks rejected without effect (what `PackedObjectReader` promises) -/
def Ref.stepGuarded (r : Ref) (c : Cmd) : Ref × Out :=
  if c.inRange r.data.length r.pos then r.step c else (r, .err .value)

def runRefGuarded : Ref → List Cmd → List Out
  | _, [] => []
  | r, c :: cs => let (r', o) := r.stepGuarded c; o :: runRefGuarded r' cs

/-- every command of the program is in range at the position the reference has when it is executed -/
def inRangeProg : Ref → List Cmd → Bool
  | _, [] => true
  | r, c :: cs => c.inRange r.data.length r.pos && inRangeProg (r.step c).1 cs

def Cmd.isWhence2 : Cmd → Bool
  | .seek _ 2 => true
  | _ => false

/-- the window of a `PackedObjectReader` is well-formed w.r.t. the object `obj` it shows -/
structure Packed.WF (p : Packed) (obj : Bytes) : Prop where
  win : ∃ pre post, p.f.data = pre ++ obj ++ post ∧ p.off = pre.length
  len_eq : p.len = obj.length
  fpos_eq : p.f.fpos = p.off + p.pos
  pos_le : p.pos ≤ p.len

/-- The contract of a streaming decoder (`zlib.decompressobj`) for the compressed stream `e` of content `b`.
    `R s c q`: state `s` has consumed `c` bytes of `e` and produced `q` bytes of `b`. -/
structure Decoder.Valid {σ : Type} (dc : Decoder σ) (e b : Bytes) where
  R : σ → Nat → Nat → Prop
  init_R : R dc.init 0 0
  init_tail : dc.tail dc.init = []
  bounds : ∀ s c q, R s c q → c ≤ e.length ∧ q ≤ b.length
  feed_R : ∀ s c q (inp : Bytes) (max : Nat), R s c q → 0 < max → inp = slice e c inp.length →
    ∃ c', R (dc.feed s inp max).1 c' (q + (dc.feed s inp max).2.length) ∧
      (dc.feed s inp max).2 = slice b q (dc.feed s inp max).2.length ∧
      (dc.feed s inp max).2.length ≤ max ∧
      c ≤ c' ∧ c' ≤ c + inp.length ∧
      dc.tail (dc.feed s inp max).1 = inp.drop (c' - c) ∧
      ((dc.feed s inp max).2.length < max → c' = c + inp.length) ∧
      (dc.eof (dc.feed s inp max).1 = true ↔ c' = e.length) ∧
      (c' = e.length → q + (dc.feed s inp max).2.length = b.length)

/-- a fresh decompresser over the window `[off, off+len)` of a pack -/
def Decomp.init {σ} (dc : Decoder σ) (data : Bytes) (off len : Nat) (lazy : Option Bytes) (chunk fuel : Nat) : Decomp σ :=
  { cs := Packed.init data off len, d := dc.init, buf := [], pos := 0, lazy := lazy, loose := none, chunk := chunk, fuel := fuel }

end Dos.Stream
