/-
Level C, continued: `repack()` = `repack_pack` for every pack, one after the other.  Each pack's action list is compiled
from the on-disk state the previous ones have left (`toSt (execAll …)`: between two packs the container is quiescent).
-/
import Dos.IO

namespace Dos.IO
open Dos

def actsRepackAll (t : Tab) : St → List (Nat × List Bool) → List Act
  | _, [] => []
  | s, (p, zs) :: rest =>
    let a := actsRepackPack t s p zs
    a ++ actsRepackAll t (toSt (execAll (ofSt s) a)) rest

/-- the plan is well-formed for the evolving state: no pack is the temporary one, the verdict lists have the right lengths -/
def planOK (t : Tab) : St → List (Nat × List Bool) → Bool
  | _, [] => true
  | s, (p, zs) :: rest =>
    p != tmpId && zs.length == (rowsOfPack s.rows p).length &&
      planOK t (toSt (execAll (ofSt s) (actsRepackPack t s p zs))) rest

end Dos.IO
