/-
`backup_auto_folders`: the finished backup is moved to `backup_<name>`, `last-backup` is pointed at it, then the folder
names are sorted and all but the last `keep + 1` are deleted.  Names are modelled as numbers (their sort order).
No imports: compiled into the driver.
-/
namespace Dos.BackupFolders

structure FSt where
  /-- existing backup folders, sorted by name -/
  backups : List Nat
  /-- what `last-backup` points to -/
  last : Option Nat
  deriving Repr, DecidableEq

def insertSorted (x : Nat) : List Nat → List Nat
  | [] => [x]
  | y :: ys => if x ≤ y then x :: y :: ys else y :: insertSorted x ys

/-- one successful backup that gets the name `name`, with `keep` previous backups to be kept -/
def takeBackup (keep : Nat) (s : FSt) (name : Nat) : FSt :=
  let all := insertSorted name s.backups
  { backups := all.drop (all.length - (keep + 1)), last := some name }

/-- a failed backup attempt never reaches the renaming: nothing changes -/
def failBackup (s : FSt) : FSt := s

def run (keep : Nat) : FSt → List (Option Nat) → FSt
  | s, [] => s
  | s, some name :: rest => run keep (takeBackup keep s name) rest
  | s, none :: rest => run keep (failBackup s) rest

end Dos.BackupFolders
