/-
Several handles on one container, operations issued one at a time (property C08).

Every handle has its own SQLite session.  In WAL mode a session that has read something keeps reading the same
snapshot of the index until it commits or is closed; the read paths of the library therefore look at the index
snapshot first, then at the loose files (always current), and - only if the loose file is not there - close the
session and look at a fresh snapshot.  Handle 0 is the packing handle (the only one that writes the index).

No imports beyond Level B: compiled into the driver.
-/
import Dos.Store

namespace Dos.Multi
open Dos

structure MSt where
  disk : St
  /-- per handle: the pinned index snapshot of its operation session (`none` = no snapshot pinned) -/
  snaps : List (Option (List Row))
  deriving Repr

def MSt.init (target n : Nat) : MSt := { disk := St.empty target, snaps := List.replicate n none }

def getSnap (m : MSt) (h : Nat) : Option (List Row) := (m.snaps.getD h none)

def setSnap (m : MSt) (h : Nat) (v : Option (List Row)) : MSt := { m with snaps := m.snaps.set h v }

/-- the rows handle `h` sees when it queries now, and the state with the snapshot pinned -/
def pin (m : MSt) (h : Nat) : List Row × MSt :=
  match getSnap m h with
  | some rows => (rows, m)
  | none => (m.disk.rows, setSnap m h (some m.disk.rows))

/-- where a lookup found the object -/
inductive Found
  | packed (r : Row)
  | loose (c : Nat)
  | missing
  deriving Repr, DecidableEq

/-- `_get_objects_stream_meta_generator` for one key: index snapshot, then loose file, then (session closed and
    reopened) the current index -/
def lookup (m : MSt) (h k : Nat) : Found × MSt :=
  let (rows, m1) := pin m h
  match findRow rows k with
  | some r => (.packed r, m1)
  | none =>
    match findLoose m.disk.loose k with
    | some c => (.loose c, m1)
    | none =>
      let m2 := setSnap m1 h (some m.disk.rows)
      match findRow m.disk.rows k with
      | some r => (.packed r, m2)
      | none => (.missing, m2)

/-- content read through the result of a lookup (pack files are read as they are now) -/
def contentOf (t : Tab) (m : MSt) : Found → Option Nat
  | .packed r => readRow t m.disk r
  | .loose c => some c
  | .missing => none

def qHas (m : MSt) (h k : Nat) : Bool × MSt :=
  match lookup m h k with
  | (.missing, m') => (false, m')
  | (_, m') => (true, m')

def qGet (t : Tab) (m : MSt) (h k : Nat) : Option Nat × MSt :=
  let (f, m') := lookup m h k
  (contentOf t m f, m')

/-- `list_all_objects`: the loose listing first, then the index read from a refreshed session -/
def qList (m : MSt) (h : Nat) : List Nat × MSt :=
  let m' := setSnap m h (some m.disk.rows)
  ((m.disk.rows.map (·.key) ++ looseKeys m.disk).eraseDups, m')

inductive MOp
  | add (h c : Nat)
  | pack (mode : Mode) (order : List Nat) (zs : List Bool) (clean : Bool)
  | clean
  | qHas (h k : Nat)
  | qGet (h k : Nat)
  | qList (h : Nat)
  deriving Repr

/-- one step; queries only change snapshots -/
def mstep (t : Tab) (m : MSt) : MOp → Option MSt
  | .add _ c => some { m with disk := addLoose m.disk c }
  | .pack mode order zs cl =>
    -- the packer reads the index (pinning a snapshot if it has none), writes, commits: its transaction ends
    match packAll t m.disk mode order zs cl with
    | some d => some (setSnap { m with disk := d } 0 none)
    | none => none
  | .clean =>
    -- `clean_storage` closes the packer's sessions, then queries: a fresh snapshot stays pinned
    some (setSnap { m with disk := clean m.disk } 0 (some m.disk.rows))
  | .qHas h k => some (qHas m h k).2
  | .qGet h k => some (lookup m h k).2
  | .qList h => some (qList m h).2

def mrun (t : Tab) : MSt → List MOp → Option MSt
  | m, [] => some m
  | m, op :: ops =>
    match mstep t m op with
    | none => none
    | some m' => mrun t m' ops

end Dos.Multi
