/-
The structural invariant of the Level-B store and the well-formedness of a content table.
Definitions only (plus the decidable checker used by the driver); proofs live in `Dos/Proofs/*`.
-/
import Dos.Store
import Dos.Ops

namespace Dos

/-- What the harness guarantees about the table it sends (checked by the driver on every table):
    a zlib stream is never empty, and content ids are in bijection with contents, so there is only
    one content of length zero. -/
structure Tab.WF (t : Tab) : Prop where
  zpos : ∀ c, 0 < t.zlen c
  empty_unique : ∀ a b, t.size a = 0 → t.size b = 0 → a = b

/-- Row `r` designates a whole segment of an existing pack: the pack is `pre ++ ⟨key, z⟩ :: post`,
    the row's offset is the length of `pre`, its stored length is the segment's length,
    its size is the content's length. -/
def RowOK (t : Tab) (packs : Packs) (r : Row) : Prop :=
  ∃ segs pre post, getPack packs r.pack = some segs ∧ segs = pre ++ (⟨r.key, r.z⟩ : Seg) :: post ∧
    r.off = segsLen t pre ∧ r.len = Seg.len t ⟨r.key, r.z⟩ ∧ r.size = t.size r.key

structure Inv (t : Tab) (s : St) : Prop where
  rows_ok : ∀ r ∈ s.rows, RowOK t s.packs r
  keys_nodup : (s.rows.map (·.key)).Nodup
  ids_nodup : (s.rows.map (·.id)).Nodup
  /-- rows of one pack lie in the file in the order of their ids -/
  ids_pos : ∀ r1 ∈ s.rows, ∀ r2 ∈ s.rows, r1.pack = r2.pack → r1.id < r2.id → r1.off + r1.len ≤ r2.off
  packs_nodup : (s.packs.map (·.1)).Nodup
  loose_nodup : (s.loose.map (·.1)).Nodup
  loose_ok : ∀ e ∈ s.loose, e.1 = e.2
  target_pos : 0 < s.target

/-- The same as `Inv` except that loose files may be damaged (used for the C09 repair clause). -/
structure InvPacked (t : Tab) (s : St) : Prop where
  rows_ok : ∀ r ∈ s.rows, RowOK t s.packs r
  keys_nodup : (s.rows.map (·.key)).Nodup
  ids_nodup : (s.rows.map (·.id)).Nodup
  ids_pos : ∀ r1 ∈ s.rows, ∀ r2 ∈ s.rows, r1.pack = r2.pack → r1.id < r2.id → r1.off + r1.len ≤ r2.off
  packs_nodup : (s.packs.map (·.1)).Nodup
  loose_nodup : (s.loose.map (·.1)).Nodup
  target_pos : 0 < s.target

end Dos
