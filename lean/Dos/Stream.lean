/-
Level A: the streams handed out by the container (property C07, read side of C01).

* `Ref`     – the reference: an in-memory binary file (`io.BytesIO`) over the object's bytes.
* `Packed`  – `PackedObjectReader`: a window `[off, off+len)` on a shared pack-file handle.
* `Decomp`  – `ZlibLikeBaseStreamDecompresser` over a `Packed` window holding a compressed stream, for an
              abstract streaming decoder (`Decoder`), with the optional lazily opened loose copy.
* `toy`     – a concrete run-length decoder satisfying the same contract as `zlib.decompressobj`; the
              correspondence harness plugs its Python twin into the real base class.

No imports: compiled into the driver.
-/
namespace Dos.Stream

abbrev Bytes := List UInt8

inductive Cmd
  | read (n : Int)            -- read(n); n < 0 means "everything that is left"
  | seek (t : Int) (w : Nat)  -- seek(t, whence)
  | tell
  deriving Repr, DecidableEq

inductive Err | value | notImplemented | assertion | os
  deriving Repr, DecidableEq

inductive Out
  | data (b : Bytes)
  | pos (n : Int)
  | err (e : Err)
  deriving Repr, DecidableEq

def slice (d : Bytes) (p n : Nat) : Bytes := (d.drop p).take n

/-! ### the reference: io.BytesIO -/

structure Ref where
  data : Bytes
  pos : Nat
  deriving Repr

def Ref.step (r : Ref) : Cmd → Ref × Out
  | .read n =>
    let k := if n < 0 then r.data.length - r.pos else n.toNat
    let out := slice r.data r.pos k
    ({ r with pos := r.pos + out.length }, .data out)
  | .seek t w =>
    if w = 0 then
      if t < 0 then (r, .err .value) else ({ r with pos := t.toNat }, .pos t)
    else if w = 1 then
      let np := (Int.ofNat r.pos + t).toNat
      ({ r with pos := np }, .pos np)
    else if w = 2 then
      let np := (Int.ofNat r.data.length + t).toNat
      ({ r with pos := np }, .pos np)
    else (r, .err .value)
  | .tell => (r, .pos r.pos)

/-- absolute position a seek aims at, on an object of length `len` when the stream is at `pos` -/
def seekTarget (len pos : Nat) (t : Int) (w : Nat) : Int :=
  if w = 1 then Int.ofNat pos + t else if w = 2 then Int.ofNat len + t else t

/-- the commands C07 calls "in range": whence is valid and the target lies inside `[0, len]` -/
def Cmd.inRange (len pos : Nat) : Cmd → Bool
  | .seek t w => decide (w ≤ 2) && decide (0 ≤ seekTarget len pos t w) && decide (seekTarget len pos t w ≤ Int.ofNat len)
  | _ => true

/-! ### the pack-file handle and PackedObjectReader -/

structure File where
  data : Bytes
  fpos : Nat
  deriving Repr

def File.read (f : File) (n : Nat) : File × Bytes :=
  let out := slice f.data f.fpos n
  ({ f with fpos := f.fpos + out.length }, out)

structure Packed where
  f : File
  off : Nat
  len : Nat
  /-- the cached `_pos` -/
  pos : Nat
  deriving Repr

def Packed.init (data : Bytes) (off len : Nat) : Packed := { f := { data := data, fpos := off }, off := off, len := len, pos := 0 }

/-- `tell()`: position of the underlying handle relative to the offset -/
def Packed.tell (p : Packed) : Int := Int.ofNat p.f.fpos - Int.ofNat p.off

/-- `_update_pos` after the handle moved: recompute `_pos`, with its two assertions -/
def Packed.updatePos (p : Packed) : Option Packed :=
  if p.f.fpos < p.off then none
  else if p.f.fpos - p.off > p.len then none
  else some { p with pos := p.f.fpos - p.off }

def Packed.read (p : Packed) (n : Int) : Packed × Out :=
  let remaining := p.len - p.pos
  let k := if n < 0 then remaining else min remaining n.toNat
  let (f', out) := p.f.read k
  match Packed.updatePos { p with f := f' } with
  | some p' => (p', .data out)
  | none => ({ p with f := f' }, .err .assertion)

def Packed.seek (p : Packed) (t : Int) (w : Nat) : Packed × Out :=
  if w > 2 then (p, .err .value)
  else
    let target : Int := if w = 1 then p.tell + t else if w = 2 then Int.ofNat p.len + t else t
    if target < 0 then (p, .err .value)
    else if target > Int.ofNat p.len then (p, .err .value)
    else
      match Packed.updatePos { p with f := { p.f with fpos := p.off + target.toNat } } with
      | some p' => (p', .pos target)
      | none => (p, .err .assertion)

def Packed.step (p : Packed) : Cmd → Packed × Out
  | .read n => p.read n
  | .seek t w => p.seek t w
  | .tell => (p, .pos p.tell)

/-! ### the streaming decoder contract (`zlib.decompressobj`) -/

structure Decoder (σ : Type) where
  init : σ
  /-- `decompress(data, max_length)` with `max_length > 0` -/
  feed : σ → Bytes → Nat → σ × Bytes
  /-- `unconsumed_tail` -/
  tail : σ → Bytes
  eof : σ → Bool

/-! ### ZlibLikeBaseStreamDecompresser -/

structure Decomp (σ : Type) where
  cs : Packed
  d : σ
  buf : Bytes
  pos : Nat
  /-- a LazyLooseStream was supplied (content of the loose copy it would open) -/
  lazy : Option Bytes
  /-- once materialised, every request is proxied to the loose file -/
  loose : Option Ref
  /-- `_CHUNKSIZE` -/
  chunk : Nat
  /-- fuel for the internal loops (any value ≥ compressed length + object length + 4 gives the same results) -/
  fuel : Nat

/-- one pass of the `while len(self._internal_buffer) < size` loop body; `none` = the ValueError branch -/
def fillStep {σ} (dc : Decoder σ) (s : Decomp σ) (size : Nat) : Option (Decomp σ × Bool) :=
  let old := dc.tail s.d
  let toRead := s.chunk - old.length
  let (cs', o) := s.cs.read (Int.ofNat toRead)
  match o with
  | .data next =>
    let (d', out) := dc.feed s.d (old ++ next) size
    let s' := { s with cs := cs', d := d', buf := s.buf ++ out }
    -- the compressed stream is exhausted only if something was asked of it and nothing came
    if toRead != 0 && next.isEmpty && (dc.tail d').isEmpty then
      if dc.eof d' then some (s', true) else none
    else some (s', false)
  | _ => none

def fill {σ} (dc : Decoder σ) (size : Nat) : Nat → Decomp σ → Option (Decomp σ)
  | 0, s => some s
  | f + 1, s =>
    if s.buf.length < size then
      match fillStep dc s size with
      | none => none
      | some (s', stop) => if stop then some s' else fill dc size f s'
    else some s

/-- `_read_compressed(size)` for `size > 0` -/
def readSome {σ} (dc : Decoder σ) (s : Decomp σ) (size : Nat) : Decomp σ × Out :=
  match fill dc size s.fuel s with
  | none => (s, .err .value)
  | some s' =>
    let ret := s'.buf.take size
    ({ s' with buf := s'.buf.drop size, pos := s'.pos + ret.length }, .data ret)

/-- `_read_compressed(-1)`: repeat `read(_CHUNKSIZE)` until it returns nothing -/
def readAllGo {σ} (dc : Decoder σ) : Nat → Decomp σ → Bytes → Decomp σ × Out
  | 0, s, acc => (s, .data acc)
  | f + 1, s, acc =>
    match readSome dc s s.chunk with
    | (s', .data c) => if c.isEmpty then (s', .data acc) else readAllGo dc f s' (acc ++ c)
    | (s', o) => (s', o)

def Decomp.read {σ} (dc : Decoder σ) (s : Decomp σ) (n : Int) : Decomp σ × Out :=
  match s.loose with
  | some r =>
    let (r', o) := r.step (.read n)
    ({ s with loose := some r' }, o)
  | none =>
    if n < 0 then readAllGo dc s.fuel s []
    else if n = 0 then (s, .data [])
    else readSome dc s n.toNat

def Decomp.tell {σ} (s : Decomp σ) : Int :=
  match s.loose with
  | some r => r.pos
  | none => s.pos

/-- rewind to the start: re-create the decompressor -/
def Decomp.reset {σ} (dc : Decoder σ) (s : Decomp σ) : Decomp σ × Out :=
  match s.cs.seek 0 0 with
  | (cs', .pos _) => ({ s with cs := cs', d := dc.init, buf := [], pos := 0 }, .pos 0)
  | (_, o) => (s, o)

/-- `while self.tell() < target: read(min(256 KiB, target - tell))` -/
def skipTo {σ} (dc : Decoder σ) (target : Nat) : Nat → Decomp σ → Decomp σ × Out
  | 0, s => (s, .pos s.pos)
  | f + 1, s =>
    if s.pos < target then
      match readSome dc s (min 262144 (target - s.pos)) with
      | (s', .data c) => if c.isEmpty then (s', .pos s'.pos) else skipTo dc target f s'
      | (s', o) => (s', o)
    else (s, .pos s.pos)

def Decomp.seek {σ} (dc : Decoder σ) (s : Decomp σ) (t : Int) (w : Nat) : Decomp σ × Out :=
  if w > 2 then (s, .err .value)
  else
    let shouldUncompress := w = 2 || (w = 1 && t < 0) || (w = 1 && t < Int.ofNat s.pos)
    -- materialise the loose copy and switch to it
    let s1 : Decomp σ :=
      match s.loose, s.lazy with
      | none, some b => if shouldUncompress then { s with loose := some { data := b, pos := s.pos } } else s
      | _, _ => s
    match s1.loose with
    | some r =>
      let (r', o) := r.step (.seek t w)
      ({ s1 with loose := some r' }, o)
    | none =>
      if w = 2 then (s1, .err .notImplemented)
      else
        let target : Int := if w = 1 then Int.ofNat s1.pos + t else t
        if target < 0 then (s1, .err .value)
        else if target = 0 then Decomp.reset dc s1
        else
          let tg := target.toNat
          if tg < s1.pos then
            match Decomp.reset dc s1 with
            | (s2, .pos _) => skipTo dc tg s2.fuel s2
            | (s2, o) => (s2, o)
          else skipTo dc tg s1.fuel s1

def Decomp.step {σ} (dc : Decoder σ) (s : Decomp σ) : Cmd → Decomp σ × Out
  | .read n => s.read dc n
  | .seek t w => s.seek dc t w
  | .tell => (s, .pos s.tell)

/-! ### running programs -/

def runRef : Ref → List Cmd → List Out
  | _, [] => []
  | r, c :: cs => let (r', o) := r.step c; o :: runRef r' cs

def runPacked : Packed → List Cmd → List Out
  | _, [] => []
  | p, c :: cs => let (p', o) := p.step c; o :: runPacked p' cs

def runDecomp {σ} (dc : Decoder σ) : Decomp σ → List Cmd → List Out
  | _, [] => []
  | s, c :: cs => let (s', o) := s.step dc c; o :: runDecomp dc s' cs

/-! ### a concrete decoder with the same interface: run-length records

`enc b` is a sequence of records `[1, x]` (literal byte `x`) and `[2, x, k]` (`x` repeated `k ≥ 1` times), closed by
`[0, 0]`.  Like zlib, the decoder may have consumed all of its input and still hold output back because the output
limit was reached (a run in progress). -/

structure ToyState where
  /-- bytes of an incomplete record consumed so far -/
  hold : Bytes := []
  /-- run in progress: byte and remaining count -/
  run : Option (UInt8 × Nat) := none
  tail : Bytes := []
  eof : Bool := false
  bad : Bool := false
  deriving Repr

/-- process input until the output limit is reached or the input is used up -/
def toyGo : Nat → ToyState → Bytes → Nat → Bytes → ToyState × Bytes
  | 0, st, inp, _, out => ({ st with tail := inp }, out)
  | f + 1, st, inp, room, out =>
    if st.eof || st.bad then ({ st with tail := [] }, out)
    else match st.run with
    | some (x, k) =>
      if room = 0 then ({ st with tail := inp }, out)
      else
        let n := min k room
        let st' := { st with run := if k - n = 0 then none else some (x, k - n) }
        toyGo f st' inp (room - n) (out ++ List.replicate n x)
    | none =>
      if room = 0 then ({ st with tail := inp }, out)
      else match inp with
      | [] => ({ st with tail := [] }, out)
      | b :: rest =>
        let h := st.hold ++ [b]
        match h with
        | [0, 0] => toyGo f { st with hold := [], eof := true } rest room out
        | [1, x] => toyGo f { st with hold := [] } rest (room - 1) (out ++ [x])
        | [2, x, k] => toyGo f { st with hold := [], run := if k.toNat = 0 then none else some (x, k.toNat) } rest room out
        | [0] | [1] | [2] | [2, _] => toyGo f { st with hold := h } rest room out
        | _ => ({ st with bad := true, tail := [] }, out)

def toyDecoder : Decoder ToyState where
  init := {}
  feed := fun st inp max => toyGo (2 * inp.length + 2 * max + 8) st inp max []
  tail := fun st => st.tail
  eof := fun st => st.eof

/-- the matching encoder: runs of equal bytes (≥ 3, ≤ 255) become run records -/
def runLen (x : UInt8) : Bytes → Nat
  | [] => 0
  | y :: ys => if y = x then 1 + runLen x ys else 0

def toyEncGo : Nat → Bytes → Bytes
  | 0, _ => [0, 0]
  | _, [] => [0, 0]
  | f + 1, x :: rest =>
    let n := min (1 + runLen x rest) 255
    if n ≥ 3 then [2, x, UInt8.ofNat n] ++ toyEncGo f (rest.drop (n - 1))
    else [1, x] ++ toyEncGo f rest

def toyEnc (b : Bytes) : Bytes := toyEncGo (b.length + 1) b

end Dos.Stream
