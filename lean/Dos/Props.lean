/-
The properties, stated once each over *whole histories*: every theorem here quantifies over every finite history
`ops` from a freshly initialised container (`Reach`), every content table, every parameter; each is a short corollary of
the theorems in `Dos/Proofs/*` (which are stated per operation, for every state satisfying `Inv`).
This file contains no helper lemma that could be weakened to make a proof pass: only `Reach`, the lift of `Bounded` to
reachable states, the headline statements, and for each a concrete non-trivial history meeting its hypotheses.
-/
import Dos.Proofs.Step
import Dos.Proofs.Read
import Dos.Proofs.Validate
import Dos.Proofs.Denote
import Dos.Proofs.C09
import Dos.Proofs.C10
import Dos.Proofs.C11
import Dos.Proofs.C13
import Dos.Proofs.C14
import Dos.Proofs.IOBasic
import Dos.Proofs.IOPacks
import Dos.Proofs.IORepack
import Dos.Proofs.IOImportProofs
import Dos.Proofs.IOPackAllOProofs
import Dos.Proofs.IORepackAllProofs
import Dos.Proofs.ConcProofs
import Dos.Proofs.BackupProofs
import Dos.Proofs.BatchProofs
import Dos.Proofs.ImportCacheProofs
import Dos.Proofs.MultiBulkProofs

namespace Dos.Props
open Dos Dos.IO Dos.Conc Dos.Backup

/-- `s` is the state after the finite history `ops` on a freshly initialised container with pack-size target `tg` -/
def Reach (t : Tab) (tg : Nat) (ops : List Op) (s : St) : Prop := run t (St.empty tg) ops = some s

theorem reach_inv {t : Tab} (wf : t.WF) {tg : Nat} (htg : 0 < tg) {ops : List Op} {s : St} (h : Reach t tg ops s) :
    Inv t s := inv_run wf (inv_empty t htg) h

theorem has_empty (tg k : Nat) : has (St.empty tg) k = false := by
  simp [has, hasRow, hasLoose, rowKeys, looseKeys, St.empty]

/-! ## C01 / C02: any history behaves like a plain map from keys to contents -/

/-- after any history: membership is that of the plain key set driven by the same operations; a present key reads as its own
    content with its own size; an absent key reads as nothing; the listing is the key set, each key once -/
theorem C02_history_is_map {t : Tab} (wf : t.WF) {tg : Nat} (htg : 0 < tg) {ops : List Op} {s : St}
    (h : Reach t tg ops s) (k : Nat) :
    has s k = specRun (fun _ => false) ops k ∧
    (has s k = true → getc t s k = some k ∧
        ((∃ p o l z, getMeta t s k = some (.packed (t.size k) p o l z)) ∨ getMeta t s k = some (.loose (t.size k)))) ∧
    (has s k = false → getc t s k = none ∧ getMeta t s k = none) ∧
    (k ∈ listAll s ↔ has s k = true) ∧ (listAll s).Nodup := by
  have inv := reach_inv wf htg h
  refine ⟨?_, ?_, ?_, (listAll_spec s).2 k, (listAll_spec s).1⟩
  · have := has_run wf (inv_empty t htg) h k
    rw [this]
    have he : has (St.empty tg) = fun _ => false := funext (has_empty tg)
    rw [he]
  · intro hk
    exact ⟨getc_of_has wf inv hk, getMeta_size inv hk⟩
  · intro hk
    exact ⟨getc_none_of_not_has hk, getMeta_none_of_not_has hk⟩

/-- C01 in one line: whatever was stored by any of the write paths and not deleted since reads back as itself -/
theorem C01_round_trip {t : Tab} (wf : t.WF) {tg : Nat} (htg : 0 < tg) {ops : List Op} {s : St}
    (h : Reach t tg ops s) (k : Nat) (hk : specRun (fun _ => false) ops k = true) : getc t s k = some k := by
  have := C02_history_is_map wf htg h k
  exact (this.2.1 (this.1.trans hk)).1

/-! ## C03: the index and the pack files agree, byte for byte, under any codec -/

theorem C03_index_matches_packs {cd : Codec} {t : Tab} (ag : cd.Agrees t) (wf : t.WF) {tg : Nat} (htg : 0 < tg)
    {ops : List Op} {s : St} (h : Reach t tg ops s) :
    (∀ r ∈ s.rows, ∃ segs, getPack s.packs r.pack = some segs ∧ r.off + r.len ≤ (denPack cd segs).length ∧
        recover cd (denPack cd segs) r = some (cd.bytes r.key) ∧ r.size = (cd.bytes r.key).length ∧
        (r.z = false → r.len = r.size)) ∧
    (∀ r1 ∈ s.rows, ∀ r2 ∈ s.rows, r1 ≠ r2 → r1.pack = r2.pack → r1.off + r1.len ≤ r2.off ∨ r2.off + r2.len ≤ r1.off) ∧
    (∀ r1 ∈ s.rows, ∀ r2 ∈ s.rows, r1.key = r2.key → r1 = r2) := by
  have inv := reach_inv wf htg h
  exact ⟨fun r hr => row_bytes ag inv hr, fun r1 h1 r2 h2 => rows_disjoint inv h1 h2,
    fun r1 h1 r2 h2 => key_indexed_once inv h1 h2⟩

/-! ## C09: one stored copy per key in each form -/

theorem C09_one_copy {t : Tab} (wf : t.WF) {tg : Nat} (htg : 0 < tg) {ops : List Op} {s : St} (h : Reach t tg ops s)
    (k : Nat) : (s.rows.filter (fun r => r.key == k)).length ≤ 1 ∧ (s.loose.filter (fun e => e.1 == k)).length ≤ 1 :=
  ⟨one_row_per_key (reach_inv wf htg h) k, one_loose_per_key (reach_inv wf htg h) k⟩

/-- adding known objects with `no_holes` leaves the index and every pack file as they were (new packs may be created empty) -/
theorem C09_known_objects_leave_no_trace {t : Tab} (wf : t.WF) {tg : Nat} (htg : 0 < tg) {ops : List Op} {s : St}
    (h : Reach t tg ops s) (cs : List Nat) (z : Bool) (hcs : ∀ c ∈ cs, hasRow s c = true) :
    (addPacked t s cs z true).rows = s.rows ∧
    (∀ p segs, getPack s.packs p = some segs → getPack (addPacked t s cs z true).packs p = some segs) :=
  let r := addPacked_noHoles_known (reach_inv wf htg h) cs z hcs
  ⟨r.1, r.2.1⟩

/-! ## C12: a container that only went through the API validates clean -/

theorem C12_validate_clean {t : Tab} (wf : t.WF) {tg : Nat} (htg : 0 < tg) {ops : List Op} {s : St}
    (h : Reach t tg ops s) : (validate t s).clean = true := validate_clean wf (reach_inv wf htg h)

/-! ## C13: without repack, pack files only grow at their end, full packs are never written again, numbering has no gaps -/

theorem C13_append_only {t : Tab} (wf : t.WF) {tg : Nat} (htg : 0 < tg) {ops1 ops2 : List Op} {s1 s2 : St}
    (h1 : Reach t tg ops1 s1) (h2 : run t s1 ops2 = some s2) (hno : ∀ op ∈ ops2, op.noRepack = true) :
    ∀ p segs, getPack s1.packs p = some segs → ∃ ext, getPack s2.packs p = some (segs ++ ext) := by
  have _ := reach_inv wf htg h1
  exact append_only_run hno h2

theorem C13_numbered {t : Tab} {tg : Nat} {ops : List Op} {s : St} (h : Reach t tg ops s)
    (hno : ∀ op ∈ ops, op.noRepack = true) : Numbered t s := numbered_reachable hno h

/-! ## C05 / C06 / C17: every operation on every reachable state is safe against a kill, a power loss and a single fault,
at every cut point -/

/-- the contents used by the operation are genuine content ids (below the two reserved markers) -/
def Op.below : Op → Prop
  | .addLoose c => c < garbage
  | .addPacked cs _ _ => ∀ c ∈ cs, c < garbage
  | .importObjs w _ _ _ _ => ∀ c ∈ w, c < garbage
  | _ => True

theorem bounded_step {t : Tab} (wf : t.WF) {s s' : St} (inv : Inv t s) (hb : Bounded s) {op : Op} (hop : Op.below op)
    (h : step t s op = some s') : Bounded s' := by
  intro k hk
  rw [has_step wf inv h k] at hk
  cases op with
  | addLoose c =>
    simp only [specHas, Bool.or_eq_true, beq_iff_eq] at hk
    rcases hk with hk | hk
    · exact hb k hk
    · subst hk; exact hop
  | addPacked cs z nh =>
    simp only [specHas, Bool.or_eq_true, List.contains_iff_mem] at hk
    rcases hk with hk | hk
    · exact hb k hk
    · exact hop k hk
  | importObjs w o z same tr =>
    simp only [specHas, Bool.or_eq_true, List.contains_iff_mem] at hk
    rcases hk with hk | hk
    · exact hb k hk
    · exact hop k hk
  | delete ks =>
    simp only [specHas, Bool.and_eq_true] at hk
    exact hb k hk.1
  | packAll m order zs cl => exact hb k hk
  | clean => exact hb k hk
  | repack m plan => exact hb k hk
  | loosen k' => exact hb k hk
  | reopen => exact hb k hk

theorem bounded_run {t : Tab} (wf : t.WF) : ∀ {ops : List Op} {s s' : St}, Inv t s → Bounded s →
    (∀ op ∈ ops, Op.below op) → run t s ops = some s' → Bounded s'
  | [], s, s', _, hb, _, h => by simp [run] at h; subst h; exact hb
  | op :: ops, s, s', inv, hb, hops, h => by
    simp only [run] at h
    cases hs : step t s op with
    | none => simp [hs] at h
    | some s1 =>
      simp [hs] at h
      exact bounded_run wf (inv_step wf inv hs) (bounded_step wf inv hb (hops op List.mem_cons_self) hs)
        (fun o ho => hops o (List.mem_cons_of_mem _ ho)) h

theorem reach_bounded {t : Tab} (wf : t.WF) {tg : Nat} (htg : 0 < tg) {ops : List Op} {s : St} (h : Reach t tg ops s)
    (hops : ∀ op ∈ ops, Op.below op) : Bounded s :=
  bounded_run wf (inv_empty t htg) (fun k hk => by simp [has_empty] at hk) hops h

/-- the writers of a reachable container: kill, power loss (default fsync settings) and single fault, every cut point -/
theorem C05_C06_C17_writers_safe {t : Tab} (wf : t.WF) {tg : Nat} (htg : 0 < tg) {ops : List Op} {s : St}
    (h : Reach t tg ops s) (hops : ∀ op ∈ ops, Op.below op) :
    (∀ c, c < garbage → ∀ mk, AllSafe t s (actsAddLoose s c mk) (keysOf s)) ∧
    (∀ cs, (∀ c ∈ cs, c < garbage) → ∀ z nh rt, AllSafe t s (actsAddPacked t s cs z nh rt) (keysOf s)) ∧
    (∀ calls : List (List Nat), (∀ cs ∈ calls, ∀ c ∈ cs, c < garbage) → ∀ z nh rt,
        AllSafe t s (actsImport t s calls z nh rt true) (keysOf s)) ∧
    (∀ order zs cl, (∀ k ∈ order, hasLoose s k = true ∧ hasRow s k = false) → order.Nodup → zs.length = order.length →
        AllSafe t s (actsPackAll t s order zs cl) (keysOf s)) := by
  have inv := reach_inv wf htg h
  have hb := reach_bounded wf htg h hops
  exact ⟨fun c hc mk => Basic.safe_addLoose wf inv hb c hc mk,
    fun cs hcs z nh rt => safe_addPacked wf inv hb cs hcs z nh rt,
    fun calls hc z nh rt => safe_import wf inv hb calls hc z nh rt,
    fun order zs cl ho hn hl => safe_packAll wf inv hb order zs cl ho hn hl⟩

/-- the maintenance operations of a reachable container -/
theorem C05_C06_C17_maintenance_safe {t : Tab} (wf : t.WF) {tg : Nat} (htg : 0 < tg) {ops : List Op} {s : St}
    (h : Reach t tg ops s) (hops : ∀ op ∈ ops, Op.below op) :
    (∀ order, (∀ k ∈ order, hasRow s k = true) → AllSafe t s (actsClean s order) (keysOf s)) ∧
    (∀ ks, AllSafe t s (actsDelete s ks) ((keysOf s).filter (fun k => !ks.contains k))) ∧
    (NoTmp s → ∀ p, p ≠ tmpId → ∀ zs, zs.length = (rowsOfPack s.rows p).length →
        AllSafe t s (actsRepackPack t s p zs) (keysOf s)) ∧
    (NoTmp s → ∀ plan, planOK t s plan = true → AllSafe t s (actsRepackAll t s plan) (keysOf s)) := by
  have inv := reach_inv wf htg h
  have hb := reach_bounded wf htg h hops
  exact ⟨fun order ho => Basic.safe_clean wf inv hb order ho, fun ks => Basic.safe_delete wf inv hb ks,
    fun nt p hp zs hz => safe_repackPack wf inv hb nt p hp zs hz, fun nt plan hp => safe_repackAll wf inv hb nt plan hp⟩

/-- with `do_fsync=False` power-loss safety is not promised, kill and fault safety still hold -/
theorem C05_C17_nofsync_safe {t : Tab} (wf : t.WF) {tg : Nat} (htg : 0 < tg) {ops : List Op} {s : St}
    (h : Reach t tg ops s) (hops : ∀ op ∈ ops, Op.below op) :
    (∀ cs, (∀ c ∈ cs, c < garbage) → ∀ z nh rt f, CrashFaultSafe t s (actsAddPackedO t s cs z nh rt f) (keysOf s)) ∧
    (∀ calls : List (List Nat), (∀ cs ∈ calls, ∀ c ∈ cs, c < garbage) → ∀ z nh rt f,
        CrashFaultSafe t s (actsImport t s calls z nh rt f) (keysOf s)) ∧
    (∀ order zs cl, (∀ k ∈ order, hasLoose s k = true ∧ hasRow s k = false) → order.Nodup → zs.length = order.length →
        ∀ f, CrashFaultSafe t s (actsPackAllO t s order zs cl f) (keysOf s)) := by
  have inv := reach_inv wf htg h
  have hb := reach_bounded wf htg h hops
  exact ⟨fun cs hcs z nh rt f => crashfault_addPackedO wf inv hb cs hcs z nh rt f,
    fun calls hc z nh rt f => crashfault_import wf inv hb calls hc z nh rt f,
    fun order zs cl ho hn hl f => crashfault_packAllO wf inv hb order zs cl ho hn hl f⟩

/-! ## C10 / C11 / C14 on reachable states -/

theorem C11_delete {t : Tab} (wf : t.WF) {tg : Nat} (htg : 0 < tg) {ops : List Op} {s : St} (h : Reach t tg ops s)
    (ks : List Nat) :
    (∀ k, k ∈ (delete s ks).2 ↔ k ∈ ks ∧ has s k = true) ∧
    (∀ k, has (delete s ks).1 k = (has s k && !ks.contains k)) ∧
    (∀ k, k ∉ ks → getc t (delete s ks).1 k = getc t s k) ∧
    (delete s ks).1.packs = s.packs := by
  have _ := reach_inv wf htg h
  exact ⟨(delete_returns s ks).2, delete_has s ks, fun k hk => (delete_others_unchanged t s ks hk).1, delete_packs s ks⟩

theorem C11_full_repack_compacts {t : Tab} (wf : t.WF) {tg : Nat} (htg : 0 < tg) {ops : List Op} {s s' : St}
    (h : Reach t tg ops s) {m : Mode} {plan : List (Nat × List Nat × List Bool)} (hr : repackAll t m s plan = some s')
    (hall : ∀ p ∈ s.packs.map (·.1), p ∈ plan.map (·.1)) :
    ∀ p segs, getPack s'.packs p = some segs → rowsOfPack s'.rows p ≠ [] ∧ segs = liveSegs s' p :=
  repackAll_compacts (reach_inv wf htg h) hr hall

theorem C14_import_exact {t : Tab} (wf : t.WF) {tg : Nat} (htg : 0 < tg) {ops : List Op} {s s' : St}
    (h : Reach t tg ops s) {w o : List Nat} {z same tr : Bool} (hi : importObjs t s w o z same tr = some s') :
    (∀ k, has s' k = (has s k || w.contains k)) ∧ (∀ k ∈ w, getc t s' k = some k) ∧
    (∀ k, has s k = true → getc t s' k = some k) ∧
    packBytes t s' + refBytes s = packBytes t s + refBytes s' :=
  let e := import_exact wf (reach_inv wf htg h) hi
  ⟨e.1, e.2.1, e.2.2, import_no_junk (reach_inv wf htg h) hi⟩

/-! ## C10 on reachable states: the requested mode is honoured, sizes and lengths are those of the content -/

theorem C10_modes {t : Tab} (wf : t.WF) {tg : Nat} (htg : 0 < tg) {ops : List Op} {s : St} (h : Reach t tg ops s) :
    (∀ r ∈ s.rows, r.size = t.size r.key ∧ (r.len = if r.z = true then t.zlen r.key else t.size r.key)) ∧
    (∀ {m : Mode} {order : List Nat} {zs : List Bool} {cl : Bool} {s' : St}, packAll t s m order zs cl = some s' →
        ∀ r ∈ s'.rows, r ∈ s.rows ∨ (r.key ∈ toPack s ∧ (m = .yes → r.z = true) ∧ (m = .no → r.z = false) ∧ (m = .keep → r.z = false))) ∧
    (∀ {plan : List (Nat × List Nat × List Bool)} {s' : St}, repackAll t .yes s plan = some s' →
        (∀ r ∈ s.rows, r.pack ∈ plan.map (·.1)) → ∀ r ∈ s'.rows, r.z = true) ∧
    (∀ {plan : List (Nat × List Nat × List Bool)} {s' : St}, repackAll t .no s plan = some s' →
        (∀ r ∈ s.rows, r.pack ∈ plan.map (·.1)) → ∀ r ∈ s'.rows, r.z = false) ∧
    (∀ {plan : List (Nat × List Nat × List Bool)} {s' : St}, repackAll t .keep s plan = some s' →
        ∀ r' ∈ s'.rows, ∃ r ∈ s.rows, r'.key = r.key ∧ r'.z = r.z ∧ r'.size = r.size ∧ r'.len = r.len) ∧
    (∀ {m : Mode} {plan : List (Nat × List Nat × List Bool)} {s' : St}, repackAll t m s plan = some s' →
        ∀ k, has s' k = has s k ∧ (has s k = true → getc t s' k = some k)) := by
  have inv := reach_inv wf htg h
  refine ⟨fun r hr => ⟨(row_size_len inv hr).1, (row_size_len inv hr).2.1⟩, fun hp r hr => packAll_new_rows inv hp r hr,
    fun hr hall r hr' => repackAll_yes inv hr hall r hr', fun hr hall r hr' => repackAll_no inv hr hall r hr',
    fun hr r' hr' => ?_, fun {m plan s'} hr k => ?_⟩
  · obtain ⟨r, h1, h2⟩ := repackAll_keep inv hr r' hr'
    exact ⟨r, h1, h2⟩
  · have hs : step t s (.repack m plan) = some s' := hr
    have hh := has_step wf inv hs k
    have inv' := inv_step wf inv hs
    refine ⟨by simpa [specHas] using hh, fun hk => getc_of_has wf inv' ?_⟩
    rw [hh]; simpa [specHas] using hk

/-! ## C16: batch sizes and lookup strategies cannot matter -/

/-- on every reachable state, for every batch size and scan threshold, the batched computations of `pack_all_loose`,
    `clean_storage` and `delete_objects` are the Level-B operations (whose effect on the key set is `has_step`) -/
theorem C16_maintenance_batching {t : Tab} (wf : t.WF) {tg : Nat} (htg : 0 < tg) {ops : List Op} {s : St} (h : Reach t tg ops s)
    (inMax scanMax : Nat) (hin : 0 < inMax) :
    Batch.packTargets s inMax scanMax = toPack s ∧ Batch.cleanBatched s inMax scanMax = clean s ∧
    (∀ ks, (Batch.deleteBatched s ks inMax).1 = (delete s ks).1 ∧
        (∀ k, k ∈ (Batch.deleteBatched s ks inMax).2 ↔ k ∈ (delete s ks).2) ∧ (Batch.deleteBatched s ks inMax).2.Nodup) := by
  have inv := reach_inv wf htg h
  exact ⟨Batch.packTargets_eq inv inMax scanMax hin, Batch.cleanBatched_eq inv inMax scanMax hin,
    fun ks => ⟨(Batch.deleteBatched_eq inv ks inMax hin).1, (Batch.deleteBatched_eq inv ks inMax hin).2, Batch.deleteBatched_nodup s ks inMax⟩⟩

/-- importing: whatever the memory budget and the order in which the source hands the objects over, each is written in
    exactly one direct-to-pack call, and a batch held in memory never exceeds the budget -/
theorem C14_C18_import_batching (sz : Nat → Nat) (budget : Nat) (stream : List Nat) :
    (ImportCache.importCalls sz budget stream).flatten.Perm stream ∧
    (∀ call ∈ ImportCache.importCalls sz budget stream, call ≠ [] ∧
        ((∃ c, call = [c] ∧ sz c > budget) ∨ (ImportCache.total sz call ≤ budget ∧ ∀ c ∈ call, sz c ≤ budget))) :=
  ⟨ImportCache.importCalls_perm sz budget stream,
   fun call hc => ⟨ImportCache.importCalls_nonempty sz budget stream call hc, ImportCache.importCalls_bounded sz budget stream call hc⟩⟩

example : ImportCache.importCalls (fun c => 10 * c) 45 [1, 2, 9, 3, 0, 4] = [[9], [1, 2], [3, 0], [4]] := by decide

/-! ## C04 / C15 on reachable containers: every schedule that respects the packer discipline (which the library's own
packer programs do under every interleaving: `packAll_disciplined`, `clean_disciplined`) -/

theorem C04_readers {t : Tab} (wf : t.WF) {tg : Nat} (htg : 0 < tg) {ops : List Op} {s : St} (h : Reach t tg ops s)
    (hops : ∀ op ∈ ops, Op.below op) (wkeys rkeys : List Nat) (hw : ∀ k ∈ wkeys, k < garbage) (sched : List Ev)
    (hd : disciplined t (CSt.init s wkeys rkeys) sched = true) :
    (∀ r ∈ (crun t (CSt.init s wkeys rkeys) sched).readers, r.pc = 9 →
        (r.key ∈ r.ackedAtStart → r.res = some (.ok r.key)) ∧ (r.res = some (.ok r.key) ∨ r.res = some .missing)) ∧
    (∀ k ∈ (crun t (CSt.init s wkeys rkeys) sched).acked,
        k ∈ (crun t (CSt.init s wkeys rkeys) sched).x.rows.map (·.key) ∨
        hasLooseX (crun t (CSt.init s wkeys rkeys) sched).x k = true) := by
  have inv := reach_inv wf htg h
  have hb := reach_bounded wf htg h hops
  exact ⟨fun r hr hpc => ⟨fun hk => reader_correct wf inv hb wkeys rkeys hw sched hd r hr hpc hk,
      reader_never_wrong wf inv hb wkeys rkeys hw sched hd r hr hpc⟩,
    fun k hk => acked_available wf inv hb wkeys rkeys hw sched hd k hk⟩

theorem C15_backup {t : Tab} (wf : t.WF) {tg : Nat} (htg : 0 < tg) {ops : List Op} {s : St} (h : Reach t tg ops s)
    (hops : ∀ op ∈ ops, Op.below op) (wkeys rkeys : List Nat) (hw : ∀ k ∈ wkeys, k < garbage) (sched : List BEv)
    (hd : bdisciplined t (BSt.init (CSt.init s wkeys rkeys)) sched = true) (hnw : noWal sched = true)
    (hfin : (brun t (BSt.init (CSt.init s wkeys rkeys)) sched).phase = 3) :
    SafeImg t (image (brun t (BSt.init (CSt.init s wkeys rkeys)) sched))
        (brun t (BSt.init (CSt.init s wkeys rkeys)) sched).atStart ∧
    Inv t (image (brun t (BSt.init (CSt.init s wkeys rkeys)) sched)) ∧
    (validate t (image (brun t (BSt.init (CSt.init s wkeys rkeys)) sched))).clean = true := by
  have inv := reach_inv wf htg h
  have hb := reach_bounded wf htg h hops
  exact ⟨backup_reads_safe wf inv hb wkeys rkeys hw sched hd hnw hfin, backup_valid wf inv hb wkeys rkeys hw sched hd hnw hfin⟩

/-! ## the hypotheses are met: concrete non-trivial histories -/

/-- sizes: content `c` has `10·c+5` bytes and compresses to `c+3` -/
def demoTab : Tab := { size := fun c => 10 * c + 5, zlen := fun c => c + 3 }

def demoOps : List Op :=
  [.addLoose 1, .addPacked [2, 3, 2] true false, .addLoose 4, .packAll .no [1, 4] [false, false] false, .clean,
   .delete [3], .addPacked [5] false true, .reopen, .loosen 2]

/-- the demonstration history runs (it is admissible) and ends in a state with three packs' worth of objects -/
example : ∃ s, Reach demoTab 40 demoOps s ∧ has s 1 = true ∧ has s 3 = false ∧ has s 5 = true ∧ s.packs.length ≥ 2 := by
  refine ⟨(run demoTab (St.empty 40) demoOps).get (by decide), by simp [Reach], ?_, ?_, ?_, ?_⟩ <;> decide

theorem demoTab_wf : demoTab.WF := ⟨fun c => by simp [demoTab], fun a b ha hb => by simp [demoTab] at ha⟩

example : ∀ op ∈ demoOps, Op.below op := by
  intro op hop
  simp [demoOps] at hop
  rcases hop with rfl | rfl | rfl | rfl | rfl | rfl | rfl | rfl | rfl <;> simp [Op.below, garbage]

example : ∀ op ∈ demoOps, op.noRepack = true := by decide

/-! ### C04 / C15: a concrete interleaving in which the packer packs and cleans while a reader holds an old snapshot and a
writer publishes, and a concrete backup taken meanwhile, meet the hypotheses (and exercise the retry path) -/

def demoS : St := (run demoTab (St.empty 40) [.addLoose 1, .addLoose 2]).get (by decide)
def demoS2 : St := (packAll demoTab demoS .no [1, 2] [false, false] false).get (by decide)

def demoSched : List Ev :=
  [.pin 0, .wcheck 0] ++ (actsPackAll demoTab demoS [1, 2] [false, false] false).map .pk ++ [.wpublish 0, .wack 0] ++
  (actsClean demoS2 [1, 2]).map .pk ++ [.look 0, .openLoose 0, .repin 0, .look2 0, .readPack 0]

example : disciplined demoTab (CSt.init demoS [3] [1]) demoSched = true ∧
    (crun demoTab (CSt.init demoS [3] [1]) demoSched).readers.map (fun r => (r.pc, r.res)) = [(9, some (.ok 1))] ∧
    (crun demoTab (CSt.init demoS [3] [1]) demoSched).acked = [3, 1, 2] := by decide +kernel

def demoBk : List BEv :=
  [.start, .cpLoose 1] ++ (actsPackAll demoTab demoS [1, 2] [false, false] false).map (fun a => .sys (.pk a)) ++
  [.sys (.wcheck 0), .sys (.wpublish 0), .sys (.wack 0), .cpLoose 2] ++ (actsClean demoS2 [1]).map (fun a => .sys (.pk a)) ++
  [.dumpIndex, .cpPack 0] ++ (actsClean demoS2 [2]).map (fun a => .sys (.pk a)) ++ [.finish]

example : bdisciplined demoTab (BSt.init (CSt.init demoS [3] [])) demoBk = true ∧ noWal demoBk = true ∧
    (brun demoTab (BSt.init (CSt.init demoS [3] [])) demoBk).phase = 3 ∧
    (brun demoTab (BSt.init (CSt.init demoS [3] [])) demoBk).atStart = [1, 2] ∧
    [1, 2, 3].map (readFresh demoTab (image (brun demoTab (BSt.init (CSt.init demoS [3] [])) demoBk))) =
      [.ok 1, .ok 2, .missing] := by decide +kernel

/-- the side conditions of the Level-C theorems (`safe_packAll`, `safe_clean`, `safe_repackPack`) are met by the demonstration
    states: two loose objects without rows to pack; after packing, both have rows; no pack or row uses the reserved id -/
example : (∀ k ∈ [1, 2], hasLoose demoS k = true ∧ hasRow demoS k = false) ∧ [1, 2].Nodup ∧
    (∀ k ∈ [1, 2], hasRow demoS2 k = true) ∧ (rowsOfPack demoS2.rows 0).length = 2 ∧
    (demoS2.packs.all (fun e => e.1 != tmpId) && demoS2.rows.all (fun r => r.pack != tmpId)) = true := by decide +kernel

end Dos.Props
