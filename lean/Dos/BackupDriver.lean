import Dos.Backup
import Dos.ConcDriver
import Dos.StoreDriver

namespace Dos.BackupDriver
open Dos Dos.IO Dos.Conc Dos.Backup Dos.Wire

structure DState where
  sizes : Array Nat := #[]
  zlens : Array Nat := #[]
  b : BSt := BSt.init (CSt.init (St.empty 1) [] [])

def DState.tab (d : DState) : Tab := { size := fun i => d.sizes.getD i 0, zlen := fun i => d.zlens.getD i 0 }

/-- a whole Level-B operation by another client, executed between two copy steps of the backup -/
def applyOp (t : Tab) (b : BSt) (args : List String) : Option (BSt × String) :=
  match StoreDriver.doOp t (toSt b.g.x) args with
  | some (s', out) =>
    let acked := match args with
      | "addLoose" :: c :: _ => (c.toNat?.map (fun k => [k])).getD []
      | "addPacked" :: _ :: _ :: cs :: _ => (natList cs).getD []
      | _ => []
    some ({ b with g := { b.g with x := ofSt s', acked := acked ++ b.g.acked } }, out)
  | none => none

def stepLine (d : DState) (line : String) : DState × String :=
  match (line.trimAscii.toString.splitOn " ").filter (· != "") with
  | ["new", target] =>
    match target.toNat? with
    | some tg => ({ d with b := BSt.init (CSt.init (St.empty tg) [] []) }, "ok")
    | none => (d, "bad-op")
  | "tab" :: entries =>
    match entries.mapM (fun e => match splitOn1 e ',' with
        | [a, b] => do pure ((← a.toNat?), (← b.toNat?))
        | _ => none) with
    | some l => ({ d with sizes := d.sizes ++ (l.map (·.1)).toArray, zlens := d.zlens ++ (l.map (·.2)).toArray }, "ok")
    | none => (d, "bad-op")
  | "op" :: args =>
    match applyOp d.tab d.b args with
    | some (b', out) => ({ d with b := b' }, out)
    | none => (d, "bad-op")
  | ["ev", "start"] => ({ d with b := bstep d.tab d.b .start }, "ok")
  | ["ev", "cploose", ks] =>
    match natList ks with
    | some ks => ({ d with b := ks.foldl (fun b k => bstep d.tab b (.cpLoose k)) d.b }, "ok")
    | none => (d, "bad-op")
  | ["ev", "dump"] =>
    let b' := bstep d.tab d.b .dumpIndex
    ({ d with b := b' }, if b'.phase = 2 then "ok" else "refused")
  | ["ev", "cppack", ps] =>
    match natList ps with
    | some ps => ({ d with b := ps.foldl (fun b p => bstep d.tab b (.cpPack p)) d.b }, "ok")
    | none => (d, "bad-op")
  | ["ev", "wal"] => ({ d with b := bstep d.tab d.b .walCopied }, "ok")
  | ["ev", "finish"] =>
    let b' := bstep d.tab d.b .finish
    ({ d with b := b' }, if b'.phase = 3 then "ok" else "refused")
  | ["restart"] => ({ d with b := { d.b with phase := 0, bkLoose := [], bkRows := [], bkPacks := [], atStart := [] } }, "ok")
  | ["image"] => (d, StoreDriver.showState (image d.b) ++ s!" atstart={showNats (sortNats d.b.atStart.eraseDups)}")
  | ["live"] => (d, StoreDriver.showState (toSt d.b.g.x))
  | _ => (d, "bad-op")

end Dos.BackupDriver
