/-
A byte-level container (arbitrary loose bytes, arbitrary pack bytes, arbitrary index rows - not only reachable ones)
and `validate()` on it: the second half of property C12 (a damaged object never validates clean), and the write-side
chunk loops of property C01.  Hash and codec are parameters.
-/
namespace Dos.Bytes

abbrev Bytes := List UInt8

structure BRow where
  key : Nat
  pack : Nat
  off : Nat
  len : Nat
  z : Bool
  size : Nat
  deriving Repr

structure BStore where
  loose : List (Nat × Bytes)
  packs : List (Nat × Bytes)
  rows : List BRow

/-- hash of a byte string (a natural number stands for the hex digest) and the stream decoder -/
structure Algo where
  H : Bytes → Nat
  dec : Bytes → Option Bytes

def getPackB : List (Nat × Bytes) → Nat → Option Bytes
  | [], _ => none
  | (q, b) :: rest, p => if q = p then some b else getPackB rest p

/-- what the library's reader returns for row `r`: the slice (shorter if the file ends early), inflated when flagged;
    `none` = the read raises (missing pack file, undecodable stream) -/
def readRowB (a : Algo) (s : BStore) (r : BRow) : Option Bytes :=
  match getPackB s.packs r.pack with
  | none => none
  | some pk =>
    let raw := (pk.drop r.off).take r.len
    if r.z then a.dec raw else some raw

def findRowB (rows : List BRow) (k : Nat) : Option BRow := rows.find? (fun r => r.key == k)
def findLooseB (l : List (Nat × Bytes)) (k : Nat) : Option Bytes := (l.find? (fun e => e.1 == k)).map (·.2)

/-- reading key `k` through the library: index first, then the loose file -/
def getB (a : Algo) (s : BStore) (k : Nat) : Option Bytes :=
  match findRowB s.rows k with
  | some r => readRowB a s r
  | none => findLooseB s.loose k

/-- `validate()`: loose files whose digest is not their name; packed objects whose re-read digest / size differ
    (`none` from the reader = the call raises, which is not a clean report either) -/
def badLoose (a : Algo) (s : BStore) : List Nat := (s.loose.filter (fun e => a.H e.2 != e.1)).map (·.1)

def badPacked (a : Algo) (s : BStore) : List Nat :=
  (s.rows.filter (fun r => match readRowB a s r with
                           | some b => a.H b != r.key || b.length != r.size
                           | none => true)).map (·.key)

def validateClean (a : Algo) (s : BStore) : Bool := (badLoose a s).isEmpty && (badPacked a s).isEmpty

/-! ### write side: the chunk loops (`while chunk := read(n)`) -/

/-- successive `read(n)` calls on a stream holding `b` (a well-behaved stream returns `n` bytes until fewer are left) -/
def readChunks (n : Nat) : Nat → Bytes → List Bytes
  | 0, _ => []
  | _, [] => []
  | f + 1, b => b.take n :: readChunks n f (b.drop n)

def chunksOf (n : Nat) (b : Bytes) : List Bytes := if n = 0 then [] else readChunks n b.length b

/-- incremental hasher and compressor interfaces -/
structure Hasher (σ : Type) where
  init : σ
  update : σ → Bytes → σ
  digest : σ → Nat

structure Compressor (κ : Type) where
  init : κ
  compress : κ → Bytes → κ × Bytes
  flush : κ → Bytes

/-- `_write_data_to_packfile`: returns (bytes appended to the pack, count of bytes read, digest) -/
def writeData {σ κ} (h : Hasher σ) (c : Compressor κ) (compress : Bool) (chunks : List Bytes) : Bytes × Nat × Nat :=
  let (out, cnt, hs, cs) := chunks.foldl (fun (acc : Bytes × Nat × σ × κ) ch =>
      let (out, cnt, hs, cs) := acc
      if compress then
        let (cs', o) := c.compress cs ch
        (out ++ o, cnt + ch.length, h.update hs ch, cs')
      else (out ++ ch, cnt + ch.length, h.update hs ch, cs)) ([], 0, h.init, c.init)
  (if compress then out ++ c.flush cs else out, cnt, h.digest hs)

end Dos.Bytes
