/-
Level C, continued: the pack writers with their options (`do_fsync`, `do_commit`) and `import_objects`, which is a
sequence of direct-to-pack calls with `do_commit=False` followed by one final commit.
-/
import Dos.IO

namespace Dos.IO
open Dos

/-- end of one `with lock_pack(...)` block, with options: without `do_fsync` the pack is only flushed by its `close()`;
    without `do_commit` the rows stay in the open transaction -/
def sessionEndO (p : Nat) (rows : List Row) (trunc doFsync doCommit : Bool) : List Act :=
  (if trunc then [.pkTruncate p 0] else []) ++ rows.map .sqlInsert ++
  (if doFsync then [.pkFlush p, .pkFsync p, .dirSync] else []) ++ [.pkClose p, .unlock p] ++
  (if doCommit && !rows.isEmpty then [.sqlCommit] else [])

def wOpenO (t : Tab) (noHoles doFsync doCommit : Bool) (w : WSt) : WSt :=
  let s1 := openCur t w.s
  let p := s1.cur
  match w.openP with
  | some q =>
    if q = p then { w with s := s1 }
    else { s := s1, openP := some p, rows := [],
           acts := w.acts ++ sessionEndO q w.rows noHoles doFsync doCommit ++ [.lock p, .pkOpen p] }
  | none => { s := s1, openP := some p, rows := [], acts := w.acts ++ [.lock p, .pkOpen p] }

def wAddPackedO (t : Tab) (z noHoles readTwice doFsync doCommit : Bool) (w : WSt) (c : Nat) : WSt :=
  let w1 := wOpenO t noHoles doFsync doCommit w
  let p := w1.s.cur
  if noHoles && hasRow w1.s c then
    if readTwice then w1
    else { w1 with acts := w1.acts ++ [.pkWrite p ⟨c, z⟩, .pkTruncate p 1] }
  else
    let r := rowFor t w1.s p c z
    { w1 with s := writeObj t w1.s c z, rows := w1.rows ++ [r], acts := w1.acts ++ [.pkWrite p ⟨c, z⟩] }

/-- one call of `add_streamed_objects_to_pack` with its options: the actions, and the Level-B state afterwards
    (with `do_commit=False` its rows are the session's view: committed + pending) -/
def callActs (t : Tab) (s : St) (cs : List Nat) (z noHoles readTwice doFsync doCommit : Bool) : List Act × St :=
  match cs with
  | [] => ([], { s with cur := choosePack t s })
  | _ =>
    let w := cs.foldl (wAddPackedO t z noHoles readTwice doFsync doCommit) { s := s, openP := none, rows := [], acts := [] }
    ((match w.openP with
      | some q => w.acts ++ sessionEndO q w.rows noHoles doFsync doCommit
      | none => w.acts), w.s)

/-- `add_objects_to_pack(..., do_fsync=…)` with the default `do_commit=True` -/
def actsAddPackedO (t : Tab) (s : St) (cs : List Nat) (z noHoles readTwice doFsync : Bool) : List Act :=
  (callActs t s cs z noHoles readTwice doFsync true).1

def callsGo (t : Tab) (z noHoles readTwice doFsync : Bool) : St → List (List Nat) → List Act
  | _, [] => []
  | s, cs :: rest =>
    let (a, s') := callActs t s cs z noHoles readTwice doFsync false
    a ++ callsGo t z noHoles readTwice doFsync s' rest

/-- `import_objects`: the direct-to-pack calls it makes (one per cache flush / large object), none of which commits,
    then the single final commit -/
def actsImport (t : Tab) (s : St) (calls : List (List Nat)) (z noHoles readTwice doFsync : Bool) : List Act :=
  callsGo t z noHoles readTwice doFsync s calls ++ [.sqlCommit]

/-- the Level-B effect of the same calls -/
def callsSt (t : Tab) (z noHoles : Bool) : St → List (List Nat) → St
  | s, [] => s
  | s, cs :: rest => callsSt t z noHoles (addPacked t s cs z noHoles) rest

end Dos.IO
