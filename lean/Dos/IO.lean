/-
Level C: every operation as a sequence of I/O-relevant actions, with the state a crash / a power loss / a single
fault would leave behind (properties C05, C06, C17).

The *same* action list is
  * compared with the real I/O trace of the operation (correspondence harness, harness/iotrace.py),
  * interpreted to completion (`execAll`), which must give the Level-B result (`Dos.Store`),
  * cut at every prefix (`crashImg`: user-space buffers lost; `powerImg`: additionally, unsynced file data lost),
  * run with one action failing and the `finally` handlers executed (`runFault`).

No imports beyond the Level-B model: compiled into the driver.
-/
import Dos.Store

namespace Dos.IO
open Dos

/-- how far the content of a (sandbox / loose) file has got -/
inductive Dur | buffered | flushed | synced
  deriving DecidableEq, Repr, Inhabited

structure XFile where
  cid : Nat
  dur : Dur
  deriving DecidableEq, Repr, Inhabited

/-- a pack file: everything written so far, how much of it has reached the OS, how much is durable -/
structure XPack where
  segs : List Seg
  flushed : Nat
  synced : Nat
  deriving Repr, Inhabited

/-- the name the model gives to the temporary repack pack `-1` -/
def tmpId : Nat := 4294967295
/-- the content id standing for "partial / foreign bytes" -/
def garbage : Nat := 4294967294

structure XSt where
  loose : List (Nat × XFile)
  /-- the sandbox file of the write in progress -/
  sandbox : Option XFile
  packs : List (Nat × XPack)
  /-- committed index -/
  rows : List Row
  /-- the open write transaction: the session's working copy of the table -/
  work : Option (List Row)
  locks : List Nat
  cur : Nat
  target : Nat
  deriving Repr, Inhabited

inductive Act
  -- loose write path (ObjectWriter)
  | sbCreate | sbWrite (c : Nat) | sbFlush | sbFsync | sbClose | sbRemove
  | dirSync
  | mkdirLoose (k : Nat)
  | renameLoose (k : Nat)
  | readLoose (k : Nat)
  | looseUnlink (k : Nat)
  -- packs
  | lock (p : Nat) | unlock (p : Nat)
  | pkOpen (p : Nat) | pkWrite (p : Nat) (g : Seg) | pkFlush (p : Nat) | pkFsync (p : Nat) | pkClose (p : Nat)
  | pkTruncate (p : Nat) (n : Nat)
  | pkRead (p : Nat)
  | pkUnlink (p : Nat) | pkLink (src dst : Nat)
  -- index
  | sqlInsert (r : Row) | sqlDelete (k : Nat) | sqlMove (r : Row) | sqlRepoint (src dst : Nat) | sqlCommit
  deriving Repr, Inhabited

/-! ### association lists for packs -/

def getX : List (Nat × XPack) → Nat → Option XPack
  | [], _ => none
  | (q, pk) :: rest, p => if q = p then some pk else getX rest p

def setX : List (Nat × XPack) → Nat → XPack → List (Nat × XPack)
  | [], p, pk => [(p, pk)]
  | (q, old) :: rest, p, pk => if q = p then (p, pk) :: rest else (q, old) :: setX rest p pk

def eraseX : List (Nat × XPack) → Nat → List (Nat × XPack)
  | [], _ => []
  | (q, pk) :: rest, p => if q = p then eraseX rest p else (q, pk) :: eraseX rest p

def updX (ps : List (Nat × XPack)) (p : Nat) (f : XPack → XPack) : List (Nat × XPack) :=
  match getX ps p with
  | some pk => setX ps p (f pk)
  | none => ps

def workOf (x : XSt) : List Row := x.work.getD x.rows

/-! ### interpretation of one action -/

def exec (x : XSt) : Act → XSt
  | .sbCreate => { x with sandbox := some { cid := garbage, dur := .synced } }
  | .sbWrite c => { x with sandbox := x.sandbox.map (fun _ => { cid := c, dur := .buffered }) }
  | .sbFlush => { x with sandbox := x.sandbox.map (fun f => if f.dur = .buffered then { f with dur := .flushed } else f) }
  | .sbFsync => { x with sandbox := x.sandbox.map (fun f => if f.dur = .flushed then { f with dur := .synced } else f) }
  | .sbClose => { x with sandbox := x.sandbox.map (fun f => if f.dur = .buffered then { f with dur := .flushed } else f) }
  | .sbRemove => { x with sandbox := none }
  | .dirSync => x
  | .mkdirLoose _ => x
  | .renameLoose k =>
    match x.sandbox with
    | some f => { x with sandbox := none, loose := (x.loose.filter (fun e => e.1 != k)) ++ [(k, f)] }
    | none => x
  | .readLoose _ => x
  | .looseUnlink k => { x with loose := x.loose.filter (fun e => e.1 != k) }
  | .lock p => { x with locks := p :: x.locks }
  | .unlock p => { x with locks := x.locks.filter (· != p) }
  | .pkOpen p =>
    match getX x.packs p with
    | some _ => x
    | none => { x with packs := setX x.packs p { segs := [], flushed := 0, synced := 0 } }
  | .pkWrite p g => { x with packs := updX x.packs p (fun pk => { pk with segs := pk.segs ++ [g] }) }
  | .pkFlush p => { x with packs := updX x.packs p (fun pk => { pk with flushed := pk.segs.length }) }
  | .pkFsync p => { x with packs := updX x.packs p (fun pk => { pk with synced := pk.flushed }) }
  | .pkClose p => { x with packs := updX x.packs p (fun pk => { pk with flushed := pk.segs.length }) }
  | .pkTruncate p n =>
    { x with packs := updX x.packs p (fun pk =>
        let segs := pk.segs.take (pk.segs.length - n)
        { segs := segs, flushed := segs.length, synced := min pk.synced segs.length }) }
  | .pkRead _ => x
  | .pkUnlink p => { x with packs := eraseX x.packs p }
  | .pkLink src dst =>
    match getX x.packs src with
    | some pk => { x with packs := setX x.packs dst pk }
    | none => x
  | .sqlInsert r => { x with work := some (insertIgnore (workOf x) r) }
  | .sqlDelete k => { x with work := some ((workOf x).filter (fun r => r.key != k)) }
  | .sqlMove r => { x with work := some ((workOf x).map (fun o => if o.key = r.key then { r with id := o.id } else o)) }
  | .sqlRepoint src dst => { x with work := some ((workOf x).map (fun o => if o.pack = src then { o with pack := dst } else o)) }
  | .sqlCommit => { x with rows := workOf x, work := none }

def execAll : XSt → List Act → XSt
  | x, [] => x
  | x, a :: as => execAll (exec x a) as

/-! ### embedding of Level-B states, and the images after a crash -/

def ofSt (s : St) : XSt :=
  { loose := s.loose.map (fun e => (e.1, { cid := e.2, dur := .synced })),
    sandbox := none,
    packs := s.packs.map (fun e => (e.1, { segs := e.2, flushed := e.2.length, synced := e.2.length })),
    rows := s.rows, work := none, locks := [], cur := s.cur, target := s.target }

/-- what a process that runs to completion leaves (everything flushed; the session closed) -/
def toSt (x : XSt) : St :=
  { loose := x.loose.map (fun e => (e.1, e.2.cid)), packs := x.packs.map (fun e => (e.1, e.2.segs)),
    rows := x.rows, cur := x.cur, target := x.target }

/-- The disk after the process is killed.  `cut p` says how many segments of pack `p` beyond the flushed ones had
    reached the OS from the user-space buffer (any number is possible); a file whose content was still buffered is
    partial; the open transaction is gone. -/
def crashImg (x : XSt) (cut : Nat → Nat) : St :=
  { loose := x.loose.map (fun e => (e.1, if e.2.dur = .buffered then garbage else e.2.cid)),
    packs := x.packs.map (fun e => (e.1, e.2.segs.take (e.2.flushed + cut e.1))),
    rows := x.rows, cur := 0, target := x.target }

/-- The disk after a power loss: file data not yet fsynced is gone (directory operations and committed index
    transactions survive, as property C06 stipulates). -/
def powerImg (x : XSt) : St :=
  { loose := x.loose.map (fun e => (e.1, if e.2.dur = .synced then e.2.cid else garbage)),
    packs := x.packs.map (fun e => (e.1, e.2.segs.take e.2.synced)),
    rows := x.rows, cur := 0, target := x.target }

/-! ### what a fresh handle reads -/

inductive ReadRes
  | ok (c : Nat)      -- bytes of content `c` returned
  | missing           -- NotExistent
  | loud              -- the index names the temporary pack: `AssertionError: Invalid pack ID -1`
  | wrong             -- short / foreign / undecodable bytes
  deriving DecidableEq, Repr

def readFresh (t : Tab) (s : St) (k : Nat) : ReadRes :=
  match findRow s.rows k with
  | some r =>
    if r.pack = tmpId then .loud
    else match readRow t s r with
      | some c => .ok c
      | none => .wrong
  | none =>
    match findLoose s.loose k with
    | some c => .ok c
    | none => .missing

/-- C05/C06/C17: every key of `keep` still reads as itself (or fails loudly), and no key reads as anything else -/
def SafeImg (t : Tab) (img : St) (keep : List Nat) : Prop :=
  (∀ k ∈ keep, readFresh t img k = .ok k ∨ readFresh t img k = .loud) ∧
  (∀ k, k < garbage → readFresh t img k = .ok k ∨ readFresh t img k = .missing ∨ readFresh t img k = .loud)

/-- executable version, over a finite set of keys of interest -/
def safeImgB (t : Tab) (img : St) (keep : List Nat) (univ : List Nat) : Bool :=
  keep.all (fun k => readFresh t img k == .ok k || readFresh t img k == .loud) &&
  univ.all (fun k => readFresh t img k == .ok k || readFresh t img k == .missing || readFresh t img k == .loud)

/-! ### compiling operations to action lists -/

/-- `add_object` / `add_streamed_object` of content `c`, prefix length > 0 iff `mk` -/
def actsAddLoose (s : St) (c : Nat) (mk : Bool) : List Act :=
  [.sbCreate, .sbWrite c, .sbFlush, .sbFsync, .dirSync, .sbClose] ++
  (if mk then [.mkdirLoose c] else []) ++
  (match findLoose s.loose c with
   | some c' => if c' = c then [.readLoose c, .sbRemove] else [.readLoose c, .renameLoose c, .dirSync]
   | none => [.renameLoose c, .dirSync])

/-- end of one `with lock_pack(...)` block of the direct-to-pack / pack-all-loose writers, followed by the commit -/
def sessionEnd (p : Nat) (rows : List Row) (trunc : Bool) : List Act :=
  (if trunc then [.pkTruncate p 0] else []) ++ rows.map .sqlInsert ++
  [.pkFlush p, .pkFsync p, .dirSync, .pkClose p, .unlock p] ++ (if rows.isEmpty then [] else [.sqlCommit])

/-- State of the compiler for the pack writers: Level-B state so far, open pack, rows of the current session. -/
structure WSt where
  s : St
  openP : Option Nat
  rows : List Row
  acts : List Act

def wOpen (t : Tab) (noHoles : Bool) (w : WSt) : WSt :=
  let s1 := openCur t w.s
  let p := s1.cur
  match w.openP with
  | some q =>
    if q = p then { w with s := s1 }
    else { s := s1, openP := some p, rows := [], acts := w.acts ++ sessionEnd q w.rows noHoles ++ [.lock p, .pkOpen p] }
  | none => { s := s1, openP := some p, rows := [], acts := w.acts ++ [.lock p, .pkOpen p] }

def rowFor (t : Tab) (s : St) (p : Nat) (c : Nat) (z : Bool) : Row :=
  let segs := (getPack s.packs p).getD []
  { id := 0, key := c, pack := p, off := segsLen t segs, len := Seg.len t ⟨c, z⟩, z := z, size := t.size c }

/-- one object of `add_streamed_objects_to_pack` -/
def wAddPacked (t : Tab) (z noHoles readTwice : Bool) (w : WSt) (c : Nat) : WSt :=
  let w1 := wOpen t noHoles w
  let p := w1.s.cur
  if noHoles && hasRow w1.s c then
    if readTwice then w1
    else { w1 with acts := w1.acts ++ [.pkWrite p ⟨c, z⟩, .pkTruncate p 1] }
  else
    let r := rowFor t w1.s p c z
    { w1 with s := writeObj t w1.s c z, rows := w1.rows ++ [r], acts := w1.acts ++ [.pkWrite p ⟨c, z⟩] }

def wFinish (noHoles : Bool) (w : WSt) : List Act :=
  match w.openP with
  | some q => w.acts ++ sessionEnd q w.rows noHoles
  | none => w.acts

def actsAddPacked (t : Tab) (s : St) (cs : List Nat) (z noHoles readTwice : Bool) : List Act :=
  match cs with
  | [] => []
  | _ => wFinish noHoles (cs.foldl (wAddPacked t z noHoles readTwice) { s := s, openP := none, rows := [], acts := [] })

/-- one object of `pack_all_loose` -/
def wPackLoose (t : Tab) (w : WSt) (cz : Nat × Bool) : WSt :=
  let w1 := wOpen t false w
  let p := w1.s.cur
  let r := rowFor t w1.s p cz.1 cz.2
  { w1 with s := writeObj t w1.s cz.1 cz.2, rows := w1.rows ++ [r],
            acts := w1.acts ++ [.readLoose cz.1, .pkWrite p ⟨cz.1, cz.2⟩] }

/-- session end of `pack_all_loose` with per-pack cleaning: the loose files of the rows just committed are unlinked -/
def sessionEndClean (p : Nat) (rows : List Row) (clean : Bool) : List Act :=
  sessionEnd p rows false ++ (if clean then rows.map (fun r => Act.looseUnlink r.key) else [])

def wOpenPA (t : Tab) (clean : Bool) (w : WSt) : WSt :=
  let s1 := openCur t w.s
  let p := s1.cur
  match w.openP with
  | some q =>
    if q = p then { w with s := s1 }
    else { s := s1, openP := some p, rows := [], acts := w.acts ++ sessionEndClean q w.rows clean ++ [.lock p, .pkOpen p] }
  | none => { s := s1, openP := some p, rows := [], acts := w.acts ++ [.lock p, .pkOpen p] }

def wPackLooseC (t : Tab) (clean : Bool) (w : WSt) (cz : Nat × Bool) : WSt :=
  let w1 := wOpenPA t clean w
  let p := w1.s.cur
  let r := rowFor t w1.s p cz.1 cz.2
  { w1 with s := writeObj t w1.s cz.1 cz.2, rows := w1.rows ++ [r],
            acts := w1.acts ++ [.readLoose cz.1, .pkWrite p ⟨cz.1, cz.2⟩] }

def actsPackAll (t : Tab) (s : St) (order : List Nat) (zs : List Bool) (clean : Bool) : List Act :=
  match order with
  | [] => []
  | _ =>
    let w := (order.zip zs).foldl (wPackLooseC t clean) { s := s, openP := none, rows := [], acts := [] }
    match w.openP with
    | some q => w.acts ++ sessionEndClean q w.rows clean
    | none => w.acts

/-- `clean_storage`: unlink the loose files whose key is indexed (in the order observed) -/
def actsClean (_s : St) (order : List Nat) : List Act := order.map .looseUnlink

/-- `delete_objects ks`: loose files first, then the rows, one commit -/
def actsDelete (s : St) (ks : List Nat) : List Act :=
  (ks.filter (fun k => hasLoose s k)).eraseDups.map .looseUnlink ++
  (ks.filter (fun k => hasRow s k)).eraseDups.map .sqlDelete ++ [.sqlCommit]

/-- `repack_pack p` for a pack with rows: copy to the temporary pack, commit, unlink old, link back, commit, unlink -/
def actsRepackPack (t : Tab) (s : St) (p : Nat) (zs : List Bool) : List Act :=
  let rs := sortByOff (rowsOfPack s.rows p)
  match rs with
  | [] => if (getPack s.packs p).isSome then [.pkUnlink p] else []
  | _ =>
    let (gs, rs') := rebuild t tmpId rs zs 0
    [.lock tmpId, .pkOpen tmpId, .pkRead p] ++ gs.map (fun g => Act.pkWrite tmpId g) ++
    [.pkFlush tmpId, .pkFsync tmpId, .dirSync, .pkClose tmpId, .unlock tmpId] ++
    rs'.map .sqlMove ++ [.sqlCommit, .pkUnlink p, .pkLink tmpId p, .sqlRepoint tmpId p, .sqlCommit, .pkUnlink tmpId]

/-! ### a single fault: the action at index `k` raises instead of executing; the `finally` handlers run -/

/-- the handlers that are active after the first `k` actions have run (innermost first):
    an open sandbox file is closed and removed; an open pack is closed (the `with open(...)` block) and its lock released -/
def handlers (x : XSt) : List Act :=
  (match x.sandbox with
   | some _ => [.sbClose, .sbRemove]
   | none => []) ++
  x.locks.flatMap (fun p => [Act.pkClose p, .unlock p])

/-- state after the fault at position `k` (the exception propagates to the caller; the handle is then discarded,
    which drops its open transaction) -/
def runFault (x : XSt) (acts : List Act) (k : Nat) : XSt :=
  let x1 := execAll x (acts.take k)
  let x2 := execAll x1 (handlers x1)
  { x2 with work := none }

end Dos.IO
