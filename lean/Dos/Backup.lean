/-
A backup taken while the container is in use (property C15).

The backup actor copies, in this order: the loose files (each at some moment of the first phase), a committed snapshot of
the index (SQLite online backup), the pack files (each, as far as it has been flushed, at some moment of the third phase).
Meanwhile the actors of `Dos.Conc` keep running: writers publish loose objects, the packer packs and cleans.
What rsync is assumed to do is written as guards of the phase changes (`bstep` refuses to change phase otherwise):
every loose file that exists throughout the first phase is copied; every pack the copied index mentions is copied after
the index was dumped; live SQLite side files are not copied (otherwise the backup's effective index would be the live one
at that later moment: `walCopied`).
-/
import Dos.Conc

namespace Dos.Backup
open Dos Dos.IO Dos.Conc

structure BSt where
  g : CSt
  /-- 0 not started, 1 copying loose, 2 index dumped / copying packs, 3 finished -/
  phase : Nat
  bkLoose : List (Nat × Nat)
  bkRows : List Row
  bkPacks : Packs
  /-- ghost: keys that existed when the backup started -/
  atStart : List Nat
  deriving Repr

inductive BEv
  | sys (e : Ev)
  | start
  | cpLoose (k : Nat)
  | dumpIndex
  | cpPack (p : Nat)
  | finish
  /-- the last rsync also brings along the live `packs.idx-wal`: the backup's index becomes the live committed one -/
  | walCopied
  deriving Repr

def BSt.init (g : CSt) : BSt := { g := g, phase := 0, bkLoose := [], bkRows := [], bkPacks := [], atStart := [] }

/-- is key `k` available right now (loose or committed) -/
def availNow (x : XSt) (k : Nat) : Bool := hasLooseX x k || x.rows.any (fun r => r.key == k)

def bstep (t : Tab) (b : BSt) : BEv → BSt
  | .sys e => { b with g := cstep t b.g e }
  | .start => if b.phase = 0 then { b with phase := 1, atStart := b.g.acked } else b
  | .cpLoose k =>
    if b.phase = 1 then
      match b.g.x.loose.find? (fun e => e.1 == k) with
      | some e => { b with bkLoose := b.bkLoose.filter (fun p => p.1 != k) ++ [(k, if e.2.dur = .buffered then garbage else e.2.cid)] }
      | none => b
    else b
  | .dumpIndex =>
    -- rsync has copied every loose file that was there during the whole first phase
    if b.phase = 1 ∧ b.atStart.all (fun k => !hasLooseX b.g.x k || b.bkLoose.any (fun p => p.1 == k) || b.g.x.rows.any (fun r => r.key == k))
    then { b with phase := 2, bkRows := b.g.x.rows } else b
  | .cpPack p =>
    if b.phase = 2 then
      match getX b.g.x.packs p with
      | some pk => { b with bkPacks := setPack b.bkPacks p (pk.segs.take pk.flushed) }
      | none => b
    else b
  | .finish =>
    -- every pack the dumped index mentions was copied (after the dump)
    if b.phase = 2 ∧ b.bkRows.all (fun r => (getPack b.bkPacks r.pack).isSome) then { b with phase := 3 } else b
  | .walCopied => if b.phase = 2 then { b with bkRows := b.g.x.rows } else b

def brun (t : Tab) : BSt → List BEv → BSt
  | b, [] => b
  | b, e :: es => brun t (bstep t b e) es

/-- the backup folder as a container -/
def image (b : BSt) : St := { loose := b.bkLoose, packs := b.bkPacks, rows := b.bkRows, cur := 0, target := b.g.x.target }

def sysEvents : List BEv → List Ev
  | [] => []
  | .sys e :: es => e :: sysEvents es
  | _ :: es => sysEvents es

def noWal : List BEv → Bool
  | [] => true
  | .walCopied :: _ => false
  | _ :: es => noWal es

/-- a commit keeps the row ids unique and the rows of a pack laid out in the order of their ids
    (what `pack_all_loose` and direct-to-pack writes do: new rows get the largest id and the last position) -/
def layoutOKb (rows : List Row) : Bool :=
  nodupB (rows.map (·.id)) &&
  rows.all (fun r1 => rows.all (fun r2 => !(r1.pack == r2.pack && decide (r1.id < r2.id)) || decide (r1.off + r1.len ≤ r2.off)))

/-- packer discipline along a backup schedule (the packer events are those of `Dos.Conc`) -/
def bdisciplined (t : Tab) : BSt → List BEv → Bool
  | _, [] => true
  | b, e :: es =>
    (match e with
     | .sys (.pk a) => pkAllowed t b.g.x a && (match a with
                                               | .sqlCommit => layoutOKb (workOf b.g.x)
                                               | _ => true)
     | _ => true) && bdisciplined t (bstep t b e) es

end Dos.Backup
