/-
The sampling loop of `estimate_compression` (the AUTO heuristic): 1 KiB samples spread over the stream, at most 128 KiB in
all, never moving backwards, never past the end; the stream position is put back afterwards.
`sampleReads size` is the list of `(offset, length)` of the reads it issues on a stream of `size` bytes.
No imports: compiled into the driver.
-/
namespace Dos.Sample

def sampleSize : Nat := 1024
def maxSampled : Nat := 131072

/-- `sample_interval = size // (max_sampled_data_size // sample_size)` -/
def interval (size : Nat) : Nat := size / (maxSampled / sampleSize)

/-- the loop: `pos` = stream position, `total` = bytes sampled so far; one step reads `min 1024 (size - pos)` bytes
    (stops on an empty read), then seeks forward by `min (size - pos') (max 0 (interval - len))` -/
def loop (size : Nat) : Nat → Nat → Nat → List (Nat × Nat)
  | 0, _, _ => []
  | fuel + 1, pos, total =>
    if total < maxSampled then
      let len := min sampleSize (size - pos)
      if len = 0 then [(pos, 0)]            -- the read that returns nothing: end of the stream
      else
        let pos1 := pos + len
        let pos2 := pos1 + min (size - pos1) (interval size - len)
        (pos, len) :: loop size fuel pos2 (total + len)
    else []

/-- 200 iterations are more than enough (`sampleReads_fuel`): all but the last productive read take 1 KiB -/
def sampleReads (size : Nat) : List (Nat × Nat) := if size = 0 then [] else loop size 200 0 0

def sampled (rs : List (Nat × Nat)) : Nat := (rs.map (·.2)).sum

end Dos.Sample
