/-
The operations of Level B as one datatype, `step`, `run`, and the abstract specification (a set of keys,
which - keys being content ids - is the plain key→bytes map of property C02).
-/
import Dos.Store

namespace Dos

inductive Op
  | addLoose (c : Nat)
  | addPacked (cs : List Nat) (compress noHoles : Bool)
  | packAll (m : Mode) (order : List Nat) (zs : List Bool) (cleanPerPack : Bool)
  | clean
  | delete (ks : List Nat)
  | repack (m : Mode) (plan : List (Nat × List Nat × List Bool))
  | loosen (k : Nat)
  | reopen
  | importObjs (written order : List Nat) (compress sameHash trailingSkip : Bool)
  deriving Repr

/-- `none`: the observed choices are not admissible for this state, or the call raises (`loosen` of a
    missing key) – in both cases the state is unchanged and the history stops being tracked. -/
def step (t : Tab) (s : St) : Op → Option St
  | .addLoose c => some (addLoose s c)
  | .addPacked cs z nh => some (addPacked t s cs z nh)
  | .packAll m order zs cl => packAll t s m order zs cl
  | .clean => some (clean s)
  | .delete ks => some (delete s ks).1
  | .repack m plan => repackAll t m s plan
  | .loosen k => loosen t s k
  | .reopen => some (reopen s)
  | .importObjs w o z same tr => importObjs t s w o z same tr

def run (t : Tab) : St → List Op → Option St
  | s, [] => some s
  | s, op :: ops =>
    match step t s op with
    | none => none
    | some s' => run t s' ops

/-- The plain map of C02: which keys it holds after `op` (contents are determined by the keys). -/
def specHas (h : Nat → Bool) : Op → Nat → Bool
  | .addLoose c, k => h k || k == c
  | .addPacked cs _ _, k => h k || cs.contains k
  | .delete ks, k => h k && !ks.contains k
  | .importObjs w _ _ _ _, k => h k || w.contains k
  | _, k => h k

end Dos
