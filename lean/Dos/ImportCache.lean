/-
The batching loop of `import_objects`: objects arrive from the source one by one (in the order the source's bulk reader
yields them); an object larger than the memory budget is streamed to a pack on its own, the others are collected in an
in-memory cache that is flushed (one direct-to-pack call) whenever the next object would not fit, and once more at the end.
`importCalls` is the list of direct-to-pack calls this makes.  No imports: compiled into the driver.
-/
namespace Dos.ImportCache

structure CSt where
  calls : List (List Nat)
  cache : List Nat
  size : Nat
  deriving Repr

def step (sz : Nat → Nat) (budget : Nat) (st : CSt) (c : Nat) : CSt :=
  if sz c > budget then
    -- too big for the cache: written directly, the cache is not touched
    { st with calls := st.calls ++ [[c]] }
  else if st.size + sz c > budget then
    -- would overflow: flush the cache (if it holds anything - an entry of size 0 counts), start a new one with this object
    { calls := if st.cache.isEmpty then st.calls else st.calls ++ [st.cache], cache := [c], size := sz c }
  else
    { st with cache := st.cache ++ [c], size := st.size + sz c }

def finish (st : CSt) : List (List Nat) := if st.cache.isEmpty then st.calls else st.calls ++ [st.cache]

def importCalls (sz : Nat → Nat) (budget : Nat) (stream : List Nat) : List (List Nat) :=
  finish (stream.foldl (step sz budget) { calls := [], cache := [], size := 0 })

def total (sz : Nat → Nat) (l : List Nat) : Nat := (l.map sz).sum

end Dos.ImportCache
