/-
Level B: the container as a state machine over abstract contents.

A content is a natural number `cid`; the key of a content is the content id itself (the harness keeps the
bijection cid ↔ bytes ↔ digest, so `keyOf` is injective by construction).  What the model knows about a
content is its length `size` and the length `zlen` of its zlib stream at the container's compression level.

One state = what is on disk (loose files, pack files as lists of segments, index rows) plus the one piece of
handle-local state that influences results (`cur`, the cached `_current_pack_id`).

Every public operation of `disk_objectstore.Container` that the properties quantify over is a total function
on states.  Where the implementation leaves something unspecified (iteration order of a Python `set`, the
verdict of the AUTO compression heuristic) the function takes the *observed* choice as an argument and checks
that it is admissible; theorems quantify over all admissible choices.

No imports: this file is also compiled into the correspondence driver.
-/
namespace Dos

/-- Content table. -/
structure Tab where
  size : Nat → Nat
  zlen : Nat → Nat

/-- One write into a pack file: content `cid`, stored deflated iff `z`. -/
structure Seg where
  cid : Nat
  z : Bool
  deriving DecidableEq, Repr, Inhabited

/-- Number of bytes a segment occupies in its pack. -/
def Seg.len (t : Tab) (g : Seg) : Nat := if g.z then t.zlen g.cid else t.size g.cid

def segsLen (t : Tab) : List Seg → Nat
  | [] => 0
  | g :: gs => g.len t + segsLen t gs

/-- One row of `db_object`. -/
structure Row where
  id : Nat
  key : Nat
  pack : Nat
  off : Nat
  len : Nat
  z : Bool
  size : Nat
  deriving DecidableEq, Repr, Inhabited

abbrev Packs := List (Nat × List Seg)

structure St where
  /-- loose files: (name = key, content actually held).  Undamaged iff the two agree. -/
  loose : List (Nat × Nat)
  /-- pack files: pack id ↦ the sequence of writes it consists of. -/
  packs : Packs
  rows : List Row
  /-- cached `_current_pack_id` of the (single) handle; `0` stands for `None`. -/
  cur : Nat
  /-- `pack_size_target` -/
  target : Nat
  deriving Repr, Inhabited

def St.empty (target : Nat) : St := { loose := [], packs := [], rows := [], cur := 0, target := target }

/-! ### association-list helpers -/

def getPack : Packs → Nat → Option (List Seg)
  | [], _ => none
  | (q, gs) :: rest, p => if q = p then some gs else getPack rest p

def setPack : Packs → Nat → List Seg → Packs
  | [], p, segs => [(p, segs)]
  | (q, gs) :: rest, p, segs => if q = p then (p, segs) :: rest else (q, gs) :: setPack rest p segs

def erasePack : Packs → Nat → Packs
  | [], _ => []
  | (q, gs) :: rest, p => if q = p then erasePack rest p else (q, gs) :: erasePack rest p

def looseKeys (s : St) : List Nat := s.loose.map (·.1)
def rowKeys (s : St) : List Nat := s.rows.map (·.key)

def hasLoose (s : St) (k : Nat) : Bool := (looseKeys s).contains k
def hasRow (s : St) (k : Nat) : Bool := (rowKeys s).contains k

def findRow (rows : List Row) (k : Nat) : Option Row := rows.find? (fun r => r.key == k)
def findLoose (l : List (Nat × Nat)) (k : Nat) : Option Nat := (l.find? (fun e => e.1 == k)).map (·.2)

/-! ### the index -/

/-- SQLite rowid rule for an `INTEGER PRIMARY KEY` without AUTOINCREMENT: largest id in use + 1. -/
def maxId : List Row → Nat
  | [] => 0
  | r :: rs => max r.id (maxId rs)

def nextId (rows : List Row) : Nat := maxId rows + 1

/-- `INSERT OR IGNORE` of one row (unique constraint on `hashkey`). -/
def insertIgnore (rows : List Row) (r : Row) : List Row :=
  if rows.any (fun x => x.key == r.key) then rows else rows ++ [{ r with id := nextId rows }]

/-! ### choosing the pack to write to (`_get_pack_id_to_write_to`) -/

def choosePackGo (t : Tab) (packs : Packs) (target : Nat) : Nat → Nat → Nat
  | 0, p => p
  | f + 1, p =>
    match getPack packs p with
    | none => p
    | some segs => if segsLen t segs < target then p else choosePackGo t packs target f (p + 1)

/-- first pack id ≥ `cur` that does not exist yet or is below the target size -/
def choosePack (t : Tab) (s : St) : Nat := choosePackGo t s.packs s.target (s.packs.length + 1) s.cur

/-- `lock_pack` opens the pack file in append mode, which creates it when missing. -/
def ensurePack (packs : Packs) (p : Nat) : Packs :=
  match getPack packs p with
  | none => setPack packs p []
  | some _ => packs

/-- Start of a write session: pick the pack, cache it, make sure the file exists. -/
def openCur (t : Tab) (s : St) : St :=
  let p := choosePack t s
  { s with cur := p, packs := ensurePack s.packs p }

/-- Append content `c` (deflated iff `z`) to the pack chosen by the rule and index it (`OR IGNORE`). -/
def writeObj (t : Tab) (s : St) (c : Nat) (z : Bool) : St :=
  let p := choosePack t s
  let segs := (getPack s.packs p).getD []
  let g : Seg := ⟨c, z⟩
  let row : Row := { id := 0, key := c, pack := p, off := segsLen t segs, len := g.len t, z := z, size := t.size c }
  { s with packs := setPack s.packs p (segs ++ [g]), cur := p, rows := insertIgnore s.rows row }

/-! ### operations -/

/-- `add_object` / `add_streamed_object`: write to the sandbox, then: destination exists with the right
    digest → keep; exists with a wrong digest → replace; does not exist → rename into place. -/
def addLoose (s : St) (c : Nat) : St :=
  match findLoose s.loose c with
  | some c' => if c' = c then s else { s with loose := s.loose.map (fun e => if e.1 = c then (c, c) else e) }
  | none => { s with loose := s.loose ++ [(c, c)] }

/-- one object of `add_streamed_objects_to_pack` -/
def addPackedStep (t : Tab) (compress noHoles : Bool) (s : St) (c : Nat) : St :=
  -- the pack to write to is chosen (and, when it changes, created) before the stream is looked at
  let s1 := openCur t s
  if noHoles && hasRow s1 c then s1 else writeObj t s1 c compress

/-- `add_objects_to_pack` / `add_streamed_objects_to_pack`; the keys returned are the contents themselves.
    At the granularity of a whole call `no_holes_read_twice` does not influence the result
    (read-twice skips the write, read-once writes and truncates back). -/
def addPacked (t : Tab) (s : St) (cs : List Nat) (compress noHoles : Bool) : St :=
  match cs with
  | [] => { s with cur := choosePack t s }
  | _ => cs.foldl (addPackedStep t compress noHoles) (openCur t s)

inductive Mode | no | yes | keep | auto
  deriving DecidableEq, Repr, Inhabited

/-- `should_compress`: is verdict `z'` admissible for a source stored with flag `z`, `len`, `size`? -/
def verdictOK (m : Mode) (z : Bool) (len size : Nat) (z' : Bool) : Bool :=
  match m with
  | .no => z' == false
  | .yes => z' == true
  | .keep => z' == z
  | .auto => if z then z' == decide (10 * len < 9 * size) else true

def isPerm (a b : List Nat) : Bool :=
  a.length == b.length && a.all (fun x => b.contains x) && b.all (fun x => a.contains x)

def nodupB : List Nat → Bool
  | [] => true
  | x :: xs => !xs.contains x && nodupB xs

/-- loose keys that have no index row yet -/
def toPack (s : St) : List Nat := (looseKeys s).filter (fun k => !hasRow s k)

def removeLoose (s : St) (ks : List Nat) : St := { s with loose := s.loose.filter (fun e => !ks.contains e.1) }

def writeAll (t : Tab) (s : St) : List (Nat × Bool) → St
  | [] => s
  | (c, z) :: rest => writeAll t (writeObj t s c z) rest

/-- `pack_all_loose`.  `order` = the order in which the set of loose keys was popped, `zs` = verdicts.
    Returns `none` when the observed choices are not admissible (or a loose file is damaged: the
    implementation raises `InconsistentContent`, which general histories never provoke). -/
def packAll (t : Tab) (s : St) (m : Mode) (order : List Nat) (zs : List Bool) (cleanPerPack : Bool) : Option St :=
  if !(nodupB order && isPerm order (toPack s)) then none
  else if zs.length != order.length then none
  else if !(s.loose.all (fun e => e.1 == e.2)) then none
  else if !((order.zip zs).all (fun cz => verdictOK m false (t.size cz.1) (t.size cz.1) cz.2)) then none
  else
    let s0 := { s with cur := choosePack t s }
    match order with
    | [] => some s0
    | _ =>
      let s1 := writeAll t (openCur t s) (order.zip zs)
      some (if cleanPerPack then removeLoose s1 order else s1)

/-- `clean_storage`: remove loose files whose key is indexed. -/
def clean (s : St) : St := { s with loose := s.loose.filter (fun e => !hasRow s e.1) }

/-- `delete_objects`: returns the new state and the keys reported as deleted. -/
def delete (s : St) (ks : List Nat) : St × List Nat :=
  let gone := (ks.filter (fun k => hasLoose s k || hasRow s k)).eraseDups
  ({ s with loose := s.loose.filter (fun e => !ks.contains e.1),
            rows := s.rows.filter (fun r => !ks.contains r.key) }, gone)

/-- `ORDER BY offset`: SQLite scans the table in rowid order and sorts stably, so ties on the offset come back
    in rowid order (trusted-base assumption, exercised by the correspondence check on zero-length objects). -/
def rowBefore (a b : Row) : Bool := a.off < b.off || (a.off == b.off && a.id < b.id)

def insByOff (r : Row) : List Row → List Row
  | [] => [r]
  | x :: xs => if rowBefore r x then r :: x :: xs else x :: insByOff r xs

def sortByOff : List Row → List Row
  | [] => []
  | r :: rs => insByOff r (sortByOff rs)

def rowsOfPack (rows : List Row) (p : Nat) : List Row := rows.filter (fun r => r.pack == p)

/-- rebuild one pack from the rows `rs` (already in the order they are copied) with verdicts `zs`;
    returns the new segments and the updated rows. -/
def rebuild (t : Tab) (p : Nat) : List Row → List Bool → Nat → List Seg × List Row
  | [], _, _ => ([], [])
  | r :: rs, zs, off =>
    let z' := zs.headD r.z
    let g : Seg := ⟨r.key, z'⟩
    let (gs, rs') := rebuild t p rs zs.tail (off + g.len t)
    (g :: gs, { r with pack := p, off := off, len := g.len t, z := z' } :: rs')

/-- `repack_pack p`.  The rows are copied in `ORDER BY offset` order (`sortByOff`); `order` is the observed
    order of keys (cross-checked, not trusted), `zs` = verdicts. -/
def repackPack (t : Tab) (s : St) (m : Mode) (p : Nat) (order : List Nat) (zs : List Bool) : Option St :=
  let rs := rowsOfPack s.rows p
  match rs with
  | [] => if order.isEmpty then some { s with packs := erasePack s.packs p } else none
  | _ =>
    let ordered := sortByOff rs
    if order != ordered.map (·.key) then none
    else if zs.length != order.length then none
    else if !((ordered.zip zs).all (fun rz => verdictOK m rz.1.z rz.1.len rz.1.size rz.2)) then none
    else
      let (gs, rs') := rebuild t p ordered zs 0
      some { s with packs := setPack s.packs p gs,
                    rows := s.rows.map (fun r => if r.pack == p then (findRow rs' r.key).getD r else r) }

/-- `repack`: all packs, each with its observed order/verdicts. -/
def repackAll (t : Tab) (m : Mode) : St → List (Nat × List Nat × List Bool) → Option St
  | s, [] => some s
  | s, (p, order, zs) :: rest =>
    match repackPack t s m p order zs with
    | none => none
    | some s' => repackAll t m s' rest

/-- what a read through the index returns for row `r`: the segment that starts at `r.off` with the recorded
    stored length and flag (`none` = the bytes there are not an object: garbage / decompression error). -/
def findSeg (t : Tab) : List Seg → Nat → Nat → Bool → Option Nat
  | [], _, _, _ => none
  | g :: gs, off, len, z =>
    if off = 0 ∧ g.len t = len ∧ g.z = z then some g.cid
    else if g.len t ≤ off then findSeg t gs (off - g.len t) len z
    else none

def readRow (t : Tab) (s : St) (r : Row) : Option Nat :=
  match getPack s.packs r.pack with
  | none => none
  | some segs => findSeg t segs r.off r.len r.z

/-- `get_object_content`: index first, then the loose file. -/
def getc (t : Tab) (s : St) (k : Nat) : Option Nat :=
  match findRow s.rows k with
  | some r => readRow t s r
  | none => findLoose s.loose k

def has (s : St) (k : Nat) : Bool := hasRow s k || hasLoose s k

/-- `loosen_object` -/
def loosen (t : Tab) (s : St) (k : Nat) : Option St :=
  if hasLoose s k then some s
  else match getc t s k with
    | some c => some (addLoose s c)
    | none => none

def reopen (s : St) : St := { s with cur := 0 }

/-- `import_objects` seen from the destination.  `written` = the distinct requested contents the source
    holds, `order` = the order in which those that are actually stored were written (a permutation of the
    needed ones).  Same hash type: contents the destination has in any form are filtered out beforehand.
    Different hash types: `no_holes` + read-twice, so contents already *indexed* are skipped. -/
def importObjs (t : Tab) (s : St) (written : List Nat) (order : List Nat) (compress sameHash trailingSkip : Bool) :
    Option St :=
  let needed := if sameHash then written.filter (fun c => !has s c) else written.filter (fun c => !hasRow s c)
  let streams := if sameHash then needed else written
  if !(nodupB written && nodupB order && isPerm order needed) then none
  else if trailingSkip && streams.length == needed.length then none
  else match streams with
    | [] => some s
    | _ =>
      let s1 := writeAll t (openCur t s) (order.map (fun c => (c, compress)))
      -- a skipped (already indexed) stream that is processed after the last write still selects its pack first
      some (if trailingSkip then openCur t s1 else s1)

/-! ### views -/

def dedup (l : List Nat) : List Nat := l.eraseDups

/-- `list_all_objects` as a set (represented duplicate-free) -/
def listAll (s : St) : List Nat := dedup (rowKeys s ++ looseKeys s)

structure Count where
  packed : Nat
  loose : Nat
  packFiles : Nat
  deriving DecidableEq, Repr

def count (s : St) : Count := { packed := s.rows.length, loose := s.loose.length, packFiles := s.packs.length }

structure Totals where
  sizePacked : Nat
  sizePackedOnDisk : Nat
  sizePackfiles : Nat
  sizeLoose : Nat
  deriving DecidableEq, Repr

def sumBy {α} (f : α → Nat) : List α → Nat
  | [] => 0
  | x :: xs => f x + sumBy f xs

def totals (t : Tab) (s : St) : Totals :=
  { sizePacked := sumBy (·.size) s.rows, sizePackedOnDisk := sumBy (·.len) s.rows,
    sizePackfiles := sumBy (fun p => segsLen t p.2) s.packs, sizeLoose := sumBy (fun e => t.size e.2) s.loose }

/-- `get_object_meta`: `none` = NotExistent; packed: (true, size, pack, off, len, z); loose: size only -/
inductive Meta
  | packed (size pack off len : Nat) (z : Bool)
  | loose (size : Nat)
  deriving DecidableEq, Repr

def getMeta (t : Tab) (s : St) (k : Nat) : Option Meta :=
  match findRow s.rows k with
  | some r => some (.packed r.size r.pack r.off r.len r.z)
  | none => (findLoose s.loose k).map (fun c => .loose (t.size c))

/-- `validate`: the keys it reports (loose with wrong digest; packed with wrong digest, wrong size, overlapping) -/
structure Issues where
  badLoose : List Nat
  badHash : List Nat
  badSize : List Nat
  overlap : List Nat
  deriving DecidableEq, Repr

def overlapsGo : List Row → Nat → List Nat
  | [], _ => []
  | r :: rs, pos => (if r.off < pos then [r.key] else []) ++ overlapsGo rs (r.off + r.len)

def validate (t : Tab) (s : St) : Issues :=
  let packIds := dedup (s.rows.map (·.pack))
  { badLoose := (s.loose.filter (fun e => e.1 != e.2)).map (·.1),
    badHash := (s.rows.filter (fun r => readRow t s r != some r.key)).map (·.key),
    badSize := (s.rows.filter (fun r => match readRow t s r with
                                        | some c => t.size c != r.size
                                        | none => true)).map (·.key),
    overlap := packIds.flatMap (fun p => overlapsGo (sortByOff (rowsOfPack s.rows p)) 0) }

def Issues.clean (i : Issues) : Bool := i.badLoose.isEmpty && i.badHash.isEmpty && i.badSize.isEmpty && i.overlap.isEmpty

end Dos
