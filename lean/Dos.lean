import Dos.Store
import Dos.Wire
import Dos.StoreDriver
