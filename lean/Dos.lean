import Dos.Store
import Dos.Ops
import Dos.Wire
import Dos.StoreDriver
