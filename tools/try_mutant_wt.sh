#!/bin/sh
# tools/try_mutant_wt.sh <patch.diff> <tier> <prop> [<prop>...] : apply a change to a scratch worktree of /repo HEAD (not to /repo),
# run the checks against it (VERIF_REPO) with their output kept out of /verif (VERIF_OUT), remove the worktree.
patch="$1"; tier="$2"; shift 2
wt=/tmp/try_wt_$$; out=/tmp/try_out_$$
cd /verif || exit 2
git -C /repo worktree add -q --detach "$wt" HEAD || exit 2
git -C "$wt" apply "$patch" || { echo "patch does not apply"; git -C /repo worktree remove --force "$wt"; exit 2; }
for p in "$@"; do
  VERIF_REPO="$wt" VERIF_OUT="$out" ./check "$p" --tier "$tier" > "/tmp/mutant_wt_$p.log" 2>&1
  rc=$?
  echo "== $p rc=$rc"; grep -E "VIOLATION|failing input" "/tmp/mutant_wt_$p.log" | head -3
done
git -C /repo worktree remove --force "$wt"; rm -rf "$out"
