#!/usr/bin/env python3
"""Regenerate /verif/MANIFEST.json from the table below (kept in one place so that it is always valid)."""
import json
import os

ROOT = os.path.dirname(os.path.dirname(os.path.abspath(__file__)))

TB = ("Trusted base: Lean 4.33.0 kernel; axioms propext, Classical.choice, Quot.sound only (audited by #print axioms on every run; "
      "no native_decide/bv_decide/sorry/own axioms); the Lean model is hand-written (container.py, utils.py, database.py, "
      "backup_utils.py are modelled, not verified) and tied to /repo's working tree by the correspondence harness in /verif/harness "
      "(itself trusted: canonicalisation, rawstate reader using only sqlite3/zlib/hashlib). Assumed: SHA digests collision-free on "
      "the generated contents; zlib round trip and deterministic stream; SQLite rowid=max+1, atomic durable commits, WAL snapshot "
      "isolation, ORDER BY ties in rowid order; POSIX rename/link/unlink atomic, O_APPEND writes at end of file.")

CLAIMED = {
    'C01': ('proof', 'Level-B read-back theorems (getc_of_has, getMeta_size over all reachable states) + Level-A chunk-loop theorems; '
            'correspondence on every write path x hash type x prefix length x zlib level x pack target, sizes straddling 64 KiB/512 KiB',
            'Lean 4 theorems on model + differential correspondence', '7/C01'),
    'C02': ('proof', 'refinement theorem: every finite history of the Level-B model answers every view like the plain key set '
            '(has_step/has_run, getc_of_has, getMeta_size, listAll_spec) with Inv preserved by every operation (inv_step/inv_run); '
            'the model is run step by step against the real Container (outcomes, views, raw on-disk state)',
            'Lean 4 refinement proof + differential correspondence on histories', '7/C02'),
    'C03': ('proof', 'invariant Inv (every row designates a whole segment of an existing pack, unique keys, disjoint ranges) proved for '
            'all histories; byte-level theorem row_bytes for every codec satisfying dec(enc b)=b; raw on-disk state compared with the '
            'model after every step using sqlite3/zlib only (the documented manual recovery)',
            'Lean 4 invariant proof + raw-state correspondence', '7/C03'),
    'C09': ('proof', 'theorems one_row_per_key, one_loose_per_key, listAll_spec, addPacked_noHoles_no_junk/_known, addLoose_repairs; '
            'histories biased to recurring contents, damaged loose copies re-added, byte-exact pack comparison',
            'Lean 4 theorems + differential correspondence', '7/C09'),
    'C10': ('proof', 'theorems packAll_new_rows, repackAll_yes/no/keep/keys, row_size_len; verdicts observed from the implementation are '
            'checked for admissibility by the model; chained repacks; metadata and totals compared',
            'Lean 4 theorems + differential correspondence', '7/C10'),
    'C11': ('proof', 'theorems delete_returns/_has/_others_unchanged/_packs, repackPack_compacts, repackAll_compacts; histories with '
            'deletions and full/single-pack repacks, pack bytes compared exactly',
            'Lean 4 theorems + differential correspondence', '7/C11'),
    'C12': ('proof', 'validate_clean: the model of validate() reports nothing on every state satisfying Inv (all reachable states); '
            'validate() of the implementation compared with the model after every step; second half (damage never validates clean) by '
            'damage enumeration against ground truth', 'Lean 4 theorem + differential correspondence + damage enumeration', '7/C12'),
    'C13': ('proof', 'theorems append_only_step/_run, full_never_written, choosePack_ok, numbered_step/_run/_reachable; every pack file '
            'compared byte for byte before/after every step', 'Lean 4 invariant proof + differential correspondence', '7/C13'),
    'C14': ('proof', 'theorems import_rows, import_packs, import_no_junk, import_exact; two real containers with independent hash types, '
            'levels, targets, budgets 1..inf, list/tuple/set/generator, callback on/off',
            'Lean 4 theorems + differential correspondence', '7/C14'),
    'C16': ('proof', 'bulk views of the model are functions of the key set (has_step) hence independent of batching; the implementation is '
            'run with IN-batch size and scan threshold lowered to 1..12 so that every request crosses every threshold, results compared '
            'with the model and with per-key calls; sorted-merge helper: Lean model + theorems, exhaustive small-universe correspondence',
            'Lean 4 theorems + differential correspondence under lowered thresholds', '7/C16'),
}

PENDING_REASON = 'check not built yet in this round (planned: see DESIGN.md section 7); not claimed until its machinery exists'


def main():
    props = [json.loads(l) for l in open(os.path.join(ROOT, 'properties.jsonl'))]
    extra = {}
    extra_path = os.path.join(ROOT, 'tools', 'manifest_extra.json')
    if os.path.exists(extra_path):
        extra = json.load(open(extra_path))
    claimed = dict(CLAIMED)
    for k, v in extra.get('claimed', {}).items():
        claimed[k] = tuple(v)
    checks = []
    na = []
    for p in props:
        pid = p['id']
        if pid in claimed:
            cat, text, tech, ref = claimed[pid]
            checks.append({
                'property_id': pid,
                'quick_cmd': f'./check {pid} --tier quick',
                'thorough_cmd': f'./check {pid} --tier thorough',
                'evidence_file': f'evidence/{pid}.json',
                'replay_cmd_template': f'./check {pid} --replay {{path}}',
                'engine': 'lean-model+correspondence',
                'level_claimed': {'category': cat, 'text': text, 'design_ref': f'DESIGN.md section {ref}'},
                'level_note': TB,
                'technique': tech,
            })
        else:
            na.append({'property_id': pid, 'reason': extra.get('not_applicable', {}).get(pid, PENDING_REASON)})
    manifest = {
        'version': 1,
        'setup_cmd': './setup.sh',
        'hooks': {
            'guard': 'DISK_OBJECTSTORE_VERIF',
            'enable': 'no source hooks are needed: all instrumentation is in-process interposition from /verif/harness; '
                      'checks import disk_objectstore from /repo\'s working tree',
            'baseline_off_cmd': 'cd /repo && /venv/bin/python -m pytest -ra -q -p no:cacheprovider --timeout=900 --continue-on-collection-errors',
            'source_commits': [],
            'add_only': True,
        },
        'engines': [{
            'name': 'lean-model+correspondence', 'path': 'lean/ (model, proofs, driver) + harness/ (correspondence, oracles)',
            'serves_properties': sorted(claimed), 'kind_free_text': 'machine-checked proof in Lean 4 about a hand-written model, tied to '
            'the code by a differential correspondence check that runs on every invocation',
        }],
        'checks': checks,
        'notes': 'No hook commits exist in /repo (source_commits is empty). Six unguarded "fix:" commits repair genuine defects '
                 '(4ab848e e97ff2f b349313 abbe26f fea4109 1bc2ce7; see known_findings.txt and DESIGN.md section 8). ./check <ID> --tier quick|thorough; exit 0 held, 1 violation, 2 infrastructure.',
        'not_applicable': na,
    }
    with open(os.path.join(ROOT, 'MANIFEST.json'), 'w') as fh:
        json.dump(manifest, fh, indent=1)
    print(f'{len(checks)} claimed, {len(na)} not claimed')


if __name__ == '__main__':
    main()
