#!/usr/bin/env python3
"""Detection matrix: every seeded change (seeded/<Cxx>-<mN>/patch.diff) and every reverted fix (seeded/reverts/<commit>.diff)
is applied to a scratch worktree of /repo's HEAD (outside /repo and /verif; VERIF_REPO points the check at it, VERIF_OUT keeps its
evidence and replay files out of /verif), the quick check of the property it breaks is run, the worktree is removed at the end.
Result: seeded/RESULTS.md (one row per change) and seeded/results.json.
Usage: seeded_matrix.py [--tier quick] [--seed 0] [names ...]      (run it on an otherwise idle machine)"""
import json
import os
import re
import subprocess
import sys
import time

ROOT = '/verif'
SEEDED = os.path.join(ROOT, 'seeded')
REVERT_PROPS = json.load(open(os.path.join(SEEDED, 'reverts', 'props.json'))) if os.path.exists(os.path.join(SEEDED, 'reverts', 'props.json')) else {}


# further properties whose statement a change also contradicts (the property it was written for is always run)
ALSO = json.load(open(os.path.join(SEEDED, 'also.json'))) if os.path.exists(os.path.join(SEEDED, 'also.json')) else {}


def sh(cmd, **kw):
    return subprocess.run(cmd, shell=True, stdout=subprocess.PIPE, stderr=subprocess.STDOUT, text=True, check=False, **kw)


def items():
    out = []
    for d in sorted(os.listdir(SEEDED)):
        p = os.path.join(SEEDED, d, 'patch.diff')
        if re.match(r'C\d\d-m\d+$', d) and os.path.exists(p):
            out.append((d, p, [d[:3]] + ALSO.get(d, [])))
    rv = os.path.join(SEEDED, 'reverts')
    if os.path.isdir(rv):
        for f in sorted(os.listdir(rv)):
            if f.endswith('.diff'):
                name = 'revert-' + f[:-5]
                out.append((name, os.path.join(rv, f), REVERT_PROPS.get(f[:-5], [])))
    return out


def main():
    args = sys.argv[1:]
    tier, seed = 'quick', '0'
    render_only = False
    names = []
    while args:
        a = args.pop(0)
        if a == '--tier':
            tier = args.pop(0)
        elif a == '--seed':
            seed = args.pop(0)
        elif a == '--render':
            render_only = True
        else:
            names.append(a)
    res_path = os.path.join(SEEDED, 'results.json')
    results = json.load(open(res_path)) if os.path.exists(res_path) else {}
    wt = '/tmp/seeded_matrix_wt'
    out_dir = '/tmp/seeded_matrix_out'
    sh(f'git -C /repo worktree remove --force {wt}')
    sh(f'rm -rf {wt} {out_dir}')
    if not render_only and sh(f'git -C /repo worktree add -q --detach {wt} HEAD').returncode != 0:
        print('cannot create the scratch worktree')
        return 2
    for name, patch, props in ([] if render_only else items()):
        if names and name not in names:
            continue
        for prop in props:
            ap = sh(f'git -C {wt} apply {patch}')
            if ap.returncode != 0:
                results[f'{name}|{prop}'] = {'change': name, 'property': prop, 'outcome': 'patch does not apply', 'detail': ap.stdout[-200:]}
                continue
            t0 = time.time()
            try:
                r = sh(f'cd {ROOT} && VERIF_REPO={wt} VERIF_OUT={out_dir} VERIF_SEED={seed} ./check {prop} --tier {tier}', timeout=3600)
                rc, out = r.returncode, r.stdout
            except subprocess.TimeoutExpired:
                rc, out = 2, 'timeout'
            finally:
                sh(f'git -C {wt} checkout -- . && git -C {wt} clean -fdq')
            viol = [ln for ln in out.splitlines() if ln.startswith('VIOLATION')]
            fails = [ln for ln in out.splitlines() if 'failing input' in ln]
            nf = any('no-failing-input-found' in v for v in viol)
            outcome = ('missed' if rc == 0 else 'error' if rc != 1 else
                       'caught: correspondence/proof broken, no failing input found' if (viol and all('no-failing-input-found' in v for v in viol))
                       else 'caught with a failing input')
            results[f'{name}|{prop}'] = {'change': name, 'property': prop, 'exit': rc, 'outcome': outcome, 'tier': tier, 'seed': seed,
                                         'violation_lines': viol[:3], 'first_failing_input': (fails[0][:400] if fails else ''),
                                         'also_no_failing_input_lines': nf, 'wall_s': round(time.time() - t0, 1)}
            print(name, prop, outcome, (fails[0][:200] if fails else ''), flush=True)
            json.dump(results, open(res_path, 'w'), indent=1, sort_keys=True)
    sh(f'git -C /repo worktree remove --force {wt}')
    sh(f'rm -rf {wt} {out_dir}')
    with open(os.path.join(SEEDED, 'RESULTS.md'), 'w') as fh:
        by_change = {}
        for r in results.values():
            by_change.setdefault(r['change'], []).append(r)
        caught = sum(1 for rs in by_change.values() if any(r['outcome'].startswith('caught with a failing input') for r in rs))
        fh.write('# Seeded changes against the checks\n\n'
                 'Produced by `tools/seeded_matrix.py`: each change is applied to a scratch worktree of the repository HEAD, the quick check of the\n'
                 'property it was written for is run against it (plus the properties listed for it in `also.json`), outcome and first reported\n'
                 'failing input are recorded.  `Cxx-mN`: written by independent sub-agents given only the property text (two rounds);\n'
                 '`revert-<commit>`: the reverse patch of a `fix:` commit.  On the unchanged tree every check exits 0.\n\n'
                 f'**{caught} of {len(by_change)} changes are reported with a concrete failing input by at least one check.**  The rows marked\n'
                 '"missed" are mostly changes whose author filed them under a property whose statement they do not contradict without a further\n'
                 'ingredient (a seek for C01/C10, a process kill for C03/C13/C15, a fault for C03/C11): the check of the property they do contradict\n'
                 '(next row) reports them.  The few that no check reports are listed with the reason at the end.\n\n'
                 '| change | property | tier/seed | outcome | first failing input reported |\n|---|---|---|---|---|\n')
        for key in sorted(results):
            r = results[key]
            fh.write(f"| {r['change']} | {r['property']} | {r.get('tier', '')}/{r.get('seed', '')} | {r['outcome']} | "
                     f"{r.get('first_failing_input', '').replace('|', '/')[:260]} |\n")
        un_path = os.path.join(SEEDED, 'unreported.json')
        if os.path.exists(un_path):
            fh.write('\n## Changes that no check reports, and why\n\n')
            for ch, why in sorted(json.load(open(un_path)).items()):
                fh.write(f'* `{ch}`: {why}.\n')
    return 0


if __name__ == '__main__':
    sys.exit(main())
