#!/usr/bin/env python3
"""Confirm the seeded changes produced by the independent sub-agents and file them under /verif/seeded/<id>/.

For every /tmp/mut_out/<Cxx>/<mN>/ (patch.diff [or patch_rebased.diff], demo.py, notes.md):
  1. a scratch git worktree of /repo (outside /repo and /verif) is created at HEAD;
  2. the demonstration must exit 0 on the unchanged tree;
  3. the patch must apply; the demonstration must then exit 1;
  4. the stable baseline tests must still pass with the patch (tools/run_baseline.py);
  5. the worktree is removed.
Confirmed changes are copied to /verif/seeded/<Cxx>-<mN>/ with meta.json.
Usage: confirm_seeded.py [--no-suite] [--src DIR] [--offset K] [Cxx/mN ...]   (--offset 2: a second round's m1, m2 are filed as m3, m4)"""
import json
import os
import shutil
import subprocess
import sys

SRC = '/tmp/mut_out'
DST = '/verif/seeded'
WT = '/tmp/seedcheck_wt'


def sh(cmd, **kw):
    return subprocess.run(cmd, shell=isinstance(cmd, str), stdout=subprocess.PIPE, stderr=subprocess.STDOUT, text=True, check=False, **kw)


def main():
    argv = sys.argv[1:]
    global SRC  # pylint: disable=global-statement
    offset = 0
    if '--src' in argv:
        i = argv.index('--src')
        SRC = argv[i + 1]
        del argv[i:i + 2]
    if '--offset' in argv:
        i = argv.index('--offset')
        offset = int(argv[i + 1])
        del argv[i:i + 2]
    args = [a for a in argv if not a.startswith('--')]
    suite = '--no-suite' not in sys.argv
    items = args or sorted(f'{c}/{m}' for c in os.listdir(SRC) if c.startswith('C') for m in os.listdir(os.path.join(SRC, c))
                           if m.startswith('m') and os.path.isdir(os.path.join(SRC, c, m)))
    os.makedirs(DST, exist_ok=True)
    for item in items:
        src = os.path.join(SRC, item)
        prop, name = item.split('/')
        patch = os.path.join(src, 'patch_rebased.diff') if os.path.exists(os.path.join(src, 'patch_rebased.diff')) else os.path.join(src, 'patch.diff')
        demo = os.path.join(src, 'demo.py')
        if not (os.path.exists(patch) and os.path.exists(demo)):
            print(item, 'SKIP incomplete')
            continue
        sh(f'git -C /repo worktree remove --force {WT}')
        shutil.rmtree(WT, ignore_errors=True)
        r = sh(f'git -C /repo worktree add -q --detach {WT} HEAD')
        rec = {'item': item, 'property': prop, 'patch': os.path.basename(patch)}
        try:
            r0 = sh(['/venv/bin/python', demo, WT], cwd=WT, timeout=900)
            rec['demo_unchanged_exit'] = r0.returncode
            ap = sh(f'git -C {WT} apply {patch}')
            rec['applies'] = ap.returncode == 0
            if ap.returncode != 0:
                rec['confirmed'] = False
                rec['why'] = 'patch does not apply to the current HEAD: ' + ap.stdout[-200:]
            else:
                r1 = sh(['/venv/bin/python', demo, WT], cwd=WT, timeout=900)
                rec['demo_changed_exit'] = r1.returncode
                rec['demo_changed_tail'] = r1.stdout[-400:]
                ok = r0.returncode == 0 and r1.returncode == 1
                if ok and suite:
                    rs = sh(['python3', '/verif/tools/run_baseline.py', WT, '-n', '10'], timeout=3000)
                    rec['suite'] = rs.stdout.strip().splitlines()[-1:] if rs.returncode == 0 else rs.stdout[-600:]
                    ok = ok and rs.returncode == 0
                rec['confirmed'] = ok
        except subprocess.TimeoutExpired:
            rec['confirmed'] = False
            rec['why'] = 'timeout'
        finally:
            sh(f'git -C /repo worktree remove --force {WT}')
            shutil.rmtree(WT, ignore_errors=True)
        print(json.dumps(rec)[:600], flush=True)
        if rec.get('confirmed'):
            if offset:
                name = f'm{int(name[1:]) + offset}'
            d = os.path.join(DST, f'{prop}-{name}')
            os.makedirs(d, exist_ok=True)
            shutil.copy(patch, os.path.join(d, 'patch.diff'))
            shutil.copy(demo, os.path.join(d, 'demo.py'))
            notes = open(os.path.join(src, 'notes.md')).read() if os.path.exists(os.path.join(src, 'notes.md')) else ''
            meta_path = os.path.join(d, 'meta.json')
            meta = json.load(open(meta_path)) if os.path.exists(meta_path) else {}
            meta.update({
                'breaks_property': prop,
                'origin': 'written by an independent sub-agent that was given only the text of the property and a scratch worktree',
                'needs_to_manifest': notes[:1500],
                'confirmed': {'demo_exit_unchanged_tree': rec['demo_unchanged_exit'], 'demo_exit_with_change': rec['demo_changed_exit'],
                              'stable_baseline_with_change': rec.get('suite', 'not run'),
                              'how': 'tools/confirm_seeded.py: scratch worktree of /repo HEAD, demo, git apply, demo, tools/run_baseline.py, worktree removed'},
                'rebased': os.path.basename(patch) == 'patch_rebased.diff',
            })
            json.dump(meta, open(meta_path, 'w'), indent=1)


if __name__ == '__main__':
    main()
