#!/usr/bin/env python3
"""Run the repository test-suite in a given tree (default /repo) with pytest-xdist and compare the
outcome with the pinned baseline's stable-pass list (/root/.vp/BASELINE.json).

Usage: run_baseline.py [TREE] [-n WORKERS]
Exit 0 iff every test in stable_pass passed.  (Tests in always_fail are ignored.)
This is a development aid (validating fix: commits and seeded changes); the registered
baseline_off_cmd in MANIFEST.json is the pinned serial command.
"""
import json
import os
import subprocess
import sys
import tempfile
import xml.etree.ElementTree as ET


def main():
    tree = '/repo'
    workers = '14'
    args = sys.argv[1:]
    while args:
        a = args.pop(0)
        if a == '-n':
            workers = args.pop(0)
        else:
            tree = a
    base = json.load(open('/root/.vp/BASELINE.json'))
    stable = set(base['stable_pass'])
    with tempfile.TemporaryDirectory() as tmp:
        junit = os.path.join(tmp, 'j.xml')
        env = dict(os.environ)
        env.pop('DISK_OBJECTSTORE_VERIF', None)
        cmd = ['/venv/bin/python', '-m', 'pytest', '-q', '-p', 'no:cacheprovider', '--timeout=900',
               '--continue-on-collection-errors', '-n', workers, f'--junitxml={junit}']
        res = subprocess.run(cmd, cwd=tree, env=env, stdout=subprocess.PIPE, stderr=subprocess.STDOUT, text=True)
        tail = res.stdout.strip().splitlines()[-1:] if res.stdout else []
        passed = set()
        notpassed = {}
        for tc in ET.parse(junit).getroot().iter('testcase'):
            name = f"{tc.get('classname')}::{tc.get('name')}"
            bad = [c.tag for c in tc if c.tag in ('failure', 'error', 'skipped')]
            if bad:
                notpassed[name] = bad[0]
            else:
                passed.add(name)
    missing = sorted(stable - passed)
    print(f'tree={tree} passed={len(passed)} stable_pass_ok={len(stable & passed)}/{len(stable)} {tail}')
    for m in missing:
        print('  NOT PASSED (stable):', m, notpassed.get(m, 'absent'))
    sys.exit(1 if missing else 0)


if __name__ == '__main__':
    main()
