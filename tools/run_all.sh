#!/bin/sh
# tools/run_all.sh <tier> <seed> [ids...] : run checks one after the other, print one line per check
tier="$1"; seed="$2"; shift 2
ids="$@"
[ -z "$ids" ] && ids="C01 C02 C03 C04 C05 C06 C07 C08 C09 C10 C11 C12 C13 C14 C15 C16 C17 C18"
cd /verif || exit 2
for p in $ids; do
  VERIF_SEED=$seed ./check "$p" --tier "$tier" > "/tmp/runall_${p}_${seed}.log" 2>&1
  rc=$?
  echo "$p seed=$seed rc=$rc $(tail -1 /tmp/runall_${p}_${seed}.log | cut -c1-160)"
done
