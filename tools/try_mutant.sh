#!/bin/sh
# tools/try_mutant.sh <patch.diff> <tier> <prop> [<prop>...]  : apply a seeded change to /repo, run checks, undo it.
patch="$1"; tier="$2"; shift 2
cd /verif || exit 2
git -C /repo diff --quiet || { echo "/repo is dirty"; exit 2; }
git -C /repo apply "$patch" || { echo "patch does not apply"; exit 2; }
for p in "$@"; do
  ./check "$p" --tier "$tier" > "/tmp/mutant_$p.log" 2>&1
  rc=$?
  echo "== $p rc=$rc"; grep -E "VIOLATION|failing input|no longer checks" "/tmp/mutant_$p.log" | head -4
done
git -C /repo checkout -- .
git -C /repo diff --quiet && echo "repo restored"
