"""Stream programs (C07, read side of C01): real streams vs io.BytesIO (direct oracle), real reader classes vs the
Lean models (correspondence), and zlib.decompressobj vs the decoder contract the theorems assume."""
from __future__ import annotations

import io
import os
import zlib

from . import common
from .content import gen_content

class BIO(io.BytesIO):
    """in-memory pack file (PackedObjectReader checks the `mode` attribute)"""

    mode = 'rb'


# ---------------------------------------------------------------- programs


def gen_program(rng, size: int, n: int, oob: bool = False, allow_w2: bool = True) -> list:
    """list of ('read', n) | ('seek', t, w) | ('tell',) ; positions tracked so that targets are in range unless `oob`"""
    prog = []
    pos = 0
    for _ in range(n):
        x = rng.random()
        if x < 0.45:
            k = rng.choice([-1, 0, 1, 2, 3, 7, size // 2, size, size + 5, rng.randint(0, max(1, size))])
            prog.append(('read', k))
            pos = size if k < 0 else min(size, pos + k)
        elif x < 0.85:
            w = rng.choice([0, 0, 1, 1, 2] if allow_w2 else [0, 0, 1])
            if oob and rng.random() < 0.35:
                target = rng.choice([-1, -size - 3, size + 1, size + 9, -2])
            else:
                target = rng.choice([0, size, pos, max(0, pos - 1), min(size, pos + 1), rng.randint(0, size)])
            t = target if w == 0 else (target - pos if w == 1 else target - size)
            prog.append(('seek', t, w))
            if 0 <= target <= size:
                pos = target
        else:
            prog.append(('tell',))
    return prog


def run_python_stream(stream, prog, size: int):
    """run the program on a Python stream; outputs canonicalised as ('data', bytes) | ('pos', int) | ('err', kind)"""
    outs = []
    for cmd in prog:
        try:
            if cmd[0] == 'read':
                outs.append(('data', stream.read(cmd[1])))
            elif cmd[0] == 'seek':
                outs.append(('pos', stream.seek(cmd[1], cmd[2])))
            else:
                outs.append(('pos', stream.tell()))
        except Exception as exc:  # pylint: disable=broad-except
            outs.append(('err', type(exc).__name__))
    return outs


def in_range_positions(prog, size):
    """for each command: is it 'in range' in the sense of C07 given the reference position before it"""
    ref = io.BytesIO(bytes(size))
    flags = []
    for cmd in prog:
        pos = ref.tell()
        ok = True
        if cmd[0] == 'seek':
            t, w = cmd[1], cmd[2]
            target = t if w == 0 else (pos + t if w == 1 else size + t)
            ok = 0 <= target <= size
            if ok:
                ref.seek(target)
        elif cmd[0] == 'read':
            ref.read(cmd[1])
        flags.append(ok)
    return flags


def compare_with_bytesio(stream, content: bytes, prog, label: str):
    """C07 oracle.  Returns a list of problems.  In-range commands must behave exactly like BytesIO; an out-of-range seek
    must raise (position unchanged), clamp into [0, len], or behave like BytesIO; no read may return foreign bytes."""
    probs = []
    ref = io.BytesIO(content)
    size = len(content)
    for i, cmd in enumerate(prog):
        pos_before = ref.tell()
        in_range = True
        if cmd[0] == 'seek':
            t, w = cmd[1], cmd[2]
            target = t if w == 0 else (pos_before + t if w == 1 else size + t)
            in_range = 0 <= target <= size
        try:
            if cmd[0] == 'read':
                got = ('data', stream.read(cmd[1]))
            elif cmd[0] == 'seek':
                got = ('pos', stream.seek(cmd[1], cmd[2]))
            else:
                got = ('pos', stream.tell())
        except Exception as exc:  # pylint: disable=broad-except
            got = ('err', type(exc).__name__)
        if in_range:
            if cmd[0] == 'read':
                want = ('data', ref.read(cmd[1]))
            elif cmd[0] == 'seek':
                want = ('pos', ref.seek(cmd[1], cmd[2]))
            else:
                want = ('pos', ref.tell())
            if got != want:
                gs = got if got[0] != 'data' else ('data', len(got[1]), got[1][:16])
                ws = want if want[0] != 'data' else ('data', len(want[1]), want[1][:16])
                probs.append(f'{label}: command #{i} {cmd} at position {pos_before}: stream gave {gs}, an in-memory file gives {ws}')
                return probs
        else:
            # out-of-range seek: rejected (position kept) or clamped or file-like; afterwards the two are re-synchronised
            try:
                now = stream.tell()
            except Exception as exc:  # pylint: disable=broad-except
                probs.append(f'{label}: tell() after out-of-range seek {cmd} raised {type(exc).__name__}')
                return probs
            if got[0] == 'err':
                if now != pos_before:
                    probs.append(f'{label}: rejected seek {cmd} moved the position from {pos_before} to {now}')
                    return probs
            elif now < 0:
                probs.append(f'{label}: out-of-range seek {cmd} left a negative position {now}')
                return probs
            # whatever happened, what is read next must come from inside the object, from position `now`
            ref.seek(max(now, 0))
        if got[0] == 'data' and not in_range:
            pass
    return probs


# ---------------------------------------------------------------- toy decoder (Python twin of Dos.Stream.toyDecoder)


class ToyError(Exception):
    pass


class ToyDecompressobj:
    """run-length records: [1,x] literal, [2,x,k] run, [0,0] end; same interface as zlib.decompressobj"""

    def __init__(self):
        self.hold = b''
        self.run = None
        self.unconsumed_tail = b''
        self.eof = False
        self.bad = False

    def decompress(self, data: bytes, max_length: int = 0) -> bytes:
        out = bytearray()
        room = max_length if max_length > 0 else 1 << 62  # like zlib: 0 = no limit
        i = 0
        n = len(data)
        while True:
            if self.eof or self.bad:
                self.unconsumed_tail = b''
                return bytes(out)
            if self.run is not None:
                if room == 0:
                    break
                x, k = self.run
                m = min(k, room)
                out += bytes([x]) * m
                room -= m
                self.run = None if k - m == 0 else (x, k - m)
                continue
            if room == 0:
                break
            if i >= n:
                self.unconsumed_tail = b''
                return bytes(out)
            h = self.hold + data[i:i + 1]
            i += 1
            if h == b'\x00\x00':
                self.hold = b''
                self.eof = True
            elif len(h) == 2 and h[0] == 1:
                self.hold = b''
                out.append(h[1])
                room -= 1
            elif len(h) == 3 and h[0] == 2:
                self.hold = b''
                self.run = None if h[2] == 0 else (h[1], h[2])
            elif h in (b'\x00', b'\x01', b'\x02') or (len(h) == 2 and h[0] == 2):
                self.hold = h
            else:
                self.bad = True
                self.unconsumed_tail = b''
                return bytes(out)
        self.unconsumed_tail = data[i:]
        return bytes(out)


def toy_enc(b: bytes) -> bytes:
    out = bytearray()
    i = 0
    while i < len(b):
        x = b[i]
        j = i
        while j < len(b) and b[j] == x:
            j += 1
        n = min(j - i, 255)
        if n >= 3:
            out += bytes([2, x, n])
            i += n
        else:
            out += bytes([1, x])
            i += 1
    out += b'\x00\x00'
    return bytes(out)


class LazyStub:
    """stands for a LazyLooseStream: opens an uncompressed copy on demand (here an in-memory file)"""

    def __init__(self, content: bytes):
        self._content = content
        self._stream = None
        self.opened = 0

    @property
    def mode(self):
        return 'rb'

    @property
    def closed(self):
        return self._stream is None or self._stream.closed

    def open_stream(self):
        if self._stream is None:
            self._stream = io.BytesIO(self._content)
            self.opened += 1

    def close_stream(self):
        if self._stream is not None:
            self._stream.close()
            self._stream = None

    def seek(self, t, w=0):
        return self._stream.seek(t, w)

    def tell(self):
        return self._stream.tell()

    def read(self, n=-1):
        return self._stream.read(n)


# ---------------------------------------------------------------- contract monitor for the real zlib


class ContractViolation(Exception):
    pass


def make_monitored_decompressobj(e: bytes, b: bytes, log: list):
    """a decompressobj factory whose objects check every call against the decoder contract assumed by the theorems"""

    class Monitored:
        def __init__(self):
            self._d = zlib.decompressobj()
            self.consumed = 0
            self.produced = 0
            # the library feeds: old unconsumed_tail + next bytes of e.  Track where in `e` the next fresh byte is.

        @property
        def unconsumed_tail(self):
            return self._d.unconsumed_tail

        @property
        def eof(self):
            return self._d.eof

        def decompress(self, data, max_length=0):
            was_eof = self._d.eof
            out = self._d.decompress(data, max_length)
            tail = self._d.unconsumed_tail
            if len(out) > max_length > 0:
                log.append(f'K1: {len(out)} bytes returned for max_length {max_length}')
            if out != b[self.produced:self.produced + len(out)]:
                log.append(f'K1: output is not the next {len(out)} bytes of the content at {self.produced}')
            if tail and not data.endswith(tail):
                log.append('K2: unconsumed_tail is not a suffix of the input')
            if e[self.consumed:self.consumed + len(data) - len(tail)] != data[:len(data) - len(tail)] and not was_eof:
                log.append('K2: the consumed input is not the next part of the compressed stream')
            self.consumed += len(data) - len(tail)
            self.produced += len(out)
            if 0 < max_length and len(out) < max_length and tail:
                log.append(f'K3: only {len(out)} < {max_length} bytes returned but {len(tail)} bytes left unconsumed')
            if self._d.eof != (self.consumed >= len(e)) and not was_eof:
                log.append(f'K4: eof={self._d.eof} with {self.consumed} of {len(e)} compressed bytes consumed')
            if self._d.eof and self.produced != len(b):
                log.append(f'K5: eof with {self.produced} of {len(b)} bytes produced')
            if data and not was_eof and len(data) == len(tail) and not out:
                log.append('progress: input given, nothing consumed, nothing produced')
            return out

    return Monitored


def show_out(o) -> str:
    if o[0] == 'data':
        return 'data:' + (o[1].hex() if o[1] else '-')
    if o[0] == 'pos':
        return f'pos:{o[1]}'
    return f'err:{o[1]}'


def model_cmd(cmd) -> str:
    if cmd[0] == 'read':
        return f'stream cmd read {cmd[1]}'
    if cmd[0] == 'seek':
        return f'stream cmd seek {cmd[1]} {cmd[2]}'
    return 'stream cmd tell'


def hexs(b: bytes) -> str:
    return b.hex() if b else '-'
