"""Histories of public operations run on the real Container and on the Lean Level-B model, step by step.

`run_case` executes one seeded case and returns a CaseResult holding
  * `diffs`    – disagreements between model and implementation, tagged by layer
                 (outcome / state.loose / state.rows / state.packs / views.*),
  * `failures` – violations of the properties' *direct oracles*, which consult only the harness's own
                 table (cid <-> bytes <-> digest) and the raw on-disk data, never the model,
  * statistics for the evidence file.
"""
from __future__ import annotations

import io
import json
import os
import shutil
import traceback
import zlib
from dataclasses import dataclass, field

from . import common
from .content import Pool
from .rawstate import Raw

MODES = ['no', 'yes', 'keep', 'auto']


class ShortReader(io.RawIOBase):
    """A legitimate binary stream whose read(n) may return fewer than n bytes before EOF (pipe/socket semantics)."""

    mode = 'rb'

    def __init__(self, data: bytes, step: int):
        super().__init__()
        self._data = data
        self._pos = 0
        self._step = max(1, step)

    def readable(self):
        return True

    def seekable(self):
        return True

    def read(self, size=-1):
        if size is None or size < 0:
            size = len(self._data) - self._pos
        n = min(size, self._step, len(self._data) - self._pos)
        out = self._data[self._pos:self._pos + n]
        self._pos += n
        return out

    def seek(self, target, whence=0):
        if whence == 0:
            self._pos = target
        elif whence == 1:
            self._pos += target
        else:
            self._pos = len(self._data) + target
        self._pos = max(0, min(self._pos, len(self._data)))
        return self._pos

    def tell(self):
        return self._pos


def _mode_obj(dos, m):
    from disk_objectstore.utils import CompressMode  # pylint: disable=import-outside-toplevel

    if isinstance(m, bool):
        return m
    return {'no': CompressMode.NO, 'yes': CompressMode.YES, 'keep': CompressMode.KEEP, 'auto': CompressMode.AUTO}[m]


def _mode_name(m) -> str:
    if isinstance(m, bool):
        return 'yes' if m else 'no'
    return m


@dataclass
class Cfg:
    hash_type: str = 'sha256'
    prefix_len: int = 2
    level: int = 1
    target: int = 4 * 1024 ** 3
    in_sql_max: int | None = None
    max_chunk_iter: int | None = None

    def as_dict(self):
        return dict(self.__dict__)


class RealCont:
    """One container folder with one (re-openable) handle on it."""

    def __init__(self, name: str, folder: str, cfg: Cfg, pool: Pool):
        dos = common.import_repo()
        self.dos = dos
        self.name = name
        self.folder = folder
        self.cfg = cfg
        self.pool = pool
        self.c = dos.Container(folder)
        self.c.init_container(clear=False, pack_size_target=cfg.target, loose_prefix_len=cfg.prefix_len,
                              hash_type=cfg.hash_type, compression_algorithm=f'zlib+{cfg.level}')
        self._tune()
        self.expected: set[int] = set()  # the plain key->bytes map (keys are cids), updated by the same operations

    def _tune(self):
        if self.cfg.in_sql_max is not None:
            self.c._IN_SQL_MAX_LENGTH = self.cfg.in_sql_max  # pylint: disable=protected-access
        if self.cfg.max_chunk_iter is not None:
            self.c._MAX_CHUNK_ITERATE_LENGTH = self.cfg.max_chunk_iter  # pylint: disable=protected-access

    def reopen(self):
        self.c.close()
        self.c = self.dos.Container(self.folder)
        self._tune()

    def close(self):
        try:
            self.c.close()
        except Exception:  # pylint: disable=broad-except
            pass

    def key(self, cid: int) -> str:
        return self.pool.key(cid, self.cfg.hash_type)

    def cid(self, key: str):
        return self.pool.cid_of_key(key, self.cfg.hash_type)

    def raw(self) -> Raw:
        return Raw(self.folder)


def show_nats(l) -> str:
    l = list(l)
    return ','.join(str(x) for x in l) if l else '-'


def b01(b) -> str:
    return '1' if b else '0'


def rows_sorted_for_order(rows):
    """rows of one pack in the order their segments lie in the file: by offset, zero-length first on ties"""
    return sorted(rows, key=lambda r: (r[3], 0 if r[4] == 0 else 1))


@dataclass
class CaseResult:
    case: dict
    steps: int = 0
    diffs: list = field(default_factory=list)  # (step, layer, model, real)
    failures: list = field(default_factory=list)  # (step, property, signature, text)
    stats: dict = field(default_factory=dict)
    error: str | None = None
    trace: list = field(default_factory=list)  # executed ops (with choices) – the replay

    def bump(self, key, n=1):
        self.stats[key] = self.stats.get(key, 0) + n


class Runner:
    """Runs ops on real containers and on the driver, compares after every step."""

    def __init__(self, drv: common.Driver, pool: Pool, cfgs: dict[str, Cfg], scratch: str, res: CaseResult,
                 check_views: bool = True, bogus_keys: int = 0):
        self.drv = drv
        self.pool = pool
        self.res = res
        self.scratch = scratch
        self.conts: dict[str, RealCont] = {}
        self.check_views = check_views
        self.bogus_keys = bogus_keys
        self.step = 0
        self.damaged: set = set()  # (container, cid) whose loose file was overwritten from outside
        self.prev_packs: dict[str, dict[str, bytes]] = {}
        for name, cfg in cfgs.items():
            folder = os.path.join(scratch, name)
            rc = RealCont(name, folder, cfg, pool)
            self.conts[name] = rc
            self._ask(f'store new {name} {cfg.target}')
            self._ask(f'store tab {name} {pool.tab_entries(level=cfg.level)}')
            self.prev_packs[name] = {}

    def grow_pool(self, data: bytes) -> int:
        """add a content to the pool (e.g. the garbage written over a loose file) and tell the model its table entry"""
        before = len(self.pool)
        cid = self.pool.add(data)
        if len(self.pool) > before:
            for name, rc in self.conts.items():
                self._ask(f'store tab {name} {self.pool.tab_entries(start=before, level=rc.cfg.level)}')
        return cid

    def _ask(self, line: str) -> str:
        out = self.drv.ask(line)
        if out.startswith('bad-op'):
            raise common.Infra(f'driver rejected {line[:200]!r}: {out}')
        return out

    def close(self):
        for rc in self.conts.values():
            rc.close()

    # ------------------------------------------------------------------ one step
    def apply(self, op: dict):
        """run `op` on the implementation, derive the observed choices, run it on the model, compare"""
        self.step += 1
        self.res.steps += 1
        self.res.bump('op.' + op['op'])
        rc = self.conts[op.get('on', 'a')]
        pre = rc.raw()
        self.pre_expected = set(rc.expected)
        self.pre_damaged = set(self.damaged)
        tracer = None
        # several calls = several traces; a stream handed over mid-way takes one of two paths depending on its tail's digest
        single_calls = op['op'] == 'addPacked' and ((op.get('via') == 'single' and len(op['cs']) > 1) or op.get('via') in ('midstream', 'nested'))
        # (stray files in duplicates/ are not part of the Level-C model: with them present, clean and delete are not traced)
        if (getattr(self, 'check_trace', False) and not single_calls and op['op'] in ('addLoose', 'addPacked', 'packAll', 'delete', 'repackOne', 'repack', 'clean')
                and not (pre.duplicates and op['op'] in ('delete', 'clean'))):
            from .iotrace import Tracer  # pylint: disable=import-outside-toplevel

            tracer = Tracer(rc.folder).install()
        try:
            real_out = self._real(rc, op)
        finally:
            if tracer is not None:
                tracer.uninstall()
        post = rc.raw()
        if op['op'] == 'damage':
            self.damaged.add((rc.name, op['k']))
        elif op['op'] == 'addLoose':
            self.damaged.discard((rc.name, op['c']))
            key = rc.key(op['c'])
            if key in post.loose_bytes and post.loose_bytes[key] != self.pool.contents[op['c']]:
                self._fail('C09', 'damaged-loose-not-repaired',
                           f're-adding cid {op["c"]} left a loose file with {len(post.loose_bytes[key])} wrong bytes in place')
        elif op['op'] == 'addPacked' and not real_out.startswith('raised'):
            for k in set(op['cs']):
                if (rc.name, k) in self.pre_damaged:
                    try:
                        got = rc.c.get_object_content(rc.key(k))
                    except Exception as exc:  # pylint: disable=broad-except
                        got = f'{type(exc).__name__}'
                    if got != self.pool.contents[k]:
                        self._fail('C09', 'damaged-loose-not-repaired-packed',
                                   f'cid {k} was stored again directly to a pack while its loose copy was damaged: no correct copy is in place '
                                   f'(reads give {got if isinstance(got, str) else str(len(got)) + " bytes"})')
        # a damaged loose file that is gone (cleaned, deleted) is no longer a damaged copy
        self.damaged = {(nm, k) for (nm, k) in self.damaged if nm != rc.name or rc.key(k) in post.loose_bytes}
        line = self._model_line(rc, op, pre, post)
        rec = dict(op)
        if getattr(self, 'check_ir', False) and line is not None:
            self._ir_safety(rc, op, line)
        if tracer is not None and line is not None and not real_out.startswith('raised'):
            self._compare_trace(rc, op, line, tracer, pre)
        if line is not None:
            model_out = self._ask(line)
            if model_out == 'inadmissible' and op['op'] in ('packAll', 'repack', 'repackOne'):
                # Was it only the compression verdicts (a C10 matter)?  Then some other mode admits the same observed
                # choices; keep tracking the state with it and record the disagreement in the `verdict` layer only.
                cur = _mode_name(op['mode'])
                for alt in MODES:
                    if alt == cur:
                        continue
                    parts = line.split(' ')
                    parts[4] = alt
                    alt_out = self._ask(' '.join(parts))
                    if alt_out != 'inadmissible':
                        self.res.diffs.append((self.step, 'verdict', f'mode {cur}: observed verdicts inadmissible', f'admissible under mode {alt}', op['op']))
                        model_out = alt_out
                        line = ' '.join(parts)
                        break
            rec['model_line'] = line
        else:
            model_out = real_out if op['op'] == 'reinit' else 'ok'
        if op['op'] == 'import' and getattr(self, 'last_import', None) is not None and not real_out.startswith('raised'):
            li, self.last_import = self.last_import, None
            if all(isinstance(x, int) and x >= 0 for x in li['stream']) and all(isinstance(x, int) and x >= 0 for cl in li['calls'] for x in cl):
                m_calls = self._ask(f'store calls {rc.name} {li["budget"]} {show_nats(li["stream"])}')
                r_calls = '|'.join(show_nats(cl) for cl in li['calls']) if li['calls'] else '-'
                self.res.bump('import_calls_compared')
                self.res.bump(f'import_calls.{min(len(li["calls"]), 4)}{"+" if len(li["calls"]) > 4 else ""}')
                for cl in li['calls']:
                    tot = sum(self.pool.size(x) for x in cl)
                    if tot > li['budget'] and not (len(cl) == 1 and self.pool.size(cl[0]) > li['budget']):
                        for prop_ in ('C18', 'C14'):
                            self._fail(prop_, 'import-batch-over-budget', f'import_objects with target_memory_bytes={li["budget"]} held a batch of {len(cl)} objects '
                                                                          f'({tot} bytes) in memory before writing it')
                        break
                if m_calls != r_calls:
                    self.res.diffs.append((self.step, 'calls', m_calls, f'{r_calls} (objects arrived in the order {show_nats(li["stream"])}, budget {li["budget"]})', 'import'))
        rec['real_out'] = real_out
        self.res.trace.append(rec)
        if model_out != real_out:
            self.res.diffs.append((self.step, 'outcome', model_out, real_out, op['op']))
        self._oracle_step(rc, op, pre, post, real_out)
        self._compare_state(rc, post, op)
        if self.check_views:
            self._compare_views(rc, post, op)
        self.prev_packs[rc.name] = dict(post.pack_bytes)

    # ------------------------------------------------------------------ implementation side
    def _real(self, rc: RealCont, op: dict) -> str:
        c = rc.c
        pool = self.pool
        kind = op['op']
        try:
            if kind == 'addLoose':
                data = pool.contents[op['c']]
                if op.get('via') == 'stream':
                    key = c.add_streamed_object(io.BytesIO(data))
                elif op.get('via') == 'short':
                    key = c.add_streamed_object(ShortReader(data, op.get('short', 7)))
                else:
                    key = c.add_object(data)
                known_before = op['c'] in rc.expected
                rc.expected.add(op['c'])
                cid = rc.cid(key)
                if cid != op['c']:
                    self._fail('C01', 'add-loose-key', f'add of cid {op["c"]} returned key {key} (cid {cid})')
                    if known_before:
                        self._fail('C09', 'known-content-other-key', f're-adding cid {op["c"]} returned a different key {key}')
                return f'key={cid}'
            if kind == 'addPacked':
                datas = [pool.contents[x] for x in op['cs']]
                kw = dict(compress=op['compress'], no_holes=op['no_holes'], no_holes_read_twice=op['read_twice'])
                if op.get('do_fsync') is False:
                    kw['do_fsync'] = False
                via = op.get('via', 'bytes')
                if op.get('callback') and via in ('bytes', 'streams'):
                    kw['callback'] = lambda action, value: None
                if via == 'bytes':
                    keys = c.add_objects_to_pack(datas, **kw)
                elif via == 'streams':
                    keys = c.add_streamed_objects_to_pack([io.BytesIO(d) for d in datas], **kw)
                elif via == 'short':
                    keys = c.add_streamed_objects_to_pack([ShortReader(d, op.get('short', 7)) for d in datas], **kw)
                elif via == 'nested':
                    # while this writer holds the pack, a second handle tries to write to packs too (from inside the first read of
                    # the first stream): it must be refused, or at least leave the index and the packs consistent
                    outer = self

                    class Trigger(io.BytesIO):
                        fired = False

                        def read(self, *a):  # pylint: disable=arguments-differ
                            if not Trigger.fired:
                                Trigger.fired = True
                                c2 = rc.dos.Container(rc.folder)
                                try:
                                    c2.add_objects_to_pack([pool.contents[x] for x in op['inner']], compress=op['compress'])
                                    outer.res.bump('nested.accepted')
                                    rc.expected.update(op['inner'])
                                except Exception as exc:  # pylint: disable=broad-except
                                    outer.res.bump('nested.refused.' + type(exc).__name__)
                                finally:
                                    c2.close()
                            return super().read(*a)

                    keys = c.add_streamed_objects_to_pack([Trigger(datas[0])] + [io.BytesIO(d) for d in datas[1:]], **kw)
                elif via == 'midstream':
                    # streams handed over at a position > 0; with no_holes + read-twice the library rewinds them
                    streams = []
                    for d in datas:
                        st = io.BytesIO(d)
                        st.seek(op.get('mid', 1) if len(d) > op.get('mid', 1) else 0)
                        streams.append(st)
                    keys = c.add_streamed_objects_to_pack(streams, **kw)
                elif via == 'lazy':
                    from disk_objectstore.utils import LazyOpener  # pylint: disable=import-outside-toplevel
                    from pathlib import Path  # pylint: disable=import-outside-toplevel

                    paths = []
                    for i, d in enumerate(datas):
                        p = os.path.join(self.scratch, f'in-{self.step}-{i}')
                        with open(p, 'wb') as fh:
                            fh.write(d)
                        paths.append(p)
                    keys = c.add_streamed_objects_to_pack([LazyOpener(Path(p)) for p in paths], open_streams=True, **kw)
                    for p in paths:
                        os.remove(p)
                else:  # one by one through add_streamed_object_to_pack
                    keys = [c.add_streamed_object_to_pack(io.BytesIO(d), **kw) for d in datas]
                known_before = set(rc.expected)
                rc.expected.update(op['cs'])
                cids = [rc.cid(k) for k in keys]
                if cids != list(op['cs']):
                    self._fail('C01', 'add-packed-keys', f'add to pack of cids {op["cs"]} returned keys of cids {cids}')
                    if any(a != b and b in known_before for a, b in zip(cids, op['cs'])):
                        self._fail('C09', 'known-content-other-key', f're-adding known content returned a different key: {cids} for {op["cs"]}')
                return f'keys={show_nats(cids)}'
            cb_calls: list = []
            cb_kw = {'callback': (lambda action, value: cb_calls.append(action))} if op.get('callback') else {}
            if kind == 'packAll':
                c.pack_all_loose(compress=_mode_obj(rc.dos, op['mode']), validate_objects=op.get('validate', True),
                                 clean_loose_per_pack=op.get('clean', False),
                                 **({'do_fsync': False} if op.get('do_fsync') is False else {}), **cb_kw)
                return 'ok'
            if kind == 'clean':
                c.clean_storage(vacuum=op.get('vacuum', False))
                return 'ok'
            if kind == 'delete':
                keys = [rc.key(k) if isinstance(k, int) else k for k in op['ks']]
                gone = c.delete_objects(keys)
                cids = sorted(rc.cid(k) for k in gone)
                rc.expected.difference_update(k for k in op['ks'] if isinstance(k, int))
                return f'deleted={show_nats(cids)}'
            if kind == 'repack':
                c.repack(compress_mode=_mode_obj(rc.dos, op['mode']), **cb_kw)
                return 'ok'
            if kind == 'repackOne':
                c.repack_pack(str(op['p']), compress_mode=_mode_obj(rc.dos, op['mode']), **cb_kw)
                return 'ok'
            if kind == 'loosen':
                try:
                    c.loosen_object(rc.key(op['k']))
                except rc.dos.exceptions.NotExistent:
                    return 'notexistent'
                return 'ok'
            if kind == 'reopen':
                rc.reopen()
                return 'ok'
            if kind == 'reinit':
                try:
                    c.init_container(clear=False, **op.get('kw', {}))
                except FileExistsError:
                    return 'refused'
                return 'accepted'
            if kind == 'import':
                src = self.conts[op['src']]
                keys = [src.key(k) if isinstance(k, int) else k for k in op['ks']]
                it = {'list': list, 'tuple': tuple, 'set': set, 'gen': (lambda ks: (k for k in ks))}[op.get('iter', 'list')](keys)
                calls = []
                cb = (lambda action, value: calls.append(action)) if op.get('callback') else None
                # observe the order in which the source hands the objects over and the direct-to-pack calls made for them
                from contextlib import contextmanager  # pylint: disable=import-outside-toplevel

                stream_order: list = []
                made_calls: list = []
                orig_stream = src.c.get_objects_stream_and_meta
                orig_bulk, orig_one = c.add_objects_to_pack, c.add_streamed_object_to_pack

                @contextmanager
                def rec_stream(hashkeys, skip_if_missing=True):
                    with orig_stream(hashkeys, skip_if_missing=skip_if_missing) as trip:
                        def gen():
                            for hk_, st_, meta_ in trip:
                                stream_order.append(src.cid(hk_))
                                yield hk_, st_, meta_
                        yield gen()

                def rec_bulk(content_list, *a, **k):
                    made_calls.append([pool.cid_of_bytes(b) for b in content_list])
                    return orig_bulk(content_list, *a, **k)

                def rec_one(stream, *a, **k):
                    made_calls.append([stream_order[-1] if stream_order else -1])
                    return orig_one(stream, *a, **k)

                src.c.get_objects_stream_and_meta = rec_stream
                c.add_objects_to_pack, c.add_streamed_object_to_pack = rec_bulk, rec_one
                try:
                    mapping = c.import_objects(it, src.c, compress=op['compress'],
                                               target_memory_bytes=op.get('budget', 104857600), callback=cb,
                                               **({'do_fsync': False} if op.get('do_fsync') is False else {}))
                finally:
                    del src.c.get_objects_stream_and_meta
                    del c.add_objects_to_pack
                    del c.add_streamed_object_to_pack
                self.last_import = {'stream': stream_order, 'calls': made_calls, 'budget': op.get('budget', 104857600)}
                wanted = {k for k in op['ks'] if isinstance(k, int) and k in src.expected}
                rc.expected.update(wanted)
                out = []
                for old, new in mapping.items():
                    oc, nc = src.cid(old), rc.cid(new)
                    if oc is None or oc != nc:
                        self._fail('C14', 'import-mapping', f'mapping sends source key of cid {oc} to destination key of cid {nc}')
                    out.append(oc if oc is not None else -1)
                return f'mapped={show_nats(sorted(out))}'
            if kind == 'plantDup':
                # a stray copy in duplicates/, as a writer leaves it when it cannot replace an existing loose file
                import uuid  # pylint: disable=import-outside-toplevel

                for ident in op['ids']:
                    with open(os.path.join(rc.folder, 'duplicates', f'{rc.key(op["k"])}.{uuid.UUID(int=ident)}'), 'wb') as fh:
                        fh.write(self.pool.contents[op['k']])
                return 'ok'
            if kind == 'read':
                # a read-type operation over many keys; the result in a canonical form (cid -> what was reported)
                keys = [rc.key(k) for k in op['ks']]
                style = op['style']
                res: dict = {}
                if style == 'content':
                    got = c.get_objects_content(keys, skip_if_missing=False)
                    res = {str(k): (None if got.get(rc.key(k)) is None else pool.cid_of_bytes(got[rc.key(k)])) for k in op['ks']}
                elif style == 'content_skip':
                    got = c.get_objects_content(keys, skip_if_missing=True)
                    res = {str(k): (pool.cid_of_bytes(got[rc.key(k)]) if rc.key(k) in got else None) for k in op['ks']}
                elif style == 'meta':
                    for hk, m_ in c.get_objects_meta(keys, skip_if_missing=False):
                        res[str(rc.cid(hk))] = None if m_['type'].value == 'missing' else m_['size']
                elif style == 'has':
                    res = {str(k): bool(h_) for k, h_ in zip(op['ks'], c.has_objects(keys))}
                elif style == 'list':
                    res = {'listed': sorted(x for x in (rc.cid(hk) for hk in c.list_all_objects()) if x is not None)}
                elif style == 'single':
                    for k in op['ks']:
                        try:
                            res[str(k)] = pool.cid_of_bytes(c.get_object_content(rc.key(k)))
                        except rc.dos.exceptions.NotExistent:
                            res[str(k)] = None
                else:  # streams
                    with c.get_objects_stream_and_meta(keys, skip_if_missing=False) as triplets:
                        for hk, st_, m_ in triplets:
                            res[str(rc.cid(hk))] = None if st_ is None else pool.cid_of_bytes(st_.read())
                return 'read=' + json.dumps(res, sort_keys=True)
            if kind == 'damage':
                path = rc.raw().loose_paths.get(rc.key(op['k']))
                if path is None:
                    raise common.Infra('damage of a key that is not loose')
                with open(path, 'wb') as fh:
                    fh.write(self.pool.contents[op['c']])
                return 'ok'
        except Exception as exc:  # pylint: disable=broad-except
            self.res.bump('exc.' + type(exc).__name__)
            return f'raised={type(exc).__name__}'
        raise common.Infra(f'unknown op {op}')

    # ------------------------------------------------------------------ model side
    def _model_line(self, rc: RealCont, op: dict, pre: Raw, post: Raw):
        kind = op['op']
        n = rc.name
        if kind == 'addLoose':
            return f'store op {n} addLoose {op["c"]}'
        if kind == 'addPacked':
            return f'store op {n} addPacked {b01(op["compress"])} {b01(op["no_holes"])} {show_nats(op["cs"])}'
        if kind == 'packAll':
            pre_keys = {r[1] for r in pre.rows}
            new = [r for r in post.rows if r[1] not in pre_keys]
            order_rows = []
            for pack in sorted({r[2] for r in new}):
                order_rows += rows_sorted_for_order([r for r in new if r[2] == pack])
            order = [self._cid_or(rc, r[1]) for r in order_rows]
            zs = [1 if r[5] else 0 for r in order_rows]
            return f'store op {n} packAll {_mode_name(op["mode"])} {b01(op.get("clean", False))} {show_nats(order)} {show_nats(zs)}'
        if kind == 'clean':
            return f'store op {n} clean'
        if kind == 'delete':
            ks = [k for k in op['ks'] if isinstance(k, int)]
            return f'store op {n} delete {show_nats(ks)}'
        if kind == 'repack':
            parts = []
            for p in sorted(int(x) for x in pre.pack_names_valid()):
                rs = rows_sorted_for_order([r for r in post.rows if r[2] == p])
                order = [self._cid_or(rc, r[1]) for r in rs]
                zs = [1 if r[5] else 0 for r in rs]
                parts.append(f'{p}:{show_nats(order)}:{show_nats(zs)}')
            return f'store op {n} repack {_mode_name(op["mode"])} {"|".join(parts) if parts else "-"}'
        if kind == 'repackOne':
            p = op['p']
            rs = rows_sorted_for_order([r for r in post.rows if r[2] == p])
            order = [self._cid_or(rc, r[1]) for r in rs]
            zs = [1 if r[5] else 0 for r in rs]
            return f'store op {n} repack {_mode_name(op["mode"])} {p}:{show_nats(order)}:{show_nats(zs)}'
        if kind == 'loosen':
            return f'store op {n} loosen {op["k"]}'
        if kind == 'reopen':
            return f'store op {n} reopen'
        if kind in ('reinit', 'plantDup'):
            return None
        if kind == 'import':
            src = self.conts[op['src']]
            written = []
            for k in op['ks']:
                if isinstance(k, int) and k in src.expected and k not in written:
                    written.append(k)
            pre_keys = {r[1] for r in pre.rows}
            new = [r for r in post.rows if r[1] not in pre_keys]
            order_rows = []
            for pack in sorted({r[2] for r in new}):
                order_rows += rows_sorted_for_order([r for r in new if r[2] == pack])
            order = [self._cid_or(rc, r[1]) for r in order_rows]
            same = src.cfg.hash_type == rc.cfg.hash_type
            # a skipped stream processed after the last write may still have opened (created) the next pack
            valid = sorted(int(x) for x in post.pack_names_valid())
            trailing = (bool(valid) and str(valid[-1]) not in pre.pack_bytes and len(post.pack_bytes.get(str(valid[-1]), b'x')) == 0
                        and not any(r[2] == valid[-1] for r in post.rows))
            return f'store op {n} import {b01(op["compress"])} {b01(same)} {b01(trailing)} {show_nats(written)} {show_nats(order)}'
        if kind == 'damage':
            return f'store op {n} damage {op["k"]} {op["c"]}'
        raise common.Infra(f'unknown op {op}')

    def ir_args(self, rc: RealCont, op: dict, line: str):
        """arguments of the Level-C compiler for this op (choices taken from the model line built from the real run)"""
        kind = op['op']
        parts = line.split(' ')
        if kind == 'addLoose':
            return f'addLoose {op["c"]} {b01(rc.cfg.prefix_len > 0)}'
        if kind == 'addPacked':
            # a stream handed over mid-way is hashed from there first (a digest nobody knows), so it takes the write-then-rewind path
            rt = op['read_twice']
            if op.get('do_fsync') is False:
                return f'addPackedO {b01(op["compress"])} {b01(op["no_holes"])} {b01(rt)} 0 {show_nats(op["cs"])}'
            return f'addPacked {b01(op["compress"])} {b01(op["no_holes"])} {b01(rt)} {show_nats(op["cs"])}'
        if kind == 'packAll':
            if op.get('do_fsync') is False:
                return f'packAllO {parts[5]} 0 {parts[6]} {parts[7]}'
            return f'packAll {parts[5]} {parts[6]} {parts[7]}'
        if kind == 'delete':
            return f'delete {parts[4]}'
        if kind == 'repackOne':
            _, _, zs = parts[5].split(':')
            return f'repackOne {op["p"]} {zs}'
        return None

    def _compare_trace(self, rc: RealCont, op: dict, line: str, tracer, pre):
        from . import iotrace  # pylint: disable=import-outside-toplevel

        if op['op'] == 'clean':
            real_toks, _ = iotrace.canon(tracer.events, lambda k: self._cid_or(rc, k), {r[1] for r in pre.rows})
            order = [int(t.split(':')[1]) for t in real_toks if t.startswith('looseUnlink:')]
            args = f'clean {show_nats(order)}'
        elif op['op'] == 'repack':
            # the packs are repacked in the order of a directory listing: taken from the trace
            real_toks, _ = iotrace.canon(tracer.events, lambda k: self._cid_or(rc, k), {r[1] for r in pre.rows})
            seen = []
            for t_ in real_toks:
                if t_.startswith(('pkRead:', 'pkUnlink:')):
                    p_ = int(t_.split(':')[1])
                    if p_ not in seen and p_ != iotrace.TMP:
                        seen.append(p_)
            zs_of = {}
            for part in line.split(' ')[5].split('|') if line.split(' ')[5] != '-' else []:
                p_, _o, z_ = part.split(':')
                zs_of[int(p_)] = z_
            args = 'repackAll ' + ('|'.join(f'{p_}:{zs_of.get(p_, "-")}' for p_ in seen) if seen else '-')
        else:
            args = self.ir_args(rc, op, line)
        if args is None:
            return
        ans = self._ask(f'store acts {rc.name} {args}')
        acts, _, lens = ans.partition(' | ')
        lengths = [int(x) for x in lens.split(',')] if lens.strip() not in ('-', '') else []
        sb_size = self.pool.size(op['c']) if op['op'] == 'addLoose' else None
        model_toks, _ = iotrace.canon_model(acts.strip(), lengths, sb_size)
        real_toks, _ = iotrace.canon(tracer.events, lambda k: self._cid_or(rc, k), {r[1] for r in pre.rows})
        self.res.bump('traces_compared')
        if model_toks != real_toks:
            i = 0
            while i < min(len(model_toks), len(real_toks)) and model_toks[i] == real_toks[i]:
                i += 1
            self.res.diffs.append((self.step, 'trace', ' '.join(model_toks[max(0, i - 3):i + 4]), ' '.join(real_toks[max(0, i - 3):i + 4]) + f'  (at action {i}; {args[:60]})', op['op']))

    def _ir_safety(self, rc: RealCont, op: dict, line: str):
        args = self.ir_args(rc, op, line)
        if args is None:
            return
        keep = sorted(self.pre_expected - ({k for k in op.get('ks', []) if isinstance(k, int)} if op['op'] == 'delete' else set()))
        dmg = {k for (nm, k) in self.pre_damaged if nm == rc.name}
        keep = [k for k in keep if k not in dmg]
        univ = [k for k in range(len(self.pool)) if k not in dmg]
        for kind in ('crash', 'power', 'fault'):
            out = self._ask(f'store safety {kind} {rc.name} {show_nats(keep)} {show_nats(univ)} {args}')
            self.res.bump('ir_safety_queries')
            if not out.endswith('unsafe=-'):
                self.res.diffs.append((self.step, 'ir.safety', f'{kind}: {out}', args, op['op']))

    def _cid_or(self, rc: RealCont, key: str) -> int:
        cid = rc.cid(key)
        return cid if cid is not None else 999999

    def _fail(self, prop: str, sig: str, text: str):
        self.res.failures.append((self.step, prop, sig, text))

    # ------------------------------------------------------------------ comparisons
    def _compare_state(self, rc: RealCont, post: Raw, op: dict):
        line = self._ask(f'store state {rc.name}')
        parts = dict(tok.split('=', 1) for tok in line.split(' '))
        pool = self.pool
        kind = op['op']
        # loose
        model_loose = {}
        if parts['loose'] != '-':
            for e in parts['loose'].split(','):
                k, c = e.split(':')
                model_loose[int(k)] = int(c)
        real_loose = {}
        for key, data in post.loose_bytes.items():
            kc = rc.cid(key)
            cc = pool.cid_of_bytes(data)
            real_loose[kc if kc is not None else f'?{key}'] = cc if cc is not None else f'?{len(data)}b'
        if model_loose != real_loose:
            self.res.diffs.append((self.step, 'state.loose', str(sorted(model_loose.items())), str(sorted(real_loose.items(), key=str)), kind))
        # rows
        model_rows = set()
        if parts['rows'] != '-':
            for e in parts['rows'].split(';'):
                i, k, p, o, l, z, s = e.split('.')
                model_rows.add((int(i), int(k), int(p), int(o), int(l), int(z), int(s)))
        real_rows = set()
        for (rid, hk, pack, off, length, comp, size) in post.rows:
            real_rows.add((rid, self._cid_or(rc, hk), pack, off, length, 1 if comp else 0, size))
        if {r[1] for r in model_rows} != {r[1] for r in real_rows} or len(model_rows) != len(real_rows):
            self.res.diffs.append((self.step, 'state.rowkeys', str(sorted(r[1] for r in model_rows)), str(sorted(r[1] for r in real_rows)), kind))
        if model_rows != real_rows:
            mr = {r[1:] for r in model_rows}
            rr = {r[1:] for r in real_rows}
            layer = 'state.rowids' if mr == rr else 'state.rows'
            self.res.diffs.append((self.step, layer, str(sorted(model_rows - real_rows)), str(sorted(real_rows - model_rows)), kind))
        # packs: the real bytes must be exactly the denotation of the model's segment lists
        model_packs = {}
        if parts['packs'] != '-':
            for e in parts['packs'].split('|'):
                pid, rest = e.split('[', 1)
                rest = rest[:-1]
                segs = []
                if rest:
                    for g in rest.split(';'):
                        c, z = g.split('.')
                        segs.append((int(c), z == '1'))
                model_packs[pid] = segs
        real_names = set(post.pack_names_valid())
        extra = sorted(set(post.pack_paths) - real_names - {n for n in post.pack_paths if n.endswith('.lock')})
        if set(model_packs) != real_names:
            self.res.diffs.append((self.step, 'state.packs', f'packs {sorted(model_packs)}', f'packs {sorted(real_names)}', kind))
        for pid, segs in model_packs.items():
            if pid not in post.pack_bytes:
                continue
            exp = b''.join(pool.zbytes(c, rc.cfg.level) if z else pool.contents[c] for c, z in segs)
            if exp != post.pack_bytes[pid]:
                self.res.diffs.append((self.step, 'state.packs', f'pack {pid}: {len(exp)} bytes = {segs}',
                                       f'pack {pid}: {len(post.pack_bytes[pid])} bytes differ', kind))
        stray = [n for n in post.pack_paths if n not in real_names]
        if stray or post.sandbox:
            self.res.diffs.append((self.step, 'state.stray', '-', f'packs/{stray} sandbox/{post.sandbox}', kind))
        self.res.bump('state_compares')

    def view_keys(self, rc: RealCont) -> list[int]:
        return list(range(len(self.pool)))

    def _compare_views(self, rc: RealCont, post: Raw, op: dict):
        c = rc.c
        ks = self.view_keys(rc)
        keys = [rc.key(k) for k in ks]
        kind = op['op']
        try:
            has = c.has_objects(keys)
            per = []
            single = {}
            for k, key, h in zip(ks, keys, has):
                try:
                    data = c.get_object_content(key)
                    g = self.pool.cid_of_bytes(data)
                    gs = str(g) if g is not None else f'?{len(data)}b'
                    single[k] = data
                except rc.dos.exceptions.NotExistent:
                    gs = 'x'
                    single[k] = None
                try:
                    m = c.get_object_meta(key)
                    if m['type'].value == 'packed':
                        ms = f"packed.{m['size']}.{m['pack_id']}.{m['pack_offset']}.{m['pack_length']}.{b01(m['pack_compressed'])}"
                    else:
                        ms = f"loose.{m['size']}"
                except rc.dos.exceptions.NotExistent:
                    ms = 'missing'
                per.append(f'{k}:{b01(h)}:{gs}:{ms}')
            listed = sorted(self._cid_or(rc, k) for k in set(c.list_all_objects()))
            cnt = c.count_objects()
            tot = c.get_total_size()
            val = c.validate()
            vs = '/'.join(show_nats(sorted(self._cid_or(rc, k) for k in getattr(val, f))) for f in
                          ('invalid_hashes_loose', 'invalid_hashes_packed', 'invalid_sizes_packed', 'overlapping_packed'))
            real = (f"keys={','.join(per) if per else '-'} list={show_nats(listed)} "
                    f"count={cnt['packed']}.{cnt['loose']}.{cnt['pack_files']} "
                    f"totals={tot['total_size_packed']}.{tot['total_size_packed_on_disk']}.{tot['total_size_packfiles_on_disk']}.{tot['total_size_loose']} "
                    f"validate={vs}")
        except Exception as exc:  # pylint: disable=broad-except
            real = f'raised={type(exc).__name__}:{exc}'
            single = {}
        model = self._ask(f'store views {rc.name} {show_nats(ks)}')
        self.res.bump('view_compares')
        if model != real:
            def split(view):
                d = dict(t.split('=', 1) for t in view.split(' '))
                out = {'list': d.get('list'), 'count': d.get('count'), 'totals': d.get('totals'), 'validate': d.get('validate')}
                cnt = (d.get('count') or '..').split('.')
                out['countobj'] = '.'.join(cnt[:2])
                has, get, mb, meta = [], [], [], []
                for ent in (d.get('keys') or '-').split(','):
                    f = ent.split(':')
                    if len(f) < 4:
                        continue
                    has.append(f'{f[0]}:{f[1]}')
                    get.append(f'{f[0]}:{f[2]}')
                    meta.append(f'{f[0]}:{f[3]}')
                    mb.append(f'{f[0]}:' + '.'.join(f[3].split('.')[:2]))
                out.update(has=','.join(has), get=','.join(get), meta=','.join(meta), metabasic=','.join(mb))
                return out
            mp = split(model)
            rp = split(real) if not real.startswith('raised') else {}
            for fld in ('has', 'get', 'metabasic', 'meta', 'list', 'countobj', 'count', 'totals', 'validate'):
                if mp.get(fld) != rp.get(fld):
                    self.res.diffs.append((self.step, 'views.' + fld, mp.get(fld), rp.get(fld, real[:300]), kind))
        # ---- direct oracle for C02 (plain map), independent of the model
        if real.startswith('raised'):
            self._fail('C02', 'view-raised', f'views raised after {kind}: {real[:200]}')
            return
        dmg = {k for (nm, k) in self.damaged if nm == rc.name}
        if dmg and not any(rc.key(k) in getattr(val, 'invalid_hashes_loose') for k in dmg if rc.key(k) in post.loose_bytes):
            self._fail('C12', 'false-negative-loose', f'validate() is clean although the loose file of cid {sorted(dmg)} was overwritten')
        if vs != '-/-/-/-' and not dmg:
            self._fail('C12', f'false-positive-{kind}', f'validate() reports {vs} on a state reached through the public operations')
        want_tot = (sum(r[6] for r in post.rows), sum(r[4] for r in post.rows),
                    sum(len(post.pack_bytes[n]) for n in post.pack_names_valid()), sum(len(b) for b in post.loose_bytes.values()))
        got_tot = (tot['total_size_packed'], tot['total_size_packed_on_disk'], tot['total_size_packfiles_on_disk'], tot['total_size_loose'])
        if want_tot != got_tot:
            self._fail('C10', f'totals-{kind}', f'get_total_size {got_tot} but the sums over index rows / files are {want_tot}')
        for k, key in zip(ks, keys):
            if k in rc.expected and k not in dmg:
                try:
                    m = c.get_object_meta(key)
                except Exception as exc:  # pylint: disable=broad-except
                    self._fail('C10', f'meta-raised-{kind}', f'get_object_meta(cid {k}) raised {type(exc).__name__}')
                    continue
                if m['size'] != self.pool.size(k):
                    self._fail('C10', f'meta-size-{kind}', f'cid {k}: recorded size {m["size"]}, content has {self.pool.size(k)} bytes')
                if m['type'].value == 'packed':
                    stored = len(self.pool.zbytes(k, rc.cfg.level)) if m['pack_compressed'] else self.pool.size(k)
                    if m['pack_length'] != stored and not m['pack_compressed']:
                        self._fail('C10', f'meta-length-{kind}', f'cid {k}: stored length {m["pack_length"]} but it occupies {stored} bytes')
        exp = rc.expected
        for k, key, h in zip(ks, keys, has):
            if k in dmg:
                continue
            if h != (k in exp):
                self._fail('C02', f'has-{kind}', f'has_object(cid {k}) = {h}, the plain map says {k in exp}')
            data = single.get(k)
            if k in exp and data != self.pool.contents[k]:
                self._fail('C02', f'get-{kind}', f'cid {k} reads back as {None if data is None else len(data)} bytes instead of its {self.pool.size(k)} bytes')
            if k not in exp and data is not None:
                self._fail('C02', f'get-absent-{kind}', f'cid {k} is not in the map but reads back {len(data)} bytes')
        if set(listed) != exp:
            self._fail('C02', f'list-{kind}', f'list_all_objects = {listed}, the plain map holds {sorted(exp)}')
        # bulk forms, with repeated and absent keys
        bogus = ['0' * len(keys[0])] if keys else []
        req = keys + keys[:2] + bogus
        try:
            bulk = c.get_objects_content(req, skip_if_missing=True)
            bulk_all = c.get_objects_content(req, skip_if_missing=False)
            metas_list = list(c.get_objects_meta(req, skip_if_missing=False))
            metas = dict(metas_list)
            with c.get_objects_stream_and_meta(req, skip_if_missing=True) as triplets:
                yielded = [k for k, _, _ in triplets]
            has_bulk = c.has_objects(req)
        except Exception as exc:  # pylint: disable=broad-except
            self._fail('C02', f'bulk-raised-{kind}', f'bulk read raised {type(exc).__name__}: {exc}')
            self._fail('C16', f'bulk-raised-{kind}', f'bulk read raised {type(exc).__name__}: {exc}')
            return
        # C16: each distinct key exactly once; bulk = per-key, whatever the thresholds
        mk = [k for k, _ in metas_list]
        if len(mk) != len(set(mk)) or set(mk) != set(req):
            self._fail('C16', f'bulk-once-meta-{kind}', f'get_objects_meta reported {len(mk)} entries for {len(set(req))} distinct keys ({len(mk) - len(set(mk))} repeated)')
        if len(yielded) != len(set(yielded)):
            self._fail('C16', f'bulk-once-stream-{kind}', f'get_objects_stream_and_meta yielded a key twice ({len(yielded)} items, {len(set(yielded))} distinct)')
        if not dmg:
            for key_, hb in zip(req, has_bulk):
                single_has = key_ in {keys[i] for i, k in enumerate(ks) if has[i]}
                if hb != single_has:
                    self._fail('C16', f'bulk-has-{kind}', 'has_objects on the bulk request differs from the per-key answer')
            for k, key in zip(ks, keys):
                if bulk_all.get(key) != single.get(k):
                    self._fail('C16', f'bulk-vs-single-{kind}', f'bulk content of cid {k} differs from the single-key read')
                if (key in bulk) != (single.get(k) is not None):
                    self._fail('C16', f'bulk-skip-{kind}', f'skip_if_missing handling of cid {k} differs from the single-key answer')
        exp_keys = {rc.key(k) for k in exp if k < len(self.pool)}
        if set(bulk) != exp_keys & set(req):
            self._fail('C02', f'bulk-keys-{kind}', 'bulk read (skip missing) returned a different key set than the map')
        if set(bulk_all) != set(req):
            self._fail('C02', f'bulk-all-keys-{kind}', 'bulk read (report missing) did not report each requested key once')
        for k, key in zip(ks, keys):
            if k in dmg:
                continue
            want = self.pool.contents[k] if k in exp else None
            if bulk_all.get(key) != want or (k in exp and bulk.get(key) != want):
                self._fail('C02', f'bulk-content-{kind}', f'bulk read of cid {k} differs from the map')
            m = metas.get(key)
            if m is None:
                self._fail('C02', f'bulk-meta-{kind}', f'metadata of cid {k} not reported')
            elif (m['type'].value != 'missing') != (k in exp) or (k in exp and m['size'] != self.pool.size(k)):
                self._fail('C02', f'bulk-meta-{kind}', f'metadata of cid {k}: {m["type"].value} size {m["size"]}')
        n_distinct = len(exp)
        if cnt['packed'] + cnt['loose'] < n_distinct or len({r[1] for r in post.rows} | set(post.loose_bytes)) != n_distinct:
            self._fail('C02', f'count-{kind}', f'counts {cnt} do not cover exactly the {n_distinct} keys of the map')

    # ------------------------------------------------------------------ direct oracles on raw data
    def _oracle_step(self, rc: RealCont, op: dict, pre: Raw, post: Raw, real_out: str):
        kind = op['op']
        # C03: raw consistency, manual recovery
        dmg = {k for (nm, k) in self.damaged if nm == rc.name} | ({op['k']} if kind == 'damage' else set())
        for p in post.consistency_problems():
            if dmg and p.startswith('loose file'):
                continue
            self._fail('C03', f'raw-{kind}', p)
        for k in sorted(rc.expected - dmg):
            key = rc.key(k)
            try:
                data = post.recover(key)
            except Exception as exc:  # pylint: disable=broad-except
                self._fail('C03', f'recover-{kind}', f'manual recovery of cid {k} failed: {exc}')
                continue
            if data is None:
                data = post.loose_bytes.get(key)
            if data != self.pool.contents[k]:
                self._fail('C03', f'recover-{kind}', f'manual recovery of cid {k} gives {None if data is None else len(data)} bytes')
        # C13: packs only grow at the end (histories without repack; delete does not touch packs)
        if kind not in ('repack', 'repackOne'):
            for name, old in pre.pack_bytes.items():
                new = post.pack_bytes.get(name)
                last_ref = max([r[3] + r[4] for r in pre.rows if str(r[2]) == name], default=0)
                if new is None:
                    if last_ref > 0 or kind not in ():
                        self._fail('C13', f'pack-vanished-{kind}', f'pack {name} disappeared')
                    continue
                if new[:last_ref] != old[:last_ref] or len(new) < last_ref:
                    self._fail('C13', f'pack-rewritten-{kind}', f'referenced bytes of pack {name} changed or were cut ({len(old)} -> {len(new)} bytes)')
        self._oracle_modes(rc, op, pre, post, real_out)
        # C09: multiplicities
        keys = [r[1] for r in post.rows]
        if len(keys) != len(set(keys)):
            self._fail('C09', f'row-twice-{kind}', 'a key has two index rows')
        if kind == 'addPacked' and op['no_holes'] and not real_out.startswith('raised'):
            tot_ref = {}
            for r in post.rows:
                tot_ref[str(r[2])] = tot_ref.get(str(r[2]), 0) + r[4]
            pre_ref = {}
            for r in pre.rows:
                pre_ref[str(r[2])] = pre_ref.get(str(r[2]), 0) + r[4]
            for name, data in post.pack_bytes.items():
                grown = len(data) - len(pre.pack_bytes.get(name, b''))
                newref = tot_ref.get(name, 0) - pre_ref.get(name, 0)
                if grown != newref:
                    self._fail('C09', 'noholes-junk', f'no_holes call grew pack {name} by {grown} bytes but references only {newref} new bytes')


def _oracle_modes(self, rc, op, pre, post, real_out):
    """direct oracles of C10 (modes), C11 (delete / repack compaction), C13 (numbering), C14 (import)"""
    kind = op['op']
    if real_out.startswith('raised'):
        # an operation of a fault-free history raised: a failing input for the map property and for the property that
        # specifies this very operation
        owners = {'delete': ['C11'], 'repack': ['C11', 'C10'], 'repackOne': ['C11', 'C10'], 'import': ['C14', 'C16'], 'packAll': ['C10', 'C16'],
                  'clean': ['C16'], 'addLoose': ['C01', 'C09'], 'addPacked': ['C01', 'C09', 'C13']}
        for prop in ['C02'] + owners.get(kind, []):
            self._fail(prop, f'op-raised-{kind}', f'{kind} raised: {real_out} ({json.dumps({k: v for k, v in op.items() if k in ("ks", "cs", "c", "mode", "p")})})')
        return
    pre_rows = {r[1]: r for r in pre.rows}
    post_rows = {r[1]: r for r in post.rows}
    if kind in ('packAll', 'repack', 'repackOne'):
        mode = _mode_name(op['mode'])
        affected = [k for k in post_rows if k not in pre_rows] if kind == 'packAll' else [k for k in post_rows if kind == 'repack' or post_rows[k][2] == op['p']]
        for k in affected:
            z = bool(post_rows[k][5])
            was = bool(pre_rows[k][5]) if k in pre_rows else False
            bad = (mode == 'yes' and not z) or (mode == 'no' and z) or (mode == 'keep' and z != was)
            if bad:
                self._fail('C10', f'mode-{kind}-{mode}', f'{kind}({mode}) left key {k[:10]} with compressed={z} (was {was})')
    if kind == 'delete':
        req = {rc.key(k) if isinstance(k, int) else k for k in op['ks']}
        existed = {k for k in req if k in pre_rows or k in pre.loose_bytes}
        got = real_out[len('deleted='):]
        want = show_nats(sorted(rc.cid(k) for k in existed))
        if got != want:
            self._fail('C11', 'delete-return', f'delete_objects returned cids {got}, the requested keys that existed are {want}')
        for k in req:
            if k in post_rows or k in post.loose_bytes:
                self._fail('C11', 'delete-left', f'key {k[:10]} still present after delete_objects')
        for k in set(pre_rows) | set(pre.loose_bytes):
            if k not in req and k not in post_rows and k not in post.loose_bytes:
                self._fail('C11', 'delete-extra', f'key {k[:10]} was not requested but is gone')
    if kind == 'repack':
        per = {}
        for r in post.rows:
            per.setdefault(str(r[2]), []).append(r)
        for name in post.pack_names_valid():
            rs = sorted(per.get(name, []), key=lambda r: (r[3], r[4]))
            if not rs:
                self._fail('C11', 'repack-empty-pack', f'pack {name} has no live object after a full repack but still exists')
                continue
            pos = 0
            for r in rs:
                if r[3] != pos:
                    self._fail('C11', 'repack-hole', f'pack {name}: unreferenced bytes before offset {r[3]} after a full repack')
                    break
                pos = r[3] + r[4]
            else:
                if pos != len(post.pack_bytes[name]):
                    self._fail('C11', 'repack-tail', f'pack {name}: {len(post.pack_bytes[name]) - pos} unreferenced bytes at the end after a full repack')
    if getattr(self, 'numbering', False) and kind not in ('repack', 'repackOne'):
        ids = sorted(int(n) for n in post.pack_names_valid())
        if ids != list(range(len(ids))):
            self._fail('C13', f'numbering-{kind}', f'pack files {ids} are not numbered consecutively from zero')
        for i in ids[:-1]:
            if len(post.pack_bytes[str(i)]) < rc.cfg.target:
                self._fail('C13', f'not-full-{kind}', f'pack {i} has {len(post.pack_bytes[str(i)])} bytes < target {rc.cfg.target} but pack {ids[-1]} exists')
        for name, old in pre.pack_bytes.items():
            new = post.pack_bytes.get(name)
            if new is not None and new != old and len(old) >= rc.cfg.target and name in pre.pack_names_valid():
                # a full pack may only have been full *after* its last write
                last_before = max([r[3] for r in pre.rows if str(r[2]) == name] + [0])
                if last_before >= rc.cfg.target or len(old) >= rc.cfg.target and new[:len(old)] == old and len(new) > len(old):
                    self._fail('C13', f'full-written-{kind}', f'pack {name} had reached the target ({len(old)} >= {rc.cfg.target}) and was written again')
    if kind == 'delete':
        req = {rc.key(k) if isinstance(k, int) else k for k in op['ks']}
        left = [d for d in post.duplicates if d.partition('.')[0] in req]
        if left:
            self._fail('C11', 'delete-duplicate-left', f'delete_objects left the stray duplicate file {left[0][:18]}… of a deleted key')
        gone = [d for d in pre.duplicates if d.partition('.')[0] not in req and d not in post.duplicates]
        if gone:
            self._fail('C11', 'delete-duplicate-extra', f'delete_objects removed the duplicate {gone[0][:18]}… of a key that was not requested')
    if kind in ('delete', 'repack', 'repackOne'):
        # every other object is still there, readable with only the index, a slice and zlib
        gone_req = {rc.key(k) if isinstance(k, int) else k for k in op.get('ks', [])} if kind == 'delete' else set()
        for k in sorted(self.pre_expected):
            dk = rc.key(k)
            if dk in gone_req or (rc.name, k) in self.pre_damaged:
                continue
            try:
                data = post.recover(dk)
            except Exception as exc:  # pylint: disable=broad-except
                data = f'{type(exc).__name__}: {str(exc)[:60]}'
            if data is None:
                data = post.loose_bytes.get(dk)
            if data != self.pool.contents[k]:
                what = 'is gone' if data is None else (f'cannot be recovered ({data})' if isinstance(data, str) else f'reads as {len(data)} other bytes')
                self._fail('C11', f'{kind}-lost', f'after {kind}, object cid {k} ({self.pool.size(k)} bytes), which was not deleted, {what}')
                break
    if kind == 'clean':
        if post.duplicates:
            self._fail('C11', 'clean-duplicate-left', f'clean_storage left {len(post.duplicates)} stray duplicate files of existing objects')
        # cleaning = the single-key rule applied to every key: a loose file whose object is packed is removed, others stay
        left = [k for k in post.loose_bytes if k in post_rows]
        if left:
            self._fail('C16', 'bulk-clean-left', f'clean_storage left {len(left)} of {len([k for k in pre.loose_bytes if k in pre_rows])} '
                                                 f'loose files whose objects are packed (e.g. key {left[0][:10]})')
        gone = [k for k in pre.loose_bytes if k not in pre_rows and k not in post.loose_bytes]
        if gone:
            self._fail('C16', 'bulk-clean-extra', f'clean_storage removed the loose file of key {gone[0][:10]}, which is not packed')
    if kind == 'packAll':
        left = [k for k in post.loose_bytes if k not in post_rows and (rc.name, rc.cid(k)) not in self.damaged]
        if left:
            self._fail('C16', 'bulk-pack-left', f'pack_all_loose left {len(left)} loose objects unpacked (e.g. key {left[0][:10]})')
    if kind == 'import':
        src = self.conts[op['src']]
        grown = sum(len(b) for b in post.pack_bytes.values()) - sum(len(b) for b in pre.pack_bytes.values())
        newref = sum(r[4] for k, r in post_rows.items() if k not in pre_rows)
        if grown != newref:
            self._fail('C14', 'import-junk', f'import grew the packs by {grown} bytes but indexed {newref} new bytes')
        for k, r in pre_rows.items():
            if post_rows.get(k) != r:
                self._fail('C14', 'import-touched', f'index row of key {k[:10]} changed during import')
        wrong_flag = [r for k_, r in post_rows.items() if k_ not in pre_rows and bool(r[5]) != bool(op['compress'])]
        if wrong_flag:
            for prop_ in ('C10', 'C14'):
                self._fail(prop_, 'import-compress-flag', f'import_objects(compress={op["compress"]}) stored {len(wrong_flag)} of '
                                                          f'{len([1 for k_ in post_rows if k_ not in pre_rows])} new objects with compressed={bool(wrong_flag[0][5])}')
        same = src.cfg.hash_type == rc.cfg.hash_type
        for k in op['ks']:
            if not (isinstance(k, int) and k in src.expected) or (rc.name, k) in self.pre_damaged:
                continue
            dk = rc.key(k)
            # every requested object that the source holds is in the destination, with its bytes
            if dk not in post_rows and dk not in post.loose_bytes:
                for prop_ in ('C14', 'C02'):
                    self._fail(prop_, 'import-missing', f'object cid {k} ({self.pool.size(k)} bytes) was requested and is held by the source, '
                                                        'but is not in the destination after the import')
            elif dk in post_rows and dk not in pre_rows:
                try:
                    got = post.recover(dk)
                except Exception:  # pylint: disable=broad-except
                    got = None
                if got != self.pool.contents[k]:
                    self._fail('C14', 'import-bytes', f'object cid {k} was imported with bytes that are not its content')
            # what the destination already held is not written again (same hash algorithm) / gains no second entry
            if same and (dk in pre.loose_bytes or dk in pre_rows) and dk in post_rows and dk not in pre_rows:
                self._fail('C14', 'import-rewritten', f'object cid {k} was already in the destination (loose) and was written to a pack again '
                                                      'although both containers use the same hash algorithm')


Runner._oracle_modes = _oracle_modes


def default_cfg(rng, small_target_prob=0.6) -> Cfg:
    cfg = Cfg()
    cfg.hash_type = rng.choice(['sha256', 'sha1'])
    cfg.prefix_len = rng.choice([0, 1, 2, 2, 3])
    cfg.level = rng.choice([1, 1, 3, 6, 9, rng.randint(1, 9)])
    if rng.random() < small_target_prob:
        cfg.target = rng.choice([1, 40, 150, 600, 3000])
    return cfg
