"""Crash points, power-loss images and single faults on the real implementation (C05, C06, C17).

A case = a prepared container (a short seeded history run through harness/store.Runner, so the Lean model knows the
state) + one target operation.  The operation is executed in forked children on copies of the prepared folder:
  * once with a recording tracer  -> the real I/O trace is compared with the model's action list (`store acts`);
  * once per I/O boundary k with the hook killing the child there (os._exit: no cleanup, user-space buffers lost);
    the folder left behind is compared with the model's `crashImg` and examined by the direct oracle (raw reader and
    a fresh Container);  from the fsync log of the same run the power-loss image is built (every regular file cut back
    to the size it had at its last fsync) and examined in the same way (`powerImg`);
  * once per boundary with the hook raising OSError / OperationalError there; afterwards the folder is compared with
    `runFault`, examined by the oracle, stale lock files are removed and the operation is run again on a fresh handle.
"""
from __future__ import annotations

import errno
import json
import os
import random
import shutil
import traceback

from . import common, gen, iotrace, store, store_check
from .rawstate import Raw

IR_OPS = ('addLoose', 'addPacked', 'packAll', 'clean', 'delete', 'repackOne')


def _copy(src, dst):
    shutil.copytree(src, dst, symlinks=True)


def _run_op_child(folder, cfg, pool, op, mode, k, log_path, out_path, src=None):
    """forked child: open a handle on `folder`, run `op` with the tracer; mode: 'trace' | 'crash' | 'fault'"""
    pid = os.fork()
    if pid:
        _, status = os.waitpid(pid, 0)
        return status
    code = 0
    try:
        dos = common.import_repo()
        log_fd = os.open(log_path, os.O_WRONLY | os.O_CREAT | os.O_TRUNC, 0o600)

        class Injected(OSError):
            pass

        def hook(idx, ev):
            if idx != k:
                return
            if mode == 'crash':
                os._exit(9)
            if mode == 'fault':
                os.write(log_fd, (json.dumps(['fault', idx] + list(ev)) + '\n').encode())
                if ev[0] in ('sql', 'commit'):
                    import sqlalchemy.exc  # pylint: disable=import-outside-toplevel

                    raise sqlalchemy.exc.OperationalError('injected', None, Exception('disk I/O error'))
                if op.get('fault_errno') == 'EACCES':
                    raise PermissionError(errno.EACCES, 'injected permission error')
                raise OSError(errno.EIO, 'injected I/O error')

        rc = store.RealCont.__new__(store.RealCont)
        rc.dos, rc.name, rc.folder, rc.cfg, rc.pool = dos, 'a', folder, cfg, pool
        rc.c = dos.Container(folder)
        rc._tune()  # pylint: disable=protected-access
        rc.expected = set()
        # pre-existing regular files are durable: record their sizes as synced
        for base, _dirs, files in os.walk(folder):
            for fn in files:
                st = os.stat(os.path.join(base, fn))
                os.write(log_fd, (json.dumps(['sync', st.st_ino, st.st_size]) + '\n').encode())
        runner = store.Runner.__new__(store.Runner)
        runner.pool, runner.scratch, runner.step = pool, os.path.dirname(folder), 0
        runner.res = store.CaseResult(case={})
        runner.conts = {'a': rc}
        if src is not None:
            src_folder, src_cfg, src_expected = src
            rb = store.RealCont.__new__(store.RealCont)
            rb.dos, rb.name, rb.folder, rb.cfg, rb.pool = dos, 'b', src_folder, src_cfg, pool
            rb.c = dos.Container(src_folder)
            rb.expected = set(src_expected)
            runner.conts['b'] = rb
        runner.damaged = set()
        tracer = iotrace.Tracer(folder, hook=hook, log_fd=log_fd).install()
        try:
            out = runner._real(rc, op)  # pylint: disable=protected-access
        finally:
            tracer.uninstall()
        rc.close()
        for other in runner.conts.values():
            other.close()
        with open(out_path, 'w') as fh:
            json.dump({'out': out, 'n': len(tracer.events), 'failures': runner.res.failures}, fh)
    except BaseException:  # pylint: disable=broad-except
        try:
            with open(out_path, 'w') as fh:
                json.dump({'out': 'child-exception', 'trace': traceback.format_exc()[-1500:]}, fh)
        except Exception:  # pylint: disable=broad-except
            pass
        code = 3
    os._exit(code)


def _norm(evs):
    """event lists up to the random names of sandbox files"""
    return [tuple('sandbox/*' if isinstance(x, str) and x.startswith('sandbox/') else x for x in e) for e in evs]


def read_log(log_path):
    events, syncs, fault = [], {}, None
    if not os.path.exists(log_path):
        return events, syncs, fault
    for line in open(log_path):
        try:
            rec = json.loads(line)
        except ValueError:
            continue
        if rec[0] == 'ev':
            events.append(tuple(rec[2:]))
        elif rec[0] == 'sync':
            syncs[rec[1]] = rec[2]
        elif rec[0] == 'fault':
            fault = rec[1]
    return events, syncs, fault


def power_image(folder, syncs):
    """every regular data file holds only what it held at its last fsync (nothing if never synced); the index keeps
    its committed transactions; directory entries survive"""
    for area in ('loose', 'packs', 'sandbox', 'duplicates'):
        for base, _dirs, files in os.walk(os.path.join(folder, area)):
            for fn in files:
                p = os.path.join(base, fn)
                st = os.stat(p)
                size = min(syncs.get(st.st_ino, 0), st.st_size)
                if size != st.st_size:
                    with open(p, 'r+b') as fh:
                        fh.truncate(size)


def parse_state(line: str):
    parts = dict(tok.split('=', 1) for tok in line.split(' '))
    loose = {}
    if parts['loose'] != '-':
        for e in parts['loose'].split(','):
            k, c = e.split(':')
            loose[int(k)] = int(c)
    rows = set()
    if parts['rows'] != '-':
        for e in parts['rows'].split(';'):
            i, k, p, o, l, z, s = e.split('.')
            rows.add((int(i), int(k), int(p), int(o), int(l), int(z), int(s)))
    packs = {}
    if parts['packs'] != '-':
        for e in parts['packs'].split('|'):
            pid, rest = e.split('[', 1)
            rest = rest[:-1]
            packs[int(pid)] = [(int(g.split('.')[0]), g.split('.')[1] == '1') for g in rest.split(';')] if rest else []
    locks = [int(x) for x in parts.get('locks', '-').split(',')] if parts.get('locks', '-') != '-' else []
    return loose, rows, packs, locks


def seg_bytes(pool, level, segs):
    return b''.join(pool.zbytes(c, level) if z else pool.contents[c] for c, z in segs)


class Lab:
    def __init__(self, prop: str, case_id: int, parts: tuple, max_points: int, focus: str = ''):
        self.focus = focus
        self.prop = prop
        self.case_id = case_id
        self.parts = parts
        self.max_points = max_points
        self.failures: list = []
        self.breaks: list = []
        self.stats: dict = {}
        self.sample = None

    def bump(self, k, n=1):
        self.stats[k] = self.stats.get(k, 0) + n

    # ------------------------------------------------------------------
    def run(self):
        rng = common.rng_for(self.prop, 'lab' + self.focus, self.case_id)
        cfg = store.default_cfg(rng, 0.7)
        if self.focus in ('import', 'packall'):
            cfg.target = rng.choice([1, 40, 150, 600])
        from .content import Pool  # pylint: disable=import-outside-toplevel

        if self.focus == 'bigpack':
            # more than a thousand loose objects packed by one call (the index is written in pages of 1000 elsewhere in the code)
            pool = Pool(rng, 1040, 'tiny', level=cfg.level, fixed=[b''])
            cfg.target = 4 * 1024 ** 3
        else:
            pool = Pool(rng, 8, rng.choice(['tiny', 'small']), level=cfg.level, fixed=[b''] if rng.random() < 0.5 else None)
        scratch = common.mkscratch(self.prop)
        res = store.CaseResult(case={'prop': self.prop, 'case_id': self.case_id, 'cfg': cfg.as_dict()})
        drv = common.Driver()
        runner = None
        try:
            want_import = rng.random() < 0.3 or self.focus == 'import'
            cfgs = {'a': cfg}
            if want_import:
                cfgs['b'] = store.default_cfg(rng, 0.5)
            runner = store.Runner(drv, pool, cfgs, scratch, res, check_views=False)
            runner.check_trace = True
            weights = {'addLoose': 30, 'addPacked': 22, 'packAll': 10, 'delete': 6, 'clean': 4, 'repackOne': 3, 'loosen': 3}
            for _ in range(rng.randint(2, 9)):
                op = gen.next_op(rng, runner, weights=weights)
                for one in (op if isinstance(op, list) else [op]):
                    if one['op'] == 'import':
                        continue
                    runner.apply(one)
            target_w = {'addLoose': 12, 'addPacked': 30, 'packAll': 22, 'clean': 6, 'delete': 10, 'repackOne': 16, 'repack': 8}
            op = gen.next_op(rng, runner, weights=target_w, allow=set(target_w))
            if isinstance(op, list):
                op = op[-1]
            op['on'] = 'a'
            if self.focus == 'packall':
                # several loose objects, a small pack target: one pack_all_loose call that fills several packs, cleaning after each
                for c_ in rng.sample(range(len(pool)), rng.randint(3, len(pool))):
                    runner.apply({'op': 'addLoose', 'on': 'a', 'c': c_, 'via': 'bytes'})
                op = {'op': 'packAll', 'on': 'a', 'mode': rng.choice(store.MODES + [True, False]), 'validate': rng.random() < 0.7,
                      'clean': rng.random() < 0.75}
            if want_import:
                srcc = runner.conts['b']
                # make sure the source holds enough objects for an import that flushes its cache several times
                more = [c_ for c_ in rng.sample(range(len(pool)), rng.randint(3, len(pool))) if c_ not in srcc.expected]
                if more:
                    runner.apply({'op': 'addPacked', 'on': 'b', 'cs': more, 'compress': rng.random() < 0.5, 'no_holes': False,
                                  'read_twice': False, 'via': 'bytes', 'short': 64})
                have = sorted(srcc.expected)
                dest_rows = {runner.conts['a'].cid(r[1]) for r in runner.conts['a'].raw().rows}
                same = srcc.cfg.hash_type == cfg.hash_type
                cand = [x for x in have if same or x not in dest_rows]
                if cand:
                    ks = rng.sample(cand, min(len(cand), rng.randint(1, 8)))
                    sizes = sorted(pool.size(x) for x in ks)
                    # budgets: everything streamed one by one / about two or three cache flushes / one single flush
                    op = {'op': 'import', 'on': 'a', 'src': 'b', 'ks': ks, 'compress': rng.random() < 0.5, 'iter': 'list', 'callback': False,
                          'budget': rng.choice([1, sizes[len(sizes) // 2] + 1, sizes[-1] + 1, sum(sizes) // 2 + 1, sum(sizes) // 3 + 1, 104857600])}
            if op['op'] in ('addPacked', 'import', 'packAll') and 'power' not in self.parts and rng.random() < 0.5:
                op['do_fsync'] = False
                if op['op'] == 'addPacked' and rng.random() < 0.7:
                    op['no_holes'] = False  # (the final truncate() of no_holes flushes the buffer)
            if op['op'] == 'addPacked' and op.get('via') in ('single', 'midstream', 'lazy', 'nested'):
                op['via'] = 'bytes'
            if op['op'] == 'reopen':
                op = {'op': 'addLoose', 'on': 'a', 'c': rng.randrange(len(pool)), 'via': 'bytes'}
            if self.focus == 'bigpack':
                rca = runner.conts['a']
                todo = [c_ for c_ in range(len(pool)) if c_ not in rca.expected][:1015]
                for c_ in todo:
                    rca.c.add_object(pool.contents[c_])
                    rca.expected.add(c_)
                    runner._ask(f'store op a addLoose {c_}')  # pylint: disable=protected-access
                op = {'op': 'packAll', 'on': 'a', 'mode': rng.choice(['no', 'yes']), 'validate': False, 'clean': rng.random() < 0.5}
            if self.focus == 'delete':
                # a deletion that hits every storage form: loose only, packed only, both, and a key that is not there
                rca = runner.conts['a']
                raw_ = rca.raw()
                loose_c = [rca.cid(k_) for k_ in raw_.loose_bytes if rca.cid(k_) is not None]
                packed_c = [rca.cid(r_[1]) for r_ in raw_.rows if rca.cid(r_[1]) is not None]
                ks_ = rng.sample(loose_c, min(len(loose_c), 2)) + rng.sample(packed_c, min(len(packed_c), 2))
                absent = [c_ for c_ in range(len(pool)) if c_ not in rca.expected]
                if absent and rng.random() < 0.5:
                    ks_.append(rng.choice(absent))
                rng.shuffle(ks_)
                if ks_:
                    op = {'op': 'delete', 'on': 'a', 'ks': ks_}
            if self.focus == 'noholes':
                # direct-to-pack with no_holes and a single pass: known objects (rewound and truncated away) mixed with new ones
                known = sorted(runner.conts['a'].cid(r[1]) for r in runner.conts['a'].raw().rows if runner.conts['a'].cid(r[1]) is not None)
                newc = [c_ for c_ in range(len(pool)) if c_ not in runner.conts['a'].expected]
                cs_ = rng.sample(known, min(len(known), rng.randint(1, 3))) + rng.sample(newc, min(len(newc), rng.randint(1, 3)))
                rng.shuffle(cs_)
                if cs_:
                    op = {'op': 'addPacked', 'on': 'a', 'cs': cs_, 'compress': rng.random() < 0.5, 'no_holes': True, 'read_twice': rng.random() < 0.25,
                          'via': 'bytes', 'short': 64}
            if 'fault' in self.parts and (self.focus == 'read' or (self.focus == '' and rng.random() < 0.1)):
                op = {'op': 'read', 'on': 'a', 'style': rng.choice(['content', 'content_skip', 'meta', 'has', 'list', 'single', 'streams']),
                      'ks': rng.sample(range(len(pool)), len(pool))}
            rc = runner.conts['a']
            self.src = None
            if op['op'] == 'import':
                sb = runner.conts['b']
                sb.close()
                self.src = (sb.folder, sb.cfg, set(sb.expected))
            if any(d for d in res.diffs):
                d = res.diffs[0]
                self.breaks.append({'where': f'{d[1]} after {d[4]} while preparing the scenario', 'model': str(d[2])[:300], 'real': str(d[3])[:300],
                                    'theorem_or_correspondence': 'Level-B/Level-C model vs Container', 'case': res.case})
                if any(d[1] != 'trace' for d in res.diffs):
                    return  # the model lost track of the state: nothing more can be compared
                # only the order of I/O calls differs: the states still agree, so the search for a failing input goes on
            self.stats['traces_compared'] = res.stats.get('traces_compared', 0)
            rc.close()
            # every child opens a fresh handle (no cached pack id): tell the model
            runner._ask('store op a reopen')  # pylint: disable=protected-access
            if op['op'] == 'read':
                self._target_read(rc, cfg, pool, scratch, op)
            else:
                self._target(rng, runner, rc, cfg, pool, scratch, op)
        finally:
            if runner is not None:
                runner.close()
            drv.close()
            common.rmscratch(scratch)

    # ------------------------------------------------------------------
    def _target(self, rng, runner, rc, cfg, pool, scratch, op):
        base = rc.folder
        kind = op['op']
        self.bump('target.' + kind)
        keep = sorted(rc.expected - ({k for k in op.get('ks', []) if isinstance(k, int)} if kind == 'delete' else set()))
        univ = list(range(len(pool)))
        pre = Raw(base)
        # ---- traced run on a copy: the real event list, the choices, the model's action list
        tdir = os.path.join(scratch, 'trace')
        _copy(base, tdir)
        _run_op_child(tdir, cfg, pool, op, 'trace', -1, os.path.join(scratch, 'trace.log'), os.path.join(scratch, 'trace.out'), self.src)
        try:
            out = json.load(open(os.path.join(scratch, 'trace.out')))
        except Exception:  # pylint: disable=broad-except
            self.breaks.append({'where': 'traced run produced no result', 'model': '', 'real': '', 'theorem_or_correspondence': 'harness', 'case': {'op': op}})
            return
        if out['out'].startswith(('raised', 'child-exception')):
            self.failures.append({'signature': f'op-raised-{kind}', 'text': f'{kind} raised in a fault-free run: {out}', 'replay': self._replay(op)})
            return
        events, _syncs, _ = read_log(os.path.join(scratch, 'trace.log'))
        self.clean_out = str(out.get('out', ''))
        post = Raw(tdir)
        fake_rc = rc
        line = runner._model_line(fake_rc, op, pre, post)  # pylint: disable=protected-access
        cid_of = lambda k: runner._cid_or(rc, k)  # noqa: E731  pylint: disable=protected-access
        row_keys = {r[1] for r in pre.rows}
        real_toks, owner = iotrace.canon(events, cid_of, row_keys)
        if kind == 'clean':
            order = [int(t.split(':')[1]) for t in real_toks if t.startswith('looseUnlink:')]
            args = f'clean {store.show_nats(order)}'
        elif kind == 'import':
            # the calls import_objects made: one per session of the trace, each with as many objects as rows it inserted
            pre_keys = {r[1] for r in pre.rows}
            new = [r for r in post.rows if r[1] not in pre_keys]
            written = []
            for p_ in sorted({r[2] for r in new}):
                written += [cid_of(r[1]) for r in store.rows_sorted_for_order([r for r in new if r[2] == p_])]
            calls, pos = [], 0
            for ev in events:
                if ev[0] == 'sql' and ev[1] == 'INSERT':
                    calls.append(written[pos:pos + ev[2]])
                    pos += ev[2]
            same = self.src[1].hash_type == cfg.hash_type
            nh = 0 if same else 1
            args = (f'import {store.b01(op["compress"])} {nh} {nh} {0 if op.get("do_fsync") is False else 1} '
                    + ('|'.join(store.show_nats(c_) for c_ in calls) if calls else '-'))
        elif kind == 'repack':
            seen = []
            for t_ in real_toks:
                if t_.startswith(('pkRead:', 'pkUnlink:')):
                    p_ = int(t_.split(':')[1])
                    if p_ not in seen and p_ != iotrace.TMP:
                        seen.append(p_)
            zs_of = {}
            for part in (line.split(' ')[5].split('|') if line.split(' ')[5] != '-' else []):
                p_, _o, z_ = part.split(':')
                zs_of[int(p_)] = z_
            args = 'repackAll ' + ('|'.join(f'{p_}:{zs_of.get(p_, "-")}' for p_ in seen) if seen else '-')
        else:
            args = runner.ir_args(rc, op, line)
        ans = runner._ask(f'store acts a {args}')  # pylint: disable=protected-access
        acts, _, lens = ans.partition(' | ')
        lengths = [int(x) for x in lens.split(',')] if lens.strip() not in ('-', '') else []
        sb_size = pool.size(op['c']) if kind == 'addLoose' else None
        model_toks, idx_map = iotrace.canon_model(acts.strip(), lengths, sb_size)
        self.bump('traces_compared')
        if model_toks != real_toks:
            i = 0
            while i < min(len(model_toks), len(real_toks)) and model_toks[i] == real_toks[i]:
                i += 1
            self.breaks.append({'where': f'I/O trace of {kind} at action {i}', 'model': ' '.join(model_toks[max(0, i - 3):i + 4]),
                                'real': ' '.join(real_toks[max(0, i - 3):i + 4]),
                                'theorem_or_correspondence': 'Dos.IO action list vs traced I/O of the implementation', 'case': {'op': op, 'cfg': cfg.as_dict()}})
            self.trace_ok = False
        else:
            self.trace_ok = True
        n_model = len(idx_map)
        n = len(events)
        self.sample = {'op': {k: v for k, v in op.items()}, 'cfg': cfg.as_dict(), 'raw_events': n, 'model_actions': n_model, 'tokens': real_toks[:40]}
        points = list(range(n + 1))
        if len(points) > self.max_points:
            # always: the boundaries right after the calls that publish or remove something (commits, renames, links, unlinks,
            # truncations, fsyncs), then a random sample of the rest
            hot = [i + 1 for i, ev in enumerate(events) if ev and ev[0] in ('commit', 'rename', 'replace', 'remove', 'unlink', 'link', 'truncate', 'fsync')]
            if len(hot) > self.max_points // 2:
                hot = hot[:self.max_points // 4] + rng.sample(hot[self.max_points // 4:], self.max_points // 4)
            keep_pts = {0, n} | set(hot)
            rest = [x for x in points if x not in keep_pts]
            keep_pts |= set(rng.sample(rest, max(0, min(len(rest), self.max_points - len(keep_pts)))))
            points = sorted(keep_pts)
        # the model is now told to perform the operation too (needed for the rerun expectation)
        expected_after = set(rc.expected)
        if kind == 'addLoose':
            expected_after.add(op['c'])
        elif kind == 'addPacked':
            expected_after.update(op['cs'])
        elif kind == 'delete':
            expected_after.difference_update(k for k in op['ks'] if isinstance(k, int))
        elif kind == 'import':
            expected_after.update(k for k in op['ks'] if k in self.src[2])

        self.acts_list = acts.strip().split(' ') if acts.strip() != '-' else []

        def model_prefix(k):
            """number of model actions completed before raw event k: an action counts once every raw event of its token ran"""
            complete = set()
            for t_i in set(o for o in owner if o is not None):
                idxs = [i for i, o in enumerate(owner) if o == t_i]
                if idxs and idxs[-1] < k:
                    complete.add(t_i)
            j = 0
            for a_i, tok_i in enumerate(idx_map):
                if tok_i is None or tok_i in complete:
                    j = a_i + 1
                else:
                    break
            return j

        for k in points:
            if 'crash' in self.parts or 'power' in self.parts:
                # once the operation has returned (k == n) everything it stored must survive as well
                keep_k = sorted(expected_after) if k >= n and kind != 'delete' else keep
                self._crash_point(runner, rc, cfg, pool, scratch, op, args, k, events, keep_k, univ, model_prefix, kind, expected_after)
            if 'fault' in self.parts and k < n:
                if n <= 16:
                    # short operations (delete, clean, small adds): both kinds of error at every call
                    for ea in (False, True):
                        self._fault_point(runner, rc, cfg, pool, scratch, op, args, k, events, keep, univ, model_prefix, kind, expected_after, ea)
                else:
                    self._fault_point(runner, rc, cfg, pool, scratch, op, args, k, events, keep, univ, model_prefix, kind, expected_after)

    def _target_read(self, rc, cfg, pool, scratch, op):
        """a read-type operation with one failing I/O call: it raises, or it answers as if nothing had failed (C17)"""
        self.bump('target.read')
        self.bump('target.read.' + op['style'])
        self.src = None
        univ = list(range(len(pool)))
        keep = sorted(rc.expected)
        tdir = os.path.join(scratch, 'trace')
        _copy(rc.folder, tdir)
        _run_op_child(tdir, cfg, pool, op, 'trace', -1, os.path.join(scratch, 'trace.log'), os.path.join(scratch, 'trace.out'), None)
        try:
            out = json.load(open(os.path.join(scratch, 'trace.out')))
        except Exception:  # pylint: disable=broad-except
            self.breaks.append({'where': 'traced read produced no result', 'model': '', 'real': '', 'theorem_or_correspondence': 'harness', 'case': {'op': op}})
            return
        want = str(out.get('out', ''))
        if not want.startswith('read='):
            self.failures.append({'signature': 'read-raised', 'text': f'{op["style"]} read raised in a fault-free run: {want[:200]}', 'replay': self._replay(op)})
            return
        # the fault-free answer itself against the plain map
        ans = json.loads(want[5:])
        if op['style'] != 'list':
            for k in op['ks']:
                got = ans.get(str(k))
                present = got is not None and got is not False
                if present != (k in rc.expected) and not (op['style'] == 'content_skip' and k not in rc.expected):
                    self.failures.append({'signature': 'read-wrong', 'text': f'{op["style"]} read reports cid {k} as {got}, the map says {"present" if k in rc.expected else "absent"}',
                                          'replay': self._replay(op)})
                    return
        events, _s, _f = read_log(os.path.join(scratch, 'trace.log'))
        n = len(events)
        self.sample = {'op': dict(op), 'cfg': cfg.as_dict(), 'raw_events': n, 'tokens': [str(e[:2]) for e in events[:30]]}
        points = list(range(n))
        if len(points) > self.max_points:
            points = sorted(random.Random(self.case_id).sample(points, self.max_points))
        for k in points:
            d = os.path.join(scratch, f'fault{k}')
            _copy(rc.folder, d)
            outp = os.path.join(scratch, f'fault{k}.out')
            _run_op_child(d, cfg, pool, op, 'fault', k, os.path.join(scratch, f'fault{k}.log'), outp, None)
            self.bump('fault_points')
            try:
                o = json.load(open(outp))
            except Exception:  # pylint: disable=broad-except
                o = {'out': 'child-died'}
            got = str(o.get('out', ''))
            label = f'I/O call #{k} {events[k][:2]} of a {op["style"]} read failed'
            if got.startswith('raised') or got.startswith('child'):
                self.bump('fault_outcome.raised')
            else:
                self.bump('fault_outcome.completed')
                if got != want:
                    a, b = json.loads(got[5:]), ans
                    bad = [kk for kk in sorted(set(a) | set(b)) if a.get(kk) != b.get(kk)]
                    self.failures.append({'signature': f'fault-read-{op["style"]}',
                                          'text': f'{label}: the call returned normally but answers differently from a fault-free run for {bad[:4]} '
                                                  f'(e.g. {bad[0]}: {a.get(bad[0])} instead of {b.get(bad[0])})' if bad else f'{label}: different answer',
                                          'replay': self._replay(op, k, 'fault-read')})
            probs = self._oracle(d, pool, cfg, set(keep), univ, False, label)
            for p in probs[:1]:
                self.failures.append({'signature': 'fault-read-store', 'text': p, 'replay': self._replay(op, k, 'fault-read')})
            shutil.rmtree(d, ignore_errors=True)

    def _replay(self, op, k=None, what=None):
        return {'kind': 'lab', 'prop': self.prop, 'case_id': self.case_id, 'parts': list(self.parts), 'focus': self.focus, 'op': op, 'point': k, 'what': what,
                'seed': common.seed()}

    # ------------------------------------------------------------------ oracle on a folder left behind
    def _oracle(self, folder, pool, cfg, keep, univ, allow_loud, label):
        """fresh handle: every key of `keep` reads as itself, no key reads as anything else"""
        dos = common.import_repo()
        probs = []
        c = dos.Container(folder)
        try:
            for cid in univ:
                key = pool.key(cid, cfg.hash_type)
                try:
                    data = c.get_object_content(key)
                except dos.exceptions.NotExistent:
                    if cid in keep:
                        probs.append(f'{label}: object cid {cid} ({pool.size(cid)} bytes), stored before the operation, is gone')
                    continue
                except AssertionError as exc:
                    if 'Invalid pack ID -1' in str(exc) and allow_loud:
                        # the one tolerated loud failure: an interrupted repack left the index pointing at the temporary pack;
                        # the bytes must then be there ("exactly where the index says")
                        if cid in keep:
                            try:
                                there = Raw(folder).recover(key) == pool.contents[cid]
                            except Exception:  # pylint: disable=broad-except
                                there = False
                            if not there:
                                probs.append(f'{label}: object cid {cid} is indexed in the temporary pack -1, but its bytes are not there')
                        continue
                    probs.append(f'{label}: reading cid {cid} failed with AssertionError {str(exc)[:80]}')
                    continue
                except Exception as exc:  # pylint: disable=broad-except
                    probs.append(f'{label}: reading cid {cid} failed with {type(exc).__name__}: {str(exc)[:80]}')
                    continue
                if data != pool.contents[cid]:
                    probs.append(f'{label}: cid {cid} reads back as {len(data)} bytes that are not its content ({pool.size(cid)} bytes)')
        finally:
            c.close()
        return probs

    def later_writes(self, j, pid, pool, cfg):
        """bytes of everything the operation writes to pack `pid` from model action j on"""
        out = b''
        for a in self.acts_list[j:]:
            if a.startswith('pkWrite:'):
                _, p, seg = a.split(':')
                if int(p) == pid:
                    c, z = seg.split('.')
                    out += pool.zbytes(int(c), cfg.level) if z == '1' else pool.contents[int(c)]
        return out

    def _compare_image(self, raw: Raw, rc, pool, cfg, lo_line, hi_line, label, what, j=0):
        """real folder vs the model image: rows exact, loose exact, packs between the flushed and the logical content"""
        m_loose, m_rows, m_packs_lo, _ = parse_state(lo_line)
        _, _, m_packs_hi, _ = parse_state(hi_line)
        real_rows = {(rid, rc.cid(hk) if rc.cid(hk) is not None else 999999, pack if pack >= 0 else iotrace.TMP, off, ln, 1 if comp else 0, size)
                     for (rid, hk, pack, off, ln, comp, size) in raw.rows}
        if real_rows != m_rows:
            return f'{label}: committed rows differ: model-only {sorted(m_rows - real_rows)[:3]} real-only {sorted(real_rows - m_rows)[:3]}'
        real_loose = {}
        for key, data in raw.loose_bytes.items():
            kc = rc.cid(key)
            cc = pool.cid_of_bytes(data)
            real_loose[kc if kc is not None else -1] = cc if cc is not None else 4294967294
        if real_loose != m_loose:
            return f'{label}: loose files differ: model {sorted(m_loose.items())} real {sorted(real_loose.items())}'
        real_packs = {}
        for name, data in raw.pack_bytes.items():
            if name.endswith('.lock'):
                continue
            pid = iotrace.TMP if name == '-1' else (int(name) if name.isdigit() else None)
            if pid is not None:
                real_packs[pid] = data
        if set(real_packs) != set(m_packs_lo):
            return f'{label}: pack files differ: model {sorted(m_packs_lo)} real {sorted(real_packs)}'
        for pid, data in real_packs.items():
            lo = seg_bytes(pool, cfg.level, m_packs_lo[pid])
            hi = seg_bytes(pool, cfg.level, m_packs_hi.get(pid, m_packs_lo[pid])) + self.later_writes(j, pid, pool, cfg)
            if not data.startswith(lo):
                return f'{label}: pack {pid} has {len(data)} bytes, fewer than / different from the {len(lo)} bytes the model says were flushed'
            if what == 'exact' and data != lo:
                return f'{label}: pack {pid} has {len(data)} bytes, the model says {len(lo)}'
            if what == 'between' and not (hi.startswith(data) or data.startswith(hi)):
                return f'{label}: pack {pid} holds bytes that were never written to it'
        return None

    def _crash_point(self, runner, rc, cfg, pool, scratch, op, args, k, events, keep, univ, model_prefix, kind, expected_after=None):
        d = os.path.join(scratch, f'crash{k}')
        _copy(rc.folder, d)
        log = os.path.join(scratch, f'crash{k}.log')
        _run_op_child(d, cfg, pool, op, 'crash', k, log, os.path.join(scratch, f'crash{k}.out'), self.src)
        ev_k, syncs, _ = read_log(log)
        self.bump('crash_points')
        deterministic = _norm(ev_k[:k]) == _norm(events[:k]) if k <= len(events) else False
        crash_ok = False
        j = model_prefix(min(k, len(events)))
        allow_loud = kind in ('repackOne', 'repack')
        if 'crash' in self.parts:
            probs = self._oracle(d, pool, cfg, set(keep), univ, allow_loud, f'killed before I/O call #{k} of {kind}')
            for p in probs[:1]:
                self.failures.append({'signature': f'crash-{kind}-' + p.split(':', 1)[1].strip().split(' ')[0], 'text': p, 'replay': self._replay(op, k, 'crash')})
            crash_ok = not probs
            if deterministic and getattr(self, 'trace_ok', False):
                lo = runner._ask(f'store image crash a {j} 0 {args}')  # pylint: disable=protected-access
                hi = runner._ask(f'store image crash a {j} 1000000 {args}')  # pylint: disable=protected-access
                msg = self._compare_image(Raw(d), rc, pool, cfg, lo, hi, f'crash before event {k} (model prefix {j})', 'between', j)
                self.bump('crash_images_compared')
                if msg:
                    self.breaks.append({'where': msg[:300], 'model': lo[:300], 'real': '', 'theorem_or_correspondence': 'Dos.IO.crashImg vs the folder a killed process leaves',
                                        'case': {'op': op, 'cfg': cfg.as_dict(), 'k': k}})
            elif not deterministic:
                self.bump('nondeterministic_points')
        if 'power' in self.parts:
            power_image(d, syncs)
            probs = self._oracle(d, pool, cfg, set(keep), univ, allow_loud, f'power lost before I/O call #{k} of {kind}')
            for p in probs[:1]:
                self.failures.append({'signature': f'power-{kind}-' + p.split(':', 1)[1].strip().split(' ')[0], 'text': p, 'replay': self._replay(op, k, 'power')})
            crash_ok = not probs
            if deterministic and getattr(self, 'trace_ok', False):
                lo = runner._ask(f'store image power a {j} 0 {args}')  # pylint: disable=protected-access
                msg = self._compare_image(Raw(d), rc, pool, cfg, lo, lo, f'power loss before event {k} (model prefix {j})', 'exact')
                self.bump('power_images_compared')
                if msg:
                    self.breaks.append({'where': msg[:300], 'model': lo[:300], 'real': '', 'theorem_or_correspondence': 'Dos.IO.powerImg vs the durable part of the folder',
                                        'case': {'op': op, 'cfg': cfg.as_dict(), 'k': k}})
        # life goes on after the crash: at a few points per scenario the operation is run again on the folder left behind
        if expected_after is not None and crash_ok and k % 5 == self.case_id % 5 and op.get('do_fsync') is not False:
            what = 'power lost' if 'power' in self.parts else 'killed'
            self._rerun(d, cfg, pool, op, kind, f'{what} before I/O call #{k} of {kind}', expected_after, univ, log,
                        os.path.join(scratch, f'crash{k}.out'), k)
        shutil.rmtree(d, ignore_errors=True)

    def _rerun(self, d, cfg, pool, op, kind, label, expected_after, univ, log, outp, k):
        """once the fault has cleared / the machine is back: remove stale lock files, run the operation again on a fresh handle
        (not for repack, whose interrupted state needs the documented manual step), and expect its full effect"""
        if kind in ('repackOne', 'repack'):
            return
        for fn in os.listdir(os.path.join(d, 'packs')):
            if fn.endswith('.lock'):
                os.remove(os.path.join(d, 'packs', fn))
        _run_op_child(d, cfg, pool, op, 'trace', -1, log, outp, self.src)
        try:
            out2 = json.load(open(outp))
        except Exception:  # pylint: disable=broad-except
            out2 = {'out': 'child-died'}
        if str(out2.get('out', '')).startswith(('raised', 'child')):
            self.failures.append({'signature': f'rerun-raised-{kind}', 'text': f'{label}: rerunning the operation on a fresh handle failed: {str(out2)[:200]}',
                                  'replay': self._replay(op, k, 'rerun')})
        else:
            probs2 = self._oracle(d, pool, cfg, expected_after, univ, False, label + ', after the rerun')
            for p in probs2[:1]:
                self.failures.append({'signature': f'rerun-{kind}', 'text': p, 'replay': self._replay(op, k, 'rerun')})
            self.bump('reruns')

    def _fault_point(self, runner, rc, cfg, pool, scratch, op, args, k, events, keep, univ, model_prefix, kind, expected_after, force_eacces=None):
        d = os.path.join(scratch, f'fault{k}')
        _copy(rc.folder, d)
        log = os.path.join(scratch, f'fault{k}.log')
        outp = os.path.join(scratch, f'fault{k}.out')
        # the failing call raises EIO, or (every third point) EACCES: the library has branches of its own for PermissionError
        eacces = (k + self.case_id) % 3 == 0 if force_eacces is None else force_eacces
        op_run = dict(op, fault_errno='EACCES') if eacces else op
        _run_op_child(d, cfg, pool, op_run, 'fault', k, log, outp, self.src)
        self.bump('fault_points')
        self.bump('fault_points.EACCES' if eacces else 'fault_points.EIO')
        try:
            out = json.load(open(outp))
        except Exception:  # pylint: disable=broad-except
            out = {'out': 'child-died'}
        self.bump('fault_outcome.' + ('raised' if str(out.get('out', '')).startswith('raised') else 'completed'))
        allow_loud = kind in ('repackOne', 'repack')
        label = f'I/O call #{k} ({events[k][0] if k < len(events) else "?"}) of {kind} failed{" with EACCES" if eacces else ""}'
        probs = self._oracle(d, pool, cfg, set(keep), univ, allow_loud, label)
        for p in probs[:1]:
            self.failures.append({'signature': f'fault-{kind}-' + p.split(':', 1)[1].strip().split(' ')[0], 'text': p, 'replay': self._replay(op, k, 'fault')})
        if str(out.get('out', '')).startswith('raised') and getattr(self, 'trace_ok', False) and not eacces:
            j = model_prefix(k)
            lo = runner._ask(f'store image fault a {j} 0 {args}')  # pylint: disable=protected-access
            msg = self._compare_image(Raw(d), rc, pool, cfg, lo, lo, f'after the fault at event {k} (model action {j})', 'between', j)
            self.bump('fault_images_compared')
            if msg:
                self.breaks.append({'where': msg[:300], 'model': lo[:300], 'real': '', 'theorem_or_correspondence': 'Dos.IO.runFault vs the folder after an injected fault',
                                    'case': {'op': op, 'cfg': cfg.as_dict(), 'k': k}})
        completed = not str(out.get('out', '')).startswith(('raised', 'child'))
        if completed and not probs:
            # "the operation either completes correctly or raises": it returned normally, so its whole effect must be there
            if str(out.get('out', '')) != getattr(self, 'clean_out', str(out.get('out', ''))) and kind in ('delete', 'addLoose', 'addPacked', 'import'):
                self.failures.append({'signature': f'fault-completed-other-result-{kind}',
                                      'text': f'{label}: the call returned normally with {str(out.get("out"))[:80]}, a fault-free run returns {self.clean_out[:80]}',
                                      'replay': self._replay(op, k, 'fault')})
            else:
                probs_c = self._oracle(d, pool, cfg, expected_after, univ, allow_loud, label + ' (the call returned normally)')
                if kind == 'delete':
                    dos = common.import_repo()
                    cchk = dos.Container(d)
                    try:
                        left = [x for x in op['ks'] if isinstance(x, int) and cchk.has_object(pool.key(x, cfg.hash_type))]
                    finally:
                        cchk.close()
                    if left:
                        probs_c.append(f'{label} (the call returned normally): cid {left[0]} was to be deleted and is still there')
                for p in probs_c[:1]:
                    self.failures.append({'signature': f'fault-completed-{kind}', 'text': p, 'replay': self._replay(op, k, 'fault')})
        if not probs:
            self._rerun(d, cfg, pool, op, kind, label, expected_after, univ, log, outp, k)
        shutil.rmtree(d, ignore_errors=True)


def run_lab(args):
    prop, case_id, parts, max_points = args[:4]
    lab = Lab(prop, case_id, parts, max_points, args[4] if len(args) > 4 else '')
    try:
        lab.run()
    except common.Infra as exc:
        return {'infra': str(exc), 'failures': [], 'breaks': [], 'stats': {}, 'sample': None}
    except Exception as exc:  # pylint: disable=broad-except
        lab.breaks.append({'where': 'harness exception', 'model': '', 'real': f'{type(exc).__name__}: {exc} {traceback.format_exc()[-800:]}',
                           'theorem_or_correspondence': 'harness', 'case': {'case_id': case_id}})
    return {'failures': lab.failures, 'breaks': lab.breaks, 'stats': lab.stats, 'sample': lab.sample}
