"""Shared plumbing of the correspondence harness: seeds, scratch space, the Lean driver process,
building and auditing the Lean development, evidence / replay / known-findings handling."""
from __future__ import annotations

import fcntl
import hashlib
import json
import os
import random
import re
import shutil
import subprocess
import sys
import tempfile
import time
from pathlib import Path

ROOT = Path(__file__).resolve().parent.parent
LEAN_DIR = ROOT / 'lean'
DRIVER_EXE = LEAN_DIR / '.lake' / 'build' / 'bin' / 'driver'
REPO = Path(os.environ.get('VERIF_REPO', '/repo'))
# (VERIF_OUT redirects what a run writes: used when a check is pointed at a scratch copy of the repository, e.g. a seeded change)
OUT_ROOT = Path(os.environ['VERIF_OUT']) if os.environ.get('VERIF_OUT') else ROOT
EVIDENCE_DIR = OUT_ROOT / 'evidence'
REPLAY_DIR = OUT_ROOT / 'replays'
KNOWN_FINDINGS = ROOT / 'known_findings.txt'
ALLOWED_AXIOMS = {'propext', 'Classical.choice', 'Quot.sound'}


class Infra(Exception):
    """infrastructure problem (exit status 2, never a violation)"""


def seed() -> int:
    try:
        return int(os.environ.get('VERIF_SEED', '0'))
    except ValueError:
        return 0


def rng_for(*parts) -> random.Random:
    """One PRNG per case, derived from the run seed and the case coordinates only."""
    h = hashlib.sha256(repr((seed(),) + parts).encode()).digest()
    return random.Random(int.from_bytes(h[:8], 'big'))


def scratch_base() -> str:
    for cand in (os.environ.get('VERIF_SCRATCH'), '/dev/shm', tempfile.gettempdir()):
        if cand and os.path.isdir(cand) and os.access(cand, os.W_OK):
            return cand
    return tempfile.gettempdir()


def mkscratch(tag: str = '') -> str:
    return tempfile.mkdtemp(prefix=f'dosverif-{tag}-', dir=scratch_base())


def rmscratch(path: str) -> None:
    shutil.rmtree(path, ignore_errors=True)


def import_repo():
    """Import the implementation from /repo's *current working tree* (never a cached copy)."""
    p = str(REPO)
    if sys.path[0] != p:
        sys.path.insert(0, p)
    import disk_objectstore  # pylint: disable=import-outside-toplevel

    f = os.path.realpath(disk_objectstore.__file__)
    if not f.startswith(os.path.realpath(p) + os.sep):
        raise Infra(f'disk_objectstore imported from {f}, expected under {p}')
    return disk_objectstore


# ---------------------------------------------------------------- Lean side


def build_lean(verbose: bool = False) -> tuple[bool, str]:
    """`lake build` under a lock (several checks may run concurrently). Returns (ok, output)."""
    lock = ROOT / '.build.lock'
    with open(lock, 'w') as lk:
        fcntl.flock(lk, fcntl.LOCK_EX)
        t0 = time.time()
        res = subprocess.run(['lake', 'build'], cwd=LEAN_DIR, stdout=subprocess.PIPE, stderr=subprocess.STDOUT,
                             text=True, check=False)
        out = res.stdout
        if verbose:
            print(out)
        ok = res.returncode == 0 and DRIVER_EXE.exists()
        return ok, out + f'\n[lake build {time.time() - t0:.1f}s rc={res.returncode}]'


_FORBIDDEN = re.compile(r'\b(sorry|admit|native_decide|bv_decide|implemented_by)\b|\bunsafe\s+(def|instance|structure|inductive|opaque|theorem|abbrev|axiom)\b|^\s*axiom\s|maxHeartbeats\s+0')


def strip_comments(src: str) -> str:
    # block comments (possibly nested) and line comments
    out = []
    i, depth = 0, 0
    n = len(src)
    while i < n:
        if src.startswith('/-', i):
            depth += 1
            i += 2
        elif depth and src.startswith('-/', i):
            depth -= 1
            i += 2
        elif depth:
            if src[i] == '\n':
                out.append('\n')
            i += 1
        elif src.startswith('--', i):
            while i < n and src[i] != '\n':
                i += 1
        else:
            out.append(src[i])
            i += 1
    return ''.join(out)


def forbidden_tokens() -> list[str]:
    hits = []
    for f in sorted(LEAN_DIR.rglob('*.lean')):
        if '.lake' in f.parts:
            continue
        code = strip_comments(f.read_text())
        for ln, line in enumerate(code.splitlines(), 1):
            m = _FORBIDDEN.search(line)
            if m:
                hits.append(f'{f.relative_to(LEAN_DIR)}:{ln}: {line.strip()[:100]}')
    return hits


def obligations(prop: str) -> list[str]:
    data = json.loads((LEAN_DIR / 'obligations.json').read_text())
    return list(data.get(prop, []))


def audit_axioms(prop: str) -> dict:
    """`#print axioms` for every theorem registered for `prop`.
    Returns {'theorems': {name: [axioms]}, 'missing': [...], 'bad': {...}, 'cmd': str}."""
    names = obligations(prop)
    data = json.loads((LEAN_DIR / 'obligations.json').read_text())
    imports = ['Dos']
    tmp = mkscratch('audit')
    try:
        src = ''.join(f'import {m}\n' for m in imports) + ''.join(f'#print axioms {n}\n' for n in names)
        fn = os.path.join(tmp, f'Audit{prop}.lean')
        Path(fn).write_text(src)
        res = subprocess.run(['lake', 'env', 'lean', fn], cwd=LEAN_DIR, stdout=subprocess.PIPE,
                             stderr=subprocess.STDOUT, text=True, check=False)
    finally:
        rmscratch(tmp)
    out = res.stdout
    theorems: dict[str, list[str]] = {}
    for m in re.finditer(r"'([^']+)' depends on axioms: \[([^\]]*)\]", out, flags=re.S):
        theorems[m.group(1)] = [a.strip() for a in m.group(2).replace('\n', ' ').split(',') if a.strip()]
    for m in re.finditer(r"'([^']+)' does not depend on any axioms", out):
        theorems[m.group(1)] = []
    missing = [n for n in names if n not in theorems]
    bad = {n: [a for a in ax if a not in ALLOWED_AXIOMS] for n, ax in theorems.items()}
    bad = {n: a for n, a in bad.items() if a}
    return {'theorems': theorems, 'missing': missing, 'bad': bad, 'raw': out if (missing or bad) else '',
            'cmd': f'cd lean && lake build && lake env lean <#print axioms of {len(names)} theorems of {prop}>'}


class Driver:
    """The compiled Lean model behind a pipe: one line in, one line out."""

    def __init__(self):
        if not DRIVER_EXE.exists():
            raise Infra(f'driver not built: {DRIVER_EXE}')
        self.proc = subprocess.Popen([str(DRIVER_EXE)], stdin=subprocess.PIPE, stdout=subprocess.PIPE, text=True,
                                     bufsize=1)
        self.lines = 0

    def ask(self, line: str) -> str:
        assert '\n' not in line
        try:
            self.proc.stdin.write(line + '\n')
            self.proc.stdin.flush()
            out = self.proc.stdout.readline()
        except BrokenPipeError as exc:
            raise Infra('driver died') from exc
        if not out:
            raise Infra(f'driver closed its output on: {line[:200]}')
        self.lines += 1
        return out.rstrip('\n')

    def close(self):
        try:
            self.proc.stdin.close()
            self.proc.wait(timeout=10)
        except Exception:  # pylint: disable=broad-except
            self.proc.kill()

    def __enter__(self):
        return self

    def __exit__(self, *exc):
        self.close()


# ---------------------------------------------------------------- findings / evidence


def known_findings() -> list[dict]:
    """Entries `known: property=<id> signature=<sig> <text>` suppress exactly that signature.
    Entries `fixed: ...` suppress nothing."""
    out = []
    if KNOWN_FINDINGS.exists():
        for line in KNOWN_FINDINGS.read_text().splitlines():
            line = line.strip()
            m = re.match(r'known:\s+property=(\S+)\s+signature=(\S+)\s*(.*)', line)
            if m:
                out.append({'property': m.group(1), 'signature': m.group(2), 'text': m.group(3)})
    return out


def write_replay(prop: str, payload: dict) -> str:
    REPLAY_DIR.mkdir(parents=True, exist_ok=True)
    blob = json.dumps(payload, sort_keys=True, default=str)
    h = hashlib.sha256(blob.encode()).hexdigest()[:12]
    path = REPLAY_DIR / f'{prop}-{h}.json'
    path.write_text(json.dumps(payload, indent=1, sort_keys=True, default=str))
    return str(path.relative_to(ROOT)) if OUT_ROOT == ROOT else str(path)


def write_evidence(prop: str, tier: str, coverage: dict, assumptions: list[str], wall_s: float, violations: int,
                   level: str = 'proof') -> None:
    EVIDENCE_DIR.mkdir(parents=True, exist_ok=True)
    doc = {
        'property_id': prop,
        'tier': tier,
        'seed': seed(),
        'level': level,
        'coverage': coverage,
        'assumptions': assumptions,
        'wall_s': round(wall_s, 2),
        'violations': violations,
    }
    tmp = EVIDENCE_DIR / f'.{prop}.json.tmp{os.getpid()}'
    tmp.write_text(json.dumps(doc, indent=1, sort_keys=True, default=str))
    os.replace(tmp, EVIDENCE_DIR / f'{prop}.json')


def repo_fingerprint() -> str:
    """digest of the implementation sources actually exercised (for the evidence file)"""
    h = hashlib.sha256()
    for f in sorted((REPO / 'disk_objectstore').glob('*.py')):
        h.update(f.name.encode())
        h.update(f.read_bytes())
    return h.hexdigest()[:16]
