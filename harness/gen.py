"""Seeded generation of operation histories (state-aware, mostly-valid, with a malformed tail)."""
from __future__ import annotations

from .store import MODES

DEFAULT_WEIGHTS = {
    'addLoose': 22, 'addPacked': 16, 'packAll': 10, 'clean': 7, 'delete': 7, 'repack': 6, 'loosen': 5,
    'reopen': 4, 'reinit': 1, 'import': 8, 'repackOne': 3, 'plantDup': 3, 'importMany': 2,
}


def pick_content(rng, runner, rc, reuse=0.35):
    """35 % of the adds re-use a content the container already holds"""
    if rc.expected and rng.random() < reuse:
        return rng.choice(sorted(rc.expected))
    return rng.randrange(len(runner.pool))


def pick_key(rng, runner, rc, present=0.8):
    if rc.expected and rng.random() < present:
        return rng.choice(sorted(rc.expected))
    return rng.randrange(len(runner.pool))


def weighted(rng, weights: dict):
    total = sum(weights.values())
    x = rng.uniform(0, total)
    for k, w in weights.items():
        if x < w:
            return k
        x -= w
    return next(iter(weights))


def next_op(rng, runner, weights=None, allow=None, reuse=0.35) -> dict:
    weights = dict(weights or DEFAULT_WEIGHTS)
    names = sorted(runner.conts)
    if len(names) < 2:
        weights.pop('import', None)
        weights.pop('importMany', None)
    if allow is not None:
        weights = {k: v for k, v in weights.items() if k in allow}
    kind = weighted(rng, weights)
    on = rng.choice(names) if kind not in ('import', 'importMany') else None
    rc = runner.conts[on] if on else None
    if kind == 'addLoose':
        return {'op': 'addLoose', 'on': on, 'c': pick_content(rng, runner, rc, reuse), 'via': rng.choice(['bytes', 'stream', 'short']),
                'short': rng.choice([1, 3, 7, 64, 5000])}
    if kind == 'damageReadd':
        # overwrite a loose file from outside (same length half of the time), then store the content again
        loose = sorted(rc.raw().loose_bytes)
        cands = [rc.cid(k) for k in loose if rc.cid(k) is not None]
        if not cands:
            return {'op': 'addLoose', 'on': on, 'c': pick_content(rng, runner, rc, reuse), 'via': 'bytes'}
        k = rng.choice(cands)
        good = runner.pool.contents[k]
        if good and rng.random() < 0.6:
            i = rng.randrange(len(good))
            bad = good[:i] + bytes([good[i] ^ (1 << rng.randrange(8))]) + good[i + 1:]
        else:
            bad = good + b'?' if rng.random() < 0.5 else good[:-1] + b'xy'
        c = runner.grow_pool(bad)
        if rng.random() < 0.4:
            # the content comes back through the direct-to-pack path (any options): a correct copy must be in place afterwards
            cs = [k] + [pick_content(rng, runner, rc, reuse) for _ in range(rng.choice([0, 0, 1, 2]))]
            rng.shuffle(cs)
            return [{'op': 'damage', 'on': on, 'k': k, 'c': c},
                    {'op': 'addPacked', 'on': on, 'cs': cs, 'compress': rng.random() < 0.5, 'no_holes': rng.random() < 0.7,
                     'read_twice': rng.random() < 0.5, 'via': rng.choice(['bytes', 'streams', 'short']), 'short': rng.choice([1, 5, 64])},
                    # (the damaged loose copy of the now packed object is then cleaned away: the model of pack_all_loose
                    #  is stated for containers whose loose files are intact)
                    {'op': 'clean', 'on': on, 'vacuum': False}]
        return [{'op': 'damage', 'on': on, 'k': k, 'c': c},
                {'op': 'addLoose', 'on': on, 'c': k, 'via': rng.choice(['bytes', 'stream', 'short']), 'short': rng.choice([1, 7, 5000])}]
    if kind == 'plantDup':
        # stray copies of an existing object in duplicates/ (what a writer leaves when it cannot replace a loose file)
        have = sorted(k for k in rc.expected if (rc.name, k) not in runner.damaged)
        if not have:
            return {'op': 'addLoose', 'on': on, 'c': pick_content(rng, runner, rc, reuse), 'via': 'bytes'}
        return {'op': 'plantDup', 'on': on, 'k': rng.choice(have), 'ids': [rng.getrandbits(128) for _ in range(rng.choice([1, 1, 2]))]}
    if kind == 'repackOne':
        packs = sorted(int(x) for x in rc.raw().pack_names_valid())
        if not packs:
            return {'op': 'reopen', 'on': on}
        return {'op': 'repackOne', 'on': on, 'p': rng.choice(packs), 'mode': rng.choice(MODES), 'callback': rng.random() < 0.25}
    if kind == 'addPacked':
        n = rng.choice([1, 1, 2, 3, 4, 6])
        cs = [pick_content(rng, runner, rc, reuse) for _ in range(n)]
        if n > 1 and rng.random() < 0.3:
            cs[rng.randrange(n)] = cs[0]  # duplicate inside the batch
        no_holes = rng.random() < 0.5
        if no_holes and rng.random() < 0.12:
            # streams not positioned at their start: only with no_holes + read-twice (which rewinds), and only when the
            # tail that the first pass hashes is not itself a content of the pool
            mid = rng.choice([1, 2, 5])
            pool = runner.pool
            if all(len(pool.contents[x]) <= mid or pool.cid_of_bytes(pool.contents[x][mid:]) is None for x in cs):
                return {'op': 'addPacked', 'on': on, 'cs': cs, 'compress': rng.random() < 0.5, 'no_holes': True,
                        'read_twice': True, 'via': 'midstream', 'mid': mid}
        if rc.cfg.target >= 2 ** 30 and rng.random() < 0.08:
            # (large target only: both writers then aim at the same pack)
            return {'op': 'addPacked', 'on': on, 'cs': cs, 'compress': rng.random() < 0.5, 'no_holes': False, 'read_twice': False,
                    'via': 'nested', 'inner': [rng.randrange(len(runner.pool)) for _ in range(rng.choice([1, 2]))]}
        return {'op': 'addPacked', 'on': on, 'cs': cs, 'compress': rng.random() < 0.5, 'no_holes': no_holes,
                'read_twice': rng.random() < 0.5, 'via': rng.choice(['bytes', 'streams', 'single', 'lazy', 'short']),
                'short': rng.choice([1, 5, 64, 9000]), 'callback': rng.random() < 0.2}
    if kind == 'packAll':
        mode = rng.choice(MODES + [True, False])
        return {'op': 'packAll', 'on': on, 'mode': mode, 'validate': rng.random() < 0.7, 'clean': rng.random() < 0.4,
                'callback': rng.random() < 0.25}
    if kind == 'clean':
        return {'op': 'clean', 'on': on, 'vacuum': rng.random() < 0.3}
    if kind == 'delete':
        n = rng.choice([1, 1, 2, 3, 5])
        ks = [pick_key(rng, runner, rc) for _ in range(n)]
        if rng.random() < 0.15:
            ks.append('f' * 40)  # a key of no content at all
        return {'op': 'delete', 'on': on, 'ks': ks}
    if kind == 'repack':
        return {'op': 'repack', 'on': on, 'mode': rng.choice(MODES), 'callback': rng.random() < 0.25}
    if kind == 'loosen':
        return {'op': 'loosen', 'on': on, 'k': pick_key(rng, runner, rc, present=0.85)}
    if kind == 'reopen':
        return {'op': 'reopen', 'on': on}
    if kind == 'reinit':
        return {'op': 'reinit', 'on': on}
    if kind == 'importMany':
        # several objects the destination lacks are first stored in the source (loose and packed), then imported in one call
        # with a memory budget that makes the cache flush once or several times
        dst, src = rng.sample(names, 2)
        srcc, dstc = runner.conts[src], runner.conts[dst]
        fresh = [c for c in range(len(runner.pool)) if c not in dstc.expected]
        if len(fresh) < 3:
            return {'op': 'reopen', 'on': dst}
        cs = rng.sample(fresh, rng.randint(3, min(8, len(fresh))))
        ops = []
        need = [c for c in cs if c not in srcc.expected]
        cut = rng.randint(0, len(need))
        if need[:cut]:
            ops.append({'op': 'addPacked', 'on': src, 'cs': need[:cut], 'compress': rng.random() < 0.5, 'no_holes': False, 'read_twice': False,
                        'via': 'bytes', 'short': 64})
        for c in need[cut:]:
            ops.append({'op': 'addLoose', 'on': src, 'c': c, 'via': 'bytes'})
        sz = sorted(runner.pool.size(c) for c in cs)
        req = sum(sz)
        budget = rng.choice([2 * sz[-1] + 7, sz[-1] + 1, req // 2 + 1, req // 3 + 1, sz[len(sz) // 2] + 1, req - 1 if req > 1 else 1])
        ks = list(cs)
        rng.shuffle(ks)
        ops.append({'op': 'import', 'on': dst, 'src': src, 'ks': ks, 'compress': rng.random() < 0.5, 'budget': budget,
                    'iter': rng.choice(['list', 'tuple', 'set', 'gen']), 'callback': rng.random() < 0.3})
        return ops
    if kind == 'import':
        dst, src = rng.sample(names, 2)
        srcc = runner.conts[src]
        n = rng.choice([1, 2, 3, 5, 8])
        ks = [pick_key(rng, runner, srcc, present=0.85) for _ in range(n)]
        if rng.random() < 0.3 and ks:
            ks.append(ks[0])
        if rng.random() < 0.15:
            ks.append('e' * 40)
        sizes = sorted(runner.pool.size(c) for c in range(len(runner.pool)))
        req = sum(runner.pool.size(k) for k in set(ks) if isinstance(k, int))
        # budgets: everything streamed / around the median object / just above the largest / two or three flushes / everything in one flush
        budget = rng.choice([1, sizes[len(sizes) // 2] + 1, sizes[-1] + 1, 2 * sizes[-1] + 7, 104857600, rng.randint(1, max(2, sizes[-1])),
                             req // 2 + 1, req // 3 + 1])
        return {'op': 'import', 'on': dst, 'src': src, 'ks': ks, 'compress': rng.random() < 0.5, 'budget': budget,
                'iter': rng.choice(['list', 'tuple', 'set', 'gen']), 'callback': rng.random() < 0.5}
    raise ValueError(kind)
