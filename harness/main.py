"""Entry point of every check:  ./check <ID> [--tier quick|thorough] [--replay PATH]

1. proof obligations: `lake build`, `#print axioms` of the theorems registered for <ID>, forbidden-token scan;
2. correspondence between the Lean model's executable definitions and /repo's current working tree,
   plus the property's direct oracle on the implementation;
3. verdict, evidence file, VIOLATION / KNOWN-FINDING lines.
Exit status: 0 property held on everything explored, 1 violation, 2 infrastructure problem."""
from __future__ import annotations

import argparse
import importlib
import json
import os
import sys
import time
import traceback

from . import common

PROPS = [f'C{i:02d}' for i in range(1, 19)]


class Report:
    """what a property module returns"""

    def __init__(self, prop: str):
        self.prop = prop
        self.evaluations = 0
        self.distinct_nontrivial = 0
        self.rule = ''
        self.samples: list = []
        self.traces_validated = 0
        self.stats: dict = {}
        self.extra: dict = {}
        # correspondence breaks: dicts {where, model, real, case}
        self.breaks: list = []
        # oracle failures on the implementation: dicts {signature, text, replay(dict)}
        self.failures: list = []
        self.assumptions: list = []
        self.infra: list = []


def decide(prop: str, tier: str, rep: Report, oblig: dict, t0: float) -> int:
    known = [k for k in common.known_findings() if k['property'] == prop]
    known_sigs = {k['signature'] for k in known}
    out_lines = []
    violations = 0
    seen = set()
    known_hit = set()
    for f in rep.failures:
        sig = f['signature']
        if sig in known_sigs:
            known_hit.add(sig)
            continue
        if sig in seen:
            continue
        seen.add(sig)
        path = common.write_replay(prop, {'property': prop, 'kind': 'failing-input', 'signature': sig, 'what': f['text'],
                                          'replay': f.get('replay'), 'seed': common.seed(), 'tier': tier})
        out_lines.append(f'VIOLATION property={prop} replay={path}')
        print(f'  [{prop}] failing input ({sig}): {f["text"][:300]}')
        violations += 1
        if violations >= 5:
            break
    for sig in sorted(known_hit):
        txt = next(k['text'] for k in known if k['signature'] == sig)
        print(f'KNOWN-FINDING: property={prop} {sig} {txt}')
    broken = []
    if not oblig['ok']:
        broken.append({'kind': 'proof-obligation', 'detail': oblig['detail']})
    for b in rep.breaks[:20]:
        broken.append({'kind': 'correspondence', **b})
    if broken and violations == 0 and not known_hit:
        # the property is no longer shown to hold, and the search found no input on which it fails
        path = common.write_replay(prop, {'property': prop, 'kind': 'no-failing-input-found', 'unchecked': broken[:10],
                                          'seed': common.seed(), 'tier': tier,
                                          'note': 'the theorem / correspondence named here no longer checks; the direct oracle '
                                                  'found no input on which the implementation violates the property'})
        out_lines.append(f'VIOLATION property={prop} replay={path} no-failing-input-found')
        for b in broken[:3]:
            print(f'  [{prop}] no longer checks: {json.dumps(b, default=str)[:400]}')
        violations += 1
    coverage = {
        'obligations': oblig['n'],
        'discharged': oblig['discharged'],
        'checker_cmd': oblig['cmd'],
        'trusted_base': oblig['trusted_base'],
        'theorems': oblig['theorems'],
        'evaluations': rep.evaluations,
        'distinct_nontrivial': rep.distinct_nontrivial,
        'rule': rep.rule,
        'samples': rep.samples[:4],
        'traces_validated_against_impl': rep.traces_validated,
        'correspondence_breaks': len(rep.breaks),
        'oracle_failures': len(rep.failures),
        'distribution': rep.stats,
        'implementation_fingerprint': common.repo_fingerprint(),
        **rep.extra,
    }
    common.write_evidence(prop, tier, coverage, rep.assumptions, time.time() - t0, violations)
    for l in out_lines:
        print(l)
    if rep.infra and violations == 0:
        for i in rep.infra[:5]:
            print(f'  [{prop}] infrastructure: {i}', file=sys.stderr)
        return 2
    return 1 if violations else 0


def proof_obligations(prop: str, tier: str) -> dict:
    ok, out = common.build_lean()
    res = {'ok': True, 'detail': '', 'n': 0, 'discharged': 0, 'cmd': '', 'trusted_base': [], 'theorems': {}}
    if not ok:
        if 'error' not in out:
            raise common.Infra('lake build did not run: ' + out[-500:])
        res['ok'] = False
        res['detail'] = 'lake build failed: ' + out[-1500:]
    aud = common.audit_axioms(prop)
    names = common.obligations(prop)
    res['n'] = max(1, len(names))
    res['cmd'] = aud['cmd']
    res['theorems'] = aud['theorems']
    good = [n for n in names if n in aud['theorems'] and n not in aud['bad']]
    res['discharged'] = len(good) if names else 0
    axioms = sorted({a for ax in aud['theorems'].values() for a in ax})
    res['trusted_base'] = ['Lean 4 kernel (lean 4.33.0)'] + [f'axiom {a}' for a in axioms]
    if aud['missing'] or aud['bad']:
        res['ok'] = False
        res['detail'] += f' theorems not checked: {aud["missing"]}; non-standard axioms: {aud["bad"]}; {aud["raw"][-800:]}'
    hits = common.forbidden_tokens()
    if hits:
        res['ok'] = False
        res['detail'] += f' forbidden tokens in Lean sources: {hits[:5]}'
    if tier == 'thorough' and res['ok']:
        import subprocess  # pylint: disable=import-outside-toplevel

        data = json.loads((common.LEAN_DIR / 'obligations.json').read_text())
        mods = data.get('_imports', {}).get(prop, [])
        if mods:
            r = subprocess.run(['lake', 'env', 'leanchecker'] + mods, cwd=common.LEAN_DIR, stdout=subprocess.PIPE,
                               stderr=subprocess.STDOUT, text=True, check=False)
            res['leanchecker'] = f'rc={r.returncode} {r.stdout[-300:]}'
            if r.returncode != 0:
                res['ok'] = False
                res['detail'] += ' leanchecker failed: ' + r.stdout[-500:]
            res['cmd'] += ' && lake env leanchecker ' + ' '.join(mods)
    return res


def main(argv=None) -> int:
    ap = argparse.ArgumentParser()
    ap.add_argument('prop')
    ap.add_argument('--tier', default=os.environ.get('VERIF_TIER', 'quick'), choices=['quick', 'thorough'])
    ap.add_argument('--replay', default=None)
    args = ap.parse_args(argv)
    prop = args.prop
    if prop not in PROPS:
        print(f'unknown property {prop}', file=sys.stderr)
        return 2
    t0 = time.time()
    try:
        common.import_repo()
        mod = importlib.import_module(f'harness.props.{prop}')
        if args.replay:
            return mod.replay(args.replay)
        oblig = proof_obligations(prop, args.tier)
        rep = mod.run(args.tier)
        rc = decide(prop, args.tier, rep, oblig, t0)
        print(f'[{prop}] tier={args.tier} seed={common.seed()} obligations={oblig["discharged"]}/{oblig["n"]} '
              f'evaluations={rep.evaluations} breaks={len(rep.breaks)} failures={len(rep.failures)} '
              f'wall={time.time() - t0:.1f}s -> exit {rc}')
        return rc
    except common.Infra as exc:
        print(f'[{prop}] infrastructure problem: {exc}', file=sys.stderr)
        return 2
    except Exception:  # pylint: disable=broad-except
        traceback.print_exc()
        return 2


if __name__ == '__main__':
    sys.exit(main())
