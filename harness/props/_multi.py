"""Multi-handle (stale snapshot) histories of the C08 harness, offered to the checks of other properties whose statements
also cover what a long-open handle answers (streams, metadata sizes, bulk results): the slow read path - index snapshot,
loose file, refreshed index - is reached only this way, so its defects are invisible to single-handle histories."""
from __future__ import annotations

import json
import multiprocessing as mp
import os

from .. import common


def _one(args):
    from . import C08  # pylint: disable=import-outside-toplevel

    case_id, = args
    return C08.run_case(case_id)


def stale_handle_failures(prop: str, n: int, prefixes: tuple, rep=None):
    """run n cases (ids disjoint from C08's own), keep the failures whose signature starts with one of `prefixes`"""
    base = 100000 + 1000 * int(prop[1:])
    ctx = mp.get_context('fork')
    with ctx.Pool(processes=min(12, os.cpu_count() or 4)) as pool:
        results = pool.map(_one, [(base + i,) for i in range(n)], chunksize=2)
    out = []
    steps = 0
    for r in results:
        steps += r['steps']
        if rep is not None and r.get('infra'):
            rep.infra.append(r['infra'])
        for f in r['failures']:
            if f['signature'].startswith(prefixes):
                out.append({'signature': 'stale-handle-' + f['signature'], 'text': 'several handles on one container: ' + f['text'], 'replay': f['replay']})
                break
    if rep is not None:
        rep.stats['stale_handle_cases'] = n
        rep.stats['stale_handle_steps'] = steps
        rep.evaluations += n
    return out


def replay_multi(prop: str, path: str):
    """replay of a failure found by stale_handle_failures; returns None if the file is not of this kind"""
    doc = json.loads(open(path).read())
    rp = doc.get('replay') or {}
    if rp.get('kind') != 'multi':
        return None
    from . import C08  # pylint: disable=import-outside-toplevel

    os.environ['VERIF_SEED'] = str(rp.get('seed', 0))
    common.build_lean()
    r = C08.run_case(rp['case_id'], ops_override=rp['ops'], target_override=rp.get('target'))
    for f in r['failures']:
        print('FAIL', f['text'])
    if r['failures']:
        print(f'VIOLATION property={prop} replay={path}')
        return 1
    return 0
