"""C03: decided on operation histories (see DESIGN.md section 7 for what is compared and proved)."""
from ._store import replay_store, run_store

QUICK = [('general', 100), ('compress', 30)]
THOROUGH = [('general', 1200), ('compress', 300), ('import', 300)]


def run(tier: str):
    return run_store('C03', tier, QUICK, THOROUGH)


def replay(path: str) -> int:
    return replay_store('C03', path)
