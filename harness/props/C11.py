"""C11: decided on operation histories (see DESIGN.md section 7 for what is compared and proved)."""
from ._store import replay_store, run_store

QUICK = [('delete', 120)]
THOROUGH = [('delete', 1500), ('general', 300)]


def run(tier: str):
    return run_store('C11', tier, QUICK, THOROUGH)


def replay(path: str) -> int:
    return replay_store('C11', path)
