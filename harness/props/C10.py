"""C10: decided on operation histories (see DESIGN.md section 7 for what is compared and proved)."""
from . import _multi
from .. import sampling
from ._store import replay_store, run_store

QUICK = [('compress', 100), ('compress_big', 12), ('import', 40)]
THOROUGH = [('compress', 1200), ('compress_big', 150), ('import', 300)]


def run(tier: str):
    rep = run_store('C10', tier, QUICK, THOROUGH)
    # recorded sizes as reported through a long-open handle's slow read path
    rep.failures += _multi.stale_handle_failures('C10', 40 if tier == 'quick' else 500, ('meta-size', 'bulkmeta-size'), rep)
    # the AUTO heuristic's sampling loop against its Lean model (reads, position restored, verdict from the sampled bytes)
    sampling.run_sampling(tier, rep)
    return rep


def replay(path: str) -> int:
    r_ = _multi.replay_multi('C10', path)
    return r_ if r_ is not None else replay_store('C10', path)
