"""C10: decided on operation histories (see DESIGN.md section 7 for what is compared and proved)."""
from ._store import replay_store, run_store

QUICK = [('compress', 100), ('compress_big', 12)]
THOROUGH = [('compress', 1200), ('compress_big', 150)]


def run(tier: str):
    return run_store('C10', tier, QUICK, THOROUGH)


def replay(path: str) -> int:
    return replay_store('C10', path)
