"""C09: decided on operation histories (see DESIGN.md section 7 for what is compared and proved)."""
from ._store import replay_store, run_store

QUICK = [('dedup', 120)]
THOROUGH = [('dedup', 1500), ('general', 400)]


def run(tier: str):
    return run_store('C09', tier, QUICK, THOROUGH)


def replay(path: str) -> int:
    return replay_store('C09', path)
