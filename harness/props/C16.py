"""C16: bulk operations do not depend on batch size or lookup strategy; merge helpers."""
from .. import merge
from ._store import replay_store, run_store

QUICK = [('bulk', 100)]
THOROUGH = [('bulk', 1400)]


def run(tier: str):
    rep = run_store('C16', tier, QUICK, THOROUGH)
    merge.run_helpers(tier, rep)
    rep.distinct_nontrivial += rep.stats.get('helper_error_cases', 0)
    rep.rule += ('; plus every pair of lists (sorted and unsorted) over a small universe for detect_where_sorted/merge_sorted and random '
                 'longer inputs, compared with the Lean model and with set algebra')
    return rep


def replay(path: str) -> int:
    return replay_store('C16', path)
