"""C16: bulk operations do not depend on batch size or lookup strategy; merge helpers."""
from .. import merge
from . import _multi
from ._store import replay_store, run_store

QUICK = [('bulk', 100)]
THOROUGH = [('bulk', 1400)]


def run(tier: str):
    rep = run_store('C16', tier, QUICK, THOROUGH)
    # bulk requests through a long-open handle: the slow path has its own batching
    rep.failures += _multi.stale_handle_failures('C16', 40 if tier == 'quick' else 500, ('bulk',), rep)
    merge.run_helpers(tier, rep)
    rep.distinct_nontrivial += rep.stats.get('helper_error_cases', 0)
    rep.rule += ('; plus every pair of lists (sorted and unsorted) over a small universe for detect_where_sorted/merge_sorted and random '
                 'longer inputs, compared with the Lean model and with set algebra')
    return rep


def replay(path: str) -> int:
    r_ = _multi.replay_multi('C16', path)
    return r_ if r_ is not None else replay_store('C16', path)
