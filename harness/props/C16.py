"""C16: decided on operation histories (see DESIGN.md section 7 for what is compared and proved)."""
from ._store import replay_store, run_store

QUICK = [('bulk', 110)]
THOROUGH = [('bulk', 1400)]


def run(tier: str):
    return run_store('C16', tier, QUICK, THOROUGH)


def replay(path: str) -> int:
    return replay_store('C16', path)
