"""C15: a backup taken while the container is in use is complete and consistent.

Lean side (lean/Dos/Backup.lean, Dos/Proofs/BackupProofs.lean): a backup actor (copy loose files, dump a committed index
snapshot, copy packs) on top of the interleaving model of C04; `backup_reads` / `backup_valid` for every schedule, provided
the live SQLite side files are not copied; `wal_copy_breaks_backup`: a machine-checked schedule showing that copying them
breaks the property.
Here: real backups with the real rsync while another client of the container adds loose objects, writes directly to packs,
packs (with and without per-pack cleaning) and cleans - before, between and (through a two-pass rsync wrapper) inside the
copy phases, for first and incremental backups.  Checked: the backup folder against the model's backup image; the rsync
argument list of the last phase (the excludes); and the direct oracle: the backup opened as a Container reads every object
that existed at the start, every key it lists reads back as itself, validate() is clean."""
from __future__ import annotations

import hashlib
import json
import multiprocessing as mp
import os
import shutil
from pathlib import Path

from .. import common, store
from ..content import Pool
from ..crashlab import parse_state, seg_bytes
from ..main import Report
from ..rawstate import Raw

QUICK = 44
THOROUGH = 600
WRAPPER = str(Path(__file__).resolve().parent.parent / 'rsync_wrapper.py')
POINTS = ['before_loose', 'before_dump', 'after_dump', 'before_packs', 'before_rest', 'after_rest']


def gen_ops(rng, pool, n):
    ops = []
    for _ in range(n):
        x = rng.random()
        if x < 0.4:
            ops.append({'op': 'add', 'c': rng.randrange(len(pool))})
        elif x < 0.55:
            ops.append({'op': 'addpack', 'cs': [rng.randrange(len(pool)) for _ in range(rng.randint(1, 3))], 'compress': rng.random() < 0.5})
        elif x < 0.85:
            ops.append({'op': 'pack', 'compress': rng.random() < 0.5, 'clean': rng.random() < 0.5})
        else:
            ops.append({'op': 'clean'})
    return ops


def run_case(case_id: int):
    dos = common.import_repo()
    from disk_objectstore import backup_utils  # pylint: disable=import-outside-toplevel

    rng = common.rng_for('C15', case_id)
    res = {'case_id': case_id, 'failures': [], 'breaks': [], 'stats': {}, 'sample': None}
    scratch = common.mkscratch('C15')
    plan_path = os.path.join(scratch, 'plan.json')
    old_env = os.environ.get('DOS_VERIF_RSYNC_PLAN')
    try:
        cfg = store.default_cfg(rng, 0.6)
        pool = Pool(rng, 10, 'tiny', level=cfg.level, fixed=[b''] if rng.random() < 0.4 else None)
        folder = os.path.join(scratch, 'c')
        c = dos.Container(folder)
        c.init_container(pack_size_target=cfg.target, loose_prefix_len=cfg.prefix_len, hash_type=cfg.hash_type,
                         compression_algorithm=f'zlib+{cfg.level}')
        key = lambda x: pool.key(x, cfg.hash_type)  # noqa: E731
        cid = lambda k: (pool.cid_of_key(k, cfg.hash_type) if pool.cid_of_key(k, cfg.hash_type) is not None else 999999)  # noqa: E731
        hd = {'other': dos.Container(folder)}  # the other client of the container
        events = []  # what happened, in order, in model terms
        with common.Driver() as drv:
            def ask(line):
                out = drv.ask(line)
                if out.startswith('bad-op'):
                    raise common.Infra(f'driver rejected {line[:150]}: {out}')
                return out
            ask(f'bk new {cfg.target}')
            ask(f'bk tab {pool.tab_entries(level=cfg.level)}')
            existing: set[int] = set()

            def do_op(op, cont):
                """one operation of the other client, on the implementation and on the model"""
                pre = Raw(folder)
                if op['op'] == 'add':
                    cont.add_object(pool.contents[op['c']])
                    existing.add(op['c'])
                    ask(f'bk op addLoose {op["c"]}')
                elif op['op'] == 'addpack':
                    cont.add_objects_to_pack([pool.contents[x] for x in op['cs']], compress=op['compress'])
                    existing.update(op['cs'])
                    ask(f'bk op addPacked {1 if op["compress"] else 0} 0 {store.show_nats(op["cs"])}')
                elif op['op'] == 'pack':
                    cont.pack_all_loose(compress=op['compress'], clean_loose_per_pack=op['clean'])
                    post = Raw(folder)
                    pre_keys = {r[1] for r in pre.rows}
                    new = [r for r in post.rows if r[1] not in pre_keys]
                    rows = []
                    for p in sorted({r[2] for r in new}):
                        rows += store.rows_sorted_for_order([r for r in new if r[2] == p])
                    out = ask(f'bk op packAll {"yes" if op["compress"] else "no"} {1 if op["clean"] else 0} '
                              f'{store.show_nats([cid(r[1]) for r in rows])} {store.show_nats([1 if r[5] else 0 for r in rows])}')
                    if out != 'ok':
                        raise common.Infra('model rejected a pack step: ' + out)
                elif op['op'] == 'clean':
                    cont.clean_storage()
                    ask('bk op clean')
                events.append(op)

            for op in gen_ops(rng, pool, rng.randint(2, 6)):
                do_op(op, hd['other'])
            dest = os.path.join(scratch, 'dest')
            os.mkdir(dest)
            manager = backup_utils.BackupManager(dest, rsync_exe=WRAPPER)
            n_backups = rng.choice([1, 2, 2])
            prev = None
            for bi in range(n_backups):
                at = {p: gen_ops(rng, pool, rng.choice([0, 0, 1, 2])) for p in POINTS}
                mid_phase = rng.choice([None, 'loose', 'packs'])
                at_start = set(existing)
                rsync_calls = []
                state = {'n': 0}
                # model: start
                orig_rsync = manager.call_rsync
                orig_dump = backup_utils._sqlite_backup  # pylint: disable=protected-access

                def inject(point):
                    for op in at[point]:
                        do_op(op, hd['other'])

                def model_copy_loose(names=None):
                    raw = Raw(folder)
                    ks = [cid(k) for k in raw.loose_bytes if names is None or _top(k, cfg) in names]
                    ask(f'bk ev cploose {store.show_nats(ks)}')

                def model_copy_packs(names=None):
                    raw = Raw(folder)
                    ps = [int(n) for n in raw.pack_names_valid() if names is None or n in names]
                    ask(f'bk ev cppack {store.show_nats(ps)}')

                def fake_rsync(src, dst, link_dest=None, src_trailing_slash=False, dest_trailing_slash=False, extra_args=None):
                    state['n'] += 1
                    rsync_calls.append({'src': os.path.basename(str(src)), 'extra': list(extra_args or [])})
                    base = os.path.basename(str(src))
                    plan = {'repo': str(common.REPO), 'container': folder, 'mid': {}}
                    if base == 'loose':
                        inject('before_loose')
                        ask('bk ev start')
                        if mid_phase == 'loose':
                            names = sorted(os.listdir(os.path.join(folder, 'loose')))
                            first = names[:len(names) // 2]
                            mid_ops = gen_ops(rng, pool, rng.randint(1, 2))
                            plan['mid']['loose'] = {'first_half': first, 'ops': [_wire(op, pool) for op in mid_ops]}
                            json.dump(plan, open(plan_path, 'w'))
                            model_copy_loose(set(first))
                            # the wrapper performs the ops; mirror them in the model and the bookkeeping
                            orig_rsync(src, dst, link_dest=link_dest, src_trailing_slash=src_trailing_slash,
                                       dest_trailing_slash=dest_trailing_slash, extra_args=extra_args)
                            _mirror(mid_ops, folder, pool, cfg, existing, ask, cid, events)
                            # a third client (the wrapper process) has written the index: this client's session is stale
                            hd['other'].close()
                            hd['other'] = dos.Container(folder)
                            model_copy_loose(None)
                            os.remove(plan_path)
                            return
                        model_copy_loose(None)
                    elif base == 'packs.idx':
                        inject('after_dump')
                    elif base == 'packs':
                        inject('before_packs')
                        if mid_phase == 'packs':
                            names = sorted(n for n in os.listdir(os.path.join(folder, 'packs')) if n.isdigit())
                            first = names[:max(1, len(names) // 2)]
                            mid_ops = gen_ops(rng, pool, rng.randint(1, 2))
                            plan['mid']['packs'] = {'first_half': first, 'ops': [_wire(op, pool) for op in mid_ops]}
                            json.dump(plan, open(plan_path, 'w'))
                            model_copy_packs(set(first))
                            orig_rsync(src, dst, link_dest=link_dest, src_trailing_slash=src_trailing_slash,
                                       dest_trailing_slash=dest_trailing_slash, extra_args=extra_args)
                            _mirror(mid_ops, folder, pool, cfg, existing, ask, cid, events)
                            # a third client (the wrapper process) has written the index: this client's session is stale
                            hd['other'].close()
                            hd['other'] = dos.Container(folder)
                            model_copy_packs(None)
                            os.remove(plan_path)
                            return
                        model_copy_packs(None)
                    else:
                        inject('before_rest')
                        excl = [extra_args[i + 1] for i in range(len(extra_args or []) - 1) if extra_args[i] == '--exclude']
                        if 'packs.idx-wal' not in excl or 'packs.idx-shm' not in excl or 'packs.idx' not in excl:
                            ask('bk ev wal')  # the live side files travel along: the backup's index is the live one
                    orig_rsync(src, dst, link_dest=link_dest, src_trailing_slash=src_trailing_slash,
                               dest_trailing_slash=dest_trailing_slash, extra_args=extra_args)

                def fake_dump(src, dst):
                    inject('before_dump')
                    if ask('bk ev dump') != 'ok':
                        res['breaks'].append({'where': 'index dump', 'model': 'the model refuses the phase change (a stable loose file was not copied)', 'real': '',
                                              'theorem_or_correspondence': 'Dos.Backup.bstep dumpIndex guard', 'case': {'case_id': case_id}})
                    orig_dump(src, dst)

                os.environ['DOS_VERIF_RSYNC_PLAN'] = plan_path
                manager.call_rsync = fake_rsync
                backup_utils._sqlite_backup = fake_dump  # pylint: disable=protected-access
                bpath = Path(dest) / f'b{bi}'
                # the process that takes the backup may have used its handle before (which pins an index snapshot in it)
                pinned = rng.choice(['none', 'has', 'count', 'list', 'has'])
                if pinned == 'has':
                    c.has_objects([key(x) for x in rng.sample(range(len(pool)), 3)])
                elif pinned == 'count':
                    c.count_objects()
                elif pinned == 'list':
                    list(c.list_all_objects())
                res['stats'][f'pinned.{pinned}'] = res['stats'].get(f'pinned.{pinned}', 0) + 1
                try:
                    backup_utils.backup_container(manager, c, bpath, prev)
                finally:
                    manager.call_rsync = orig_rsync
                    backup_utils._sqlite_backup = orig_dump  # pylint: disable=protected-access
                inject('after_rest')
                # the four copy steps as the model of rsync assumes them: source, and no option beyond the ones whose meaning the
                # guards of Dos.Backup rely on (an option such as --size-only / --ignore-existing / --append changes what "copied" means)
                expected_calls = [('loose', []), ('packs.idx', ['--checksum']), ('packs', []),
                                  ('c', ['--exclude', 'loose', '--exclude', 'packs.idx', '--exclude', 'packs.idx-wal', '--exclude', 'packs.idx-shm',
                                         '--exclude', 'packs'])]
                got_calls = [(rc_['src'], rc_['extra']) for rc_ in rsync_calls]
                if got_calls != expected_calls:
                    res['breaks'].append({'where': f'rsync invocations of backup {bi}', 'model': str(expected_calls)[:400], 'real': str(got_calls)[:400],
                                          'theorem_or_correspondence': 'Dos.Backup phase guards (what rsync is assumed to do) vs the rsync calls made',
                                          'case': {'case_id': case_id}})
                fin = ask('bk ev finish')
                img = ask('bk image')
                res['stats']['backups'] = res['stats'].get('backups', 0) + 1
                res['stats'][f'mid.{mid_phase}'] = res['stats'].get(f'mid.{mid_phase}', 0) + 1
                rp = {'kind': 'backup', 'case_id': case_id, 'seed': common.seed(), 'backup': bi}
                _examine(res, dos, str(bpath), scratch, pool, cfg, at_start, img, fin, rp, bi)
                res['sample'] = {'cfg': cfg.as_dict(), 'backups': n_backups, 'mid_phase': mid_phase, 'injected': {k: v for k, v in at.items() if v},
                                 'rsync_calls': rsync_calls}
                prev = bpath
                # a new backup starts from scratch in the model
                ask('bk restart')
        hd['other'].close()
        c.close()
    except common.Infra as exc:
        res['infra'] = str(exc)
    except Exception as exc:  # pylint: disable=broad-except
        import traceback  # pylint: disable=import-outside-toplevel

        res['breaks'].append({'where': 'harness exception', 'model': '', 'real': f'{type(exc).__name__}: {exc} {traceback.format_exc()[-900:]}',
                              'theorem_or_correspondence': 'harness', 'case': {'case_id': case_id}})
    finally:
        if old_env is None:
            os.environ.pop('DOS_VERIF_RSYNC_PLAN', None)
        else:
            os.environ['DOS_VERIF_RSYNC_PLAN'] = old_env
        common.rmscratch(scratch)
    return res


def run_same_second(case_id: int):
    """two backups whose index dumps fall into the same wall-clock second, with objects packed and cleaned in between
    (rsync's default size+mtime comparison has a resolution of one second)"""
    import time  # pylint: disable=import-outside-toplevel

    dos = common.import_repo()
    from disk_objectstore import backup_utils  # pylint: disable=import-outside-toplevel

    rng = common.rng_for('C15', 'same-second', case_id)
    res = {'case_id': f'same-second-{case_id}', 'failures': [], 'breaks': [], 'stats': {'backups': 2, 'same_second': 1}, 'sample': None}
    scratch = common.mkscratch('C15')
    try:
        folder = os.path.join(scratch, 'c')
        c = dos.Container(folder)
        c.init_container(hash_type=rng.choice(['sha1', 'sha256']))
        first = [rng.randbytes(rng.randint(1, 30)) for _ in range(2)]
        k_first = [c.add_object(b) for b in first]
        c.pack_all_loose()
        c.clean_storage()
        holder = dos.Container(folder)  # another client keeps the container open (no WAL checkpoint in between)
        holder.has_objects(k_first)
        dest = os.path.join(scratch, 'dest')
        os.mkdir(dest)
        manager = backup_utils.BackupManager(dest)
        for attempt in range(3):
            now = time.time()
            time.sleep(1.02 - (now % 1.0))  # just after a tick
            t0 = int(time.time())
            b0 = Path(dest) / f'a{attempt}'
            backup_utils.backup_container(manager, c, b0, None)
            second = [rng.randbytes(rng.randint(1, 30)) for _ in range(2)]
            k_second = [c.add_object(b) for b in second]
            c.pack_all_loose()
            c.clean_storage()
            b1 = Path(dest) / f'b{attempt}'
            backup_utils.backup_container(manager, c, b1, b0)
            if int(time.time()) == t0:
                break
        rp = {'kind': 'same-second', 'case_id': case_id, 'seed': common.seed()}
        work = os.path.join(scratch, 'examine')
        shutil.copytree(b1, work)
        b = dos.Container(work)
        try:
            for k, data in zip(k_first + k_second, first + second):
                try:
                    if b.get_object_content(k) != data:
                        res['failures'].append({'signature': 'backup-wrong', 'text': 'incremental backup: an object reads back wrong', 'replay': rp})
                except dos.exceptions.NotExistent:
                    res['failures'].append({'signature': 'backup-missing-incremental',
                                            'text': 'incremental backup started within the same second as the previous one: an object packed and cleaned in between cannot be read from it', 'replay': rp})
            if not b.validate().is_valid():
                res['failures'].append({'signature': 'backup-validate', 'text': 'incremental backup: validate() not clean', 'replay': rp})
        finally:
            b.close()
        holder.close()
        c.close()
    except Exception as exc:  # pylint: disable=broad-except
        import traceback  # pylint: disable=import-outside-toplevel

        res['breaks'].append({'where': 'harness exception', 'model': '', 'real': f'{type(exc).__name__}: {exc} {traceback.format_exc()[-600:]}',
                              'theorem_or_correspondence': 'harness', 'case': {'case_id': case_id}})
    finally:
        common.rmscratch(scratch)
    return res


def run_auto_folders(case_id: int):
    """the way the CLI takes backups: `backup_auto_folders` (live-backup -> backup_<timestamp>_<rand>, `last-backup` symlink,
    old backups deleted beyond `keep`), several backups in quick succession while another client goes on working.
    After every successful backup `last-backup` must be that backup: an existing, valid container with everything that
    existed when it started; never more than keep+1 backups; the one just taken is never the one deleted."""
    dos = common.import_repo()
    from disk_objectstore import backup_utils  # pylint: disable=import-outside-toplevel

    rng = common.rng_for('C15', 'auto-folders', case_id)
    res = {'case_id': f'auto-folders-{case_id}', 'failures': [], 'breaks': [], 'stats': {'backups': 0, 'auto_folders': 1}, 'sample': None}
    scratch = common.mkscratch('C15')
    rp = {'kind': 'auto-folders', 'case_id': case_id, 'seed': common.seed()}

    def fail(sig, text):
        res['failures'].append({'signature': sig, 'text': text, 'replay': rp})

    try:
        folder = os.path.join(scratch, 'c')
        c = dos.Container(folder)
        c.init_container(hash_type=rng.choice(['sha1', 'sha256']), pack_size_target=rng.choice([4 * 1024 ** 3, 60]))
        other = dos.Container(folder)
        table = {}
        dest = os.path.join(scratch, 'dest')
        os.mkdir(dest)
        keep = rng.choice([0, 0, 1, 2])
        manager = backup_utils.BackupManager(dest, keep=keep)
        n_backups = rng.randint(2, 5)
        # the wall clock and the random suffix of the folder names are choices the code leaves to the environment: they are
        # controlled here (in-process shims of the two module references), so that several backups complete within one second
        # and the suffixes come out in any order - including the adverse one, newest first
        import datetime as real_dt  # pylint: disable=import-outside-toplevel
        import random as real_random  # pylint: disable=import-outside-toplevel

        base = real_dt.datetime(2031, 5, 17, 12, 0, 0, tzinfo=real_dt.timezone.utc)
        ticks = {'n': 0}
        per_second = rng.choice([1, 2, 3, 5])  # how many backups complete within the same second
        suffix_mode = rng.choice(['descending', 'descending', 'random'])

        class _DT:
            @staticmethod
            def now(tz=None):
                return base + real_dt.timedelta(seconds=ticks['n'] // per_second, microseconds=1000 * (ticks['n'] % per_second))

        class _DTmod:
            datetime = _DT
            timezone = real_dt.timezone
            timedelta = real_dt.timedelta

        class _Rnd:
            @staticmethod
            def choices(population, k=1, **kw):
                if suffix_mode == 'descending':
                    ch = 'zyxwvutsrqponmlkjihgfedcba'[min(25, ticks['n'])]
                    return [ch] * k
                return rng.choices(population, k=k)

            def __getattr__(self, name):
                return getattr(real_random, name)

        old_dt, old_rnd = backup_utils.datetime, backup_utils.random
        backup_utils.datetime, backup_utils.random = _DTmod, _Rnd()
        res['stats'][f'auto.per_second.{per_second}'] = 1
        history = []  # per attempt: (name given or None if it failed, folder listing, target of last-backup)
        for bi in range(n_backups):
            ticks['n'] = bi
            for _ in range(rng.randint(0, 3)):
                data = rng.randbytes(rng.randint(0, 40))
                table[other.add_object(data)] = data
            if rng.random() < 0.6:
                other.pack_all_loose(compress=rng.random() < 0.5)
                if rng.random() < 0.7:
                    other.clean_storage()
            at_start = dict(table)
            failing = rng.random() < 0.2

            def one_backup(path, prev, failing=failing):
                backup_utils.backup_container(manager, c, path, prev)
                if failing:
                    raise backup_utils.BackupError('injected: the backup fails after copying')

            try:
                manager.backup_auto_folders(one_backup)
            except backup_utils.BackupError:
                if not failing:
                    raise
            res['stats']['backups'] += 1
            names = sorted(x for x in os.listdir(dest) if x.startswith('backup_'))
            link = os.path.join(dest, 'last-backup')
            history.append((None if failing else (os.readlink(link) if os.path.islink(link) else '?'), names,
                            os.readlink(link) if os.path.islink(link) else None))
            if failing:
                continue
            if len(names) > keep + 1:
                fail('auto-too-many', f'keep={keep}: {len(names)} backups are kept after backup #{bi}')
            if not os.path.islink(link):
                fail('auto-no-link', f'backup #{bi} completed but there is no last-backup link')
                continue
            target = os.path.join(dest, os.readlink(link))
            if not os.path.isdir(target):
                fail('auto-last-backup-gone', f'keep={keep}: backup #{bi} (of {n_backups} taken in quick succession) completed, but the folder last-backup points to '
                                              f'({os.readlink(link)}) does not exist: the backup just taken was deleted as an "old" one; kept: {names}')
                continue
            work = os.path.join(scratch, f'examine{bi}')
            shutil.copytree(target, work)
            b = dos.Container(work)
            try:
                for k, data in at_start.items():
                    try:
                        if b.get_object_content(k) != data:
                            fail('auto-wrong', f'backup #{bi}: an object reads back wrong')
                    except dos.exceptions.NotExistent:
                        fail('auto-missing', f'backup #{bi} (last-backup -> {os.readlink(link)}; kept {names}): an object that existed when it started cannot be read from it')
                        break
                if not b.validate().is_valid():
                    fail('auto-validate', f'backup #{bi}: validate() not clean')
            finally:
                b.close()
            shutil.rmtree(work, ignore_errors=True)
            if res['failures']:
                break
        other.close()
        c.close()
        # the folder bookkeeping against the Lean model (names become their ranks in the sort order)
        if history and not res['failures']:
            allnames = sorted({h[0] for h in history if h[0]} | {x for h in history for x in h[1]})
            rank = {nm: i + 1 for i, nm in enumerate(allnames)}
            atts = ','.join(str(rank[h[0]]) if h[0] else 'x' for h in history)
            real = ';'.join(f"{store.show_nats([rank[x] for x in h[1]])}@{rank[h[2]] if h[2] in rank else '-'}" for h in history)
            with common.Driver() as drv:
                model = drv.ask(f'bkf {keep} {atts}')
            res['stats']['folder_histories_compared'] = 1
            if model != real:
                res['breaks'].append({'where': f'backup folders after {len(history)} attempts with keep={keep}', 'model': model, 'real': real,
                                      'theorem_or_correspondence': 'Dos.BackupFolders.run vs backup_auto_folders', 'case': {'case_id': case_id}})
    except Exception as exc:  # pylint: disable=broad-except
        import traceback  # pylint: disable=import-outside-toplevel

        res['breaks'].append({'where': 'harness exception', 'model': '', 'real': f'{type(exc).__name__}: {exc} {traceback.format_exc()[-600:]}',
                              'theorem_or_correspondence': 'harness', 'case': {'case_id': case_id}})
    finally:
        try:
            backup_utils.datetime, backup_utils.random = old_dt, old_rnd
        except NameError:
            pass
        common.rmscratch(scratch)
    return res


def _job(j):
    if isinstance(j, tuple):
        return run_auto_folders(j[1])
    return run_same_second(-j - 1) if j < 0 else run_case(j)


def _top(key, cfg):
    return key[:cfg.prefix_len] if cfg.prefix_len else key


def _wire(op, pool):
    if op['op'] == 'add':
        return {'op': 'add', 'data': pool.contents[op['c']].hex()}
    if op['op'] == 'addpack':
        return {'op': 'addpack', 'datas': [pool.contents[x].hex() for x in op['cs']], 'compress': op['compress']}
    return dict(op)


def _mirror(ops, folder, pool, cfg, existing, ask, cid, events):
    """the wrapper process has performed `ops` on the container: bring the model and the bookkeeping up to date"""
    for op in ops:
        if op['op'] == 'add':
            existing.add(op['c'])
            ask(f'bk op addLoose {op["c"]}')
        elif op['op'] == 'addpack':
            existing.update(op['cs'])
            ask(f'bk op addPacked {1 if op["compress"] else 0} 0 {store.show_nats(op["cs"])}')
        elif op['op'] == 'pack':
            # order and verdicts from the rows now on disk that the model does not have yet
            live = ask('bk live')
            _, m_rows, _, _ = parse_state(live)
            have = {r[1] for r in m_rows}
            raw = Raw(folder)
            new = [r for r in raw.rows if cid(r[1]) not in have]
            rows = []
            for p in sorted({r[2] for r in new}):
                rows += store.rows_sorted_for_order([r for r in new if r[2] == p])
            # later ops of the same batch may have packed more: keep only what this pack step could see (loose in the model now)
            m_loose = parse_state(live)[0]
            rows = [r for r in rows if cid(r[1]) in m_loose]
            out = ask(f'bk op packAll {"yes" if op["compress"] else "no"} {1 if op["clean"] else 0} '
                      f'{store.show_nats([cid(r[1]) for r in rows])} {store.show_nats([1 if r[5] else 0 for r in rows])}')
            if out != 'ok':
                raise common.Infra('model rejected a mirrored pack step: ' + out)
        elif op['op'] == 'clean':
            ask('bk op clean')
        events.append(op)


def _examine(res, dos, bpath, scratch, pool, cfg, at_start, img, fin, rp, bi):
    def fail(sig, text):
        res['failures'].append({'signature': sig, 'text': text, 'replay': rp})
    # work on a copy: opening a container modifies the folder (WAL files), and the next backup hard-links against it
    work = os.path.join(scratch, f'examine{bi}')
    side_files = [n for n in os.listdir(bpath) if n.startswith('packs.idx-')]
    shutil.copytree(bpath, work)
    missing_dirs = [dname for dname in ('loose', 'packs', 'sandbox', 'duplicates') if not os.path.isdir(os.path.join(work, dname))]
    if missing_dirs or not os.path.exists(os.path.join(work, 'config.json')) or not os.path.exists(os.path.join(work, 'packs.idx')):
        fail('backup-not-a-container', f'backup {bi} is not a container folder: missing {missing_dirs or "config.json / packs.idx"}')
        for dname in missing_dirs:
            os.makedirs(os.path.join(work, dname))
        if not os.path.exists(os.path.join(work, 'packs.idx')):
            return
    raw = Raw(work)
    # ---- correspondence with the model image
    m_loose, m_rows, m_packs, _ = parse_state(img.split(' atstart=')[0])
    cidf = lambda k: (pool.cid_of_key(k, cfg.hash_type) if pool.cid_of_key(k, cfg.hash_type) is not None else 999999)  # noqa: E731
    real_rows = {(rid, cidf(hk), pack, off, ln, 1 if comp else 0, size) for (rid, hk, pack, off, ln, comp, size) in raw.rows}
    real_loose = {cidf(k): (pool.cid_of_bytes(v) if pool.cid_of_bytes(v) is not None else 4294967294) for k, v in raw.loose_bytes.items()}
    probs = []
    if fin != 'ok':
        probs.append('the model refuses to finish: a pack mentioned by the dumped index was not copied after the dump')
    if real_rows != m_rows:
        probs.append(f'index rows: model-only {sorted(m_rows - real_rows)[:2]} backup-only {sorted(real_rows - m_rows)[:2]}')
    if real_loose != m_loose:
        probs.append(f'loose files: model {sorted(m_loose.items())} backup {sorted(real_loose.items())}')
    for pid, segs in m_packs.items():
        if seg_bytes(pool, cfg.level, segs) != raw.pack_bytes.get(str(pid), b'?'):
            probs.append(f'pack {pid}: model has {len(seg_bytes(pool, cfg.level, segs))} bytes, backup {len(raw.pack_bytes.get(str(pid), b""))}')
    if side_files:
        probs.append(f'live index side files in the backup: {side_files}')
    if probs:
        res['breaks'].append({'where': 'backup folder vs model image: ' + probs[0][:250], 'model': img[:300], 'real': '',
                              'theorem_or_correspondence': 'Dos.Backup.image vs the backup folder', 'case': rp})
    # ---- direct oracle
    for p in raw.consistency_problems():
        fail('backup-raw', f'backup {bi}: {p}')
    b = dos.Container(work)
    try:
        for x in sorted(at_start):
            k = pool.key(x, cfg.hash_type)
            try:
                data = b.get_object_content(k)
            except dos.exceptions.NotExistent:
                fail('backup-missing', f'backup {bi}: cid {x} existed when the backup started but cannot be read from it')
                continue
            except Exception as exc:  # pylint: disable=broad-except
                fail('backup-unreadable', f'backup {bi}: reading cid {x} raised {type(exc).__name__}')
                continue
            if data != pool.contents[x]:
                fail('backup-wrong', f'backup {bi}: cid {x} reads back as {len(data)} wrong bytes')
        for k in set(b.list_all_objects()):
            try:
                data = b.get_object_content(k)
                if hashlib.new(cfg.hash_type, data).hexdigest() != k:
                    fail('backup-exposed-wrong', f'backup {bi}: key {k[:10]} is listed but reads back as other bytes')
            except Exception as exc:  # pylint: disable=broad-except
                fail('backup-exposed-unreadable', f'backup {bi}: key {k[:10]} is listed but reading it raised {type(exc).__name__}')
        v = b.validate()
        if not v.is_valid():
            fail('backup-validate', f'backup {bi}: validate() reports {[f for f in vars(v) if getattr(v, f)]}')
    finally:
        b.close()
    shutil.rmtree(work, ignore_errors=True)


def run(tier: str) -> Report:
    rep = Report('C15')
    n = QUICK if tier == 'quick' else THOROUGH
    # timing-sensitive scenario first, while the machine is quiet
    timing = [_job(-1), _job(-2)]
    ctx = mp.get_context('fork')
    with ctx.Pool(processes=min(12, os.cpu_count() or 4)) as pool:
        results = timing + pool.map(_job, list(range(n)) + [('auto', i) for i in range(12 if tier == 'quick' else 150)], chunksize=1)
    for r in results:
        rep.evaluations += max(1, r['stats'].get('backups', 0))
        if r.get('infra'):
            rep.infra.append(r['infra'])
        rep.failures += r['failures'][:2]
        rep.breaks += r['breaks'][:2]
        for k, v in r['stats'].items():
            rep.stats[k] = rep.stats.get(k, 0) + v
        if r.get('sample') and len(rep.samples) < 2:
            rep.samples.append(r['sample'])
    rep.traces_validated = rep.stats.get('backups', 0)
    rep.distinct_nontrivial = rep.evaluations
    rep.rule = ('real backup_container runs with the real rsync; another client adds loose objects, writes to packs, packs (with/without per-pack '
                'cleaning) and cleans at seeded placements before / between the copy steps and, through a two-pass rsync wrapper, inside the loose or the '
                'packs phase; first and incremental (--link-dest) backups; each backup is one case')
    rep.assumptions = ['rsync copies every file that exists throughout a phase, each as it is at some moment of the phase, and honours --exclude / --link-dest / --checksum',
                       'the sqlite3 online backup API yields a committed snapshot',
                       'concurrent steps are whole operations placed between rsync passes (finer interleavings are covered by the theorem, not by the runs)']
    return rep


def replay(path: str) -> int:
    doc = json.loads(open(path).read())
    rp = doc.get('replay') or {}
    if rp.get('kind') not in ('backup', 'same-second', 'auto-folders'):
        print('nothing to replay')
        return 2
    os.environ['VERIF_SEED'] = str(rp.get('seed', 0))
    common.build_lean()
    r = (run_case(rp['case_id']) if rp.get('kind') == 'backup' else run_auto_folders(rp['case_id']) if rp.get('kind') == 'auto-folders'
         else run_same_second(rp['case_id']))
    for f in r['failures']:
        print('FAIL', f['text'])
    for b in r['breaks']:
        print('BREAK', b)
    if r['failures']:
        print(f'VIOLATION property=C15 replay={path}')
        return 1
    return 0
