"""C02: decided on operation histories (see DESIGN.md section 7 for what is compared and proved)."""
from ._store import replay_store, run_store

QUICK = [('general', 110), ('import', 30)]
THOROUGH = [('general', 1500), ('import', 300), ('delete', 300)]


def run(tier: str):
    return run_store('C02', tier, QUICK, THOROUGH)


def replay(path: str) -> int:
    return replay_store('C02', path)
