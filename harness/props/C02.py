"""C02: decided on operation histories (see DESIGN.md section 7 for what is compared and proved)."""
from . import _multi
from ._store import replay_store, run_store

QUICK = [('general', 110), ('import', 30)]
THOROUGH = [('general', 1500), ('import', 300), ('delete', 300)]


def run(tier: str):
    rep = run_store('C02', tier, QUICK, THOROUGH)
    # the same views asked through several handles on one container (any handle must answer like the map)
    rep.failures += _multi.stale_handle_failures('C02', 40 if tier == 'quick' else 500, ('has-', 'get-', 'meta-', 'bulk', 'list-', 'add-key'), rep)
    return rep


def replay(path: str) -> int:
    r_ = _multi.replay_multi('C02', path)
    return r_ if r_ is not None else replay_store('C02', path)
