"""C08: a long-open handle sees everything acknowledged through other handles.

Lean side (lean/Dos/Multi.lean, Dos/Proofs/MultiProofs.lean): handles with pinned index snapshots; theorem
`handle_sees_acked` for all histories of add / pack / clean / queries over any number of handles.
Here: k real Container objects on one folder, operations issued one at a time through any of them; every query is
compared with the model (where it was found: packed / loose / missing, and which content), and the direct oracle
demands that every handle reports every acknowledged object with the right bytes in has / get / meta / list."""
from __future__ import annotations

import io
import json
import multiprocessing as mp
import os

from .. import common, store
from ..content import Pool
from ..main import Report
from ..rawstate import Raw

QUICK = 90
THOROUGH = 1500


def run_case(case_id: int, ops_override=None, target_override=None):
    dos = common.import_repo()
    rng = common.rng_for('C08', case_id)
    cfg = store.default_cfg(rng, 0.7)
    pool = Pool(rng, 9, 'tiny', level=cfg.level, fixed=[b''] if rng.random() < 0.5 else None)
    nh = rng.choice([2, 2, 3])
    # 40 % of the cases follow a template that aims at the slowest read path: every handle pins a snapshot, objects are added
    # through all handles, packed into several packs (small target) and cleaned, then every handle asks for everything at once
    t_draw, t_target = rng.random(), rng.choice([1, 40, 150])  # (drawn in every run, so that a replay sees the same later draws)
    templated = ops_override is None and t_draw < 0.4
    if templated:
        cfg.target = t_target
    if target_override is not None:
        cfg.target = target_override
    scratch = common.mkscratch('C08')
    res = {'case_id': case_id, 'failures': [], 'breaks': [], 'steps': 0, 'stats': {}, 'trace': []}
    handles = []
    try:
        folder = os.path.join(scratch, 'c')
        first = dos.Container(folder)
        first.init_container(pack_size_target=cfg.target, loose_prefix_len=cfg.prefix_len, hash_type=cfg.hash_type,
                             compression_algorithm=f'zlib+{cfg.level}')
        handles = [first] + [dos.Container(folder) for _ in range(nh - 1)]
        if rng.random() < 0.5:
            # the library's batch sizes lowered, so that a handful of keys crosses them (IN-lists, switch to the full scan)
            in_max, scan_max = rng.choice([1, 2, 3]), rng.choice([0, 2, 5, 9500])
            for hd_ in handles:
                hd_._IN_SQL_MAX_LENGTH = in_max  # pylint: disable=protected-access
                hd_._MAX_CHUNK_ITERATE_LENGTH = scan_max  # pylint: disable=protected-access
            res['stats']['thresholds_lowered'] = 1
        acked: set[int] = set()
        key = lambda c: pool.key(c, cfg.hash_type)  # noqa: E731
        cid = lambda k: pool.cid_of_key(k, cfg.hash_type)  # noqa: E731
        with common.Driver() as drv:
            def ask(line):
                out = drv.ask(line)
                if out.startswith('bad-op'):
                    raise common.Infra(f'driver rejected {line}: {out}')
                return out

            ask(f'multi new {cfg.target} {nh}')
            ask(f'multi tab {pool.tab_entries(level=cfg.level)}')

            def fail(sig, text):
                res['failures'].append({'signature': sig, 'text': text,
                                        'replay': {'kind': 'multi', 'case_id': case_id, 'seed': common.seed(), 'target': cfg.target, 'ops': list(res['trace'])}})

            nops = rng.randint(8, 30)
            planned = ops_override
            if templated:
                planned = []
                early = rng.sample(range(len(pool)), 2)
                planned.append({'op': 'add', 'h': 0, 'c': early[0], 'via': 'bytes'})
                for h_ in range(nh):
                    planned.append({'op': rng.choice(['has', 'get', 'meta', 'list', 'bulk']), 'h': h_, 'k': rng.choice(early)})
                for round_ in range(rng.choice([1, 2])):
                    for c_ in rng.sample(range(len(pool)), rng.randint(3, len(pool))):
                        planned.append({'op': 'add', 'h': rng.randrange(nh), 'c': c_, 'via': rng.choice(['bytes', 'stream'])})
                    per_pack = rng.random() < 0.5
                    if nh > 1 and rng.random() < 0.35:
                        planned.append({'op': rng.choice(['lazylist', 'lazymeta']), 'h': rng.randrange(1, nh), 'k': 0, 'fresh': rng.random() < 0.5})
                    planned.append({'op': 'pack', 'mode': rng.choice(['no', 'yes', 'auto', 'keep']), 'clean': per_pack})
                    if not per_pack or rng.random() < 0.5:
                        planned.append({'op': 'clean'})
                for h_ in rng.sample(range(nh), nh):
                    planned.append({'op': rng.choice(['bulk', 'bulk', 'bulkseek', 'bulkmeta', 'list']), 'h': h_, 'k': rng.randrange(len(pool)), 'all': True})
                    planned.append({'op': rng.choice(['has', 'get', 'meta', 'bulk']), 'h': h_, 'k': rng.randrange(len(pool))})
            for step in range(nops if planned is None else len(planned)):
                if planned is not None:
                    op = planned[step]
                else:
                    x = rng.random()
                    if x < 0.30:
                        c = rng.choice(sorted(acked)) if acked and rng.random() < 0.3 else rng.randrange(len(pool))
                        op = {'op': 'add', 'h': rng.randrange(nh), 'c': c, 'via': rng.choice(['bytes', 'stream'])}
                    elif x < 0.42:
                        op = {'op': 'pack', 'mode': rng.choice(['no', 'yes', 'auto', 'keep']), 'clean': rng.random() < 0.4}
                    elif x < 0.52:
                        op = {'op': 'clean'}
                    else:
                        k = rng.choice(sorted(acked)) if acked and rng.random() < 0.8 else rng.randrange(len(pool))
                        op = {'op': rng.choice(['has', 'get', 'meta', 'list', 'bulk', 'bulkseek', 'bulkmeta']), 'h': rng.randrange(nh), 'k': k, 'skip': rng.random() < 0.3}
                res['trace'].append(op)
                res['steps'] += 1
                res['stats']['op.' + op['op']] = res['stats'].get('op.' + op['op'], 0) + 1
                kind = op['op']
                if kind == 'add':
                    data = pool.contents[op['c']]
                    hd = handles[op['h']]
                    k = hd.add_streamed_object(io.BytesIO(data)) if op['via'] == 'stream' else hd.add_object(data)
                    if cid(k) != op['c']:
                        fail('add-key', f'handle {op["h"]} returned a wrong key for cid {op["c"]}')
                    acked.add(op['c'])
                    ask(f'multi add {op["h"]} {op["c"]}')
                elif kind in ('lazylist', 'lazymeta') and op['h'] != 0:
                    # a query consumed step by step, with the packing handle packing and cleaning after its first result:
                    # everything acknowledged before the query started must still be reported (no model for the mixture; the
                    # handles are brought back in step with the model by a plain listing afterwards)
                    hd = handles[op['h']]
                    before = set(acked)
                    req = [key(x) for x in range(len(pool))]
                    if op.get('fresh'):
                        hd.close()  # the handle has no session at all when the query starts (closed handles reopen on demand)
                    gen_ = hd.list_all_objects() if kind == 'lazylist' else hd.get_objects_meta(req, skip_if_missing=False)
                    got_items = []
                    first_ = next(gen_, None)
                    if first_ is not None:
                        got_items.append(first_)
                    pre = Raw(folder)
                    handles[0].pack_all_loose(compress=rng.random() < 0.5, clean_loose_per_pack=rng.random() < 0.5)
                    handles[0].clean_storage()
                    post = Raw(folder)
                    pre_keys = {r[1] for r in pre.rows}
                    new = [r for r in post.rows if r[1] not in pre_keys]
                    rows = []
                    for p in sorted({r[2] for r in new}):
                        rows += store.rows_sorted_for_order([r for r in new if r[2] == p])
                    ask(f'multi list {op["h"]}')
                    out = ask(f'multi pack {"yes" if rows and rows[0][5] else "no"} 0 {store.show_nats([cid(r[1]) for r in rows])} '
                              f'{store.show_nats([1 if r[5] else 0 for r in rows])}')
                    ask('multi clean')
                    got_items += list(gen_)
                    if kind == 'lazylist':
                        seen_ = {cid(x) for x in got_items}
                        miss = sorted(before - seen_)
                        if miss:
                            fail('lazylist-stale', f'handle {op["h"]}: a listing consumed step by step (the packing handle packed and cleaned after its first result) '
                                                   f'omits cids {miss[:4]}, acknowledged before it started')
                    else:
                        rep_ = {cid(hk): m_['type'].value for hk, m_ in got_items}
                        miss = sorted(x for x in before if rep_.get(x, 'missing') == 'missing')
                        if miss:
                            fail('lazymeta-stale', f'handle {op["h"]}: get_objects_meta consumed step by step (the packing handle packed and cleaned after its first '
                                                   f'result) reports cids {miss[:4]} as missing, acknowledged before it started')
                    # resynchronise: a plain listing refreshes the handle's snapshot on both sides
                    list(hd.list_all_objects())
                    ask(f'multi list {op["h"]}')
                    if out != 'ok':
                        break
                    res['stats']['lazy_queries'] = res['stats'].get('lazy_queries', 0) + 1
                elif kind in ('lazylist', 'lazymeta'):
                    pass
                elif kind == 'pack':
                    pre = Raw(folder)
                    handles[0].pack_all_loose(compress=store._mode_obj(dos, op['mode']), clean_loose_per_pack=op['clean'])  # pylint: disable=protected-access
                    post = Raw(folder)
                    pre_keys = {r[1] for r in pre.rows}
                    new = [r for r in post.rows if r[1] not in pre_keys]
                    rows = []
                    for p in sorted({r[2] for r in new}):
                        rows += store.rows_sorted_for_order([r for r in new if r[2] == p])
                    order = [cid(r[1]) for r in rows]
                    zs = [1 if r[5] else 0 for r in rows]
                    out = ask(f'multi pack {op["mode"]} {1 if op["clean"] else 0} {store.show_nats(order)} {store.show_nats(zs)}')
                    if out != 'ok':
                        res['breaks'].append({'where': f'pack step {step}', 'model': out, 'real': 'ok', 'theorem_or_correspondence': 'Dos.Multi.mstep pack', 'case': {'case_id': case_id}})
                        break
                elif kind == 'clean':
                    handles[0].clean_storage()
                    ask('multi clean')
                else:
                    hd = handles[op['h']]
                    k = op['k']
                    kk = key(k)
                    if kind == 'list':
                        listed = sorted(cid(x) if cid(x) is not None else -1 for x in set(hd.list_all_objects()))
                        model = ask(f'multi list {op["h"]}')
                        if store.show_nats(listed) != model:
                            res['breaks'].append({'where': f'list_all_objects on handle {op["h"]} (step {step})', 'model': model, 'real': store.show_nats(listed),
                                                  'theorem_or_correspondence': 'Dos.Multi.qList', 'case': {'case_id': case_id, 'ops': list(res['trace'])}})
                        if set(listed) != acked:
                            fail('list-stale', f'handle {op["h"]} lists cids {listed}, acknowledged so far: {sorted(acked)}')
                    else:
                        if kind == 'has':
                            real_has = hd.has_object(kk)
                            found = None
                            data = None
                        elif kind == 'meta':
                            try:
                                m = hd.get_object_meta(kk)
                                found, data, real_has = m['type'].value, None, True
                                if m['size'] != pool.size(k):
                                    fail('meta-size', f'handle {op["h"]}: metadata of cid {k} reports size {m["size"]}, the content has {pool.size(k)} bytes')
                            except dos.exceptions.NotExistent:
                                found, data, real_has = 'missing', None, False
                        elif kind in ('bulkseek', 'bulkmeta'):
                            others = [key(x) for x in (range(len(pool)) if op.get('all') else rng.sample(range(len(pool)), rng.choice([min(3, len(pool)), len(pool)])))]
                            req = [kk] + [o for o in others if o != kk]
                            got = {}
                            if kind == 'bulkmeta':
                                skip = bool(op.get('skip', False))
                                for hk, m in hd.get_objects_meta(req, skip_if_missing=skip):
                                    if hk in got:
                                        fail('bulkmeta-twice', f'handle {op["h"]}: get_objects_meta reported key of cid {cid(hk)} twice')
                                    got[hk] = m
                                    x = cid(hk)
                                    if x in acked and m['type'].value != 'missing' and m['size'] != pool.size(x):
                                        fail('bulkmeta-size', f'handle {op["h"]}: bulk metadata of cid {x} reports size {m["size"]}, the content has {pool.size(x)} bytes')
                                    if x in acked and m['type'].value == 'missing':
                                        fail('bulkmeta-stale', f'handle {op["h"]}: bulk metadata reports acknowledged cid {x} as missing')
                                real_has = got[kk]['type'].value != 'missing' if kk in got else False
                                data, found = None, None
                                # the whole answer against the batched three-stage lookup of the model (Dos.Multi.bulkLookup)
                                def form(m_):
                                    tv = m_['type'].value
                                    return f'packed.{m_["pack_id"]}.{m_["pack_offset"]}.{m_["pack_length"]}' if tv == 'packed' else tv
                                real_line = ','.join(f'{x}={form(got[key(x)])}' for x in sorted(cid(hk_) for hk_ in got)) or '-'
                                model_line = ask(f'multi bulk {op["h"]} {hd._IN_SQL_MAX_LENGTH} {hd._MAX_CHUNK_ITERATE_LENGTH} {1 if skip else 0} '  # pylint: disable=protected-access
                                                 f'{store.show_nats([cid(x) for x in req])}')
                                res['stats']['bulk_lookups_compared'] = res['stats'].get('bulk_lookups_compared', 0) + 1
                                if real_line != model_line:
                                    res['breaks'].append({'where': f'get_objects_meta of {len(req)} keys on handle {op["h"]} (step {step})', 'model': model_line[:300],
                                                          'real': real_line[:300], 'theorem_or_correspondence': 'Dos.Multi.bulkLookup (bulkLookup_spec)',
                                                          'case': {'case_id': case_id, 'ops': list(res['trace'])}})
                            else:
                                loose_before = set(Raw(folder).loose_bytes)
                                with hd.get_objects_stream_and_meta(req, skip_if_missing=False) as triplets:
                                    for hk, st, m in triplets:
                                        x = cid(hk)
                                        if st is None:
                                            got[hk] = None
                                            if x in acked:
                                                fail('bulkseek-stale', f'handle {op["h"]}: bulk stream read reports acknowledged cid {x} as missing')
                                            continue
                                        want = pool.contents[x] if x is not None else None
                                        first = st.read(3)
                                        end = st.seek(0, 2)
                                        st.seek(max(0, end - 2))
                                        tail = st.read()
                                        st.seek(0)
                                        whole = st.read()
                                        got[hk] = whole
                                        if want is not None and x in acked and (first != want[:3] or end != len(want) or tail != want[max(0, len(want) - 2):] or whole != want
                                                                                or m['size'] != len(want)):
                                            fail('bulkseek-wrong', f'handle {op["h"]}: stream of cid {x} ({len(want)} bytes) in a bulk read: seek(0,2) gave {end}, '
                                                                   f'size {m["size"]}, reads gave {len(first)}/{len(tail)}/{len(whole)} bytes that are not its content')
                                data = got.get(kk)
                                real_has = data is not None
                                found = None
                            if kind == 'bulkseek':
                                for o in others:
                                    ask(f'multi get {op["h"]} {cid(o)}')
                            if kind == 'bulkseek':
                                # seeking in a compressed packed object re-loosens it (a cache): the same effect as adding it loose
                                for hk in sorted(set(Raw(folder).loose_bytes) - loose_before):
                                    ask(f'multi get {op["h"]} {cid(hk)}')
                                    ask(f'multi add {op["h"]} {cid(hk)}')
                        elif kind == 'bulk':
                            others = [key(x) for x in (range(len(pool)) if op.get('all') else rng.sample(range(len(pool)), rng.choice([min(3, len(pool)), len(pool) - 1, len(pool)])))]
                            got = hd.get_objects_content([kk] + others, skip_if_missing=False)
                            data = got.get(kk)
                            real_has = data is not None
                            found = None
                            for x in range(len(pool)):
                                if key(x) in got and x in acked and got[key(x)] != pool.contents[x]:
                                    fail('bulk-stale', f'handle {op["h"]}: bulk read of acknowledged cid {x} gave {None if got[key(x)] is None else len(got[key(x)])} bytes')
                            # the model sees the same lookups, one key at a time
                            for o in others:
                                ask(f'multi get {op["h"]} {cid(o)}')
                        else:
                            try:
                                data = hd.get_object_content(kk)
                                real_has = True
                            except dos.exceptions.NotExistent:
                                data, real_has = None, False
                            found = None
                        model = ask(f'multi get {op["h"]} {k}')
                        m_kind, _, m_c = model.partition(':')
                        if (m_kind != 'missing') != real_has or (found is not None and found != m_kind) or \
                                (data is not None and str(pool.cid_of_bytes(data)) != m_c):
                            res['breaks'].append({'where': f'{kind} of cid {k} on handle {op["h"]} (step {step})', 'model': model,
                                                  'real': f'has={real_has} found={found} content={None if data is None else pool.cid_of_bytes(data)}',
                                                  'theorem_or_correspondence': 'Dos.Multi.lookup', 'case': {'case_id': case_id, 'ops': list(res['trace'])}})
                        if k in acked and not real_has:
                            fail(f'{kind}-stale', f'handle {op["h"]} does not find cid {k}, acknowledged earlier through another handle')
                        if k in acked and data is not None and data != pool.contents[k]:
                            fail(f'{kind}-wrong', f'handle {op["h"]} reads cid {k} as {len(data)} wrong bytes')
                        if k not in acked and real_has:
                            fail(f'{kind}-ghost', f'handle {op["h"]} finds cid {k}, which was never added')
                if res['breaks'] or len(res['failures']) > 3:
                    break
    except common.Infra as exc:
        res['infra'] = str(exc)
    except Exception as exc:  # pylint: disable=broad-except
        import traceback  # pylint: disable=import-outside-toplevel

        res['breaks'].append({'where': 'harness exception', 'model': '', 'real': f'{type(exc).__name__}: {exc} {traceback.format_exc()[-700:]}',
                              'theorem_or_correspondence': 'harness', 'case': {'case_id': case_id, 'ops': res['trace']}})
    finally:
        for hd in handles:
            try:
                hd.close()
            except Exception:  # pylint: disable=broad-except
                pass
        common.rmscratch(scratch)
    return res


def run(tier: str) -> Report:
    rep = Report('C08')
    n = QUICK if tier == 'quick' else THOROUGH
    ctx = mp.get_context('fork')
    with ctx.Pool(processes=min(14, os.cpu_count() or 4)) as pool:
        results = pool.map(run_case, range(n), chunksize=2)
    digests = set()
    for r in results:
        rep.evaluations += 1
        rep.traces_validated += r['steps']
        if r.get('infra'):
            rep.infra.append(r['infra'])
        rep.failures += r['failures'][:2]
        rep.breaks += r['breaks'][:2]
        for k, v in r['stats'].items():
            rep.stats[k] = rep.stats.get(k, 0) + v
        digests.add(json.dumps(r['trace'], sort_keys=True))
        if len(rep.samples) < 2:
            rep.samples.append({'case_id': r['case_id'], 'ops': r['trace'][:14]})
    from .. import bigstore  # pylint: disable=import-outside-toplevel

    rep.failures += bigstore.failures_for('C08', 6 if tier == 'quick' else 90, rep)
    rep.distinct_nontrivial = len(digests)
    rep.rule = ('sequential histories over 2-3 real handles on one folder: add loose through any handle, pack (any mode, with/without per-pack '
                'cleaning) and clean through handle 0, has/get/meta/list/bulk queries through any handle (which pin index snapshots); '
                'distinct = distinct operation sequences')
    rep.assumptions = ['SQLite WAL snapshot isolation: a session keeps its read snapshot until it commits or is closed',
                       'operations are issued one at a time (the property is about sequential histories); concurrency is C04']
    return rep


def replay(path: str) -> int:
    from .. import bigstore  # pylint: disable=import-outside-toplevel

    r_big = bigstore.replay_big('C08', path)
    if r_big is not None:
        return r_big
    doc = json.loads(open(path).read())
    rp = doc.get('replay') or {}
    if rp.get('kind') != 'multi':
        print('nothing to replay')
        return 2
    os.environ['VERIF_SEED'] = str(rp.get('seed', 0))
    common.build_lean()
    r = run_case(rp['case_id'], ops_override=rp['ops'], target_override=rp.get('target'))
    for f in r['failures']:
        print('FAIL', f['text'])
    for b in r['breaks']:
        print('BREAK', b)
    if r['failures']:
        print(f'VIOLATION property=C08 replay={path}')
        return 1
    return 0
